#include "rat.h"
#include <Fastor/Fastor.h>
namespace Fastor { template<> struct is_numeric<vf::Rat> { static constexpr bool value = true; }; }
using namespace Fastor; using vf::Rat;
template<size_t n> void go() {
  Tensor<Rat,n,n> A; for (size_t i=0;i<n;++i) for (size_t j=0;j<n;++j) A(i,j) = Rat((int)((i*7+j*3)%5) - 2 + (i==j? (int)(2*n+3):0));
  Tensor<Rat,n,n> X = inverse(A);
  Tensor<Rat,n,n> I = matmul(A,X);
  bool ok=true; for (size_t i=0;i<n;++i) for (size_t j=0;j<n;++j) if (!(I(i,j)==Rat(i==j?1:0))) ok=false;
  Tensor<Rat,n,n> L,U; lu(A,L,U);
  Tensor<Rat,n,n> LU = matmul(L,U); bool ok2=true; for (size_t i=0;i<n*n;++i) if (!(LU.data()[i]==A.data()[i])) ok2=false;
  Tensor<Rat,n> b; for (size_t i=0;i<n;++i) b(i)=Rat((int)i+1);
  Tensor<Rat,n> x = solve(A,b); Tensor<Rat,n> r = matmul(A,x); bool ok3=true; for (size_t i=0;i<n;++i) if(!(r(i)==b(i))) ok3=false;
  std::printf("n=%zu inv=%d lu=%d solve=%d X00=%s\n", n, ok, ok2, ok3, X(0,0).str().c_str());
}
int main(){ go<2>(); go<3>(); go<4>(); go<5>(); go<6>(); go<9>(); }
