import FastorModel.Driver.Matmul
import FastorModel.Driver.Einsum
import FastorModel.Driver.Expr
import FastorModel.Driver.Lazy
import FastorModel.Driver.Config
import FastorModel.Driver.Views
/-
  `fmodel`: line-protocol driver.  Reads one case per line on stdin, prints the model's observables
  for it.  The harness prints the implementation's observables for the same case in the same format.
  Command handlers live in FastorModel/Driver/*.lean (no Mathlib imports there, so that this links).
-/
open Fastor Fastor.Driver Fastor.Driver.ViewsCmd

def step (line : String) : String :=
  match line.trimAscii.toString.splitOn " " with
  | "matmul" :: rest => runMatmul (parseKV rest)
  | "tmatmul" :: rest => runTmatmul (parseKV rest)
  | "einsum" :: rest => runEinsum (parseKV rest)
  | "einsumn" :: rest => runEinsumN (parseKV rest)
  | "expr" :: rest => runExpr (parseKV rest)
  | "lazy" :: rest => runLazy (parseKV rest)
  | "config" :: rest => runConfig (parseKV rest)
  | "view" :: rest => runView (parseKV rest)
  | "sidx" :: rest => runSidx (parseKV rest)
  | "iseq" :: rest => runIseq (parseKV rest)
  | "diag" :: rest => runDiag (parseKV rest)
  | _ => "bad-op"

partial def loop (h : IO.FS.Stream) (out : IO.FS.Stream) : IO Unit := do
  let line ← h.getLine
  if line.isEmpty then return ()
  out.putStrLn (step line)
  loop h out

def main : IO Unit := do
  let out ← IO.getStdout
  loop (← IO.getStdin) out
  out.flush
