import FastorModel.Driver.Matmul
import FastorModel.Driver.Einsum
import FastorModel.Driver.Expr
import FastorModel.Driver.Lazy
import FastorModel.Driver.Config
import FastorModel.Driver.Simd
import FastorModel.Driver.SimdGen
import FastorModel.Driver.Footprint
import FastorModel.Driver.ViewWrite
import FastorModel.Driver.Linalg
import FastorModel.Driver.Permute
import FastorModel.Driver.RandomViews
import FastorModel.Driver.Reduce
import FastorModel.Driver.Horizontal
import FastorModel.Driver.Layout
import FastorModel.Driver.QR
import FastorModel.Driver.QRF
import FastorModel.Driver.LU
import FastorModel.Driver.Solve
import FastorModel.Driver.Views
/-
  `fmodel`: line-protocol driver.  Reads one case per line on stdin, prints the model's observables
  for it.  The harness prints the implementation's observables for the same case in the same format.
  Command handlers live in FastorModel/Driver/*.lean (no Mathlib imports there, so that this links).
-/
open Fastor Fastor.Driver Fastor.Driver.ViewsCmd

def step (line : String) : String :=
  match line.trimAscii.toString.splitOn " " with
  | "matmul" :: rest => runMatmul (parseKV rest)
  | "tmatmul" :: rest => runTmatmul (parseKV rest)
  | "einsum" :: rest => runEinsum (parseKV rest)
  | "einsumn" :: rest => runEinsumN (parseKV rest)
  | "expr" :: rest => runExpr (parseKV rest)
  | "lazy" :: rest => runLazy (parseKV rest)
  | "config" :: rest => runConfig (parseKV rest)
  | "intrin" :: rest => runIntrin (parseKV rest)
  | "gen" :: rest => runGen (parseKV rest)
  | "pfoot" :: rest => runPfoot (parseKV rest)
  | "bounds" :: rest => runBounds (parseKV rest)
  | "memidx" :: rest => runMemidx (parseKV rest)
  | "aflag" :: rest => runAflag (parseKV rest)
  | "kern3" :: rest => runKern3 (parseKV rest)
  | "vw" :: rest => runVw (parseKV rest)
  | "sw" :: rest => runSw (parseKV rest)
  | "inv" :: rest => runInv (parseKV rest)
  | "permute" :: rest => runPermute (parseKV rest)
  | "pmeta" :: rest => runPmeta (parseKV rest)
  | "pmeta2" :: rest => runPmeta2 (parseKV rest)
  | "transpose" :: rest => runTranspose (parseKV rest)
  | "rview" :: rest => runRview (parseKV rest)
  | "fview" :: rest => runFview (parseKV rest)
  | "rview2" :: rest => runRview2 (parseKV rest)
  | "rview3" :: rest => runRview3 (parseKV rest)
  | "fview3" :: rest => runFview3 (parseKV rest)
  | "rctor2" :: rest => runRctor2 (parseKV rest)
  | "rvsrc" :: rest => runRvsrc (parseKV rest)
  | "fvsrc" :: rest => runFvsrc (parseKV rest)
  | "rstaged" :: rest => runRstaged (parseKV rest)
  | "fstaged" :: rest => runFstaged (parseKV rest)
  | "reduce" :: rest => runReduce (parseKV rest)
  | "minmax" :: rest => runMinmax (parseKV rest)
  | "pred" :: rest => runPred (parseKV rest)
  | "detqr" :: rest => runDetQR (parseKV rest)
  | "hstep" :: rest => C16H.runHstep (parseKV rest)
  | "hspec" :: rest => C16H.runHspec (parseKV rest)
  | "layout" :: rest => runLayout (parseKV rest)
  | "mapops" :: rest => runMapops (parseKV rest)
  | "mapwide" :: rest => runMapwide (parseKV rest)
  | "qr" :: rest => runQR (parseKV rest)
  | "qrf" :: rest => runQRF (parseKV rest)
  | "lu" :: rest => runLU (parseKV rest)
  | "solve" :: rest => runSolve (parseKV rest)
  | "fsub" :: rest => runFsub (parseKV rest)
  | "bsub" :: rest => runBsub (parseKV rest)
  | "view" :: rest => runView (parseKV rest)
  | "sidx" :: rest => runSidx (parseKV rest)
  | "iseq" :: rest => runIseq (parseKV rest)
  | "diag" :: rest => runDiag (parseKV rest)
  | _ => "bad-op"

partial def loop (h : IO.FS.Stream) (out : IO.FS.Stream) : IO Unit := do
  let line ← h.getLine
  if line.isEmpty then return ()
  out.putStrLn (step line)
  loop h out

def main : IO Unit := do
  let out ← IO.getStdout
  loop (← IO.getStdin) out
  out.flush
