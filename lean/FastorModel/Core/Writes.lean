/-
  Memory as `Nat → α`, programs as ordered lists of writes `(position, value)`.
  `lastWrite ws p` is the value of the last write to `p`, `applyWrites` the resulting memory.
  `WritesExactly ws D f`: the writes stay inside the region `D`, touch every position of `D`,
  and the final value of every position `p ∈ D` is `f p`.
-/
namespace Fastor

variable {α : Type}

def lastWrite : List (Nat × α) → Nat → Option α
  | [], _ => none
  | w :: ws, p =>
    match lastWrite ws p with
    | some v => some v
    | none => if w.1 = p then some w.2 else none

def applyWrites (ws : List (Nat × α)) (m : Nat → α) : Nat → α :=
  ws.foldl (fun m w => fun p => if p = w.1 then w.2 else m p) m

theorem applyWrites_append (xs ys : List (Nat × α)) (m : Nat → α) :
    applyWrites (xs ++ ys) m = applyWrites ys (applyWrites xs m) := by
  simp [applyWrites, List.foldl_append]

theorem applyWrites_eq_lastWrite (ws : List (Nat × α)) (m : Nat → α) (p : Nat) :
    applyWrites ws m p = (lastWrite ws p).getD (m p) := by
  induction ws generalizing m with
  | nil => simp [applyWrites, lastWrite]
  | cons w ws ih =>
    have h1 : applyWrites (w :: ws) m = applyWrites ws (fun q => if q = w.1 then w.2 else m q) := by
      simp [applyWrites]
    rw [h1, ih]
    simp only [lastWrite]
    cases h : lastWrite ws p with
    | some v => simp
    | none =>
      by_cases hp : w.1 = p
      · subst hp; simp
      · have : ¬ p = w.1 := fun e => hp e.symm
        simp [hp, this]

theorem lastWrite_append (xs ys : List (Nat × α)) (p : Nat) :
    lastWrite (xs ++ ys) p = (lastWrite ys p).or (lastWrite xs p) := by
  induction xs with
  | nil => simp [lastWrite]
  | cons w xs ih =>
    simp only [List.cons_append, lastWrite, ih]
    cases h1 : lastWrite ys p <;> cases h2 : lastWrite xs p <;> simp

theorem lastWrite_some_mem {ws : List (Nat × α)} {p : Nat} {v : α} (h : lastWrite ws p = some v) :
    (p, v) ∈ ws := by
  induction ws with
  | nil => simp [lastWrite] at h
  | cons w ws ih =>
    simp only [lastWrite] at h
    cases h2 : lastWrite ws p with
    | some v' =>
      rw [h2] at h; simp at h; subst h
      exact List.mem_cons_of_mem _ (ih h2)
    | none =>
      rw [h2] at h
      by_cases hp : w.1 = p
      · simp [hp] at h
        subst h; subst hp; simp
      · simp [hp] at h

theorem lastWrite_none_iff (ws : List (Nat × α)) (p : Nat) :
    lastWrite ws p = none ↔ ∀ w ∈ ws, w.1 ≠ p := by
  induction ws with
  | nil => simp [lastWrite]
  | cons w ws ih =>
    simp only [lastWrite, List.mem_cons, forall_eq_or_imp]
    cases h : lastWrite ws p with
    | some v =>
      constructor
      · intro h'; simp at h'
      · intro h'
        exact absurd rfl (h'.2 _ (lastWrite_some_mem h))
    | none =>
      have hall := ih.1 h
      by_cases hp : w.1 = p
      · simp [hp]
      · simp only [hp, if_false, true_iff]
        exact ⟨fun e => hp e, hall⟩

/-- region/value specification of a list of writes -/
def WritesExactly (ws : List (Nat × α)) (D : Nat → Prop) (f : Nat → α) : Prop :=
  ∀ p, (D p → lastWrite ws p = some (f p)) ∧ (¬ D p → lastWrite ws p = none)

/-- the memory after a `WritesExactly` program -/
theorem applyWrites_of_exact {ws : List (Nat × α)} {D : Nat → Prop} {f : Nat → α}
    (h : WritesExactly ws D f) (m : Nat → α) (p : Nat) :
    (D p → applyWrites ws m p = f p) ∧ (¬ D p → applyWrites ws m p = m p) := by
  rw [applyWrites_eq_lastWrite]
  constructor
  · intro hd; rw [(h p).1 hd]; rfl
  · intro hd; rw [(h p).2 hd]; rfl

/-- every write is right and every position of the region is written -/
theorem writesExactly_of_all_right {ws : List (Nat × α)} {D : Nat → Prop} {f : Nat → α}
    (hr : ∀ w ∈ ws, D w.1 ∧ w.2 = f w.1) (hc : ∀ p, D p → ∃ w ∈ ws, w.1 = p) :
    WritesExactly ws D f := by
  intro p
  constructor
  · intro hd
    cases h : lastWrite ws p with
    | none =>
      obtain ⟨w, hw, hwp⟩ := hc p hd
      exact absurd hwp ((lastWrite_none_iff ws p).1 h w hw)
    | some v =>
      have := hr _ (lastWrite_some_mem h)
      simp at this
      rw [this.2]
  · intro hd
    rw [lastWrite_none_iff]
    intro w hw hwp
    exact hd (hwp ▸ (hr w hw).1)

/-- intermediate writes inside the region followed by a complete final pass -/
theorem writesExactly_pre_append {pre fin : List (Nat × α)} {D : Nat → Prop} {f : Nat → α}
    (hpre : ∀ w ∈ pre, D w.1) (hfin : WritesExactly fin D f) : WritesExactly (pre ++ fin) D f := by
  intro p
  rw [lastWrite_append]
  constructor
  · intro hd; rw [(hfin p).1 hd]; rfl
  · intro hd
    rw [(hfin p).2 hd]
    simp only [Option.none_or]
    rw [lastWrite_none_iff]
    intro w hw hwp
    exact hd (hwp ▸ hpre w hw)

/-- sequential composition of tiles that agree on the value function -/
theorem writesExactly_append {xs ys : List (Nat × α)} {D1 D2 : Nat → Prop} {f : Nat → α}
    (h1 : WritesExactly xs D1 f) (h2 : WritesExactly ys D2 f) :
    WritesExactly (xs ++ ys) (fun p => D1 p ∨ D2 p) f := by
  intro p
  rw [lastWrite_append]
  by_cases hd2 : D2 p
  · constructor
    · intro _; rw [(h2 p).1 hd2]; rfl
    · intro h; exact absurd (Or.inr hd2) h
  · rw [(h2 p).2 hd2]
    simp only [Option.none_or]
    constructor
    · intro h
      cases h with
      | inl h => exact (h1 p).1 h
      | inr h => exact absurd h hd2
    · intro h
      exact (h1 p).2 (fun hh => h (Or.inl hh))

theorem writesExactly_nil (f : Nat → α) : WritesExactly ([] : List (Nat × α)) (fun _ => False) f := by
  intro p; simp [lastWrite]

theorem writesExactly_congr {ws : List (Nat × α)} {D D' : Nat → Prop} {f : Nat → α}
    (h : WritesExactly ws D f) (hd : ∀ p, D p ↔ D' p) : WritesExactly ws D' f := by
  intro p
  constructor
  · intro h'; exact (h p).1 ((hd p).2 h')
  · intro h'; exact (h p).2 (fun hh => h' ((hd p).1 hh))

theorem writesExactly_flatMap {ι : Type} (L : List ι) (tw : ι → List (Nat × α)) (D : ι → Nat → Prop)
    (f : Nat → α) (h : ∀ t ∈ L, WritesExactly (tw t) (D t) f) :
    WritesExactly (L.flatMap tw) (fun p => ∃ t ∈ L, D t p) f := by
  induction L with
  | nil =>
    simp only [List.flatMap_nil]
    exact writesExactly_congr (writesExactly_nil f) (by simp)
  | cons t L ih =>
    simp only [List.flatMap_cons]
    have h1 := h t (by simp)
    have h2 := ih (fun t' ht' => h t' (List.mem_cons_of_mem _ ht'))
    exact writesExactly_congr (writesExactly_append h1 h2) (by simp)

end Fastor
