/-
  C-style counted loops as lists of iteration values.
  `forRange lo hi s` is the list of values taken by `x` in `for (x = lo; x < hi; x += s)`,
  `forExit lo hi s` the value of `x` when the loop is left.
-/
namespace Fastor

def forCount (lo hi s : Nat) : Nat := (hi - lo + (s - 1)) / s

def forRange (lo hi s : Nat) : List Nat := (List.range (forCount lo hi s)).map (fun t => lo + t * s)

def forExit (lo hi s : Nat) : Nat := lo + forCount lo hi s * s

theorem forCount_lt_iff {lo hi s t : Nat} (hs : 0 < s) : t < forCount lo hi s ↔ lo + t * s < hi := by
  unfold forCount
  rw [Nat.lt_div_iff_mul_lt hs]
  constructor
  · intro h
    have : t * s + (s - 1) < hi - lo + (s - 1) + 0 + (s - 1) + 1 - (s - 1) := by omega
    omega
  · intro h; omega

theorem mem_forRange {lo hi s x : Nat} (hs : 0 < s) :
    x ∈ forRange lo hi s ↔ ∃ t, x = lo + t * s ∧ x < hi := by
  unfold forRange
  simp only [List.mem_map, List.mem_range]
  constructor
  · rintro ⟨t, ht, rfl⟩
    exact ⟨t, rfl, (forCount_lt_iff hs).1 ht⟩
  · rintro ⟨t, rfl, h⟩
    exact ⟨t, (forCount_lt_iff hs).2 h, rfl⟩

/-- when the bound is reached exactly by the stride the loop exits at the bound -/
theorem forExit_of_dvd {lo hi s : Nat} (hs : 0 < s) (hle : lo ≤ hi) (hd : s ∣ (hi - lo)) :
    forExit lo hi s = hi := by
  obtain ⟨q, hq⟩ := hd
  unfold forExit forCount
  have : (hi - lo + (s - 1)) / s = q := by
    rw [hq]
    rw [Nat.mul_comm s q, Nat.add_comm]
    rw [Nat.add_mul_div_right _ _ hs]
    rw [Nat.div_eq_of_lt (by omega)]; simp
  rw [this, Nat.mul_comm q s, ← hq]; omega

end Fastor
