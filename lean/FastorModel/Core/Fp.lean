/-
  Executable carrier for the correspondence runs: values modulo the prime 2^32-5, evaluated at
  pseudo-random points derived from element tokens.  The same functions are implemented in
  harness/common/sym.h (mix64, tokval, hstep); the harness evaluates its exact polynomials at these
  points, the model computes directly in this field.
-/
namespace Fastor

def fpP : UInt64 := 4294967291

def mix64 (x : UInt64) : UInt64 :=
  let x := x + 0x9E3779B97F4A7C15
  let x := (x ^^^ (x >>> 30)) * 0xBF58476D1CE4E5B9
  let x := (x ^^^ (x >>> 27)) * 0x94D049BB133111EB
  x ^^^ (x >>> 31)

/-- value of token `tok` at evaluation point `pt` -/
def tokval (tok : UInt64) (pt : UInt64) : UInt64 := mix64 (tok * 4 + pt) % fpP

def mktok (win k : Nat) : UInt64 := (UInt64.ofNat win <<< 20) ||| UInt64.ofNat k

def hstep (h x : UInt64) : UInt64 := mix64 (h ^^^ (x + 0x51ED27))

/-- pair of residues: evaluation at points 0 and 1 -/
structure Fp where
  v0 : UInt64
  v1 : UInt64
deriving BEq, Repr, Inhabited

namespace Fp
def ofTok (win k : Nat) : Fp := ⟨tokval (mktok win k) 0, tokval (mktok win k) 1⟩
def ofInt (i : Int) : Fp :=
  let r := (i % (4294967291 : Int)).toNat
  ⟨UInt64.ofNat r, UInt64.ofNat r⟩
instance : Zero Fp := ⟨⟨0, 0⟩⟩
instance : One Fp := ⟨⟨1, 1⟩⟩
instance : Add Fp := ⟨fun a b => ⟨(a.v0 + b.v0) % fpP, (a.v1 + b.v1) % fpP⟩⟩
instance : Mul Fp := ⟨fun a b => ⟨(a.v0 * b.v0) % fpP, (a.v1 * b.v1) % fpP⟩⟩
instance : Neg Fp := ⟨fun a => ⟨(fpP - a.v0) % fpP, (fpP - a.v1) % fpP⟩⟩
instance : Sub Fp := ⟨fun a b => ⟨(a.v0 + (fpP - b.v0)) % fpP, (a.v1 + (fpP - b.v1)) % fpP⟩⟩
instance : OfNat Fp n := ⟨ofInt n⟩
def hash (h : UInt64) (a : Fp) : UInt64 := hstep (hstep h a.v0) a.v1
end Fp

def hashNats (h : UInt64) (xs : List Nat) : UInt64 := xs.foldl (fun h x => hstep h (UInt64.ofNat x)) h

def hex (x : UInt64) : String :=
  let ds := Nat.toDigits 16 x.toNat
  String.ofList (List.replicate (16 - ds.length) '0' ++ ds)

end Fastor
