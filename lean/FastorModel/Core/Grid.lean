import FastorModel.Core.Writes
import FastorModel.Core.Loop
/-
  Kernels that fill an `M × N` row-major result.  A kernel model is a list of *segments*; a segment
  is a list of intermediate store events followed by a list of final store events.  A store event
  names the cell `(r,c)` it writes (flat position `r*N+c`) and how much of the accumulation
  (`kk` of `K` terms) the stored value contains.  `segs_writesExactly` turns index-level facts
  (bounds, coverage, final events carry the specified value, intermediate stores are overwritten)
  into the memory-level statement `WritesExactly`.
-/
namespace Fastor

/-- a store event: cell `(r,c)`, the value holds the first `kk` terms; `style` names the
    accumulation order used by the code (only relevant for executing the model) -/
structure St where
  r : Nat
  c : Nat
  kk : Nat
  style : Nat := 0
  /-- index of the first accumulated term (non-zero only for the triangular kernels) -/
  k0 : Nat := 0
deriving Repr, BEq, DecidableEq

structure Seg where
  pre : List St
  fin : List St
deriving Repr

def Seg.events (s : Seg) : List St := s.pre ++ s.fin

def St.pos (N : Nat) (e : St) : Nat := e.r * N + e.c

/-- every intermediate store (a partial sum, or lanes of a full-width store that spill past the end
    of a row) is overwritten by a final store of the same segment -/
structure SegOK (N : Nat) (s : Seg) : Prop where
  pre_in_fin : ∀ e ∈ s.pre, ∃ e' ∈ s.fin, e'.pos N = e.pos N

variable {α : Type}

def segWrites (N : Nat) (val : St → α) (s : Seg) : List (Nat × α) :=
  s.events.map (fun e => (e.pos N, val e))

def kernelWrites (N : Nat) (val : St → α) (segs : List Seg) : List (Nat × α) :=
  segs.flatMap (segWrites N val)

theorem pos_div {N r c : Nat} (hc : c < N) : (r * N + c) / N = r := by
  have hN : 0 < N := by omega
  rw [Nat.mul_comm, Nat.mul_add_div hN, Nat.div_eq_of_lt hc]; simp

theorem pos_mod {N r c : Nat} (hc : c < N) : (r * N + c) % N = c := by
  rw [Nat.mul_comm, Nat.mul_add_mod, Nat.mod_eq_of_lt hc]

theorem pos_lt {M N r c : Nat} (hr : r < M) (hc : c < N) : r * N + c < M * N := by
  have : (r + 1) * N ≤ M * N := Nat.mul_le_mul_right N hr
  rw [Nat.add_mul] at this; omega

theorem seg_writesExactly (N : Nat) (val : St → α) (spec : Nat → Nat → α) (s : Seg)
    (hval : ∀ e ∈ s.fin, val e = spec e.r e.c)
    (hok : SegOK N s) (hb : ∀ e ∈ s.fin, e.c < N) :
    WritesExactly (segWrites N val s) (fun p => ∃ e ∈ s.fin, e.pos N = p)
      (fun p => spec (p / N) (p % N)) := by
  unfold segWrites Seg.events
  rw [List.map_append]
  apply writesExactly_pre_append
  · intro w hw
    simp only [List.mem_map] at hw
    obtain ⟨e, he, rfl⟩ := hw
    obtain ⟨e', he', hp⟩ := hok.pre_in_fin e he
    exact ⟨e', he', hp⟩
  · apply writesExactly_of_all_right
    · intro w hw
      simp only [List.mem_map] at hw
      obtain ⟨e, he, rfl⟩ := hw
      refine ⟨⟨e, he, rfl⟩, ?_⟩
      have hc : e.c < N := hb e he
      simp only [St.pos, pos_div hc, pos_mod hc]
      exact hval e he
    · rintro p ⟨e, he, rfl⟩
      exact ⟨(e.pos N, val e), by simp only [List.mem_map]; exact ⟨e, he, rfl⟩, rfl⟩

/-- **Generic grid-kernel theorem.**  If every event is inside the `M × N` grid, every segment is
    well formed, and every cell is the target of some final event, then the kernel writes exactly
    the positions `< M*N` and leaves `spec r c` at position `r*N+c`. -/
theorem segs_writesExactly (M N : Nat) (val : St → α) (spec : Nat → Nat → α) (segs : List Seg)
    (hval : ∀ s ∈ segs, ∀ e ∈ s.fin, val e = spec e.r e.c)
    (hok : ∀ s ∈ segs, SegOK N s)
    (hb : ∀ s ∈ segs, ∀ e ∈ s.fin, e.r < M ∧ e.c < N)
    (hcov : ∀ r, r < M → ∀ c, c < N → ∃ s ∈ segs, ∃ e ∈ s.fin, e.r = r ∧ e.c = c) :
    WritesExactly (kernelWrites N val segs) (fun p => p < M * N)
      (fun p => spec (p / N) (p % N)) := by
  unfold kernelWrites
  have h := writesExactly_flatMap segs (segWrites N val)
    (fun s p => ∃ e ∈ s.fin, e.pos N = p) (fun p => spec (p / N) (p % N))
    (fun s hs => seg_writesExactly N val spec s (hval s hs) (hok s hs) (fun e he => (hb s hs e he).2))
  refine writesExactly_congr h ?_
  intro p
  constructor
  · rintro ⟨s, hs, e, he, rfl⟩
    have := hb s hs e he
    exact pos_lt this.1 this.2
  · intro hp
    have hN : 0 < N := by
      rcases Nat.eq_zero_or_pos N with h0 | h0
      · subst h0; simp at hp
      · exact h0
    have hr : p / N < M := by
      rw [Nat.div_lt_iff_lt_mul hN]; exact hp
    have hc : p % N < N := Nat.mod_lt _ hN
    obtain ⟨s, hs, e, he, her, hec⟩ := hcov _ hr _ hc
    refine ⟨s, hs, e, he, ?_⟩
    simp only [St.pos, her, hec]
    rw [Nat.mul_comm]; exact Nat.div_add_mod p N

/-- Final memory after running a grid kernel: the property-level corollary. -/
theorem kernel_memory (M N : Nat) (val : St → α) (spec : Nat → Nat → α) (segs : List Seg)
    (hval : ∀ s ∈ segs, ∀ e ∈ s.fin, val e = spec e.r e.c)
    (hok : ∀ s ∈ segs, SegOK N s)
    (hb : ∀ s ∈ segs, ∀ e ∈ s.fin, e.r < M ∧ e.c < N)
    (hcov : ∀ r, r < M → ∀ c, c < N → ∃ s ∈ segs, ∃ e ∈ s.fin, e.r = r ∧ e.c = c)
    (m : Nat → α) :
    (∀ r, r < M → ∀ c, c < N → applyWrites (kernelWrites N val segs) m (r * N + c) = spec r c) ∧
    (∀ p, M * N ≤ p → applyWrites (kernelWrites N val segs) m p = m p) := by
  have h := segs_writesExactly M N val spec segs hval hok hb hcov
  constructor
  · intro r hr c hc
    have := (applyWrites_of_exact h m (r * N + c)).1 (pos_lt hr hc)
    simpa [pos_div hc, pos_mod hc] using this
  · intro p hp
    exact (applyWrites_of_exact h m p).2 (by omega)

end Fastor
