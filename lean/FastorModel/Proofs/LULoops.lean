import FastorModel.Proofs.LUPivot
/-
  Generic facts about loops of `set`s: a loop that writes one column (or one row) segment and whose values do not read
  that column (row) is a parallel assignment; a loop that fills a column top-down reading the part already written is a
  triangular recurrence.
-/
namespace Fastor.LU
open Finset

variable {K : Type} [Field K]

/-- column segment `[a, a+len)` of column `s`, values independent of column `s` -/
theorem foldl_set_col (s : Nat) (v : Mat K → Nat → K)
    (hind : ∀ M M' t, (∀ i j, j ≠ s → M.get i j = M'.get i j) → v M t = v M' t) :
    ∀ (len a : Nat) (M0 : Mat K), (∀ t, a ≤ t → t < a + len → M0.has t s) →
      (∀ i j, ((List.range' a len).foldl (fun M t => M.set t s (v M t)) M0).has i j ↔ M0.has i j) ∧
      (∀ i j, ((List.range' a len).foldl (fun M t => M.set t s (v M t)) M0).get i j =
        if j = s ∧ a ≤ i ∧ i < a + len then v M0 i else M0.get i j) := by
  intro len
  induction len with
  | zero => intro a M0 _; exact ⟨fun i j => by simp, fun i j => by simp⟩
  | succ len ih =>
    intro a M0 hhas
    rw [List.range'_succ, List.foldl_cons]
    have hh : M0.has a s := hhas a (Nat.le_refl _) (by omega)
    have h1 : ∀ t, a + 1 ≤ t → t < a + 1 + len → (M0.set a s (v M0 a)).has t s := by
      intro t h1 h2; rw [Mat.has_set]; exact hhas t (by omega) (by omega)
    obtain ⟨ia, ib⟩ := ih (a + 1) (M0.set a s (v M0 a)) h1
    refine ⟨fun i j => by rw [ia, Mat.has_set], fun i j => ?_⟩
    rw [ib i j]
    have hv : v (M0.set a s (v M0 a)) i = v M0 i := by
      apply hind; intro i' j' hj'
      rw [Mat.get_set, if_neg (fun h => hj' h.2.1)]
    rw [hv, Mat.get_set]
    by_cases hj : j = s
    · by_cases hi : i = a
      · subst hi; subst hj
        rw [if_neg (by omega), if_pos ⟨rfl, rfl, hh⟩, if_pos ⟨rfl, Nat.le_refl _, by omega⟩]
      · by_cases hr : a + 1 ≤ i ∧ i < a + 1 + len
        · rw [if_pos ⟨hj, hr⟩, if_pos ⟨hj, by omega, by omega⟩]
        · rw [if_neg (fun h => hr h.2), if_neg (fun h => hi h.1), if_neg (fun h => hr ⟨by omega, by omega⟩)]
    · rw [if_neg (fun h => hj h.1), if_neg (fun h => hj h.2.1), if_neg (fun h => hj h.1)]

/-- row segment `[a, a+len)` of row `s`, values independent of row `s` -/
theorem foldl_set_row (s : Nat) (v : Mat K → Nat → K)
    (hind : ∀ M M' t, (∀ i j, i ≠ s → M.get i j = M'.get i j) → v M t = v M' t) :
    ∀ (len a : Nat) (M0 : Mat K), (∀ t, a ≤ t → t < a + len → M0.has s t) →
      (∀ i j, ((List.range' a len).foldl (fun M t => M.set s t (v M t)) M0).has i j ↔ M0.has i j) ∧
      (∀ i j, ((List.range' a len).foldl (fun M t => M.set s t (v M t)) M0).get i j =
        if i = s ∧ a ≤ j ∧ j < a + len then v M0 j else M0.get i j) := by
  intro len
  induction len with
  | zero => intro a M0 _; exact ⟨fun i j => by simp, fun i j => by simp⟩
  | succ len ih =>
    intro a M0 hhas
    rw [List.range'_succ, List.foldl_cons]
    have hh : M0.has s a := hhas a (Nat.le_refl _) (by omega)
    have h1 : ∀ t, a + 1 ≤ t → t < a + 1 + len → (M0.set s a (v M0 a)).has s t := by
      intro t h1 h2; rw [Mat.has_set]; exact hhas t (by omega) (by omega)
    obtain ⟨ia, ib⟩ := ih (a + 1) (M0.set s a (v M0 a)) h1
    refine ⟨fun i j => by rw [ia, Mat.has_set], fun i j => ?_⟩
    rw [ib i j]
    have hv : v (M0.set s a (v M0 a)) j = v M0 j := by
      apply hind; intro i' j' hi'
      rw [Mat.get_set, if_neg (fun h => hi' h.1)]
    rw [hv, Mat.get_set]
    by_cases hi : i = s
    · by_cases hj : j = a
      · subst hi; subst hj
        rw [if_neg (by omega), if_pos ⟨rfl, rfl, hh⟩, if_pos ⟨rfl, Nat.le_refl _, by omega⟩]
      · by_cases hr : a + 1 ≤ j ∧ j < a + 1 + len
        · rw [if_pos ⟨hi, hr⟩, if_pos ⟨hi, by omega, by omega⟩]
        · rw [if_neg (fun h => hr h.2), if_neg (fun h => hj h.2.1), if_neg (fun h => hr ⟨by omega, by omega⟩)]
    · rw [if_neg (fun h => hi h.1), if_neg (fun h => hi h.1), if_neg (fun h => hi h.1)]

/-- top-down fill of rows `0..m-1` of column `s`: `M(i,s) = b i - Σ_{k<i} c i k * M(k,s)` -/
theorem foldl_set_col_seq (s : Nat) (b : Nat → K) (c : Nat → Nat → K) (M0 : Mat K) :
    ∀ m, (∀ t, t < m → M0.has t s) →
      (∀ i j, ((List.range m).foldl (fun M i => M.set i s (subLoop i (fun k => c i k * M.get k s) (b i))) M0).has i j ↔ M0.has i j) ∧
      (∀ i j, (j ≠ s ∨ m ≤ i) → ((List.range m).foldl (fun M i => M.set i s (subLoop i (fun k => c i k * M.get k s) (b i))) M0).get i j = M0.get i j) ∧
      (∀ i, i < m → ((List.range m).foldl (fun M i => M.set i s (subLoop i (fun k => c i k * M.get k s) (b i))) M0).get i s =
        b i - ∑ k ∈ range i, c i k * ((List.range m).foldl (fun M i => M.set i s (subLoop i (fun k => c i k * M.get k s) (b i))) M0).get k s) := by
  intro m
  induction m with
  | zero => intro _; exact ⟨fun i j => by simp, fun i j _ => by simp, fun i hi => by omega⟩
  | succ m ih =>
    intro hhas
    obtain ⟨h1, h2, h3⟩ := ih (fun t ht => hhas t (by omega))
    rw [List.range_succ, List.foldl_append]
    simp only [List.foldl_cons, List.foldl_nil]
    generalize hS : (List.range m).foldl (fun M i => M.set i s (subLoop i (fun k => c i k * M.get k s) (b i))) M0 = S at h1 h2 h3
    have hh : S.has m s := (h1 m s).2 (hhas m (by omega))
    have other : ∀ i j, (i ≠ m ∨ j ≠ s) → (S.set m s (subLoop m (fun k => c m k * S.get k s) (b m))).get i j = S.get i j := by
      intro i j h; rw [Mat.get_set, if_neg (fun hh => by rcases h with h | h; exact h hh.1; exact h hh.2.1)]
    refine ⟨fun i j => by rw [Mat.has_set]; exact h1 i j, fun i j h => ?_, fun i hi => ?_⟩
    · rw [other i j (by rcases h with h | h; exact Or.inr h; exact Or.inl (by omega))]
      exact h2 i j (by rcases h with h | h; exact Or.inl h; exact Or.inr (by omega))
    · by_cases him : i = m
      · subst him
        have hv := Mat.get_set S i s i s (subLoop i (fun k => c i k * S.get k s) (b i))
        rw [if_pos ⟨rfl, rfl, hh⟩] at hv
        rw [hv]
        conv_lhs => rw [subLoop_eq]
        congr 1
        apply sum_congr rfl; intro k hk
        rw [other k s (Or.inl (by have := mem_range.1 hk; omega))]
      · rw [other i s (Or.inl him), h3 i (by omega)]
        congr 1
        apply sum_congr rfl; intro k hk
        rw [other k s (Or.inl (by have := mem_range.1 hk; omega))]

end Fastor.LU
