import FastorModel.Model.MapAliasWide
import FastorModel.Proofs.MapAlias
import FastorModel.Props.C05
/-
  The generic n-D view class (what a map of any rank gets) and the specialised 1-D / 2-D classes (what an owning
  tensor of rank 1 / 2 gets) perform the same stores: their lanes are the same list, hence `exec` agrees.
-/
namespace Fastor.MapAlias
open Fastor Fastor.ViewWrite

theorem forRange_zero_one (e : Nat) : forRange 0 e 1 = List.range e := by
  unfold forRange forCount
  simp

theorem flatMap_single {β γ : Type} (f : β → γ) (l : List β) : l.flatMap (fun a => [f a]) = l.map f := by
  induction l with
  | nil => rfl
  | cons x xs ih => simp [List.flatMap_cons, ih]

theorem box_one (e : Nat) : box [(e, 1)] = (List.range e).map fun k => [k] := by
  simp [box, forRange_zero_one, flatMap_single]

/-- rank 1: `linIters` (class dyn1) and `odoIters` (class dynN) have the same lanes -/
theorem lanes_rank1 (ex : Nat) (hex : ex ≤ 64) (d : Nat) (a : Ax) (hn : a.ext < 2 ^ 64) (hpos : 0 < a.ext)
    (cstep : Nat) (hcs : cstep = 2 ^ ex ∨ cstep = 1) :
    lanesOf (odoIters (2 ^ ex) [d] [a] false cstep) = lanesOf (linIters (2 ^ ex) false a) := by
  have hV : 0 < 2 ^ ex := Nat.pow_pos (by omega)
  rw [odo_lanes (2 ^ ex) hV [d] [a] (by simp) (by simp) (by simpa using hpos) cstep hcs]
  unfold linIters
  rw [seg_lanes ex hex false .rmw 0 0 a hn, incs_one]
  simp [box_one, posOf, flat, List.map_map, Function.comp_def]

/-- rank 2: `rowIters` (class dyn2) and `odoIters` (class dynN) have the same lanes -/
theorem lanes_rank2 (ex : Nat) (hex : ex ≤ 64) (M N : Nat) (a0 a1 : Ax) (hn : a1.ext < 2 ^ 64) (hp0 : 0 < a0.ext)
    (hp1 : 0 < a1.ext) (cstep : Nat) (hcs : cstep = 2 ^ ex ∨ cstep = 1) :
    lanesOf (odoIters (2 ^ ex) [M, N] [a0, a1] false cstep) = lanesOf (rowIters (2 ^ ex) false N a0 a1) := by
  have hV : 0 < 2 ^ ex := Nat.pow_pos (by omega)
  rw [odo_lanes (2 ^ ex) hV [M, N] [a0, a1] (by simp) (by simp) (by simp [hp0, hp1]) cstep hcs]
  rw [C05.row_lanes ex hex false N a0 a1 hn, incs_one]
  simp only [List.map_cons, List.map_nil, box, forRange_zero_one, List.map_flatMap, List.map_map]
  congr 1
  funext i
  simp [Function.comp_def, posOf, flat, flatMap_single, List.map_map, Nat.mul_comm]

variable {α : Type} [Add α] [Sub α] [Mul α] [Div α]

/-- programs with the same lanes at pairwise distinct positions leave the same memory -/
theorem exec_eq_of_lanes (op : WOp) (r : Nat → α) (its1 its2 : List Iter) (m : Nat → α)
    (hl : lanesOf its1 = lanesOf its2) (hnd : ((lanesOf its2).map (·.1)).Nodup) :
    exec op (fun _ => r) its1 m = exec op (fun _ => r) its2 m := by
  rw [C05.exec_eq_spec op r its1 m (by rw [hl]; exact hnd), C05.exec_eq_spec op r its2 m hnd, hl]

end Fastor.MapAlias
