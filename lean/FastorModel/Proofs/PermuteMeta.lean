import FastorModel.Proofs.Permute
/-
  Proofs about the sorting metafunctions used by the legacy `permutation<>` and by the C++17 branch of `permute`:
  `meta_min`, `meta_argmin`, `meta_argsort` (selection sort), `get_floor_map`, `find_permuation`,
  `permute_mapped_index`.  For a pack that is a permutation of `0..r-1`, `meta_argsort` and
  `permute_mapped_index_t` both return the inverse permutation.
-/
namespace Fastor.Permute

theorem metaMin_spec : ∀ (l : List Nat) (m : Nat),
    (metaMin m l ≤ m ∧ ∀ x ∈ l, metaMin m l ≤ x) ∧ (metaMin m l = m ∨ metaMin m l ∈ l)
  | [], m => by simp [metaMin]
  | [n], m => by
    have e : metaMin m [n] = if m ≤ n then m else n := rfl
    rw [e]
    by_cases h : m ≤ n <;> simp [h] <;> omega
  | n :: r :: rs, m => by
    have ih := metaMin_spec (r :: rs) (if m ≤ n then m else n)
    have e : metaMin m (n :: r :: rs) =
        if (if m ≤ n then m else n) ≤ metaMin (if m ≤ n then m else n) (r :: rs) then (if m ≤ n then m else n)
        else metaMin (if m ≤ n then m else n) (r :: rs) := rfl
    rw [e]
    generalize hq : (if m ≤ n then m else n) = pval at *
    generalize hmm : metaMin pval (r :: rs) = mm at *
    have hp : pval ≤ m ∧ pval ≤ n ∧ (pval = m ∨ pval = n) := by
      subst hq; by_cases h : m ≤ n <;> simp [h] <;> omega
    obtain ⟨⟨i1, i2⟩, i3⟩ := ih
    by_cases hc : pval ≤ mm
    · simp only [hc, if_true]
      refine ⟨⟨hp.1, ?_⟩, ?_⟩
      · intro x hx
        rcases List.mem_cons.1 hx with rfl | hx
        · exact hp.2.1
        · exact Nat.le_trans hc (i2 x hx)
      · rcases hp.2.2 with h | h
        · exact Or.inl h
        · exact Or.inr (by rw [h]; simp)
    · simp only [hc, if_false]
      refine ⟨⟨by omega, ?_⟩, ?_⟩
      · intro x hx
        rcases List.mem_cons.1 hx with rfl | hx
        · omega
        · exact i2 x hx
      · rcases i3 with h | h
        · omega
        · exact Or.inr (List.mem_cons_of_mem _ h)

theorem metaArgmin_spec : ∀ (rest : List Nat) (m n : Nat),
    metaArgmin m n rest < rest.length + 2 ∧ (m :: n :: rest).getD (metaArgmin m n rest) 0 = metaMin m (n :: rest)
  | [], m, n => by
    have e1 : metaArgmin m n [] = if m < n then 0 else 1 := rfl
    have e2 : metaMin m [n] = if m ≤ n then m else n := rfl
    rw [e1, e2]
    by_cases h : m < n
    · have : m ≤ n := by omega
      simp [h, this]
    · by_cases h2 : m ≤ n
      · have : m = n := by omega
        simp [h, this]
      · simp [h, h2]
  | r :: rs, m, n => by
    have ih := metaArgmin_spec rs (if m ≤ n then m else n) r
    have e1 : metaArgmin m n (r :: rs) =
        if (if m ≤ n then m else n) ≤ metaMin (if m ≤ n then m else n) (r :: rs) then (if m < n then 0 else 1)
        else metaArgmin (if m ≤ n then m else n) r rs + 1 := rfl
    have e2 : metaMin m (n :: r :: rs) =
        if (if m ≤ n then m else n) ≤ metaMin (if m ≤ n then m else n) (r :: rs) then (if m ≤ n then m else n)
        else metaMin (if m ≤ n then m else n) (r :: rs) := rfl
    rw [e1, e2]
    generalize hq : (if m ≤ n then m else n) = pval at *
    by_cases hc : pval ≤ metaMin pval (r :: rs)
    · simp only [hc, if_true]
      subst hq
      by_cases h : m < n
      · have : m ≤ n := by omega
        simp [h, this]
      · by_cases h2 : m ≤ n
        · have : m = n := by omega
          simp [h, this]
        · simp [h, h2]
    · simp only [hc, if_false]
      obtain ⟨i1, i2⟩ := ih
      refine ⟨by simp; omega, ?_⟩
      -- the minimum is strictly below pval, so the recursive position is not 0
      have hk : metaArgmin pval r rs ≠ 0 := by
        intro h0
        rw [h0] at i2
        simp only [List.getD_cons_zero] at i2
        omega
      obtain ⟨k, hk⟩ := Nat.exists_eq_succ_of_ne_zero hk
      rw [hk] at i2 ⊢
      simpa using i2

theorem argminOf_spec (vals : List Nat) (h : 2 ≤ vals.length) :
    argminOf vals < vals.length ∧ vals.getD (argminOf vals) 0 ∈ vals ∧ ∀ x ∈ vals, vals.getD (argminOf vals) 0 ≤ x := by
  match vals, h with
  | m :: n :: rest, _ =>
    obtain ⟨h1, h2⟩ := metaArgmin_spec rest m n
    obtain ⟨⟨s1, s2⟩, s3⟩ := metaMin_spec (n :: rest) m
    simp only [argminOf, List.length_cons]
    refine ⟨by omega, ?_, ?_⟩
    · rw [h2]
      rcases s3 with h | h
      · rw [h]; simp
      · exact List.mem_cons_of_mem _ h
    · intro x hx
      rw [h2]
      rcases List.mem_cons.1 hx with rfl | hx
      · exact s1
      · exact s2 x hx

theorem inj_of_nodup_map (f : Nat → Nat) : ∀ (ss : List Nat), (ss.map f).Nodup →
    ∀ a ∈ ss, ∀ b ∈ ss, f a = f b → a = b
  | [], _, _, ha, _, _, _ => by simp at ha
  | s :: ss, hn, a, ha, b, hb, hab => by
    rw [List.map_cons, List.nodup_cons] at hn
    have ih := inj_of_nodup_map f ss hn.2
    rw [List.mem_cons] at ha hb
    rcases ha with ha | ha
    · rcases hb with hb | hb
      · rw [ha, hb]
      · exfalso; apply hn.1; rw [← ha, hab]; exact List.mem_map.2 ⟨b, hb, rfl⟩
    · rcases hb with hb | hb
      · exfalso; apply hn.1; rw [← hb, ← hab]; exact List.mem_map.2 ⟨a, ha, rfl⟩
      · exact ih a ha b hb hab

theorem getD_map_lt (f : Nat → Nat) (ss : List Nat) (k : Nat) (hk : k < ss.length) :
    (ss.map f).getD k 0 = f (ss.getD k 0) := by
  simp [List.getD_eq_getElem?_getD, List.getElem?_map, List.getElem?_eq_getElem hk]

/-- selection sort: with the values a permutation of `t, t+1, …` the k-th extracted position carries value `t+k` -/
theorem argsortAux_spec : ∀ (fuel : Nat) (vals ss : List Nat) (f : Nat → Nat) (t : Nat),
    vals = ss.map f → ss.Nodup → vals.Perm (List.range' t (fuel + 1)) →
    (metaArgsortAux (fuel + 1) vals ss).length = fuel + 1 ∧
    (∀ k, k < fuel + 1 → f ((metaArgsortAux (fuel + 1) vals ss).getD k 0) = t + k) ∧
    (∀ x ∈ metaArgsortAux (fuel + 1) vals ss, x ∈ ss)
  | 0, vals, ss, f, t, hv, _, hp => by
    have hl : vals.length = 1 := by rw [hp.length_eq]; simp
    match vals, hl with
    | [v], _ =>
      have hss : ss.length = 1 := by have := congrArg List.length hv; simpa using this.symm
      match ss, hss with
      | [s], _ =>
        simp only [metaArgsortAux]
        have hv1 : v = f s := by simpa using hv
        have hv2 : v = t := by
          have := (hp.mem_iff (a := v)).1 (by simp)
          simp at this; omega
        refine ⟨rfl, ?_, fun x hx => hx⟩
        intro k hk
        have : k = 0 := by omega
        subst this
        simp [← hv1, hv2]
  | fuel + 1, vals, ss, f, t, hv, hnd, hp => by
    have hl : vals.length = fuel + 2 := by rw [hp.length_eq]; simp
    have hsl : ss.length = fuel + 2 := by have := congrArg List.length hv; simp at this; omega
    have hvn : vals.Nodup := hp.nodup_iff.2 (List.nodup_range')
    obtain ⟨a1, a2, a3⟩ := argminOf_spec vals (by omega)
    -- the least value is t
    have hmin : vals.getD (argminOf vals) 0 = t := by
      have h1 := (hp.mem_iff (a := vals.getD (argminOf vals) 0)).1 a2
      have h2 := a3 t ((hp.mem_iff (a := t)).2 (by simp))
      have h3 := (List.mem_range'_1.1 h1).1
      omega
    have hfl : f (ss.getD (argminOf vals) 0) = t := by
      rw [← getD_map_lt f ss _ (by omega), ← hv, hmin]
    have hli : ss.getD (argminOf vals) 0 ∈ ss := by
      rw [getD_eq_getElem' ss _ (by omega)]; exact List.getElem_mem _
    -- unfold one step of the sort
    have hstep : metaArgsortAux (fuel + 2) vals ss =
        ss.getD (argminOf vals) 0 :: metaArgsortAux (fuel + 1) (filterOut (vals.getD (argminOf vals) 0) vals)
          (filterOut (ss.getD (argminOf vals) 0) ss) := by
      match vals, hl with
      | v1 :: v2 :: vs, _ => rfl
    -- the reduced packs
    have hss' : filterOut (ss.getD (argminOf vals) 0) ss = ss.filter (fun s => f s != t) := by
      unfold filterOut
      apply List.filter_congr
      intro s hs
      have hinj := inj_of_nodup_map f ss (hv ▸ hvn)
      by_cases h : s = ss.getD (argminOf vals) 0
      · rw [h, hfl]; simp
      · have hne : f s ≠ t := fun e => h (hinj s hs _ hli (by rw [e, hfl]))
        rw [bne_iff_ne.2 h, bne_iff_ne.2 hne]
    have hvals' : filterOut (vals.getD (argminOf vals) 0) vals = (filterOut (ss.getD (argminOf vals) 0) ss).map f := by
      rw [hss', hmin]
      show List.filter (fun y => y != t) vals = _
      rw [hv, List.filter_map]; rfl
    have hperm' : (filterOut (vals.getD (argminOf vals) 0) vals).Perm (List.range' (t + 1) (fuel + 1)) := by
      rw [hmin]; unfold filterOut
      have h1 := hp.filter (fun y => y != t)
      have h2 : (List.range' t (fuel + 1 + 1)).filter (fun y => y != t) = List.range' (t + 1) (fuel + 1) := by
        rw [List.range'_succ, List.filter_cons]
        simp only [bne_self_eq_false, Bool.false_eq_true, if_false]
        rw [List.filter_eq_self]
        intro a ha
        simp at ha; simp; omega
      rw [h2] at h1; exact h1
    have hnd' : (filterOut (ss.getD (argminOf vals) 0) ss).Nodup := hnd.sublist (List.filter_sublist)
    obtain ⟨r1, r2, r3⟩ := argsortAux_spec fuel _ _ f (t + 1) hvals' hnd' hperm'
    rw [hstep]
    refine ⟨by rw [List.length_cons, r1], ?_, ?_⟩
    · intro k hk
      cases k with
      | zero => rw [List.getD_cons_zero]; simpa using hfl
      | succ k =>
        rw [List.getD_cons_succ, r2 k (by omega)]; omega
    · intro x hx
      rcases List.mem_cons.1 hx with rfl | hx
      · exact hli
      · exact (List.mem_filter.1 (r3 x hx)).1

theorem getD_injective_of_nodup {p : List Nat} (hn : p.Nodup) {i j : Nat} (hi : i < p.length) (hj : j < p.length)
    (h : p.getD i 0 = p.getD j 0) : i = j := by
  rw [getD_eq_getElem' p i hi, getD_eq_getElem' p j hj] at h
  exact (List.getElem_inj hn).1 h

/-- a left inverse of a permutation is its inverse -/
theorem isInv_of_left {p q : List Nat} {r : Nat} (hp : p.Perm (List.range r)) (hq : q.length = r)
    (h : ∀ n, n < r → q.getD n 0 < r ∧ p.getD (q.getD n 0) 0 = n) : IsInv q p r := by
  obtain ⟨hl, hnd, hm⟩ := perm_facts hp
  refine ⟨hq, hl, h, ?_⟩
  intro k hk
  have hk' : k < p.length := hl ▸ hk
  have h1 : p.getD k 0 < r := by rw [getD_eq_getElem' p k hk']; exact (hm _).1 (List.getElem_mem hk')
  refine ⟨h1, ?_⟩
  obtain ⟨h2, h3⟩ := h _ h1
  exact getD_injective_of_nodup hnd (hl ▸ h2) hk' h3

/-- **`meta_argsort` of a permutation of `0..r-1` is its inverse** -/
theorem isInv_metaArgsort {p : List Nat} {r : Nat} (hr : 0 < r) (hp : p.Perm (List.range r)) :
    IsInv (metaArgsort p) p r := by
  obtain ⟨hl, _, _⟩ := perm_facts hp
  obtain ⟨r', rfl⟩ := Nat.exists_eq_succ_of_ne_zero (by omega : r ≠ 0)
  have hv : p = (List.range (r' + 1)).map (fun s => p.getD s 0) := by
    apply ext_getD (by simp [hl])
    intro k hk
    rw [getD_map_lt _ _ k (by simpa [hl] using hk)]
    simp [List.getD_eq_getElem?_getD, List.getElem?_range (hl ▸ hk)]
  have hp' : p.Perm (List.range' 0 (r' + 1)) := by rw [← List.range_eq_range']; exact hp
  obtain ⟨s1, s2, s3⟩ := argsortAux_spec r' p (List.range (r' + 1)) (fun s => p.getD s 0) 0 hv List.nodup_range hp'
  have e : metaArgsort p = metaArgsortAux (r' + 1) p (List.range (r' + 1)) := by unfold metaArgsort; rw [hl]
  rw [e]
  apply isInv_of_left hp s1
  intro n hn
  have hmem : (metaArgsortAux (r' + 1) p (List.range (r' + 1))).getD n 0 ∈ metaArgsortAux (r' + 1) p (List.range (r' + 1)) := by
    rw [getD_eq_getElem' _ n (by rw [s1]; exact hn)]; exact List.getElem_mem _
  have h3 := s3 _ hmem
  rw [List.mem_range] at h3
  exact ⟨h3, by simpa using s2 n hn⟩

/-- legacy `permute_impl::resulting_index` is the inverse permutation -/
theorem isInv_legacyIdx {p : List Nat} {r : Nat} (hr : 0 < r) (hp : p.Perm (List.range r)) : IsInv (legacyIdx p) p r :=
  isInv_metaArgsort hr hp

/-! ### `get_floor_map`, `find_permuation`, `permute_mapped_index` -/

theorem getD_set_self' (l : List Nat) (i v : Nat) (h : i < l.length) : (l.set i v).getD i 0 = v := by
  simp [List.getD_eq_getElem?_getD, List.getElem?_set_self h]

theorem getD_set_ne' (l : List Nat) (i j v : Nat) (h : i ≠ j) : (l.set i v).getD j 0 = l.getD j 0 := by
  simp [List.getD_eq_getElem?_getD, List.getElem?_set_ne h]

theorem floorMap_prefix {idx inv : List Nat} {r : Nat} (h : IsInv idx inv r) : ∀ t, t ≤ r →
    let S := (List.range t).foldl (fun out i => out.set (idx.getD i 0) i) (List.replicate r 0)
    S.length = r ∧ ∀ i, i < t → S.getD (idx.getD i 0) 0 = i
  | 0, _ => by simp
  | t + 1, ht => by
    obtain ⟨l1, l2⟩ := floorMap_prefix h t (by omega)
    simp only [List.range_succ, List.foldl_append, List.foldl_cons, List.foldl_nil]
    refine ⟨by simpa using l1, ?_⟩
    intro i hi
    by_cases hit : i = t
    · subst hit
      exact getD_set_self' _ _ _ (by rw [l1]; exact (h.left i (by omega)).1)
    · have hne : idx.getD t 0 ≠ idx.getD i 0 := by
        intro e
        have h1 := (h.left t (by omega)).2
        have h2 := (h.left i (by omega)).2
        rw [e, h2] at h1; exact hit h1
      rw [getD_set_ne' _ _ _ _ hne]
      exact l2 i (by omega)

/-- `get_floor_map` of a permutation is its inverse -/
theorem floorMap_eq {idx inv : List Nat} {r : Nat} (h : IsInv idx inv r) : floorMap idx = inv := by
  obtain ⟨l1, l2⟩ := floorMap_prefix h r (Nat.le_refl _)
  unfold floorMap
  rw [h.lmi]
  apply ext_getD (by rw [l1, h.lrev])
  intro k hk
  rw [l1] at hk
  obtain ⟨k1, k2⟩ := h.right k hk
  have := l2 _ k1
  rw [k2] at this
  exact this

theorem isInv_range (r : Nat) : IsInv (List.range r) (List.range r) r := by
  have hg : ∀ n, n < r → (List.range r).getD n 0 = n := by
    intro n hn; simp [List.getD_eq_getElem?_getD, List.getElem?_range hn]
  refine ⟨by simp, by simp, ?_, ?_⟩ <;> intro n hn <;> rw [hg n hn] <;> exact ⟨hn, hg n hn⟩

/-- **`permute_mapped_index_t<Index<p...>, make_index_t<r>>` (the C++17 reverse map) is the inverse permutation** -/
theorem isInv_mappedIndex {p : List Nat} {r : Nat} (hr : 0 < r) (hp : p.Perm (List.range r)) : IsInv p (mappedIndex p) r := by
  obtain ⟨hl, _, _⟩ := perm_facts hp
  have h0 : floorMap (metaArgsort p) = p := floorMap_eq (isInv_metaArgsort hr hp)
  have hid : (List.range r).Perm (List.range r) := List.Perm.refl _
  have ha : metaArgsort (List.range r) = List.range r := by
    have h1 := isInv_metaArgsort hr hid
    exact isInv_unique (isInv_range r) h1.symm |>.symm
  have h1 : floorMap (metaArgsort (List.range p.length)) = List.range r := by
    rw [hl, ha]; exact floorMap_eq (isInv_range r)
  have e : mappedIndex p = invOf p := by
    unfold mappedIndex mappedIndex2
    simp only [h0, h1]
    unfold findPermutation invOf
    rw [List.length_range, hl]
    apply List.map_congr_left
    intro i hi
    rw [List.mem_range] at hi
    simp [List.getD_eq_getElem?_getD, List.getElem?_range hi]
  rw [e]; exact isInv_invOf hp

end Fastor.Permute
