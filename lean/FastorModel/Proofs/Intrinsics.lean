import FastorModel.Model.Intrinsics
/-
  Naturality of the lane semantics of the intrinsics: every operation of Model/Intrinsics.lean only moves lanes, so it
  commutes with applying a function `f` to every lane (and to the value of a zeroed lane).  With it a kernel theorem
  proved on lane tokens holds for every element type (Generated/C14Kernels.lean: `…_all`).
-/
namespace Fastor.Intr

variable {α β : Type} (f : α → β)

theorem pick_map (z : α) (l : List α) (i : Nat) : pick (f z) (l.map f) i = f (pick z l i) := by
  simp only [pick, List.getD_eq_getElem?_getD, List.getElem?_map]
  cases l[i]? <;> rfl

theorem pick_map' (z : α) (l : List α) : pick (f z) (l.map f) = fun i => f (pick z l i) := funext (pick_map f z l)

theorem map_range_pick (z : α) (l : List α) (n : Nat) (g : Nat → Nat) :
    ((List.range n).map fun i => pick z l (g i)).map f = (List.range n).map fun i => pick (f z) (l.map f) (g i) := by
  simp [List.map_map, Function.comp_def, pick_map]

macro "nat_tac" : tactic =>
  `(tactic| simp [pick_map, List.map_map, List.map_flatMap, Function.comp_def, apply_ite (List.map _), apply_ite, List.map_append,
      List.map_replicate, List.map_take])

theorem load_map (a : Nat → α) (o n : Nat) : (load a o n).map f = load (fun k => f (a k)) o n := by
  simp [load, List.map_map, Function.comp_def]
theorem load_ss_map (z : α) (a : Nat → α) (o : Nat) : (load_ss z a o).map f = load_ss (f z) (fun k => f (a k)) o := by simp [load_ss]
theorem load_sd_map (z : α) (a : Nat → α) (o : Nat) : (load_sd z a o).map f = load_sd (f z) (fun k => f (a k)) o := by simp [load_sd]
theorem loadl_pi_map (z : α) (x : List α) (a : Nat → α) (o : Nat) :
    (loadl_pi z x a o).map f = loadl_pi (f z) (x.map f) (fun k => f (a k)) o := by simp [loadl_pi, pick_map]
theorem setzero_map (z : α) (n : Nat) : (setzero z n).map f = setzero (f z) n := by simp [setzero]
theorem maskload_map (z : α) (a : Nat → α) (o : Nat) (sel : List Bool) :
    (maskload z a o sel).map f = maskload (f z) (fun k => f (a k)) o sel := by
  simp only [maskload, List.map_map, Function.comp_def, apply_ite f]
theorem mask_loadu_map (z : α) (src : List α) (a : Nat → α) (o : Nat) (sel : List Bool) :
    (mask_loadu z src a o sel).map f = mask_loadu (f z) (src.map f) (fun k => f (a k)) o sel := by
  simp only [mask_loadu, List.map_map, Function.comp_def, apply_ite f, pick_map]

theorem unpacklo_ps_map (z : α) (a b : List α) : (unpacklo_ps z a b).map f = unpacklo_ps (f z) (a.map f) (b.map f) := by simp [unpacklo_ps, pick_map]
theorem unpackhi_ps_map (z : α) (a b : List α) : (unpackhi_ps z a b).map f = unpackhi_ps (f z) (a.map f) (b.map f) := by simp [unpackhi_ps, pick_map]
theorem movelh_ps_map (z : α) (a b : List α) : (movelh_ps z a b).map f = movelh_ps (f z) (a.map f) (b.map f) := by simp [movelh_ps, pick_map]
theorem movehl_ps_map (z : α) (a b : List α) : (movehl_ps z a b).map f = movehl_ps (f z) (a.map f) (b.map f) := by simp [movehl_ps, pick_map]
theorem shuffle_ps_map (z : α) (a b : List α) (imm : Nat) : (shuffle_ps z a b imm).map f = shuffle_ps (f z) (a.map f) (b.map f) imm := by simp [shuffle_ps, pick_map]
theorem shuffle_pd_map (z : α) (a b : List α) (imm : Nat) : (shuffle_pd z a b imm).map f = shuffle_pd (f z) (a.map f) (b.map f) imm := by simp [shuffle_pd, pick_map]
theorem unpacklo_ps256_map (z : α) (a b : List α) : (unpacklo_ps256 z a b).map f = unpacklo_ps256 (f z) (a.map f) (b.map f) := by simp [unpacklo_ps256, pick_map]
theorem unpackhi_ps256_map (z : α) (a b : List α) : (unpackhi_ps256 z a b).map f = unpackhi_ps256 (f z) (a.map f) (b.map f) := by simp [unpackhi_ps256, pick_map]
theorem shuffle_ps256_map (z : α) (a b : List α) (imm : Nat) : (shuffle_ps256 z a b imm).map f = shuffle_ps256 (f z) (a.map f) (b.map f) imm := by simp [shuffle_ps256, pick_map]
theorem shuffle_pd256_map (z : α) (a b : List α) (imm : Nat) : (shuffle_pd256 z a b imm).map f = shuffle_pd256 (f z) (a.map f) (b.map f) imm := by simp [shuffle_pd256, pick_map]
theorem half128_map (z : α) (a b : List α) (h c : Nat) : (half128 z a b h c).map f = half128 (f z) (a.map f) (b.map f) h c := by
  simp only [half128, List.map_map, Function.comp_def, apply_ite f, pick_map]
theorem permute2f128_map (z : α) (a b : List α) (imm h : Nat) :
    (permute2f128 z a b imm h).map f = permute2f128 (f z) (a.map f) (b.map f) imm h := by
  simp only [permute2f128, List.map_append, half128_map]
theorem permutevar8x32_map (z : α) (a : List α) (ix : List Nat) : (permutevar8x32 z a ix).map f = permutevar8x32 (f z) (a.map f) ix := by
  simp only [permutevar8x32, List.map_map, Function.comp_def, pick_map]
theorem cast256_128_map (a : List α) : (cast256_128 a).map f = cast256_128 (a.map f) := by simp [cast256_128, List.map_take]
theorem extractf128_pd_map (z : α) (a : List α) (imm : Nat) : (extractf128_pd z a imm).map f = extractf128_pd (f z) (a.map f) imm := by simp [extractf128_pd, pick_map]
theorem cast128_256_map (z : α) (a : List α) : (cast128_256 z a).map f = cast128_256 (f z) (a.map f) := by simp [cast128_256, pick_map]
theorem insertf128_pd_map (z : α) (a b : List α) (imm : Nat) : (insertf128_pd z a b imm).map f = insertf128_pd (f z) (a.map f) (b.map f) imm := by
  unfold insertf128_pd; split <;> simp [pick_map]
theorem permutexvar_map (z : α) (ix : List Nat) (a : List α) : (permutexvar z ix a).map f = permutexvar (f z) ix (a.map f) := by
  simp only [permutexvar, List.map_map, Function.comp_def, pick_map]
theorem lane64_map (z : α) (a : List α) (w i : Nat) : (lane64 z a w i).map f = lane64 (f z) (a.map f) w i := by
  simp only [lane64, List.map_map, Function.comp_def, pick_map]
theorem permutexvar_pd_map (z : α) (ix : List Nat) (a : List α) (w : Nat) : (permutexvar_pd z ix a w).map f = permutexvar_pd (f z) ix (a.map f) w := by
  simp only [permutexvar_pd, List.map_flatMap, lane64_map]
theorem permutex2var_pd_map (z : α) (a : List α) (ix : List Nat) (b : List α) (w : Nat) :
    (permutex2var_pd z a ix b w).map f = permutex2var_pd (f z) (a.map f) ix (b.map f) w := by
  simp only [permutex2var_pd, List.map_flatMap, apply_ite (List.map f), lane64_map]
theorem mask_permutexvar_pd_map (z : α) (src : List α) (k : Nat) (ix : List Nat) (a : List α) (w : Nat) :
    (mask_permutexvar_pd z src k ix a w).map f = mask_permutexvar_pd (f z) (src.map f) k ix (a.map f) w := by
  simp only [mask_permutexvar_pd, List.map_flatMap, apply_ite (List.map f), lane64_map]
theorem mask_permutexvar_ps_map (z : α) (src : List α) (k : Nat) (ix : List Nat) (a : List α) :
    (mask_permutexvar_ps z src k ix a).map f = mask_permutexvar_ps (f z) (src.map f) k ix (a.map f) := by
  simp only [mask_permutexvar_ps, List.map_map, Function.comp_def, apply_ite f, pick_map]
theorem insert256_map (z : α) (a b : List α) (imm h : Nat) : (insert256 z a b imm h).map f = insert256 (f z) (a.map f) (b.map f) imm h := by
  unfold insert256; split <;> simp [List.map_map, Function.comp_def, pick_map, pick_map']
theorem cast512_256_map (a : List α) (h : Nat) : (cast512_256 a h).map f = cast512_256 (a.map f) h := by simp [cast512_256, List.map_take]
theorem cast256_512_map (z : α) (a : List α) (h : Nat) : (cast256_512 z a h).map f = cast256_512 (f z) (a.map f) h := by
  simp [cast256_512, List.map_map, Function.comp_def, pick_map]

theorem MM_TRANSPOSE4_PS_map (z : α) (r0 r1 r2 r3 : List α) :
    let t := MM_TRANSPOSE4_PS z r0 r1 r2 r3
    let u := MM_TRANSPOSE4_PS (f z) (r0.map f) (r1.map f) (r2.map f) (r3.map f)
    t.1.map f = u.1 ∧ t.2.1.map f = u.2.1 ∧ t.2.2.1.map f = u.2.2.1 ∧ t.2.2.2.map f = u.2.2.2 := by
  simp only [MM_TRANSPOSE4_PS, movelh_ps_map, movehl_ps_map, unpacklo_ps_map, unpackhi_ps_map, and_self]

/-- stores of a register: positions unchanged, values mapped -/
theorem store_map (z : α) (o n : Nat) (r : List α) :
    (store z o n r).map (Prod.map id f) = store (f z) o n (r.map f) := by
  simp [store, List.map_map, Function.comp_def, pick_map]
theorem maskstore_map (z : α) (o : Nat) (sel : List Bool) (r : List α) :
    (maskstore z o sel r).map (Prod.map id f) = maskstore (f z) o sel (r.map f) := by
  simp only [maskstore, List.map_filterMap, pick_map]
  congr 1; funext l; split <;> simp

/-! from lane tokens to every element type -/

theorem lastWrite_map (ws : List (Nat × α)) (p : Nat) :
    lastWrite (ws.map (Prod.map id f)) p = (lastWrite ws p).map f := by
  induction ws with
  | nil => rfl
  | cons w ws ih =>
    simp only [List.map_cons, lastWrite, ih]
    cases lastWrite ws p with
    | some v => rfl
    | none => simp only [Option.map_none, Prod.map_fst, id]; split <;> rfl

theorem finalCells_map (ws : List (Nat × α)) (n : Nat) :
    finalCells (ws.map (Prod.map id f)) n = (finalCells ws n).map (Option.map f) := by
  simp [finalCells, List.map_map, Function.comp_def, lastWrite_map]

theorem transposed_map (a : Nat → α) (n : Nat) : (transposed a n).map (Option.map f) = transposed (fun k => f (a k)) n := by
  simp [transposed, List.map_map, Function.comp_def]

/-- the element type's view of a lane token: `none` is a zeroed lane, `some k` the source cell `k` -/
def ofTok (z : α) (a : Nat → α) : Option Nat → α
  | none => z
  | some k => a k

/-- **token theorem ⇒ every element type**: a kernel `K`, natural in the lane type, that transposes the lane tokens
    transposes every matrix of every element type, with the same store positions -/
theorem of_tokens (K : {γ : Type} → γ → (Nat → γ) → List (Nat × γ)) (nn n : Nat)
    (hnat : ∀ (z : α) (a : Nat → α), (K (none : Option Nat) some).map (Prod.map id (ofTok z a)) = K z a)
    (htok : finalCells (K (none : Option Nat) some) nn = transposed some n) (z : α) (a : Nat → α) :
    finalCells (K z a) nn = transposed a n ∧ (K z a).map (·.1) = (K (none : Option Nat) some).map (·.1) := by
  rw [← hnat z a, finalCells_map, htok, transposed_map]
  refine ⟨rfl, ?_⟩
  simp [List.map_map, Function.comp_def]

theorem ofTok_some (z : α) (a : Nat → α) (k : Nat) : ofTok z a (some k) = a k := rfl
theorem ofTok_none (z : α) (a : Nat → α) : ofTok z a none = z := rfl

end Fastor.Intr
