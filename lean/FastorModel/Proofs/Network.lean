import Mathlib.Data.List.Perm.Basic
import Mathlib.Data.List.Count
import Mathlib.Algebra.BigOperators.Group.Finset.Basic
import Mathlib.Algebra.BigOperators.Group.Finset.Sigma
import Mathlib.Algebra.BigOperators.Ring.Finset
import Mathlib.Algebra.Ring.Defs
import Mathlib.Tactic.Ring
import FastorModel.Model.Network
/-
  Helper lemmas for C15 (multi-operand einsum).

  Part 1 (`freeBy`): "keep the entries whose key occurs exactly once" on lists of arbitrary entries
  with a key function.  With entries = index names (key = id) this is `resultIdx`; with entries =
  (index name, extent) pairs (key = fst) it is `resultIdx` zipped with `resultDims`.  The nested
  forms produced by the three evaluation orders of the 3-operand einsum are compared with the
  one-shot form.

  Part 2: the cost model only chooses *which* of three shapes the result has (`triplet_res_cases`).

  Part 3 (`sumOver`): the Einstein sum as an iterated finite sum over named indices, and the
  associativity of pairwise contraction at that level.

  Everything lives in `Fastor.Network` (nothing is added to `Fastor.Einsum`).
-/
namespace Fastor.Network
open Fastor.Einsum

/-! ### Part 1: entries whose key occurs once -/

section FreeBy
variable {β : Type} (k : β → Nat)

/-- number of entries of `L` with key `x` -/
def cnt (L : List β) (x : Nat) : Nat := (L.map k).count x

/-- entries whose key `x` satisfies `c x = 1` -/
def keep (c : Nat → Nat) (L : List β) : List β := L.filter (fun p => c (k p) == 1)

/-- entries of `L` whose key occurs exactly once in `L` -/
def freeBy (L : List β) : List β := keep k (cnt k L) L

theorem cnt_append (L M : List β) (x : Nat) : cnt k (L ++ M) x = cnt k L x + cnt k M x := by
  simp [cnt]

theorem cnt_nil (x : Nat) : cnt k ([] : List β) x = 0 := by simp [cnt]

theorem cnt_pos_of_mem {L : List β} {p : β} (h : p ∈ L) : 0 < cnt k L (k p) := by
  unfold cnt
  exact List.count_pos_iff.2 (List.mem_map.2 ⟨p, h, rfl⟩)

theorem keep_append (c : Nat → Nat) (L M : List β) : keep k c (L ++ M) = keep k c L ++ keep k c M := by
  simp [keep]

theorem cnt_keep (c : Nat → Nat) (L : List β) (x : Nat) :
    cnt k (keep k c L) x = if c x = 1 then cnt k L x else 0 := by
  induction L with
  | nil => simp [keep, cnt]
  | cons p L ih =>
    unfold keep cnt at *
    rw [List.filter_cons]
    by_cases hp : c (k p) = 1
    · have hb : (c (k p) == 1) = true := by simp [hp]
      rw [if_pos hb, List.map_cons, List.map_cons, List.count_cons, List.count_cons, ih]
      by_cases hx : k p = x
      · subst hx; simp [hp]
      · simp [hx]
    · have hb : ¬ ((c (k p) == 1) = true) := by simp [hp]
      rw [if_neg hb, ih, List.map_cons, List.count_cons]
      by_cases hx : k p = x
      · subst hx; simp [hp]
      · simp [hx]

theorem cnt_freeBy (L : List β) (x : Nat) :
    cnt k (freeBy k L) x = if cnt k L x = 1 then 1 else 0 := by
  unfold freeBy
  rw [cnt_keep]
  split <;> simp_all

theorem mem_keep {c : Nat → Nat} {L : List β} {p : β} : p ∈ keep k c L ↔ p ∈ L ∧ c (k p) = 1 := by
  simp [keep]

theorem mem_freeBy {L : List β} {p : β} : p ∈ freeBy k L ↔ p ∈ L ∧ cnt k L (k p) = 1 := mem_keep k

theorem keep_congr {c c' : Nat → Nat} {L : List β}
    (h : ∀ p ∈ L, (c (k p) = 1 ↔ c' (k p) = 1)) : keep k c L = keep k c' L := by
  unfold keep
  apply List.filter_congr
  intro p hp
  have := h p hp
  by_cases h1 : c (k p) = 1
  · simp [h1, this.1 h1]
  · have h2 : ¬ c' (k p) = 1 := fun h2 => h1 (this.2 h2)
    simp [h1, h2]

theorem keep_keep (c c' : Nat → Nat) (L : List β) :
    keep k c (keep k c' L) = L.filter (fun p => c (k p) == 1 && c' (k p) == 1) := by
  simp [keep, List.filter_filter]

theorem keep_keep_eq {c c' c'' : Nat → Nat} {L : List β}
    (h : ∀ p ∈ L, ((c (k p) = 1 ∧ c' (k p) = 1) ↔ c'' (k p) = 1)) :
    keep k c (keep k c' L) = keep k c'' L := by
  rw [keep_keep]
  unfold keep
  apply List.filter_congr
  intro p hp
  have := h p hp
  rw [Bool.eq_iff_iff]
  simp only [Bool.and_eq_true, beq_iff_eq]
  exact this

/-- outer operand on the right: contracting `W` first and then with `Z` leaves the same entries, in
    the same order, as contracting everything at once -/
theorem freeBy_left (W Z : List β) (h : ∀ x, cnt k (W ++ Z) x ≤ 2) :
    freeBy k (freeBy k W ++ Z) = freeBy k (W ++ Z) := by
  show keep k (cnt k (freeBy k W ++ Z)) (freeBy k W ++ Z) = keep k (cnt k (W ++ Z)) (W ++ Z)
  rw [keep_append, keep_append]
  congr 1
  · unfold freeBy
    apply keep_keep_eq
    intro p hp
    have h1 := cnt_pos_of_mem k hp
    rw [cnt_append, cnt_append, cnt_keep]
    split <;> omega
  · apply keep_congr
    intro p hp
    have h1 := cnt_pos_of_mem k hp
    have h2 := h (k p)
    rw [cnt_append] at h2
    rw [cnt_append, cnt_append, cnt_freeBy]
    split <;> omega

/-- outer operand on the left -/
theorem freeBy_right (X W : List β) (h : ∀ x, cnt k (X ++ W) x ≤ 2) :
    freeBy k (X ++ freeBy k W) = freeBy k (X ++ W) := by
  show keep k (cnt k (X ++ freeBy k W)) (X ++ freeBy k W) = keep k (cnt k (X ++ W)) (X ++ W)
  rw [keep_append, keep_append]
  congr 1
  · apply keep_congr
    intro p hp
    have h1 := cnt_pos_of_mem k hp
    have h2 := h (k p)
    rw [cnt_append] at h2
    rw [cnt_append, cnt_append, cnt_freeBy]
    split <;> omega
  · unfold freeBy
    apply keep_keep_eq
    intro p hp
    have h1 := cnt_pos_of_mem k hp
    rw [cnt_append, cnt_append, cnt_keep]
    split <;> omega

theorem cnt_perm {L L' : List β} (h : L.Perm L') (x : Nat) : cnt k L x = cnt k L' x :=
  (h.map k).count_eq x

theorem keep_perm (c : Nat → Nat) {L L' : List β} (h : L.Perm L') : (keep k c L).Perm (keep k c L') :=
  h.filter _

theorem freeBy_perm {L L' : List β} (h : L.Perm L') : (freeBy k L).Perm (freeBy k L') := by
  unfold freeBy
  have : cnt k L = cnt k L' := funext (cnt_perm k h)
  rw [this]
  exact keep_perm k _ h

/-- the entries of a three-part list that survive, part by part -/
theorem freeBy_three (X Y Z : List β) :
    freeBy k (X ++ Y ++ Z)
      = keep k (cnt k (X ++ Y ++ Z)) X ++ keep k (cnt k (X ++ Y ++ Z)) Y ++ keep k (cnt k (X ++ Y ++ Z)) Z := by
  unfold freeBy
  rw [keep_append, keep_append]

/-- variant 0: `(X·Y)·Z` -/
theorem freeBy_v0 (X Y Z : List β) (h : ∀ x, cnt k (X ++ Y ++ Z) x ≤ 2) :
    freeBy k (freeBy k (X ++ Y) ++ Z) = freeBy k (X ++ Y ++ Z) := freeBy_left k (X ++ Y) Z h

/-- variants 2 and 3: `X·(Y·Z)` -/
theorem freeBy_v2 (X Y Z : List β) (h : ∀ x, cnt k (X ++ Y ++ Z) x ≤ 2) :
    freeBy k (X ++ freeBy k (Y ++ Z)) = freeBy k (X ++ Y ++ Z) := by
  rw [freeBy_right k X (Y ++ Z) (by simpa [List.append_assoc] using h), List.append_assoc]

/-- variant 1: `Y·(X·Z)` — the surviving entries of `Y` come first -/
theorem freeBy_v1 (X Y Z : List β) (h : ∀ x, cnt k (X ++ Y ++ Z) x ≤ 2) :
    freeBy k (Y ++ freeBy k (X ++ Z))
      = keep k (cnt k (X ++ Y ++ Z)) Y ++ keep k (cnt k (X ++ Y ++ Z)) X ++ keep k (cnt k (X ++ Y ++ Z)) Z := by
  have hp : (Y ++ X ++ Z).Perm (X ++ Y ++ Z) := List.Perm.append_right Z List.perm_append_comm
  have hc : cnt k (Y ++ X ++ Z) = cnt k (X ++ Y ++ Z) := funext (cnt_perm k hp)
  rw [freeBy_right k Y (X ++ Z) (by
    intro x; rw [← List.append_assoc, hc]; exact h x), ← List.append_assoc, freeBy_three, hc]

theorem freeBy_v1_perm (X Y Z : List β) (h : ∀ x, cnt k (X ++ Y ++ Z) x ≤ 2) :
    (freeBy k (Y ++ freeBy k (X ++ Z))).Perm (freeBy k (X ++ Y ++ Z)) := by
  rw [freeBy_v1 k X Y Z h, freeBy_three]
  exact List.Perm.append_right _ List.perm_append_comm

theorem freeBy_nodup_keys (L : List β) : ((freeBy k L).map k).Nodup := by
  rw [List.nodup_iff_count_le_one]
  intro x
  have := cnt_freeBy k L x
  unfold cnt at this
  rw [this]
  split <;> omega

end FreeBy

/-! ### the model's metafunctions in terms of `freeBy` -/

theorem cnt_id (l : List Nat) (x : Nat) : cnt id l x = l.count x := by simp [cnt]

theorem resultIdx_eq (cat : List Nat) : resultIdx cat = freeBy id cat := by
  unfold resultIdx freeBy keep occursOnce
  apply List.filter_congr
  intro x _
  simp [cnt_id]

theorem mem_resultIdx {cat : List Nat} {x : Nat} : x ∈ resultIdx cat ↔ cat.count x = 1 := by
  rw [resultIdx_eq, mem_freeBy, cnt_id]
  constructor
  · exact fun h => h.2
  · intro h
    refine ⟨?_, h⟩
    have h' : cat.count x = 1 := h
    exact List.count_pos_iff.1 (by omega)

theorem resultIdx_nodup (cat : List Nat) : (resultIdx cat).Nodup := by
  have := freeBy_nodup_keys id cat
  rwa [List.map_id, ← resultIdx_eq] at this

theorem count_resultIdx (cat : List Nat) (x : Nat) :
    (resultIdx cat).count x = if cat.count x = 1 then 1 else 0 := by
  have := cnt_freeBy id cat x
  rwa [← resultIdx_eq, cnt_id, cnt_id] at this

/-- an operand as a list of (index name, extent) entries -/
def zp (A : Operand) : List (Nat × Nat) := A.idx.zip A.dims

/-- an operand carries one extent per index -/
def WF (A : Operand) : Prop := A.idx.length = A.dims.length

instance (A : Operand) : Decidable (WF A) := by unfold WF; infer_instance

deriving instance DecidableEq for Operand

theorem zip_map_fst_snd {α γ : Type} (M : List (α × γ)) : (M.map Prod.fst).zip (M.map Prod.snd) = M := by
  induction M with
  | nil => rfl
  | cons p M ih => simp [ih]

theorem cnt_fst_zip {cat cd : List Nat} (h : cat.length = cd.length) (x : Nat) :
    cnt Prod.fst (cat.zip cd) x = cat.count x := by
  unfold cnt
  rw [List.map_fst_zip (by omega)]

theorem resultIdx_zip_fst {cat cd : List Nat} (h : cat.length = cd.length) :
    resultIdx cat = ((cat.zip cd).filter (fun p => occursOnce cat p.1)).map Prod.fst := by
  have hfst : (cat.zip cd).map Prod.fst = cat := List.map_fst_zip (by omega)
  have := List.filter_map (f := Prod.fst) (p := occursOnce cat) (l := cat.zip cd)
  rw [hfst] at this
  exact this

theorem result_zip {cat cd : List Nat} (h : cat.length = cd.length) :
    (resultIdx cat).zip (resultDims cat cd) = freeBy Prod.fst (cat.zip cd) := by
  have e : freeBy Prod.fst (cat.zip cd) = (cat.zip cd).filter (fun p => occursOnce cat p.1) := by
    unfold freeBy keep occursOnce
    apply List.filter_congr
    intro p _
    rw [cnt_fst_zip h]
  have e1 := resultIdx_zip_fst h
  rw [e]
  conv_lhs => rw [e1]
  unfold resultDims
  exact zip_map_fst_snd _

theorem resultDims_length {cat cd : List Nat} (h : cat.length = cd.length) :
    (resultDims cat cd).length = (resultIdx cat).length := by
  rw [resultIdx_zip_fst h]
  unfold resultDims
  simp

theorem WF.idx_eq {A : Operand} (h : WF A) : A.idx = (zp A).map Prod.fst :=
  (List.map_fst_zip (by unfold WF at h; omega)).symm

theorem WF.dims_eq {A : Operand} (h : WF A) : A.dims = (zp A).map Prod.snd :=
  (List.map_snd_zip (by unfold WF at h; omega)).symm

theorem WF.cnt {A : Operand} (h : WF A) (x : Nat) : cnt Prod.fst (zp A) x = A.idx.count x :=
  cnt_fst_zip h x

theorem operand_ext_zp {A B : Operand} (hA : WF A) (hB : WF B) (h : zp A = zp B) : A = B := by
  have h1 := hA.idx_eq
  have h2 := hA.dims_eq
  rw [h] at h1 h2
  rw [← hB.idx_eq] at h1
  rw [← hB.dims_eq] at h2
  cases A; cases B; simp_all

theorem WF.pairRes {A B : Operand} (hA : WF A) (hB : WF B) : WF (pairRes A B) := by
  unfold WF at *
  show (resultIdx _).length = (resultDims _ _).length
  rw [resultDims_length (by simp [hA, hB])]

theorem zp_pairRes {A B : Operand} (hA : WF A) (hB : WF B) :
    zp (pairRes A B) = freeBy Prod.fst (zp A ++ zp B) := by
  show (resultIdx _).zip (resultDims _ _) = _
  unfold WF at *
  rw [result_zip (by simp [hA, hB]), List.zip_append hA]
  rfl

/-- every index name occurs at most twice over all operands -/
def AtMostTwice (ops : List Operand) : Prop := ∀ x, (ops.flatMap (·.idx)).count x ≤ 2

theorem zp_declared (ops : List Operand) (h : ∀ A ∈ ops, WF A) :
    zp (declared ops) = freeBy Prod.fst (ops.flatMap zp) ∧ WF (declared ops) := by
  have hl : (ops.flatMap (·.idx)).length = (ops.flatMap (·.dims)).length := by
    induction ops with
    | nil => rfl
    | cons A ops ih =>
      simp only [List.flatMap_cons, List.length_append]
      rw [ih (fun B hB => h B (List.mem_cons_of_mem _ hB)), (h A List.mem_cons_self : A.idx.length = _)]
  have hz : (ops.flatMap (·.idx)).zip (ops.flatMap (·.dims)) = ops.flatMap zp := by
    induction ops with
    | nil => rfl
    | cons A ops ih =>
      simp only [List.flatMap_cons]
      rw [List.zip_append (h A List.mem_cons_self), ih (fun B hB => h B (List.mem_cons_of_mem _ hB))]
      · rfl
      · have := h A List.mem_cons_self
        unfold WF at this
        simp only [List.flatMap_cons, List.length_append] at hl
        omega
  constructor
  · show (resultIdx _).zip (resultDims _ _) = _
    rw [result_zip hl, hz]
  · show (resultIdx _).length = (resultDims _ _).length
    rw [resultDims_length hl]

/-! ### Part 2: what the cost model can choose -/

theorem argmin4 (a b c d : Nat) : argmin [a, b, c, d] =
    if min a b ≤ min (min a b) (min c d) then (if a < b then 0 else 1)
    else (if min (min a b) c ≤ min (min (min a b) c) d then (if min a b < c then 0 else 1)
      else (if min (min a b) c < d then 0 else 1) + 1) + 1 := by
  simp [argmin, minList]

theorem argmin4_le (a b c d : Nat) : argmin [a, b, c, d] ≤ 3 := by
  rw [argmin4]; split_ifs <;> omega

theorem triplet_variant_le (A B C : Operand) : (triplet A B C).variant ≤ 3 := argmin4_le _ _ _ _

theorem triplet_res_v0 {A B C : Operand} (h : (triplet A B C).variant = 0) :
    (triplet A B C).res = pairRes (pairRes A B) C := by
  unfold triplet at h ⊢
  simp only at h ⊢
  simp [h]

theorem triplet_res_v1 {A B C : Operand} (h : (triplet A B C).variant = 1) :
    (triplet A B C).res = pairRes B (pairRes A C) := by
  unfold triplet at h ⊢
  simp only at h ⊢
  simp [h]

theorem triplet_res_v2 {A B C : Operand} (h0 : (triplet A B C).variant ≠ 0)
    (h1 : (triplet A B C).variant ≠ 1) : (triplet A B C).res = pairRes A (pairRes B C) := by
  unfold triplet at h0 h1 ⊢
  simp only at h0 h1 ⊢
  simp [h0, h1]

theorem triplet_res_cases (A B C : Operand) :
    (triplet A B C).res = pairRes (pairRes A B) C ∨ (triplet A B C).res = pairRes B (pairRes A C) ∨
    (triplet A B C).res = pairRes A (pairRes B C) := by
  by_cases h0 : (triplet A B C).variant = 0
  · exact Or.inl (triplet_res_v0 h0)
  · by_cases h1 : (triplet A B C).variant = 1
    · exact Or.inr (Or.inl (triplet_res_v1 h1))
    · exact Or.inr (Or.inr (triplet_res_v2 h0 h1))

theorem quartet_res_cases (A B C D : Operand) :
    (quartet A B C D).res = pairRes (triplet A B C).res D ∨
    (quartet A B C D).res = pairRes C (triplet A B D).res ∨
    (quartet A B C D).res = pairRes B (triplet A C D).res ∨
    (quartet A B C D).res = pairRes A (triplet B C D).res := by
  unfold quartet
  simp only
  split_ifs <;> simp

/-- the free indices of operand `A` within the network `ops` -/
def freeIn (ops : List Operand) (A : Operand) : List Nat :=
  A.idx.filter fun x => (ops.flatMap (·.idx)).count x == 1

theorem flatMap3 {γ : Type} (f : Operand → List γ) (A B C : Operand) :
    [A, B, C].flatMap f = f A ++ f B ++ f C := by simp

theorem flatMap4 {γ : Type} (f : Operand → List γ) (A B C D : Operand) :
    [A, B, C, D].flatMap f = f A ++ f B ++ f C ++ f D := by simp

theorem freeIn3 (A B C X : Operand) :
    freeIn [A, B, C] X = keep id (cnt id (A.idx ++ B.idx ++ C.idx)) X.idx := by
  unfold freeIn keep
  rw [flatMap3]
  apply List.filter_congr
  intro x _
  rw [cnt_id]; rfl

section Triple
variable {A B C : Operand}

theorem amt3_id (h : AtMostTwice [A, B, C]) : ∀ x, cnt id (A.idx ++ B.idx ++ C.idx) x ≤ 2 := by
  intro x
  have := h x
  rwa [flatMap3, ← cnt_id] at this

theorem cnt_zp3 (hA : WF A) (hB : WF B) (hC : WF C) (x : Nat) :
    cnt Prod.fst (zp A ++ zp B ++ zp C) x = cnt id (A.idx ++ B.idx ++ C.idx) x := by
  simp only [cnt_append, hA.cnt, hB.cnt, hC.cnt, cnt_id]

theorem amt3_zp (hA : WF A) (hB : WF B) (hC : WF C) (h : AtMostTwice [A, B, C]) :
    ∀ x, cnt Prod.fst (zp A ++ zp B ++ zp C) x ≤ 2 := by
  intro x
  rw [cnt_zp3 hA hB hC]
  exact amt3_id h x

theorem declared3_idx : (declared [A, B, C]).idx = freeBy id (A.idx ++ B.idx ++ C.idx) := by
  show resultIdx _ = _
  rw [flatMap3, resultIdx_eq]

theorem declared3_zp (hA : WF A) (hB : WF B) (hC : WF C) :
    zp (declared [A, B, C]) = freeBy Prod.fst (zp A ++ zp B ++ zp C) ∧ WF (declared [A, B, C]) := by
  have := zp_declared [A, B, C] (by
    intro X hX
    simp only [List.mem_cons, List.not_mem_nil, or_false] at hX
    rcases hX with rfl | rfl | rfl <;> assumption)
  rwa [flatMap3] at this

/-! index lists of the three shapes -/

theorem idx_v0 (h : AtMostTwice [A, B, C]) :
    (pairRes (pairRes A B) C).idx = (declared [A, B, C]).idx := by
  show resultIdx (resultIdx (A.idx ++ B.idx) ++ C.idx) = _
  rw [declared3_idx, resultIdx_eq, resultIdx_eq, freeBy_v0 id _ _ _ (amt3_id h)]

theorem idx_v2 (h : AtMostTwice [A, B, C]) :
    (pairRes A (pairRes B C)).idx = (declared [A, B, C]).idx := by
  show resultIdx (A.idx ++ resultIdx (B.idx ++ C.idx)) = _
  rw [declared3_idx, resultIdx_eq, resultIdx_eq, freeBy_v2 id _ _ _ (amt3_id h)]

/-- variant 1: the free indices of operand 1 come first -/
theorem idx_v1 (h : AtMostTwice [A, B, C]) :
    (pairRes B (pairRes A C)).idx = freeIn [A, B, C] B ++ freeIn [A, B, C] A ++ freeIn [A, B, C] C := by
  show resultIdx (B.idx ++ resultIdx (A.idx ++ C.idx)) = _
  rw [resultIdx_eq, resultIdx_eq, freeBy_v1 id _ _ _ (amt3_id h), freeIn3, freeIn3, freeIn3]

theorem declared3_idx_split :
    (declared [A, B, C]).idx = freeIn [A, B, C] A ++ freeIn [A, B, C] B ++ freeIn [A, B, C] C := by
  rw [declared3_idx, freeBy_three, freeIn3, freeIn3, freeIn3]

theorem idx_v1_perm (h : AtMostTwice [A, B, C]) :
    (pairRes B (pairRes A C)).idx.Perm (declared [A, B, C]).idx := by
  rw [idx_v1 h, declared3_idx_split]
  exact List.Perm.append_right _ List.perm_append_comm

/-- the free indices of two different operands are disjoint -/
theorem freeIn_disjoint_AB {x : Nat} (ha : x ∈ freeIn [A, B, C] A) (hb : x ∈ freeIn [A, B, C] B) : False := by
  rw [freeIn3, mem_keep] at ha hb
  have h1 := List.count_pos_iff.2 ha.1
  have h2 := List.count_pos_iff.2 hb.1
  have h3 := ha.2
  simp only [id, cnt_id, List.count_append] at h3
  omega

/-- variant 1 gives the declared order exactly when operand 1 or operand 0 has no free index -/
theorem idx_v1_eq_iff (h : AtMostTwice [A, B, C]) :
    (pairRes B (pairRes A C)).idx = (declared [A, B, C]).idx ↔
      (freeIn [A, B, C] B = [] ∨ freeIn [A, B, C] A = []) := by
  rw [idx_v1 h, declared3_idx_split, List.append_left_inj]
  constructor
  · intro e
    cases hb : freeIn [A, B, C] B with
    | nil => exact Or.inl rfl
    | cons y b' =>
      cases ha : freeIn [A, B, C] A with
      | nil => exact Or.inr rfl
      | cons x a' =>
        exfalso
        rw [hb, ha] at e
        have hxy : y = x := by
          simp only [List.cons_append] at e
          exact (List.cons.inj e).1
        apply freeIn_disjoint_AB (A := A) (B := B) (C := C) (x := x)
        · rw [ha]; exact List.mem_cons_self
        · rw [hb, hxy]; exact List.mem_cons_self
  · rintro (e | e) <;> simp [e]

/-! (index, extent) lists of the three shapes -/

theorem res_v0 (hA : WF A) (hB : WF B) (hC : WF C) (h : AtMostTwice [A, B, C]) :
    pairRes (pairRes A B) C = declared [A, B, C] := by
  obtain ⟨hz, hw⟩ := declared3_zp hA hB hC
  apply operand_ext_zp ((hA.pairRes hB).pairRes hC) hw
  rw [hz, zp_pairRes (hA.pairRes hB) hC, zp_pairRes hA hB, freeBy_v0 _ _ _ _ (amt3_zp hA hB hC h)]

theorem res_v2 (hA : WF A) (hB : WF B) (hC : WF C) (h : AtMostTwice [A, B, C]) :
    pairRes A (pairRes B C) = declared [A, B, C] := by
  obtain ⟨hz, hw⟩ := declared3_zp hA hB hC
  apply operand_ext_zp (hA.pairRes (hB.pairRes hC)) hw
  rw [hz, zp_pairRes hA (hB.pairRes hC), zp_pairRes hB hC, freeBy_v2 _ _ _ _ (amt3_zp hA hB hC h)]

theorem zp_v1_perm (hA : WF A) (hB : WF B) (hC : WF C) (h : AtMostTwice [A, B, C]) :
    (zp (pairRes B (pairRes A C))).Perm (zp (declared [A, B, C])) := by
  obtain ⟨hz, _⟩ := declared3_zp hA hB hC
  rw [hz, zp_pairRes hB (hA.pairRes hC), zp_pairRes hA hC]
  exact freeBy_v1_perm _ _ _ _ (amt3_zp hA hB hC h)

theorem map_keep {β : Type} (k : β → Nat) (c : Nat → Nat) (L : List β) :
    (keep k c L).map k = keep id c (L.map k) := by
  unfold keep
  rw [List.filter_map]
  rfl

theorem keep_zp_eq_nil {X : Operand} (hX : WF X) (c : Nat → Nat) (h : keep id c X.idx = []) :
    keep Prod.fst c (zp X) = [] := by
  have := map_keep Prod.fst c (zp X)
  rw [← hX.idx_eq, h] at this
  exact List.map_eq_nil_iff.1 this

theorem res_v1 (hA : WF A) (hB : WF B) (hC : WF C) (h : AtMostTwice [A, B, C])
    (hf : freeIn [A, B, C] B = [] ∨ freeIn [A, B, C] A = []) :
    pairRes B (pairRes A C) = declared [A, B, C] := by
  obtain ⟨hz, hw⟩ := declared3_zp hA hB hC
  apply operand_ext_zp (hB.pairRes (hA.pairRes hC)) hw
  rw [hz, zp_pairRes hB (hA.pairRes hC), zp_pairRes hA hC, freeBy_v1 _ _ _ _ (amt3_zp hA hB hC h),
    freeBy_three]
  have hc : cnt Prod.fst (zp A ++ zp B ++ zp C) = cnt id (A.idx ++ B.idx ++ C.idx) :=
    funext (cnt_zp3 hA hB hC)
  rw [freeIn3, freeIn3] at hf
  rw [hc]
  rcases hf with e | e
  · rw [keep_zp_eq_nil hB _ e]; simp
  · rw [keep_zp_eq_nil hA _ e]; simp

theorem triplet_wf (hA : WF A) (hB : WF B) (hC : WF C) : WF (triplet A B C).res := by
  rcases triplet_res_cases A B C with e | e | e <;> rw [e]
  · exact (hA.pairRes hB).pairRes hC
  · exact hB.pairRes (hA.pairRes hC)
  · exact hA.pairRes (hB.pairRes hC)

theorem triplet_idx_perm (h : AtMostTwice [A, B, C]) :
    (triplet A B C).res.idx.Perm (declared [A, B, C]).idx := by
  rcases triplet_res_cases A B C with e | e | e <;> rw [e]
  · rw [idx_v0 h]
  · exact idx_v1_perm h
  · rw [idx_v2 h]

theorem triplet_zp_perm (hA : WF A) (hB : WF B) (hC : WF C) (h : AtMostTwice [A, B, C]) :
    (zp (triplet A B C).res).Perm (zp (declared [A, B, C])) := by
  rcases triplet_res_cases A B C with e | e | e <;> rw [e]
  · rw [res_v0 hA hB hC h]
  · exact zp_v1_perm hA hB hC h
  · rw [res_v2 hA hB hC h]

end Triple

/-! four operands -/

section Quad
variable {A B C D : Operand}

theorem amt4 (h : AtMostTwice [A, B, C, D]) (x : Nat) :
    A.idx.count x + B.idx.count x + C.idx.count x + D.idx.count x ≤ 2 := by
  have := h x
  rwa [flatMap4, List.count_append, List.count_append, List.count_append] at this

theorem amt3_of_counts {X Y Z : Operand}
    (h : ∀ x, X.idx.count x + Y.idx.count x + Z.idx.count x ≤ 2) : AtMostTwice [X, Y, Z] := by
  intro x
  rw [flatMap3, List.count_append, List.count_append]
  exact h x

theorem declared4_zp (hA : WF A) (hB : WF B) (hC : WF C) (hD : WF D) :
    zp (declared [A, B, C, D]) = freeBy Prod.fst (zp A ++ zp B ++ zp C ++ zp D) := by
  have := (zp_declared [A, B, C, D] (by
    intro X hX
    simp only [List.mem_cons, List.not_mem_nil, or_false] at hX
    rcases hX with rfl | rfl | rfl | rfl <;> assumption)).1
  rwa [flatMap4] at this

theorem quartet_wf (hA : WF A) (hB : WF B) (hC : WF C) (hD : WF D) : WF (quartet A B C D).res := by
  rcases quartet_res_cases A B C D with e | e | e | e <;> rw [e]
  · exact (triplet_wf hA hB hC).pairRes hD
  · exact hC.pairRes (triplet_wf hA hB hD)
  · exact hB.pairRes (triplet_wf hA hC hD)
  · exact hA.pairRes (triplet_wf hB hC hD)

theorem quartet_zp_perm (hA : WF A) (hB : WF B) (hC : WF C) (hD : WF D) (h : AtMostTwice [A, B, C, D]) :
    (zp (quartet A B C D).res).Perm (zp (declared [A, B, C, D])) := by
  have h4 := amt4 h
  have hcnt : ∀ x, cnt Prod.fst (zp A ++ zp B ++ zp C ++ zp D) x ≤ 2 := by
    intro x
    simp only [cnt_append, hA.cnt, hB.cnt, hC.cnt, hD.cnt]
    exact h4 x
  rw [declared4_zp hA hB hC hD]
  rcases quartet_res_cases A B C D with e | e | e | e <;> rw [e]
  · -- (A B C) then D
    have ht := triplet_zp_perm hA hB hC (amt3_of_counts (fun x => by have := h4 x; omega))
    rw [(declared3_zp hA hB hC).1] at ht
    rw [zp_pairRes (triplet_wf hA hB hC) hD]
    refine (freeBy_perm _ (List.Perm.append_right _ ht)).trans ?_
    rw [freeBy_left _ _ _ hcnt]
  · -- C with (A B D)
    have ht := triplet_zp_perm hA hB hD (amt3_of_counts (fun x => by have := h4 x; omega))
    rw [(declared3_zp hA hB hD).1] at ht
    rw [zp_pairRes hC (triplet_wf hA hB hD)]
    have hp : (zp C ++ (zp A ++ zp B ++ zp D)).Perm (zp A ++ zp B ++ zp C ++ zp D) := by
      rw [List.append_assoc (zp A ++ zp B)]
      refine List.perm_append_comm.trans ?_
      rw [List.append_assoc (zp A ++ zp B)]
      exact List.Perm.append_left _ List.perm_append_comm
    refine (freeBy_perm _ (List.Perm.append_left _ ht)).trans ?_
    rw [freeBy_right _ _ _ (fun x => by rw [cnt_perm _ hp]; exact hcnt x)]
    exact freeBy_perm _ hp
  · -- B with (A C D)
    have ht := triplet_zp_perm hA hC hD (amt3_of_counts (fun x => by have := h4 x; omega))
    rw [(declared3_zp hA hC hD).1] at ht
    rw [zp_pairRes hB (triplet_wf hA hC hD)]
    have hp : (zp B ++ (zp A ++ zp C ++ zp D)).Perm (zp A ++ zp B ++ zp C ++ zp D) := by
      simp only [List.append_assoc]
      exact List.perm_append_comm_assoc _ _ _
    refine (freeBy_perm _ (List.Perm.append_left _ ht)).trans ?_
    rw [freeBy_right _ _ _ (fun x => by rw [cnt_perm _ hp]; exact hcnt x)]
    exact freeBy_perm _ hp
  · -- A with (B C D)
    have ht := triplet_zp_perm hB hC hD (amt3_of_counts (fun x => by have := h4 x; omega))
    rw [(declared3_zp hB hC hD).1] at ht
    rw [zp_pairRes hA (triplet_wf hB hC hD)]
    have hp : (zp A ++ (zp B ++ zp C ++ zp D)) = (zp A ++ zp B ++ zp C ++ zp D) := by
      simp [List.append_assoc]
    refine (freeBy_perm _ (List.Perm.append_left _ ht)).trans ?_
    rw [freeBy_right _ _ _ (fun x => by rw [hp]; exact hcnt x), hp]

theorem quartet_idx_perm (hA : WF A) (hB : WF B) (hC : WF C) (hD : WF D) (h : AtMostTwice [A, B, C, D]) :
    (quartet A B C D).res.idx.Perm (declared [A, B, C, D]).idx := by
  have := (quartet_zp_perm hA hB hC hD h).map Prod.fst
  rwa [← (quartet_wf hA hB hC hD).idx_eq,
    ← (zp_declared [A, B, C, D] (by
      intro X hX
      simp only [List.mem_cons, List.not_mem_nil, or_false] at hX
      rcases hX with rfl | rfl | rfl | rfl <;> assumption)).2.idx_eq] at this

end Quad

/-! ### Part 3: Einstein sums over named indices -/

/-! `uniq` -/

theorem foldl_uniq_mem (l acc : List Nat) (x : Nat) :
    x ∈ l.foldl (fun acc x => if acc.contains x then acc else acc ++ [x]) acc ↔ x ∈ acc ∨ x ∈ l := by
  induction l generalizing acc with
  | nil => simp
  | cons y l ih =>
    rw [List.foldl_cons, ih]
    by_cases hy : y ∈ acc
    · have : acc.contains y = true := by simpa using hy
      rw [if_pos this]
      constructor
      · rintro (h | h)
        · exact Or.inl h
        · exact Or.inr (List.mem_cons_of_mem _ h)
      · rintro (h | h)
        · exact Or.inl h
        · rcases List.mem_cons.1 h with rfl | h
          · exact Or.inl hy
          · exact Or.inr h
    · have : ¬ (acc.contains y = true) := by simpa using hy
      rw [if_neg this]
      simp only [List.mem_append, List.mem_cons]
      tauto

theorem foldl_uniq_nodup (l acc : List Nat) (h : acc.Nodup) :
    (l.foldl (fun acc x => if acc.contains x then acc else acc ++ [x]) acc).Nodup := by
  induction l generalizing acc with
  | nil => simpa
  | cons y l ih =>
    rw [List.foldl_cons]
    apply ih
    by_cases hy : y ∈ acc
    · have : acc.contains y = true := by simpa using hy
      rw [if_pos this]; exact h
    · have : ¬ (acc.contains y = true) := by simpa using hy
      rw [if_neg this]
      rw [List.nodup_append]
      refine ⟨h, List.nodup_singleton _, ?_⟩
      intro a ha b hb
      rw [List.mem_singleton] at hb
      subst hb
      intro e; subst e; exact hy ha

theorem uniq_mem {l : List Nat} {x : Nat} : x ∈ uniq l ↔ x ∈ l := by
  unfold uniq
  rw [foldl_uniq_mem]
  simp

theorem uniq_nd (l : List Nat) : (uniq l).Nodup := foldl_uniq_nodup l [] List.nodup_nil

/-- the contracted (repeated) index names of a concatenated index list, in loop order -/
def contracted (cat : List Nat) : List Nat := (uniq cat).filter fun x => cat.count x != 1

theorem mem_contracted {cat : List Nat} {x : Nat} : x ∈ contracted cat ↔ 2 ≤ cat.count x := by
  unfold contracted
  rw [List.mem_filter, uniq_mem]
  simp only [bne_iff_ne, ne_eq]
  constructor
  · rintro ⟨h1, h2⟩
    have := List.count_pos_iff.2 h1
    omega
  · intro h
    exact ⟨List.count_pos_iff.1 (by omega), by omega⟩

theorem contracted_nodup (cat : List Nat) : (contracted cat).Nodup := (uniq_nd cat).filter _

section Sum
variable {R : Type} [CommSemiring R]
open Finset

/-- the assignment `σ` with name `n` set to `i` -/
def upd (σ : Nat → Nat) (n i : Nat) : Nat → Nat := fun x => if x = n then i else σ x

/-- `sumOver ext ns σ f`: the sum of `f τ` over all assignments `τ` that agree with `σ` outside `ns`
    and give every name `n ∈ ns` a value below its extent `ext n` -/
def sumOver (ext : Nat → Nat) : List Nat → (Nat → Nat) → ((Nat → Nat) → R) → R
  | [], σ, f => f σ
  | n :: ns, σ, f => ∑ i ∈ range (ext n), sumOver ext ns (upd σ n i) f

variable (ext : Nat → Nat)

theorem sumOver_append (ns ms : List Nat) (σ : Nat → Nat) (f : (Nat → Nat) → R) :
    sumOver ext (ns ++ ms) σ f = sumOver ext ns σ (fun τ => sumOver ext ms τ f) := by
  induction ns generalizing σ with
  | nil => rfl
  | cons n ns ih =>
    simp only [List.cons_append, sumOver]
    exact Finset.sum_congr rfl (fun i _ => ih _)

/-- only the assignments that agree with `σ` outside `ns` and are in range on `ns` matter -/
theorem sumOver_congr (ns : List Nat) (σ : Nat → Nat) (f g : (Nat → Nat) → R)
    (h : ∀ τ, (∀ x, x ∉ ns → τ x = σ x) → (∀ x ∈ ns, τ x < ext x) → f τ = g τ) :
    sumOver ext ns σ f = sumOver ext ns σ g := by
  induction ns generalizing σ with
  | nil => exact h σ (fun _ _ => rfl) (fun _ hx => by cases hx)
  | cons n ns ih =>
    simp only [sumOver]
    apply Finset.sum_congr rfl
    intro i hi
    apply ih
    intro τ h1 h2
    apply h
    · intro x hx
      rw [List.mem_cons, not_or] at hx
      rw [h1 x hx.2]
      simp [upd, hx.1]
    · intro x hx
      by_cases hxs : x ∈ ns
      · exact h2 x hxs
      · have hxn : x = n := by
          rcases List.mem_cons.1 hx with e | e
          · exact e
          · exact absurd e hxs
        rw [h1 x hxs, hxn]
        simp only [upd, if_true]
        exact Finset.mem_range.1 hi

/-- a factor that does not depend on the summed names can be pulled out -/
theorem sumOver_mul_const (ns : List Nat) (σ : Nat → Nat) (g h : (Nat → Nat) → R)
    (hh : ∀ τ n i, n ∈ ns → h (upd τ n i) = h τ) :
    sumOver ext ns σ (fun τ => g τ * h τ) = sumOver ext ns σ g * h σ := by
  induction ns generalizing σ with
  | nil => rfl
  | cons n ns ih =>
    simp only [sumOver]
    rw [Finset.sum_mul]
    apply Finset.sum_congr rfl
    intro i _
    rw [ih _ (fun τ m j hm => hh τ m j (List.mem_cons_of_mem _ hm)), hh σ n i List.mem_cons_self]

theorem upd_comm (σ : Nat → Nat) {x y : Nat} (hxy : x ≠ y) (i j : Nat) :
    upd (upd σ y i) x j = upd (upd σ x j) y i := by
  funext z
  unfold upd
  by_cases h1 : z = x
  · subst h1; simp [hxy]
  · simp [h1]

/-- the order of summation is irrelevant -/
theorem sumOver_perm {ns ms : List Nat} (h : ns.Perm ms) :
    ∀ (σ : Nat → Nat) (f : (Nat → Nat) → R), sumOver ext ns σ f = sumOver ext ms σ f := by
  induction h with
  | nil => intros; rfl
  | cons x _ ih =>
    intro σ f
    simp only [sumOver]
    exact Finset.sum_congr rfl (fun i _ => ih _ _)
  | swap x y l =>
    intro σ f
    simp only [sumOver]
    by_cases hxy : x = y
    · subst hxy; rfl
    · rw [Finset.sum_comm]
      apply Finset.sum_congr rfl
      intro j _
      apply Finset.sum_congr rfl
      intro i _
      rw [upd_comm σ hxy]
  | trans _ _ ih1 ih2 =>
    intro σ f
    rw [ih1, ih2]

/-- any two duplicate-free enumerations of the same set of names give the same sum -/
theorem sumOver_of_mem_iff {ns ms : List Nat} (h1 : ns.Nodup) (h2 : ms.Nodup)
    (h : ∀ x, x ∈ ns ↔ x ∈ ms) (σ : Nat → Nat) (f : (Nat → Nat) → R) :
    sumOver ext ns σ f = sumOver ext ms σ f :=
  sumOver_perm ext ((List.perm_ext_iff_of_nodup h1 h2).2 h) σ f

/-- **composition of Einstein sums (abstract form).**  `W` is the concatenated index list of an
    inner contraction whose result has index list `P` (the names occurring once in `W`, in any order)
    and values `pf`; `Z` is the index list of the outer factor `h`.  If no name occurs more than twice
    in `W ++ Z`, then contracting the inner result with the outer factor (index list `cat2`, any
    interleaving of `P` and `Z`) gives the one-shot Einstein sum over `cat3` (any interleaving of `W`
    and `Z`). -/
theorem einstein_compose (W Z P cat2 cat3 : List Nat)
    (hP : ∀ x, P.count x = if W.count x = 1 then 1 else 0)
    (hamt : ∀ x, W.count x + Z.count x ≤ 2)
    (hc2 : ∀ x, cat2.count x = P.count x + Z.count x)
    (hc3 : ∀ x, cat3.count x = W.count x + Z.count x)
    (g pf h : (Nat → Nat) → R)
    (hh : ∀ τ n i, n ∉ Z → h (upd τ n i) = h τ)
    (hpf : ∀ τ, (∀ x ∈ P, τ x < ext x) → pf τ = sumOver ext (contracted W) τ g)
    (σ : Nat → Nat) (hσ : ∀ x, W.count x + Z.count x = 1 → σ x < ext x) :
    sumOver ext (contracted cat2) σ (fun τ => pf τ * h τ)
      = sumOver ext (contracted cat3) σ (fun τ => g τ * h τ) := by
  have step1 : sumOver ext (contracted cat2) σ (fun τ => pf τ * h τ)
      = sumOver ext (contracted cat2) σ (fun τ => sumOver ext (contracted W) τ (fun υ => g υ * h υ)) := by
    apply sumOver_congr
    intro τ h1 h2
    rw [sumOver_mul_const ext (contracted W) τ g h (fun υ n i hn => hh υ n i (by
      intro hz
      have := mem_contracted.1 hn
      have := List.count_pos_iff.2 hz
      have := hamt n
      omega))]
    congr 1
    apply hpf
    intro x hx
    have hxP := List.count_pos_iff.2 hx
    have hPx := hP x
    have hW : W.count x = 1 := by
      by_contra hne
      rw [if_neg hne] at hPx
      omega
    by_cases hx2 : x ∈ contracted cat2
    · exact h2 x hx2
    · rw [h1 x hx2]
      apply hσ
      rw [mem_contracted, hc2, hPx, if_pos hW] at hx2
      omega
  rw [step1, ← sumOver_append]
  apply sumOver_of_mem_iff
  · rw [List.nodup_append]
    refine ⟨contracted_nodup _, contracted_nodup _, ?_⟩
    intro a ha b hb e
    subst e
    rw [mem_contracted] at ha hb
    have := hamt a
    have := hP a
    rw [hc2] at ha
    split at this <;> omega
  · exact contracted_nodup _
  · intro x
    rw [List.mem_append, mem_contracted, mem_contracted, mem_contracted, hc2, hc3, hP]
    have := hamt x
    split <;> omega

/-! operands as factors -/

/-- row-major offset of the multi-index `x` in a tensor with extents `dims` -/
def rowMajor (dims x : List Nat) : Nat :=
  ((strides dims).zip x).foldl (fun acc sp => acc + sp.1 * sp.2) 0

/-- flat offset of the element of operand `A` addressed by the named assignment `σ` -/
def offset (A : Operand) (σ : Nat → Nat) : Nat := rowMajor A.dims (A.idx.map σ)

theorem offset_upd (A : Operand) (σ : Nat → Nat) {n : Nat} (i : Nat) (hn : n ∉ A.idx) :
    offset A (upd σ n i) = offset A σ := by
  unfold offset
  congr 1
  apply List.map_congr_left
  intro x hx
  have : x ≠ n := fun e => hn (e ▸ hx)
  simp [upd, this]

/-- the term of the Einstein sum under the named assignment `σ`: the product of one element per
    operand -/
def term (ops : List Operand) (vals : List (List R)) (σ : Nat → Nat) : R :=
  ((ops.zip vals).map fun ov => ov.2.getD (offset ov.1 σ) 0).prod

/-- **the Einstein sum** of a network as a function of the named free indices: `σ` fixes the free
    names; every contracted (repeated) name ranges over its extent -/
def einsteinSum (ext : Nat → Nat) (ops : List Operand) (vals : List (List R)) (σ : Nat → Nat) : R :=
  sumOver ext (contracted (ops.flatMap (·.idx))) σ (term ops vals)

theorem term2 (A B : Operand) (a b : List R) (σ : Nat → Nat) :
    term [A, B] [a, b] σ = a.getD (offset A σ) 0 * b.getD (offset B σ) 0 := by
  simp [term]

theorem term3 (A B C : Operand) (a b c : List R) (σ : Nat → Nat) :
    term [A, B, C] [a, b, c] σ
      = a.getD (offset A σ) 0 * b.getD (offset B σ) 0 * c.getD (offset C σ) 0 := by
  simp [term, mul_assoc]

theorem term4 (A B C D : Operand) (a b c d : List R) (σ : Nat → Nat) :
    term [A, B, C, D] [a, b, c, d] σ
      = a.getD (offset A σ) 0 * b.getD (offset B σ) 0 * c.getD (offset C σ) 0 * d.getD (offset D σ) 0 := by
  simp [term, mul_assoc]

theorem flatMap2 {γ : Type} (f : Operand → List γ) (A B : Operand) :
    [A, B].flatMap f = f A ++ f B := by simp

theorem amt2_iff {X Y : Operand} :
    AtMostTwice [X, Y] ↔ ∀ x, X.idx.count x + Y.idx.count x ≤ 2 := by
  unfold AtMostTwice
  simp only [flatMap2, List.count_append]

theorem amt3_iff {X Y Z : Operand} :
    AtMostTwice [X, Y, Z] ↔ ∀ x, X.idx.count x + Y.idx.count x + Z.idx.count x ≤ 2 := by
  unfold AtMostTwice
  simp only [flatMap3, List.count_append]

theorem count_pairRes_idx (A B : Operand) (x : Nat) :
    (pairRes A B).idx.count x = if (A.idx ++ B.idx).count x = 1 then 1 else 0 :=
  count_resultIdx _ x

theorem mem_declared3 {A B C : Operand} {x : Nat} :
    x ∈ (declared [A, B, C]).idx ↔ A.idx.count x + B.idx.count x + C.idx.count x = 1 := by
  show x ∈ resultIdx _ ↔ _
  rw [mem_resultIdx, flatMap3, List.count_append, List.count_append]

/-- **associativity, shape `(A·B)·C`**: if `pv` holds the Einstein sum of `A,B` (cell addressed by
    the free names of the pair), then the Einstein sum of `pairRes A B` (values `pv`) with `C` is the
    three-operand Einstein sum. -/
theorem einstein_assoc_v0 (A B C : Operand) (a b c pv : List R) (h : AtMostTwice [A, B, C])
    (hpv : ∀ τ, (∀ x ∈ (pairRes A B).idx, τ x < ext x) →
      pv.getD (offset (pairRes A B) τ) 0 = einsteinSum ext [A, B] [a, b] τ)
    (σ : Nat → Nat) (hσ : ∀ x ∈ (declared [A, B, C]).idx, σ x < ext x) :
    einsteinSum ext [pairRes A B, C] [pv, c] σ = einsteinSum ext [A, B, C] [a, b, c] σ := by
  have h3 := amt3_iff.1 h
  unfold einsteinSum
  rw [flatMap2, flatMap3]
  have e1 : term [pairRes A B, C] [pv, c]
      = fun τ => pv.getD (offset (pairRes A B) τ) 0 * c.getD (offset C τ) 0 := funext (term2 _ _ _ _)
  have e2 : term [A, B, C] [a, b, c] = fun τ => term [A, B] [a, b] τ * c.getD (offset C τ) 0 :=
    funext fun τ => by rw [term3, term2]
  rw [e1, e2]
  apply einstein_compose ext (A.idx ++ B.idx) C.idx (pairRes A B).idx
  · exact count_pairRes_idx A B
  · intro x; have := h3 x; rw [List.count_append]; omega
  · intro x; rw [List.count_append]
  · intro x; rw [List.count_append]
  · intro τ n i hn; rw [offset_upd C τ i hn]
  · intro τ hτ
    have := hpv τ hτ
    rwa [einsteinSum, flatMap2] at this
  · intro x hx
    apply hσ
    rw [mem_declared3]
    rw [List.count_append] at hx
    exact hx

/-- **associativity, shape `B·(A·C)`** (variant 1 of the 3-operand einsum) -/
theorem einstein_assoc_v1 (A B C : Operand) (a b c pv : List R) (h : AtMostTwice [A, B, C])
    (hpv : ∀ τ, (∀ x ∈ (pairRes A C).idx, τ x < ext x) →
      pv.getD (offset (pairRes A C) τ) 0 = einsteinSum ext [A, C] [a, c] τ)
    (σ : Nat → Nat) (hσ : ∀ x ∈ (declared [A, B, C]).idx, σ x < ext x) :
    einsteinSum ext [B, pairRes A C] [b, pv] σ = einsteinSum ext [A, B, C] [a, b, c] σ := by
  have h3 := amt3_iff.1 h
  unfold einsteinSum
  rw [flatMap2, flatMap3]
  have e1 : term [B, pairRes A C] [b, pv]
      = fun τ => pv.getD (offset (pairRes A C) τ) 0 * b.getD (offset B τ) 0 :=
    funext fun τ => by rw [term2, mul_comm]
  have e2 : term [A, B, C] [a, b, c] = fun τ => term [A, C] [a, c] τ * b.getD (offset B τ) 0 :=
    funext fun τ => by rw [term3, term2]; ring
  rw [e1, e2]
  apply einstein_compose ext (A.idx ++ C.idx) B.idx (pairRes A C).idx
  · exact count_pairRes_idx A C
  · intro x; have := h3 x; rw [List.count_append]; omega
  · intro x; rw [List.count_append]; omega
  · intro x; simp only [List.count_append]; omega
  · intro τ n i hn; rw [offset_upd B τ i hn]
  · intro τ hτ
    have := hpv τ hτ
    rwa [einsteinSum, flatMap2] at this
  · intro x hx
    apply hσ
    rw [mem_declared3]
    rw [List.count_append] at hx
    omega

/-- **associativity, shape `A·(B·C)`** (variants 2 and 3) -/
theorem einstein_assoc_v2 (A B C : Operand) (a b c pv : List R) (h : AtMostTwice [A, B, C])
    (hpv : ∀ τ, (∀ x ∈ (pairRes B C).idx, τ x < ext x) →
      pv.getD (offset (pairRes B C) τ) 0 = einsteinSum ext [B, C] [b, c] τ)
    (σ : Nat → Nat) (hσ : ∀ x ∈ (declared [A, B, C]).idx, σ x < ext x) :
    einsteinSum ext [A, pairRes B C] [a, pv] σ = einsteinSum ext [A, B, C] [a, b, c] σ := by
  have h3 := amt3_iff.1 h
  unfold einsteinSum
  rw [flatMap2, flatMap3]
  have e1 : term [A, pairRes B C] [a, pv]
      = fun τ => pv.getD (offset (pairRes B C) τ) 0 * a.getD (offset A τ) 0 :=
    funext fun τ => by rw [term2, mul_comm]
  have e2 : term [A, B, C] [a, b, c] = fun τ => term [B, C] [b, c] τ * a.getD (offset A τ) 0 :=
    funext fun τ => by rw [term3, term2]; ring
  rw [e1, e2]
  apply einstein_compose ext (B.idx ++ C.idx) A.idx (pairRes B C).idx
  · exact count_pairRes_idx B C
  · intro x; have := h3 x; rw [List.count_append]; omega
  · intro x; rw [List.count_append]; omega
  · intro x; simp only [List.count_append]; omega
  · intro τ n i hn; rw [offset_upd A τ i hn]
  · intro τ hτ
    have := hpv τ hτ
    rwa [einsteinSum, flatMap2] at this
  · intro x hx
    apply hσ
    rw [mem_declared3]
    rw [List.count_append] at hx
    omega

/-! ### connection with the executable evaluation -/

/-- the extents of operand `A` are those the environment `ext` assigns to its index names
    (so every occurrence of a name carries the same extent, and `idx.length = dims.length`) -/
def Cons (ext : Nat → Nat) (A : Operand) : Prop := A.dims = A.idx.map ext

instance (ext : Nat → Nat) (A : Operand) : Decidable (Cons ext A) := by unfold Cons; infer_instance

theorem Cons.wf {A : Operand} (h : Cons ext A) : WF A := by
  unfold WF; rw [h]; simp

theorem filter_zip_map (q : Nat → Bool) (l : List Nat) :
    ((l.zip (l.map ext)).filter (fun p => q p.1)).map Prod.snd = (l.filter q).map ext := by
  induction l with
  | nil => rfl
  | cons x l ih =>
    simp only [List.map_cons, List.zip_cons_cons, List.filter_cons]
    by_cases hq : q x = true
    · simp only [hq, if_true, List.map_cons, ih]
    · have hq' : q x = false := by simpa using hq
      simp only [hq', Bool.false_eq_true, if_false, ih]

theorem resultDims_map (cat : List Nat) : resultDims cat (cat.map ext) = (resultIdx cat).map ext :=
  filter_zip_map ext _ cat

theorem Cons.pairRes {A B : Operand} (hA : Cons ext A) (hB : Cons ext B) : Cons ext (pairRes A B) := by
  unfold Cons at *
  show resultDims _ _ = (resultIdx _).map ext
  rw [hA, hB, ← List.map_append, resultDims_map]

/-- **the pairwise loop-nest fact, as a hypothesis.**  For operands with consistent extents and every
    name occurring at most twice, the cell of `pairVals A B a b` addressed by the free names of `σ`
    holds the Einstein sum of the pair (all assignments that agree with `σ` on the free names).
    This is the content of the pairwise theorem about `Pair.loopEvents`/`accAt` (C03), restated over
    named assignments. -/
def PairwiseCorrect (R : Type) [CommSemiring R] (ext : Nat → Nat) : Prop :=
  ∀ (A B : Operand) (a b : List R), Cons ext A → Cons ext B → AtMostTwice [A, B] →
    ∀ σ : Nat → Nat, (∀ x ∈ (pairRes A B).idx, σ x < ext x) →
      (pairVals A B a b).getD (offset (pairRes A B) σ) 0 = einsteinSum ext [A, B] [a, b] σ

theorem eval3_fst (A B C : Operand) (a b c : List R) :
    (eval3 A B C a b c).1 = (triplet A B C).res := by
  unfold eval3
  by_cases h0 : (triplet A B C).variant = 0
  · simp [h0, triplet_res_v0 h0]
  · by_cases h1 : (triplet A B C).variant = 1
    · simp [h1, triplet_res_v1 h1]
    · simp [h0, h1, triplet_res_v2 h0 h1]

theorem amt_v0 {A B C : Operand} (h : AtMostTwice [A, B, C]) :
    AtMostTwice [A, B] ∧ AtMostTwice [pairRes A B, C] := by
  have h3 := amt3_iff.1 h
  refine ⟨amt2_iff.2 fun x => by have := h3 x; omega, amt2_iff.2 fun x => ?_⟩
  have := h3 x
  rw [count_pairRes_idx, List.count_append]
  split <;> omega

theorem amt_v1 {A B C : Operand} (h : AtMostTwice [A, B, C]) :
    AtMostTwice [A, C] ∧ AtMostTwice [B, pairRes A C] := by
  have h3 := amt3_iff.1 h
  refine ⟨amt2_iff.2 fun x => by have := h3 x; omega, amt2_iff.2 fun x => ?_⟩
  have := h3 x
  rw [count_pairRes_idx, List.count_append]
  split <;> omega

theorem amt_v2 {A B C : Operand} (h : AtMostTwice [A, B, C]) :
    AtMostTwice [B, C] ∧ AtMostTwice [A, pairRes B C] := by
  have h3 := amt3_iff.1 h
  refine ⟨amt2_iff.2 fun x => by have := h3 x; omega, amt2_iff.2 fun x => ?_⟩
  have := h3 x
  rw [count_pairRes_idx, List.count_append]
  split <;> omega

/-- **values of the 3-operand einsum, relative to the pairwise fact.**  Whatever variant the cost
    model selects, the cell of the computed result addressed (in the *computed* index order) by the
    free names of `σ` holds the full three-operand Einstein sum. -/
theorem eval3_value_of_pairwise (hpair : PairwiseCorrect R ext) (A B C : Operand)
    (hA : Cons ext A) (hB : Cons ext B) (hC : Cons ext C) (h : AtMostTwice [A, B, C])
    (a b c : List R) (σ : Nat → Nat) (hσ : ∀ x ∈ (declared [A, B, C]).idx, σ x < ext x) :
    (eval3 A B C a b c).2.getD (offset (eval3 A B C a b c).1 σ) 0
      = einsteinSum ext [A, B, C] [a, b, c] σ := by
  unfold eval3
  by_cases h0 : (triplet A B C).variant = 0
  · simp only [h0, beq_self_eq_true, if_true]
    obtain ⟨h1, h2⟩ := amt_v0 h
    rw [hpair (pairRes A B) C _ c (hA.pairRes ext hB) hC h2 σ (by
      intro x hx; rw [idx_v0 h] at hx; exact hσ x hx)]
    exact einstein_assoc_v0 ext A B C a b c _ h (fun τ hτ => hpair A B a b hA hB h1 τ hτ) σ hσ
  · by_cases h1 : (triplet A B C).variant = 1
    · simp only [h1, beq_self_eq_true, if_true]
      have : ((1 : Nat) == 0) = false := rfl
      simp only [this, Bool.false_eq_true, if_false]
      obtain ⟨h1', h2⟩ := amt_v1 h
      rw [hpair B (pairRes A C) b _ hB (hA.pairRes ext hC) h2 σ (by
        intro x hx; exact hσ x ((idx_v1_perm h).mem_iff.1 hx))]
      exact einstein_assoc_v1 ext A B C a b c _ h (fun τ hτ => hpair A C a c hA hC h1' τ hτ) σ hσ
    · have e0 : ((triplet A B C).variant == 0) = false := by simpa using h0
      have e1 : ((triplet A B C).variant == 1) = false := by simpa using h1
      simp only [e0, e1, Bool.false_eq_true, if_false]
      obtain ⟨h1', h2⟩ := amt_v2 h
      rw [hpair A (pairRes B C) a _ hA (hB.pairRes ext hC) h2 σ (by
        intro x hx; rw [idx_v2 h] at hx; exact hσ x hx)]
      exact einstein_assoc_v2 ext A B C a b c _ h (fun τ hτ => hpair B C b c hB hC h1' τ hτ) σ hσ

/-! ### four operands -/

/-- inner result `T` (index list = the names occurring once in `W`, in any order) on the left -/
theorem compose_TZ (T Z : Operand) (W cat3 : List Nat) (tv z : List R) (g : (Nat → Nat) → R)
    (hT : ∀ x, T.idx.count x = if W.count x = 1 then 1 else 0)
    (hamt : ∀ x, W.count x + Z.idx.count x ≤ 2)
    (hc3 : ∀ x, cat3.count x = W.count x + Z.idx.count x)
    (htv : ∀ τ, (∀ x ∈ T.idx, τ x < ext x) → tv.getD (offset T τ) 0 = sumOver ext (contracted W) τ g)
    (σ : Nat → Nat) (hσ : ∀ x, cat3.count x = 1 → σ x < ext x) :
    einsteinSum ext [T, Z] [tv, z] σ
      = sumOver ext (contracted cat3) σ (fun τ => g τ * z.getD (offset Z τ) 0) := by
  unfold einsteinSum
  rw [flatMap2]
  have e1 : term [T, Z] [tv, z] = fun τ => tv.getD (offset T τ) 0 * z.getD (offset Z τ) 0 :=
    funext (term2 _ _ _ _)
  rw [e1]
  apply einstein_compose ext W Z.idx T.idx _ _ hT hamt (fun x => by rw [List.count_append]) hc3
  · intro τ n i hn; rw [offset_upd Z τ i hn]
  · exact htv
  · intro x hx; exact hσ x (by rw [hc3]; exact hx)

/-- inner result `T` on the right -/
theorem compose_ZT (T Z : Operand) (W cat3 : List Nat) (tv z : List R) (g : (Nat → Nat) → R)
    (hT : ∀ x, T.idx.count x = if W.count x = 1 then 1 else 0)
    (hamt : ∀ x, W.count x + Z.idx.count x ≤ 2)
    (hc3 : ∀ x, cat3.count x = W.count x + Z.idx.count x)
    (htv : ∀ τ, (∀ x ∈ T.idx, τ x < ext x) → tv.getD (offset T τ) 0 = sumOver ext (contracted W) τ g)
    (σ : Nat → Nat) (hσ : ∀ x, cat3.count x = 1 → σ x < ext x) :
    einsteinSum ext [Z, T] [z, tv] σ
      = sumOver ext (contracted cat3) σ (fun τ => g τ * z.getD (offset Z τ) 0) := by
  unfold einsteinSum
  rw [flatMap2]
  have e1 : term [Z, T] [z, tv] = fun τ => tv.getD (offset T τ) 0 * z.getD (offset Z τ) 0 :=
    funext fun τ => by rw [term2, mul_comm]
  rw [e1]
  apply einstein_compose ext W Z.idx T.idx _ _ hT hamt
    (fun x => by rw [List.count_append]; omega) hc3
  · intro τ n i hn; rw [offset_upd Z τ i hn]
  · exact htv
  · intro x hx; exact hσ x (by rw [hc3]; exact hx)

theorem triplet_cons {A B C : Operand} (hA : Cons ext A) (hB : Cons ext B) (hC : Cons ext C) :
    Cons ext (triplet A B C).res := by
  rcases triplet_res_cases A B C with e | e | e <;> rw [e]
  · exact (hA.pairRes ext hB).pairRes ext hC
  · exact hB.pairRes ext (hA.pairRes ext hC)
  · exact hA.pairRes ext (hB.pairRes ext hC)

theorem triplet_idx_count {A B C : Operand} (h : AtMostTwice [A, B, C]) (x : Nat) :
    (triplet A B C).res.idx.count x = if (A.idx ++ B.idx ++ C.idx).count x = 1 then 1 else 0 := by
  rw [(triplet_idx_perm h).count_eq x]
  show (resultIdx _).count x = _
  rw [count_resultIdx, flatMap3]

theorem mem_declared4 {A B C D : Operand} {x : Nat} :
    x ∈ (declared [A, B, C, D]).idx ↔
      A.idx.count x + B.idx.count x + C.idx.count x + D.idx.count x = 1 := by
  show x ∈ resultIdx _ ↔ _
  rw [mem_resultIdx, flatMap4, List.count_append, List.count_append, List.count_append]

/-- one step of `eval4`: the result `T, tv` of a 3-operand evaluation of `X,Y,Z` combined with the
    fourth operand `Q` placed on the right (`flip = false`) or on the left (`flip = true`) -/
theorem eval4_step (hpair : PairwiseCorrect R ext) {X Y Z Q : Operand} (x y z q : List R)
    (hX : Cons ext X) (hY : Cons ext Y) (hZ : Cons ext Z) (hQ : Cons ext Q)
    (h4 : ∀ n, X.idx.count n + Y.idx.count n + Z.idx.count n + Q.idx.count n ≤ 2)
    (σ : Nat → Nat)
    (hσ : ∀ n, X.idx.count n + Y.idx.count n + Z.idx.count n + Q.idx.count n = 1 → σ n < ext n) :
    ((pairVals (eval3 X Y Z x y z).1 Q (eval3 X Y Z x y z).2 q).getD
        (offset (pairRes (eval3 X Y Z x y z).1 Q) σ) 0
      = sumOver ext (contracted (X.idx ++ Y.idx ++ Z.idx ++ Q.idx)) σ
          (fun τ => term [X, Y, Z] [x, y, z] τ * q.getD (offset Q τ) 0)) ∧
    ((pairVals Q (eval3 X Y Z x y z).1 q (eval3 X Y Z x y z).2).getD
        (offset (pairRes Q (eval3 X Y Z x y z).1) σ) 0
      = sumOver ext (contracted (X.idx ++ Y.idx ++ Z.idx ++ Q.idx)) σ
          (fun τ => term [X, Y, Z] [x, y, z] τ * q.getD (offset Q τ) 0)) := by
  have h3 : AtMostTwice [X, Y, Z] := amt3_iff.2 fun n => by have := h4 n; omega
  have hT := triplet_idx_count h3
  rw [← eval3_fst X Y Z x y z] at hT
  have hTc : Cons ext (eval3 X Y Z x y z).1 := by
    rw [eval3_fst]; exact triplet_cons ext hX hY hZ
  have hamt : ∀ n, (X.idx ++ Y.idx ++ Z.idx).count n + Q.idx.count n ≤ 2 := by
    intro n; have := h4 n; simp only [List.count_append]; omega
  have hc3 : ∀ n, (X.idx ++ Y.idx ++ Z.idx ++ Q.idx).count n
      = (X.idx ++ Y.idx ++ Z.idx).count n + Q.idx.count n := by
    intro n; rw [List.count_append]
  have htv : ∀ τ, (∀ n ∈ (eval3 X Y Z x y z).1.idx, τ n < ext n) →
      (eval3 X Y Z x y z).2.getD (offset (eval3 X Y Z x y z).1 τ) 0
        = sumOver ext (contracted (X.idx ++ Y.idx ++ Z.idx)) τ (term [X, Y, Z] [x, y, z]) := by
    intro τ hτ
    have := eval3_value_of_pairwise ext hpair X Y Z hX hY hZ h3 x y z τ (by
      intro n hn
      apply hτ
      rw [eval3_fst]
      exact (triplet_idx_perm h3).mem_iff.2 hn)
    rwa [einsteinSum, flatMap3] at this
  have hσ' : ∀ n, (X.idx ++ Y.idx ++ Z.idx ++ Q.idx).count n = 1 → σ n < ext n := by
    intro n hn; apply hσ; simpa only [List.count_append] using hn
  have hamtTQ : ∀ n, (eval3 X Y Z x y z).1.idx.count n + Q.idx.count n ≤ 2 := by
    intro n; have := hamt n; rw [hT]; split <;> omega
  have hfree : ∀ n, (eval3 X Y Z x y z).1.idx.count n + Q.idx.count n = 1 →
      X.idx.count n + Y.idx.count n + Z.idx.count n + Q.idx.count n = 1 := by
    intro n hn
    have := hamt n
    rw [hT] at hn
    simp only [List.count_append] at hn this ⊢
    split at hn <;> omega
  constructor
  · rw [hpair _ Q _ q hTc hQ (amt2_iff.2 hamtTQ) σ (by
      intro n hn
      rw [show (pairRes (eval3 X Y Z x y z).1 Q).idx = resultIdx _ from rfl, mem_resultIdx,
        List.count_append] at hn
      exact hσ n (hfree n hn))]
    exact compose_TZ ext _ Q _ _ _ q _ hT hamt hc3 htv σ hσ'
  · rw [hpair Q _ q _ hQ hTc (amt2_iff.2 fun n => by have := hamtTQ n; omega) σ (by
      intro n hn
      rw [show (pairRes Q (eval3 X Y Z x y z).1).idx = resultIdx _ from rfl, mem_resultIdx,
        List.count_append] at hn
      exact hσ n (hfree n (by omega)))]
    exact compose_ZT ext _ Q _ _ _ q _ hT hamt hc3 htv σ hσ'

/-- **values of the 4-operand einsum, relative to the pairwise fact** -/
theorem eval4_value_of_pairwise (hpair : PairwiseCorrect R ext) (A B C D : Operand)
    (hA : Cons ext A) (hB : Cons ext B) (hC : Cons ext C) (hD : Cons ext D)
    (h : AtMostTwice [A, B, C, D]) (a b c d : List R) (σ : Nat → Nat)
    (hσ : ∀ x ∈ (declared [A, B, C, D]).idx, σ x < ext x) :
    (eval4 A B C D a b c d).2.getD (offset (eval4 A B C D a b c d).1 σ) 0
      = einsteinSum ext [A, B, C, D] [a, b, c, d] σ := by
  have h4 := amt4 h
  have hσ4 : ∀ n, A.idx.count n + B.idx.count n + C.idx.count n + D.idx.count n = 1 → σ n < ext n :=
    fun n hn => hσ n (mem_declared4.2 hn)
  unfold einsteinSum
  rw [flatMap4]
  unfold eval4
  by_cases h0 : (quartet A B C D).variant = 0
  · simp only [h0, beq_self_eq_true, if_true]
    rw [(eval4_step ext hpair a b c d hA hB hC hD h4 σ hσ4).1]
    congr 1
    funext τ
    rw [term3, term4]
  · have e0 : ((quartet A B C D).variant == 0) = false := by simpa using h0
    by_cases h1 : (quartet A B C D).variant = 1
    · have e1' : ((quartet A B C D).variant == 1) = true := by simpa using h1
      simp only [e0, e1', if_true, Bool.false_eq_true, if_false]
      rw [(eval4_step ext hpair a b d c hA hB hD hC (fun n => by have := h4 n; omega) σ
        (fun n hn => hσ4 n (by omega))).2]
      apply Eq.trans (sumOver_of_mem_iff ext (ms := contracted (A.idx ++ B.idx ++ C.idx ++ D.idx))
          (contracted_nodup _) (contracted_nodup _) (by
        intro x
        rw [mem_contracted, mem_contracted]
        simp only [List.count_append]
        omega) σ _)
      congr 1
      funext τ
      rw [term3, term4]; ring
    · have e1 : ((quartet A B C D).variant == 1) = false := by simpa using h1
      by_cases h2 : (quartet A B C D).variant = 2
      · have e2' : ((quartet A B C D).variant == 2) = true := by simpa using h2
        simp only [e0, e1, e2', if_true, Bool.false_eq_true, if_false]
        rw [(eval4_step ext hpair a c d b hA hC hD hB (fun n => by have := h4 n; omega) σ
          (fun n hn => hσ4 n (by omega))).2]
        apply Eq.trans (sumOver_of_mem_iff ext (ms := contracted (A.idx ++ B.idx ++ C.idx ++ D.idx))
          (contracted_nodup _) (contracted_nodup _) (by
          intro x
          rw [mem_contracted, mem_contracted]
          simp only [List.count_append]
          omega) σ _)
        congr 1
        funext τ
        rw [term3, term4]; ring
      · have e2 : ((quartet A B C D).variant == 2) = false := by simpa using h2
        simp only [e0, e1, e2, Bool.false_eq_true, if_false]
        rw [(eval4_step ext hpair b c d a hB hC hD hA (fun n => by have := h4 n; omega) σ
          (fun n hn => hσ4 n (by omega))).2]
        apply Eq.trans (sumOver_of_mem_iff ext (ms := contracted (A.idx ++ B.idx ++ C.idx ++ D.idx))
          (contracted_nodup _) (contracted_nodup _) (by
          intro x
          rw [mem_contracted, mem_contracted]
          simp only [List.count_append]
          omega) σ _)
        congr 1
        funext τ
        rw [term3, term4]; ring

/-! ### Part 4: from the list-indexed loop-nest statement (C03) to `PairwiseCorrect`

The pairwise theorem of C03 is phrased over the loop nest's own data: assignments are *lists* (one
value per unique index name, in `uniq` order) and a result cell is addressed by a multi-index.
`LoopnestCell` restates it with model definitions only; `pairwiseCorrect_of_loopnestCell` converts
it to the named form used above. -/

theorem nb_foldl_add_shift {β : Type} (g : β → Nat) (l : List β) (init : Nat) :
    l.foldl (fun acc s => acc + g s) init = init + l.foldl (fun acc s => acc + g s) 0 := by
  induction l generalizing init with
  | nil => simp
  | cons s ss ih =>
    simp only [List.foldl_cons]
    rw [ih, ih (0 + g s)]
    omega

theorem nb_foldl_mul_shift (l : List Nat) (init : Nat) :
    l.foldl (· * ·) init = init * l.foldl (· * ·) 1 := by
  induction l generalizing init with
  | nil => simp
  | cons s ss ih =>
    simp only [List.foldl_cons]
    rw [ih, ih (1 * s)]
    simp [Nat.mul_assoc]

theorem nb_prod_cons (d : Nat) (ds : List Nat) : prod (d :: ds) = d * prod ds := by
  unfold prod
  simp only [List.foldl_cons]
  rw [nb_foldl_mul_shift]
  simp

theorem rowMajor_cons (d : Nat) (ds : List Nat) (x : Nat) (xs : List Nat) :
    rowMajor (d :: ds) (x :: xs) = prod ds * x + rowMajor ds xs := by
  unfold rowMajor
  simp only [strides, List.zip_cons_cons, List.foldl_cons]
  rw [nb_foldl_add_shift (fun sp : Nat × Nat => sp.1 * sp.2)]
  simp [prod]

theorem rowMajor_lt_prod {dims x : List Nat} (h : List.Forall₂ (· < ·) x dims) :
    rowMajor dims x < prod dims := by
  induction h with
  | nil => simp [rowMajor, prod, strides]
  | @cons a d as ds had _ ih =>
    rw [rowMajor_cons, nb_prod_cons]
    calc prod ds * a + rowMajor ds as < prod ds * a + prod ds := by omega
      _ = prod ds * (a + 1) := by ring
      _ ≤ prod ds * d := Nat.mul_le_mul_left _ had
      _ = d * prod ds := Nat.mul_comm _ _

theorem flatAt_aux (st pos as : List Nat) (init : Nat) :
    (st.zip pos).foldl (fun acc sp => acc + sp.1 * as.getD sp.2 0) init
      = (st.zip (pos.map (as.getD · 0))).foldl (fun acc sp => acc + sp.1 * sp.2) init := by
  induction st generalizing pos init with
  | nil => simp
  | cons s ss ih =>
    cases pos with
    | nil => simp
    | cons p ps => simp only [List.zip_cons_cons, List.foldl_cons, List.map_cons]; exact ih _ _

/-- the named assignment a list assignment `s` of the loop variables `U` stands for -/
def named (U s : List Nat) : Nat → Nat := fun x => s.getD (U.idxOf x) 0

theorem flatAt_eq_offset (cat : List Nat) (A : Operand) (s : List Nat) :
    flatAt A.dims (posIn cat A.idx) s = offset A (named (uniq cat) s) := by
  unfold flatAt offset rowMajor posIn
  rw [flatAt_aux, List.map_map]
  rfl

theorem free_eq_named (cat idx s : List Nat) :
    (posIn cat idx).map (s.getD · 0) = idx.map (named (uniq cat) s) := by
  unfold posIn
  rw [List.map_map]
  rfl

/-- the cell-wise loop-nest statement of C03 (`Pair.loopnest_cell`), in model terms only: the cell with
    in-range result multi-index `m` holds the sum of the terms of all loop assignments whose free part
    is `m` -/
def LoopnestCell (R : Type) [CommSemiring R] : Prop :=
  ∀ (p : Pair), p.I.length = p.dI.length → p.J.length = p.dJ.length →
    ∀ (a b : Nat → R) (m : List Nat), List.Forall₂ (· < ·) m p.resDims →
      accAt a b (p.loopEvents 1) (rowMajor p.resDims m)
        = (((assignments p.loopDims 1).filter
              (fun s => decide ((posIn p.cat p.resIdx).map (s.getD · 0) = m))).map
            (fun s => a (flatAt p.dI (posIn p.cat p.I) s) * b (flatAt p.dJ (posIn p.cat p.J) s))).sum

theorem forRange_zero_one (d : Nat) : forRange 0 d 1 = List.range d := by
  unfold forRange forCount
  simp

theorem assignments_cons_one (d : Nat) (ds : List Nat) :
    assignments (d :: ds) 1
      = (List.range d).flatMap fun i => (assignments ds 1).map fun r => i :: r := by
  cases ds with
  | nil =>
    simp only [assignments, forRange_zero_one]
    generalize List.range d = l
    induction l with
    | nil => simp
    | cons x xs ih => simp [List.flatMap_cons, ih]
  | cons e es => simp only [assignments]

theorem list_sum_range (f : Nat → R) (n : Nat) :
    ((List.range n).map f).sum = ∑ i ∈ range n, f i := by
  induction n with
  | zero => simp
  | succ n ih =>
    rw [List.range_succ, List.map_append, List.sum_append, ih, Finset.sum_range_succ]
    simp

theorem sum_map_flatMap {γ δ : Type} (l : List γ) (f : γ → List δ) (g : δ → R) :
    ((l.flatMap f).map g).sum = (l.map fun i => ((f i).map g).sum).sum := by
  induction l with
  | nil => simp
  | cons x xs ih => simp [List.flatMap_cons, ih]

theorem sum_filter_map {γ : Type} (c : γ → Bool) (T : γ → R) (L : List γ) :
    ((L.filter c).map T).sum = (L.map fun s => if c s then T s else 0).sum := by
  induction L with
  | nil => simp
  | cons x xs ih =>
    rw [List.filter_cons]
    by_cases h : c x = true
    · simp [h, ih]
    · simp [h, ih]

/-- list assignment `s` of the names `U` laid over `σ` -/
def ov (σ : Nat → Nat) (U s : List Nat) : Nat → Nat :=
  fun x => if x ∈ U then s.getD (U.idxOf x) 0 else σ x

theorem ov_cons (σ : Nat → Nat) (n : Nat) (U : List Nat) (hn : n ∉ U) (i : Nat) (r : List Nat) :
    ov σ (n :: U) (i :: r) = ov (upd σ n i) U r := by
  funext x
  unfold ov upd
  by_cases hx : x = n
  · subst hx
    simp [hn]
  · by_cases hU : x ∈ U
    · have : (n :: U).idxOf x = U.idxOf x + 1 := by
        rw [List.idxOf_cons_ne _ (fun e => hx e.symm)]
      simp [hx, hU, this]
    · simp [hx, hU]

/-- the loop nest enumerates every named assignment of its variables exactly once -/
theorem sum_assignments (U : List Nat) (hU : U.Nodup) (σ : Nat → Nat) (G : (Nat → Nat) → R) :
    ((assignments (U.map ext) 1).map fun s => G (ov σ U s)).sum = sumOver ext U σ G := by
  induction U generalizing σ with
  | nil =>
    have : ov σ [] [] = σ := by funext x; simp [ov]
    simp [assignments, sumOver, this]
  | cons n U ih =>
    rw [List.nodup_cons] at hU
    rw [List.map_cons, assignments_cons_one, sum_map_flatMap, list_sum_range]
    simp only [sumOver]
    apply Finset.sum_congr rfl
    intro i _
    rw [List.map_map, ← ih hU.2 (upd σ n i)]
    congr 1
    apply List.map_congr_left
    intro r _
    simp only [Function.comp]
    rw [ov_cons σ n U hU.1]

theorem sumOver_zero (ns : List Nat) (σ : Nat → Nat) :
    sumOver ext ns σ (fun _ => (0 : R)) = 0 := by
  induction ns generalizing σ with
  | nil => rfl
  | cons n ns ih => simp only [sumOver, ih, Finset.sum_const_zero]

/-- the point assignment: summing over `Fr` a function that vanishes unless `τ` agrees with `σ₀` on
    `Fr` picks the single assignment that does -/
theorem sumOver_delta (Fr : List Nat) (hnd : Fr.Nodup) (σ₀ : Nat → Nat)
    (hr : ∀ x ∈ Fr, σ₀ x < ext x) (K : (Nat → Nat) → R) (σ : Nat → Nat) :
    sumOver ext Fr σ (fun τ => if Fr.map τ = Fr.map σ₀ then K τ else 0)
      = K (fun x => if x ∈ Fr then σ₀ x else σ x) := by
  induction Fr generalizing σ with
  | nil => simp [sumOver]
  | cons n Fr ih =>
    rw [List.nodup_cons] at hnd
    simp only [sumOver]
    have hstep : ∀ i, sumOver ext Fr (upd σ n i)
        (fun τ => if (n :: Fr).map τ = (n :: Fr).map σ₀ then K τ else 0)
        = if i = σ₀ n then K (fun x => if x ∈ Fr then σ₀ x else upd σ n i x) else 0 := by
      intro i
      by_cases hi : i = σ₀ n
      · rw [if_pos hi, ← ih hnd.2 (fun x hx => hr x (List.mem_cons_of_mem _ hx))]
        apply sumOver_congr
        intro τ h1 _
        have : τ n = σ₀ n := by rw [h1 n hnd.1]; simp [upd, hi]
        simp [this]
      · rw [if_neg hi]
        refine Eq.trans ?_ (sumOver_zero ext Fr (upd σ n i))
        apply sumOver_congr
        intro τ h1 _
        have : τ n ≠ σ₀ n := by rw [h1 n hnd.1]; simpa [upd] using hi
        simp [this]
    rw [Finset.sum_congr rfl (fun i _ => hstep i), Finset.sum_ite_eq' (range (ext n)) (σ₀ n),
      if_pos (Finset.mem_range.2 (hr n List.mem_cons_self))]
    congr 1
    funext x
    by_cases hx : x = n
    · subst hx; simp [hnd.1, upd]
    · by_cases hF : x ∈ Fr
      · simp [hF]
      · simp [hx, hF, upd]

theorem loopDims_map (cat : List Nat) :
    loopDims cat (cat.map ext) = (uniq cat).map ext := by
  unfold loopDims findIndex
  apply List.map_congr_left
  intro u hu
  have hu' : u ∈ cat := uniq_mem.1 hu
  have hlt : cat.idxOf u < cat.length := List.idxOf_lt_length_iff.2 hu'
  rw [List.getD_eq_getElem?_getD, List.getElem?_map, List.getElem?_eq_getElem hlt,
    List.getElem_idxOf hlt]
  rfl

/-- **the bridge.**  The list-indexed cell statement of C03 gives the named pairwise fact. -/
theorem pairwiseCorrect_of_loopnestCell (hcell : LoopnestCell R) : PairwiseCorrect R ext := by
  intro A B a b hA hB _ σ hσ
  let p : Pair := ⟨A.idx, B.idx, A.dims, B.dims⟩
  have hcatD : p.catDims = p.cat.map ext := by
    show A.dims ++ B.dims = (A.idx ++ B.idx).map ext
    rw [hA, hB, List.map_append]
  have hresD : p.resDims = p.resIdx.map ext := by
    show resultDims p.cat p.catDims = _
    rw [hcatD, resultDims_map]; rfl
  have hloop : p.loopDims = (uniq p.cat).map ext := by
    show loopDims p.cat p.catDims = _
    rw [hcatD, loopDims_map]
  have hm : List.Forall₂ (· < ·) (p.resIdx.map σ) p.resDims := by
    rw [hresD, List.forall₂_map_left_iff, List.forall₂_map_right_iff, List.forall₂_same]
    exact hσ
  have hq := rowMajor_lt_prod hm
  -- the buffer cell is the accumulator cell
  have hcellq : (pairVals A B a b).getD (offset (pairRes A B) σ) 0
      = accAt (fun k => a.getD k 0) (fun k => b.getD k 0) (p.loopEvents 1)
          (rowMajor p.resDims (p.resIdx.map σ)) := by
    show (runAcc _ _ (prod p.resDims) (p.loopEvents 1)).getD (rowMajor p.resDims (p.resIdx.map σ)) 0 = _
    unfold runAcc
    rw [List.getD_eq_getElem?_getD, List.getElem?_map, List.getElem?_range hq]
    rfl
  rw [hcellq, hcell p (hA.wf ext) (hB.wf ext) _ _ _ hm, sum_filter_map, hloop]
  -- terms as functions of the named assignment
  let G : (Nat → Nat) → R := fun τ =>
    if p.resIdx.map τ = p.resIdx.map σ then term [A, B] [a, b] τ else 0
  have hG : ∀ s, (if decide ((posIn p.cat p.resIdx).map (s.getD · 0) = p.resIdx.map σ) = true
        then (fun k => a.getD k 0) (flatAt p.dI (posIn p.cat p.I) s)
          * (fun k => b.getD k 0) (flatAt p.dJ (posIn p.cat p.J) s) else 0)
      = G (ov σ (uniq p.cat) s) := by
    intro s
    have hov : ∀ l : List Nat, (∀ x ∈ l, x ∈ p.cat) →
        l.map (ov σ (uniq p.cat) s) = l.map (named (uniq p.cat) s) := by
      intro l hl
      apply List.map_congr_left
      intro x hx
      simp [ov, named, uniq_mem.2 (hl x hx)]
    have hsubA : ∀ x ∈ A.idx, x ∈ p.cat := fun x hx => List.mem_append_left _ hx
    have hsubB : ∀ x ∈ B.idx, x ∈ p.cat := fun x hx => List.mem_append_right _ hx
    have hsubR : ∀ x ∈ p.resIdx, x ∈ p.cat := fun x hx => (List.mem_filter.1 hx).1
    simp only [G, term2, offset, hov _ hsubA, hov _ hsubB, hov _ hsubR, decide_eq_true_eq]
    rw [free_eq_named, show flatAt p.dI (posIn p.cat p.I) s = offset A (named (uniq p.cat) s) from
      flatAt_eq_offset p.cat A s, show flatAt p.dJ (posIn p.cat p.J) s = offset B (named (uniq p.cat) s)
      from flatAt_eq_offset p.cat B s]
    rfl
  rw [List.map_congr_left (fun s _ => hG s), sum_assignments ext _ (uniq_nd _) σ G]
  -- split the loop variables into free and contracted names
  have hperm : (uniq p.cat).Perm (p.resIdx ++ contracted p.cat) := by
    apply (List.perm_ext_iff_of_nodup (uniq_nd _) _).2
    · intro x
      rw [List.mem_append, uniq_mem, mem_contracted]
      show x ∈ p.cat ↔ x ∈ resultIdx p.cat ∨ _
      rw [mem_resultIdx]
      constructor
      · intro hx; have := List.count_pos_iff.2 hx; omega
      · intro hx; exact List.count_pos_iff.1 (by omega)
    · rw [List.nodup_append]
      refine ⟨resultIdx_nodup _, contracted_nodup _, ?_⟩
      intro x hx y hy e
      subst e
      have h1 : p.cat.count x = 1 := mem_resultIdx.1 hx
      rw [mem_contracted] at hy
      omega
  rw [sumOver_perm ext hperm, sumOver_append]
  have hinner : ∀ τ, sumOver ext (contracted p.cat) τ G
      = if p.resIdx.map τ = p.resIdx.map σ
        then sumOver ext (contracted p.cat) τ (term [A, B] [a, b]) else 0 := by
    intro τ
    have hinv : ∀ υ, (∀ x, x ∉ contracted p.cat → υ x = τ x) → p.resIdx.map υ = p.resIdx.map τ := by
      intro υ hυ
      apply List.map_congr_left
      intro x hx
      apply hυ
      intro hc
      have h1 : p.cat.count x = 1 := mem_resultIdx.1 hx
      rw [mem_contracted] at hc
      omega
    by_cases hc : p.resIdx.map τ = p.resIdx.map σ
    · rw [if_pos hc]
      apply sumOver_congr
      intro υ h1 _
      simp only [G]
      rw [if_pos (by rw [hinv υ h1]; exact hc)]
    · rw [if_neg hc]
      refine Eq.trans ?_ (sumOver_zero ext (contracted p.cat) τ)
      apply sumOver_congr
      intro υ h1 _
      simp only [G]
      rw [if_neg (by rw [hinv υ h1]; exact hc)]
  rw [show (fun τ => sumOver ext (contracted p.cat) τ G) = _ from funext hinner,
    sumOver_delta ext p.resIdx (resultIdx_nodup _) σ hσ]
  have : (fun x => if x ∈ p.resIdx then σ x else σ x) = σ := by funext x; simp
  rw [this, einsteinSum, flatMap2]
  rfl

end Sum

end Fastor.Network
