import FastorModel.Proofs.LURec
import FastorModel.Proofs.LUUnrolled
/-
  `lu_block_dispatcher`: one block step for an arbitrary split point, and all sizes of the recursive and blocked classes by
  strong induction on the size.
-/
namespace Fastor.LU
open Finset

variable {K : Type} [Field K]

/-- what C10 provides: `tinverse<UniLower>` is a right inverse of a unit lower triangular matrix and `tinverse<Upper>` a left
inverse of an upper triangular matrix with non-zero diagonal (for triangular matrices over a field: THE inverse) -/
structure InvSpec (ops : InvOps K) : Prop where
  lower : ∀ (N : Nat) (L : Mat K), (∀ i, i < N → L.get i i = 1) → (∀ i j, i < N → j < N → i < j → L.get i j = 0) →
    ∀ i p, i < N → p < N → ∑ m ∈ range N, L.get i m * (ops.invLower N L).get m p = if i = p then 1 else 0
  upper : ∀ (N : Nat) (U : Mat K), (∀ i j, i < N → j < N → j < i → U.get i j = 0) → (∀ i, i < N → U.get i i ≠ 0) →
    ∀ p j, p < N → j < N → ∑ m ∈ range N, (ops.invUpper N U).get p m * U.get m j = if p = j then 1 else 0

theorem sum_assoc_left (a b : Nat) (f : Nat → K) (g : Nat → Nat → K) (h : Nat → K) :
    ∑ m ∈ range a, f m * (∑ p ∈ range b, g m p * h p) = ∑ p ∈ range b, (∑ m ∈ range a, f m * g m p) * h p := by
  simp_rw [mul_sum, sum_mul]
  rw [sum_comm]
  apply sum_congr rfl; intro p _; apply sum_congr rfl; intro m _; ring

theorem sum_assoc_right (a b : Nat) (f : Nat → K) (g : Nat → Nat → K) (h : Nat → K) :
    ∑ m ∈ range a, (∑ p ∈ range b, f p * g p m) * h m = ∑ p ∈ range b, f p * (∑ m ∈ range a, g p m * h m) := by
  simp_rw [mul_sum, sum_mul]
  rw [sum_comm]
  apply sum_congr rfl; intro p _; apply sum_congr rfl; intro m _; ring

theorem get_block (A : Mat K) (r0 c0 r c i j : Nat) (hi : i < r) (hj : j < c) :
    (A.block r0 c0 r c).get i j = A.get (r0 + i) (c0 + j) := by
  simp [Mat.block, Mat.get_ofFn, hi, hj]

theorem get_zero (r c i j : Nat) : (Mat.zero r c : Mat K).get i j = 0 := by
  simp [Mat.zero, Mat.get_ofFn]

theorem sum_split (n N : Nat) (hN : N ≤ n) (f : Nat → K) :
    ∑ m ∈ range n, f m = ∑ m ∈ range N, f m + ∑ m ∈ range (n - N), f (N + m) := by
  conv_lhs => rw [show n = N + (n - N) by omega]
  exact sum_range_add f N (n - N)

/-- ONE BLOCK STEP, for every split point `N ≤ n`:
`[A11 A12; A21 A22] = [L11 0; L21 L22] [U11 U12; 0 U22]` with `U12 = L11⁻¹ A12`, `L21 = A21 U11⁻¹`, `L22 U22 = A22 - L21 U12`;
the zero blocks are whatever the destination held (`L0`, `U0`): the dispatcher does not write them. -/
theorem block_step (ops : InvOps K) (hops : InvSpec ops) (n N : Nat) (hN : N ≤ n) (A L0 U0 L11 U11 L22 U22 X Y : Mat K)
    (h11 : IsLU N (A.block 0 0 N N) L11 U11) (hd : ∀ i, i < N → U11.get i i ≠ 0)
    (hL0 : ∀ i j, i < n → j < n → i < j → L0.get i j = 0) (hU0 : ∀ i j, i < n → j < n → j < i → U0.get i j = 0)
    (h22 : IsLU (n - N)
      (Mat.sub (n - N) (n - N) (A.block N N (n - N) (n - N))
        (Mat.mul (n - N) N (n - N) (Mat.mul (n - N) N N (A.block N 0 (n - N) N) (ops.invUpper N U11))
          (Mat.mul N N (n - N) (ops.invLower N L11) (A.block 0 N N (n - N))))) L22 U22) :
    IsLU n A
      (assemble n N L0 L11 X (Mat.mul (n - N) N N (A.block N 0 (n - N) N) (ops.invUpper N U11)) L22 false)
      (assemble n N U0 U11 (Mat.mul N N (n - N) (ops.invLower N L11) (A.block 0 N N (n - N))) Y U22 true) := by
  obtain ⟨L21, hL21⟩ : ∃ M, M = Mat.mul (n - N) N N (A.block N 0 (n - N) N) (ops.invUpper N U11) := ⟨_, rfl⟩
  obtain ⟨U12, hU12⟩ : ∃ M, M = Mat.mul N N (n - N) (ops.invLower N L11) (A.block 0 N N (n - N)) := ⟨_, rfl⟩
  rw [← hL21, ← hU12] at h22 ⊢
  obtain ⟨la, hla⟩ : ∃ la : Nat → Nat → K, ∀ i m, la i m =
      if i < N then (if m < N then L11.get i m else L0.get i m)
      else (if m < N then L21.get (i - N) m else L22.get (i - N) (m - N)) := ⟨_, fun _ _ => rfl⟩
  obtain ⟨ua, hua⟩ : ∃ ua : Nat → Nat → K, ∀ m j, ua m j =
      if m < N then (if j < N then U11.get m j else U12.get m (j - N))
      else (if j < N then U0.get m j else U22.get (m - N) (j - N)) := ⟨_, fun _ _ => rfl⟩
  have hLA : ∀ i m, i < n → m < n → (assemble n N L0 L11 X L21 L22 false).get i m = la i m := by
    intro i m hi hm; rw [hla]; simp [assemble, Mat.get_ofFn, hi, hm]
  have hUA : ∀ m j, m < n → j < n → (assemble n N U0 U11 U12 Y U22 true).get m j = ua m j := by
    intro m j hm hj; rw [hua]; simp [assemble, Mat.get_ofFn, hm, hj]
  have hinvL := hops.lower N L11 h11.diag h11.lzero
  have hinvU := hops.upper N U11 h11.uzero hd
  refine ⟨?_, ?_, ?_, ?_⟩
  · intro i hi
    rw [hLA i i hi hi, hla]
    by_cases h : i < N
    · simp [h]; exact h11.diag i h
    · simp [h]; exact h22.diag (i - N) (by omega)
  · intro i j hi hj hij
    rw [hLA i j hi hj, hla]
    by_cases h : i < N
    · by_cases h' : j < N
      · simp [h, h']; exact h11.lzero i j h h' hij
      · simp [h, h']; exact hL0 i j hi hj hij
    · have h' : ¬ j < N := by omega
      simp [h, h']; exact h22.lzero (i - N) (j - N) (by omega) (by omega) (by omega)
  · intro i j hi hj hji
    rw [hUA i j hi hj, hua]
    by_cases h : i < N
    · have h' : j < N := by omega
      simp [h, h']; exact h11.uzero i j h h' hji
    · by_cases h' : j < N
      · simp [h, h']; exact hU0 i j hi hj hji
      · simp [h, h']; exact h22.uzero (i - N) (j - N) (by omega) (by omega) (by omega)
  · intro i j hi hj
    rw [sum_split n N hN]
    have E1 : ∑ m ∈ range N, (assemble n N L0 L11 X L21 L22 false).get i m * (assemble n N U0 U11 U12 Y U22 true).get m j
        = ∑ m ∈ range N, la i m * ua m j :=
      sum_congr rfl fun m hm => by
        have hm' := mem_range.1 hm
        rw [hLA i m hi (by omega), hUA m j (by omega) hj]
    have E2 : ∑ m ∈ range (n - N), (assemble n N L0 L11 X L21 L22 false).get i (N + m) * (assemble n N U0 U11 U12 Y U22 true).get (N + m) j
        = ∑ m ∈ range (n - N), la i (N + m) * ua (N + m) j :=
      sum_congr rfl fun m hm => by
        have hm' := mem_range.1 hm
        rw [hLA i (N + m) hi (by omega), hUA (N + m) j (by omega) hj]
    rw [E1, E2]
    by_cases h : i < N
    · have z : ∀ m ∈ range (n - N), la i (N + m) * ua (N + m) j = 0 := by
        intro m hm; have hm' := mem_range.1 hm
        have : ¬ (N + m < N) := by omega
        rw [hla]; simp [h, this, hL0 i (N + m) hi (by omega) (by omega)]
      rw [sum_eq_zero z, add_zero]
      by_cases h' : j < N
      · -- A11
        have := h11.mul i j h h'
        rw [get_block _ _ _ _ _ _ _ h h'] at this
        simp only [Nat.zero_add] at this
        rw [← this]
        apply sum_congr rfl; intro m hm; have hm' := mem_range.1 hm
        rw [hla, hua]; simp [h, h', hm']
      · -- A12
        have hj' : j - N < n - N := by omega
        have e3 : ∀ m ∈ range N, la i m * ua m j =
            L11.get i m * ∑ p ∈ range N, (ops.invLower N L11).get m p * (A.block 0 N N (n - N)).get p (j - N) := by
          intro m hm; have hm' := mem_range.1 hm
          rw [hla, hua]
          simp only [h, h', hm', if_true, if_false]
          rw [hU12, get_mul _ _ _ _ _ _ _ hm' hj']
        rw [sum_congr rfl e3, sum_assoc_left]
        have e4 : ∀ p ∈ range N, (∑ m ∈ range N, L11.get i m * (ops.invLower N L11).get m p) * (A.block 0 N N (n - N)).get p (j - N)
            = if i = p then A.get i j else 0 := by
          intro p hp; have hp' := mem_range.1 hp
          rw [hinvL i p h hp', get_block _ _ _ _ _ _ _ hp' hj']
          by_cases hip : i = p
          · subst hip
            have : N + (j - N) = j := by omega
            simp [this]
          · simp [hip]
        rw [sum_congr rfl e4, sum_ite_eq]; simp [h]
    · by_cases h' : j < N
      · -- A21
        have z : ∀ m ∈ range (n - N), la i (N + m) * ua (N + m) j = 0 := by
          intro m hm; have hm' := mem_range.1 hm
          have : ¬ (N + m < N) := by omega
          rw [hua]; simp [h', this, hU0 (N + m) j (by omega) hj (by omega)]
        rw [sum_eq_zero z, add_zero]
        have hi' : i - N < n - N := by omega
        have e3 : ∀ m ∈ range N, la i m * ua m j =
            (∑ p ∈ range N, (A.block N 0 (n - N) N).get (i - N) p * (ops.invUpper N U11).get p m) * U11.get m j := by
          intro m hm; have hm' := mem_range.1 hm
          rw [hla, hua]
          simp only [h, h', hm', if_true, if_false]
          rw [hL21, get_mul _ _ _ _ _ _ _ hi' hm']
        rw [sum_congr rfl e3, sum_assoc_right]
        have e4 : ∀ p ∈ range N, (A.block N 0 (n - N) N).get (i - N) p * (∑ m ∈ range N, (ops.invUpper N U11).get p m * U11.get m j)
            = if j = p then A.get i j else 0 := by
          intro p hp; have hp' := mem_range.1 hp
          rw [hinvU p j hp' h', get_block _ _ _ _ _ _ _ hi' hp']
          by_cases hip : j = p
          · subst hip
            have : N + (i - N) = i := by omega
            simp [this]
          · have : ¬ p = j := fun e => hip e.symm
            simp [hip, this]
        rw [sum_congr rfl e4, sum_ite_eq]; simp [h']
      · -- A22
        have hi' : i - N < n - N := by omega
        have hj' : j - N < n - N := by omega
        have s1 : ∀ m ∈ range N, la i m * ua m j = L21.get (i - N) m * U12.get m (j - N) := by
          intro m hm; have hm' := mem_range.1 hm
          rw [hla, hua]
          simp only [h, h', hm', if_true, if_false]
        have s2 : ∀ m ∈ range (n - N), la i (N + m) * ua (N + m) j = L22.get (i - N) m * U22.get m (j - N) := by
          intro m hm
          have : ¬ (N + m < N) := by omega
          rw [hla, hua]
          simp only [h, h', this, if_false, Nat.add_sub_cancel_left]
        rw [sum_congr rfl s1, sum_congr rfl s2, h22.mul (i - N) (j - N) hi' hj']
        simp only [Mat.sub]
        rw [Mat.get_ofFn, if_pos ⟨hi', hj'⟩, get_block _ _ _ _ _ _ _ hi' hj',
          get_mul (n - N) N (n - N) _ _ _ _ hi' hj']
        have e1 : N + (i - N) = i := by omega
        have e2 : N + (j - N) = j := by omega
        rw [e1, e2]; ring

/-- the sub-dispatch of the two blocked classes: `lu_block_dispatcher` up to 64, `recursive_lu_dispatcher` above -/
theorem blockSplit_bounds' (n : Nat) (h : 32 < n) : 16 ≤ blockSplit n ∧ blockSplit n < n ∧ 16 ≤ n - blockSplit n := by
  unfold blockSplit
  split <;> omega

/-- "the strategy is defined on A": every pivot the block strategy divides by (inside the recursive kernels, and the diagonal
of `U11` inverted by `tinverse`) is non-zero.  Same recursion as `luBlock`. -/
def BlockDefined (ops : InvOps K) (n : Nat) (A : Mat K) : Prop :=
  if h8 : n ≤ 8 then UnrolledDefined n A
  else if h32 : n ≤ 32 then RecDefined n A
  else
    let N := blockSplit n
    let A11 := A.block 0 0 N N
    let A12 := A.block 0 N N (n - N)
    let A21 := A.block N 0 (n - N) N
    let A22 := A.block N N (n - N) (n - N)
    let f11 := if N ≤ 64 then luBlock ops N A11 (Mat.zero N N) (Mat.zero N N)
               else luRecursive N A11 (Mat.zero N N) (Mat.zero N N)
    let U12 := Mat.mul N N (n - N) (ops.invLower N f11.1) A12
    let L21 := Mat.mul (n - N) N N A21 (ops.invUpper N f11.2)
    let S := Mat.sub (n - N) (n - N) A22 (Mat.mul (n - N) N (n - N) L21 U12)
    (if N ≤ 64 then BlockDefined ops N A11 else RecDefined N A11) ∧ (∀ i, i < N → f11.2.get i i ≠ 0) ∧
    (if n - N ≤ 64 then BlockDefined ops (n - N) S else RecDefined (n - N) S)
termination_by n
decreasing_by
  all_goals simp only [blockSplit]
  all_goals split <;> omega

/-- `lu_block_dispatcher` for EVERY size: the unrolled (1..8), recursive (9..32) and blocked (33..64, > 64) classes -/
theorem luBlock_isLU (ops : InvOps K) (hops : InvSpec ops) :
    ∀ n, ∀ (A L0 U0 : Mat K),
      (∀ i j, i < n → j < n → i < j → L0.get i j = 0) → (∀ i j, i < n → j < n → j < i → U0.get i j = 0) →
      BlockDefined ops n A → IsLU n A (luBlock ops n A L0 U0).1 (luBlock ops n A L0 U0).2 := by
  intro n
  induction n using Nat.strong_induction_on with
  | _ n ih =>
    intro A L0 U0 hL0 hU0 hdef
    by_cases h8 : n ≤ 8
    · rw [luBlock, dif_pos h8]
      rw [BlockDefined, dif_pos h8] at hdef
      exact lufactUnrolled_isLU n A hdef
    have h8' : ¬ n ≤ 8 := h8
    by_cases h32 : n ≤ 32
    · rw [luBlock, dif_neg h8', dif_pos h32]
      rw [BlockDefined, dif_neg h8', dif_pos h32] at hdef
      exact luRecursive_isLU n (by omega) A L0 U0 hdef
    · obtain ⟨b1, b2, b3⟩ := blockSplit_bounds' n (by omega)
      rw [BlockDefined, dif_neg h8', dif_neg h32] at hdef
      rw [luBlock, dif_neg h8', dif_neg h32]
      simp only at hdef ⊢
      obtain ⟨d11, dd, d22⟩ := hdef
      have z1 : ∀ m i j, i < m → j < m → i < j → (Mat.zero m m : Mat K).get i j = 0 := fun m i j _ _ _ => get_zero m m i j
      have z2 : ∀ m i j, i < m → j < m → j < i → (Mat.zero m m : Mat K).get i j = 0 := fun m i j _ _ _ => get_zero m m i j
      have sub : ∀ m, 16 ≤ m → m < n → ∀ B : Mat K, (if m ≤ 64 then BlockDefined ops m B else RecDefined m B) →
          IsLU m B (if m ≤ 64 then luBlock ops m B (Mat.zero m m) (Mat.zero m m) else luRecursive m B (Mat.zero m m) (Mat.zero m m)).1
                   (if m ≤ 64 then luBlock ops m B (Mat.zero m m) (Mat.zero m m) else luRecursive m B (Mat.zero m m) (Mat.zero m m)).2 := by
        intro m hm1 hm2 B hB
        by_cases h64 : m ≤ 64
        · simp only [h64, if_true] at hB ⊢
          exact ih m hm2 B _ _ (z1 m) (z2 m) hB
        · simp only [h64, if_false] at hB ⊢
          exact luRecursive_isLU m (by omega) B _ _ hB
      have h11 := sub (blockSplit n) b1 b2 _ d11
      have h22 := sub (n - blockSplit n) b3 (by omega) _ d22
      exact block_step ops hops n (blockSplit n) (by omega) A L0 U0 _ _ _ _ _ _ h11 dd hL0 hU0 h22

end Fastor.LU
