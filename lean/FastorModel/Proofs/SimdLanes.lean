import FastorModel.Model.SimdIntrinsics
import FastorModel.Proofs.SimdAttr
/-! C08 helper lemmas: 64-bit lanes as pairs of 32-bit lanes, low half of the widening multiply. (core only) -/
namespace Fastor.Simd

theorem lo32_append (h l : BitVec 32) : lo32 (h ++ l) = l := by
  apply BitVec.eq_of_getLsbD_eq; intro i hi
  simp only [lo32, BitVec.getLsbD_extractLsb', Nat.zero_add]
  rw [BitVec.getLsbD_append]; simp [hi]

theorem hi32_append (h l : BitVec 32) : hi32 (h ++ l) = h := by
  apply BitVec.eq_of_getLsbD_eq; intro i hi
  simp only [hi32, BitVec.getLsbD_extractLsb']
  rw [BitVec.getLsbD_append]; simp [hi]

theorem hi32_lo32 (x : BitVec 64) : hi32 x ++ lo32 x = x := by
  apply BitVec.eq_of_getLsbD_eq; intro i hi
  simp only [hi32, lo32, BitVec.getLsbD_append, BitVec.getLsbD_extractLsb']
  by_cases h : i < 32
  · simp [h]
  · have : 32 + (i - 32) = i := by omega
    simp [h, this]; omega

/-- the low 32 bits of the widening unsigned multiply are the wrap-around product -/
theorem lo32_mul (a b : BitVec 32) : lo32 (a.setWidth 64 * b.setWidth 64) = a * b := by
  have : lo32 (a.setWidth 64 * b.setWidth 64) = (a.setWidth 64 * b.setWidth 64).setWidth 32 := by
    ext i hi; simp [lo32, BitVec.getElem_extractLsb', BitVec.getElem_setWidth]
  rw [this]; simp [BitVec.setWidth_mul]

/-- reading back 64-bit lane `j` of a register built from 64-bit lanes -/
theorem lane64_of64 (f : Nat → BitVec 64) (j : Nat) : lane64 (of64 f) j = f j := by
  have h1 : (2 * j + 1) % 2 = 1 := by omega
  have h2 : (2 * j) % 2 = 0 := by omega
  have h3 : (2 * j + 1) / 2 = j := by omega
  have h4 : (2 * j) / 2 = j := by omega
  simp only [lane64, of64, h1, h2, h3, h4]
  simp [hi32_lo32]

theorem of64_lane64 (a : Reg) (k : Nat) : of64 (lane64 a) k = a k := by
  simp only [lane64, of64]
  rcases Nat.mod_two_eq_zero_or_one k with h | h
  · have : 2 * (k / 2) = k := by omega
    simp [h, this, lo32_append]
  · have : 2 * (k / 2) + 1 = k := by omega
    simp [h, this, hi32_append]

/-! SSE2 integer abs: `(x ^^^ (x >>s 31)) - (x >>s 31)` is the two's complement absolute value -/
theorem ones_bits : ∀ i, i < 32 → (4294967295#32).getLsbD i = true := by decide
theorem sshift31 (x : BitVec 32) : x.sshiftRight 31 = if x.msb then 4294967295#32 else 0#32 := by
  apply BitVec.eq_of_getLsbD_eq; intro i hi
  rw [BitVec.getLsbD_sshiftRight]
  have hd : decide (32 ≤ i) = false := by simp; omega
  rw [hd]
  have hm31 : x.getLsbD 31 = x.msb := by rw [BitVec.msb_eq_getLsbD_last]
  have hm31' : x[31] = x.msb := by rw [← BitVec.getLsbD_eq_getElem]; exact hm31
  by_cases h0 : i = 0
  · subst h0
    cases hm : x.msb
    · rw [hm] at hm31'; simp [hm31']
    · rw [hm] at hm31'; simp [hm31']
  · have : ¬ (31 + i < 32) := by omega
    cases hm : x.msb
    · simp [this]
    · simp only [this, if_false, if_true, Bool.not_false, Bool.true_and]; exact (ones_bits i hi).symm
theorem abs_by_sign (x : BitVec 32) : (x ^^^ x.sshiftRight 31) - x.sshiftRight 31 = abs32 x := by
  unfold abs32
  rw [sshift31, BitVec.slt_zero_eq_msb]
  cases h : x.msb
  · simp
  · simp only [if_true]
    have : (4294967295#32) = BitVec.allOnes 32 := by decide
    rw [this, BitVec.xor_allOnes, BitVec.neg_eq_not_add, BitVec.sub_eq_add_neg]
    congr 1

/-! bit operations on a 64-bit lane done on its two 32-bit halves -/
theorem append_xor_halves (h l : BitVec 32) (c : BitVec 64) : (h ^^^ hi32 c) ++ (l ^^^ lo32 c) = (h ++ l) ^^^ c := by
  conv => rhs; rw [← hi32_lo32 c]
  rw [BitVec.xor_append]
theorem append_andnot_halves (h l : BitVec 32) (c : BitVec 64) : (~~~hi32 c &&& h) ++ (~~~lo32 c &&& l) = ~~~c &&& (h ++ l) := by
  conv => rhs; rw [← hi32_lo32 c]
  rw [BitVec.not_append, BitVec.and_append]
theorem abs64_by_sign (h l : BitVec 32) :
    ((h ^^^ h.sshiftRight 31) ++ (l ^^^ h.sshiftRight 31)) - (h.sshiftRight 31 ++ h.sshiftRight 31) = abs64 (h ++ l) := by
  unfold abs64
  rw [sshift31, BitVec.slt_zero_eq_msb]
  have hm : (h ++ l).msb = h.msb := by rw [BitVec.msb_append]; simp
  rw [hm]
  cases hh : h.msb
  · simp
  · simp only [if_true]
    have e1 : (4294967295#32) = BitVec.allOnes 32 := by decide
    have e2 : (BitVec.allOnes 32 ++ BitVec.allOnes 32) = BitVec.allOnes 64 := by decide
    rw [e1, BitVec.xor_allOnes, BitVec.xor_allOnes, e2, ← BitVec.not_append, BitVec.neg_eq_not_add, BitVec.sub_eq_add_neg]
    congr 1

/-! constant mask lanes of the 3-lane masked loads / stores -/
theorem msb_ones32 : (4294967295#32).msb = true := by decide
theorem msb_zero32 : (0#32).msb = false := by decide
theorem hi32_ones : hi32 18446744073709551615#64 = 4294967295#32 := by decide
theorem lo32_ones : lo32 18446744073709551615#64 = 4294967295#32 := by decide
theorem hi32_zero : hi32 0#64 = 0#32 := by decide
theorem lo32_zero : lo32 0#64 = 0#32 := by decide

attribute [simd] map32 zip32 zip64 map64 low32 low64 setzero set1_32 set1_64 setr32 setr64 set32 set64
  add_epi32 sub_epi32 mullo_epi32 add_epi64 sub_epi64 mullo_epi64 mul_epu32 and_si or_si xor_si andnot_si
  srai_epi32 srli_epi32 slli_epi32 abs_epi32 abs_epi64 min_epi32 max_epi32 min_epi64 max_epi64 slli_si128
  shuffle_epi32 shuffle_ps shuffle_pd unpacklo_epi32 unpackhi_epi32 unpacklo_epi64 unpackhi_epi64 movehl_ps movelh_ps movehdup_ps
  blend_ps cast128_256 extractf128 insertf128 sel2f128 permute2f128 permute4x64 permutexvar32 permutexvar64 permutex2var32 permutex2var64 hadd_ps hadd_pd
  add_ps sub_ps mul_ps div_ps min_ps max_ps sqrt_ps add_pd sub_pd mul_pd div_pd min_pd max_pd sqrt_pd
  add_ss sub_ss mul_ss add_sd sub_sd mul_sd fmadd_ps fmadd_pd fmsub_ps fmsub_pd fnmadd_ps fnmadd_pd cvt32 cvt64
  loadl_pi msb_ones32 msb_zero32 hi32_ones lo32_ones hi32_zero lo32_zero loadw loadw_ss loadw_sd storew maskload32 maskload64 maskstore32 maskstore64 kload32 kload64 kstore32 kstore64 of64 append_xor_halves append_andnot_halves abs64_by_sign lo32_mul lo32_append hi32_append hi32_lo32 lane64_of64 of64_lane64

end Fastor.Simd
