import Mathlib.Algebra.BigOperators.Group.Finset.Basic
import Mathlib.Algebra.BigOperators.Ring.Finset
import Mathlib.Algebra.Field.Basic
import Mathlib.Tactic.Ring
import FastorModel.Model.QR
/-
  C13 — what each loop (nest) of `qr_mgsr_dispatcher` leaves in the tensor it writes, element by element.
-/
namespace Fastor.QR
open Finset

section loops
variable {σ : Type}

theorem loop_nil {lo hi : Nat} (h : hi ≤ lo) (f : Nat → σ → σ) (s : σ) : loop lo hi f s = s := by
  unfold loop
  have : hi - lo = 0 := by omega
  rw [this]; rfl

theorem loop_succ {lo hi : Nat} (h : lo ≤ hi) (f : Nat → σ → σ) (s : σ) :
    loop lo (hi + 1) f s = f hi (loop lo hi f s) := by
  unfold loop
  have : hi + 1 - lo = (hi - lo) + 1 := by omega
  rw [this, List.range'_concat, List.foldl_append]
  have : lo + 1 * (hi - lo) = hi := by omega
  rw [this]; rfl

/-- loop invariants: `P lo s`, preserved by every iteration `lo ≤ x < hi`, gives `P hi` at exit -/
theorem loop_induction {lo hi : Nat} (hle : lo ≤ hi) (f : Nat → σ → σ) (s : σ) (P : Nat → σ → Prop)
    (h0 : P lo s) (hstep : ∀ x t, lo ≤ x → x < hi → P x t → P (x + 1) (f x t)) :
    P hi (loop lo hi f s) := by
  induction hi, hle using Nat.le_induction with
  | base => rw [loop_nil (Nat.le_refl _)]; exact h0
  | succ n hn ih =>
    rw [loop_succ hn]
    exact hstep n _ hn (Nat.lt_succ_self n) (ih (fun x t h1 h2 => hstep x t h1 (Nat.lt_succ_of_lt h2)))

end loops

section mats
variable {α : Type}

@[simp] theorem set2_get (X : Mat α) (i j : Nat) (v : α) (a b : Nat) :
    (set2 X i j v) a b = if a = i ∧ b = j then v else X a b := rfl

/-- a loop over the columns `lo ≤ j < hi` of row `r` that replaces `X(r,j)` by `g j (X(r,j))` -/
theorem loop_row (lo hi r : Nat) (g : Nat → α → α) (X : Mat α) (a b : Nat) :
    (loop lo hi (fun j X => set2 X r j (g j (X r j))) X) a b
      = if a = r ∧ lo ≤ b ∧ b < hi then g b (X a b) else X a b := by
  by_cases hle : lo ≤ hi
  · refine loop_induction hle _ X (fun x Y => ∀ a b, Y a b = if a = r ∧ lo ≤ b ∧ b < x then g b (X a b) else X a b)
      ?_ ?_ a b
    · intro a b; have : ¬ (a = r ∧ lo ≤ b ∧ b < lo) := by omega
      rw [if_neg this]
    · intro x Y h1 h2 ih a b
      rw [set2_get]
      by_cases hab : a = r ∧ b = x
      · obtain ⟨rfl, rfl⟩ := hab
        have hx : Y a b = X a b := by
          rw [ih]; have : ¬ (a = a ∧ lo ≤ b ∧ b < b) := by omega
          simp [this]
        have : (a = a ∧ lo ≤ b ∧ b < b + 1) := ⟨rfl, h1, Nat.lt_succ_self b⟩
        simp [this, hx]
      · rw [if_neg hab, ih]
        by_cases hc : a = r ∧ lo ≤ b ∧ b < x
        · have : a = r ∧ lo ≤ b ∧ b < x + 1 := ⟨hc.1, hc.2.1, by omega⟩
          rw [if_pos hc, if_pos this]
        · have : ¬ (a = r ∧ lo ≤ b ∧ b < x + 1) := by
            rintro ⟨h3, h4, h5⟩
            have : b ≠ x := fun h => hab ⟨h3, h⟩
            exact hc ⟨h3, h4, by omega⟩
          rw [if_neg hc, if_neg this]
  · rw [loop_nil (by omega)]
    have : ¬ (a = r ∧ lo ≤ b ∧ b < hi) := by omega
    rw [if_neg this]

end mats

section frame
/-! frame facts that need no algebraic law: they hold for floating point as well -/
variable {α : Type} [Zero α] [Add α] [Sub α] [Mul α] [Div α]

/-- step 3 touches `R` only in row `i`, columns `i+1 .. N-1` -/
theorem phase3_frame (M N i : Nat) (Q W R : Mat α) (a b : Nat) (h : ¬ (a = i ∧ i + 1 ≤ b ∧ b < N)) :
    (phase3 M N i Q W R) a b = R a b := by
  unfold phase3
  refine loop_induction (Nat.zero_le M) _ R (fun _ Y => Y a b = R a b) rfl ?_
  intro x Y _ _ ih
  rw [loop_row (i + 1) N i (fun j y => y + Q x i * W x j) Y a b, if_neg h, ih]

theorem stateAt_succ (sqrt : α → α) (M N : Nat) (A0 Qin : Mat α) (i : Nat) :
    stateAt sqrt M N A0 Qin (i + 1) = outerStep sqrt M N i (stateAt sqrt M N A0 Qin i) :=
  loop_succ (Nat.zero_le i) _ _

/-- `R.fill(0)` and the bounds `j = i+1 ..` of step 3: after `t` iterations `R` is exactly zero below the
    diagonal and in every row `≥ t` — whatever the arithmetic does -/
theorem rzero_stateAt (sqrt : α → α) (M N : Nat) (A0 Qin : Mat α) (t : Nat) :
    ∀ p j, (j < p ∨ t ≤ p) → (stateAt sqrt M N A0 Qin t).R p j = 0 := by
  induction t with
  | zero => intro p j _; rfl
  | succ n ih =>
    intro p j h
    rw [stateAt_succ]
    show (phase3 M N n _ _ (set2 _ n n _)) p j = 0
    rw [phase3_frame _ _ _ _ _ _ _ _ (by omega), set2_get, if_neg (by omega)]
    exact ih p j (by omega)

end frame

section field
variable {K : Type} [Field K]

/-- step 1: the accumulated squared column norm is the sum over the rows -/
theorem colNorm2_eq (M : Nat) (W : Mat K) (i : Nat) :
    colNorm2 M W i = ∑ k ∈ range M, W k i * W k i := by
  unfold colNorm2
  refine loop_induction (Nat.zero_le M) _ (0 : K) (fun x acc => acc = ∑ k ∈ range x, W k i * W k i) (by simp) ?_
  intro x t _ _ ih
  rw [sum_range_succ, ih]

/-- step 2 writes column `i` of `Q`, rows `0..M-1` -/
theorem phase2_get (M i : Nat) (W : Mat K) (r : K) (Q : Mat K) (a b : Nat) :
    (phase2 M i W r Q) a b = if b = i ∧ a < M then W a i / r else Q a b := by
  unfold phase2
  refine loop_induction (Nat.zero_le M) _ Q (fun x Y => ∀ a b, Y a b = if b = i ∧ a < x then W a i / r else Q a b)
    (by intro a b; simp) ?_ a b
  intro x Y _ _ ih a b
  rw [set2_get]
  by_cases hab : a = x ∧ b = i
  · obtain ⟨rfl, rfl⟩ := hab; simp
  · rw [if_neg hab, ih]
    by_cases hc : b = i ∧ a < x
    · rw [if_pos hc, if_pos ⟨hc.1, by omega⟩]
    · have : ¬ (b = i ∧ a < x + 1) := by
        rintro ⟨h3, h4⟩
        have : a ≠ x := fun h => hab ⟨h, h3⟩
        exact hc ⟨h3, by omega⟩
      rw [if_neg hc, if_neg this]

/-- step 3 adds to `R(i,j)`, `i < j < N`, the dot product of column `i` of `Q` with column `j` of the working copy -/
theorem phase3_get (M N i : Nat) (Q W R : Mat K) (a b : Nat) :
    (phase3 M N i Q W R) a b
      = if a = i ∧ i + 1 ≤ b ∧ b < N then R a b + ∑ k ∈ range M, Q k i * W k b else R a b := by
  unfold phase3
  refine loop_induction (Nat.zero_le M) _ R
    (fun x Y => ∀ a b, Y a b = if a = i ∧ i + 1 ≤ b ∧ b < N then R a b + ∑ k ∈ range x, Q k i * W k b else R a b)
    (by intro a b; simp) ?_ a b
  intro x Y _ _ ih a b
  rw [loop_row (i + 1) N i (fun j y => y + Q x i * W x j) Y a b]
  by_cases hc : a = i ∧ i + 1 ≤ b ∧ b < N
  · rw [if_pos hc, if_pos hc, ih, if_pos hc, sum_range_succ, add_assoc]
  · rw [if_neg hc, if_neg hc, ih, if_neg hc]

/-- step 4 subtracts `Q(k,i) * R(i,j)` from the working copy in rows `k < M`, columns `i < j < N` -/
theorem phase4_get (M N i : Nat) (Q R W : Mat K) (a b : Nat) :
    (phase4 M N i Q R W) a b
      = if a < M ∧ i + 1 ≤ b ∧ b < N then W a b - Q a i * R i b else W a b := by
  unfold phase4
  refine loop_induction (Nat.zero_le M) _ W
    (fun x Y => ∀ a b, Y a b = if a < x ∧ i + 1 ≤ b ∧ b < N then W a b - Q a i * R i b else W a b)
    (by intro a b; simp) ?_ a b
  intro x Y _ _ ih a b
  rw [loop_row (i + 1) N x (fun j y => y - Q x i * R i j) Y a b]
  by_cases hc : a = x ∧ i + 1 ≤ b ∧ b < N
  · obtain ⟨rfl, h2, h3⟩ := hc
    have h1 : ¬ (a < a ∧ i + 1 ≤ b ∧ b < N) := by omega
    rw [if_pos ⟨rfl, h2, h3⟩, ih, if_neg h1, if_pos ⟨Nat.lt_succ_self a, h2, h3⟩]
  · rw [if_neg hc, ih]
    by_cases hd : a < x ∧ i + 1 ≤ b ∧ b < N
    · rw [if_pos hd, if_pos ⟨by omega, hd.2.1, hd.2.2⟩]
    · have : ¬ (a < x + 1 ∧ i + 1 ≤ b ∧ b < N) := by
        rintro ⟨h3, h4, h5⟩
        by_cases hax : a = x
        · exact hc ⟨hax, h4, h5⟩
        · exact hd ⟨by omega, h4, h5⟩
      rw [if_neg hd, if_neg this]

end field
end Fastor.QR
