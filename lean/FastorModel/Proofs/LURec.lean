import FastorModel.Proofs.LUBasic
/-
  `recursive_lu_dispatcher`: the right-looking elimination keeps `L * U = A` at every step.
-/
namespace Fastor.LU
open Finset

variable {K : Type} [Field K]

/-- the state after `k` instantiations of `recursive_lu_impl` -/
def recState (n : Nat) (A : Mat K) (k : Nat) : Mat K × Mat K :=
  (List.range k).foldl (luRecStep n) (Mat.eye n, Mat.copy n n A)

/-- the strategy is defined on `A`: every pivot `U.data()[k*N+k]` the recursion divides by is non-zero -/
def RecDefined (n : Nat) (A : Mat K) : Prop := ∀ k, k < n - 1 → (recState n A k).2.get k k ≠ 0

structure RecInv (n k : Nat) (A L U : Mat K) : Prop where
  mul : ∀ i j, i < n → j < n → ∑ m ∈ range n, L.get i m * U.get m j = A.get i j
  diag : ∀ i, i < n → L.get i i = 1
  lzero : ∀ i j, i < n → j < n → i < j → L.get i j = 0
  lid : ∀ i j, i < n → j < n → k ≤ j → i ≠ j → L.get i j = 0
  uzero : ∀ i j, i < n → j < n → j < k → j < i → U.get i j = 0

theorem recStep_L (n k : Nat) (L U : Mat K) (i j : Nat) (hi : i < n) (hj : j < n) :
    (luRecStep n (L, U) k).1.get i j = if j = k ∧ k < i then U.get i k / U.get k k else L.get i j := by
  simp only [luRecStep, Mat.get_ofFn, hi, hj, and_self, if_true]

theorem recStep_U (n k : Nat) (L U : Mat K) (i j : Nat) (hi : i < n) (hj : j < n) (hk : k < n) :
    (luRecStep n (L, U) k).2.get i j =
      if k < i ∧ k < j then U.get i j - (U.get i k / U.get k k) * U.get k j
      else if j = k ∧ k < i then 0 else U.get i j := by
  simp only [luRecStep, Mat.get_ofFn, hi, hj, hk, and_self, if_true]
  by_cases h1 : k < i <;> by_cases h2 : k < j
  · have : j ≠ k := by omega
    simp [h1, h2, this]
  · simp [h1, h2]
  · simp [h1, h2]
  · simp [h1, h2]

theorem recInv_init (n : Nat) (A : Mat K) : RecInv n 0 A (Mat.eye n) (Mat.copy n n A) := by
  have hE : ∀ i j, i < n → j < n → (Mat.eye n : Mat K).get i j = if i = j then 1 else 0 := by
    intro i j hi hj; simp [Mat.eye, Mat.get_ofFn, hi, hj]
  have hC : ∀ i j, i < n → j < n → (Mat.copy n n A).get i j = A.get i j := by
    intro i j hi hj; simp [Mat.copy, Mat.get_ofFn, hi, hj]
  refine ⟨?_, ?_, ?_, ?_, ?_⟩
  · intro i j hi hj
    have : ∀ m ∈ range n, (Mat.eye n : Mat K).get i m * (Mat.copy n n A).get m j = if i = m then A.get m j else 0 := by
      intro m hm; have hm' := mem_range.1 hm
      rw [hE i m hi hm', hC m j hm' hj]; split <;> simp
    rw [sum_congr rfl this, sum_ite_eq]; simp [hi]
  · intro i hi; simp [hE i i hi hi]
  · intro i j hi hj h; rw [hE i j hi hj]; simp [Nat.ne_of_lt h]
  · intro i j hi hj _ h; rw [hE i j hi hj]; simp [h]
  · intro i j _ _ h; omega

theorem recStep_inv (n k : Nat) (A L U : Mat K) (h : RecInv n k A L U) (hk : k < n) (hp : U.get k k ≠ 0) :
    RecInv n (k + 1) A (luRecStep n (L, U) k).1 (luRecStep n (L, U) k).2 := by
  obtain ⟨hmul, hdiag, hlz, hlid, huz⟩ := h
  have hL := recStep_L n k L U
  have hU := fun i j hi hj => recStep_U n k L U i j hi hj hk
  refine ⟨?_, ?_, ?_, ?_, ?_⟩
  · intro i j hi hj
    rw [← hmul i j hi hj]
    by_cases hik : k < i
    · have key : ∀ m ∈ range n, (luRecStep n (L, U) k).1.get i m * (luRecStep n (L, U) k).2.get m j =
          L.get i m * U.get m j + ((if k = m then (U.get i k / U.get k k) * U.get k j else 0)
            + (if i = m then (luRecStep n (L, U) k).2.get i j - U.get i j else 0)) := by
        intro m hm; have hm' := mem_range.1 hm
        rw [hL i m hi hm']
        rcases Nat.lt_trichotomy m k with h | h | h
        · have h1 : ¬ (k < m) := by omega
          have h2 : m ≠ k := by omega
          have h3 : k ≠ m := by omega
          have h4 : i ≠ m := by omega
          rw [hU m j hm' hj]; simp [h1, h2, h3, h4]
        · subst h
          have h4 : i ≠ m := by omega
          have h5 : L.get i m = 0 := hlid i m hi hm' (Nat.le_refl _) h4
          rw [hU m j hm' hj]; simp [hik, h4, h5]
        · have h2 : m ≠ k := by omega
          have h3 : k ≠ m := by omega
          by_cases hmi : i = m
          · subst hmi; simp [h2, h3, hdiag i hi]
          · have h5 : L.get i m = 0 := hlid i m hi hm' (by omega) hmi
            simp [h2, h3, hmi, h5]
      rw [sum_congr rfl key, sum_add_distrib, sum_add_distrib, sum_ite_eq, sum_ite_eq]
      simp only [mem_range, hk, hi, if_true]
      rw [hU i j hi hj]
      rcases Nat.lt_trichotomy j k with hjk | hjk | hjk
      · have : U.get k j = 0 := huz k j hk hj hjk hjk
        have h1 : ¬ (k < j) := by omega
        have h2 : j ≠ k := by omega
        simp [h1, h2, this]
      · subst hjk; simp [hik]; field_simp; ring
      · simp [hik, hjk]
    · -- rows up to k are untouched and see only unchanged rows of U
      apply sum_congr rfl
      intro m hm; have hm' := mem_range.1 hm
      rw [hL i m hi hm']
      have h0 : ¬ (m = k ∧ k < i) := by omega
      rw [if_neg h0]
      by_cases hmk : k < m
      · have : L.get i m = 0 := hlz i m hi hm' (by omega)
        simp [this]
      · rw [hU m j hm' hj]; simp [hmk]
  · intro i hi
    rw [hL i i hi hi]
    have : ¬ (i = k ∧ k < i) := by omega
    rw [if_neg this]; exact hdiag i hi
  · intro i j hi hj hij
    rw [hL i j hi hj]
    have : ¬ (j = k ∧ k < i) := by omega
    rw [if_neg this]; exact hlz i j hi hj hij
  · intro i j hi hj hkj hne
    rw [hL i j hi hj]
    have : ¬ (j = k ∧ k < i) := by omega
    rw [if_neg this]; exact hlid i j hi hj (by omega) hne
  · intro i j hi hj hjk hji
    rw [hU i j hi hj]
    by_cases hj' : j = k
    · subst hj'; simp [hji]
    · have h1 : ¬ (k < j) := by omega
      simp [h1, hj']; exact huz i j hi hj (by omega) hji

theorem recState_succ (n : Nat) (A : Mat K) (k : Nat) :
    recState n A (k + 1) = luRecStep n (recState n A k) k := by
  simp [recState, List.range_succ, List.foldl_append]

theorem recState_inv (n : Nat) (A : Mat K) (hdef : RecDefined n A) :
    ∀ k, k ≤ n - 1 → RecInv n k A (recState n A k).1 (recState n A k).2 := by
  intro k
  induction k with
  | zero => intro _; exact recInv_init n A
  | succ k ih =>
    intro hk
    rw [recState_succ]
    exact recStep_inv n k A _ _ (ih (by omega)) (by omega) (hdef k (by omega))

/-- `recursive_lu_dispatcher` for every size M ≥ 2 -/
theorem luRecursive_isLU (n : Nat) (hn : 2 ≤ n) (A L0 U0 : Mat K) (hdef : RecDefined n A) :
    IsLU n A (luRecursive n A L0 U0).1 (luRecursive n A L0 U0).2 := by
  have h := recState_inv n A hdef (n - 1) (Nat.le_refl _)
  have e : luRecursive n A L0 U0 = recState n A (n - 1) := by
    unfold luRecursive recState
    rw [if_neg (by omega)]
  rw [e]
  exact ⟨h.diag, h.lzero, fun i j hi hj hji => h.uzero i j hi hj (by omega) hji, h.mul⟩

end Fastor.LU
