import FastorModel.Proofs.Transpose
import FastorModel.Generated.C14Kernels
/-
  The blocked nest with an arbitrary leaf kernel: whatever `_transpose_dispatch<T,innerBlock,outerBlock>` runs, if it
  leaves the transposed block in `pack_out` the whole `_transpose<T,M,N>` is correct.  Instances: the generic leaf loop
  (this is `blockedWrites`) and every translated intrinsic kernel (Generated/C14Kernels.lean) — which closes the gap
  between `transpose_correct` and the float/double builds whose leaf is an intrinsic kernel.
-/
namespace Fastor.Transpose

variable {α : Type}

/-- the leaf leaves `pack_out[q] = pack_a[(q % ib)*ob + q / ib]` for every cell of the block, whatever `pack_out` held -/
def LeafOK (leaf : (Nat → α) → List (Nat × α)) (ib ob : Nat) : Prop :=
  ∀ (pa g : Nat → α) (q : Nat), q < ob * ib → applyWrites (leaf pa) g q = pa ((q % ib) * ob + q / ib)

def blockWritesWith (leaf : (Nat → α) → List (Nat × α)) (a g1 g2 : Nat → α) (M N V nR nC i j : Nat) : List (Nat × α) :=
  let ib := V * nC
  let ob := V * nR
  let pa := applyWrites (packWrites a N V nR ib ob i j) g1
  let po := applyWrites (leaf pa) g2
  unpackWrites po M V nC ib ob i j

/-- `_transpose<T,M,N>` (blocked) with `leaf` in the place of `_transpose_dispatch` -/
def blockedWritesWith (leaf : (Nat → α) → List (Nat × α)) (a : Nat → α) (g1 g2 : Nat → Nat → Nat → α) (M N V nR nC : Nat) :
    List (Nat × α) :=
  let ib := V * nC
  let ob := V * nR
  let M0 := M / ib * ib
  let N0 := N / ob * ob
  ((forRange 0 N0 ob).flatMap fun j =>
      ((forRange 0 M0 ib).flatMap fun i => blockWritesWith leaf a (g1 i j) (g2 i j) M N V nR nC i j)
      ++ colEdgeWrites a M N ob (forExit 0 M0 ib) j)
  ++ rowEdgeWrites a M N (forExit 0 N0 ob)

/-- the model of the generic build is the instance with the plain leaf loop -/
theorem blockedWrites_eq_with (a : Nat → α) (g1 g2 : Nat → Nat → Nat → α) (M N V nR nC : Nat) :
    blockedWrites a g1 g2 M N V nR nC = blockedWritesWith (fun pa => leafWrites pa (V * nC) (V * nR)) a g1 g2 M N V nR nC := rfl

theorem leafOK_generic (ib ob : Nat) : LeafOK (fun pa : Nat → α => leafWrites pa ib ob) ib ob := by
  intro pa g q hq
  have h := plainWrites_exact id pa ib ob
  show applyWrites (plainWrites id pa ib ob) g q = _
  rw [(applyWrites_of_exact h g q).1 hq]; rfl

theorem block_value_with (leaf : (Nat → α) → List (Nat × α)) {V nR nC : Nat} (hleaf : LeafOK leaf (V * nC) (V * nR))
    (a g1 g2 : Nat → α) (N i j jj c : Nat) (hV : 0 < V)
    (hjj : jj < V * nR) (hc : c < V * nC) :
    applyWrites (leaf (applyWrites (packWrites a N V nR (V * nC) (V * nR) i j) g1)) g2 (jj * (V * nC) + c)
      = a ((i + c) * N + j + jj) := by
  rw [hleaf _ g2 _ (digits_lt hjj hc)]
  obtain ⟨d1, d2⟩ := digits_div_mod (x := jj) hc
  rw [d1, d2]
  have hpack := packWrites_exact a N V nR (V * nC) i j hV
  rw [(applyWrites_of_exact hpack g1 (c * (V * nR) + jj)).1 (digits_lt hc hjj)]
  obtain ⟨f1, f2⟩ := digits_div_mod (x := c) hjj
  rw [f1, f2]

/-- **the blocked nest** writes exactly the `N×M` cells, each with the transposed element -/
theorem blockedWritesWith_exact (leaf : (Nat → α) → List (Nat × α)) (a : Nat → α) (g1 g2 : Nat → Nat → Nat → α) (M N V nR nC : Nat)
    (hV : 0 < V) (hR : 0 < nR) (hC : 0 < nC) (hleaf : LeafOK leaf (V * nC) (V * nR)) :
    WritesExactly (blockedWritesWith leaf a g1 g2 M N V nR nC) (fun p => p < N * M) (spec a M N) := by
  have hib : 0 < V * nC := Nat.mul_pos hV hC
  have hob : 0 < V * nR := Nat.mul_pos hV hR
  have hM0 : M / (V * nC) * (V * nC) ≤ M := Nat.div_mul_le_self _ _
  have hN0 : N / (V * nR) * (V * nR) ≤ N := Nat.div_mul_le_self _ _
  have hM0' : M < M / (V * nC) * (V * nC) + V * nC := by
    have := Nat.div_add_mod M (V * nC); have := Nat.mod_lt M hib; rw [Nat.mul_comm]; omega
  have hN0' : N < N / (V * nR) * (V * nR) + V * nR := by
    have := Nat.div_add_mod N (V * nR); have := Nat.mod_lt N hob; rw [Nat.mul_comm]; omega
  have eM : forExit 0 (M / (V * nC) * (V * nC)) (V * nC) = M / (V * nC) * (V * nC) :=
    forExit_of_dvd hib (Nat.zero_le _) ⟨M / (V * nC), by simp [Nat.mul_comm]⟩
  have eN : forExit 0 (N / (V * nR) * (V * nR)) (V * nR) = N / (V * nR) * (V * nR) :=
    forExit_of_dvd hob (Nat.zero_le _) ⟨N / (V * nR), by simp [Nat.mul_comm]⟩
  apply writesExactly_of_all_right
  · intro w hw
    simp only [blockedWritesWith, eM, eN, List.mem_append, List.mem_flatMap] at hw
    rcases hw with ⟨j, hj, hw | hw⟩ | hw
    · -- inside a full block
      obtain ⟨i, hi, hw⟩ := hw
      obtain ⟨tj, rfl, hjlt⟩ := (mem_forRange hob).1 hj
      obtain ⟨ti, rfl, hilt⟩ := (mem_forRange hib).1 hi
      simp only [blockWritesWith, unpackWrites, List.mem_flatMap, List.mem_map, List.mem_range] at hw
      obtain ⟨jj, hjj, vv, hvv, l, hl, rfl⟩ := hw
      have hc : vv * V + l < V * nC := by rw [Nat.mul_comm V nC]; exact digits_lt hvv hl
      -- the block lies inside the matrix
      have hdi : (V * nC) ∣ (M / (V * nC) * (V * nC)) := ⟨M / (V * nC), Nat.mul_comm _ _⟩
      have hdj : (V * nR) ∣ (N / (V * nR) * (V * nR)) := ⟨N / (V * nR), Nat.mul_comm _ _⟩
      have hi2 : 0 + ti * (V * nC) + V * nC ≤ M / (V * nC) * (V * nC) := by
        have : (ti + 1) * (V * nC) ≤ M / (V * nC) * (V * nC) := by
          apply Nat.mul_le_mul_right
          have : ti * (V * nC) < M / (V * nC) * (V * nC) := by omega
          exact Nat.lt_of_mul_lt_mul_right this
        rw [Nat.add_mul] at this; omega
      have hj2 : 0 + tj * (V * nR) + V * nR ≤ N / (V * nR) * (V * nR) := by
        have : (tj + 1) * (V * nR) ≤ N / (V * nR) * (V * nR) := by
          apply Nat.mul_le_mul_right
          have : tj * (V * nR) < N / (V * nR) * (V * nR) := by omega
          exact Nat.lt_of_mul_lt_mul_right this
        rw [Nat.add_mul] at this; omega
      have e : (0 + tj * (V * nR) + jj) * M + (0 + ti * (V * nC)) + vv * V + l
          = (0 + tj * (V * nR) + jj) * M + (0 + ti * (V * nC) + (vv * V + l)) := by omega
      have hcol : 0 + ti * (V * nC) + (vv * V + l) < M := by omega
      have hrow : 0 + tj * (V * nR) + jj < N := by omega
      refine ⟨?_, ?_⟩
      · show (0 + tj * (V * nR) + jj) * M + (0 + ti * (V * nC)) + vv * V + l < N * M
        rw [e]; exact digits_lt hrow hcol
      · show applyWrites _ _ (jj * (V * nC) + vv * V + l) = spec a M N _
        rw [e, spec_at a M N _ _ hcol]
        have e2 : jj * (V * nC) + vv * V + l = jj * (V * nC) + (vv * V + l) := by omega
        rw [e2, block_value_with leaf hleaf a _ _ N _ _ jj (vv * V + l) hV hjj hc]
        congr 1; omega
    · -- remaining columns of a block row
      obtain ⟨tj, rfl, hjlt⟩ := (mem_forRange hob).1 hj
      simp only [colEdgeWrites, List.mem_flatMap, List.mem_map, List.mem_range] at hw
      obtain ⟨i, hi, jj, hjj, rfl⟩ := hw
      obtain ⟨t, rfl, hilt⟩ := (mem_forRange (by omega : 0 < 1)).1 hi
      have hj2 : 0 + tj * (V * nR) + V * nR ≤ N / (V * nR) * (V * nR) := by
        have : (tj + 1) * (V * nR) ≤ N / (V * nR) * (V * nR) := by
          apply Nat.mul_le_mul_right
          have : tj * (V * nR) < N / (V * nR) * (V * nR) := by omega
          exact Nat.lt_of_mul_lt_mul_right this
        rw [Nat.add_mul] at this; omega
      have hrow : 0 + tj * (V * nR) + jj < N := by omega
      refine ⟨digits_lt hrow hilt, ?_⟩
      show a _ = spec a M N _
      rw [spec_at a M N _ _ hilt]
      congr 1; omega
    · -- remaining rows
      simp only [rowEdgeWrites, List.mem_flatMap, List.mem_map, List.mem_range] at hw
      obtain ⟨j, hj, i, hi, rfl⟩ := hw
      obtain ⟨t, rfl, hjlt⟩ := (mem_forRange (by omega : 0 < 1)).1 hj
      refine ⟨digits_lt hjlt hi, ?_⟩
      show a _ = spec a M N _
      rw [spec_at a M N _ _ hi]
  · intro p hp
    have hM : 0 < M := by
      rcases Nat.eq_zero_or_pos M with h | h
      · subst h; simp at hp
      · exact h
    obtain ⟨hr, hcm, hpe⟩ := lt_digits hM hp
    simp only [blockedWritesWith, eM, eN, List.mem_append, List.mem_flatMap]
    by_cases hrow : p / M < N / (V * nR) * (V * nR)
    · -- in a block row
      have hjmem : (p / M) / (V * nR) * (V * nR) ∈ forRange 0 (N / (V * nR) * (V * nR)) (V * nR) := by
        refine (mem_forRange hob).2 ⟨(p / M) / (V * nR), by omega, ?_⟩
        exact Nat.lt_of_le_of_lt (Nat.div_mul_le_self _ _) hrow
      have hjj : p / M - (p / M) / (V * nR) * (V * nR) < V * nR := by
        have := Nat.div_add_mod' (p / M) (V * nR); have := Nat.mod_lt (p / M) hob; omega
      have hjle : (p / M) / (V * nR) * (V * nR) ≤ p / M := Nat.div_mul_le_self _ _
      by_cases hcol : p % M < M / (V * nC) * (V * nC)
      · have himem : (p % M) / (V * nC) * (V * nC) ∈ forRange 0 (M / (V * nC) * (V * nC)) (V * nC) := by
          refine (mem_forRange hib).2 ⟨(p % M) / (V * nC), by omega, ?_⟩
          exact Nat.lt_of_le_of_lt (Nat.div_mul_le_self _ _) hcol
        have hile : (p % M) / (V * nC) * (V * nC) ≤ p % M := Nat.div_mul_le_self _ _
        have hcc0 : p % M - (p % M) / (V * nC) * (V * nC) < V * nC := by
          have := Nat.div_add_mod' (p % M) (V * nC); have := Nat.mod_lt (p % M) hib; omega
        have hcc : p % M - (p % M) / (V * nC) * (V * nC) < nC * V := by rw [Nat.mul_comm nC V]; exact hcc0
        obtain ⟨k1, k2, k3⟩ := lt_digits hV hcc
        generalize hJ : (p / M) / (V * nR) * (V * nR) = J at *
        generalize hI : (p % M) / (V * nC) * (V * nC) = I at *
        generalize hK : (p % M - I) / V = K at *
        generalize hL : (p % M - I) % V = L at *
        refine ⟨(p, applyWrites (leaf (applyWrites (packWrites a N V nR (V * nC) (V * nR) I J) (g1 I J))) (g2 I J) ((p / M - J) * (V * nC) + K * V + L)),
          Or.inl ⟨J, hjmem, Or.inl ⟨I, himem, ?_⟩⟩, rfl⟩
        simp only [blockWritesWith, unpackWrites, List.mem_flatMap, List.mem_map, List.mem_range]
        refine ⟨p / M - J, hjj, K, k1, L, k2, ?_⟩
        refine Prod.ext ?_ rfl
        show (J + (p / M - J)) * M + I + K * V + L = p
        have e1 : J + (p / M - J) = p / M := by omega
        rw [e1]; omega
      · generalize hJ : (p / M) / (V * nR) * (V * nR) = J at *
        refine ⟨(p, a (p % M * N + J + (p / M - J))), Or.inl ⟨J, hjmem, Or.inr ?_⟩, rfl⟩
        simp only [colEdgeWrites, List.mem_flatMap, List.mem_map, List.mem_range]
        refine ⟨p % M, (mem_forRange (by omega : 0 < 1)).2 ⟨p % M - M / (V * nC) * (V * nC), by omega, hcm⟩, p / M - J, hjj, ?_⟩
        refine Prod.ext ?_ rfl
        show (J + (p / M - J)) * M + p % M = p
        have e1 : J + (p / M - J) = p / M := by omega
        rw [e1]; exact hpe
    · refine ⟨(p, a (p % M * N + p / M)), Or.inr ?_, rfl⟩
      simp only [rowEdgeWrites, List.mem_flatMap, List.mem_map, List.mem_range]
      refine ⟨p / M, (mem_forRange (by omega : 0 < 1)).2 ⟨p / M - N / (V * nR) * (V * nR), by omega, hr⟩, p % M, hcm, ?_⟩
      exact Prod.ext hpe rfl


/-- a translated `n×n` kernel that transposes (as `…_correct` of Generated/C14Kernels.lean states) is an admissible leaf -/
theorem leafOK_of_kernel (K : (Nat → α) → List (Nat × α)) (n : Nat)
    (hK : ∀ pa, Intr.finalCells (K pa) (n * n) = Intr.transposed pa n) : LeafOK K n n := by
  intro pa g q hq
  have h := hK pa
  simp only [Intr.finalCells, Intr.transposed] at h
  have := congrArg (fun l => l[q]?) h
  simp only [List.getElem?_map, List.getElem?_range hq, Option.map_some] at this
  rw [applyWrites_eq_lastWrite]
  injection this with this
  rw [this]; rfl

end Fastor.Transpose
