import FastorModel.Proofs.InversePiv
/- forward / backward substitution and `get_lu_inverse` -/
namespace Fastor.Inv
open Matrix
variable {K : Type} [Field K]

theorem inner_eq_sum (n : Nat) (a b : Nat → K) : inner n a b = ∑ k ∈ Finset.range n, a k * b k := by
  unfold inner; exact foldl_add_eq_sum (fun k => a k * b k) n

/-! ### forward substitution -/
theorem fwdArr_size (L : Mat K) (rhs : Nat → K) : ∀ t, (fwdArr L rhs t).size = t := by
  intro t; induction t with
  | zero => rfl
  | succ t ih => simp [fwdArr, ih]

theorem fwdArr_succ_getD (L : Mat K) (rhs : Nat → K) (t k : Nat) (hk : k < t) :
    (fwdArr L rhs (t + 1)).getD k 0 = (fwdArr L rhs t).getD k 0 := by
  have hs := fwdArr_size L rhs t
  simp only [fwdArr, Array.getD_eq_getD_getElem?, Array.getElem?_push, hs]
  rw [if_neg (by omega)]

theorem fwdArr_stable (L : Mat K) (rhs : Nat → K) (k t : Nat) (hk : k < t) :
    ∀ d, (fwdArr L rhs (t + d)).getD k 0 = (fwdArr L rhs t).getD k 0 := by
  intro d; induction d with
  | zero => rfl
  | succ d ih => rw [← Nat.add_assoc, fwdArr_succ_getD L rhs (t + d) k (by omega), ih]

theorem fwdArr_last (L : Mat K) (rhs : Nat → K) (t : Nat) :
    (fwdArr L rhs (t + 1)).getD t 0
      = rhs t - ∑ k ∈ Finset.range t, L t k * (fwdArr L rhs t).getD k 0 := by
  have hs := fwdArr_size L rhs t
  simp only [fwdArr, Array.getD_eq_getD_getElem?, Array.getElem?_push, hs, if_true, Option.getD_some, inner_eq_sum]

/-- `y(i) = rhs(i) - Σ_{k<i} L(i,k) y(k)` for the finished column -/
theorem fwdArr_spec (L : Mat K) (rhs : Nat → K) (M i : Nat) (hi : i < M) :
    (fwdArr L rhs M).getD i 0
      = rhs i - ∑ k ∈ Finset.range i, L i k * (fwdArr L rhs M).getD k 0 := by
  obtain ⟨d, rfl⟩ : ∃ d, M = (i + 1) + d := ⟨M - (i + 1), by omega⟩
  rw [fwdArr_stable L rhs i (i + 1) (by omega) d, fwdArr_last]
  congr 1
  apply Finset.sum_congr rfl
  intro k hk
  have hk' := Finset.mem_range.mp hk
  have e : i + 1 + d = (k + 1) + (i - k + d) := by omega
  rw [e, fwdArr_stable L rhs k (k + 1) (by omega)]
  have e2 : (fwdArr L rhs i).getD k 0 = (fwdArr L rhs (k + 1)).getD k 0 := by
    have e3 : i = (k + 1) + (i - k - 1) := by omega
    rw [e3]; exact fwdArr_stable L rhs k (k + 1) (by omega) _
  rw [e2]


/-! ### backward substitution -/
theorem bwdArr_size (M : Nat) (U : Mat K) (y : Nat → K) : ∀ t, (bwdArr M U y t).size = t := by
  intro t; induction t with
  | zero => rfl
  | succ t ih => simp [bwdArr, ih]

theorem bwdArr_succ_getD (M : Nat) (U : Mat K) (y : Nat → K) (t k : Nat) (hk : k < t) :
    (bwdArr M U y (t + 1)).getD k 0 = (bwdArr M U y t).getD k 0 := by
  have hs := bwdArr_size M U y t
  simp only [bwdArr, Array.getD_eq_getD_getElem?, Array.getElem?_push, hs]
  rw [if_neg (by omega)]

theorem bwdArr_stable (M : Nat) (U : Mat K) (y : Nat → K) (k t : Nat) (hk : k < t) :
    ∀ d, (bwdArr M U y (t + d)).getD k 0 = (bwdArr M U y t).getD k 0 := by
  intro d; induction d with
  | zero => rfl
  | succ d ih => rw [← Nat.add_assoc, bwdArr_succ_getD M U y (t + d) k (by omega), ih]

theorem bwdArr_stable' (M : Nat) (U : Mat K) (y : Nat → K) (k t T : Nat) (hk : k < t) (hT : t ≤ T) :
    (bwdArr M U y T).getD k 0 = (bwdArr M U y t).getD k 0 := by
  obtain ⟨d, rfl⟩ : ∃ d, T = t + d := ⟨T - t, by omega⟩
  exact bwdArr_stable M U y k t hk d

theorem bwdArr_last (M : Nat) (U : Mat K) (y : Nat → K) (t : Nat) :
    (bwdArr M U y (t + 1)).getD t 0
      = (y (M - 1 - t) - ∑ k ∈ Finset.range (M - (M - 1 - t)),
            U (M - 1 - t) (M - 1 - t + k) *
              (if M - 1 - t < M - 1 - t + k ∧ M - 1 - t + k < M
               then (bwdArr M U y t).getD (M - 1 - (M - 1 - t + k)) 0 else 0)) / U (M - 1 - t) (M - 1 - t) := by
  have hs := bwdArr_size M U y t
  simp only [bwdArr, Array.getD_eq_getD_getElem?, Array.getElem?_push, hs, if_true, Option.getD_some, inner_eq_sum]

/-- the finished column, in row indices: `x(i) = (y(i) - Σ_{i<k<M} U(i,k) x(k)) / U(i,i)` with `x(i) = xs[M-1-i]` -/
theorem bwdArr_spec (M : Nat) (U : Mat K) (y : Nat → K) (i : Nat) (hi : i < M) :
    (bwdArr M U y M).getD (M - 1 - i) 0
      = (y i - ∑ k ∈ Finset.range (M - i), U i (i + k) *
            (if 0 < k then (bwdArr M U y M).getD (M - 1 - (i + k)) 0 else 0)) / U i i := by
  have ht : M - 1 - i < M := by omega
  have e0 : (bwdArr M U y M).getD (M - 1 - i) 0 = (bwdArr M U y (M - 1 - i + 1)).getD (M - 1 - i) 0 :=
    bwdArr_stable' M U y (M - 1 - i) (M - 1 - i + 1) M (by omega) (by omega)
  rw [e0, bwdArr_last]
  have ei : M - 1 - (M - 1 - i) = i := by omega
  rw [ei]
  congr 2
  apply Finset.sum_congr rfl
  intro k hk
  have hk' := Finset.mem_range.mp hk
  congr 1
  by_cases hk0 : 0 < k
  · rw [if_pos hk0, if_pos ⟨by omega, by omega⟩]
    have hlt : M - 1 - (i + k) < M - 1 - i := by omega
    exact (bwdArr_stable' M U y (M - 1 - (i + k)) (M - 1 - i) M hlt (by omega)).symm
  · have : k = 0 := by omega
    subst this
    rw [if_neg hk0, if_neg (by omega)]


/-! ### `get_lu_inverse` -/

/-- what `forward_subs` reads of `L`: the strict lower triangle, with an implicit unit diagonal -/
def unitLowerPart (L : Mat K) : Mat K := { get := fun i j => if j < i then L i j else if i = j then 1 else 0 }
/-- the permutation matrix of the pivot vector: row `i` has its one in column `p i` -/
def permMat (p : Vec Nat) : Mat K := { get := fun i j => if p i = j then 1 else 0 }

/-- column `j` of `Y = forward_subs(L,p,I)` -/
def fwdCol (M : Nat) (L : Mat K) (p : Vec Nat) (j : Nat) : Nat → K :=
  fun i => (fwdArr L (fun r => if p r = j then 1 else 0) M).getD i 0

theorem getLuInverse_entry (M : Nat) (L U : Mat K) (p : Vec Nat) (i j : Nat) (hj : j < M) :
    (getLuInverse M L U p) i j = (bwdArr M U (fwdCol M L p j) M).getD (M - 1 - i) 0 := by
  show (Array.getD _ j #[]).getD (M - 1 - i) 0 = _
  unfold fwdCol
  simp only [Array.getD_eq_getD_getElem?, Array.getElem?_ofFn, hj, dif_pos, Option.getD_some]

theorem lower_mul_fwd (M : Nat) (L : Mat K) (p : Vec Nat) (i j : Nat) (hi : i < M) :
    ∑ k ∈ Finset.range M, (unitLowerPart L) i k * fwdCol M L p j k = (permMat p : Mat K) i j := by
  have hsub : Finset.range (i + 1) ⊆ Finset.range M := Finset.range_subset_range.mpr (by omega)
  rw [← Finset.sum_subset hsub]
  · rw [Finset.sum_range_succ]
    have e1 : ∑ k ∈ Finset.range i, (unitLowerPart L) i k * fwdCol M L p j k
        = ∑ k ∈ Finset.range i, L i k * fwdCol M L p j k := by
      apply Finset.sum_congr rfl
      intro k hk
      have := Finset.mem_range.mp hk
      show (if k < i then L i k else if i = k then 1 else 0) * _ = _
      rw [if_pos this]
    have e2 : (unitLowerPart L) i i = 1 := by
      show (if i < i then L i i else if i = i then (1 : K) else 0) = 1
      simp
    rw [e1, e2, one_mul]
    have := fwdArr_spec L (fun r => if p r = j then (1 : K) else 0) M i hi
    show _ + (fwdArr L _ M).getD i 0 = _
    rw [this]
    show _ + ((if p i = j then (1 : K) else 0) - _) = (if p i = j then (1 : K) else 0)
    unfold fwdCol
    ring
  · intro k hk hk2
    have h1 := Finset.mem_range.mp hk
    have h2 : ¬ k < i + 1 := fun h => hk2 (Finset.mem_range.mpr h)
    show (if k < i then L i k else if i = k then 1 else 0) * _ = 0
    rw [if_neg (by omega), if_neg (by omega), zero_mul]

theorem upper_mul_bwd (M : Nat) (U : Mat K) (y : Nat → K) (i : Nat) (hi : i < M) (hU : U i i ≠ 0) :
    ∑ k ∈ Finset.range M, (triu U) i k * (bwdArr M U y M).getD (M - 1 - k) 0 = y i := by
  have hspec := bwdArr_spec M U y i hi
  have hsplit : ∑ k ∈ Finset.range M, (triu U) i k * (bwdArr M U y M).getD (M - 1 - k) 0
      = ∑ k ∈ Finset.range (M - i), U i (i + k) * (bwdArr M U y M).getD (M - 1 - (i + k)) 0 := by
    have : Finset.range M = Finset.range (i + (M - i)) := by congr 1; omega
    rw [this, Finset.sum_range_add]
    have z : ∑ k ∈ Finset.range i, (triu U) i k * (bwdArr M U y M).getD (M - 1 - k) 0 = 0 := by
      apply Finset.sum_eq_zero
      intro k hk
      have := Finset.mem_range.mp hk
      show (if i ≤ k then U i k else 0) * _ = 0
      rw [if_neg (by omega), zero_mul]
    rw [z, zero_add]
    apply Finset.sum_congr rfl
    intro k _
    show (if i ≤ i + k then U i (i + k) else 0) * _ = _
    rw [if_pos (by omega)]
  rw [hsplit]
  have hpeel : ∑ k ∈ Finset.range (M - i), U i (i + k) * (bwdArr M U y M).getD (M - 1 - (i + k)) 0
      = ∑ k ∈ Finset.range (M - i), U i (i + k) * (if 0 < k then (bwdArr M U y M).getD (M - 1 - (i + k)) 0 else 0)
        + U i i * (bwdArr M U y M).getD (M - 1 - i) 0 := by
    have hM : M - i = (M - i - 1) + 1 := by omega
    rw [hM, Finset.sum_range_succ', Finset.sum_range_succ']
    simp only [Nat.add_zero, Nat.lt_irrefl, if_false, mul_zero, add_zero]
    congr 1
  rw [hpeel, hspec]
  field_simp
  ring


theorem toMat_applyPivot (M : Nat) (A : Mat K) (p : Vec Nat) (hp : IsPermOn M p.get) :
    toMat M M (applyPivot A p) = toMat M M (permMat p) * toMat M M A := by
  ext i j
  rw [Matrix.mul_apply]
  show (if p i.val ≠ i.val then A (p i.val) j.val else A i.val j.val)
      = ∑ k : Fin M, (if p i.val = k.val then (1 : K) else 0) * A k.val j.val
  have hpi := hp.1 i.val i.isLt
  rw [Finset.sum_eq_single (⟨p i.val, hpi⟩ : Fin M)]
  · simp only [if_true, one_mul]
    split
    · rfl
    · rename_i h; simp only [ne_eq, not_not] at h; rw [h]
  · intro b _ hb
    have : ¬ p i.val = b.val := fun h => hb (Fin.ext h.symm)
    rw [if_neg this, zero_mul]
  · intro h; exact absurd (Finset.mem_univ _) h

theorem permMat_mul_transpose (M : Nat) (p : Vec Nat) (hp : IsPermOn M p.get) :
    toMat M M (permMat p : Mat K) * (toMat M M (permMat p : Mat K))ᵀ = 1 := by
  ext i k
  rw [Matrix.mul_apply, Matrix.one_apply]
  show ∑ a : Fin M, (if p i.val = a.val then (1 : K) else 0) * (if p k.val = a.val then (1 : K) else 0) = _
  have hpi := hp.1 i.val i.isLt
  rw [Finset.sum_eq_single (⟨p i.val, hpi⟩ : Fin M)]
  · simp only [if_true, one_mul]
    by_cases hik : i = k
    · subst hik; simp
    · have : ¬ p k.val = p i.val := fun h => hik (Fin.ext (hp.2 i.val i.isLt k.val k.isLt h.symm))
      rw [if_neg this, if_neg hik]
  · intro b _ hb
    have : ¬ p i.val = b.val := fun h => hb (Fin.ext h.symm)
    rw [if_neg this, zero_mul]
  · intro h; exact absurd (Finset.mem_univ _) h

/-- **`get_lu_inverse` is correct relative to the LU postcondition**: if the strict lower triangle of `L` (with a
    unit diagonal) times the upper triangle of `U` is the row-permuted matrix `apply_pivot(A,p)`, `p` is a permutation
    and the diagonal of `U` has no zero, then `X = backward_subs(U, forward_subs(L,p,I))` is the two-sided inverse
    of `A`.  Only the parts of `L`, `U` the substitutions read enter the hypothesis. -/
theorem getLuInverse_correct (M : Nat) (A L U : Mat K) (p : Vec Nat) (hp : IsPermOn M p.get)
    (hU : ∀ i < M, U i i ≠ 0)
    (hLU : toMat M M (unitLowerPart L) * toMat M M (triu U) = toMat M M (applyPivot A p)) :
    toMat M M (getLuInverse M L U p) * toMat M M A = 1 ∧ toMat M M A * toMat M M (getLuInverse M L U p) = 1 := by
  let Y : Mat K := { get := fun i j => fwdCol M L p j i }
  have hLY : toMat M M (unitLowerPart L) * toMat M M Y = toMat M M (permMat p : Mat K) := by
    ext i j
    rw [Matrix.mul_apply]
    show ∑ k : Fin M, (unitLowerPart L) i.val k.val * fwdCol M L p j.val k.val = _
    rw [Fin.sum_univ_eq_sum_range (fun k => (unitLowerPart L) i.val k * fwdCol M L p j.val k) M]
    exact lower_mul_fwd M L p i.val j.val i.isLt
  have hUX : toMat M M (triu U) * toMat M M (getLuInverse M L U p) = toMat M M Y := by
    ext i j
    rw [Matrix.mul_apply]
    show ∑ k : Fin M, (triu U) i.val k.val * (getLuInverse M L U p) k.val j.val = fwdCol M L p j.val i.val
    have e : ∀ k : Fin M, (triu U) i.val k.val * (getLuInverse M L U p) k.val j.val
        = (triu U) i.val k.val * (bwdArr M U (fwdCol M L p j.val) M).getD (M - 1 - k.val) 0 := by
      intro k; rw [getLuInverse_entry M L U p k.val j.val j.isLt]
    rw [Finset.sum_congr rfl (fun k _ => e k),
        Fin.sum_univ_eq_sum_range (fun k => (triu U) i.val k * (bwdArr M U (fwdCol M L p j.val) M).getD (M - 1 - k) 0) M]
    exact upper_mul_bwd M U (fwdCol M L p j.val) i.val i.isLt (hU i.val i.isLt)
  have hPA := toMat_applyPivot M A p hp
  have hPP := permMat_mul_transpose (K := K) M p hp
  have hPP' : (toMat M M (permMat p : Mat K))ᵀ * toMat M M (permMat p : Mat K) = 1 := mul_eq_one_comm.mp hPP
  have h1 : toMat M M (permMat p : Mat K) * (toMat M M A * toMat M M (getLuInverse M L U p))
      = toMat M M (permMat p : Mat K) := by
    rw [← Matrix.mul_assoc, ← hPA, ← hLU, Matrix.mul_assoc, hUX, hLY]
  have hAX : toMat M M A * toMat M M (getLuInverse M L U p) = 1 := by
    have := congrArg (fun Z => (toMat M M (permMat p : Mat K))ᵀ * Z) h1
    simp only [← Matrix.mul_assoc, hPP', Matrix.one_mul] at this
    exact this
  exact ⟨mul_eq_one_comm.mp hAX, hAX⟩

end Fastor.Inv
