import Mathlib.Algebra.BigOperators.Field
import FastorModel.Proofs.QRLoops
/-
  C13 — the invariant of the outer loop of `qr_mgsr_dispatcher` and its preservation.

  After `i` iterations (columns `0..i-1` done), with `W` the working copy:
    orth  : columns `p,q < i` of `Q` are orthonormal,
    rest  : every remaining column `j ≥ i` of `W` is orthogonal to the finished columns of `Q`,
    recon : `A0 = Q[:, :i] * R[:i, :] + W[:, i:]`   (element-wise, on the `M × N` index range),
    rzero : `R` is zero below the diagonal and in the rows not yet visited (this is where `R.fill(0)` is used).
-/
namespace Fastor.QR
open Finset

variable {K : Type} [Field K]

structure Inv (M N : Nat) (A0 : Mat K) (i : Nat) (s : St K) : Prop where
  orth : ∀ p q, p < i → q < i → ∑ k ∈ range M, s.Q k p * s.Q k q = if p = q then 1 else 0
  rest : ∀ p j, p < i → i ≤ j → j < N → ∑ k ∈ range M, s.Q k p * s.W k j = 0
  recon : ∀ k j, k < M → j < N →
    A0 k j = ∑ p ∈ range i, s.Q k p * s.R p j + (if i ≤ j then s.W k j else 0)
  rzero : ∀ p j, (j < p ∨ i ≤ p) → s.R p j = 0

theorem inv_init (M N : Nat) (A0 Qin : Mat K) : Inv M N A0 0 (initSt A0 Qin) where
  orth := by intro p q hp; omega
  rest := by intro p j hp; omega
  recon := by intro k j _ _; simp [initSt]
  rzero := by intro p j _; rfl

section step
variable (sqrt : K → K) (M N i : Nat) (s : St K)

theorem outerStep_Q (a b : Nat) :
    (outerStep sqrt M N i s).Q a b
      = if b = i ∧ a < M then s.W a i / sqrt (colNorm2 M s.W i) else s.Q a b :=
  phase2_get M i s.W _ s.Q a b

theorem outerStep_R (a b : Nat) :
    (outerStep sqrt M N i s).R a b
      = if a = i ∧ i + 1 ≤ b ∧ b < N
        then (set2 s.R i i (sqrt (colNorm2 M s.W i))) a b + ∑ k ∈ range M, (outerStep sqrt M N i s).Q k i * s.W k b
        else (set2 s.R i i (sqrt (colNorm2 M s.W i))) a b :=
  phase3_get M N i _ s.W _ a b

theorem outerStep_W (a b : Nat) :
    (outerStep sqrt M N i s).W a b
      = if a < M ∧ i + 1 ≤ b ∧ b < N
        then s.W a b - (outerStep sqrt M N i s).Q a i * (outerStep sqrt M N i s).R i b else s.W a b :=
  phase4_get M N i _ _ s.W a b

end step

/-- preservation of the invariant, stated for any state `s'` whose three tensors relate to those of `s` the way
    steps 1–4 leave them (`r` is the root taken in step 1) -/
theorem inv_step_of (M N i : Nat) (A0 : Mat K) (s s' : St K) (r : K) (hi : i < N)
    (hinv : Inv M N A0 i s)
    (hr2 : r * r = ∑ k ∈ range M, s.W k i * s.W k i) (hne : r ≠ 0)
    (hQ : ∀ a b, s'.Q a b = if b = i ∧ a < M then s.W a i / r else s.Q a b)
    (hR : ∀ a b, s'.R a b
      = if a = i ∧ i + 1 ≤ b ∧ b < N
        then (set2 s.R i i r) a b + ∑ k ∈ range M, s'.Q k i * s.W k b
        else (set2 s.R i i r) a b)
    (hW : ∀ a b, s'.W a b
      = if a < M ∧ i + 1 ≤ b ∧ b < N then s.W a b - s'.Q a i * s'.R i b else s.W a b) :
    Inv M N A0 (i + 1) s' := by
  obtain ⟨W', Q', R'⟩ := s'
  simp only at hQ hR hW
  -- the new Q
  have hQold : ∀ k p, p ≠ i → Q' k p = s.Q k p := by
    intro k p hp; rw [hQ, if_neg (fun h => hp h.1)]
  have hQi : ∀ k, k < M → Q' k i = s.W k i / r := by
    intro k hk; rw [hQ, if_pos ⟨rfl, hk⟩]
  have hqq : ∑ k ∈ range M, Q' k i * Q' k i = 1 := by
    rw [sum_congr rfl (fun k hk => by rw [hQi k (mem_range.1 hk), div_mul_div_comm]), ← sum_div, ← hr2,
      div_self (mul_ne_zero hne hne)]
  have hpq : ∀ p, p < i → ∑ k ∈ range M, Q' k p * Q' k i = 0 := by
    intro p hp
    rw [sum_congr rfl (fun k hk => by rw [hQi k (mem_range.1 hk), hQold k p (by omega), ← mul_div_assoc]),
      ← sum_div, hinv.rest p i hp (Nat.le_refl i) hi, zero_div]
  -- the new R
  have hRrow : ∀ p j, p ≠ i → R' p j = s.R p j := by
    intro p j hp
    rw [hR, if_neg (fun h => hp h.1), set2_get, if_neg (fun h => hp h.1)]
  have hRii : R' i i = r := by
    rw [hR, if_neg (by omega), set2_get, if_pos ⟨rfl, rfl⟩]
  have hRij : ∀ j, i + 1 ≤ j → j < N → R' i j = ∑ k ∈ range M, Q' k i * s.W k j := by
    intro j h1 h2
    rw [hR, if_pos ⟨rfl, h1, h2⟩, set2_get, if_neg (by omega), hinv.rzero i j (Or.inr (Nat.le_refl i)), zero_add]
  have hRlow : ∀ j, j < i → R' i j = 0 := by
    intro j hj
    rw [hR, if_neg (by omega), set2_get, if_neg (by omega), hinv.rzero i j (Or.inr (Nat.le_refl i))]
  refine ⟨?_, ?_, ?_, ?_⟩
  · -- orth
    intro p q hp hq
    rcases Nat.lt_succ_iff_lt_or_eq.1 hp with hp | rfl <;> rcases Nat.lt_succ_iff_lt_or_eq.1 hq with hq | rfl
    · rw [sum_congr rfl (fun k _ => by rw [hQold k p (by omega), hQold k q (by omega)])]
      exact hinv.orth p q hp hq
    · rw [hpq p hp, if_neg (by omega)]
    · rw [sum_congr rfl (fun k _ => mul_comm _ _), hpq q hq, if_neg (by omega)]
    · rw [hqq, if_pos rfl]
  · -- rest
    intro p j hp h1 h2
    have hsplit : ∑ k ∈ range M, Q' k p * W' k j
        = ∑ k ∈ range M, Q' k p * s.W k j - R' i j * ∑ k ∈ range M, Q' k p * Q' k i := by
      rw [mul_sum, ← sum_sub_distrib]
      refine sum_congr rfl (fun k hk => ?_)
      rw [hW, if_pos ⟨mem_range.1 hk, h1, h2⟩]; ring
    rw [hsplit]
    rcases Nat.lt_succ_iff_lt_or_eq.1 hp with hp | rfl
    · rw [hpq p hp, sum_congr rfl (fun k _ => by rw [hQold k p (by omega)]),
        hinv.rest p j hp (by omega) h2]; ring
    · rw [hqq, ← hRij j h1 h2]; ring
  · -- recon
    intro k j hk hj
    have h0 := hinv.recon k j hk hj
    rw [sum_range_succ,
      sum_congr rfl (fun p hp => by
        rw [hQold k p (by have := mem_range.1 hp; omega), hRrow p j (by have := mem_range.1 hp; omega)])]
    rcases Nat.lt_trichotomy j i with hlt | rfl | hgt
    · rw [if_neg (by omega), hRlow j hlt, h0, if_neg (by omega)]; ring
    · rw [if_neg (by omega), hRii, hQi k hk, div_mul_cancel₀ _ hne, h0, if_pos (Nat.le_refl _)]; ring
    · rw [if_pos (by omega), hW, if_pos ⟨hk, by omega, hj⟩, h0, if_pos (by omega)]; ring
  · -- rzero
    intro p j h
    by_cases hp : p = i
    · subst hp
      exact hRlow j (by omega)
    · rw [hRrow p j hp]
      exact hinv.rzero p j (by omega)

/-- one iteration of the outer loop preserves the invariant, provided the square root taken in it is an exact,
    non-zero root of its argument -/
theorem inv_step (sqrt : K → K) (M N i : Nat) (A0 : Mat K) (s : St K) (hi : i < N)
    (hinv : Inv M N A0 i s)
    (hsq : sqrt (colNorm2 M s.W i) * sqrt (colNorm2 M s.W i) = colNorm2 M s.W i)
    (hne : sqrt (colNorm2 M s.W i) ≠ 0) :
    Inv M N A0 (i + 1) (outerStep sqrt M N i s) :=
  inv_step_of M N i A0 s (outerStep sqrt M N i s) (sqrt (colNorm2 M s.W i)) hi hinv
    (by rw [hsq, colNorm2_eq]) hne (outerStep_Q sqrt M N i s) (outerStep_R sqrt M N i s) (outerStep_W sqrt M N i s)

/-- the invariant holds after every number of iterations `i ≤ N`, provided every square root taken so far was
    an exact non-zero root -/
theorem inv_stateAt (sqrt : K → K) (M N : Nat) (A0 Qin : Mat K) (i : Nat) (hi : i ≤ N)
    (hs : ∀ t, t < i → sqrt (normArg sqrt M N A0 Qin t) * sqrt (normArg sqrt M N A0 Qin t) = normArg sqrt M N A0 Qin t
      ∧ sqrt (normArg sqrt M N A0 Qin t) ≠ 0) :
    Inv M N A0 i (stateAt sqrt M N A0 Qin i) := by
  induction i with
  | zero => exact inv_init M N A0 Qin
  | succ n ih =>
    rw [stateAt_succ]
    have h := hs n (Nat.lt_succ_self n)
    exact inv_step sqrt M N n A0 _ (by omega) (ih (by omega) (fun t ht => hs t (by omega))) h.1 h.2

end Fastor.QR
