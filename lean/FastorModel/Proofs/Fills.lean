import FastorModel.Core.Grid
/-
  `Fills N P segs R C`: the segment list `segs` is well formed, all its final events satisfy the
  completeness predicate `P` (for matmul: `k0 = 0`, `kk = K`, accumulation style ≤ 2) and lie in the
  rectangle `R × C`, and every cell of `R × C` is the target of a final event.  A calculus of such facts over appends and loops.
-/
namespace Fastor

structure Fills (N : Nat) (P : St → Prop) (segs : List Seg) (R C : Nat → Prop) : Prop where
  ok : ∀ s ∈ segs, SegOK N s
  inside : ∀ s ∈ segs, ∀ e ∈ s.fin, R e.r ∧ C e.c ∧ P e
  cover : ∀ r c, R r → C c → ∃ s ∈ segs, ∃ e ∈ s.fin, e.r = r ∧ e.c = c

namespace Fills
variable {N : Nat} {P : St → Prop}

theorem nil : Fills N P [] (fun _ => False) (fun _ => False) :=
  ⟨by simp, by simp, by intro r c h; exact h.elim⟩

theorem congr {segs R C R' C'} (h : Fills N P segs R C) (hr : ∀ x, R x ↔ R' x) (hc : ∀ x, C x ↔ C' x) :
    Fills N P segs R' C' :=
  ⟨h.ok, fun s hs e he => by
      obtain ⟨a, b, c⟩ := h.inside s hs e he
      exact ⟨(hr _).1 a, (hc _).1 b, c⟩,
    fun r c h1 h2 => h.cover r c ((hr _).2 h1) ((hc _).2 h2)⟩

theorem mono {Q : St → Prop} {segs R C} (h : Fills N P segs R C) (hpq : ∀ e, P e → Q e) :
    Fills N Q segs R C :=
  ⟨h.ok, fun s hs e he => by
      obtain ⟨a, b, c⟩ := h.inside s hs e he
      exact ⟨a, b, hpq e c⟩, h.cover⟩

/-- side by side: same rows, columns `C1` then `C2` -/
theorem append_cols {A B R C1 C2} (ha : Fills N P A R C1) (hb : Fills N P B R C2) :
    Fills N P (A ++ B) R (fun c => C1 c ∨ C2 c) := by
  refine ⟨?_, ?_, ?_⟩
  · intro s hs
    rcases List.mem_append.1 hs with h | h
    · exact ha.ok s h
    · exact hb.ok s h
  · intro s hs e he
    rcases List.mem_append.1 hs with h | h
    · obtain ⟨a, b, c⟩ := ha.inside s h e he; exact ⟨a, Or.inl b, c⟩
    · obtain ⟨a, b, c⟩ := hb.inside s h e he; exact ⟨a, Or.inr b, c⟩
  · intro r c hr hc
    rcases hc with hc | hc
    · obtain ⟨s, hs, e, he, h⟩ := ha.cover r c hr hc
      exact ⟨s, List.mem_append.2 (Or.inl hs), e, he, h⟩
    · obtain ⟨s, hs, e, he, h⟩ := hb.cover r c hr hc
      exact ⟨s, List.mem_append.2 (Or.inr hs), e, he, h⟩

/-- stacked: same columns, rows `R1` then `R2` -/
theorem append_rows {A B R1 R2 C} (ha : Fills N P A R1 C) (hb : Fills N P B R2 C) :
    Fills N P (A ++ B) (fun r => R1 r ∨ R2 r) C := by
  refine ⟨?_, ?_, ?_⟩
  · intro s hs
    rcases List.mem_append.1 hs with h | h
    · exact ha.ok s h
    · exact hb.ok s h
  · intro s hs e he
    rcases List.mem_append.1 hs with h | h
    · obtain ⟨a, b, c⟩ := ha.inside s h e he; exact ⟨Or.inl a, b, c⟩
    · obtain ⟨a, b, c⟩ := hb.inside s h e he; exact ⟨Or.inr a, b, c⟩
  · intro r c hr hc
    rcases hr with hr | hr
    · obtain ⟨s, hs, e, he, h⟩ := ha.cover r c hr hc
      exact ⟨s, List.mem_append.2 (Or.inl hs), e, he, h⟩
    · obtain ⟨s, hs, e, he, h⟩ := hb.cover r c hr hc
      exact ⟨s, List.mem_append.2 (Or.inr hs), e, he, h⟩

/-- a loop over column chunks -/
theorem flatMap_cols {ι : Type} (L : List ι) (f : ι → List Seg) (R : Nat → Prop) (C : ι → Nat → Prop)
    (h : ∀ i ∈ L, Fills N P (f i) R (C i)) :
    Fills N P (L.flatMap f) R (fun c => ∃ i ∈ L, C i c) := by
  refine ⟨?_, ?_, ?_⟩
  · intro s hs
    obtain ⟨i, hi, hs⟩ := List.mem_flatMap.1 hs
    exact (h i hi).ok s hs
  · intro s hs e he
    obtain ⟨i, hi, hs⟩ := List.mem_flatMap.1 hs
    obtain ⟨a, b, c⟩ := (h i hi).inside s hs e he
    exact ⟨a, ⟨i, hi, b⟩, c⟩
  · intro r c hr ⟨i, hi, hc⟩
    obtain ⟨s, hs, e, he, hh⟩ := (h i hi).cover r c hr hc
    exact ⟨s, List.mem_flatMap.2 ⟨i, hi, hs⟩, e, he, hh⟩

/-- a loop over row chunks -/
theorem flatMap_rows {ι : Type} (L : List ι) (f : ι → List Seg) (R : ι → Nat → Prop) (C : Nat → Prop)
    (h : ∀ i ∈ L, Fills N P (f i) (R i) C) :
    Fills N P (L.flatMap f) (fun r => ∃ i ∈ L, R i r) C := by
  refine ⟨?_, ?_, ?_⟩
  · intro s hs
    obtain ⟨i, hi, hs⟩ := List.mem_flatMap.1 hs
    exact (h i hi).ok s hs
  · intro s hs e he
    obtain ⟨i, hi, hs⟩ := List.mem_flatMap.1 hs
    obtain ⟨a, b, c⟩ := (h i hi).inside s hs e he
    exact ⟨⟨i, hi, a⟩, b, c⟩
  · intro r c ⟨i, hi, hr⟩ hc
    obtain ⟨s, hs, e, he, hh⟩ := (h i hi).cover r c hr hc
    exact ⟨s, List.mem_flatMap.2 ⟨i, hi, hs⟩, e, he, hh⟩

theorem map_cols {ι : Type} (L : List ι) (f : ι → Seg) (R : Nat → Prop) (C : ι → Nat → Prop)
    (h : ∀ i ∈ L, Fills N P [f i] R (C i)) :
    Fills N P (L.map f) R (fun c => ∃ i ∈ L, C i c) := by
  have := flatMap_cols L (fun i => [f i]) R C h
  rw [List.map_eq_flatMap]; exact this

theorem map_rows {ι : Type} (L : List ι) (f : ι → Seg) (R : ι → Nat → Prop) (C : Nat → Prop)
    (h : ∀ i ∈ L, Fills N P [f i] (R i) C) :
    Fills N P (L.map f) (fun r => ∃ i ∈ L, R i r) C := by
  have := flatMap_rows L (fun i => [f i]) R C h
  rw [List.map_eq_flatMap]; exact this

end Fills

/-- the chunks `[i, i+s)` for `i` in a `for` loop whose bound is hit exactly tile `[lo, hi)` -/
theorem forRange_cover {lo hi s : Nat} (hs : 0 < s) (hle : lo ≤ hi) (hd : s ∣ (hi - lo)) (x : Nat) :
    (∃ i ∈ forRange lo hi s, i ≤ x ∧ x < i + s) ↔ (lo ≤ x ∧ x < hi) := by
  obtain ⟨q, hq⟩ := hd
  constructor
  · rintro ⟨i, hi', h1, h2⟩
    obtain ⟨t, rfl, hlt⟩ := (mem_forRange hs).1 hi'
    refine ⟨by omega, ?_⟩
    -- lo + t*s < hi = lo + s*q  ⇒ t < q ⇒ (t+1)*s ≤ s*q
    have htq : t < q := by
      have h3 : t * s < s * q := by omega
      rw [Nat.mul_comm s q] at h3
      exact Nat.lt_of_mul_lt_mul_right h3
    have : (t + 1) * s ≤ q * s := Nat.mul_le_mul_right s htq
    rw [Nat.add_mul, Nat.mul_comm q s] at this
    omega
  · rintro ⟨h1, h2⟩
    refine ⟨lo + (x - lo) / s * s, (mem_forRange hs).2 ⟨(x - lo) / s, rfl, ?_⟩, ?_, ?_⟩
    · have := Nat.div_mul_le_self (x - lo) s; omega
    · have := Nat.div_mul_le_self (x - lo) s; omega
    · have := Nat.lt_div_mul_add (a := x - lo) hs
      omega

theorem div_mul_dvd (n s : Nat) : s ∣ (n / s * s - 0) := by
  simp [Nat.dvd_mul_left]

end Fastor
