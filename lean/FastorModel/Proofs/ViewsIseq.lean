import FastorModel.Proofs.ViewsRead
/-
  Lemmas for C04, part 4: the immediate `iseq` overloads of BlockIndexing.h — nested counted loops
  `for (i=F; i<L; i+=S) { … out(counter…) = (*this)(i…); counter++ }` through scalar indexing.
-/
namespace Fastor.Views

theorem zip_map_self {α β : Type} (g : α → β) (xs : List α) :
    (xs.map g).zip xs = xs.map (fun t => (g t, t)) := by
  induction xs with
  | nil => rfl
  | cons x xs ih => simp [ih]

theorem zip_forRange (f l s : Nat) :
    (forRange f l s).zip (List.range (forCount f l s)) =
      (List.range (forCount f l s)).map (fun t => (f + t * s, t)) := by
  unfold forRange
  exact zip_map_self _ _

/-- triples `(F,L,S)` with positive steps; the result extents are the loop counts -/
def IseqOk : List Nat → List Nat → List (Nat × Nat × Nat) → Prop
  | _ :: pds, r :: rds, (f, l, s) :: rest => 0 < s ∧ r = forCount f l s ∧ IseqOk pds rds rest
  | [], [], [] => True
  | _, _, _ => False

/-- documented source multi-index of result element `j` -/
def iseqSrc : List (Nat × Nat × Nat) → List Nat → List Nat
  | (f, _, s) :: rest, j :: js => (f + j * s) :: iseqSrc rest js
  | _, _ => []

theorem iseqSrc_length (tr : List (Nat × Nat × Nat)) (j : List Nat) (h : tr.length = j.length) :
    (iseqSrc tr j).length = j.length := by
  induction tr generalizing j with
  | nil => cases j <;> simp_all [iseqSrc]
  | cons t tr ih =>
    obtain ⟨f, l, s⟩ := t
    cases j with
    | nil => simp at h
    | cons j js => simp only [iseqSrc, List.length_cons] at h ⊢; rw [ih js (by omega)]

theorem iseqOk_lengths {pd rd : List Nat} {tr : List (Nat × Nat × Nat)} (h : IseqOk pd rd tr) :
    pd.length = rd.length ∧ rd.length = tr.length := by
  induction pd generalizing rd tr with
  | nil => cases rd <;> cases tr <;> simp_all [IseqOk]
  | cons p pd ih =>
    cases rd with
    | nil => simp [IseqOk] at h
    | cons r rd =>
      cases tr with
      | nil => simp [IseqOk] at h
      | cons t tr =>
        obtain ⟨f, l, s⟩ := t
        simp only [IseqOk] at h
        have := ih h.2.2
        simp only [List.length_cons]; omega

/-- **the `iseq` loops**: the (destination, source) pairs produced are exactly
    `(rowMajor result j, rowMajor parent (F_k + j_k*S_k))` for the multi-indices `j` below the result extents -/
theorem iseqLoop_mem (pd rd : List Nat) (tr : List (Nat × Nat × Nat)) (h : IseqOk pd rd tr) (w : Nat × Nat) :
    w ∈ iseqLoop pd rd tr ↔ ∃ j, InRange rd j ∧ w = (rowMajor rd j, rowMajor pd (iseqSrc tr j)) := by
  induction pd generalizing rd tr w with
  | nil =>
    cases rd <;> cases tr <;> simp only [IseqOk] at h
    simp only [iseqLoop, List.mem_singleton]
    constructor
    · intro hw; exact ⟨[], trivial, by simp [hw, rowMajor, horner, iseqSrc]⟩
    · rintro ⟨j, hj, rfl⟩
      cases j with
      | nil => simp [rowMajor, horner, iseqSrc]
      | cons _ _ => simp [InRange] at hj
  | cons p pd ih =>
    cases rd with
    | nil => simp [IseqOk] at h
    | cons r rd =>
      cases tr with
      | nil => simp [IseqOk] at h
      | cons t tr =>
        obtain ⟨f, l, s⟩ := t
        simp only [IseqOk] at h
        obtain ⟨hs, hr, hrest⟩ := h
        obtain ⟨hl1, hl2⟩ := iseqOk_lengths hrest
        simp only [iseqLoop, zip_forRange, List.mem_flatMap, List.mem_map, List.mem_range]
        constructor
        · rintro ⟨ic, ⟨t, ht, rfl⟩, w', hw', rfl⟩
          obtain ⟨j, hj, rfl⟩ := (ih rd tr hrest w').1 hw'
          have hjl := inRange_length hj
          refine ⟨t :: j, ⟨by omega, hj⟩, ?_⟩
          simp only [iseqSrc]
          rw [rowMajor_cons _ _ _ _ hjl, rowMajor_cons _ _ _ _ (by rw [iseqSrc_length _ _ (by omega)]; omega)]
        · rintro ⟨j, hj, rfl⟩
          cases j with
          | nil => simp [InRange] at hj
          | cons t js =>
            simp only [InRange] at hj
            have hjl := inRange_length hj.2
            refine ⟨(f + t * s, t), ⟨t, by omega, rfl⟩, (rowMajor rd js, rowMajor pd (iseqSrc tr js)),
              (ih rd tr hrest _).2 ⟨js, hj.2, rfl⟩, ?_⟩
            simp only [iseqSrc]
            rw [rowMajor_cons _ _ _ _ hjl, rowMajor_cons _ _ _ _ (by rw [iseqSrc_length _ _ (by omega)]; omega)]

end Fastor.Views
