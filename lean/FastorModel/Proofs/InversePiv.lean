import FastorModel.Proofs.InverseRec
/- pivot vector is a permutation; apply_pivot / reconstruct_colwise; the pivoted direct inverse -/
namespace Fastor.Inv
open Matrix
variable {K : Type} [Field K]

/-- `p` permutes `0..M-1` -/
def IsPermOn (M : Nat) (p : Nat → Nat) : Prop :=
  (∀ i < M, p i < M) ∧ (∀ i < M, ∀ j < M, p i = p j → i = j)

theorem swapAt_perm {M : Nat} {p : Vec Nat} {a b : Nat} (hp : IsPermOn M p.get) (ha : a < M) (hb : b < M) :
    IsPermOn M (swapAt p a b).get := by
  refine ⟨fun i hi => ?_, fun i hi j hj h => ?_⟩
  · show (if i = a then p b else if i = b then p a else p i) < M
    split_ifs <;> apply hp.1 <;> assumption
  · have h' : (if i = a then p b else if i = b then p a else p i)
        = (if j = a then p b else if j = b then p a else p j) := h
    split_ifs at h' with h1 h2 h3 h4 h5 h6 <;>
      first
      | omega
      | (have := hp.2 _ (by assumption) _ (by assumption) h'; omega)

theorem maxIndex_lt {α : Type} (gt : α → α → Bool) (M : Nat) (A : Mat α) (j : Nat) (hj : j < M) :
    maxIndex gt M A j < M := by
  unfold maxIndex
  have : ∀ (l : List Nat) (m : Nat), (∀ x ∈ l, x < M) → m < M →
      l.foldl (fun mi i => if gt (A i j) (A mi j) then i else mi) m < M := by
    intro l
    induction l with
    | nil => intro m _ hm; simpa using hm
    | cons x xs ih =>
      intro m hl hm
      rw [List.foldl_cons]
      apply ih
      · intro y hy; exact hl y (List.mem_cons_of_mem _ hy)
      · split
        · exact hl x List.mem_cons_self
        · exact hm
  apply this _ _ _ hj
  intro x hx
  rw [List.mem_range'_1] at hx
  omega

/-- **the pivot vector produced by the swap loop of `pivot_inplace` is a permutation of `0..M-1`**, for every
    matrix and every comparison (product of transpositions) -/
theorem pivotVec_perm {α : Type} (gt : α → α → Bool) (M : Nat) (A : Mat α) : IsPermOn M (pivotVec gt M A).get := by
  unfold pivotVec
  have : ∀ (l : List Nat) (p : Vec Nat), (∀ x ∈ l, x < M) → IsPermOn M p.get →
      IsPermOn M (l.foldl (fun p j => let mi := maxIndex gt M A j;
        if j ≠ mi then memoV M (swapAt p j mi) else p) p).get := by
    intro l
    induction l with
    | nil => intro p _ hp; simpa using hp
    | cons x xs ih =>
      intro p hl hp
      rw [List.foldl_cons]
      apply ih
      · intro y hy; exact hl y (List.mem_cons_of_mem _ hy)
      · have hx := hl x List.mem_cons_self
        simp only
        split
        · rw [memoV_eq]; exact swapAt_perm hp hx (maxIndex_lt gt M A x hx)
        · exact hp
  apply this
  · intro x hx; exact List.mem_range.mp hx
  · exact ⟨fun i hi => hi, fun i _ j _ h => h⟩

/-- invariant of the column loop of `reconstruct_colwise` after `k` iterations -/
theorem reconstruct_prefix {α : Type} (M : Nat) (Y : Mat α) (p : Vec Nat) (hp : IsPermOn M p.get) :
    ∀ k ≤ M,
      let X := (List.range k).foldl
        (fun (X : Mat α) i => if p i ≠ i then { get := fun r c => if c = p i then Y r i else X r c } else X) Y
      (∀ r, ∀ i < k, X r (p i) = Y r i) ∧ (∀ r c, (∀ i < k, p i ≠ c) → X r c = Y r c) := by
  intro k
  induction k with
  | zero => intro _; exact ⟨fun r i hi => absurd hi (Nat.not_lt_zero _), fun r c _ => rfl⟩
  | succ k ih =>
    intro hk
    obtain ⟨h1, h2⟩ := ih (by omega)
    rw [List.range_succ, List.foldl_append]
    simp only [List.foldl_cons, List.foldl_nil]
    by_cases hpk : p k = k
    · rw [if_neg (by simpa using hpk)]
      refine ⟨fun r i hi => ?_, fun r c hc => h2 r c (fun i hi => hc i (by omega))⟩
      by_cases hik : i = k
      · subst hik
        rw [hpk]
        apply h2
        intro i' hi' he
        have := hp.2 i' (by omega) i (by omega) (by rw [he, hpk])
        omega
      · exact h1 r i (by omega)
    · rw [if_pos hpk]
      refine ⟨fun r i hi => ?_, fun r c hc => ?_⟩
      · show (if p i = p k then Y r k else _) = Y r i
        by_cases hik : i = k
        · subst hik; rw [if_pos rfl]
        · have : p i ≠ p k := fun he => hik (hp.2 i (by omega) k (by omega) he)
          rw [if_neg this]; exact h1 r i (by omega)
      · show (if c = p k then Y r k else _) = Y r c
        have : c ≠ p k := fun he => hc k (by omega) he.symm
        rw [if_neg this]; exact h2 r c (fun i hi => hc i (by omega))

theorem reconstruct_spec {α : Type} (M : Nat) (Y : Mat α) (p : Vec Nat) (hp : IsPermOn M p.get) :
    ∀ r, ∀ i < M, (reconstructColwise M Y p) r (p i) = Y r i :=
  (reconstruct_prefix M Y p hp M (Nat.le_refl M)).1

theorem sum_perm (M : Nat) (p : Nat → Nat) (hp : IsPermOn M p) (f : Nat → K) :
    ∑ k ∈ Finset.range M, f k = ∑ i ∈ Finset.range M, f (p i) := by
  have hinj : Set.InjOn p (Finset.range M : Set Nat) := by
    intro i hi j hj h
    exact hp.2 i (Finset.mem_range.mp hi) j (Finset.mem_range.mp hj) h
  have himg : (Finset.range M).image p = Finset.range M := by
    apply Finset.eq_of_subset_of_card_le
    · intro x hx
      obtain ⟨i, hi, rfl⟩ := Finset.mem_image.mp hx
      exact Finset.mem_range.mpr (hp.1 i (Finset.mem_range.mp hi))
    · rw [Finset.card_image_of_injOn hinj]
  conv_lhs => rw [← himg]
  exact Finset.sum_image hinj

/-- column-wise reconstruction: if `Y` is a left inverse of the row-permuted matrix `apply_pivot(A,p)` and `p` is a
    permutation, then `reconstruct_colwise(Y,p)` is a left inverse of `A` -/
theorem reconstruct_left (M : Nat) (A Y : Mat K) (p : Vec Nat) (hp : IsPermOn M p.get)
    (hY : toMat M M Y * toMat M M (applyPivot A p) = 1) :
    toMat M M (reconstructColwise M Y p) * toMat M M A = 1 := by
  ext r c
  have h := congrFun (congrFun hY r) c
  rw [Matrix.mul_apply] at h ⊢
  rw [← h]
  show ∑ j : Fin M, (reconstructColwise M Y p) r.val j.val * A j.val c.val
      = ∑ j : Fin M, Y r.val j.val * (applyPivot A p) j.val c.val
  rw [Fin.sum_univ_eq_sum_range (fun k => (reconstructColwise M Y p) r.val k * A k c.val) M,
      Fin.sum_univ_eq_sum_range (fun k => Y r.val k * (applyPivot A p) k c.val) M,
      sum_perm M p.get hp]
  apply Finset.sum_congr rfl
  intro i hi
  have hi' := Finset.mem_range.mp hi
  rw [reconstruct_spec M Y p hp r.val i hi']
  congr 1
  show A (p i) c.val = (if p i ≠ i then A (p i) c.val else A i c.val)
  split
  · rfl
  · rename_i hne; simp only [ne_eq, not_not] at hne; rw [hne]

end Fastor.Inv
