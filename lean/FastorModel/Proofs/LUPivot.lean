import FastorModel.Proofs.LUBasic
/-
  `pivot_inplace`: the swap loop returns a permutation of 0..n-1 for EVERY input (a product of transpositions applied to iota);
  the matrix form is its permutation matrix; `apply_pivot` reads row `perm i`; Doolittle's equations imply `L*U = A`.
-/
namespace Fastor.LU
open Finset

section perm
variable {α : Type} [Zero α]

theorem pivotPerm_perm (gt : α → α → Bool) (n : Nat) (A : Mat α) :
    (pivotPerm gt n A).toList.Perm (List.range n) := by
  unfold pivotPerm
  apply foldl_inv (fun p : Array Nat => p.toList.Perm (List.range n))
  · simp [Array.toList_range]
  · intro p j _ hp
    simp only
    split
    · rw [Array.swapIfInBounds_def]
      split
      · split
        · exact (Array.perm_iff_toList_perm.1 (Array.swap_perm _ _)).trans hp
        · exact hp
      · exact hp
    · exact hp

/-- the permutation vector: right length, every value in range, no value twice — a bijection of `0..n-1` -/
theorem pivotPerm_bijection (gt : α → α → Bool) (n : Nat) (A : Mat α) :
    (pivotPerm gt n A).size = n ∧ (∀ i, i < n → (pivotPerm gt n A).getD i 0 < n) ∧
    (∀ i j, i < n → j < n → (pivotPerm gt n A).getD i 0 = (pivotPerm gt n A).getD j 0 → i = j) ∧
    (∀ v, v < n → ∃ i, i < n ∧ (pivotPerm gt n A).getD i 0 = v) := by
  have hp := pivotPerm_perm gt n A
  have hsz : (pivotPerm gt n A).size = n := by
    have := hp.length_eq; simpa using this
  have hnd : (pivotPerm gt n A).toList.Nodup := (hp.nodup_iff).2 List.nodup_range
  have hget : ∀ i (hi : i < n), (pivotPerm gt n A).getD i 0 = (pivotPerm gt n A).toList[i]'(by simpa [hsz] using hi) := by
    intro i hi
    have : i < (pivotPerm gt n A).size := by rw [hsz]; exact hi
    simp [Array.getD, this]
  refine ⟨hsz, ?_, ?_, ?_⟩
  · intro i hi
    rw [hget i hi]
    have : (pivotPerm gt n A).toList[i]'(by simpa [hsz] using hi) ∈ List.range n := hp.mem_iff.1 (List.getElem_mem _)
    exact List.mem_range.1 this
  · intro i j hi hj h
    rw [hget i hi, hget j hj] at h
    exact (List.Nodup.getElem_inj_iff hnd).1 h
  · intro v hv
    have : v ∈ (pivotPerm gt n A).toList := hp.mem_iff.2 (List.mem_range.2 hv)
    obtain ⟨i, hi, e⟩ := List.getElem_of_mem this
    have hi' : i < n := by simpa [hsz] using hi
    exact ⟨i, hi', by rw [hget i hi']; exact e⟩

end perm

section field
variable {K : Type} [Field K]

/-- `P.fill(0); P(i, perm(i)) = 1`: the permutation matrix of `perm` -/
theorem pivotMat_get (n : Nat) (perm : Array Nat) (hp : ∀ i, i < n → perm.getD i 0 < n) (i j : Nat) (hi : i < n) (hj : j < n) :
    (pivotMat n perm : Mat K).get i j = if perm.getD i 0 = j then 1 else 0 := by
  unfold pivotMat
  have key : ∀ m, m ≤ n →
      (∀ i j, ((List.range m).foldl (fun (P : Mat K) i => P.set i (perm.getD i 0) 1) (Mat.zero n n)).has i j ↔ i < n ∧ j < n) ∧
      ∀ i j, i < n → j < n → ((List.range m).foldl (fun (P : Mat K) i => P.set i (perm.getD i 0) 1) (Mat.zero n n)).get i j =
        if i < m ∧ perm.getD i 0 = j then 1 else 0 := by
    intro m
    induction m with
    | zero =>
      intro _
      refine ⟨fun i j => by simp [Mat.zero, Mat.has_ofFn], fun i j hi hj => by simp [Mat.zero, Mat.get_ofFn]⟩
    | succ m ih =>
      intro hm
      obtain ⟨h1, h2⟩ := ih (by omega)
      rw [List.range_succ, List.foldl_append]
      simp only [List.foldl_cons, List.foldl_nil]
      refine ⟨fun i j => by rw [Mat.has_set]; exact h1 i j, fun i j hi hj => ?_⟩
      rw [Mat.get_set, h2 i j hi hj]
      have hh := (h1 m (perm.getD m 0)).2 ⟨by omega, hp m (by omega)⟩
      by_cases e : i = m
      · subst e
        by_cases e2 : j = perm.getD i 0
        · rw [if_pos ⟨rfl, e2, hh⟩, if_pos ⟨by omega, e2.symm⟩]
        · rw [if_neg (fun h => e2 h.2.1), if_neg (fun h => absurd h.1 (Nat.lt_irrefl _)), if_neg (fun h => e2 h.2.symm)]
      · have : (i < m + 1 ∧ perm.getD i 0 = j) ↔ (i < m ∧ perm.getD i 0 = j) := by
          constructor
          · rintro ⟨a, b⟩; exact ⟨by omega, b⟩
          · rintro ⟨a, b⟩; exact ⟨by omega, b⟩
        rw [if_neg (fun h => e h.1)]
        simp only [this]
  rw [(key n (Nat.le_refl _)).2 i j hi hj]; simp [hi]

/-- `apply_pivot(A, perm)`: row `i` of the result is row `perm(i)` of `A` -/
theorem applyPivotV_get (n : Nat) (A : Mat K) (perm : Array Nat) (i j : Nat) (hi : i < n) (hj : j < n) :
    (applyPivotV n A perm).get i j = A.get (perm.getD i 0) j := by
  unfold applyPivotV
  rw [Mat.get_ofFn, if_pos ⟨hi, hj⟩]
  split
  · rfl
  · rename_i h; have h' : perm.getD i 0 = i := Classical.not_not.1 h; rw [h']

/-- Doolittle's equations (exactly the assignments of `lu_simple_dispatcher` and of the unrolled `_lufact` kernels, read as
equations between the final entries) force `L * U = A`. -/
theorem doolittle_equations_isLU (n : Nat) (A L U : Mat K)
    (hdiag : ∀ i, i < n → L.get i i = 1)
    (hlz : ∀ i j, i < n → j < n → i < j → L.get i j = 0)
    (huz : ∀ i j, i < n → j < n → j < i → U.get i j = 0)
    (hU : ∀ i j, i < n → j < n → i ≤ j → U.get i j = A.get i j - ∑ k ∈ range i, L.get i k * U.get k j)
    (hL : ∀ i j, i < n → j < n → j < i → L.get i j = (A.get i j - ∑ k ∈ range j, L.get i k * U.get k j) / U.get j j)
    (hpiv : ∀ j, j + 1 < n → U.get j j ≠ 0) : IsLU n A L U := by
  refine ⟨hdiag, hlz, huz, ?_⟩
  intro i j hi hj
  by_cases hij : i ≤ j
  · -- Σ_{m<n} = Σ_{m<i} + L_ii U_ij + 0
    have split : ∑ m ∈ range n, L.get i m * U.get m j = ∑ m ∈ range (i + 1), L.get i m * U.get m j := by
      have hsub : range (i + 1) ⊆ range n := by intro x; simp; omega
      symm
      apply sum_subset hsub
      intro m hm hm'
      have h1 : m < n := by simpa using hm
      have h2 : i < m := by simp at hm'; omega
      rw [hlz i m hi h1 h2]; simp
    rw [split, sum_range_succ, hdiag i hi, hU i j hi hj hij]; ring
  · have hji : j < i := by omega
    have split : ∑ m ∈ range n, L.get i m * U.get m j = ∑ m ∈ range (j + 1), L.get i m * U.get m j := by
      have hsub : range (j + 1) ⊆ range n := by intro x; simp; omega
      symm
      apply sum_subset hsub
      intro m hm hm'
      have h1 : m < n := by simpa using hm
      have h2 : j < m := by simp at hm'; omega
      rw [huz m j h1 hj h2]; simp
    have hp := hpiv j (by omega)
    rw [split, sum_range_succ, hL i j hi hj hji]
    field_simp; ring

end field
end Fastor.LU
