import FastorModel.Proofs.LUSimple
/-
  `_lufact<T,N>` (backend/lufact.h), the unrolled kernels: row s of U, then column s of L, for s = 0..N-1, then the stores
  with literal ones and zeros.  Correct for every N (the code exists for N = 1..8).
-/
namespace Fastor.LU
open Finset

variable {K : Type} [Field K]

/-- one sweep `s` of the unrolled kernel on the local constants -/
def unrolledStep (n : Nat) (A : Mat K) (st : Mat K × Mat K) (s : Nat) : Mat K × Mat K :=
  let U := (List.range' s (n - s)).foldl (fun (U : Mat K) j =>
              U.set s j (subLoop s (fun k => st.1.get s k * U.get k j) (A.get s j))) st.2
  let L := (List.range' (s + 1) (n - (s + 1))).foldl (fun (L : Mat K) i =>
              L.set i s (subLoop s (fun k => L.get i k * U.get k s) (A.get i s) / U.get s s)) st.1
  (L, U)

def unrolledState (n : Nat) (A : Mat K) (s : Nat) : Mat K × Mat K :=
  (List.range s).foldl (unrolledStep n A) (Mat.zero n n, Mat.zero n n)

/-- the kernel is defined on A: the pivots `U_ss`, s < N-1, it divides by are non-zero -/
def UnrolledDefined (n : Nat) (A : Mat K) : Prop := ∀ s, s + 1 < n → (unrolledState n A (s + 1)).2.get s s ≠ 0

structure UnrolledInv (n s : Nat) (A L U : Mat K) : Prop where
  hasL : ∀ i c, L.has i c ↔ i < n ∧ c < n
  hasU : ∀ i c, U.has i c ↔ i < n ∧ c < n
  ueq : ∀ r j, r < s → r ≤ j → j < n → U.get r j = A.get r j - ∑ k ∈ range r, L.get r k * U.get k j
  leq : ∀ i c, c < s → c < i → i < n → L.get i c = (A.get i c - ∑ k ∈ range c, L.get i k * U.get k c) / U.get c c
  piv : ∀ c, c < s → c + 1 < n → U.get c c ≠ 0

theorem unrolledStep_inv (n s : Nat) (A L U : Mat K) (h : UnrolledInv n s A L U) (hs : s < n)
    (hp : s + 1 < n → (unrolledStep n A (L, U) s).2.get s s ≠ 0) :
    UnrolledInv n (s + 1) A (unrolledStep n A (L, U) s).1 (unrolledStep n A (L, U) s).2 := by
  obtain ⟨hasL, hasU, ueq, leq, piv⟩ := h
  obtain ⟨U', hU'⟩ : ∃ M, M = (List.range' s (n - s)).foldl (fun (U : Mat K) j =>
      U.set s j (subLoop s (fun k => L.get s k * U.get k j) (A.get s j))) U := ⟨_, rfl⟩
  obtain ⟨L', hL'⟩ : ∃ M, M = (List.range' (s + 1) (n - (s + 1))).foldl (fun (L : Mat K) i =>
      L.set i s (subLoop s (fun k => L.get i k * U'.get k s) (A.get i s) / U'.get s s)) L := ⟨_, rfl⟩
  have e : unrolledStep n A (L, U) s = (L', U') := by rw [hL', hU']; rfl
  rw [e] at hp ⊢
  simp only at hp ⊢
  obtain ⟨u1, u2⟩ := foldl_set_row s (fun (M : Mat K) j => subLoop s (fun k => L.get s k * M.get k j) (A.get s j))
    (by
      intro M M' t hMM
      simp only [subLoop_eq]
      congr 1
      apply sum_congr rfl; intro k hk
      rw [hMM k t (by have := mem_range.1 hk; omega)])
    (n - s) s U (fun t _ ht2 => (hasU s t).2 ⟨hs, by omega⟩)
  rw [← hU'] at u1 u2
  obtain ⟨l1, l2⟩ := foldl_set_col s (fun (M : Mat K) i => subLoop s (fun k => M.get i k * U'.get k s) (A.get i s) / U'.get s s)
    (by
      intro M M' t hMM
      simp only [subLoop_eq]
      congr 2
      apply sum_congr rfl; intro k hk
      rw [hMM t k (by have := mem_range.1 hk; omega)])
    (n - (s + 1)) (s + 1) L (fun t _ ht2 => (hasL t s).2 ⟨by omega, hs⟩)
  rw [← hL'] at l1 l2
  have getL' : ∀ i c, c ≠ s → L'.get i c = L.get i c := fun i c hc => by rw [l2 i c, if_neg (fun h => hc h.1)]
  have getU' : ∀ r j, r ≠ s → U'.get r j = U.get r j := fun r j hr => by rw [u2 r j, if_neg (fun h => hr h.1)]
  refine ⟨fun i c => by rw [l1]; exact hasL i c, fun i c => by rw [u1]; exact hasU i c, ?_, ?_, ?_⟩
  · intro r j hr hrj hj
    by_cases hrs : r = s
    · subst hrs
      rw [u2 r j, if_pos ⟨rfl, hrj, by omega⟩]
      simp only [subLoop_eq]
      congr 1
      apply sum_congr rfl; intro k hk
      have hk' := mem_range.1 hk
      rw [getL' r k (by omega), getU' k j (by omega)]
    · rw [getU' r j hrs, ueq r j (by omega) hrj hj]
      congr 1
      apply sum_congr rfl; intro k hk
      have hk' := mem_range.1 hk
      rw [getL' r k (by omega), getU' k j (by omega)]
  · intro i c hc hci hi
    by_cases hcs : c = s
    · subst hcs
      rw [l2 i c, if_pos ⟨rfl, by omega, by omega⟩]
      simp only [subLoop_eq]
      congr 2
      apply sum_congr rfl; intro k hk
      have hk' := mem_range.1 hk
      rw [getL' i k (by omega)]
    · rw [getL' i c hcs, getU' c c hcs, leq i c (by omega) hci hi]
      congr 2
      apply sum_congr rfl; intro k hk
      have hk' := mem_range.1 hk
      rw [getL' i k (by omega), getU' k c (by omega)]
  · intro c hc hc1
    by_cases hcs : c = s
    · subst hcs; exact hp hc1
    · rw [getU' c c hcs]; exact piv c (by omega) hc1

theorem unrolledState_succ (n : Nat) (A : Mat K) (s : Nat) :
    unrolledState n A (s + 1) = unrolledStep n A (unrolledState n A s) s := by
  simp [unrolledState, List.range_succ, List.foldl_append]

theorem unrolledState_inv (n : Nat) (A : Mat K) (hdef : UnrolledDefined n A) :
    ∀ s, s ≤ n → UnrolledInv n s A (unrolledState n A s).1 (unrolledState n A s).2 := by
  intro s
  induction s with
  | zero =>
    intro _
    refine ⟨fun i c => by simp [unrolledState, Mat.zero, Mat.has_ofFn], fun i c => by simp [unrolledState, Mat.zero, Mat.has_ofFn], ?_, ?_, ?_⟩ <;>
      intros <;> omega
  | succ s ih =>
    intro hs
    have hd := hdef s
    rw [unrolledState_succ] at hd ⊢
    exact unrolledStep_inv n s A _ _ (ih (by omega)) (by omega) hd

/-- `_lufact<T,N>`: for every N, the stored L and U are the LU factorisation, with the ones and zeros stored as literals -/
theorem lufactUnrolled_isLU (n : Nat) (A : Mat K) (hdef : UnrolledDefined n A) :
    IsLU n A (lufactUnrolled n A).1 (lufactUnrolled n A).2 := by
  have h := unrolledState_inv n A hdef n (Nat.le_refl _)
  have e : lufactUnrolled n A =
      (Mat.ofFn n n fun i j => if i = j then 1 else if j < i then (unrolledState n A n).1.get i j else 0,
       Mat.ofFn n n fun i j => if i ≤ j then (unrolledState n A n).2.get i j else 0) := rfl
  rw [e]
  simp only
  have gL : ∀ i j, i < n → j < n → (Mat.ofFn n n fun i j => if i = j then (1 : K) else if j < i then (unrolledState n A n).1.get i j else 0).get i j
      = if i = j then 1 else if j < i then (unrolledState n A n).1.get i j else 0 := by
    intro i j hi hj; rw [Mat.get_ofFn, if_pos ⟨hi, hj⟩]
  have gU : ∀ i j, i < n → j < n → (Mat.ofFn n n fun i j => if i ≤ j then (unrolledState n A n).2.get i j else (0 : K)).get i j
      = if i ≤ j then (unrolledState n A n).2.get i j else 0 := by
    intro i j hi hj; rw [Mat.get_ofFn, if_pos ⟨hi, hj⟩]
  apply doolittle_equations_isLU n A _ _
  · intro i hi; rw [gL i i hi hi, if_pos rfl]
  · intro i j hi hj hij; rw [gL i j hi hj, if_neg (by omega), if_neg (by omega)]
  · intro i j hi hj hji; rw [gU i j hi hj, if_neg (by omega)]
  · intro i j hi hj hij
    rw [gU i j hi hj, if_pos hij, h.ueq i j hi hij hj]
    congr 1
    apply sum_congr rfl; intro k hk
    have hk' := mem_range.1 hk
    rw [gL i k hi (by omega), if_neg (by omega), if_pos hk', gU k j (by omega) hj, if_pos (by omega)]
  · intro i j hi hj hji
    rw [gL i j hi hj, if_neg (by omega), if_pos hji, h.leq i j hj hji hi, gU j j hj hj, if_pos (Nat.le_refl _)]
    congr 2
    apply sum_congr rfl; intro k hk
    have hk' := mem_range.1 hk
    rw [gL i k hi (by omega), if_neg (by omega), if_pos (by omega), gU k j (by omega) hj, if_pos (by omega)]
  · intro j hj
    rw [gU j j (by omega) (by omega), if_pos (Nat.le_refl _)]
    exact h.piv j (by omega) hj

end Fastor.LU
