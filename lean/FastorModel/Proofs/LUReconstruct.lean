import FastorModel.Proofs.LUBlock
/-
  `reconstruct(L,U,P)` undoes `apply_pivot`; the matrix encoding of the permutation is read back correctly by `std::find`.
-/
namespace Fastor.LU
open Finset

variable {K : Type} [Field K]

theorem setRow_get (n : Nat) (A src : Mat K) (p i r j : Nat) (hr : r < n) (hj : j < n) :
    (setRow n A p src i).get r j = if r = p then src.get i j else A.get r j := by
  simp [setRow, Mat.get_ofFn, hr, hj]

/-- the row scatter of `reconstruct`: with a bijective `p`, row `p(i)` of the result is row `i` of `L*U` -/
theorem reconstructV_get (n : Nat) (L U : Mat K) (perm : Array Nat)
    (hlt : ∀ i, i < n → perm.getD i 0 < n)
    (hinj : ∀ i j, i < n → j < n → perm.getD i 0 = perm.getD j 0 → i = j)
    (hsurj : ∀ v, v < n → ∃ i, i < n ∧ perm.getD i 0 = v)
    (i j : Nat) (hi : i < n) (hj : j < n) :
    (reconstructV n L U perm).get (perm.getD i 0) j = (Mat.mul n n n L U).get i j := by
  classical
  -- the inverse permutation
  let q : Nat → Nat := fun r => if h : r < n then Classical.choose (hsurj r h) else r
  have hq1 : ∀ r, r < n → q r < n := fun r hr => by simp only [q, dif_pos hr]; exact (Classical.choose_spec (hsurj r hr)).1
  have hq2 : ∀ r, r < n → perm.getD (q r) 0 = r := fun r hr => by simp only [q, dif_pos hr]; exact (Classical.choose_spec (hsurj r hr)).2
  have hq3 : ∀ i, i < n → q (perm.getD i 0) = i := fun i hi =>
    hinj _ _ (hq1 _ (hlt i hi)) hi (hq2 _ (hlt i hi))
  obtain ⟨LU, hLU⟩ : ∃ M, M = Mat.mul n n n L U := ⟨_, rfl⟩
  have key : ∀ m, m ≤ n → ∀ r c, r < n → c < n →
      ((List.range m).foldl (fun (A : Mat K) i => if perm.getD i 0 ≠ i then setRow n A (perm.getD i 0) LU i else A) LU).get r c =
        if q r < m ∧ perm.getD (q r) 0 ≠ q r then LU.get (q r) c else LU.get r c := by
    intro m
    induction m with
    | zero => intro _ r c _ _; simp
    | succ m ih =>
      intro hm r c hr hc
      rw [List.range_succ, List.foldl_append]
      simp only [List.foldl_cons, List.foldl_nil]
      have ih' := ih (by omega)
      by_cases hpm : perm.getD m 0 = m
      · rw [if_neg (by simpa using hpm), ih' r c hr hc]
        by_cases hqr : q r = m
        · have : ¬ (q r < m) := by omega
          rw [if_neg (fun h => this h.1), if_neg (fun h => h.2 (by rw [hqr]; exact hpm))]
        · have : (q r < m + 1 ∧ perm.getD (q r) 0 ≠ q r) ↔ (q r < m ∧ perm.getD (q r) 0 ≠ q r) := by
            constructor
            · rintro ⟨a, b⟩; exact ⟨by omega, b⟩
            · rintro ⟨a, b⟩; exact ⟨by omega, b⟩
          simp only [this]
      · rw [if_pos (by simpa using hpm), setRow_get n _ _ _ _ r c hr hc]
        by_cases hrp : r = perm.getD m 0
        · have hqr : q r = m := by rw [hrp]; exact hq3 m (by omega)
          rw [if_pos hrp, if_pos ⟨by omega, by rw [hqr]; exact hpm⟩, hqr]
        · have hqr : q r ≠ m := fun h => hrp (by rw [← h]; exact (hq2 r hr).symm)
          rw [if_neg hrp, ih' r c hr hc]
          have : (q r < m + 1 ∧ perm.getD (q r) 0 ≠ q r) ↔ (q r < m ∧ perm.getD (q r) 0 ≠ q r) := by
            constructor
            · rintro ⟨a, b⟩; exact ⟨by omega, b⟩
            · rintro ⟨a, b⟩; exact ⟨by omega, b⟩
          simp only [this]
  have e : reconstructV n L U perm =
      (List.range n).foldl (fun (A : Mat K) i => if perm.getD i 0 ≠ i then setRow n A (perm.getD i 0) LU i else A) LU := by
    rw [hLU]; rfl
  rw [e, key n (Nat.le_refl _) _ j (hlt i hi) hj, hq3 i hi]
  by_cases h : perm.getD i 0 = i
  · rw [if_neg (fun hh => hh.2 h), h, hLU]
  · rw [if_pos ⟨hi, h⟩, hLU]

/-- `reconstruct(L, U, p) = A` whenever `L*U = P*A` and `p` is a bijection -/
theorem reconstructV_correct (n : Nat) (A L U : Mat K) (perm : Array Nat)
    (hlt : ∀ i, i < n → perm.getD i 0 < n)
    (hinj : ∀ i j, i < n → j < n → perm.getD i 0 = perm.getD j 0 → i = j)
    (hsurj : ∀ v, v < n → ∃ i, i < n ∧ perm.getD i 0 = v)
    (h : IsLU n (applyPivotV n A perm) L U) (r j : Nat) (hr : r < n) (hj : j < n) :
    (reconstructV n L U perm).get r j = A.get r j := by
  obtain ⟨i, hi, e⟩ := hsurj r hr
  rw [← e, reconstructV_get n L U perm hlt hinj hsurj i j hi hj, get_mul _ _ _ _ _ _ _ hi hj, h.mul i j hi hj,
    applyPivotV_get n A perm i j hi hj]

/-- `std::find` on a list with exactly one hit below n -/
theorem find_range_unique (q : Nat → Bool) (a : Nat) : ∀ n, a < n → (∀ j, j < n → (q j = true ↔ j = a)) →
    (List.range n).find? q = some a := by
  intro n
  induction n with
  | zero => intro h; omega
  | succ n ih =>
    intro ha hq
    rw [List.range_succ, List.find?_append]
    by_cases han : a < n
    · rw [ih han (fun j hj => hq j (by omega))]; rfl
    · have ean : a = n := by omega
      have hnone : (List.range n).find? q = none := by
        rw [List.find?_eq_none]
        intro x hx
        have hx' := List.mem_range.1 hx
        intro hqx
        have := (hq x (by omega)).1 hqx
        omega
      rw [hnone]
      have : q n = true := (hq n (by omega)).2 ean.symm
      simp [this, ean]

/-- `apply_pivot(A, P)` with the matrix built by `pivot_inplace` reads the same rows as the vector form -/
theorem findOne_pivotMat (isOne : K → Bool) (h1 : isOne 1 = true) (h0 : isOne 0 = false) (n : Nat) (perm : Array Nat)
    (hlt : ∀ i, i < n → perm.getD i 0 < n) (i : Nat) (hi : i < n) :
    findOne isOne n (pivotMat n perm : Mat K) i = perm.getD i 0 := by
  unfold findOne
  rw [find_range_unique (fun j => isOne ((pivotMat n perm : Mat K).get i j)) (perm.getD i 0) n (hlt i hi)]
  · rfl
  · intro j hj
    show isOne ((pivotMat n perm : Mat K).get i j) = true ↔ j = perm.getD i 0
    rw [pivotMat_get n perm hlt i j hi hj]
    by_cases e : perm.getD i 0 = j
    · rw [if_pos e, h1]; exact ⟨fun _ => e.symm, fun _ => rfl⟩
    · rw [if_neg e, h0]; exact ⟨fun h => absurd h (by decide), fun h => absurd h.symm e⟩

theorem Mat.ofFn_congr {α : Type} (r c : Nat) (f g : Nat → Nat → α) (h : ∀ i j, i < r → j < c → f i j = g i j) :
    Mat.ofFn r c f = Mat.ofFn r c g := by
  unfold Mat.ofFn
  congr 1
  funext i
  congr 1
  funext j
  exact h i.1 j.1 i.2 j.2

theorem applyPivotM_eq (isOne : K → Bool) (h1 : isOne 1 = true) (h0 : isOne 0 = false) (n : Nat) (A : Mat K) (perm : Array Nat)
    (hlt : ∀ i, i < n → perm.getD i 0 < n) :
    applyPivotM isOne n A (pivotMat n perm : Mat K) = applyPivotV n A perm := by
  unfold applyPivotM applyPivotV
  apply Mat.ofFn_congr
  intro i j hi _
  rw [findOne_pivotMat isOne h1 h0 n perm hlt i hi]

end Fastor.LU
