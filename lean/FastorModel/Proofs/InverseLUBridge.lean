import FastorModel.Proofs.InverseLU
import FastorModel.Proofs.LUExport
/- bridge between the C11 export (`Fastor.LU`, matrices as arrays of arrays) and `get_lu_inverse` of the C10 model -/
namespace Fastor.Inv
open Matrix
variable {K : Type} [Field K]

def ofLU (M : Fastor.LU.Mat K) : Mat K := { get := fun i j => Fastor.LU.Mat.get M i j }
def toLU (n : Nat) (A : Mat K) : Fastor.LU.Mat K := Fastor.LU.Mat.ofFn n n (fun i j => A i j)
def ofPerm (p : Array Nat) : Vec Nat := { get := fun i => p.getD i 0 }

theorem getLuInverse_of_LUPost (n : Nat) (A : Mat K) (L U : Fastor.LU.Mat K) (perm : Array Nat)
    (h : Fastor.LU.LUPost n (toLU n A) L U perm) (hd : ∀ i, i < n → Fastor.LU.Mat.get U i i ≠ 0) :
    toMat n n (getLuInverse n (ofLU L) (ofLU U) (ofPerm perm)) * toMat n n A = 1
      ∧ toMat n n A * toMat n n (getLuInverse n (ofLU L) (ofLU U) (ofPerm perm)) = 1 := by
  apply getLuInverse_correct n A (ofLU L) (ofLU U) (ofPerm perm)
  · exact ⟨fun i hi => h.inrange i hi, fun i hi j hj e => h.inj i j hi hj e⟩
  · intro i hi; exact hd i hi
  · ext i j
    rw [Matrix.mul_apply]
    have hpi := h.inrange i.val i.isLt
    have hmul := h.mul i.val j.val i.isLt j.isLt
    have hget : Fastor.LU.Mat.get (toLU n A) (perm.getD i.val 0) j.val = A (perm.getD i.val 0) j.val := by
      unfold toLU; rw [Fastor.LU.Mat.get_ofFn, if_pos ⟨hpi, j.isLt⟩]
    have hR : toMat n n (applyPivot A (ofPerm perm)) i j = A (perm.getD i.val 0) j.val := by
      show (if perm.getD i.val 0 ≠ i.val then A (perm.getD i.val 0) j.val else A i.val j.val) = _
      split
      · rfl
      · rename_i hne; simp only [ne_eq, not_not] at hne; rw [hne]
    rw [hR, ← hget, ← hmul, ← Fin.sum_univ_eq_sum_range (fun m => Fastor.LU.Mat.get L i.val m * Fastor.LU.Mat.get U m j.val) n]
    apply Finset.sum_congr rfl
    intro k _
    have e1 : toMat n n (unitLowerPart (ofLU L)) i k = Fastor.LU.Mat.get L i.val k.val := by
      show (if k.val < i.val then Fastor.LU.Mat.get L i.val k.val else if i.val = k.val then 1 else 0) = _
      by_cases h1 : k.val < i.val
      · rw [if_pos h1]
      · rw [if_neg h1]
        by_cases h2 : i.val = k.val
        · rw [if_pos h2, ← h2, h.diag i.val i.isLt]
        · rw [if_neg h2, h.lzero i.val k.val i.isLt k.isLt (by omega)]
    have e2 : toMat n n (triu (ofLU U)) k j = Fastor.LU.Mat.get U k.val j.val := by
      show (if k.val ≤ j.val then Fastor.LU.Mat.get U k.val j.val else 0) = _
      by_cases h1 : k.val ≤ j.val
      · rw [if_pos h1]
      · rw [if_neg h1, h.uzero k.val j.val k.isLt j.isLt (by omega)]
    rw [e1, e2]

end Fastor.Inv
