import FastorModel.Model.Transpose
/-
  Proofs about the transpose model (C14): the plain loop, one packed block, the whole blocked nest.
-/
namespace Fastor.Transpose

variable {α : Type}

theorem digits_div_mod {b x l : Nat} (hl : l < b) : (x * b + l) / b = x ∧ (x * b + l) % b = l := by
  have hb : 0 < b := by omega
  constructor
  · rw [Nat.add_comm, Nat.add_mul_div_right _ _ hb, Nat.div_eq_of_lt hl]; simp
  · rw [Nat.add_comm, Nat.add_mul_mod_self_right]; exact Nat.mod_eq_of_lt hl

theorem digits_lt {n b x l : Nat} (hx : x < n) (hl : l < b) : x * b + l < n * b := by
  calc x * b + l < x * b + b := by omega
    _ = (x + 1) * b := by rw [Nat.add_mul]; simp
    _ ≤ n * b := Nat.mul_le_mul_right _ hx

theorem lt_digits {n b p : Nat} (hb : 0 < b) (hp : p < n * b) : p / b < n ∧ p % b < b ∧ p / b * b + p % b = p := by
  refine ⟨(Nat.div_lt_iff_lt_mul hb).2 hp, Nat.mod_lt _ hb, ?_⟩
  rw [Nat.mul_comm]; exact Nat.div_add_mod p b

/-- the plain double loop: every cell of the `N×M` result is written, nothing else is, and
    `out[j*M+i] = f (a[i*N+j])` -/
theorem plainWrites_exact (f : α → α) (a : Nat → α) (M N : Nat) :
    WritesExactly (plainWrites f a M N) (fun p => p < N * M) (fun p => f (a ((p % M) * N + p / M))) := by
  apply writesExactly_of_all_right
  · intro w hw
    simp only [plainWrites, List.mem_flatMap, List.mem_map, List.mem_range] at hw
    obtain ⟨j, hj, i, hi, rfl⟩ := hw
    obtain ⟨h2, h1⟩ := digits_div_mod (x := j) hi
    refine ⟨digits_lt hj hi, ?_⟩
    show f (a (i * N + j)) = f (a ((j * M + i) % M * N + (j * M + i) / M))
    rw [h1, h2]
  · intro p hp
    have hM : 0 < M := by
      rcases Nat.eq_zero_or_pos M with h | h
      · subst h; simp at hp
      · exact h
    obtain ⟨h1, h2, h3⟩ := lt_digits hM hp
    refine ⟨(p / M * M + p % M, f (a (p % M * N + p / M))), ?_, h3⟩
    simp only [plainWrites, List.mem_flatMap, List.mem_map, List.mem_range]
    exact ⟨p / M, h1, p % M, h2, rfl⟩

theorem plainReads_lt (M N : Nat) : ∀ r ∈ plainReads M N, r < M * N := by
  intro r hr
  simp only [plainReads, List.mem_flatMap, List.mem_map, List.mem_range] at hr
  obtain ⟨j, hj, i, hi, rfl⟩ := hr
  exact digits_lt hi hj

/-- packing: `pack_a[ii*ob + d] = a[(i+ii)*N + j + d]` for `ii < ib`, `d < ob = nR*V`; nothing else of
    the pack buffer is written -/
theorem packWrites_exact (a : Nat → α) (N V nR ib i j : Nat) (hV : 0 < V) :
    WritesExactly (packWrites a N V nR ib (V * nR) i j) (fun q => q < ib * (V * nR))
      (fun q => a ((i + q / (V * nR)) * N + j + q % (V * nR))) := by
  apply writesExactly_of_all_right
  · intro w hw
    simp only [packWrites, List.mem_flatMap, List.mem_map, List.mem_range] at hw
    obtain ⟨ii, hii, vv, hvv, l, hl, rfl⟩ := hw
    have hd : vv * V + l < V * nR := by rw [Nat.mul_comm V nR]; exact digits_lt hvv hl
    have e : ii * (V * nR) + vv * V + l = ii * (V * nR) + (vv * V + l) := by omega
    obtain ⟨h2, h1⟩ := digits_div_mod (x := ii) hd
    refine ⟨?_, ?_⟩
    · show ii * (V * nR) + vv * V + l < ib * (V * nR)
      rw [e]; exact digits_lt hii hd
    · show a ((i + ii) * N + j + vv * V + l) = _
      simp only [e, h1, h2]
      congr 1; omega
  · intro q hq
    have hob : 0 < V * nR := by
      rcases Nat.eq_zero_or_pos (V * nR) with h | h
      · rw [h] at hq; simp at hq
      · exact h
    obtain ⟨h1, h2, h3⟩ := lt_digits hob hq
    have h2' : q % (V * nR) < nR * V := by rw [Nat.mul_comm nR V]; exact h2
    obtain ⟨k1, k2, k3⟩ := lt_digits hV h2'
    refine ⟨(q / (V * nR) * (V * nR) + (q % (V * nR)) / V * V + (q % (V * nR)) % V,
      a ((i + q / (V * nR)) * N + j + (q % (V * nR)) / V * V + (q % (V * nR)) % V)), ?_, ?_⟩
    · simp only [packWrites, List.mem_flatMap, List.mem_map, List.mem_range]
      exact ⟨q / (V * nR), h1, (q % (V * nR)) / V, k1, (q % (V * nR)) % V, k2, rfl⟩
    · show q / (V * nR) * (V * nR) + (q % (V * nR)) / V * V + (q % (V * nR)) % V = q
      omega

theorem packReads_lt (M N V nR ib i j : Nat) (hi : i + ib ≤ M) (hj : j + V * nR ≤ N) :
    ∀ r ∈ packReads N V nR ib i j, r < M * N := by
  intro r hr
  simp only [packReads, List.mem_flatMap, List.mem_map, List.mem_range] at hr
  obtain ⟨ii, hii, vv, hvv, l, hl, rfl⟩ := hr
  have hd : vv * V + l < V * nR := by rw [Nat.mul_comm V nR]; exact digits_lt hvv hl
  have : (i + ii) * N + (j + vv * V + l) < M * N := digits_lt (by omega) (by omega)
  omega

/-- one block: after packing, the leaf transposition and unpacking, `out[(j+jj)*M + i + c] = a[(i+c)*N + j + jj]`
    for `jj < ob`, `c < ib` — whatever the pack buffers held before -/
theorem block_value (a g1 g2 : Nat → α) (N V nR nC i j jj c : Nat) (hV : 0 < V)
    (hjj : jj < V * nR) (hc : c < V * nC) :
    applyWrites (leafWrites (applyWrites (packWrites a N V nR (V * nC) (V * nR) i j) g1) (V * nC) (V * nR)) g2
      (jj * (V * nC) + c) = a ((i + c) * N + j + jj) := by
  have hleaf := plainWrites_exact id (applyWrites (packWrites a N V nR (V * nC) (V * nR) i j) g1) (V * nC) (V * nR)
  have h1 := (applyWrites_of_exact hleaf g2 (jj * (V * nC) + c)).1 (digits_lt hjj hc)
  rw [leafWrites, h1]
  obtain ⟨d1, d2⟩ := digits_div_mod (x := jj) hc
  simp only [id, d1, d2]
  have hpack := packWrites_exact a N V nR (V * nC) i j hV
  have h2 := (applyWrites_of_exact hpack g1 (c * (V * nR) + jj)).1 (digits_lt hc hjj)
  rw [h2]
  obtain ⟨e1, e2⟩ := digits_div_mod (x := c) hjj
  rw [e1, e2]

/-- spec of the whole transpose as a function of the output position -/
def spec (a : Nat → α) (M N : Nat) (p : Nat) : α := a ((p % M) * N + p / M)

theorem spec_at (a : Nat → α) (M N i j : Nat) (hi : i < M) : spec a M N (j * M + i) = a (i * N + j) := by
  obtain ⟨h1, h2⟩ := digits_div_mod (x := j) hi
  simp only [spec, h1, h2]

/-- **the blocked nest** writes exactly the `N×M` cells, each with the transposed element -/
theorem blockedWrites_exact (a : Nat → α) (g1 g2 : Nat → Nat → Nat → α) (M N V nR nC : Nat)
    (hV : 0 < V) (hR : 0 < nR) (hC : 0 < nC) :
    WritesExactly (blockedWrites a g1 g2 M N V nR nC) (fun p => p < N * M) (spec a M N) := by
  have hib : 0 < V * nC := Nat.mul_pos hV hC
  have hob : 0 < V * nR := Nat.mul_pos hV hR
  have hM0 : M / (V * nC) * (V * nC) ≤ M := Nat.div_mul_le_self _ _
  have hN0 : N / (V * nR) * (V * nR) ≤ N := Nat.div_mul_le_self _ _
  have hM0' : M < M / (V * nC) * (V * nC) + V * nC := by
    have := Nat.div_add_mod M (V * nC); have := Nat.mod_lt M hib; rw [Nat.mul_comm]; omega
  have hN0' : N < N / (V * nR) * (V * nR) + V * nR := by
    have := Nat.div_add_mod N (V * nR); have := Nat.mod_lt N hob; rw [Nat.mul_comm]; omega
  have eM : forExit 0 (M / (V * nC) * (V * nC)) (V * nC) = M / (V * nC) * (V * nC) :=
    forExit_of_dvd hib (Nat.zero_le _) ⟨M / (V * nC), by simp [Nat.mul_comm]⟩
  have eN : forExit 0 (N / (V * nR) * (V * nR)) (V * nR) = N / (V * nR) * (V * nR) :=
    forExit_of_dvd hob (Nat.zero_le _) ⟨N / (V * nR), by simp [Nat.mul_comm]⟩
  apply writesExactly_of_all_right
  · intro w hw
    simp only [blockedWrites, eM, eN, List.mem_append, List.mem_flatMap] at hw
    rcases hw with ⟨j, hj, hw | hw⟩ | hw
    · -- inside a full block
      obtain ⟨i, hi, hw⟩ := hw
      obtain ⟨tj, rfl, hjlt⟩ := (mem_forRange hob).1 hj
      obtain ⟨ti, rfl, hilt⟩ := (mem_forRange hib).1 hi
      simp only [blockWrites, unpackWrites, List.mem_flatMap, List.mem_map, List.mem_range] at hw
      obtain ⟨jj, hjj, vv, hvv, l, hl, rfl⟩ := hw
      have hc : vv * V + l < V * nC := by rw [Nat.mul_comm V nC]; exact digits_lt hvv hl
      -- the block lies inside the matrix
      have hdi : (V * nC) ∣ (M / (V * nC) * (V * nC)) := ⟨M / (V * nC), Nat.mul_comm _ _⟩
      have hdj : (V * nR) ∣ (N / (V * nR) * (V * nR)) := ⟨N / (V * nR), Nat.mul_comm _ _⟩
      have hi2 : 0 + ti * (V * nC) + V * nC ≤ M / (V * nC) * (V * nC) := by
        have : (ti + 1) * (V * nC) ≤ M / (V * nC) * (V * nC) := by
          apply Nat.mul_le_mul_right
          have : ti * (V * nC) < M / (V * nC) * (V * nC) := by omega
          exact Nat.lt_of_mul_lt_mul_right this
        rw [Nat.add_mul] at this; omega
      have hj2 : 0 + tj * (V * nR) + V * nR ≤ N / (V * nR) * (V * nR) := by
        have : (tj + 1) * (V * nR) ≤ N / (V * nR) * (V * nR) := by
          apply Nat.mul_le_mul_right
          have : tj * (V * nR) < N / (V * nR) * (V * nR) := by omega
          exact Nat.lt_of_mul_lt_mul_right this
        rw [Nat.add_mul] at this; omega
      have e : (0 + tj * (V * nR) + jj) * M + (0 + ti * (V * nC)) + vv * V + l
          = (0 + tj * (V * nR) + jj) * M + (0 + ti * (V * nC) + (vv * V + l)) := by omega
      have hcol : 0 + ti * (V * nC) + (vv * V + l) < M := by omega
      have hrow : 0 + tj * (V * nR) + jj < N := by omega
      refine ⟨?_, ?_⟩
      · show (0 + tj * (V * nR) + jj) * M + (0 + ti * (V * nC)) + vv * V + l < N * M
        rw [e]; exact digits_lt hrow hcol
      · show applyWrites _ _ (jj * (V * nC) + vv * V + l) = spec a M N _
        rw [e, spec_at a M N _ _ hcol]
        have e2 : jj * (V * nC) + vv * V + l = jj * (V * nC) + (vv * V + l) := by omega
        rw [e2, block_value a _ _ N V nR nC _ _ jj (vv * V + l) hV hjj hc]
        congr 1; omega
    · -- remaining columns of a block row
      obtain ⟨tj, rfl, hjlt⟩ := (mem_forRange hob).1 hj
      simp only [colEdgeWrites, List.mem_flatMap, List.mem_map, List.mem_range] at hw
      obtain ⟨i, hi, jj, hjj, rfl⟩ := hw
      obtain ⟨t, rfl, hilt⟩ := (mem_forRange (by omega : 0 < 1)).1 hi
      have hj2 : 0 + tj * (V * nR) + V * nR ≤ N / (V * nR) * (V * nR) := by
        have : (tj + 1) * (V * nR) ≤ N / (V * nR) * (V * nR) := by
          apply Nat.mul_le_mul_right
          have : tj * (V * nR) < N / (V * nR) * (V * nR) := by omega
          exact Nat.lt_of_mul_lt_mul_right this
        rw [Nat.add_mul] at this; omega
      have hrow : 0 + tj * (V * nR) + jj < N := by omega
      refine ⟨digits_lt hrow hilt, ?_⟩
      show a _ = spec a M N _
      rw [spec_at a M N _ _ hilt]
      congr 1; omega
    · -- remaining rows
      simp only [rowEdgeWrites, List.mem_flatMap, List.mem_map, List.mem_range] at hw
      obtain ⟨j, hj, i, hi, rfl⟩ := hw
      obtain ⟨t, rfl, hjlt⟩ := (mem_forRange (by omega : 0 < 1)).1 hj
      refine ⟨digits_lt hjlt hi, ?_⟩
      show a _ = spec a M N _
      rw [spec_at a M N _ _ hi]
  · intro p hp
    have hM : 0 < M := by
      rcases Nat.eq_zero_or_pos M with h | h
      · subst h; simp at hp
      · exact h
    obtain ⟨hr, hcm, hpe⟩ := lt_digits hM hp
    simp only [blockedWrites, eM, eN, List.mem_append, List.mem_flatMap]
    by_cases hrow : p / M < N / (V * nR) * (V * nR)
    · -- in a block row
      have hjmem : (p / M) / (V * nR) * (V * nR) ∈ forRange 0 (N / (V * nR) * (V * nR)) (V * nR) := by
        refine (mem_forRange hob).2 ⟨(p / M) / (V * nR), by omega, ?_⟩
        exact Nat.lt_of_le_of_lt (Nat.div_mul_le_self _ _) hrow
      have hjj : p / M - (p / M) / (V * nR) * (V * nR) < V * nR := by
        have := Nat.div_add_mod' (p / M) (V * nR); have := Nat.mod_lt (p / M) hob; omega
      have hjle : (p / M) / (V * nR) * (V * nR) ≤ p / M := Nat.div_mul_le_self _ _
      by_cases hcol : p % M < M / (V * nC) * (V * nC)
      · have himem : (p % M) / (V * nC) * (V * nC) ∈ forRange 0 (M / (V * nC) * (V * nC)) (V * nC) := by
          refine (mem_forRange hib).2 ⟨(p % M) / (V * nC), by omega, ?_⟩
          exact Nat.lt_of_le_of_lt (Nat.div_mul_le_self _ _) hcol
        have hile : (p % M) / (V * nC) * (V * nC) ≤ p % M := Nat.div_mul_le_self _ _
        have hcc0 : p % M - (p % M) / (V * nC) * (V * nC) < V * nC := by
          have := Nat.div_add_mod' (p % M) (V * nC); have := Nat.mod_lt (p % M) hib; omega
        have hcc : p % M - (p % M) / (V * nC) * (V * nC) < nC * V := by rw [Nat.mul_comm nC V]; exact hcc0
        obtain ⟨k1, k2, k3⟩ := lt_digits hV hcc
        generalize hJ : (p / M) / (V * nR) * (V * nR) = J at *
        generalize hI : (p % M) / (V * nC) * (V * nC) = I at *
        generalize hK : (p % M - I) / V = K at *
        generalize hL : (p % M - I) % V = L at *
        refine ⟨(p, applyWrites (leafWrites (applyWrites (packWrites a N V nR (V * nC) (V * nR) I J) (g1 I J))
            (V * nC) (V * nR)) (g2 I J) ((p / M - J) * (V * nC) + K * V + L)),
          Or.inl ⟨J, hjmem, Or.inl ⟨I, himem, ?_⟩⟩, rfl⟩
        simp only [blockWrites, unpackWrites, List.mem_flatMap, List.mem_map, List.mem_range]
        refine ⟨p / M - J, hjj, K, k1, L, k2, ?_⟩
        refine Prod.ext ?_ rfl
        show (J + (p / M - J)) * M + I + K * V + L = p
        have e1 : J + (p / M - J) = p / M := by omega
        rw [e1]; omega
      · generalize hJ : (p / M) / (V * nR) * (V * nR) = J at *
        refine ⟨(p, a (p % M * N + J + (p / M - J))), Or.inl ⟨J, hjmem, Or.inr ?_⟩, rfl⟩
        simp only [colEdgeWrites, List.mem_flatMap, List.mem_map, List.mem_range]
        refine ⟨p % M, (mem_forRange (by omega : 0 < 1)).2 ⟨p % M - M / (V * nC) * (V * nC), by omega, hcm⟩, p / M - J, hjj, ?_⟩
        refine Prod.ext ?_ rfl
        show (J + (p / M - J)) * M + p % M = p
        have e1 : J + (p / M - J) = p / M := by omega
        rw [e1]; exact hpe
    · refine ⟨(p, a (p % M * N + p / M)), Or.inr ?_, rfl⟩
      simp only [rowEdgeWrites, List.mem_flatMap, List.mem_map, List.mem_range]
      refine ⟨p / M, (mem_forRange (by omega : 0 < 1)).2 ⟨p / M - N / (V * nR) * (V * nR), by omega, hr⟩, p % M, hcm, ?_⟩
      exact Prod.ext hpe rfl

/-- a block start produced by the blocked loop leaves room for a whole block -/
theorem block_fits {X b t : Nat} (h : 0 + t * b < X / b * b) : 0 + t * b + b ≤ X := by
  have h1 : (t + 1) * b ≤ X / b * b := by
    apply Nat.mul_le_mul_right
    have : t * b < X / b * b := by omega
    exact Nat.lt_of_mul_lt_mul_right this
  have h2 : X / b * b ≤ X := Nat.div_mul_le_self _ _
  rw [Nat.add_mul] at h1; omega

/-- every load of the blocked nest (vector loads of the packing loop included) stays inside `a[0 .. M*N)` -/
theorem blockedReads_lt (M N V nR nC : Nat) (hV : 0 < V) (hR : 0 < nR) (hC : 0 < nC) :
    ∀ r ∈ blockedReads M N V nR nC, r < M * N := by
  have hib : 0 < V * nC := Nat.mul_pos hV hC
  have hob : 0 < V * nR := Nat.mul_pos hV hR
  have eM : forExit 0 (M / (V * nC) * (V * nC)) (V * nC) = M / (V * nC) * (V * nC) :=
    forExit_of_dvd hib (Nat.zero_le _) ⟨M / (V * nC), by simp [Nat.mul_comm]⟩
  have eN : forExit 0 (N / (V * nR) * (V * nR)) (V * nR) = N / (V * nR) * (V * nR) :=
    forExit_of_dvd hob (Nat.zero_le _) ⟨N / (V * nR), by simp [Nat.mul_comm]⟩
  intro r hr
  simp only [blockedReads, eM, eN, List.mem_append, List.mem_flatMap] at hr
  rcases hr with ⟨j, hj, hr | hr⟩ | hr
  · obtain ⟨i, hi, hr⟩ := hr
    obtain ⟨tj, rfl, hjlt⟩ := (mem_forRange hob).1 hj
    obtain ⟨ti, rfl, hilt⟩ := (mem_forRange hib).1 hi
    exact packReads_lt M N V nR (V * nC) _ _ (block_fits hilt) (block_fits hjlt) r hr
  · obtain ⟨tj, rfl, hjlt⟩ := (mem_forRange hob).1 hj
    simp only [colEdgeReads, List.mem_flatMap, List.mem_map, List.mem_range] at hr
    obtain ⟨i, hi, jj, hjj, rfl⟩ := hr
    obtain ⟨t, rfl, hilt⟩ := (mem_forRange (by omega : 0 < 1)).1 hi
    have := block_fits hjlt
    have : (M / (V * nC) * (V * nC) + t * 1) * N + (0 + tj * (V * nR) + jj) < M * N := digits_lt hilt (by omega)
    omega
  · simp only [rowEdgeReads, List.mem_flatMap, List.mem_map, List.mem_range] at hr
    obtain ⟨j, hj, i, hi, rfl⟩ := hr
    obtain ⟨t, rfl, hjlt⟩ := (mem_forRange (by omega : 0 < 1)).1 hj
    exact digits_lt hi hjlt

end Fastor.Transpose
