import Mathlib.Algebra.BigOperators.Group.Finset.Basic
import Mathlib.Algebra.Ring.Defs
import Mathlib.Tactic.Ring
import FastorModel.Model.Matmul
/-
  In a commutative semiring every accumulation order used by the matmul kernels computes the
  partial dot product `∑ k < kk, a (r*K+k) * b (k*N+c)`.
-/
namespace Fastor.Matmul
open Finset

variable {R : Type} [CommSemiring R]

/-- the specification: the `(r,c)` entry of the product of row-major `a (M×K)` and `b (K×N)` -/
def dotSpec (a b : Nat → R) (K N r c : Nat) : R := ∑ k ∈ range K, a (r * K + k) * b (k * N + c)

theorem dotFma_eq (a b : Nat → R) (K N r c kk : Nat) :
    dotFma a b K N r c kk = ∑ k ∈ range kk, a (r * K + k) * b (k * N + c) := by
  unfold dotFma
  induction kk with
  | zero => simp
  | succ n ih =>
    rw [List.range_succ, List.foldl_append, ih, Finset.sum_range_succ]
    simp [add_comm]

theorem dotAcc_eq (a b : Nat → R) (K N r c kk : Nat) :
    dotAcc a b K N r c kk = ∑ k ∈ range kk, a (r * K + k) * b (k * N + c) := by
  unfold dotAcc
  induction kk with
  | zero => simp
  | succ n ih =>
    rw [List.range_succ, List.foldl_append, ih, Finset.sum_range_succ]
    simp

theorem dotMulFirst_eq (a b : Nat → R) (K N r c kk : Nat) :
    dotMulFirst a b K N r c kk = ∑ k ∈ range kk, a (r * K + k) * b (k * N + c) := by
  cases kk with
  | zero => simp [dotMulFirst]
  | succ n =>
    simp only [dotMulFirst]
    rw [Finset.sum_range_succ']
    induction n with
    | zero => simp
    | succ m ih =>
      rw [List.range_succ, List.foldl_append, ih, Finset.sum_range_succ]
      simp only [List.foldl_cons, List.foldl_nil]
      ring

/-- a complete event of style ≤ 2 carries the specified entry -/
theorem val_final (a b : Nat → R) (K N : Nat) (e : St) (hk : e.kk = K) (hs : e.style ≤ 2) :
    val a b K N e = dotSpec a b K N e.r e.c := by
  unfold val dotSpec
  rcases e with ⟨r, c, kk, st, k0⟩
  simp only at hk hs ⊢
  subst hk
  match st, hs with
  | 0, _ => exact dotFma_eq ..
  | 1, _ => exact dotAcc_eq ..
  | 2, _ => exact dotMulFirst_eq ..

end Fastor.Matmul
