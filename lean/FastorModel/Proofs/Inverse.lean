import FastorModel.Model.Inverse
import Mathlib.Data.Matrix.Block
import Mathlib.LinearAlgebra.Matrix.NonsingularInverse
import Mathlib.Tactic.Ring
import Mathlib.Tactic.FieldSimp
import Mathlib.Tactic.FinCases
import Mathlib.Tactic.Abel
/-
  Helper lemmas for C10: the model's matrices as Mathlib matrices, the block (Schur complement) step,
  the closed forms.
-/
namespace Fastor.Inv
open Matrix

section Basic
variable {α : Type}

theorem memo_eq (n m : Nat) (f : Mat α) : memo n m f = f := by
  rcases f with ⟨g, ⟨⟩⟩
  unfold memo
  simp only
  congr 1
  funext i j
  split
  · rename_i h
    split
    · rename_i h2
      have hm : 0 < m := by omega
      have e1 : (i * m + j) / m = i := by
        rw [Nat.mul_comm, Nat.mul_add_div hm, Nat.div_eq_of_lt h.2]; simp
      have e2 : (i * m + j) % m = j := by
        rw [Nat.mul_comm, Nat.mul_add_mod, Nat.mod_eq_of_lt h.2]
      simp [Array.getElem_ofFn, e1, e2]
    · rfl
  · rfl

theorem memoV_eq (n : Nat) (f : Vec α) : memoV n f = f := by
  rcases f with ⟨g, ⟨⟩⟩
  unfold memoV
  simp only
  congr 1
  funext i
  split
  · simp [Array.getElem_ofFn]
  · rfl

end Basic

section Ring
variable {K : Type} [Field K]

/-- the leading `n × m` part of a model matrix as a Mathlib matrix -/
def toMat (n m : Nat) (A : Mat K) : Matrix (Fin n) (Fin m) K := Matrix.of fun i j => A i.val j.val

@[simp] theorem toMat_apply (n m : Nat) (A : Mat K) (i : Fin n) (j : Fin m) : toMat n m A i j = A i.val j.val := rfl

theorem foldl_add_eq_sum (f : Nat → K) (k : Nat) :
    (List.range k).foldl (fun acc l => acc + f l) 0 = ∑ l ∈ Finset.range k, f l := by
  induction k with
  | zero => simp
  | succ k ih => rw [List.range_succ, List.foldl_append, ih, Finset.sum_range_succ]; simp

theorem matmul_apply (k : Nat) (A B : Mat K) (i j : Nat) :
    (matmul k A B) i j = ∑ l ∈ Finset.range k, A i l * B l j := by
  show (List.range k).foldl (fun acc l => acc + A i l * B l j) 0 = _
  exact foldl_add_eq_sum (fun l => A i l * B l j) k

theorem toMat_matmul (n k m : Nat) (A B : Mat K) :
    toMat n m (matmul k A B) = toMat n k A * toMat k m B := by
  ext i j
  rw [toMat_apply, matmul_apply, Matrix.mul_apply, ← Fin.sum_univ_eq_sum_range (fun l => A i.val l * B l j.val)]
  rfl

theorem toMat_congr {n m : Nat} {A B : Mat K} (h : ∀ i < n, ∀ j < m, A i j = B i j) :
    toMat n m A = toMat n m B := by
  ext i j; exact h i.val i.isLt j.val j.isLt

theorem toMat_add' (n m : Nat) (A B : Mat K) :
    toMat n m { get := fun i j => A i j + B i j } = toMat n m A + toMat n m B := by ext i j; rfl
theorem toMat_sub' (n m : Nat) (A B : Mat K) :
    toMat n m { get := fun i j => A i j - B i j } = toMat n m A - toMat n m B := by ext i j; rfl
theorem toMat_neg' (n m : Nat) (A : Mat K) :
    toMat n m { get := fun i j => - A i j } = - toMat n m A := by ext i j; rfl
theorem toMat_zero' (n m : Nat) :
    toMat n m ({ get := fun _ _ => (0 : K) } : Mat K) = 0 := by ext i j; rfl

/-- the four fixed views of a `(N+R) × (N+R)` matrix -/
theorem toMat_blocks (N R : Nat) (A : Mat K) :
    toMat (N + R) (N + R) A =
      Matrix.reindex finSumFinEquiv finSumFinEquiv
        (Matrix.fromBlocks (toMat N N (blk A 0 0)) (toMat N R (blk A 0 N))
                           (toMat R N (blk A N 0)) (toMat R R (blk A N N))) := by
  ext i j
  obtain ⟨i', rfl⟩ := finSumFinEquiv.surjective i
  obtain ⟨j', rfl⟩ := finSumFinEquiv.surjective j
  simp only [Matrix.reindex_apply, Matrix.submatrix_apply, Equiv.symm_apply_apply]
  rcases i' with i' | i' <;> rcases j' with j' | j' <;>
    simp [blk, finSumFinEquiv_apply_left, finSumFinEquiv_apply_right]

/-- the four view assignments -/
theorem toMat_assemble (N R : Nat) (aa ab ba bb : Mat K) :
    toMat (N + R) (N + R) (assemble N aa ab ba bb) =
      Matrix.reindex finSumFinEquiv finSumFinEquiv
        (Matrix.fromBlocks (toMat N N aa) (toMat N R ab) (toMat R N ba) (toMat R R bb)) := by
  ext i j
  obtain ⟨i', rfl⟩ := finSumFinEquiv.surjective i
  obtain ⟨j', rfl⟩ := finSumFinEquiv.surjective j
  simp only [Matrix.reindex_apply, Matrix.submatrix_apply, Equiv.symm_apply_apply]
  rcases i' with i' | i' <;> rcases j' with j' | j' <;>
    simp [assemble, finSumFinEquiv_apply_left, finSumFinEquiv_apply_right]

theorem reindex_mul_eq_one {n r : Nat} (X A : Matrix (Fin n ⊕ Fin r) (Fin n ⊕ Fin r) K) (h : X * A = 1) :
    Matrix.reindex finSumFinEquiv finSumFinEquiv X * Matrix.reindex finSumFinEquiv finSumFinEquiv A = 1 := by
  simp only [Matrix.reindex_apply]
  rw [Matrix.submatrix_mul_equiv, h, Matrix.submatrix_one_equiv]

/-- the Schur-complement block inverse (left inverse), for arbitrary block sizes; the parenthesisation is the one
    of the code: `inva_b = inv_a*b`, `bb_c_inva = block_bb*(c*inv_a)` -/
theorem block_left_inv {n r : Nat}
    (a : Matrix (Fin n) (Fin n) K) (b : Matrix (Fin n) (Fin r) K) (c : Matrix (Fin r) (Fin n) K)
    (d : Matrix (Fin r) (Fin r) K) (ia : Matrix (Fin n) (Fin n) K) (is : Matrix (Fin r) (Fin r) K)
    (ha : ia * a = 1) (hs : is * (d - (c * ia) * b) = 1) :
    Matrix.fromBlocks (ia + (ia * b) * (is * (c * ia))) (-((ia * b) * is)) (-(is * (c * ia))) is
      * Matrix.fromBlocks a b c d = 1 := by
  have h2 : is * d = 1 + is * (c * (ia * b)) := by
    have := hs
    rw [Matrix.mul_sub, sub_eq_iff_eq_add] at this
    rw [this, Matrix.mul_assoc c ia b]
  rw [Matrix.fromBlocks_multiply, ← Matrix.fromBlocks_one]
  congr 1
  · simp only [Matrix.add_mul, Matrix.neg_mul, Matrix.mul_assoc, ha, Matrix.mul_one]
    abel
  · simp only [Matrix.add_mul, Matrix.neg_mul, Matrix.mul_assoc, h2, Matrix.mul_add, Matrix.mul_one]
    abel
  · simp only [Matrix.neg_mul, Matrix.mul_assoc, ha, Matrix.mul_one]
    abel
  · simp only [Matrix.neg_mul, Matrix.mul_assoc, h2]
    abel

/-- upper block-triangular inverse: `[[a,b],[0,d]]⁻¹ = [[a⁻¹, -a⁻¹(b d⁻¹)],[0,d⁻¹]]` -/
theorem block_upper_left_inv {n r : Nat}
    (a : Matrix (Fin n) (Fin n) K) (b : Matrix (Fin n) (Fin r) K)
    (d : Matrix (Fin r) (Fin r) K) (ia : Matrix (Fin n) (Fin n) K) (id' : Matrix (Fin r) (Fin r) K)
    (ha : ia * a = 1) (hd : id' * d = 1) :
    Matrix.fromBlocks ia (-(ia * (b * id'))) 0 id' * Matrix.fromBlocks a b 0 d = 1 := by
  rw [Matrix.fromBlocks_multiply, ← Matrix.fromBlocks_one]
  congr 1
  · simp [ha]
  · simp only [Matrix.neg_mul, Matrix.mul_assoc, hd, Matrix.mul_one]; abel
  · simp
  · simp [hd]

/-- lower block-triangular inverse: `[[a,0],[c,d]]⁻¹ = [[a⁻¹,0],[-d⁻¹(c a⁻¹), d⁻¹]]` -/
theorem block_lower_left_inv {n r : Nat}
    (a : Matrix (Fin n) (Fin n) K) (c : Matrix (Fin r) (Fin n) K)
    (d : Matrix (Fin r) (Fin r) K) (ia : Matrix (Fin n) (Fin n) K) (id' : Matrix (Fin r) (Fin r) K)
    (ha : ia * a = 1) (hd : id' * d = 1) :
    Matrix.fromBlocks ia 0 (-(id' * (c * ia))) id' * Matrix.fromBlocks a 0 c d = 1 := by
  rw [Matrix.fromBlocks_multiply, ← Matrix.fromBlocks_one]
  congr 1
  · simp [ha]
  · simp
  · simp only [Matrix.neg_mul, Matrix.mul_assoc, ha, Matrix.mul_one, hd]; abel
  · simp [hd]

end Ring
end Fastor.Inv
