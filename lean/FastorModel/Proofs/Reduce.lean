import FastorModel.Model.Reduce
import FastorModel.Props.C02
import Mathlib.Algebra.BigOperators.Group.Finset.Basic
import Mathlib.Algebra.BigOperators.Group.List.Basic
import Mathlib.Tactic.Ring
import Mathlib.Order.MinMax
import Mathlib.Algebra.BigOperators.Group.Finset.Piecewise
import Mathlib.Algebra.BigOperators.Group.Finset.Sigma

/-
  Lemmas for C16 (reductions): the positions visited by an unroll ladder are contiguous, admissible ladders
  stop at or before `n`, coverage (vector steps ++ tail = range n), the value of the machine in a commutative
  monoid, and the invariant calculus for min / max over a strict total order.
-/
namespace Fastor.Reduce
open Fastor Fastor.Expr

/-- element positions touched by a list of vector steps, in program order -/
def flat (V : Nat) (steps : List (Nat × Nat)) : List Nat :=
  steps.flatMap fun kp => (List.range V).map (kp.2 + ·)

theorem map_add_range (b m : Nat) : (List.range m).map (b + ·) = List.range' b m := by
  rw [List.range_eq_range', List.map_add_range']
  simp

theorem flat_block (V u b : Nat) :
    flat V ((List.range u).map fun k => (k, b + k * V)) = List.range' b (u * V) := by
  induction u with
  | zero => simp [flat]
  | succ u ih =>
    unfold flat at ih ⊢
    rw [List.range_succ, List.map_append, List.flatMap_append, ih]
    simp only [List.map_cons, List.map_nil, List.flatMap_cons, List.flatMap_nil, List.append_nil]
    rw [map_add_range, Nat.succ_mul]
    have := @List.range'_append b (u * V) V 1
    simp only [Nat.one_mul] at this
    rw [← this]


/-- the positions visited by one stage are the contiguous block `[i, exit)` -/
theorem flat_stage (n V u i : Nat) :
    flat V (stage n V u i).1 = List.range' i ((stage n V u i).2 - i) := by
  unfold stage forRange forExit
  simp only []
  generalize forCount i (roundDown n (u * V)) (u * V) = q
  have hq : ∀ q : Nat, i + q * (u * V) - i = q * (u * V) := by intro q; omega
  rw [hq]
  clear hq
  induction q with
  | zero => simp [flat]
  | succ q ih =>
    unfold flat at ih ⊢
    rw [List.range_succ, List.map_append, List.flatMap_append, List.flatMap_append, ih]
    simp only [List.map_cons, List.map_nil, List.flatMap_cons, List.flatMap_nil, List.append_nil]
    have hb := flat_block V u (i + q * (u * V))
    unfold flat at hb
    rw [hb, Nat.succ_mul]
    have := @List.range'_append i (q * (u * V)) (u * V) 1
    simp only [Nat.one_mul] at this
    rw [← this]

theorem stage_exit_ge (n V u i : Nat) : i ≤ (stage n V u i).2 := by
  unfold stage forExit; simp

theorem ladder_exit_ge (n V : Nat) (us : List Nat) (i : Nat) : i ≤ (ladder n V us i).2 := by
  induction us generalizing i with
  | nil => simp [ladder]
  | cons u us ih =>
    simp only [ladder]
    exact Nat.le_trans (stage_exit_ge n V u i) (ih _)

/-- the positions visited by the whole ladder are the contiguous block `[i, exit)` -/
theorem flat_ladder (n V : Nat) (us : List Nat) (i : Nat) :
    flat V (ladder n V us i).1 = List.range' i ((ladder n V us i).2 - i) := by
  induction us generalizing i with
  | nil => simp [ladder, flat]
  | cons u us ih =>
    simp only [ladder]
    have h1 := flat_stage n V u i
    have h2 := ih (stage n V u i).2
    unfold flat at h1 h2 ⊢
    rw [List.flatMap_append, h1, h2]
    have hge1 := stage_exit_ge n V u i
    have hge2 := ladder_exit_ge n V us (stage n V u i).2
    have := @List.range'_append i ((stage n V u i).2 - i) ((ladder n V us (stage n V u i).2).2 - (stage n V u i).2) 1
    simp only [Nat.one_mul] at this
    have e1 : i + ((stage n V u i).2 - i) = (stage n V u i).2 := by omega
    rw [e1] at this
    rw [this]
    congr 1
    omega

/-- hypotheses on the ladder that the code's ladders (1 / 4,2,1 / 8,4,2,1 with `V` a power of two) satisfy -/
structure GoodLadder (V : Nat) (us : List Nat) : Prop where
  pow2 : ∀ u ∈ us, ∃ e, e ≤ 64 ∧ u * V = 2 ^ e
  chain : us.Pairwise (fun a b => b ∣ a)

theorem stage_exit (n V u i : Nat) (hn : n < 2 ^ 64) (e : Nat) (he : e ≤ 64) (hs : u * V = 2 ^ e)
    (hi : i ≤ n) (hdiv : u * V ∣ i) :
    (stage n V u i).2 = max i (n / (u * V) * (u * V)) := by
  unfold stage
  simp only []
  rw [hs, C02.roundDown_pow2 n e hn he]
  rw [hs] at hdiv
  have hpos : 0 < 2 ^ e := Nat.pow_pos (by omega)
  by_cases hle : i ≤ n / 2 ^ e * 2 ^ e
  · rw [forExit_of_dvd hpos hle ((Nat.dvd_sub_iff_right hle (Nat.dvd_mul_left _ _)).2 hdiv)]
    omega
  · unfold forExit forCount
    have : n / 2 ^ e * 2 ^ e - i = 0 := by omega
    rw [this]
    have : (0 + (2 ^ e - 1)) / 2 ^ e = 0 := Nat.div_eq_of_lt (by omega)
    rw [this]; omega

theorem ladder_exit_le (n V : Nat) (us : List Nat) (hn : n < 2 ^ 64) (hg : GoodLadder V us) (i : Nat)
    (hi : i ≤ n) (hdiv : ∀ u ∈ us, u * V ∣ i) : (ladder n V us i).2 ≤ n := by
  induction us generalizing i with
  | nil => simpa [ladder]
  | cons u us ih =>
    simp only [ladder]
    obtain ⟨e, he, hs⟩ := hg.pow2 u (by simp)
    have hex := stage_exit n V u i hn e he hs hi (hdiv u (by simp))
    have hch := List.pairwise_cons.1 hg.chain
    apply ih ⟨fun u' hu' => hg.pow2 u' (by simp [hu']), hch.2⟩
    · rw [hex]; exact Nat.max_le.2 ⟨hi, Nat.div_mul_le_self _ _⟩
    · intro u' hu'
      rw [hex]
      have h1 : u' * V ∣ i := hdiv u' (by simp [hu'])
      have h2 : u' * V ∣ n / (u * V) * (u * V) :=
        Dvd.dvd.mul_left (Nat.mul_dvd_mul_right (hch.1 u' hu') V) _
      rcases Nat.le_total i (n / (u * V) * (u * V)) with h | h
      · rw [Nat.max_eq_right h]; exact h2
      · rw [Nat.max_eq_left h]; exact h1

theorem forRange_one (lo hi : Nat) : forRange lo hi 1 = List.range' lo (hi - lo) := by
  unfold forRange forCount
  simp only [Nat.sub_self, Nat.add_zero, Nat.div_one, Nat.mul_one]
  exact map_add_range lo (hi - lo)

/-- **coverage**: the vector steps followed by the scalar tail visit every position `0..n-1` exactly once,
    in increasing order — for every size, width and admissible ladder -/
theorem coverage (n V : Nat) (us : List Nat) (hn : n < 2 ^ 64) (hg : GoodLadder V us) :
    flat V (vecSteps n V us) ++ tailPos n V us = List.range n := by
  unfold vecSteps tailPos
  rw [flat_ladder, forRange_one]
  have hle := ladder_exit_le n V us hn hg 0 (Nat.zero_le _) (fun _ _ => Nat.dvd_zero _)
  have := @List.range'_append 0 ((ladder n V us 0).2 - 0) (n - (ladder n V us 0).2) 1
  simp only [Nat.one_mul, Nat.zero_add, Nat.sub_zero] at this
  rw [Nat.sub_zero, this, List.range_eq_range']
  congr 1; omega

theorem ladder_acc_lt (n V : Nat) (us : List Nat) (i : Nat) :
    ∀ kp ∈ (ladder n V us i).1, ∃ u ∈ us, kp.1 < u := by
  induction us generalizing i with
  | nil => simp [ladder]
  | cons u us ih =>
    intro kp hkp
    simp only [ladder, List.mem_append] at hkp
    rcases hkp with h | h
    · refine ⟨u, by simp, ?_⟩
      unfold stage at h
      simp only [List.mem_flatMap, List.mem_map, List.mem_range] at h
      obtain ⟨p, _, k, hk, rfl⟩ := h
      exact hk
    · obtain ⟨u', hu', hlt⟩ := ih _ kp h
      exact ⟨u', by simp [hu'], hlt⟩

section value
open Finset
variable {M : Type} [CommMonoid M]

theorem list_prod_map_range (f : Nat → M) (m : Nat) : ((List.range m).map f).prod = ∏ l ∈ range m, f l := by
  induction m with
  | zero => simp
  | succ m ih => rw [List.range_succ, List.map_append, List.prod_append, ih, Finset.prod_range_succ]; simp

theorem foldl_mul_range (f : Nat → M) (a0 : M) (m : Nat) :
    (List.range m).foldl (fun a k => a * f k) a0 = a0 * ∏ k ∈ range m, f k := by
  induction m with
  | zero => simp
  | succ m ih => rw [List.range_succ, List.foldl_append, ih, Finset.prod_range_succ]; simp [mul_assoc]

theorem foldl_mul_list (f : Nat → M) (a0 : M) (ps : List Nat) :
    ps.foldl (fun a i => a * f i) a0 = a0 * (ps.map f).prod := by
  induction ps generalizing a0 with
  | nil => simp
  | cons p ps ih => simp [ih, mul_assoc]

/-- the product of all lanes of all accumulators is the product of the terms at the visited positions -/
theorem runVec_total (term : Nat → M) (U V : Nat) (steps : List (Nat × Nat)) (hk : ∀ kp ∈ steps, kp.1 < U) :
    ∏ k ∈ range U, ∏ l ∈ range V, runVec (· * ·) term 1 steps k l = ((flat V steps).map term).prod := by
  induction steps using List.reverseRecOn with
  | nil => simp [runVec, flat]
  | append_singleton steps kp ih =>
    have ih := ih (fun kp' h => hk kp' (by simp [h]))
    have hkp : kp.1 < U := hk kp (by simp)
    unfold runVec at ih ⊢
    rw [List.foldl_append]
    simp only [List.foldl_cons, List.foldl_nil]
    unfold flat at ih ⊢
    rw [List.flatMap_append, List.map_append, List.prod_append, ← ih]
    simp only [List.flatMap_cons, List.flatMap_nil, List.append_nil, List.map_map]
    rw [list_prod_map_range]
    have hinner : ∀ k, ∏ l ∈ range V, (if k = kp.1 then
          (List.foldl (fun acc kp => fun k l => if k = kp.1 then acc k l * term (kp.2 + l) else acc k l) (fun _ _ => (1 : M)) steps) k l * term (kp.2 + l)
        else (List.foldl (fun acc kp => fun k l => if k = kp.1 then acc k l * term (kp.2 + l) else acc k l) (fun _ _ => (1 : M)) steps) k l)
        = (∏ l ∈ range V, (List.foldl (fun acc kp => fun k l => if k = kp.1 then acc k l * term (kp.2 + l) else acc k l) (fun _ _ => (1 : M)) steps) k l)
          * (if k = kp.1 then ∏ l ∈ range V, term (kp.2 + l) else 1) := by
      intro k
      by_cases h : k = kp.1
      · simp only [h, if_true]; rw [Finset.prod_mul_distrib]
      · simp only [h, if_false, mul_one]
    simp only [hinner]
    rw [Finset.prod_mul_distrib]
    congr 1
    rw [Finset.prod_ite_eq' (range U) kp.1 (fun _ => ∏ l ∈ range V, term (kp.2 + l))]
    simp [hkp]

theorem combine_eq (U V : Nat) (hU : 0 < U) (acc : Nat → Nat → M) (l : Nat) :
    combine (· * ·) U acc l = ∏ k ∈ range U, acc k l := by
  unfold combine
  rw [foldl_mul_range (fun k => acc (k + 1) l)]
  obtain ⟨U', rfl⟩ := Nat.exists_eq_succ_of_ne_zero (by omega : U ≠ 0)
  rw [Finset.prod_range_succ' (fun k => acc k l)]
  simp [mul_comm]

/-- **the reduction machine computes the product of all terms** (commutative monoid; every seed the identity) -/
theorem reduce_monoid (term : Nat → M) (U : Nat) (us : List Nat) (n V : Nat) (hn : n < 2 ^ 64)
    (hg : GoodLadder V us) (hU : ∀ u ∈ us, u ≤ U) (hU0 : 0 < U) :
    reduce ⟨(· * ·), 1, 1, 1, U, us⟩ term n V = ∏ i ∈ range n, term i := by
  unfold reduce
  simp only []
  unfold hfold runTail
  rw [foldl_mul_range, foldl_mul_list]
  simp only [one_mul]
  simp only [combine_eq U V hU0]
  rw [Finset.prod_comm, runVec_total term U V _ ?_, ← List.prod_append, ← List.map_append, coverage n V us hn hg,
    list_prod_map_range]
  -- accumulator indices stay below U
  intro kp hkp
  obtain ⟨u, hu, hlt⟩ := ladder_acc_lt n V us 0 kp hkp
  exact Nat.lt_of_lt_of_le hlt (hU u hu)
end value

/-- **reduce_correct**, stated for an arbitrary associative-commutative operation with identity `e`:
    the machine (any admissible ladder, any width, any size) returns the left fold over all `n` terms. -/
theorem reduce_op {α : Type} (op : α → α → α) (e : α) (hassoc : ∀ a b c, op (op a b) c = op a (op b c))
    (hcomm : ∀ a b, op a b = op b a) (hid : ∀ a, op e a = a)
    (term : Nat → α) (U : Nat) (us : List Nat) (n V : Nat) (hn : n < 2 ^ 64)
    (hg : GoodLadder V us) (hU : ∀ u ∈ us, u ≤ U) (hU0 : 0 < U) :
    reduce ⟨op, e, e, e, U, us⟩ term n V = (List.range n).foldl (fun acc i => op acc (term i)) e := by
  let inst : CommMonoid α :=
    { mul := op, one := e, mul_assoc := hassoc, mul_comm := hcomm, one_mul := hid,
      mul_one := fun a => by show op a e = a; rw [hcomm]; exact hid a }
  have h := reduce_monoid (M := α) term U us n V hn hg hU hU0
  have h2 : (List.range n).foldl (fun acc i => op acc (term i)) e = ∏ i ∈ Finset.range n, term i := by
    have := foldl_mul_range (M := α) term 1 n
    rw [one_mul] at this
    exact this
  rw [h2]
  exact h

theorem goodLadder_one (V : Nat) (ev : Nat) (hev : ev ≤ 64) (hV : V = 2 ^ ev) : GoodLadder V [1] :=
  ⟨by intro u hu; simp at hu; subst hu; exact ⟨ev, hev, by simp [hV]⟩, by simp⟩

theorem goodLadder_421 (V : Nat) (ev : Nat) (hev : ev ≤ 60) (hV : V = 2 ^ ev) : GoodLadder V [4, 2, 1] := by
  refine ⟨?_, by simp⟩
  intro u hu
  simp at hu
  rcases hu with rfl | rfl | rfl
  · exact ⟨ev + 2, by omega, by rw [hV, pow_add]; ring⟩
  · exact ⟨ev + 1, by omega, by rw [hV, pow_add]; ring⟩
  · exact ⟨ev, by omega, by simp [hV]⟩

theorem goodLadder_8421 (V : Nat) (ev : Nat) (hev : ev ≤ 60) (hV : V = 2 ^ ev) : GoodLadder V [8, 4, 2, 1] := by
  refine ⟨?_, by simp⟩
  intro u hu
  simp at hu
  rcases hu with rfl | rfl | rfl | rfl
  · exact ⟨ev + 3, by omega, by rw [hV, pow_add]; ring⟩
  · exact ⟨ev + 2, by omega, by rw [hV, pow_add]; ring⟩
  · exact ⟨ev + 1, by omega, by rw [hV, pow_add]; ring⟩
  · exact ⟨ev, by omega, by simp [hV]⟩

/-! ### min / max -/
section minmax
variable {α : Type}

/-- `better` is a strict total order (`<` for min, `>` for max) -/
structure StrictTotal (better : α → α → Bool) : Prop where
  irrefl : ∀ a, better a a = false
  trans : ∀ a b c, better a b = true → better b c = true → better a c = true
  tri : ∀ a b, better a b = true ∨ a = b ∨ better b a = true

/-- `v` is the seed or one of the elements at the positions `P`, and no element at `P` is better than `v` -/
def Inv (better : α → α → Bool) (seed : α) (x : Nat → α) (v : α) (P : Nat → Prop) : Prop :=
  (v = seed ∨ ∃ i, P i ∧ v = x i) ∧ ∀ i, P i → better (x i) v = false

def pick (better : α → α → Bool) (a b : α) : α := if better b a then b else a

theorem inv_pick {better : α → α → Bool} (hb : StrictTotal better) {seed : α} {x : Nat → α} {a b : α} {P Q : Nat → Prop}
    (ha : Inv better seed x a P) (hq : Inv better seed x b Q) :
    Inv better seed x (pick better a b) (fun i => P i ∨ Q i) := by
  unfold pick
  by_cases h : better b a = true
  · simp only [h, if_true]
    refine ⟨?_, ?_⟩
    · rcases hq.1 with h1 | ⟨i, hi, h1⟩
      · exact Or.inl h1
      · exact Or.inr ⟨i, Or.inr hi, h1⟩
    · intro i hi
      rcases hi with hi | hi
      · by_contra hc
        have hc : better (x i) b = true := by simpa using hc
        have := hb.trans _ _ _ hc h
        rw [ha.2 i hi] at this; exact Bool.false_ne_true this
      · exact hq.2 i hi
  · have h' : better b a = false := by simpa using h
    simp only [h', Bool.false_eq_true, if_false]
    refine ⟨?_, ?_⟩
    · rcases ha.1 with h1 | ⟨i, hi, h1⟩
      · exact Or.inl h1
      · exact Or.inr ⟨i, Or.inl hi, h1⟩
    · intro i hi
      rcases hi with hi | hi
      · exact ha.2 i hi
      · by_contra hc
        have hc : better (x i) a = true := by simpa using hc
        rcases hb.tri a b with t | t | t
        · have := hb.trans _ _ _ hc t
          rw [hq.2 i hi] at this; exact Bool.false_ne_true this
        · subst t; rw [hq.2 i hi] at hc; exact Bool.false_ne_true hc
        · rw [h'] at t; exact Bool.false_ne_true t

theorem inv_elem {better : α → α → Bool} (hb : StrictTotal better) (seed : α) (x : Nat → α) (i : Nat) :
    Inv better seed x (x i) (fun j => j = i) :=
  ⟨Or.inr ⟨i, rfl, rfl⟩, by intro j hj; subst hj; exact hb.irrefl _⟩

theorem inv_seed {better : α → α → Bool} (seed : α) (x : Nat → α) :
    Inv better seed x seed (fun _ => False) := ⟨Or.inl rfl, by intro i hi; exact hi.elim⟩

theorem inv_congr {better : α → α → Bool} {seed : α} {x : Nat → α} {v : α} {P Q : Nat → Prop}
    (h : Inv better seed x v P) (hPQ : ∀ i, P i ↔ Q i) : Inv better seed x v Q := by
  have : P = Q := funext fun i => propext (hPQ i)
  rw [← this]; exact h

/-- tail loop -/
theorem inv_runTail {better : α → α → Bool} (hb : StrictTotal better) (seed : α) (x : Nat → α) (ps : List Nat) :
    Inv better seed x (runTail (fun s t => pick better t s) x seed ps) (fun i => i ∈ ps) := by
  unfold runTail
  induction ps using List.reverseRecOn with
  | nil => exact inv_congr (inv_seed seed x) (by simp)
  | append_singleton ps p ih =>
    rw [List.foldl_append]
    simp only [List.foldl_cons, List.foldl_nil]
    exact inv_congr (inv_pick hb (inv_elem hb seed x p) ih) (by intro i; simp [or_comm])

/-- vector loop (single accumulator): lane `l` has seen the positions `p + l` of the steps so far -/
theorem inv_runVec {better : α → α → Bool} (hb : StrictTotal better) (seed : α) (x : Nat → α)
    (steps : List (Nat × Nat)) (hk : ∀ kp ∈ steps, kp.1 = 0) (l : Nat) :
    Inv better seed x (runVec (fun a t => pick better t a) x seed steps 0 l) (fun i => ∃ kp ∈ steps, i = kp.2 + l) := by
  unfold runVec
  induction steps using List.reverseRecOn with
  | nil => exact inv_congr (inv_seed seed x) (by simp)
  | append_singleton steps kp ih =>
    have ih := ih (fun kp' h => hk kp' (by simp [h]))
    have hkp : kp.1 = 0 := hk kp (by simp)
    rw [List.foldl_append]
    simp only [List.foldl_cons, List.foldl_nil, hkp, if_true]
    refine inv_congr (inv_pick hb (inv_elem hb seed x (kp.2 + l)) ih) ?_
    intro i
    simp only [List.mem_append, List.mem_singleton]
    constructor
    · rintro (h | ⟨kp', h1, h2⟩)
      · exact ⟨kp, Or.inr rfl, h⟩
      · exact ⟨kp', Or.inl h1, h2⟩
    · rintro ⟨kp', h1 | h1, h2⟩
      · exact Or.inr ⟨kp', h1, h2⟩
      · subst h1; exact Or.inl h2

/-- horizontal minimum()/maximum() over the lanes -/
theorem inv_hpick {better : α → α → Bool} (hb : StrictTotal better) (seed : α) (x : Nat → α) (V : Nat)
    (v : Nat → α) (P : Nat → Nat → Prop) (hv : ∀ l, Inv better seed x (v l) (P l)) :
    Inv better seed x (hpick better V v) (fun i => P 0 i ∨ ∃ l < V, P l i) := by
  unfold hpick
  induction V with
  | zero => exact inv_congr (hv 0) (by simp)
  | succ V ih =>
    rw [List.range_succ, List.foldl_append]
    simp only [List.foldl_cons, List.foldl_nil]
    have := inv_pick hb ih (hv V)
    unfold pick at this
    refine inv_congr this ?_
    intro i
    constructor
    · rintro ((h | ⟨l, hl, h⟩) | h)
      · exact Or.inl h
      · exact Or.inr ⟨l, by omega, h⟩
      · exact Or.inr ⟨V, by omega, h⟩
    · rintro (h | ⟨l, hl, h⟩)
      · exact Or.inl (Or.inl h)
      · by_cases hlV : l = V
        · subst hlV; exact Or.inr h
        · exact Or.inl (Or.inr ⟨l, by omega, h⟩)

theorem mem_flat (V : Nat) (steps : List (Nat × Nat)) (i : Nat) :
    i ∈ flat V steps ↔ ∃ kp ∈ steps, ∃ l < V, i = kp.2 + l := by
  unfold flat
  simp only [List.mem_flatMap, List.mem_map, List.mem_range]
  constructor
  · rintro ⟨kp, h1, l, hl, rfl⟩; exact ⟨kp, h1, l, hl, rfl⟩
  · rintro ⟨kp, h1, l, hl, rfl⟩; exact ⟨kp, h1, l, hl, rfl⟩

/-- **min/max return an element of the input that no element beats** — every size `n > 0`, every width `V = 2^ev`,
    every sign pattern; hypothesis on the seed: it does not beat any element (for `min`: `x i ≤ seed`). -/
theorem minmax_correct {better : α → α → Bool} (hb : StrictTotal better) (seed : α) (x : Nat → α) (n V ev : Nat)
    (hn : n < 2 ^ 64) (hev : ev ≤ 64) (hV : V = 2 ^ ev) (hpos : 0 < n)
    (hseed : ∀ i < n, better seed (x i) = false) :
    (∃ i < n, minmax better seed x n V = x i) ∧ ∀ i < n, better (x i) (minmax better seed x n V) = false := by
  have hVpos : 0 < V := by rw [hV]; exact Nat.pow_pos (by omega)
  have hg := goodLadder_one V ev hev hV
  have hcov := coverage n V [1] hn hg
  have hk0 : ∀ kp ∈ vecSteps n V [1], kp.1 = 0 := by
    intro kp hkp
    obtain ⟨u, hu, hlt⟩ := ladder_acc_lt n V [1] 0 kp hkp
    simp at hu; subst hu; omega
  have hvec := inv_hpick hb seed x V (runVec (fun a t => pick better t a) x seed (vecSteps n V [1]) 0)
    (fun l i => ∃ kp ∈ vecSteps n V [1], i = kp.2 + l) (inv_runVec hb seed x _ hk0)
  have htl := inv_runTail hb seed x (tailPos n V [1])
  have hfin := inv_pick hb hvec htl
  have hres : minmax better seed x n V = pick better (hpick better V (runVec (fun a t => pick better t a) x seed (vecSteps n V [1]) 0))
      (runTail (fun s t => pick better t s) x seed (tailPos n V [1])) := rfl
  rw [hres]
  have hall : ∀ i, i < n ↔ ((∃ kp ∈ vecSteps n V [1], i = kp.2 + 0) ∨ ∃ l < V, ∃ kp ∈ vecSteps n V [1], i = kp.2 + l) ∨ i ∈ tailPos n V [1] := by
    intro i
    have : i < n ↔ i ∈ flat V (vecSteps n V [1]) ++ tailPos n V [1] := by rw [hcov]; simp
    rw [this, List.mem_append, mem_flat]
    constructor
    · rintro (⟨kp, h1, l, hl, h2⟩ | h)
      · exact Or.inl (Or.inr ⟨l, hl, kp, h1, h2⟩)
      · exact Or.inr h
    · rintro ((⟨kp, h1, h2⟩ | ⟨l, hl, kp, h1, h2⟩) | h)
      · exact Or.inl ⟨kp, h1, 0, hVpos, h2⟩
      · exact Or.inl ⟨kp, h1, l, hl, h2⟩
      · exact Or.inr h
  have hfin' := inv_congr hfin (fun i => (hall i).symm)
  refine ⟨?_, fun i hi => hfin'.2 i hi⟩
  rcases hfin'.1 with h | ⟨i, hi, h⟩
  · -- the result is the seed: then element 0 equals the seed
    refine ⟨0, hpos, ?_⟩
    have h1 := hfin'.2 0 hpos
    rw [h] at h1 ⊢
    have h2 := hseed 0 hpos
    rcases hb.tri seed (x 0) with t | t | t
    · rw [h2] at t; exact absurd t Bool.false_ne_true
    · exact t
    · rw [h1] at t; exact absurd t Bool.false_ne_true
  · exact ⟨i, hi, h⟩
end minmax

/-! ### helper lemmas of Props/C16.lean -/
variable {A : Type} [AddCommMonoid A] in
theorem foldl_add_eq_sum (term : Nat → A) (n : Nat) :
    (List.range n).foldl (fun acc i => acc + term i) 0 = ∑ i ∈ Finset.range n, term i := by
  induction n with
  | zero => simp
  | succ n ih => rw [List.range_succ, List.foldl_append, ih, Finset.sum_range_succ]; simp

variable {M : Type} [CommMonoid M] in
theorem foldl_mul_eq_prod (term : Nat → M) (n : Nat) :
    (List.range n).foldl (fun acc i => acc * term i) 1 = ∏ i ∈ Finset.range n, term i := by
  rw [foldl_mul_range]; simp

/-- inner loop of `issymmetric`: state (issym, broken) -/
theorem isSym_inner (viol : Nat → Bool) (s : Bool) (m : Nat) :
    (List.range m).foldl (fun (st : Bool × Bool) j => if st.2 then st else if viol j then (false, true) else st) (s, false)
      = (s && decide (∀ j < m, viol j = false), decide (∃ j < m, viol j = true)) := by
  induction m with
  | zero => simp
  | succ m ih =>
    rw [List.range_succ, List.foldl_append, ih]
    simp only [List.foldl_cons, List.foldl_nil]
    by_cases h : ∃ j < m, viol j = true
    · obtain ⟨j, hj, hv⟩ := h
      have h1 : (∃ j < m, viol j = true) := ⟨j, hj, hv⟩
      have h2 : (∃ j < m + 1, viol j = true) := ⟨j, by omega, hv⟩
      have h3 : ¬ ∀ j < m, viol j = false := fun hh => by rw [hh j hj] at hv; exact Bool.false_ne_true hv
      have h4 : ¬ ∀ j < m + 1, viol j = false := fun hh => by rw [hh j (by omega)] at hv; exact Bool.false_ne_true hv
      simp only [decide_eq_true h1, decide_eq_true h2, decide_eq_false h3, decide_eq_false h4]
      simp
    · have h3 : ∀ j < m, viol j = false := by
        intro j hj
        cases hv : viol j
        · rfl
        · exact absurd ⟨j, hj, hv⟩ h
      cases hm : viol m
      · have h2 : ¬ ∃ j < m + 1, viol j = true := by
          rintro ⟨j, hj, hv⟩
          by_cases hjm : j = m
          · subst hjm; rw [hm] at hv; exact Bool.false_ne_true hv
          · exact h ⟨j, by omega, hv⟩
        have h4 : ∀ j < m + 1, viol j = false := by
          intro j hj
          by_cases hjm : j = m
          · subst hjm; exact hm
          · exact h3 j (by omega)
        simp only [decide_eq_false h, decide_eq_false h2, decide_eq_true h3, decide_eq_true h4]
        simp
      · have h2 : ∃ j < m + 1, viol j = true := ⟨m, by omega, hm⟩
        have h4 : ¬ ∀ j < m + 1, viol j = false := fun hh => by rw [hh m (by omega)] at hm; exact Bool.false_ne_true hm
        simp only [decide_eq_false h, decide_eq_true h2, decide_eq_true h3, decide_eq_false h4]
        simp

section ite
variable {α : Type} [LinearOrder α]
theorem ite_lt_min (a q : α) : (if decide (a < q) = true then a else q) = min a q := by
  by_cases h : a < q
  · simp [h, min_eq_left (le_of_lt h)]
  · simp [h, min_eq_right (not_lt.1 h)]
theorem ite_gt_max (a q : α) : (if decide (q < a) = true then a else q) = max a q := by
  by_cases h : q < a
  · simp [h, max_eq_left (le_of_lt h)]
  · simp [h, max_eq_right (not_lt.1 h)]
end ite

end Fastor.Reduce
