import Mathlib.Algebra.BigOperators.Intervals
import Mathlib.Algebra.Ring.Defs
import Mathlib.Tactic.Ring
import FastorModel.Proofs.TmatmulFills
/-
  For operands that vanish outside their tagged triangle, the clipped accumulation of a
  `TComplete` event equals the full dot product.
-/
namespace Fastor.Tmatmul
open Finset

variable {R : Type} [CommSemiring R]

theorem fold_range'_fma (f : Nat → R) (k0 n : Nat) :
    (List.range' k0 n).foldl (fun acc k => f k + acc) 0 = ∑ k ∈ Ico k0 (k0 + n), f k := by
  induction n with
  | zero => simp
  | succ m ih =>
    rw [List.range'_concat, List.foldl_append, ih]
    simp only [List.foldl_cons, List.foldl_nil, Nat.one_mul]
    rw [← Nat.add_assoc, Finset.sum_Ico_succ_top (by omega)]
    ring

theorem fold_range'_acc (f : Nat → R) (k0 n : Nat) :
    (List.range' k0 n).foldl (fun acc k => acc + f k) 0 = ∑ k ∈ Ico k0 (k0 + n), f k := by
  induction n with
  | zero => simp
  | succ m ih =>
    rw [List.range'_concat, List.foldl_append, ih]
    simp only [List.foldl_cons, List.foldl_nil, Nat.one_mul]
    rw [← Nat.add_assoc, Finset.sum_Ico_succ_top (by omega)]

/-- `a` vanishes outside the `lt` triangle, `b` outside the `rt` triangle -/
def TriA (lt : UpLo) (K : Nat) (a : Nat → R) : Prop := ∀ r k, k < K → lzero lt r k → a (r * K + k) = 0
def TriB (rt : UpLo) (N : Nat) (b : Nat → R) : Prop := ∀ k c, c < N → rzero rt k c → b (k * N + c) = 0

theorem sum_clip (f : Nat → R) (K k0 kk : Nat) (hkk : kk ≤ K)
    (hz : ∀ k, k < K → (k < k0 ∨ kk ≤ k) → f k = 0) :
    ∑ k ∈ Ico k0 (k0 + (kk - k0)), f k = ∑ k ∈ range K, f k := by
  apply Finset.sum_subset
  · intro k hk
    simp only [mem_Ico, mem_range] at hk ⊢
    omega
  · intro k hk hnk
    simp only [mem_Ico, mem_range] at hk hnk
    exact hz k hk (by omega)

theorem tval_final (lt rt : UpLo) (a b : Nat → R) (K N : Nat) (ha : TriA lt K a) (hb : TriB rt N b)
    (e : St) (hc : e.c < N) (h : TComplete lt rt K e) :
    tval a b K N e = ∑ k ∈ range K, a (e.r * K + k) * b (k * N + e.c) := by
  obtain ⟨hkk, hz⟩ := h
  have hzero : ∀ k, k < K → (k < e.k0 ∨ e.kk ≤ k) → a (e.r * K + k) * b (k * N + e.c) = 0 := by
    intro k hk hout
    rcases hz k hk hout with h1 | h1
    · rw [ha _ _ hk h1]; simp
    · rw [hb _ _ hc h1]; simp
  unfold tval
  split
  · unfold dotFmaR
    rw [fold_range'_fma (fun k => a (e.r * K + k) * b (k * N + e.c))]
    exact sum_clip _ K e.k0 e.kk hkk hzero
  · unfold dotAccR
    rw [fold_range'_acc (fun k => a (e.r * K + k) * b (k * N + e.c))]
    exact sum_clip _ K e.k0 e.kk hkk hzero

end Fastor.Tmatmul
