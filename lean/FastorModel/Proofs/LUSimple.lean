import FastorModel.Proofs.LULoops
/-
  `lu_simple_dispatcher` for M > 8 (the Doolittle loop nest): for every n the loops establish Doolittle's equations.
-/
namespace Fastor.LU
open Finset

variable {K : Type} [Field K]

def simpleState (n : Nat) (A : Mat K) (j : Nat) : Mat K × Mat K :=
  (List.range j).foldl (luSimpleCol n A) (Mat.zero n n, Mat.zero n n)

/-- the strategy is defined on A: every `U(j,j)` the loop nest divides by (all n of them) is non-zero -/
def SimpleDefined (n : Nat) (A : Mat K) : Prop := ∀ j, j < n → (simpleState n A (j + 1)).2.get j j ≠ 0

structure SimpleInv (n j : Nat) (A L U : Mat K) : Prop where
  hasL : ∀ i c, L.has i c ↔ i < n ∧ c < n
  hasU : ∀ i c, U.has i c ↔ i < n ∧ c < n
  zeroL : ∀ i c, j ≤ c → L.get i c = 0
  zeroU : ∀ i c, j ≤ c → U.get i c = 0
  ueq : ∀ i c, c < j → i ≤ c → U.get i c = A.get i c - ∑ k ∈ range i, L.get i k * U.get k c
  uzero : ∀ i c, c < j → c < i → U.get i c = 0
  leq : ∀ i c, c < j → c ≤ i → i < n → L.get i c = (A.get i c - ∑ k ∈ range c, L.get i k * U.get k c) / U.get c c
  lzero : ∀ i c, c < j → i < c → L.get i c = 0
  piv : ∀ c, c < j → U.get c c ≠ 0

theorem simpleInv_init (n : Nat) (A : Mat K) : SimpleInv n 0 A (Mat.zero n n) (Mat.zero n n) := by
  refine ⟨fun i c => by simp [Mat.zero, Mat.has_ofFn], fun i c => by simp [Mat.zero, Mat.has_ofFn],
    fun i c _ => by simp [Mat.zero, Mat.get_ofFn], fun i c _ => by simp [Mat.zero, Mat.get_ofFn], ?_, ?_, ?_, ?_, ?_⟩ <;> intros <;> omega

theorem simpleCol_inv (n j : Nat) (A L U : Mat K) (h : SimpleInv n j A L U) (hj : j < n)
    (hp : (luSimpleCol n A (L, U) j).2.get j j ≠ 0) :
    SimpleInv n (j + 1) A (luSimpleCol n A (L, U) j).1 (luSimpleCol n A (L, U) j).2 := by
  obtain ⟨hasL, hasU, zeroL, zeroU, ueq, uzero, leq, lzero, piv⟩ := h
  -- the three stages of one column
  obtain ⟨L1, hL1⟩ : ∃ M, M = L.set j j 1 := ⟨_, rfl⟩
  obtain ⟨U', hU'⟩ : ∃ M, M = (List.range (j + 1)).foldl (fun (U : Mat K) i =>
      U.set i j (subLoop i (fun k => L1.get i k * U.get k j) (A.get i j))) U := ⟨_, rfl⟩
  obtain ⟨L', hL'⟩ : ∃ M, M = (List.range' j (n - j)).foldl (fun (L : Mat K) i =>
      L.set i j (subLoop j (fun k => L.get i k * U'.get k j) (A.get i j) / U'.get j j)) L1 := ⟨_, rfl⟩
  have e : luSimpleCol n A (L, U) j = (L', U') := by rw [hL', hU', hL1]; rfl
  rw [e] at hp ⊢
  simp only at hp ⊢
  have hasL1 : ∀ i c, L1.has i c ↔ i < n ∧ c < n := fun i c => by rw [hL1, Mat.has_set]; exact hasL i c
  have getL1 : ∀ i c, c ≠ j → L1.get i c = L.get i c := fun i c hc => by
    rw [hL1, Mat.get_set, if_neg (fun h => hc h.2.1)]
  -- U column
  obtain ⟨u1, u2, u3⟩ := foldl_set_col_seq j (fun i => A.get i j) (fun i k => L1.get i k) U (j + 1)
    (fun t ht => (hasU t j).2 ⟨by omega, hj⟩)
  rw [← hU'] at u1 u2 u3
  -- L column
  obtain ⟨l1, l2⟩ := foldl_set_col j (fun (M : Mat K) i => subLoop j (fun k => M.get i k * U'.get k j) (A.get i j) / U'.get j j)
    (by
      intro M M' t hMM
      simp only [subLoop_eq]
      congr 2
      apply sum_congr rfl; intro k hk
      rw [hMM t k (by have := mem_range.1 hk; omega)])
    (n - j) j L1 (fun t _ ht2 => (hasL1 t j).2 ⟨by omega, hj⟩)
  rw [← hL'] at l1 l2
  have getL' : ∀ i c, c ≠ j → L'.get i c = L.get i c := fun i c hc => by
    rw [l2 i c, if_neg (fun h => hc h.1), getL1 i c hc]
  have getU' : ∀ i c, c ≠ j → U'.get i c = U.get i c := fun i c hc => u2 i c (Or.inl hc)
  refine ⟨fun i c => by rw [l1]; exact hasL1 i c, fun i c => by rw [u1]; exact hasU i c, ?_, ?_, ?_, ?_, ?_, ?_, ?_⟩
  · intro i c hc; rw [getL' i c (by omega)]; exact zeroL i c (by omega)
  · intro i c hc; rw [getU' i c (by omega)]; exact zeroU i c (by omega)
  · intro i c hc hic
    by_cases hcj : c = j
    · subst hcj
      rw [u3 i (by omega)]
      congr 1
      apply sum_congr rfl; intro k hk
      have hk' := mem_range.1 hk
      rw [getL' i k (by omega), getL1 i k (by omega)]
    · rw [getU' i c hcj, ueq i c (by omega) hic]
      congr 1
      apply sum_congr rfl; intro k hk
      have hk' := mem_range.1 hk
      rw [getL' i k (by omega), getU' k c hcj]
  · intro i c hc hci
    by_cases hcj : c = j
    · subst hcj; rw [u2 i c (Or.inr (by omega))]; exact zeroU i c (Nat.le_refl _)
    · rw [getU' i c hcj]; exact uzero i c (by omega) hci
  · intro i c hc hci hi
    by_cases hcj : c = j
    · subst hcj
      rw [l2 i c, if_pos ⟨rfl, hci, by omega⟩]
      simp only [subLoop_eq]
      congr 2
      apply sum_congr rfl; intro k hk
      have hk' := mem_range.1 hk
      rw [getL' i k (by omega), getL1 i k (by omega)]
    · rw [getL' i c hcj, getU' c c hcj, leq i c (by omega) hci hi]
      congr 2
      apply sum_congr rfl; intro k hk
      have hk' := mem_range.1 hk
      rw [getL' i k (by omega), getU' k c hcj]
  · intro i c hc hic
    by_cases hcj : c = j
    · subst hcj
      rw [l2 i c, if_neg (fun h => by omega), hL1, Mat.get_set, if_neg (fun h => by omega)]
      exact zeroL i c (Nat.le_refl _)
    · rw [getL' i c hcj]; exact lzero i c (by omega) hic
  · intro c hc
    by_cases hcj : c = j
    · subst hcj; exact hp
    · rw [getU' c c hcj]; exact piv c (by omega)

theorem simpleState_succ (n : Nat) (A : Mat K) (j : Nat) :
    simpleState n A (j + 1) = luSimpleCol n A (simpleState n A j) j := by
  simp [simpleState, List.range_succ, List.foldl_append]

theorem simpleState_inv (n : Nat) (A : Mat K) (hdef : SimpleDefined n A) :
    ∀ j, j ≤ n → SimpleInv n j A (simpleState n A j).1 (simpleState n A j).2 := by
  intro j
  induction j with
  | zero => intro _; exact simpleInv_init n A
  | succ j ih =>
    intro hj
    have hd := hdef j (by omega)
    rw [simpleState_succ] at hd ⊢
    exact simpleCol_inv n j A _ _ (ih (by omega)) (by omega) hd

/-- `lu_simple_dispatcher`, M > 8 (the loops are correct for every n) -/
theorem luSimpleLoops_isLU (n : Nat) (A : Mat K) (hdef : SimpleDefined n A) :
    IsLU n A (luSimpleLoops n A).1 (luSimpleLoops n A).2 := by
  have h := simpleState_inv n A hdef n (Nat.le_refl _)
  have e : luSimpleLoops n A = simpleState n A n := rfl
  rw [e]
  apply doolittle_equations_isLU n A _ _
  · intro i hi
    rw [h.leq i i hi (Nat.le_refl _) hi, ← h.ueq i i hi (Nat.le_refl _)]
    exact div_self (h.piv i hi)
  · intro i j _ hj hij; exact h.lzero i j hj hij
  · intro i j _ hj hji; exact h.uzero i j hj hji
  · intro i j _ hj hij; exact h.ueq i j hj hij
  · intro i j hi hj hji; exact h.leq i j hj (by omega) hi
  · intro j hj; exact h.piv j (by omega)

end Fastor.LU
