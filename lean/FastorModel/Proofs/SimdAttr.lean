import Lean
/-! simp set `simd`: the definitions of Model/SimdIntrinsics.lean, unfolded by the lane proofs of C08 -/
register_simp_attr simd
