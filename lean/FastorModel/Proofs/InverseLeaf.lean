import FastorModel.Proofs.Inverse
import Mathlib.Tactic.LinearCombination
import Mathlib.Tactic.IntervalCases
/- closed forms `_inverse<T,1..4>` and `_lowunitri_inverse<T,1..4>`: left inverses -/
namespace Fastor.Inv
open Matrix
variable {K : Type} [Field K]

theorem flat_entry (n : Nat) (A : Mat K) (l j : Nat) (hj : j < n) : flat n A (l * n + j) = A l j := by
  have hn : 0 < n := by omega
  have e1 : (l * n + j) / n = l := by
    rw [Nat.mul_comm, Nat.mul_add_div hn, Nat.div_eq_of_lt hj]; simp
  have e2 : (l * n + j) % n = j := by
    rw [Nat.mul_comm, Nat.mul_add_mod, Nat.mod_eq_of_lt hj]
  simp [flat, e1, e2]

/-- from an identity on the flat data to the matrix statement -/
theorem leaf_of_flat (n : Nat) (A : Mat K) (g : (Nat → K) → Nat → K)
    (H : ∀ i < n, ∀ j < n,
      ∑ l ∈ Finset.range n, g (flat n A) (i * n + l) * (flat n A) (l * n + j) = if i = j then 1 else 0) :
    toMat n n (unflat n (g (flat n A))) * toMat n n A = 1 := by
  ext i j
  rw [Matrix.mul_apply, Matrix.one_apply]
  have h := H i.val i.isLt j.val j.isLt
  rw [← Fin.sum_univ_eq_sum_range (fun l => g (flat n A) (i.val * n + l) * (flat n A) (l * n + j.val))] at h
  have e : (∑ l : Fin n, toMat n n (unflat n (g (flat n A))) i l * toMat n n A l j)
      = ∑ l : Fin n, g (flat n A) (i.val * n + l.val) * (flat n A) (l.val * n + j.val) := by
    apply Finset.sum_congr rfl
    intro l _
    rw [flat_entry n A l.val j.val j.isLt]
    rfl
  rw [e, h]
  simp [Fin.ext_iff]

theorem inv1_flat (s : Nat → K) (h : leafDet 1 s ≠ 0) : ∀ i < 1, ∀ j < 1,
    ∑ l ∈ Finset.range 1, inv1 s (i * 1 + l) * s (l * 1 + j) = if i = j then 1 else 0 := by
  have hr := mul_inv_cancel₀ h
  intro i hi j hj
  interval_cases i; interval_cases j
  simp only [Finset.sum_range_succ, Finset.sum_range_zero, inv1, leafDet] at hr ⊢
  simp only [Nat.reduceMul, Nat.reduceAdd, if_true, zero_add]
  linear_combination hr

theorem inv2_flat (s : Nat → K) (h : leafDet 2 s ≠ 0) : ∀ i < 2, ∀ j < 2,
    ∑ l ∈ Finset.range 2, inv2 s (i * 2 + l) * s (l * 2 + j) = if i = j then 1 else 0 := by
  have hr := mul_inv_cancel₀ h
  intro i hi j hj
  interval_cases i <;> interval_cases j <;>
    simp only [Finset.sum_range_succ, Finset.sum_range_zero, inv2, leafDet, Nat.reduceMul, Nat.reduceAdd, zero_add] at hr ⊢ <;>
    simp only [if_true, OfNat.ofNat_ne_zero, OfNat.zero_ne_ofNat, OfNat.ofNat_ne_one, OfNat.one_ne_ofNat, zero_ne_one, one_ne_zero, if_false, Nat.reduceEqDiff] <;>
    first | linear_combination hr | ring


theorem inv3_flat (s : Nat → K) (h : leafDet 3 s ≠ 0) : ∀ i < 3, ∀ j < 3,
    ∑ l ∈ Finset.range 3, inv3 s (i * 3 + l) * s (l * 3 + j) = if i = j then 1 else 0 := by
  have hr := mul_inv_cancel₀ h
  intro i hi j hj
  interval_cases i <;> interval_cases j <;>
    simp only [Finset.sum_range_succ, Finset.sum_range_zero, inv3, leafDet, Nat.reduceMul, Nat.reduceAdd, zero_add] at hr ⊢ <;>
    simp only [if_true, OfNat.ofNat_ne_zero, OfNat.zero_ne_ofNat, OfNat.ofNat_ne_one, OfNat.one_ne_ofNat, zero_ne_one, one_ne_zero, if_false, Nat.reduceEqDiff] <;>
    first | linear_combination hr | ring

set_option maxHeartbeats 3000000 in
theorem inv4_flat (s : Nat → K) (h : leafDet 4 s ≠ 0) : ∀ i < 4, ∀ j < 4,
    ∑ l ∈ Finset.range 4, inv4 s (i * 4 + l) * s (l * 4 + j) = if i = j then 1 else 0 := by
  have hr := mul_inv_cancel₀ h
  intro i hi j hj
  interval_cases i <;> interval_cases j <;>
    simp only [Finset.sum_range_succ, Finset.sum_range_zero, inv4, leafDet, Nat.reduceMul, Nat.reduceAdd, zero_add] at hr ⊢ <;>
    simp only [if_true, OfNat.ofNat_ne_zero, OfNat.zero_ne_ofNat, OfNat.ofNat_ne_one, OfNat.one_ne_ofNat, zero_ne_one, one_ne_zero, if_false, Nat.reduceEqDiff] <;>
    first | linear_combination hr | ring

/-- `_inverse<T,n>` is a left inverse whenever the value it divides by is non-zero (n = 1..4) -/
theorem leaf_left (n : Nat) (h1 : 1 ≤ n) (h4 : n ≤ 4) (A : Mat K) (h : leafDet n (flat n A) ≠ 0) :
    toMat n n (leafInv n A) * toMat n n A = 1 := by
  interval_cases n
  · exact leaf_of_flat 1 A inv1 (inv1_flat _ h)
  · exact leaf_of_flat 2 A inv2 (inv2_flat _ h)
  · exact leaf_of_flat 3 A inv3 (inv3_flat _ h)
  · exact leaf_of_flat 4 A inv4 (inv4_flat _ h)

end Fastor.Inv
