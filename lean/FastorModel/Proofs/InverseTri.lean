import FastorModel.Proofs.InverseRec
/- triangular dispatchers `ut_inverse_dispatcher` / `lut_inverse_dispatcher`: left inverses for every size -/
namespace Fastor.Inv
open Matrix
variable {K : Type} [Field K]

/-- exactly upper triangular on the leading `M × M` part -/
def UpperTri (M : Nat) (A : Mat K) : Prop := ∀ i < M, ∀ j < M, j < i → A i j = 0
/-- exactly unit lower triangular on the leading `M × M` part -/
def UnitLower (M : Nat) (A : Mat K) : Prop :=
  (∀ i < M, ∀ j < M, i < j → A i j = 0) ∧ (∀ i < M, A i i = 1)

def UtDefined (M : Nat) (A : Mat K) : Prop := ∀ x ∈ utDivs M A, x ≠ 0

theorem toMat_triu {n m : Nat} (X : Mat K) (h : ∀ i < n, ∀ j < m, j < i → X i j = 0) :
    toMat n m (triu X) = toMat n m X := by
  apply toMat_congr
  intro i hi j hj
  show (if i ≤ j then X i j else 0) = X i j
  split
  · rfl
  · exact (h i hi j hj (by omega)).symm

theorem toMat_tril {n m : Nat} (X : Mat K) (h : ∀ i < n, ∀ j < m, i < j → X i j = 0) :
    toMat n m (tril X) = toMat n m X := by
  apply toMat_congr
  intro i hi j hj
  show (if j ≤ i then X i j else 0) = X i j
  split
  · rfl
  · exact (h i hi j hj (by omega)).symm

theorem upperTri_blk00 {N R : Nat} {A : Mat K} (h : UpperTri (N + R) A) : UpperTri N (blk A 0 0) := by
  intro i hi j hj hji
  have := h i (by omega) j (by omega) hji
  simpa [blk] using this

theorem upperTri_blk11 {N R : Nat} {A : Mat K} (h : UpperTri (N + R) A) : UpperTri R (blk A N N) := by
  intro i hi j hj hji
  exact h (N + i) (by omega) (N + j) (by omega) (by omega)

theorem upperTri_blk10 {N R : Nat} {A : Mat K} (h : UpperTri (N + R) A) : toMat R N (blk A N 0) = 0 := by
  ext i j
  have := h (N + i.val) (by omega) (0 + j.val) (by omega) (by omega)
  simpa [blk] using this

/-- the closed forms keep an upper triangular operand upper triangular (exact zeros below the diagonal) -/
theorem leaf_upper (n : Nat) (h4 : n ≤ 4) (A : Mat K) (hA : UpperTri n A) : UpperTri n (leafInv n A) := by
  intro i hi j hj hji
  have z10 := hA 1; have z20 := hA 2; have z30 := hA 3
  interval_cases n <;> interval_cases i <;> interval_cases j <;> simp at hji <;>
    simp [leafInv, leafFlat, unflat, flat, inv2, inv3, inv4,
      hA 1 (by omega) 0 (by omega) (by omega)] <;>
    (try simp [hA 2 (by omega) 0 (by omega) (by omega), hA 2 (by omega) 1 (by omega) (by omega)]) <;>
    (try simp [hA 3 (by omega) 0 (by omega) (by omega), hA 3 (by omega) 1 (by omega) (by omega),
               hA 3 (by omega) 2 (by omega) (by omega)])


theorem toMat_mmGU (n k m : Nat) (B U : Mat K) (hU : ∀ i < k, ∀ j < m, j < i → U i j = 0) :
    toMat n m (mmGU k B U) = toMat n k B * toMat k m U := by
  unfold mmGU; rw [toMat_matmul, toMat_triu U hU]
theorem toMat_mmUG (n k m : Nat) (U B : Mat K) (hU : ∀ i < n, ∀ j < k, j < i → U i j = 0) :
    toMat n m (mmUG k U B) = toMat n k U * toMat k m B := by
  unfold mmUG; rw [toMat_matmul, toMat_triu U hU]
theorem toMat_mmGL (n k m : Nat) (B L : Mat K) (hL : ∀ i < k, ∀ j < m, i < j → L i j = 0) :
    toMat n m (mmGL k B L) = toMat n k B * toMat k m L := by
  unfold mmGL; rw [toMat_matmul, toMat_tril L hL]
theorem toMat_mmLG (n k m : Nat) (L B : Mat K) (hL : ∀ i < n, ∀ j < k, i < j → L i j = 0) :
    toMat n m (mmLG k L B) = toMat n k L * toMat k m B := by
  unfold mmLG; rw [toMat_matmul, toMat_tril L hL]

theorem upperTri_assemble {N R : Nat} {aa ab bb : Mat K} (ha : UpperTri N aa) (hb : UpperTri R bb) :
    UpperTri (N + R) (assemble N aa ab { get := fun _ _ => 0 } bb) := by
  intro i hi j hj hji
  show (if i < N then (if j < N then aa i j else ab i (j - N))
        else (if j < N then (0 : K) else bb (i - N) (j - N))) = 0
  by_cases h1 : i < N
  · have h2 : j < N := by omega
    rw [if_pos h1, if_pos h2]; exact ha i h1 j h2 hji
  · rw [if_neg h1]
    by_cases h2 : j < N
    · rw [if_pos h2]
    · rw [if_neg h2]; exact hb (i - N) (by omega) (j - N) (by omega) (by omega)

/-- `ut_inverse_dispatcher`: left inverse and exactly upper triangular, for every size -/
theorem ut_left : ∀ M, 0 < M → ∀ A : Mat K, UpperTri M A → UtDefined M A →
    toMat M M (utInv M A) * toMat M M A = 1 ∧ UpperTri M (utInv M A) := by
  intro M
  induction M using Nat.strong_induction_on with
  | _ M ih =>
    intro hM A hA hdef
    by_cases h4 : M ≤ 4
    · rw [utInv, dif_pos h4]
      refine ⟨?_, leaf_upper M h4 A hA⟩
      apply leaf_left M hM h4
      have e : utDivs M A = [leafDet M (flat M A)] := by rw [utDivs, dif_pos h4]
      exact hdef _ (by rw [e]; simp)
    · have hN := splitPoint_pos (M := M) (by omega)
      have hN' := splitPoint_lt (M := M) (by omega)
      rw [utInv, dif_neg h4]
      simp only [memo_eq]
      have hd := hdef
      rw [UtDefined, utDivs, dif_neg h4] at hd
      simp only [List.mem_append] at hd
      generalize usesTmatmul M = tm at *
      generalize splitPoint M = N at *
      generalize hRe : M - N = R at *
      have hMe : M = N + R := by omega
      subst hMe
      obtain ⟨ha, hau⟩ := ih N hN' hN (blk A 0 0) (upperTri_blk00 hA) (fun x hx => hd x (Or.inl hx))
      obtain ⟨hdd, hdu⟩ := ih R (by omega) (by omega) (blk A N N) (upperTri_blk11 hA) (fun x hx => hd x (Or.inr hx))
      refine ⟨?_, upperTri_assemble hau hdu⟩
      rw [toMat_assemble, toMat_blocks N R A, upperTri_blk10 hA]
      apply reindex_mul_eq_one
      have e1 : toMat N R (if tm = true then mmGU R (blk A 0 N) (utInv R (blk A N N))
                                        else matmul R (blk A 0 N) (utInv R (blk A N N)))
              = toMat N R (blk A 0 N) * toMat R R (utInv R (blk A N N)) := by
        split
        · exact toMat_mmGU N R R _ _ hdu
        · exact toMat_matmul N R R _ _
      have e2 : ∀ Y : Mat K, toMat N R (if tm = true then mmUG N (utInv N (blk A 0 0)) Y
                                        else matmul N (utInv N (blk A 0 0)) Y)
              = toMat N N (utInv N (blk A 0 0)) * toMat N R Y := by
        intro Y
        split
        · exact toMat_mmUG N N R _ _ hau
        · exact toMat_matmul N N R _ _
      rw [toMat_neg', toMat_zero', e2, e1]
      exact block_upper_left_inv _ _ _ _ _ ha hdd


/-! ### unit lower triangular -/
def LowerZ (M : Nat) (A : Mat K) : Prop := ∀ i < M, ∀ j < M, i < j → A i j = 0

theorem lowerZ_blk00 {N R : Nat} {A : Mat K} (h : UnitLower (N + R) A) : UnitLower N (blk A 0 0) := by
  refine ⟨fun i hi j hj hij => ?_, fun i hi => ?_⟩
  · have := h.1 i (by omega) j (by omega) hij; simpa [blk] using this
  · have := h.2 i (by omega); simpa [blk] using this
theorem lowerZ_blk11 {N R : Nat} {A : Mat K} (h : UnitLower (N + R) A) : UnitLower R (blk A N N) :=
  ⟨fun i hi j hj hij => h.1 (N + i) (by omega) (N + j) (by omega) (by omega), fun i hi => h.2 (N + i) (by omega)⟩
theorem lowerZ_blk01 {N R : Nat} {A : Mat K} (h : UnitLower (N + R) A) : toMat N R (blk A 0 N) = 0 := by
  ext i j
  have := h.1 (0 + i.val) (by omega) (N + j.val) (by omega) (by omega)
  simpa [blk] using this

theorem lut1_flat (s : Nat → K)  (o0 : s 0 = 1) : ∀ i < 1, ∀ j < 1,
    ∑ l ∈ Finset.range 1, lutLeafFlat 1 s (i * 1 + l) * s (l * 1 + j) = if i = j then 1 else 0 := by
  intro i hi j hj
  interval_cases i <;> interval_cases j <;>
    simp only [Finset.sum_range_succ, Finset.sum_range_zero, lutLeafFlat, Nat.reduceMul, Nat.reduceAdd, zero_add] <;>
    simp only [o0, if_true, OfNat.ofNat_ne_zero, OfNat.zero_ne_ofNat, OfNat.ofNat_ne_one, OfNat.one_ne_ofNat, zero_ne_one, one_ne_zero, if_false, Nat.reduceEqDiff] <;>
    ring

theorem lut2_flat (s : Nat → K) (z1 : s 1 = 0) (o0 : s 0 = 1) (o3 : s 3 = 1) : ∀ i < 2, ∀ j < 2,
    ∑ l ∈ Finset.range 2, lutLeafFlat 2 s (i * 2 + l) * s (l * 2 + j) = if i = j then 1 else 0 := by
  intro i hi j hj
  interval_cases i <;> interval_cases j <;>
    simp only [Finset.sum_range_succ, Finset.sum_range_zero, lutLeafFlat, Nat.reduceMul, Nat.reduceAdd, zero_add] <;>
    simp only [z1, o0, o3, if_true, OfNat.ofNat_ne_zero, OfNat.zero_ne_ofNat, OfNat.ofNat_ne_one, OfNat.one_ne_ofNat, zero_ne_one, one_ne_zero, if_false, Nat.reduceEqDiff] <;>
    ring

theorem lut3_flat (s : Nat → K) (z1 : s 1 = 0) (z2 : s 2 = 0) (z5 : s 5 = 0) (o0 : s 0 = 1) (o4 : s 4 = 1) (o8 : s 8 = 1) : ∀ i < 3, ∀ j < 3,
    ∑ l ∈ Finset.range 3, lutLeafFlat 3 s (i * 3 + l) * s (l * 3 + j) = if i = j then 1 else 0 := by
  intro i hi j hj
  interval_cases i <;> interval_cases j <;>
    simp only [Finset.sum_range_succ, Finset.sum_range_zero, lutLeafFlat, Nat.reduceMul, Nat.reduceAdd, zero_add] <;>
    simp only [z1, z2, z5, o0, o4, o8, if_true, OfNat.ofNat_ne_zero, OfNat.zero_ne_ofNat, OfNat.ofNat_ne_one, OfNat.one_ne_ofNat, zero_ne_one, one_ne_zero, if_false, Nat.reduceEqDiff] <;>
    ring

theorem lut4_flat (s : Nat → K) (z1 : s 1 = 0) (z2 : s 2 = 0) (z3 : s 3 = 0) (z6 : s 6 = 0) (z7 : s 7 = 0) (z11 : s 11 = 0) (o0 : s 0 = 1) (o5 : s 5 = 1) (o10 : s 10 = 1) (o15 : s 15 = 1) : ∀ i < 4, ∀ j < 4,
    ∑ l ∈ Finset.range 4, lutLeafFlat 4 s (i * 4 + l) * s (l * 4 + j) = if i = j then 1 else 0 := by
  intro i hi j hj
  interval_cases i <;> interval_cases j <;>
    simp only [Finset.sum_range_succ, Finset.sum_range_zero, lutLeafFlat, Nat.reduceMul, Nat.reduceAdd, zero_add] <;>
    simp only [z1, z2, z3, z6, z7, z11, o0, o5, o10, o15, if_true, OfNat.ofNat_ne_zero, OfNat.zero_ne_ofNat, OfNat.ofNat_ne_one, OfNat.one_ne_ofNat, zero_ne_one, one_ne_zero, if_false, Nat.reduceEqDiff] <;>
    ring

theorem lut_leaf_left (n : Nat) (h1 : 1 ≤ n) (h4 : n ≤ 4) (A : Mat K) (hA : UnitLower n A) :
    toMat n n (lutLeafInv n A) * toMat n n A = 1 := by
  have fz : ∀ i < n, ∀ j < n, i < j → flat n A (i * n + j) = 0 := fun i hi j hj hij => by
    rw [flat_entry n A i j hj]; exact hA.1 i hi j hj hij
  have fo : ∀ i < n, flat n A (i * n + i) = 1 := fun i hi => by
    rw [flat_entry n A i i hi]; exact hA.2 i hi
  interval_cases n
  · exact leaf_of_flat 1 A (lutLeafFlat 1) (lut1_flat _ (fo 0 (by omega)))
  · exact leaf_of_flat 2 A (lutLeafFlat 2) (lut2_flat _ (fz 0 (by omega) 1 (by omega) (by omega)) (fo 0 (by omega)) (fo 1 (by omega)))
  · exact leaf_of_flat 3 A (lutLeafFlat 3) (lut3_flat _ (fz 0 (by omega) 1 (by omega) (by omega)) (fz 0 (by omega) 2 (by omega) (by omega))
      (fz 1 (by omega) 2 (by omega) (by omega)) (fo 0 (by omega)) (fo 1 (by omega)) (fo 2 (by omega)))
  · exact leaf_of_flat 4 A (lutLeafFlat 4) (lut4_flat _ (fz 0 (by omega) 1 (by omega) (by omega)) (fz 0 (by omega) 2 (by omega) (by omega))
      (fz 0 (by omega) 3 (by omega) (by omega)) (fz 1 (by omega) 2 (by omega) (by omega)) (fz 1 (by omega) 3 (by omega) (by omega))
      (fz 2 (by omega) 3 (by omega) (by omega)) (fo 0 (by omega)) (fo 1 (by omega)) (fo 2 (by omega)) (fo 3 (by omega)))

theorem lut_leaf_lowerZ (n : Nat) (h4 : n ≤ 4) (A : Mat K) : LowerZ n (lutLeafInv n A) := by
  intro i hi j hj hij
  interval_cases n <;> interval_cases i <;> interval_cases j <;> simp at hij <;>
    simp [lutLeafInv, lutLeafFlat, unflat]

theorem lowerZ_assemble {N R : Nat} {aa ba bb : Mat K} (ha : LowerZ N aa) (hb : LowerZ R bb) :
    LowerZ (N + R) (assemble N aa { get := fun _ _ => 0 } ba bb) := by
  intro i hi j hj hij
  show (if i < N then (if j < N then aa i j else (0 : K))
        else (if j < N then ba (i - N) j else bb (i - N) (j - N))) = 0
  by_cases h1 : i < N
  · rw [if_pos h1]
    by_cases h2 : j < N
    · rw [if_pos h2]; exact ha i h1 j h2 hij
    · rw [if_neg h2]
  · have h2 : ¬ j < N := by omega
    rw [if_neg h1, if_neg h2]; exact hb (i - N) (by omega) (j - N) (by omega) (by omega)

/-- `lut_inverse_dispatcher`: left inverse with exact zeros above the diagonal, for every size -/
theorem lut_left : ∀ M, 0 < M → ∀ A : Mat K, UnitLower M A →
    toMat M M (lutInv M A) * toMat M M A = 1 ∧ LowerZ M (lutInv M A) := by
  intro M
  induction M using Nat.strong_induction_on with
  | _ M ih =>
    intro hM A hA
    by_cases h4 : M ≤ 4
    · rw [lutInv, dif_pos h4]
      exact ⟨lut_leaf_left M hM h4 A hA, lut_leaf_lowerZ M h4 A⟩
    · have hN := splitPoint_pos (M := M) (by omega)
      have hN' := splitPoint_lt (M := M) (by omega)
      rw [lutInv, dif_neg h4]
      simp only [memo_eq]
      generalize usesTmatmul M = tm at *
      generalize splitPoint M = N at *
      generalize hRe : M - N = R at *
      have hMe : M = N + R := by omega
      subst hMe
      obtain ⟨ha, hal⟩ := ih N hN' hN (blk A 0 0) (lowerZ_blk00 hA)
      obtain ⟨hdd, hdl⟩ := ih R (by omega) (by omega) (blk A N N) (lowerZ_blk11 hA)
      refine ⟨?_, lowerZ_assemble hal hdl⟩
      rw [toMat_assemble, toMat_blocks N R A, lowerZ_blk01 hA]
      apply reindex_mul_eq_one
      have e1 : toMat R N (if tm = true then mmGL N (blk A N 0) (lutInv N (blk A 0 0))
                                        else matmul N (blk A N 0) (lutInv N (blk A 0 0)))
              = toMat R N (blk A N 0) * toMat N N (lutInv N (blk A 0 0)) := by
        split
        · exact toMat_mmGL R N N _ _ hal
        · exact toMat_matmul R N N _ _
      have e2 : ∀ Y : Mat K, toMat R N (if tm = true then mmLG R (lutInv R (blk A N N)) Y
                                        else matmul R (lutInv R (blk A N N)) Y)
              = toMat R R (lutInv R (blk A N N)) * toMat R N Y := by
        intro Y
        split
        · exact toMat_mmLG R R N _ _ hdl
        · exact toMat_matmul R R N _ _
      rw [toMat_neg', toMat_zero', e2, e1]
      exact block_lower_left_inv _ _ _ _ _ ha hdd

end Fastor.Inv
