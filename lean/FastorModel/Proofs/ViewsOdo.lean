import FastorModel.Proofs.ViewsRead
/-
  Lemmas for C04, part 3: the odometer (`for jt = DIMS-1 .. 0: as[jt] += …; if (as[jt] < dims[jt]) break; else as[jt] = 0`)
  used by the per-lane gather route of `teval` and by the constructors of rank >= 3.
-/
namespace Fastor.Views

/-- the last component can take the increment without skipping the end of its axis
    (`inc = 1` always; `inc = V` when the last extent and the last index are multiples of `V`) -/
def LastFits : List Nat → List Nat → Nat → Prop
  | [d], [a], inc => a + inc ≤ d
  | _ :: d2 :: ds, _ :: a2 :: as, inc => LastFits (d2 :: ds) (a2 :: as) inc
  | _, _, _ => False

theorem rowMajor_single (d a : Nat) : rowMajor [d] [a] = a := by simp [rowMajor, horner]

/-- **one odometer step** advances the row-major position by the increment, or runs over exactly at the end -/
theorem odoInc_spec (inc : Nat) (hinc : 0 < inc) (ds as : List Nat) (h : InRange ds as) (hf : LastFits ds as inc) :
    InRange ds (odoInc ds as inc).1 ∧
    (rowMajor ds as + inc < lprod ds →
      (odoInc ds as inc).2 = false ∧ rowMajor ds (odoInc ds as inc).1 = rowMajor ds as + inc) ∧
    (¬ rowMajor ds as + inc < lprod ds →
      (odoInc ds as inc).2 = true ∧ rowMajor ds (odoInc ds as inc).1 = 0 ∧ rowMajor ds as + inc = lprod ds) := by
  induction ds generalizing as with
  | nil => cases as <;> simp [LastFits] at hf
  | cons d ds ih =>
    cases as with
    | nil => simp [InRange] at h
    | cons a as =>
      cases ds with
      | nil =>
        cases as with
        | cons _ _ => simp [InRange] at h
        | nil =>
          simp only [InRange, LastFits] at h hf
          simp only [odoInc, rowMajor_single, lprod, Nat.mul_one]
          by_cases hlt : a + inc < d
          · simp [hlt, InRange, rowMajor_single]
          · have : a + inc = d := by omega
            simp [hlt, InRange, rowMajor_single, this]; omega
      | cons d2 ds' =>
        cases as with
        | nil => simp [InRange] at h
        | cons a2 as' =>
          replace h : a < d ∧ InRange (d2 :: ds') (a2 :: as') := h
          have hf' : LastFits (d2 :: ds') (a2 :: as') inc := hf
          obtain ⟨i1, i2, i3⟩ := ih (a2 :: as') h.2 hf'
          have hlen : (d2 :: ds').length = (a2 :: as').length := inRange_length h.2
          have hlen' : (d2 :: ds').length = (odoInc (d2 :: ds') (a2 :: as') inc).1.length := inRange_length i1
          have hm := rowMajor_lt h.2
          have hun : odoInc (d :: d2 :: ds') (a :: a2 :: as') inc =
              (if (odoInc (d2 :: ds') (a2 :: as') inc).2 then
                (if a + 1 < d then ((a + 1) :: (odoInc (d2 :: ds') (a2 :: as') inc).1, false)
                 else (0 :: (odoInc (d2 :: ds') (a2 :: as') inc).1, true))
               else (a :: (odoInc (d2 :: ds') (a2 :: as') inc).1, false)) := by
            rw [odoInc]; simp
          rw [hun, rowMajor_cons _ _ _ _ hlen]
          set P := lprod (d2 :: ds') with hP
          set m := rowMajor (d2 :: ds') (a2 :: as') with hmdef
          have hlp : lprod (d :: d2 :: ds') = d * P := rfl
          rw [hlp]
          by_cases hlow : m + inc < P
          · -- no carry out of the lower axes
            obtain ⟨c1, c2⟩ := i2 hlow
            rw [c1]
            simp only [Bool.false_eq_true, if_false]
            refine ⟨⟨h.1, i1⟩, ?_, ?_⟩
            · intro _
              refine ⟨by simp, ?_⟩
              rw [rowMajor_cons _ _ _ _ hlen', c2]; ring
            · intro hcon
              exfalso; apply hcon
              calc a * P + m + inc < a * P + P := by omega
                _ = (a + 1) * P := by ring
                _ ≤ d * P := Nat.mul_le_mul_right _ h.1
          · obtain ⟨c1, c2, c3⟩ := i3 hlow
            rw [c1]
            simp only [if_true]
            by_cases hup : a + 1 < d
            · simp only [hup, if_true]
              refine ⟨⟨hup, i1⟩, ?_, ?_⟩
              · intro _
                refine ⟨by simp, ?_⟩
                rw [rowMajor_cons _ _ _ _ hlen', c2]
                have : a * P + m + inc = a * P + (m + inc) := by ring
                rw [this, c3]; ring
              · intro hcon
                exfalso; apply hcon
                have : a * P + m + inc = (a + 1) * P := by
                  have : a * P + m + inc = a * P + (m + inc) := by ring
                  rw [this, c3]; ring
                rw [this]
                have hPpos : 0 < P := by omega
                exact Nat.mul_lt_mul_of_pos_right hup hPpos
            · simp only [hup, if_false]
              have had : a + 1 = d := by omega
              refine ⟨⟨by omega, i1⟩, ?_, ?_⟩
              · intro hcon
                exfalso
                have : a * P + m + inc = d * P := by
                  have : a * P + m + inc = a * P + (m + inc) := by ring
                  rw [this, c3, ← had]; ring
                omega
              · intro _
                refine ⟨by simp, ?_, ?_⟩
                · rw [rowMajor_cons _ _ _ _ hlen', c2]; ring
                · have : a * P + m + inc = a * P + (m + inc) := by ring
                  rw [this, c3, ← had]; ring

theorem lastFits_one {ds as : List Nat} (h : InRange ds as) (hne : ds ≠ []) : LastFits ds as 1 := by
  induction ds generalizing as with
  | nil => exact absurd rfl hne
  | cons d ds ih =>
    cases as with
    | nil => simp [InRange] at h
    | cons a as =>
      cases ds with
      | nil =>
        cases as with
        | cons _ _ => simp [InRange] at h
        | nil => simp only [InRange] at h; simp only [LastFits]; omega
      | cons d2 ds' =>
        cases as with
        | nil => simp [InRange] at h
        | cons a2 as' =>
          replace h : a < d ∧ InRange (d2 :: ds') (a2 :: as') := h
          exact ih h.2 (by simp)

/-- `l` unit steps of the odometer reach the multi-index at row-major position `+ l` -/
theorem odoIter_spec (ds : List Nat) (hne : ds ≠ []) (l : Nat) (as : List Nat) (h : InRange ds as)
    (hl : rowMajor ds as + l < lprod ds) :
    InRange ds (odoIter ds l as) ∧ rowMajor ds (odoIter ds l as) = rowMajor ds as + l := by
  induction l generalizing as with
  | zero => exact ⟨h, rfl⟩
  | succ k ih =>
    obtain ⟨i1, i2, _⟩ := odoInc_spec 1 (by omega) ds as h (lastFits_one h hne)
    obtain ⟨_, c2⟩ := i2 (by omega)
    have := ih (odoInc ds as 1).1 i1 (by rw [c2]; omega)
    simp only [odoIter]
    exact ⟨this.1, by rw [this.2, c2]; ring⟩

/-- **`teval(as)`, per-lane gather route**: lane `l` reads the documented element at row-major position
    `rowMajor as + l` of the slice (continuing into the following rows) -/
theorem tevalV_lane_gather_full (v : View) (hwf : v.WF) (V : Nat) (as : List Nat) (hne : v.axs ≠ [])
    (has : InRange (vdims v.axs) as) (l : Nat) (hlV : l < V) (hr : v.route V = .gather)
    (hfit : rowMajor (vdims v.axs) as + l < v.size) :
    ∃ j, InRange (vdims v.axs) j ∧ rowMajor (vdims v.axs) j = rowMajor (vdims v.axs) as + l ∧
      (v.tevalV V as)[l]? = some (specOff v.pdims v.axs j) := by
  have hne' : vdims v.axs ≠ [] := by simpa [vdims] using hne
  obtain ⟨j1, j2⟩ := odoIter_spec (vdims v.axs) hne' l as has hfit
  refine ⟨odoIter (vdims v.axs) l as, j1, j2, ?_⟩
  rw [tevalV_lane_gather v V as l hlV hr, flatIdx_eq _ _ _ hwf.1]
  have := inRange_length j1
  rw [vdims_length] at this
  exact this

/-! ### the odometer constructors -/

theorem writesExactly_single (c x : Nat) (f : Nat → Nat) (hf : f c = x) :
    WritesExactly [(c, x)] (fun p => p = c) f := by
  apply writesExactly_of_all_right
  · intro w hw
    simp only [List.mem_singleton] at hw
    subst hw
    exact ⟨rfl, hf.symm⟩
  · intro p hp
    exact ⟨(c, x), by simp, hp.symm⟩

theorem odoLoop_succ (v : View) (V : Nat) (vec : Bool) (rd : List Nat) (size fuel counter : Nat) (as : List Nat)
    (hc : counter < size) :
    odoLoop v V vec rd size (fuel + 1) counter as =
      (let here : Run :=
        if vec then ⟨laneWrites counter (v.tevalV V as), if v.route V == .contiguous then 1 else 0⟩
        else ⟨[(counter, v.tevalS as)], 0⟩
       let nx := odoInc rd as (if vec then V else 1)
       if nx.2 then here else here.append (odoLoop v V vec rd size fuel (counter + (if vec then V else 1)) nx.1)) := by
  rw [odoLoop]
  simp only [hc, if_true]

/-- **the scalar odometer constructor** (`while (counter < size) { dst[counter] = teval_s(as); counter++; odometer }`):
    exactly the positions `counter ≤ p < size` are written, position `p` from `teval_s` at the multi-index of `p` -/
theorem odoLoop_scalar_exact (v : View) (V : Nat) (rd : List Nat) (hne : rd ≠ []) (fuel counter : Nat)
    (as : List Nat) (has : InRange rd as) (hc : counter = rowMajor rd as) (hfuel : lprod rd - counter ≤ fuel) :
    WritesExactly (odoLoop v V false rd (lprod rd) fuel counter as).writes
      (fun p => counter ≤ p ∧ p < lprod rd) (fun p => v.tevalS (unflat rd (lprod rd) p)) := by
  induction fuel generalizing counter as with
  | zero =>
    have := rowMajor_lt has
    omega
  | succ fuel ih =>
    have hlt : counter < lprod rd := by rw [hc]; exact rowMajor_lt has
    rw [odoLoop_succ _ _ _ _ _ _ _ _ hlt]
    simp only [Bool.false_eq_true, if_false]
    obtain ⟨i1, i2, i3⟩ := odoInc_spec 1 (by omega) rd as has (lastFits_one has hne)
    have hval : v.tevalS (unflat rd (lprod rd) counter) = v.tevalS as := by
      rw [hc, unflat_rowMajor has]
    have hsingle := writesExactly_single counter (v.tevalS as) (fun p => v.tevalS (unflat rd (lprod rd) p)) hval
    by_cases hnext : rowMajor rd as + 1 < lprod rd
    · obtain ⟨c1, c2⟩ := i2 hnext
      rw [c1]
      simp only [Bool.false_eq_true, if_false, Run.append]
      have hrec := ih (counter + 1) (odoInc rd as 1).1 i1 (by rw [c2, hc]) (by omega)
      apply writesExactly_congr (writesExactly_append hsingle hrec)
      intro p; constructor
      · rintro (h | h) <;> omega
      · intro h; by_cases hp : p = counter
        · exact Or.inl hp
        · exact Or.inr ⟨by omega, h.2⟩
    · obtain ⟨c1, _, c3⟩ := i3 hnext
      rw [c1]
      simp only [if_true]
      apply writesExactly_congr hsingle
      intro p; constructor
      · intro h; omega
      · intro h; omega

/-- last index and last extent are multiples of the vector width (the vectorised odometer constructor is
    entered only when `_is_vectorisable || _is_strided_vectorisable`, i.e. `dims[last] % V == 0`, from `as = 0`) -/
def VAligned : List Nat → List Nat → Nat → Prop
  | [d], [a], V => V ∣ a ∧ V ∣ d
  | _ :: d2 :: ds, _ :: a2 :: as, V => VAligned (d2 :: ds) (a2 :: as) V
  | _, _, _ => False

theorem lastFits_of_aligned {ds as : List Nat} {V : Nat} (h : InRange ds as) (ha : VAligned ds as V) :
    LastFits ds as V := by
  induction ds generalizing as with
  | nil => cases as <;> simp [VAligned] at ha
  | cons d ds ih =>
    cases as with
    | nil => simp [InRange] at h
    | cons a as =>
      cases ds with
      | nil =>
        cases as with
        | cons _ _ => simp [InRange] at h
        | nil =>
          simp only [InRange] at h
          simp only [VAligned] at ha
          simp only [LastFits]
          obtain ⟨⟨x, rfl⟩, ⟨y, rfl⟩⟩ := ha
          have hxy : x < y := Nat.lt_of_mul_lt_mul_left h.1
          calc V * x + V = V * (x + 1) := by ring
            _ ≤ V * y := Nat.mul_le_mul_left _ hxy
      | cons d2 ds' =>
        cases as with
        | nil => simp [InRange] at h
        | cons a2 as' =>
          replace h : a < d ∧ InRange (d2 :: ds') (a2 :: as') := h
          exact ih h.2 ha

theorem aligned_step {ds as : List Nat} {V : Nat} (hV : 0 < V) (h : InRange ds as) (ha : VAligned ds as V) :
    VAligned ds (odoInc ds as V).1 V := by
  induction ds generalizing as with
  | nil => cases as <;> simp [VAligned] at ha
  | cons d ds ih =>
    cases as with
    | nil => simp [InRange] at h
    | cons a as =>
      cases ds with
      | nil =>
        cases as with
        | cons _ _ => simp [InRange] at h
        | nil =>
          simp only [VAligned] at ha
          simp only [odoInc]
          split
          · exact ⟨(Nat.dvd_add_right ha.1).2 (Nat.dvd_refl V), ha.2⟩
          · exact ⟨Nat.dvd_zero V, ha.2⟩
      | cons d2 ds' =>
        cases as with
        | nil => simp [InRange] at h
        | cons a2 as' =>
          replace h : a < d ∧ InRange (d2 :: ds') (a2 :: as') := h
          have hrec := ih h.2 ha
          have hlen := inRange_length (odoInc_spec V hV _ _ h.2 (lastFits_of_aligned h.2 ha)).1
          rw [odoInc]
          · -- the tail keeps its shape (non-empty), so the alignment of the tail is the alignment of the whole
            cases hr : (odoInc (d2 :: ds') (a2 :: as') V).1 with
            | nil => rw [hr] at hlen; simp at hlen
            | cons b bs =>
              rw [hr] at hrec
              split
              · split <;> exact hrec
              · exact hrec
          · simp

theorem bumpLast_spec {ds as : List Nat} {V : Nat} (h : InRange ds as) (hf : LastFits ds as V) (l : Nat) (hl : l < V) :
    InRange ds (bumpLast as l) ∧ rowMajor ds (bumpLast as l) = rowMajor ds as + l := by
  induction ds generalizing as with
  | nil => cases as <;> simp [LastFits] at hf
  | cons d ds ih =>
    cases as with
    | nil => simp [InRange] at h
    | cons a as =>
      cases ds with
      | nil =>
        cases as with
        | cons _ _ => simp [InRange] at h
        | nil =>
          simp only [InRange] at h
          simp only [LastFits] at hf
          simp only [bumpLast, InRange, rowMajor_single]
          exact ⟨⟨by omega, trivial⟩, trivial⟩
      | cons d2 ds' =>
        cases as with
        | nil => simp [InRange] at h
        | cons a2 as' =>
          replace h : a < d ∧ InRange (d2 :: ds') (a2 :: as') := h
          obtain ⟨r1, r2⟩ := ih h.2 hf
          have hb : bumpLast (a :: a2 :: as') l = a :: bumpLast (a2 :: as') l := rfl
          rw [hb, rowMajor_cons _ _ _ _ (inRange_length r1), rowMajor_cons _ _ _ _ (inRange_length h.2), r2]
          exact ⟨⟨h.1, r1⟩, by ring⟩

theorem tevalV_length (v : View) (V : Nat) (as : List Nat) : (v.tevalV V as).length = V := by
  unfold View.tevalV
  split <;> simp

/-- **the vectorised odometer constructor** (`while (counter < size) { teval(as).store(&dst[counter]); counter += V;
    odometer with as[last] += V }`, entered when the last extent is a multiple of `V`): exactly the positions
    `counter ≤ p < size` are written, position `p` from `teval_s` at the multi-index of `p` -/
theorem odoLoop_vec_exact (v : View) (hwf : v.WF) (V : Nat) (hV : 0 < V) (hr : v.route V ≠ .gather)
    (rd : List Nat) (hrd : rd.length = v.axs.length) (fuel counter : Nat)
    (as : List Nat) (has : InRange rd as) (hal : VAligned rd as V)
    (hc : counter = rowMajor rd as) (hfuel : lprod rd - counter ≤ fuel) :
    WritesExactly (odoLoop v V true rd (lprod rd) fuel counter as).writes
      (fun p => counter ≤ p ∧ p < lprod rd) (fun p => v.tevalS (unflat rd (lprod rd) p)) := by
  induction fuel generalizing counter as with
  | zero =>
    have := rowMajor_lt has
    omega
  | succ fuel ih =>
    have hlt : counter < lprod rd := by rw [hc]; exact rowMajor_lt has
    have hfit := lastFits_of_aligned has hal
    have haslen : v.axs.length = as.length := by rw [← hrd]; exact inRange_length has
    have hasne : as ≠ [] := by
      intro h0; subst h0
      cases rd with
      | nil => simp [VAligned] at hal
      | cons _ _ => simp [InRange] at has
    rw [odoLoop_succ _ _ _ _ _ _ _ _ hlt]
    simp only [if_true]
    obtain ⟨i1, i2, i3⟩ := odoInc_spec V hV rd as has hfit
    -- the block written in this iteration
    have hblock : WritesExactly (laneWrites counter (v.tevalV V as))
        (fun p => counter ≤ p ∧ p < counter + V) (fun p => v.tevalS (unflat rd (lprod rd) p)) := by
      apply writesExactly_of_all_right
      · intro w hw
        obtain ⟨l, hl, hw1, hw2⟩ := mem_laneWrites hw
        rw [tevalV_length] at hl
        obtain ⟨b1, b2⟩ := bumpLast_spec has hfit l hl
        rw [tevalV_lane_row v hwf V as haslen hasne l hl hr] at hw2
        refine ⟨⟨by omega, by omega⟩, ?_⟩
        rw [hw1, hc, ← b2, unflat_rowMajor b1, ← Option.some.inj hw2,
            tevalS_correct v hwf _ (by rw [bumpLast_length]; exact haslen)]
      · intro p ⟨hp1, hp2⟩
        obtain ⟨l, rfl⟩ : ∃ l, p = counter + l := ⟨p - counter, by omega⟩
        have hl : l < V := by omega
        obtain ⟨b1, b2⟩ := bumpLast_spec has hfit l hl
        refine ⟨(counter + l, v.tevalS (unflat rd (lprod rd) (counter + l))), ?_, rfl⟩
        apply laneWrites_mem
        rw [tevalV_lane_row v hwf V as haslen hasne l hl hr, hc, ← b2, unflat_rowMajor b1,
            tevalS_correct v hwf _ (by rw [bumpLast_length]; exact haslen)]
    by_cases hnext : rowMajor rd as + V < lprod rd
    · obtain ⟨c1, c2⟩ := i2 hnext
      rw [c1]
      simp only [Bool.false_eq_true, if_false, Run.append]
      have hrec := ih (counter + V) (odoInc rd as V).1 i1 (aligned_step hV has hal) (by rw [c2, hc]) (by omega)
      apply writesExactly_congr (writesExactly_append hblock hrec)
      intro p; constructor
      · rintro (h | h) <;> omega
      · intro h; by_cases hp : p < counter + V
        · exact Or.inl ⟨h.1, hp⟩
        · exact Or.inr ⟨by omega, h.2⟩
    · obtain ⟨c1, _, c3⟩ := i3 hnext
      rw [c1]
      simp only [if_true]
      apply writesExactly_congr hblock
      intro p; constructor
      · intro h; omega
      · intro h; omega

theorem unflat_length (ds : List Nat) (rem idx : Nat) : (unflat ds rem idx).length = ds.length := by
  induction ds generalizing rem with
  | nil => rfl
  | cons d ds ih => simp [unflat, ih]

def zerosLike (ds : List Nat) : List Nat := ds.map fun _ => 0

theorem zeros_inRange (ds : List Nat) (h : ∀ d ∈ ds, 0 < d) : InRange ds (zerosLike ds) := by
  induction ds with
  | nil => simp [zerosLike, InRange]
  | cons d ds ih =>
    simp only [zerosLike, List.map_cons, InRange]
    exact ⟨h d (by simp), ih (fun x hx => h x (by simp [hx]))⟩

theorem zeros_rowMajor (ds : List Nat) : rowMajor ds (zerosLike ds) = 0 := by
  induction ds with
  | nil => rfl
  | cons d ds ih =>
    have : zerosLike (d :: ds) = 0 :: zerosLike ds := rfl
    rw [this, rowMajor_cons _ _ _ _ (by simp [zerosLike]), ih]; simp

theorem zeros_aligned (axs : List Ax) (hne : axs ≠ []) (V : Nat) (h : (lastAx axs).dim % V = 0) :
    VAligned (vdims axs) (zerosLike (vdims axs)) V := by
  induction axs with
  | nil => exact absurd rfl hne
  | cons a axs ih =>
    cases axs with
    | nil =>
      simp only [vdims, zerosLike, List.map, VAligned]
      exact ⟨Nat.dvd_zero V, Nat.dvd_of_mod_eq_zero (by simpa [lastAx] using h)⟩
    | cons a2 axs2 =>
      have hla : lastAx (a :: a2 :: axs2) = lastAx (a2 :: axs2) := by simp [lastAx]
      exact ih (by simp) (by rw [← hla]; exact h)

/-- **the constructors of rank >= 3** (`ctorN`: vectorised odometer when the view is (strided-)vectorisable and
    the caller allows it, scalar odometer otherwise): exactly the positions below `size()` are written,
    position `p` from the documented element at the multi-index of `p` -/
theorem ctorN_exact (v : View) (hwf : v.WF) (hcls : v.cls = .dynN ∨ v.cls = .fixN) (hne : v.axs ≠ [])
    (hpos : ∀ d ∈ vdims v.axs, 0 < d) (V : Nat) (hV : 0 < V) (vecAllowed : Bool) :
    WritesExactly (v.ctorN V vecAllowed (vdims v.axs)).writes (fun p => p < v.size)
      (fun p => specOff v.pdims v.axs (unflat (vdims v.axs) v.size p)) := by
  have hne' : vdims v.axs ≠ [] := by simpa [vdims] using hne
  have hz := zeros_inRange _ hpos
  have hfun : ∀ p, v.tevalS (unflat (vdims v.axs) (lprod (vdims v.axs)) p) =
      specOff v.pdims v.axs (unflat (vdims v.axs) v.size p) := by
    intro p
    rw [tevalS_correct v hwf _ (by rw [unflat_length, vdims_length])]
    rfl
  unfold View.ctorN
  simp only
  have hdom : ∀ p, (0 ≤ p ∧ p < lprod (vdims v.axs)) ↔ p < v.size := by
    intro p; simp [View.size, vsize]
  by_cases hvec : (vecAllowed && (v.route V != .gather)) = true
  · rw [hvec]
    have hr : v.route V ≠ .gather := by
      intro heq
      rw [heq] at hvec
      revert hvec; cases vecAllowed <;> decide
    have hroute : v.route V = routeND v.axs V := by
      obtain ⟨cls, pd, axs⟩ := v
      rcases hcls with h | h <;> (simp only at h; subst h; simp [View.route])
    have hdim : (lastAx v.axs).dim % V = 0 := by
      rw [hroute] at hr
      unfold routeND at hr
      simp only at hr
      by_contra hcon
      simp [hcon] at hr
    have h := odoLoop_vec_exact v hwf V hV hr (vdims v.axs) (vdims_length _) (lprod (vdims v.axs)) 0
      (zerosLike (vdims v.axs)) hz (zeros_aligned v.axs hne V hdim) (zeros_rowMajor _).symm (by omega)
    have h' := writesExactly_congr h hdom
    intro p
    have := h' p
    simp only [hfun] at this
    exact this
  · have hvec' : (vecAllowed && (v.route V != .gather)) = false := by
      cases hb : (vecAllowed && (v.route V != .gather)) <;> simp_all
    rw [hvec']
    have h := odoLoop_scalar_exact v V (vdims v.axs) hne' (lprod (vdims v.axs)) 0
      (zerosLike (vdims v.axs)) hz (zeros_rowMajor _).symm (by omega)
    have h' := writesExactly_congr h hdom
    intro p
    have := h' p
    simp only [hfun] at this
    exact this

end Fastor.Views
