import FastorModel.Proofs.InverseLeaf
/- the block recursion `inverse_dispatcher` is a left inverse for every size (strong induction on the size) -/
namespace Fastor.Inv
open Matrix
variable {K : Type} [Field K]

/-- every value the recursion divides by (the determinant of every leaf block: leading blocks and Schur
    complements, as met by the code) is non-zero -/
def InvDefined (M : Nat) (A : Mat K) : Prop := ∀ x ∈ invDivs M A, x ≠ 0

theorem inv_left : ∀ M, 0 < M → ∀ A : Mat K, InvDefined M A → toMat M M (inv M A) * toMat M M A = 1 := by
  intro M
  induction M using Nat.strong_induction_on with
  | _ M ih =>
    intro hM A hdef
    by_cases h4 : M ≤ 4
    · rw [inv, dif_pos h4]
      apply leaf_left M hM h4
      have e : invDivs M A = [leafDet M (flat M A)] := by rw [invDivs, dif_pos h4]
      exact hdef _ (by rw [e]; simp)
    · have hN := splitPoint_pos (M := M) (by omega)
      have hN' := splitPoint_lt (M := M) (by omega)
      rw [inv, dif_neg h4]
      simp only [memo_eq]
      have hd := hdef
      rw [InvDefined, invDivs, dif_neg h4] at hd
      simp only [memo_eq, List.mem_append] at hd
      have ha := ih (splitPoint M) hN' hN (blk A 0 0) (fun x hx => hd x (Or.inl hx))
      have hs := ih (M - splitPoint M) (by omega) (by omega) _ (fun x hx => hd x (Or.inr hx))
      clear hd hdef ih
      generalize splitPoint M = N at *
      generalize hRe : M - N = R at *
      have hMe : M = N + R := by omega
      subst hMe
      rw [toMat_assemble, toMat_blocks N R A]
      apply reindex_mul_eq_one
      simp only [toMat_add', toMat_neg', toMat_sub', toMat_matmul] at hs ⊢
      exact block_left_inv _ _ _ _ _ _ ha hs

end Fastor.Inv
