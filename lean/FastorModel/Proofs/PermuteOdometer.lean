import FastorModel.Proofs.Permute
/-
  The odometer loop (`CONTRACT_OPT == -1`) visits the box in the same lexicographic order as the recursive
  Cartesian nest: its states are the mixed-radix digits of 0, 1, …, prod-1 and the carry loop is `+1`.
-/
namespace Fastor.Permute

/-- mixed-radix digits of `n` (most significant first) -/
def digits : List Nat → Nat → List Nat
  | [], _ => []
  | _ :: ds, n => (n / prod ds) :: digits ds (n % prod ds)

/-- the carry loop run to the end resets the positions it passes -/
def resetBelow : Nat → List Nat → List Nat
  | 0, xs => xs
  | jt + 1, xs => resetBelow jt (xs.set jt 0)

theorem resetBelow_eq : ∀ (jt : Nat) (xs : List Nat), jt ≤ xs.length →
    resetBelow jt xs = List.replicate jt 0 ++ xs.drop jt
  | 0, xs, _ => by simp [resetBelow]
  | jt + 1, xs, h => by
    rw [resetBelow, resetBelow_eq jt _ (by simp; omega), drop_set_self xs jt 0 (by omega), List.replicate_succ']
    simp

theorem digits_length : ∀ (ds : List Nat) (n : Nat), (digits ds n).length = ds.length
  | [], _ => rfl
  | _ :: ds, n => by simp [digits, digits_length ds]

theorem digits_zero : ∀ (ds : List Nat), digits ds 0 = List.replicate ds.length 0
  | [] => rfl
  | _ :: ds => by simp [digits, digits_zero ds, List.replicate_succ]

/-- the carry loop over `d :: ds` is the carry loop over `ds` on the tail, and an increment of the head when
    the tail overflows -/
theorem carry_cons (d : Nat) (ds : List Nat) (x : Nat) : ∀ (jt : Nat) (xs : List Nat),
    odoCarry (d :: ds) (jt + 1) (x :: xs) =
      match odoCarry ds jt xs with
      | some xs' => some (x :: xs')
      | none => if x + 1 < d then some ((x + 1) :: resetBelow jt xs) else none
  | 0, xs => by simp [odoCarry, resetBelow]
  | jt + 1, xs => by
    have ih := carry_cons d ds x jt (xs.set jt 0)
    have e1 : odoCarry (d :: ds) (jt + 1 + 1) (x :: xs) =
        if xs.getD jt 0 + 1 < ds.getD jt 0 then some (x :: xs.set jt (xs.getD jt 0 + 1))
        else odoCarry (d :: ds) (jt + 1) (x :: xs.set jt 0) := by
      simp [odoCarry]
    have e2 : odoCarry ds (jt + 1) xs =
        if xs.getD jt 0 + 1 < ds.getD jt 0 then some (xs.set jt (xs.getD jt 0 + 1))
        else odoCarry ds jt (xs.set jt 0) := by
      simp [odoCarry]
    rw [e1, e2]
    by_cases h : xs.getD jt 0 + 1 < ds.getD jt 0
    · rw [if_pos h, if_pos h]
    · rw [if_neg h, if_neg h, ih]; rfl

theorem prod_pos : ∀ (ds : List Nat), (∀ d ∈ ds, 0 < d) → 0 < prod ds
  | [], _ => by simp [prod]
  | d :: ds, h => by
    rw [prod_cons]
    exact Nat.mul_pos (h d (by simp)) (prod_pos ds (fun x hx => h x (List.mem_cons_of_mem _ hx)))

/-- **the carry loop is `+1` on the digits** -/
theorem carry_digits : ∀ (ds : List Nat), (∀ d ∈ ds, 0 < d) → ∀ n, n < prod ds →
    odoCarry ds ds.length (digits ds n) = if n + 1 < prod ds then some (digits ds (n + 1)) else none
  | [], _, n, hn => by
    simp [prod] at hn; subst hn; simp [odoCarry, prod]
  | d :: ds, hpos, n, hn => by
    have hP : 0 < prod ds := prod_pos ds (fun x hx => hpos x (List.mem_cons_of_mem _ hx))
    rw [prod_cons] at hn ⊢
    have hx : n / prod ds < d := (Nat.div_lt_iff_lt_mul hP).2 hn
    have hm : n % prod ds < prod ds := Nat.mod_lt _ hP
    have hdm := Nat.div_add_mod' n (prod ds)
    have ih := carry_digits ds (fun x hx => hpos x (List.mem_cons_of_mem _ hx)) (n % prod ds) hm
    have hlen : (digits ds (n % prod ds)).length = ds.length := digits_length _ _
    show odoCarry (d :: ds) (ds.length + 1) ((n / prod ds) :: digits ds (n % prod ds)) = _
    rw [carry_cons, ih]
    generalize hX : n / prod ds = X at *
    generalize hMm : n % prod ds = Mm at *
    by_cases h1 : Mm + 1 < prod ds
    · -- no overflow of the tail
      have e1 : (n + 1) / prod ds = X := by
        have : n + 1 = X * prod ds + (Mm + 1) := by omega
        rw [this, Nat.add_comm, Nat.add_mul_div_right _ _ hP, Nat.div_eq_of_lt h1]; simp
      have e2 : (n + 1) % prod ds = Mm + 1 := by
        have : n + 1 = X * prod ds + (Mm + 1) := by omega
        rw [this, Nat.add_comm, Nat.add_mul_mod_self_right, Nat.mod_eq_of_lt h1]
      have h2 : n + 1 < d * prod ds := by
        have : (X + 1) * prod ds ≤ d * prod ds := Nat.mul_le_mul_right _ hx
        rw [Nat.add_mul] at this; omega
      simp only [h1, if_true, h2]
      show some (X :: digits ds (Mm + 1)) = some (((n + 1) / prod ds) :: digits ds ((n + 1) % prod ds))
      rw [e1, e2]
    · -- the tail overflows: the head is incremented and the tail reset
      have hMP : Mm + 1 = prod ds := by omega
      have hn1 : n + 1 = (X + 1) * prod ds := by rw [Nat.add_mul]; omega
      have e1 : (n + 1) / prod ds = X + 1 := by rw [hn1]; exact Nat.mul_div_cancel _ hP
      have e2 : (n + 1) % prod ds = 0 := by rw [hn1]; exact Nat.mul_mod_left _ _
      have hreset : resetBelow ds.length (digits ds Mm) = digits ds 0 := by
        rw [resetBelow_eq _ _ (by omega), digits_zero, ← hlen]; simp
      simp only [h1, if_false]
      by_cases h3 : X + 1 < d
      · have h2 : n + 1 < d * prod ds := by
          rw [hn1]; exact Nat.mul_lt_mul_of_pos_right h3 hP
        simp only [h3, if_true, h2, hreset]
        show some ((X + 1) :: digits ds 0) = some (((n + 1) / prod ds) :: digits ds ((n + 1) % prod ds))
        rw [e1, e2]
      · have h2 : ¬ n + 1 < d * prod ds := by
          have : d * prod ds ≤ (X + 1) * prod ds := Nat.mul_le_mul_right _ (by omega)
          omega
        simp only [h3, if_false, h2]

theorem odometer_run (ds : List Nat) (hpos : ∀ d ∈ ds, 0 < d) : ∀ (fuel n : Nat), n + fuel ≤ prod ds →
    odometer ds fuel (digits ds n) = (List.range' n fuel).map (digits ds)
  | 0, _, _ => by simp [odometer]
  | fuel + 1, n, h => by
    have hn : n < prod ds := by omega
    rw [odometer, carry_digits ds hpos n hn, List.range'_succ, List.map_cons]
    by_cases h1 : n + 1 < prod ds
    · simp only [h1, if_true]
      rw [odometer_run ds hpos fuel (n + 1) (by omega)]
    · have : fuel = 0 := by omega
      subst this
      simp [h1]

theorem range_mul_eq (d P : Nat) :
    List.range (d * P) = (List.range d).flatMap fun i => (List.range P).map fun m => i * P + m := by
  induction d with
  | zero => simp
  | succ d ih =>
    rw [Nat.add_mul, Nat.one_mul, List.range_add, ih, List.range_succ, List.flatMap_append]
    simp

/-- the lexicographic enumeration is the digits of `0 … prod-1` -/
theorem lexBox_eq_digits : ∀ (ds : List Nat), (∀ d ∈ ds, 0 < d) →
    lexBox ds = (List.range (prod ds)).map (digits ds)
  | [], _ => by simp [lexBox, prod, digits]
  | d :: ds, hpos => by
    have hP : 0 < prod ds := prod_pos ds (fun x hx => hpos x (List.mem_cons_of_mem _ hx))
    rw [lexBox, lexBox_eq_digits ds (fun x hx => hpos x (List.mem_cons_of_mem _ hx)), prod_cons, range_mul_eq,
      List.map_flatMap]
    congr 1
    funext i
    rw [List.map_map, List.map_map]
    apply List.map_congr_left
    intro m hm
    rw [List.mem_range] at hm
    have e1 : (i * prod ds + m) / prod ds = i := by
      rw [Nat.add_comm, Nat.add_mul_div_right _ _ hP, Nat.div_eq_of_lt hm]; simp
    have e2 : (i * prod ds + m) % prod ds = m := by
      rw [Nat.add_comm, Nat.add_mul_mod_self_right, Nat.mod_eq_of_lt hm]
    simp [digits, e1, e2]

/-- **the odometer visits exactly the states of the recursive Cartesian nest, in the same order** -/
theorem odometer_eq_cartesian (dims : List Nat) (hpos : ∀ d ∈ dims, 0 < d) :
    loopStates .odometer dims = loopStates .recursive dims := by
  simp only [loopStates, cartesian_zeros]
  rw [← digits_zero, odometer_run dims hpos (prod dims) 0 (by omega), lexBox_eq_digits dims hpos,
    List.range_eq_range']

theorem loopStates_mem (v : Variant) (dims as : List Nat) (hpos : ∀ d ∈ dims, 0 < d) :
    as ∈ loopStates v dims ↔ InBox dims as := by
  cases v with
  | recursive => exact loopStates_recursive_mem dims as
  | odometer => rw [odometer_eq_cartesian dims hpos]; exact loopStates_recursive_mem dims as

end Fastor.Permute
