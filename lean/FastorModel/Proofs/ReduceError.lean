import FastorModel.Proofs.Reduce
import Mathlib.Algebra.Order.Ring.Abs
import Mathlib.Algebra.Order.BigOperators.Group.Finset
import Mathlib.Tactic.Linarith
import Mathlib.Tactic.Positivity

/-
  C16: lock-step simulation of three reduction machines (`reduce_sim`) and the rounding-error bound of the summation tree
  the machine fixes, over the abstract rounding model `|fl x - x| ≤ u |x|` (`sum_error_bound`).
-/
namespace Fastor.Reduce
open Fastor Fastor.Expr

/-! ### three machines in lock step -/
section sim
variable {α β γ : Type}

/-- a depth-indexed relation between three values that is preserved by the three operations, the depth growing by one -/
structure SimOps (R : Nat → α → β → γ → Prop) (oa : α → α → α) (ob : β → β → β) (oc : γ → γ → γ) : Prop where
  mono : ∀ d d' a b c, d ≤ d' → R d a b c → R d' a b c
  step : ∀ d1 d2 a1 b1 c1 a2 b2 c2, R d1 a1 b1 c1 → R d2 a2 b2 c2 → R (max d1 d2 + 1) (oa a1 a2) (ob b1 b2) (oc c1 c2)

variable {R : Nat → α → β → γ → Prop} {oa : α → α → α} {ob : β → β → β} {oc : γ → γ → γ}

theorem sim_runTail (h : SimOps R oa ob oc) (ta : Nat → α) (tb : Nat → β) (tc : Nat → γ) (sa : α) (sb : β) (sc : γ)
    (hs : R 0 sa sb sc) (ht : ∀ i, R 0 (ta i) (tb i) (tc i)) (ps : List Nat) :
    R ps.length (runTail oa ta sa ps) (runTail ob tb sb ps) (runTail oc tc sc ps) := by
  unfold runTail
  induction ps using List.reverseRecOn with
  | nil => simpa using hs
  | append_singleton ps p ih =>
    simp only [List.foldl_append, List.foldl_cons, List.foldl_nil, List.length_append, List.length_singleton]
    have := h.step _ _ _ _ _ _ _ _ ih (ht p)
    simpa using this

theorem sim_runVec (h : SimOps R oa ob oc) (ta : Nat → α) (tb : Nat → β) (tc : Nat → γ) (ia : α) (ib : β) (ic : γ)
    (hs : R 0 ia ib ic) (ht : ∀ i, R 0 (ta i) (tb i) (tc i)) (steps : List (Nat × Nat)) (k l : Nat) :
    R steps.length (runVec oa ta ia steps k l) (runVec ob tb ib steps k l) (runVec oc tc ic steps k l) := by
  unfold runVec
  induction steps using List.reverseRecOn generalizing k l with
  | nil => simpa using hs
  | append_singleton steps kp ih =>
    simp only [List.foldl_append, List.foldl_cons, List.foldl_nil, List.length_append, List.length_singleton]
    by_cases hk : k = kp.1
    · simp only [hk, if_true]
      have := h.step _ _ _ _ _ _ _ _ (ih kp.1 l) (ht (kp.2 + l))
      simpa using this
    · simp only [hk, if_false]
      exact h.mono _ _ _ _ _ (Nat.le_succ _) (ih k l)

theorem sim_foldl_range (h : SimOps R oa ob oc) (m : Nat) (fa : Nat → α) (fb : Nat → β) (fc : Nat → γ)
    (hf : ∀ k, R m (fa k) (fb k) (fc k)) (a0 : α) (b0 : β) (c0 : γ) (h0 : R m a0 b0 c0) (j : Nat) :
    R (m + j) ((List.range j).foldl (fun a k => oa a (fa k)) a0) ((List.range j).foldl (fun a k => ob a (fb k)) b0)
      ((List.range j).foldl (fun a k => oc a (fc k)) c0) := by
  induction j with
  | zero => simpa using h0
  | succ j ih =>
    rw [List.range_succ]
    simp only [List.foldl_append, List.foldl_cons, List.foldl_nil]
    have := h.step _ _ _ _ _ _ _ _ ih (hf j)
    have e : max (m + j) m + 1 = m + (j + 1) := by omega
    rw [e] at this; exact this

/-- lock-step run of the whole reduction: depth `#vector steps + U + V + #tail + 1` -/
theorem reduce_sim (h : SimOps R oa ob oc) (ta : Nat → α) (tb : Nat → β) (tc : Nat → γ) (ea : α) (eb : β) (ec : γ)
    (hs : R 0 ea eb ec) (ht : ∀ i, R 0 (ta i) (tb i) (tc i)) (U : Nat) (us : List Nat) (n V : Nat) :
    R ((vecSteps n V us).length + U + V + (tailPos n V us).length + 1)
      (reduce ⟨oa, ea, ea, ea, U, us⟩ ta n V) (reduce ⟨ob, eb, eb, eb, U, us⟩ tb n V) (reduce ⟨oc, ec, ec, ec, U, us⟩ tc n V) := by
  unfold reduce
  simp only []
  set m := (vecSteps n V us).length
  have hv := fun k l => sim_runVec h ta tb tc ea eb ec hs ht (vecSteps n V us) k l
  have hc : ∀ l, R (m + (U - 1)) (combine oa U (runVec oa ta ea (vecSteps n V us)) l)
      (combine ob U (runVec ob tb eb (vecSteps n V us)) l) (combine oc U (runVec oc tc ec (vecSteps n V us)) l) := by
    intro l
    unfold combine
    exact sim_foldl_range h m _ _ _ (fun k => hv (k + 1) l) _ _ _ (hv 0 l) (U - 1)
  have hh := sim_foldl_range h (m + (U - 1)) _ _ _ hc ea eb ec (h.mono _ _ _ _ _ (Nat.zero_le _) hs) V
  have htl := sim_runTail h ta tb tc ea eb ec hs ht (tailPos n V us)
  have := h.step _ _ _ _ _ _ _ _ hh htl
  unfold hfold
  refine h.mono _ _ _ _ _ ?_ this
  omega
end sim

/-! ### the rounding-error bound of the summation tree -/
section err
variable {K : Type} [CommRing K] [LinearOrder K] [IsStrictOrderedRing K]

/-- computed value `a`, exact value `e`, sum of magnitudes `s` at depth `d` -/
def ErrRel (u : K) (d : Nat) (a e s : K) : Prop := |a - e| ≤ ((1 + u) ^ d - 1) * s ∧ |e| ≤ s

theorem errRel_simOps (u : K) (hu : 0 ≤ u) (fl : K → K) (hfl : ∀ x, |fl x - x| ≤ u * |x|) :
    SimOps (ErrRel u) (fun a b => fl (a + b)) (· + ·) (· + ·) := by
  have h1u : (1 : K) ≤ 1 + u := by linarith
  constructor
  · intro d d' a e s hdd ⟨h1, h2⟩
    refine ⟨le_trans h1 ?_, h2⟩
    have hs : 0 ≤ s := le_trans (abs_nonneg e) h2
    have : (1 + u) ^ d ≤ (1 + u) ^ d' := pow_le_pow_right₀ h1u hdd
    exact mul_le_mul_of_nonneg_right (by linarith) hs
  · intro d1 d2 a1 e1 s1 a2 e2 s2 ⟨h1, g1⟩ ⟨h2, g2⟩
    have hs1 : 0 ≤ s1 := le_trans (abs_nonneg e1) g1
    have hs2 : 0 ≤ s2 := le_trans (abs_nonneg e2) g2
    set d := max d1 d2
    have p1 : (1 + u) ^ d1 ≤ (1 + u) ^ d := pow_le_pow_right₀ h1u (le_max_left _ _)
    have p2 : (1 + u) ^ d2 ≤ (1 + u) ^ d := pow_le_pow_right₀ h1u (le_max_right _ _)
    have hp : (1 : K) ≤ (1 + u) ^ d := one_le_pow₀ h1u
    have E1 : |a1 - e1| ≤ ((1 + u) ^ d - 1) * s1 := le_trans h1 (mul_le_mul_of_nonneg_right (by linarith) hs1)
    have E2 : |a2 - e2| ≤ ((1 + u) ^ d - 1) * s2 := le_trans h2 (mul_le_mul_of_nonneg_right (by linarith) hs2)
    refine ⟨?_, le_trans (abs_add_le e1 e2) (add_le_add g1 g2)⟩
    -- |fl(a1+a2) - (e1+e2)| ≤ u|a1+a2| + |a1-e1| + |a2-e2|
    have t1 : |fl (a1 + a2) - (e1 + e2)| ≤ |fl (a1 + a2) - (a1 + a2)| + (|a1 - e1| + |a2 - e2|) := by
      have : fl (a1 + a2) - (e1 + e2) = (fl (a1 + a2) - (a1 + a2)) + ((a1 - e1) + (a2 - e2)) := by ring
      rw [this]
      exact le_trans (abs_add_le _ _) (add_le_add le_rfl (abs_add_le _ _))
    have t2 : |a1 + a2| ≤ (s1 + s2) + (|a1 - e1| + |a2 - e2|) := by
      have : a1 + a2 = (e1 + e2) + ((a1 - e1) + (a2 - e2)) := by ring
      rw [this]
      refine le_trans (abs_add_le _ _) (add_le_add (le_trans (abs_add_le _ _) (add_le_add g1 g2)) (abs_add_le _ _))
    have t3 := hfl (a1 + a2)
    have t4 : u * |a1 + a2| ≤ u * ((s1 + s2) + (|a1 - e1| + |a2 - e2|)) := mul_le_mul_of_nonneg_left t2 hu
    have hE : |a1 - e1| + |a2 - e2| ≤ ((1 + u) ^ d - 1) * (s1 + s2) := by
      have := add_le_add E1 E2; rw [← mul_add] at this; exact this
    have key : u * (s1 + s2) + (1 + u) * (((1 + u) ^ d - 1) * (s1 + s2)) = ((1 + u) ^ (d + 1) - 1) * (s1 + s2) := by
      rw [pow_succ]; ring
    have hmul : (1 + u) * (|a1 - e1| + |a2 - e2|) ≤ (1 + u) * (((1 + u) ^ d - 1) * (s1 + s2)) :=
      mul_le_mul_of_nonneg_left hE (by linarith)
    calc |fl (a1 + a2) - (e1 + e2)| ≤ u * ((s1 + s2) + (|a1 - e1| + |a2 - e2|)) + (|a1 - e1| + |a2 - e2|) := by linarith
      _ = u * (s1 + s2) + (1 + u) * (|a1 - e1| + |a2 - e2|) := by ring
      _ ≤ u * (s1 + s2) + (1 + u) * (((1 + u) ^ d - 1) * (s1 + s2)) := by linarith
      _ = ((1 + u) ^ (d + 1) - 1) * (s1 + s2) := key



/-- **rounding-error bound of the reduction machine** over the standard model `|fl x - x| ≤ u |x|`: with every addition
    rounded (`a ⊕ b = fl (a + b)`; with FMA the term `x_i * y_i` is not rounded separately), for every admissible ladder,
    width and size, `|computed - Σ term| ≤ ((1+u)^depth - 1) · Σ |term|`. -/
theorem sum_error_bound (u : K) (hu : 0 ≤ u) (fl : K → K) (hfl : ∀ x, |fl x - x| ≤ u * |x|)
    (term : Nat → K) (U : Nat) (us : List Nat) (n V : Nat) (hn : n < 2 ^ 64) (hg : GoodLadder V us)
    (hU : ∀ u' ∈ us, u' ≤ U) (hU0 : 0 < U) :
    |reduce ⟨fun a b => fl (a + b), 0, 0, 0, U, us⟩ term n V - ∑ i ∈ Finset.range n, term i|
      ≤ ((1 + u) ^ depth n V U us - 1) * ∑ i ∈ Finset.range n, |term i| := by
  have hsim := reduce_sim (errRel_simOps u hu fl hfl) term term (fun i => |term i|) 0 0 0
    (by constructor <;> simp) (by intro i; constructor <;> simp) U us n V
  rw [reduce_op (· + ·) (0 : K) add_assoc add_comm zero_add term U us n V hn hg hU hU0,
      reduce_op (· + ·) (0 : K) add_assoc add_comm zero_add (fun i => |term i|) U us n V hn hg hU hU0,
      foldl_add_eq_sum, foldl_add_eq_sum] at hsim
  exact hsim.1

theorem flat_length (V : Nat) (steps : List (Nat × Nat)) : (flat V steps).length = V * steps.length := by
  unfold flat
  induction steps with
  | nil => simp
  | cons kp steps ih => simp [List.flatMap_cons, Nat.mul_succ, Nat.add_comm, Nat.mul_comm]

/-- the depth is at most `n + U + V + 1` (each vector step and each tail step consumes at least one element) -/
theorem depth_le (n V U : Nat) (us : List Nat) (hn : n < 2 ^ 64) (hg : GoodLadder V us) (hV : 0 < V) :
    depth n V U us ≤ n + U + V + 1 := by
  have hc := congrArg List.length (coverage n V us hn hg)
  rw [List.length_append, flat_length, List.length_range] at hc
  have : (vecSteps n V us).length ≤ V * (vecSteps n V us).length := Nat.le_mul_of_pos_left _ hV
  unfold depth; omega
end err
end Fastor.Reduce
