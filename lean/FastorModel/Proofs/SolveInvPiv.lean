import FastorModel.Proofs.Solve
import FastorModel.Proofs.LUReconstruct
/-
  `solve<SolveCompType::SimpleInvPiv>`: `reconstruct_colwise(inverse(P*A), p)` is `A⁻¹`.
-/
namespace Fastor.LU
open Finset

variable {K : Type} [Field K]

/-- the column scatter of `reconstruct_colwise`: with a bijective `p`, column `p(i)` of the result is column `i` of the argument -/
theorem reconstructColwise_get (n : Nat) (A : Mat K) (perm : Array Nat)
    (hlt : ∀ i, i < n → perm.getD i 0 < n)
    (hinj : ∀ i j, i < n → j < n → perm.getD i 0 = perm.getD j 0 → i = j)
    (hsurj : ∀ v, v < n → ∃ i, i < n ∧ perm.getD i 0 = v)
    (r i : Nat) (hr : r < n) (hi : i < n) :
    (reconstructColwise n A perm).get r (perm.getD i 0) = A.get r i := by
  classical
  let q : Nat → Nat := fun c => if h : c < n then Classical.choose (hsurj c h) else c
  have hq1 : ∀ c, c < n → q c < n := fun c hc => by simp only [q, dif_pos hc]; exact (Classical.choose_spec (hsurj c hc)).1
  have hq2 : ∀ c, c < n → perm.getD (q c) 0 = c := fun c hc => by simp only [q, dif_pos hc]; exact (Classical.choose_spec (hsurj c hc)).2
  have hq3 : ∀ i, i < n → q (perm.getD i 0) = i := fun i hi =>
    hinj _ _ (hq1 _ (hlt i hi)) hi (hq2 _ (hlt i hi))
  have key : ∀ m, m ≤ n → ∀ r c, r < n → c < n →
      ((List.range m).foldl (fun (C : Mat K) i =>
        if perm.getD i 0 ≠ i then Mat.ofFn n n fun r c => if c = perm.getD i 0 then A.get r i else C.get r c else C) (Mat.copy n n A)).get r c =
        if q c < m ∧ perm.getD (q c) 0 ≠ q c then A.get r (q c) else A.get r c := by
    intro m
    induction m with
    | zero => intro _ r c hr hc; simp [Mat.copy, Mat.get_ofFn, hr, hc]
    | succ m ih =>
      intro hm r c hr hc
      rw [List.range_succ, List.foldl_append]
      simp only [List.foldl_cons, List.foldl_nil]
      have ih' := ih (by omega)
      by_cases hpm : perm.getD m 0 = m
      · rw [if_neg (by simpa using hpm), ih' r c hr hc]
        by_cases hqc : q c = m
        · have : ¬ (q c < m) := by omega
          rw [if_neg (fun h => this h.1), if_neg (fun h => h.2 (by rw [hqc]; exact hpm))]
        · have : (q c < m + 1 ∧ perm.getD (q c) 0 ≠ q c) ↔ (q c < m ∧ perm.getD (q c) 0 ≠ q c) := by
            constructor
            · rintro ⟨a, b⟩; exact ⟨by omega, b⟩
            · rintro ⟨a, b⟩; exact ⟨by omega, b⟩
          simp only [this]
      · rw [if_pos (by simpa using hpm), Mat.get_ofFn, if_pos ⟨hr, hc⟩]
        by_cases hcp : c = perm.getD m 0
        · have hqc : q c = m := by rw [hcp]; exact hq3 m (by omega)
          rw [if_pos hcp, if_pos ⟨by omega, by rw [hqc]; exact hpm⟩, hqc]
        · have hqc : q c ≠ m := fun h => hcp (by rw [← h]; exact (hq2 c hc).symm)
          rw [if_neg hcp, ih' r c hr hc]
          have : (q c < m + 1 ∧ perm.getD (q c) 0 ≠ q c) ↔ (q c < m ∧ perm.getD (q c) 0 ≠ q c) := by
            constructor
            · rintro ⟨a, b⟩; exact ⟨by omega, b⟩
            · rintro ⟨a, b⟩; exact ⟨by omega, b⟩
          simp only [this]
  have e : reconstructColwise n A perm = (List.range n).foldl (fun (C : Mat K) i =>
        if perm.getD i 0 ≠ i then Mat.ofFn n n fun r c => if c = perm.getD i 0 then A.get r i else C.get r c else C) (Mat.copy n n A) := rfl
  rw [e, key n (Nat.le_refl _) r _ hr (hlt i hi), hq3 i hi]
  by_cases h : perm.getD i 0 = i
  · rw [if_neg (fun hh => hh.2 h), h]
  · rw [if_pos ⟨hi, h⟩]

/-- `solve<SimpleInvPiv>(A,B) = matmul(reconstruct_colwise(inverse(P*A), p), B)`: if `inverse` returns a right inverse of `P*A`
and `p` is a bijection then `A * X = B` — every size, every number of columns (vector and matrix overloads alike). -/
theorem solve_invPiv_solves (n c : Nat) (A B invPA : Mat K) (perm : Array Nat)
    (hlt : ∀ i, i < n → perm.getD i 0 < n)
    (hinj : ∀ i j, i < n → j < n → perm.getD i 0 = perm.getD j 0 → i = j)
    (hsurj : ∀ v, v < n → ∃ i, i < n ∧ perm.getD i 0 = v)
    (hinv : ∀ i m, i < n → m < n → ∑ k ∈ range n, (applyPivotV n A perm).get i k * invPA.get k m = if i = m then 1 else 0)
    (r j : Nat) (hr : r < n) (hj : j < c) :
    ∑ k ∈ range n, A.get r k * (Mat.mul n n c (reconstructColwise n invPA perm) B).get k j = B.get r j := by
  obtain ⟨i, hi, ei⟩ := hsurj r hr
  -- A(r,·) = (PA)(i,·)
  have hA : ∀ k, k < n → A.get r k = (applyPivotV n A perm).get i k := by
    intro k hk; rw [applyPivotV_get n A perm i k hi hk, ei]
  have e1 : ∀ k ∈ range n, A.get r k * (Mat.mul n n c (reconstructColwise n invPA perm) B).get k j =
      (applyPivotV n A perm).get i k * ∑ m ∈ range n, (reconstructColwise n invPA perm).get k m * B.get m j := by
    intro k hk; have hk' := mem_range.1 hk
    rw [get_mul _ _ _ _ _ _ _ hk' hj, hA k hk']
  rw [sum_congr rfl e1, sum_assoc_left]
  -- (PA * C)(i, m) = δ(p i, m)
  have e2 : ∀ m ∈ range n, (∑ k ∈ range n, (applyPivotV n A perm).get i k * (reconstructColwise n invPA perm).get k m) * B.get m j =
      if r = m then B.get m j else 0 := by
    intro m hm; have hm' := mem_range.1 hm
    obtain ⟨t, ht, et⟩ := hsurj m hm'
    have : ∀ k ∈ range n, (applyPivotV n A perm).get i k * (reconstructColwise n invPA perm).get k m =
        (applyPivotV n A perm).get i k * invPA.get k t := by
      intro k hk
      rw [← et, reconstructColwise_get n invPA perm hlt hinj hsurj k t (mem_range.1 hk) ht]
    rw [sum_congr rfl this, hinv i t hi ht]
    by_cases hit : i = t
    · have : r = m := by rw [← ei, ← et, hit]
      simp [hit, this]
    · have : r ≠ m := fun h => hit (hinj i t hi ht (by rw [ei, et, h]))
      simp [hit, this]
  rw [sum_congr rfl e2, sum_ite_eq]; simp [hr]

end Fastor.LU
