import FastorModel.Proofs.PermuteMeta
import Batteries.Data.List.Perm
/-
  `permute_mapped_index_t<Index<R...>, Index<O...>>` on arbitrary label packs (as the explicit-output einsum calls it):
  for distinct labels `R` and a rearrangement `O` of them it is "the position in `R` of each label of `O`".
  Route: the sorting metafunctions only compare values, so they are invariant under the order isomorphism
  label ↦ rank, which turns a distinct pack into a permutation of `0..n-1` (covered by PermuteMeta).
-/
namespace Fastor.Permute

/-- `g` preserves and reflects `≤` on the set `S` -/
def OrdIso (S : Nat → Prop) (g : Nat → Nat) : Prop := ∀ x y, S x → S y → (x ≤ y ↔ g x ≤ g y)

theorem OrdIso.lt {S g} (h : OrdIso S g) {x y} (hx : S x) (hy : S y) : x < y ↔ g x < g y := by
  have := h y x hy hx; omega

theorem OrdIso.inj {S g} (h : OrdIso S g) {x y} (hx : S x) (hy : S y) (e : g x = g y) : x = y := by
  have h1 := (h x y hx hy).2 (by omega); have h2 := (h y x hy hx).2 (by omega); omega

theorem OrdIso.min {S g} (h : OrdIso S g) {m n} (hm : S m) (hn : S n) :
    (if g m ≤ g n then g m else g n) = g (if m ≤ n then m else n) := by
  by_cases c : m ≤ n
  · simp [c, (h m n hm hn).1 c]
  · have : ¬ g m ≤ g n := fun c' => c ((h m n hm hn).2 c')
    simp [c, this]

theorem metaMin_cons2 (m n r : Nat) (rs : List Nat) : metaMin m (n :: r :: rs) =
    if (if m ≤ n then m else n) ≤ metaMin (if m ≤ n then m else n) (r :: rs) then (if m ≤ n then m else n)
    else metaMin (if m ≤ n then m else n) (r :: rs) := rfl

theorem metaMin_mem (l : List Nat) (m : Nat) : metaMin m l ∈ m :: l := by
  rcases (metaMin_spec l m).2 with h | h
  · rw [h]; simp
  · exact List.mem_cons_of_mem _ h

theorem metaMin_map {S g} (h : OrdIso S g) : ∀ (l : List Nat) (m : Nat), S m → (∀ x ∈ l, S x) →
    metaMin (g m) (l.map g) = g (metaMin m l)
  | [], m, _, _ => rfl
  | [n], m, hm, hl => by
    show (if g m ≤ g n then g m else g n) = g (if m ≤ n then m else n)
    exact h.min hm (hl n (by simp))
  | n :: r :: rs, m, hm, hl => by
    have hn : S n := hl n (by simp)
    have hp : S (if m ≤ n then m else n) := by split <;> assumption
    have hrs : ∀ x ∈ r :: rs, S x := fun x hx => hl x (List.mem_cons_of_mem _ hx)
    have ih := metaMin_map h (r :: rs) (if m ≤ n then m else n) hp hrs
    simp only [List.map_cons] at ih ⊢
    rw [metaMin_cons2, metaMin_cons2, h.min hm hn, ih]
    have hmm : S (metaMin (if m ≤ n then m else n) (r :: rs)) := by
      rcases List.mem_cons.1 (metaMin_mem (r :: rs) (if m ≤ n then m else n)) with e | e
      · rw [e]; exact hp
      · exact hrs _ e
    by_cases c : (if m ≤ n then m else n) ≤ metaMin (if m ≤ n then m else n) (r :: rs)
    · simp [c, (h _ _ hp hmm).1 c]
    · have : ¬ g (if m ≤ n then m else n) ≤ g (metaMin (if m ≤ n then m else n) (r :: rs)) :=
        fun c' => c ((h _ _ hp hmm).2 c')
      simp [c, this]

theorem metaArgmin_cons (m n r : Nat) (rs : List Nat) : metaArgmin m n (r :: rs) =
    if (if m ≤ n then m else n) ≤ metaMin (if m ≤ n then m else n) (r :: rs) then (if m < n then 0 else 1)
    else metaArgmin (if m ≤ n then m else n) r rs + 1 := rfl

theorem metaArgmin_map {S g} (h : OrdIso S g) : ∀ (rest : List Nat) (m n : Nat), S m → S n → (∀ x ∈ rest, S x) →
    metaArgmin (g m) (g n) (rest.map g) = metaArgmin m n rest
  | [], m, n, hm, hn, _ => by
    show (if g m < g n then 0 else 1) = (if m < n then 0 else 1)
    by_cases c : m < n
    · simp [c, (h.lt hm hn).1 c]
    · have : ¬ g m < g n := fun c' => c ((h.lt hm hn).2 c')
      simp [c, this]
  | r :: rs, m, n, hm, hn, hl => by
    have hp : S (if m ≤ n then m else n) := by split <;> assumption
    have hr : S r := hl r (by simp)
    have hrs : ∀ x ∈ rs, S x := fun x hx => hl x (List.mem_cons_of_mem _ hx)
    have ih := metaArgmin_map h rs (if m ≤ n then m else n) r hp hr hrs
    have hmin := metaMin_map h (r :: rs) (if m ≤ n then m else n) hp hl
    simp only [List.map_cons] at hmin ⊢
    rw [metaArgmin_cons, metaArgmin_cons, h.min hm hn, hmin, ih]
    have hmm : S (metaMin (if m ≤ n then m else n) (r :: rs)) := by
      rcases List.mem_cons.1 (metaMin_mem (r :: rs) (if m ≤ n then m else n)) with e | e
      · rw [e]; exact hp
      · exact hl _ e
    have e1 : (g (if m ≤ n then m else n) ≤ g (metaMin (if m ≤ n then m else n) (r :: rs))) ↔
        ((if m ≤ n then m else n) ≤ metaMin (if m ≤ n then m else n) (r :: rs)) := (h _ _ hp hmm).symm
    have e2 : (g m < g n) ↔ (m < n) := (h.lt hm hn).symm
    simp only [e1, e2]

theorem argminOf_map {S g} (h : OrdIso S g) (vals : List Nat) (hv : ∀ x ∈ vals, S x) :
    argminOf (vals.map g) = argminOf vals := by
  match vals, hv with
  | [], _ => rfl
  | [_], _ => rfl
  | m :: n :: rest, hv =>
    exact metaArgmin_map h rest m n (hv m (by simp)) (hv n (by simp)) (fun x hx => hv x (by simp [hx]))

theorem filterOut_map {S g} (h : OrdIso S g) (v : Nat) (hv : S v) (vals : List Nat) (hs : ∀ x ∈ vals, S x) :
    filterOut (g v) (vals.map g) = (filterOut v vals).map g := by
  unfold filterOut
  rw [List.filter_map]
  congr 1
  apply List.filter_congr
  intro x hx
  by_cases e : x = v
  · subst e; simp
  · have hne : g x ≠ g v := fun e' => e (h.inj (hs x hx) hv e')
    show (g x != g v) = (x != v)
    rw [bne_iff_ne.2 hne, bne_iff_ne.2 e]

/-- **the selection sort only looks at the order of the values** -/
theorem metaArgsortAux_map {S g} (h : OrdIso S g) : ∀ (fuel : Nat) (vals ss : List Nat), (∀ x ∈ vals, S x) →
    metaArgsortAux fuel (vals.map g) ss = metaArgsortAux fuel vals ss
  | 0, _, _, _ => rfl
  | fuel + 1, [], ss, _ => by
    simp only [List.map_nil, metaArgsortAux]
  | fuel + 1, [v], ss, _ => rfl
  | fuel + 1, v1 :: v2 :: vs, ss, hv => by
    have hk := argminOf_map h (v1 :: v2 :: vs) hv
    obtain ⟨a1, a2, _⟩ := argminOf_spec (v1 :: v2 :: vs) (by simp)
    have hlv : ((v1 :: v2 :: vs).map g).getD (argminOf (v1 :: v2 :: vs)) 0 = g ((v1 :: v2 :: vs).getD (argminOf (v1 :: v2 :: vs)) 0) :=
      getD_map_lt g _ _ a1
    have hS : S ((v1 :: v2 :: vs).getD (argminOf (v1 :: v2 :: vs)) 0) := hv _ a2
    have e1 : metaArgsortAux (fuel + 1) ((v1 :: v2 :: vs).map g) ss =
        ss.getD (argminOf ((v1 :: v2 :: vs).map g)) 0 ::
          metaArgsortAux fuel (filterOut (((v1 :: v2 :: vs).map g).getD (argminOf ((v1 :: v2 :: vs).map g)) 0) ((v1 :: v2 :: vs).map g))
            (filterOut (ss.getD (argminOf ((v1 :: v2 :: vs).map g)) 0) ss) := rfl
    have e2 : metaArgsortAux (fuel + 1) (v1 :: v2 :: vs) ss =
        ss.getD (argminOf (v1 :: v2 :: vs)) 0 ::
          metaArgsortAux fuel (filterOut ((v1 :: v2 :: vs).getD (argminOf (v1 :: v2 :: vs)) 0) (v1 :: v2 :: vs))
            (filterOut (ss.getD (argminOf (v1 :: v2 :: vs)) 0) ss) := rfl
    rw [e1, e2, hk, hlv, filterOut_map h _ hS _ hv]
    rw [metaArgsortAux_map h fuel (filterOut ((v1 :: v2 :: vs).getD (argminOf (v1 :: v2 :: vs)) 0) (v1 :: v2 :: vs)) _
      (fun x hx => hv x (List.mem_filter.1 hx).1)]

theorem metaArgsort_map {S g} (h : OrdIso S g) (vals : List Nat) (hv : ∀ x ∈ vals, S x) :
    metaArgsort (vals.map g) = metaArgsort vals := by
  unfold metaArgsort
  rw [List.length_map, metaArgsortAux_map h _ _ _ hv]

/-! ### the rank map of a distinct pack -/

theorem countP_lt_add_one (l : List Nat) (x y : Nat) (hy : y ∈ l) (hyx : y < x) :
    l.countP (fun e => decide (e < y)) + 1 ≤ l.countP (fun e => decide (e < x)) := by
  induction l with
  | nil => simp at hy
  | cons a l ih =>
    simp only [List.countP_cons]
    rcases List.mem_cons.1 hy with e | e
    · subst e
      have : l.countP (fun e => decide (e < y)) ≤ l.countP (fun e => decide (e < x)) :=
        List.countP_mono_left (fun z _ hz => by simp at hz ⊢; omega)
      simp [hyx]; omega
    · have := ih e
      by_cases c : a < y
      · have : a < x := by omega
        simp [c, this]; omega
      · simp [c]; split <;> omega

theorem rank_ordIso (R : List Nat) : OrdIso (· ∈ R) (countLess R) := by
  intro x y hx hy
  rw [countLess_eq_countP, countLess_eq_countP]
  constructor
  · intro hle
    exact List.countP_mono_left (fun z _ hz => by simp at hz ⊢; omega)
  · intro hle
    by_cases c : x ≤ y
    · exact c
    · have := countP_lt_add_one R x y hy (by omega)
      omega

theorem perm_range_of_nodup {l : List Nat} (hn : l.Nodup) (hlt : ∀ x ∈ l, x < l.length) : l.Perm (List.range l.length) := by
  have hsub : l ⊆ List.range l.length := fun x hx => List.mem_range.2 (hlt x hx)
  exact (List.subperm_of_subset hn hsub).perm_of_length_le (by simp)

theorem countP_lt_length_of_mem : ∀ (l : List Nat) (x : Nat), x ∈ l → l.countP (fun e => decide (e < x)) < l.length
  | [], _, h => by simp at h
  | a :: l, x, h => by
    simp only [List.countP_cons, List.length_cons]
    rcases List.mem_cons.1 h with e | e
    · subst e
      have := List.countP_le_length (p := fun e => decide (e < x)) (l := l)
      simp; omega
    · have := countP_lt_length_of_mem l x e
      split <;> omega

theorem nodup_map_of_inj {g : Nat → Nat} : ∀ (l : List Nat), l.Nodup → (∀ a ∈ l, ∀ b ∈ l, g a = g b → a = b) → (l.map g).Nodup
  | [], _, _ => by simp
  | a :: l, hn, hinj => by
    rw [List.nodup_cons] at hn
    rw [List.map_cons, List.nodup_cons]
    refine ⟨?_, nodup_map_of_inj l hn.2 (fun x hx y hy => hinj x (List.mem_cons_of_mem _ hx) y (List.mem_cons_of_mem _ hy))⟩
    intro hmem
    obtain ⟨b, hb, e⟩ := List.mem_map.1 hmem
    have := hinj b (List.mem_cons_of_mem _ hb) a (by simp) e
    exact hn.1 (this ▸ hb)

theorem countLess_lt_length {R : List Nat} (hn : R.Nodup) {x : Nat} (hx : x ∈ R) : countLess R x < R.length := by
  rw [countLess_eq_countP]
  exact countP_lt_length_of_mem R x hx

/-- the ranks of a distinct pack are a permutation of `0..n-1` -/
theorem ranks_perm {R : List Nat} (hn : R.Nodup) : (R.map (countLess R)).Perm (List.range R.length) := by
  have hiso := rank_ordIso R
  have hnd : (R.map (countLess R)).Nodup := nodup_map_of_inj R hn (fun x hx y hy e => hiso.inj hx hy e)
  have := perm_range_of_nodup hnd (by
    intro r hr
    obtain ⟨x, hx, rfl⟩ := List.mem_map.1 hr
    rw [List.length_map]; exact countLess_lt_length hn hx)
  rw [List.length_map] at this; exact this

/-- `get_floor_map(meta_argsort(R))` is the rank of every label -/
theorem floorMap_argsort_ranks {R : List Nat} (hn : R.Nodup) (hne : R ≠ []) :
    floorMap (metaArgsort R) = R.map (countLess R) := by
  have hr : 0 < R.length := List.length_pos_iff.2 hne
  have hp := ranks_perm hn
  have h1 := isInv_metaArgsort hr hp
  rw [metaArgsort_map (rank_ordIso R) R (fun _ hx => hx)] at h1
  exact floorMap_eq h1

theorem idxOf_map_inj {g : Nat → Nat} : ∀ (R : List Nat) (y : Nat), y ∈ R → (∀ a ∈ R, ∀ b ∈ R, g a = g b → a = b) →
    (R.map g).idxOf (g y) = R.idxOf y
  | [], _, hy, _ => by simp at hy
  | a :: R, y, hy, hinj => by
    simp only [List.map_cons, List.idxOf_cons]
    by_cases e : a = y
    · subst e; simp
    · have hy' : y ∈ R := by rcases List.mem_cons.1 hy with h | h; exact absurd h.symm e; exact h
      have : g a ≠ g y := fun e' => e (hinj a (by simp) y hy e')
      have b1 : (g a == g y) = false := by simpa using this
      have b2 : (a == y) = false := by simpa using e
      rw [b1, b2, idxOf_map_inj R y hy' (fun a ha b hb => hinj a (List.mem_cons_of_mem _ ha) b (List.mem_cons_of_mem _ hb))]

/-- **`permute_mapped_index_t<Index<R...>,Index<O...>>`** for distinct labels `R` and a rearrangement `O` of them:
    entry `n` is the position in `R` of the label `O[n]` — so `permute` by it puts the axis labelled `O[n]` at place `n` -/
theorem mappedIndex2_spec {R O : List Nat} (hn : R.Nodup) (hne : R ≠ []) (hO : O.Perm R) :
    mappedIndex2 R O = O.map (fun y => R.idxOf y) := by
  have hOn : O.Nodup := hO.nodup_iff.2 hn
  have hOne : O ≠ [] := by
    intro e; rw [e] at hO; exact hne (List.Perm.eq_nil hO.symm)
  have hcl : ∀ x, countLess O x = countLess R x := by
    intro x; rw [countLess_eq_countP, countLess_eq_countP, hO.countP_eq]
  unfold mappedIndex2
  simp only [floorMap_argsort_ranks hn hne, floorMap_argsort_ranks hOn hOne]
  unfold findPermutation
  rw [List.length_map]
  apply ext_getD (by simp)
  intro k hk
  simp only [List.length_map, List.length_range] at hk
  have hkO : k < O.length := hk
  have hgk : (List.range O.length).getD k 0 = k := by
    simp [List.getD_eq_getElem?_getD, List.getElem?_range hk]
  have e1 : (List.map (countLess O) O).getD k 0 = countLess O (O.getD k 0) := getD_map_lt _ O k hkO
  have e2 : (O.map fun y => R.idxOf y).getD k 0 = R.idxOf (O.getD k 0) := getD_map_lt _ O k hkO
  rw [getD_map_lt _ _ k (by simpa using hk), hgk, e1, e2, hcl]
  have hmem : O.getD k 0 ∈ R := by
    rw [getD_eq_getElem' O k hkO]; exact (hO.mem_iff).1 (List.getElem_mem _)
  exact idxOf_map_inj R _ hmem (fun a ha b hb e => (rank_ordIso R).inj ha hb e)

theorem map_idxOf_self {R : List Nat} (hn : R.Nodup) : R.map (fun y => R.idxOf y) = List.range R.length := by
  apply ext_getD (by simp)
  intro k hk
  rw [List.length_map] at hk
  rw [getD_map_lt _ R k hk, getD_eq_getElem' R k hk, hn.idxOf_getElem k hk]
  simp [List.getD_eq_getElem?_getD, List.getElem?_range hk]

/-- … and it is a permutation of `0..n-1`, so `permute_correct` applies to the `permute<mapped_index>` that ends the
    explicit-output einsum -/
theorem mappedIndex2_perm {R O : List Nat} (hn : R.Nodup) (hne : R ≠ []) (hO : O.Perm R) :
    (mappedIndex2 R O).Perm (List.range R.length) := by
  rw [mappedIndex2_spec hn hne hO, ← map_idxOf_self hn]
  exact hO.map _

end Fastor.Permute
