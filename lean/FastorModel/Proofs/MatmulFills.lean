import FastorModel.Proofs.Fills
import FastorModel.Model.Matmul
/-
  Index-level correctness of the generic matmul kernels: each kernel model `Fills` the `M × N` grid.
-/
namespace Fastor.Matmul
open Fastor

theorem mem_rowsFrom {i n r : Nat} : r ∈ rowsFrom i n ↔ i ≤ r ∧ r < i + n := by
  unfold rowsFrom
  simp only [List.mem_map, List.mem_range]
  constructor
  · rintro ⟨t, ht, rfl⟩; omega
  · rintro ⟨h1, h2⟩; exact ⟨r - i, by omega, by omega⟩

theorem mem_colsAsc {j w c : Nat} : c ∈ colsAsc j w ↔ j ≤ c ∧ c < j + w := mem_rowsFrom

theorem mem_colsDesc {j w c : Nat} : c ∈ colsDesc j w ↔ j ≤ c ∧ c < j + w := by
  unfold colsDesc
  simp only [List.mem_map, List.mem_range]
  constructor
  · rintro ⟨t, ht, rfl⟩; omega
  · rintro ⟨h1, h2⟩; exact ⟨j + w - 1 - c, by omega, by omega⟩

theorem mem_maskCols {masks : Bool} {j w c : Nat} : c ∈ maskCols masks j w ↔ j ≤ c ∧ c < j + w := by
  unfold maskCols; split
  · exact mem_colsAsc
  · exact mem_colsDesc

theorem mem_cellEvents {rows cols : List Nat} {kk st : Nat} {e : St} :
    e ∈ cellEvents rows cols kk st ↔ e.r ∈ rows ∧ e.c ∈ cols ∧ e.kk = kk ∧ e.style = st ∧ e.k0 = 0 := by
  unfold cellEvents
  simp only [List.mem_flatMap, List.mem_map]
  constructor
  · rintro ⟨r, hr, c, hc, rfl⟩; exact ⟨hr, hc, rfl, rfl, rfl⟩
  · rintro ⟨hr, hc, hk, hs, h0⟩
    refine ⟨e.r, hr, e.c, hc, ?_⟩
    cases e; simp_all

/-- a complete matmul store event: all `K` terms from the first, in one of the three orders -/
def Complete (K : Nat) (e : St) : Prop := e.k0 = 0 ∧ e.kk = K ∧ e.style ≤ 2

variable {N K : Nat}

theorem fills_block (rows cols : List Nat) (st : Nat) (hst : st ≤ 2) :
    Fills N (Complete K) [block K rows cols st] (· ∈ rows) (· ∈ cols) := by
  refine ⟨?_, ?_, ?_⟩
  · intro s hs; simp only [List.mem_singleton] at hs; subst hs
    exact ⟨by simp [block]⟩
  · intro s hs e he; simp only [List.mem_singleton] at hs; subst hs
    obtain ⟨a, b, c, d, e0⟩ := mem_cellEvents.1 he
    exact ⟨a, b, e0, c, by omega⟩
  · intro r c hr hc
    exact ⟨_, List.mem_singleton.2 rfl, ⟨r, c, K, st, 0⟩, mem_cellEvents.2 ⟨hr, hc, rfl, rfl, rfl⟩, rfl, rfl⟩

theorem fills_blockPartial (rows cols : List Nat) (st : Nat) (hst : st ≤ 2) :
    Fills N (Complete K) [blockPartial K rows cols st] (· ∈ rows) (· ∈ cols) := by
  refine ⟨?_, ?_, ?_⟩
  · intro s hs; simp only [List.mem_singleton] at hs; subst hs
    refine ⟨?_⟩
    intro e he
    simp only [blockPartial, List.mem_flatMap] at he
    obtain ⟨k, _, he⟩ := he
    obtain ⟨a, b, _, _, _⟩ := mem_cellEvents.1 he
    exact ⟨⟨e.r, e.c, K, st, 0⟩, mem_cellEvents.2 ⟨a, b, rfl, rfl, rfl⟩, rfl⟩
  · intro s hs e he; simp only [List.mem_singleton] at hs; subst hs
    obtain ⟨a, b, c, d, e0⟩ := mem_cellEvents.1 he
    exact ⟨a, b, e0, c, by omega⟩
  · intro r c hr hc
    exact ⟨_, List.mem_singleton.2 rfl, ⟨r, c, K, st, 0⟩, mem_cellEvents.2 ⟨hr, hc, rfl, rfl, rfl⟩, rfl, rfl⟩

/-- `n` consecutive chunks of width `u` starting at `i` tile `[i, i+n*u)` -/
theorem range_chunks {i n u r : Nat} (hu : 0 < u) :
    (∃ ii ∈ List.range n, i + ii * u ≤ r ∧ r < i + ii * u + u) ↔ (i ≤ r ∧ r < i + n * u) := by
  constructor
  · rintro ⟨ii, hii, h1, h2⟩
    have hii := List.mem_range.1 hii
    have : (ii + 1) * u ≤ n * u := Nat.mul_le_mul_right u hii
    rw [Nat.add_mul] at this
    omega
  · rintro ⟨h1, h2⟩
    refine ⟨(r - i) / u, List.mem_range.2 ?_, ?_, ?_⟩
    · rw [Nat.div_lt_iff_lt_mul hu]; omega
    · have := Nat.div_mul_le_self (r - i) u; omega
    · have := Nat.lt_div_mul_add (a := r - i) hu; omega

theorem fills_rowChunks (i u nR : Nat) (hu : 0 < u) (cols : List Nat) (st : Nat) (hst : st ≤ 2) :
    Fills N (Complete K) ((List.range nR).map fun ii => block K (rowsFrom (i + ii * u) u) cols st)
      (fun r => i ≤ r ∧ r < i + nR * u) (· ∈ cols) := by
  have h := Fills.map_rows (N := N) (P := Complete K) (List.range nR)
    (fun ii => block K (rowsFrom (i + ii * u) u) cols st)
    (fun ii r => r ∈ rowsFrom (i + ii * u) u) (· ∈ cols)
    (fun ii _ => fills_block _ _ st hst)
  refine h.congr ?_ (fun _ => Iff.rfl)
  intro r
  simp only [mem_rowsFrom]
  exact range_chunks hu

theorem fills_interior (V i j u nR nC : Nat) (hu : 0 < u) :
    Fills N (Complete K) (interior K V i j u nR nC) (fun r => i ≤ r ∧ r < i + nR * u)
      (fun c => j ≤ c ∧ c < j + nC * V) :=
  (fills_rowChunks i u nR hu (colsAsc j (nC * V)) 0 (by omega)).congr (fun _ => Iff.rfl)
    (fun _ => mem_colsAsc)

theorem fills_interiorScalar (i j u nR : Nat) (hu : 0 < u) :
    Fills N (Complete K) (interiorScalar K i j u nR) (fun r => i ≤ r ∧ r < i + nR * u)
      (fun c => j ≤ c ∧ c < j + 1) :=
  (fills_rowChunks i u nR hu [j] 1 (by omega)).congr (fun _ => Iff.rfl)
    (fun c => by simp only [List.mem_singleton]; omega)

theorem fills_interiorMask (masks : Bool) (i j u nR w : Nat) (hu : 0 < u) :
    Fills N (Complete K) (interiorMask masks K i j u nR w) (fun r => i ≤ r ∧ r < i + nR * u)
      (fun c => j ≤ c ∧ c < j + w) :=
  (fills_rowChunks i u nR hu (maskCols masks j w) 0 (by omega)).congr (fun _ => Iff.rfl)
    (fun _ => mem_maskCols)

/-! ### arithmetic of the block constants -/

theorem div_mul_chain {a b n : Nat} (ha : 0 < a) (hab : a ∣ b) (hb : 0 < b) :
    n / b * b ≤ n / a * a ∧ a ∣ (n / a * a - n / b * b) := by
  obtain ⟨q, rfl⟩ := hab
  have h1 : n / (a * q) * (a * q) = (n / (a * q) * q) * a := by
    rw [Nat.mul_comm a q, Nat.mul_assoc]
  constructor
  · rw [h1]
    apply Nat.mul_le_mul_right
    rw [Nat.le_div_iff_mul_le ha, ← h1]
    exact Nat.div_mul_le_self n (a * q)
  · apply Nat.dvd_sub
    · exact Nat.dvd_mul_left a _
    · rw [h1]; exact Nat.dvd_mul_left a _

/-- three column groups `[0,N0) ∪ [N0,N1) ∪ [N1,N)` -/
theorem fills_cols3 {P : St → Prop} {A B C : List Seg} {R : Nat → Prop} {N0 N1 : Nat} (h01 : N0 ≤ N1) (h1N : N1 ≤ N)
    (ha : Fills N P A R (fun c => 0 ≤ c ∧ c < N0)) (hb : Fills N P B R (fun c => N0 ≤ c ∧ c < N1))
    (hc : Fills N P C R (fun c => N1 ≤ c ∧ c < N)) :
    Fills N P (A ++ B ++ C) R (· < N) :=
  ((ha.append_cols hb).append_cols hc).congr (fun _ => Iff.rfl) (fun c => by omega)

theorem fills_rows3 {P : St → Prop} {A B C : List Seg} {Cc : Nat → Prop} {M M0 M1 : Nat} (h01 : M0 ≤ M1) (h1M : M1 ≤ M)
    (ha : Fills N P A (fun r => 0 ≤ r ∧ r < M0) Cc) (hb : Fills N P B (fun r => M0 ≤ r ∧ r < M1) Cc)
    (hc : Fills N P C (fun r => M1 ≤ r ∧ r < M) Cc) :
    Fills N P (A ++ B ++ C) (· < M) Cc :=
  ((ha.append_rows hb).append_rows hc).congr (fun r => by omega) (fun _ => Iff.rfl)

/-- a `for` loop of column chunks of width `s` from `lo` to `hi` -/
theorem fills_colLoop {P : St → Prop} {lo hi s : Nat} (hs : 0 < s) (hle : lo ≤ hi) (hd : s ∣ (hi - lo))
    (f : Nat → List Seg) (R : Nat → Prop)
    (h : ∀ j ∈ forRange lo hi s, Fills N P (f j) R (fun c => j ≤ c ∧ c < j + s)) :
    Fills N P ((forRange lo hi s).flatMap f) R (fun c => lo ≤ c ∧ c < hi) :=
  (Fills.flatMap_cols _ f R _ h).congr (fun _ => Iff.rfl) (forRange_cover hs hle hd)

theorem fills_colLoopMap {P : St → Prop} {lo hi s : Nat} (hs : 0 < s) (hle : lo ≤ hi) (hd : s ∣ (hi - lo))
    (f : Nat → Seg) (R : Nat → Prop)
    (h : ∀ j ∈ forRange lo hi s, Fills N P [f j] R (fun c => j ≤ c ∧ c < j + s)) :
    Fills N P ((forRange lo hi s).map f) R (fun c => lo ≤ c ∧ c < hi) :=
  (Fills.map_cols _ f R _ h).congr (fun _ => Iff.rfl) (forRange_cover hs hle hd)

theorem fills_rowLoop {P : St → Prop} {lo hi s : Nat} (hs : 0 < s) (hle : lo ≤ hi) (hd : s ∣ (hi - lo))
    (f : Nat → List Seg) (C : Nat → Prop)
    (h : ∀ i ∈ forRange lo hi s, Fills N P (f i) (fun r => i ≤ r ∧ r < i + s) C) :
    Fills N P ((forRange lo hi s).flatMap f) (fun r => lo ≤ r ∧ r < hi) C :=
  (Fills.flatMap_rows _ f _ C h).congr (forRange_cover hs hle hd) (fun _ => Iff.rfl)

theorem empty_fills_rows {P : St → Prop} (R C : Nat → Prop) (h : ∀ r, ¬ R r) : Fills N P [] R C :=
  ⟨by simp, by simp, fun r _ hr _ => (h r hr).elim⟩

/-! ### `_matmul_base` -/

theorem fills_base (M V : Nat) (bl : Blocking) (hV : 0 < V) (hu : 0 < bl.u) (hnR : 0 < bl.nR)
    (hnC : 0 < bl.nC) : Fills N (Complete K) (base M K N V bl) (· < M) (· < N) := by
  obtain ⟨u, nR, nC⟩ := bl
  simp only at hu hnR hnC
  have hB : 0 < nR * u := Nat.mul_pos hnR hu
  have hIB : 0 < nC * V := Nat.mul_pos hnC hV
  -- constants
  have hM0 : M / (nR * u) * (nR * u) ≤ M := Nat.div_mul_le_self _ _
  have hM1 : M / u * u ≤ M := Nat.div_mul_le_self _ _
  have hN1 : N / V * V ≤ N := Nat.div_mul_le_self _ _
  obtain ⟨hM01, hMd⟩ := div_mul_chain (n := M) hu (Nat.dvd_mul_left u nR) hB
  obtain ⟨hN01, hNd⟩ := div_mul_chain (n := N) hV (Nat.dvd_mul_left V nC) hIB
  have hj0 : forExit 0 (N / (nC * V) * (nC * V)) (nC * V) = N / (nC * V) * (nC * V) :=
    forExit_of_dvd hIB (Nat.zero_le _) (by simp [Nat.dvd_mul_left])
  have hj1 : forExit (N / (nC * V) * (nC * V)) (N / V * V) V = N / V * V :=
    forExit_of_dvd hV hN01 hNd
  have hi0 : forExit 0 (M / (nR * u) * (nR * u)) (nR * u) = M / (nR * u) * (nR * u) :=
    forExit_of_dvd hB (Nat.zero_le _) (by simp [Nat.dvd_mul_left])
  have hi1 : forExit (M / (nR * u) * (nR * u)) (M / u * u) u = M / u * u :=
    forExit_of_dvd hu hM01 hMd
  unfold base
  simp only [hj0, hj1, hi0, hi1]
  apply fills_rows3 hM01 hM1
  · -- block rows
    apply fills_rowLoop hB (Nat.zero_le _) (by simp [Nat.dvd_mul_left])
    intro i _
    apply fills_cols3 hN01 hN1
    · exact fills_colLoop hIB (Nat.zero_le _) (by simp [Nat.dvd_mul_left]) _ _
        (fun j _ => fills_interior V i j u nR nC hu)
    · refine fills_colLoop hV hN01 hNd _ _ (fun j _ => ?_)
      have := fills_interior (N := N) (K := K) V i j u nR 1 hu
      simpa using this
    · exact fills_colLoop (by omega) hN1 (Nat.one_dvd _) _ _
        (fun j _ => fills_interiorScalar i j u nR hu)
  · -- rows unrolled by u
    apply fills_rowLoop hu hM01 hMd
    intro i _
    apply fills_cols3 hN01 hN1
    · refine fills_colLoop hIB (Nat.zero_le _) (by simp [Nat.dvd_mul_left]) _ _ (fun j _ => ?_)
      have := fills_interior (N := N) (K := K) V i j u 1 nC hu
      simpa using this
    · refine fills_colLoopMap hV hN01 hNd _ _ (fun j _ => ?_)
      exact (fills_block (rowsFrom i u) (colsAsc j V) 0 (by omega)).congr
        (fun _ => mem_rowsFrom) (fun _ => mem_colsAsc)
    · refine fills_colLoopMap (by omega) hN1 (Nat.one_dvd _) _ _ (fun j _ => ?_)
      exact (fills_block (rowsFrom i u) [j] 1 (by omega)).congr
        (fun _ => mem_rowsFrom) (fun c => by simp only [List.mem_singleton]; omega)
  · -- remaining rows
    split
    · rename_i hpos
      have hMM : M / u * u + (M - M / u * u) = M := by omega
      apply fills_cols3 hN01 hN1
      · refine fills_colLoop hIB (Nat.zero_le _) (by simp [Nat.dvd_mul_left]) _ _ (fun j _ => ?_)
        have := fills_interior (N := N) (K := K) V (M / u * u) j (M - M / u * u) 1 nC (by omega)
        refine this.congr (fun r => by omega) (fun _ => Iff.rfl)
      · refine fills_colLoopMap hV hN01 hNd _ _ (fun j _ => ?_)
        exact (fills_blockPartial (rowsFrom (M / u * u) (M - M / u * u)) (colsAsc j V) 0 (by omega)).congr
          (fun r => by rw [mem_rowsFrom]; omega) (fun _ => mem_colsAsc)
      · refine fills_colLoopMap (by omega) hN1 (Nat.one_dvd _) _ _ (fun j _ => ?_)
        exact (fills_blockPartial (rowsFrom (M / u * u) (M - M / u * u)) [j] 1 (by omega)).congr
          (fun r => by rw [mem_rowsFrom]; omega) (fun c => by simp only [List.mem_singleton]; omega)
    · rename_i hpos
      exact empty_fills_rows _ _ (fun r => by omega)

end Fastor.Matmul

namespace Fastor.Matmul
open Fastor
variable {N K : Nat}

theorem empty_fills_cols {P : St → Prop} (R C : Nat → Prop) (h : ∀ c, ¬ C c) : Fills N P [] R C :=
  ⟨by simp, by simp, fun _ c _ hc => (h c hc).elim⟩

theorem forRange_zero_stride (lo hi : Nat) : forRange lo hi 0 = [] := by
  simp [forRange, forCount]

/-- the masked column remainder `for (; j < N; j += N-N1)` started at `N1` -/
theorem fills_maskLoop {P : St → Prop} (N1 : Nat) (hN1 : N1 ≤ N) (f : Nat → Seg) (R : Nat → Prop)
    (h : ∀ j, Fills N P [f j] R (fun c => j ≤ c ∧ c < j + (N - N1))) :
    Fills N P ((forRange N1 N (N - N1)).map f) R (fun c => N1 ≤ c ∧ c < N) := by
  rcases Nat.eq_zero_or_pos (N - N1) with h0 | hpos
  · rw [h0, forRange_zero_stride]
    exact empty_fills_cols _ _ (fun c => by omega)
  · exact fills_colLoopMap hpos hN1 (Nat.dvd_refl _) f R (fun j _ => h j)

theorem fills_maskLoopFlat {P : St → Prop} (N1 : Nat) (hN1 : N1 ≤ N) (f : Nat → List Seg) (R : Nat → Prop)
    (h : ∀ j, Fills N P (f j) R (fun c => j ≤ c ∧ c < j + (N - N1))) :
    Fills N P ((forRange N1 N (N - N1)).flatMap f) R (fun c => N1 ≤ c ∧ c < N) := by
  rcases Nat.eq_zero_or_pos (N - N1) with h0 | hpos
  · rw [h0, forRange_zero_stride]
    exact empty_fills_cols _ _ (fun c => by omega)
  · exact fills_colLoop hpos hN1 (Nat.dvd_refl _) f R (fun j _ => h j)

/-! ### `_matmul_base_masked` -/

theorem fills_baseMasked (masks : Bool) (M V : Nat) (bl : Blocking) (hV : 0 < V) (hu : 0 < bl.u)
    (hnR : 0 < bl.nR) (hnC : 0 < bl.nC) :
    Fills N (Complete K) (baseMasked masks M K N V bl) (· < M) (· < N) := by
  obtain ⟨u, nR, nC⟩ := bl
  simp only at hu hnR hnC
  have hB : 0 < nR * u := Nat.mul_pos hnR hu
  have hIB : 0 < nC * V := Nat.mul_pos hnC hV
  have hM0 : M / (nR * u) * (nR * u) ≤ M := Nat.div_mul_le_self _ _
  have hM1 : M / u * u ≤ M := Nat.div_mul_le_self _ _
  have hN1 : N / V * V ≤ N := Nat.div_mul_le_self _ _
  obtain ⟨hM01, hMd⟩ := div_mul_chain (n := M) hu (Nat.dvd_mul_left u nR) hB
  obtain ⟨hN01, hNd⟩ := div_mul_chain (n := N) hV (Nat.dvd_mul_left V nC) hIB
  have hj0 : forExit 0 (N / (nC * V) * (nC * V)) (nC * V) = N / (nC * V) * (nC * V) :=
    forExit_of_dvd hIB (Nat.zero_le _) (by simp [Nat.dvd_mul_left])
  have hj1 : forExit (N / (nC * V) * (nC * V)) (N / V * V) V = N / V * V :=
    forExit_of_dvd hV hN01 hNd
  have hi0 : forExit 0 (M / (nR * u) * (nR * u)) (nR * u) = M / (nR * u) * (nR * u) :=
    forExit_of_dvd hB (Nat.zero_le _) (by simp [Nat.dvd_mul_left])
  have hi1 : forExit (M / (nR * u) * (nR * u)) (M / u * u) u = M / u * u :=
    forExit_of_dvd hu hM01 hMd
  unfold baseMasked
  simp only [hj0, hj1, hi0, hi1]
  apply fills_rows3 hM01 hM1
  · apply fills_rowLoop hB (Nat.zero_le _) (by simp [Nat.dvd_mul_left])
    intro i _
    apply fills_cols3 hN01 hN1
    · exact fills_colLoop hIB (Nat.zero_le _) (by simp [Nat.dvd_mul_left]) _ _
        (fun j _ => fills_interior V i j u nR nC hu)
    · refine fills_colLoop hV hN01 hNd _ _ (fun j _ => ?_)
      have := fills_interior (N := N) (K := K) V i j u nR 1 hu
      simpa using this
    · exact fills_maskLoopFlat _ hN1 _ _ (fun j => fills_interiorMask masks i j u nR _ hu)
  · apply fills_rowLoop hu hM01 hMd
    intro i _
    apply fills_cols3 hN01 hN1
    · refine fills_colLoop hIB (Nat.zero_le _) (by simp [Nat.dvd_mul_left]) _ _ (fun j _ => ?_)
      have := fills_interior (N := N) (K := K) V i j u 1 nC hu
      simpa using this
    · refine fills_colLoopMap hV hN01 hNd _ _ (fun j _ => ?_)
      exact (fills_block (rowsFrom i u) (colsAsc j V) 0 (by omega)).congr
        (fun _ => mem_rowsFrom) (fun _ => mem_colsAsc)
    · refine fills_maskLoop _ hN1 _ _ (fun j => ?_)
      exact (fills_block (rowsFrom i u) (maskCols masks j _) 0 (by omega)).congr
        (fun _ => mem_rowsFrom) (fun _ => mem_maskCols)
  · split
    · rename_i hpos
      apply fills_cols3 hN01 hN1
      · refine fills_colLoop hIB (Nat.zero_le _) (by simp [Nat.dvd_mul_left]) _ _ (fun j _ => ?_)
        have := fills_interior (N := N) (K := K) V (M / u * u) j (M - M / u * u) 1 nC (by omega)
        refine this.congr (fun r => by omega) (fun _ => Iff.rfl)
      · refine fills_colLoopMap hV hN01 hNd _ _ (fun j _ => ?_)
        exact (fills_blockPartial (rowsFrom (M / u * u) (M - M / u * u)) (colsAsc j V) 0 (by omega)).congr
          (fun r => by rw [mem_rowsFrom]; omega) (fun _ => mem_colsAsc)
      · refine fills_maskLoop _ hN1 _ _ (fun j => ?_)
        exact (fills_block (rowsFrom (M / u * u) (M - M / u * u)) (maskCols masks j _) 0 (by omega)).congr
          (fun r => by rw [mem_rowsFrom]; omega) (fun _ => mem_maskCols)
    · rename_i hpos
      exact empty_fills_rows _ _ (fun r => by omega)

/-! ### tiny kernel, non-primitive kernel -/

theorem roundDown_pow2 (x e : Nat) (hx : x < 2 ^ 64) (he : e ≤ 64) :
    roundDown x (2 ^ e) = x / 2 ^ e * 2 ^ e := by
  unfold roundDown
  apply Nat.eq_of_testBit_eq
  intro i
  rw [Nat.testBit_and]
  have h2 : 2 ^ 64 - 1 - (2 ^ e - 1) = 2 ^ e * (2 ^ (64 - e) - 1) := by
    have : 2 ^ 64 = 2 ^ e * 2 ^ (64 - e) := by rw [← Nat.pow_add]; congr 1; omega
    have hp : 0 < 2 ^ e := Nat.pow_pos (by omega)
    rw [Nat.mul_sub, ← this]; omega
  rw [h2, Nat.mul_comm (x / 2 ^ e) (2 ^ e)]
  rw [Nat.testBit_two_pow_mul, Nat.testBit_two_pow_mul]
  by_cases hie : e ≤ i
  · simp only [hie, decide_true, Bool.true_and]
    rw [Nat.testBit_two_pow_sub_one, Nat.testBit_div_two_pow]
    have : i - e + e = i := by omega
    rw [this]
    by_cases h64 : i < 64
    · have : i - e < 64 - e := by omega
      simp [this]
    · have : x.testBit i = false :=
        Nat.testBit_lt_two_pow (Nat.lt_of_lt_of_le hx (Nat.pow_le_pow_right (by omega) (by omega)))
      simp [this]
  · simp [hie]

theorem range_rows (M r : Nat) : (∃ i ∈ List.range M, r ∈ [i]) ↔ r < M := by
  simp [List.mem_range]

theorem fills_tiny (M V : Nat) (hV : 0 < V) (hrd : roundDown N V = N / V * V) :
    Fills N (Complete K) (tiny M K N V) (· < M) (· < N) := by
  unfold tiny
  simp only [hrd]
  have hN1 : N / V * V ≤ N := Nat.div_mul_le_self _ _
  have hk0 : forExit 0 (N / V * V) V = N / V * V :=
    forExit_of_dvd hV (Nat.zero_le _) (by simp [Nat.dvd_mul_left])
  rw [hk0]
  have h := Fills.flatMap_rows (N := N) (P := Complete K) (List.range M)
    (fun j => (forRange 0 (N / V * V) V).map (fun k => block K [j] (colsAsc k V) 0) ++
      (forRange (N / V * V) N 1).map (fun k => block K [j] [k] 1))
    (fun j r => r ∈ [j]) (· < N) ?_
  · exact h.congr (range_rows M) (fun _ => Iff.rfl)
  · intro j _
    have ha : Fills N (Complete K) ((forRange 0 (N / V * V) V).map (fun k => block K [j] (colsAsc k V) 0))
        (fun r => r ∈ [j]) (fun c => 0 ≤ c ∧ c < N / V * V) :=
      fills_colLoopMap hV (Nat.zero_le _) (by simp [Nat.dvd_mul_left]) _ _
        (fun k _ => (fills_block [j] (colsAsc k V) 0 (by omega)).congr (fun _ => Iff.rfl) (fun _ => mem_colsAsc))
    have hb : Fills N (Complete K) ((forRange (N / V * V) N 1).map (fun k => block K [j] [k] 1))
        (fun r => r ∈ [j]) (fun c => N / V * V ≤ c ∧ c < N) :=
      fills_colLoopMap (by omega) hN1 (Nat.one_dvd _) _ _
        (fun k _ => (fills_block [j] [k] 1 (by omega)).congr (fun _ => Iff.rfl)
          (fun c => by simp only [List.mem_singleton]; omega))
    exact (ha.append_cols hb).congr (fun _ => Iff.rfl) (fun c => by omega)

theorem fills_nonPrimitive (M : Nat) : Fills N (Complete K) (nonPrimitive M K N) (· < M) (· < N) := by
  unfold nonPrimitive
  have h := Fills.flatMap_rows (N := N) (P := Complete K) (List.range M)
    (fun i => (List.range N).map fun j => block K [i] [j] 1) (fun i r => r ∈ [i]) (· < N) ?_
  · exact h.congr (range_rows M) (fun _ => Iff.rfl)
  · intro i _
    have := Fills.map_cols (N := N) (P := Complete K) (List.range N) (fun j => block K [i] [j] 1)
      (fun r => r ∈ [i]) (fun j c => c ∈ [j]) (fun j _ => fills_block [i] [j] 1 (by omega))
    exact this.congr (fun _ => Iff.rfl) (range_rows N)

/-! ### small-N kernels -/

theorem fills_smallNRow (masks : Bool) (V r : Nat) (sp lg : Bool) (_hV : 0 < V)
    (hsp : sp = true → 1 ≤ r ∧ V < N) :
    Fills N (Complete K) [smallNRow masks K N V r sp lg] (· = r) (· < N) := by
  have hN1 : N / V * V ≤ N := Nat.div_mul_le_self _ _
  -- the columns listed by the final events are exactly [0,N)
  have hcols : ∀ c, c ∈ (colsAsc 0 (N / V * V) ++
      (if (N - N / V * V == 0) = true then [] else
        if (decide (N < V) || lg) = true then maskCols masks (N / V * V) (N - N / V * V)
        else colsAsc (N / V * V) (N - N / V * V))) ↔ c < N := by
    intro c
    rw [List.mem_append, mem_colsAsc]
    by_cases hw : N - N / V * V = 0
    · simp [hw]; omega
    · have hw' : (N - N / V * V == 0) = false := by simp [hw]
      simp only [hw', Bool.false_eq_true, if_false]
      split
      · rw [mem_maskCols]; omega
      · rw [mem_colsAsc]; omega
  refine ⟨?_, ?_, ?_⟩
  · intro s hs; simp only [List.mem_singleton] at hs; subst hs
    refine ⟨?_⟩
    intro e he
    simp only [smallNRow] at he
    split at he
    · rename_i hsp'
      obtain ⟨hr, hVN⟩ := hsp hsp'
      simp only [List.mem_map, List.mem_range] at he
      obtain ⟨l, hl, rfl⟩ := he
      have hlN : l < N := by omega
      refine ⟨⟨r, l, K, 2, 0⟩, ?_, ?_⟩
      · simp only [smallNRow]
        exact mem_cellEvents.2 ⟨by simp, (hcols l).2 hlN, rfl, rfl, rfl⟩
      · simp only [St.pos]
        have : r = (r - 1) + 1 := by omega
        rw [this, Nat.add_mul]; simp; omega
    · simp at he
  · intro s hs e he; simp only [List.mem_singleton] at hs; subst hs
    simp only [smallNRow] at he
    obtain ⟨a, b, c, d, e0⟩ := mem_cellEvents.1 he
    exact ⟨by simpa using a, (hcols _).1 b, e0, c, by omega⟩
  · intro r' c hr hc
    subst hr
    refine ⟨_, List.mem_singleton.2 rfl, ⟨r', c, K, 2, 0⟩, ?_, rfl, rfl⟩
    simp only [smallNRow]
    exact mem_cellEvents.2 ⟨by simp, (hcols c).2 hc, rfl, rfl, rfl⟩

theorem smallNUnroll_pos (N V : Nat) : 0 < smallNUnroll N V := by
  unfold smallNUnroll
  split
  · omega
  · split
    · omega
    · split
      · omega
      · split <;> omega

theorem fills_smallN (masks : Bool) (M V : Nat) (hV : 0 < V) :
    Fills N (Complete K) (smallN masks M K N V) (· < M) (· < N) := by
  unfold smallN
  have h := Fills.map_rows (N := N) (P := Complete K) (List.range M)
    (fun r =>
      let U := smallNUnroll N V
      let M0 := M / U * U
      let w := N - N / V * V
      let idx := if r < M0 then r % U else r - M0
      let glen := if r < M0 then U else M - M0
      let spills := w != 0 && decide (V < N)
      smallNRow masks K N V r (spills && idx != 0) (idx + 1 == glen))
    (fun i r => r = i) (· < N) ?_
  · refine h.congr ?_ (fun _ => Iff.rfl)
    intro r; simp [List.mem_range]
  · intro r _
    apply fills_smallNRow masks V r _ _ hV
    intro hsp
    simp only [Bool.and_eq_true, bne_iff_ne, ne_eq, decide_eq_true_eq] at hsp
    obtain ⟨⟨_, hVN⟩, hidx⟩ := hsp
    refine ⟨?_, hVN⟩
    rcases Nat.eq_zero_or_pos r with h0 | h0
    · subst h0
      exfalso; apply hidx
      split <;> simp
    · exact h0

/-! ### matrix-vector -/

theorem fills_matvecGroup (K1 i n : Nat) (hK1 : K1 ≤ K) :
    Fills 1 (Complete K) [matvecGroup K K1 i n] (fun r => i ≤ r ∧ r < i + n) (· < 1) := by
  have hfin : ∀ (kk : Nat) (e : St), e ∈ (rowsFrom i n).map (fun r => ({ r := r, c := 0, kk := kk, style := 0 } : St)) ↔
      (i ≤ e.r ∧ e.r < i + n) ∧ e.c = 0 ∧ e.kk = kk ∧ e.style = 0 ∧ e.k0 = 0 := by
    intro kk e
    simp only [List.mem_map, mem_rowsFrom]
    constructor
    · rintro ⟨r, hr, rfl⟩; exact ⟨hr, rfl, rfl, rfl, rfl⟩
    · rintro ⟨hr, hc, hk, hs, h0⟩; refine ⟨e.r, hr, ?_⟩; cases e; simp_all
  unfold matvecGroup
  by_cases hk : K1 = K
  · subst hk
    simp only [beq_self_eq_true, if_true]
    refine ⟨?_, ?_, ?_⟩
    · intro s hs; simp only [List.mem_singleton] at hs; subst hs; exact ⟨by simp⟩
    · intro s hs e he; simp only [List.mem_singleton] at hs; subst hs
      obtain ⟨a, b, c, d, e0⟩ := (hfin _ e).1 he
      exact ⟨a, by omega, e0, c, by omega⟩
    · intro r c hr hc
      exact ⟨_, List.mem_singleton.2 rfl, ⟨r, 0, K1, 0, 0⟩, (hfin _ _).2 ⟨hr, rfl, rfl, rfl, rfl⟩, rfl, by simp; omega⟩
  · have hk' : (K1 == K) = false := by simp [hk]
    have hKK : K - 1 + 1 = K := by omega
    simp only [hk', Bool.false_eq_true, if_false]
    refine ⟨?_, ?_, ?_⟩
    · intro s hs; simp only [List.mem_singleton] at hs; subst hs
      refine ⟨?_⟩
      intro e he
      have hr : (i ≤ e.r ∧ e.r < i + n) ∧ e.c = 0 := by
        rcases List.mem_append.1 he with h | h
        · obtain ⟨a, b, _, _, _⟩ := (hfin _ e).1 h; exact ⟨a, b⟩
        · obtain ⟨j, _, h⟩ := List.mem_flatMap.1 h
          obtain ⟨a, b, _, _, _⟩ := (hfin _ e).1 h; exact ⟨a, b⟩
      refine ⟨⟨e.r, 0, K - 1 + 1, 0, 0⟩, (hfin _ _).2 ⟨hr.1, rfl, rfl, rfl, rfl⟩, ?_⟩
      simp [St.pos, hr.2]
    · intro s hs e he; simp only [List.mem_singleton] at hs; subst hs
      obtain ⟨a, b, c, d, e0⟩ := (hfin _ e).1 he
      exact ⟨a, by omega, e0, by omega, by omega⟩
    · intro r c hr hc
      exact ⟨_, List.mem_singleton.2 rfl, ⟨r, 0, K - 1 + 1, 0, 0⟩, (hfin _ _).2 ⟨hr, rfl, rfl, rfl, rfl⟩, rfl, by simp; omega⟩

theorem fills_matvec (M V : Nat) :
    Fills 1 (Complete K) (matvec M K V) (· < M) (· < 1) := by
  unfold matvec
  split
  · have h := Fills.map_rows (N := 1) (P := Complete K) (List.range M) (fun i => block K [i] [0] 0)
      (fun i r => r ∈ [i]) (· < 1) ?_
    · exact h.congr (range_rows M) (fun _ => Iff.rfl)
    · intro i _
      exact (fills_block [i] [0] 0 (by omega)).congr (fun _ => Iff.rfl) (fun c => by simp)
  · have hK1 : K / V * V ≤ K := Nat.div_mul_le_self _ _
    have hM0 : M / 8 * 8 ≤ M := Nat.div_mul_le_self _ _
    have ha : Fills 1 (Complete K) ((forRange 0 (M / 8 * 8) 8).map (fun i => matvecGroup K (K / V * V) i 8))
        (fun r => 0 ≤ r ∧ r < M / 8 * 8) (· < 1) :=
      (Fills.map_rows _ _ _ _ (fun i _ => fills_matvecGroup (K / V * V) i 8 hK1)).congr
        (forRange_cover (by omega) (Nat.zero_le _) (by simp [Nat.dvd_mul_left])) (fun _ => Iff.rfl)
    have hb : Fills 1 (Complete K) (if M - M / 8 * 8 > 0 then [matvecGroup K (K / V * V) (M / 8 * 8) (M - M / 8 * 8)] else [])
        (fun r => M / 8 * 8 ≤ r ∧ r < M) (· < 1) := by
      split
      · exact (fills_matvecGroup (K / V * V) (M / 8 * 8) (M - M / 8 * 8) hK1).congr
          (fun r => by omega) (fun _ => Iff.rfl)
      · exact empty_fills_rows _ _ (fun r => by omega)
    exact (ha.append_rows hb).congr (fun r => by omega) (fun _ => Iff.rfl)

end Fastor.Matmul
