import FastorModel.Proofs.QRInv
/-
  C13 — `Q * R = A` needs much less than exact roots: it holds as soon as every value returned by `sqrt` is
  non-zero (the division in step 2 is undone by the multiplication with `R(i,i)`; steps 3 and 4 cancel whatever
  `R(i,j)` is).  Orthogonality is what needs the roots to be roots.
-/
namespace Fastor.QR
open Finset

variable {K : Type} [Field K]

theorem recon_stateAt (sqrt : K → K) (M N : Nat) (A0 Qin : Mat K) (i : Nat) (hi : i ≤ N)
    (hne : ∀ t, t < i → sqrt (normArg sqrt M N A0 Qin t) ≠ 0) :
    ∀ k j, k < M → j < N →
      A0 k j = ∑ p ∈ range i, (stateAt sqrt M N A0 Qin i).Q k p * (stateAt sqrt M N A0 Qin i).R p j
        + (if i ≤ j then (stateAt sqrt M N A0 Qin i).W k j else 0) := by
  induction i with
  | zero => intro k j _ _; simp [stateAt, loop_nil, initSt]
  | succ n ih =>
    intro k j hk hj
    have h0 := ih (by omega) (fun t ht => hne t (by omega)) k j hk hj
    have hz := rzero_stateAt sqrt M N A0 Qin n
    have hr : sqrt (colNorm2 M (stateAt sqrt M N A0 Qin n).W n) ≠ 0 := hne n (Nat.lt_succ_self n)
    rw [stateAt_succ]
    generalize stateAt sqrt M N A0 Qin n = s at h0 hz hr
    have hQ := outerStep_Q sqrt M N n s
    have hR := outerStep_R sqrt M N n s
    have hW := outerStep_W sqrt M N n s
    generalize sqrt (colNorm2 M s.W n) = r at hQ hR hr
    generalize outerStep sqrt M N n s = s' at hQ hR hW
    have hQold : ∀ k p, p ≠ n → s'.Q k p = s.Q k p := by
      intro k p hp; rw [hQ, if_neg (fun h => hp h.1)]
    have hRrow : ∀ p j, p ≠ n → s'.R p j = s.R p j := by
      intro p j hp
      rw [hR, if_neg (fun h => hp h.1), set2_get, if_neg (fun h => hp h.1)]
    rw [sum_range_succ,
      sum_congr rfl (fun p hp => by
        rw [hQold k p (by have := mem_range.1 hp; omega), hRrow p j (by have := mem_range.1 hp; omega)])]
    rcases Nat.lt_trichotomy j n with hlt | rfl | hgt
    · rw [if_neg (by omega), hR, if_neg (by omega), set2_get, if_neg (by omega),
        hz n j (Or.inr (Nat.le_refl n)), h0, if_neg (by omega)]; ring
    · rw [if_neg (by omega), hR, if_neg (by omega), set2_get, if_pos ⟨rfl, rfl⟩, hQ, if_pos ⟨rfl, hk⟩,
        div_mul_cancel₀ _ hr, h0, if_pos (Nat.le_refl _)]; ring
    · rw [if_pos (by omega), hW, if_pos ⟨hk, by omega, hj⟩, h0, if_pos (by omega)]; ring

end Fastor.QR
