import FastorModel.Proofs.MatmulFills
import FastorModel.Model.Tmatmul
/-
  Index-level correctness of the triangular kernels: every tile's clipped `k` range contains every
  `k` at which both operands can be non-zero, and the tiles fill the grid.
-/
namespace Fastor.Tmatmul
open Fastor Fastor.Matmul

/-- `a(r,k)` is structurally zero under the tag -/
def lzero : UpLo → Nat → Nat → Prop
  | .general, _, _ => False
  | .lower, r, k => r < k
  | .upper, r, k => k < r
/-- `b(k,c)` is structurally zero under the tag -/
def rzero : UpLo → Nat → Nat → Prop
  | .general, _, _ => False
  | .lower, k, c => k < c
  | .upper, k, c => c < k

/-- the accumulated range `[k0,kk)` misses only terms with a structural zero factor -/
def KRangeOK (lt rt : UpLo) (K r c k0 kk : Nat) : Prop :=
  kk ≤ K ∧ ∀ k, k < K → (k < k0 ∨ kk ≤ k) → (lzero lt r k ∨ rzero rt k c)

def TComplete (lt rt : UpLo) (K : Nat) (e : St) : Prop := KRangeOK lt rt K e.r e.c e.k0 e.kk

/-- **the clipping is sufficient for every cell of a tile, whatever the unroll factors** -/
theorem krange_sufficient (lt rt : UpLo) (K uo ui i j r c : Nat)
    (hr : i ≤ r ∧ r < i + uo) (hc : j ≤ c ∧ c < j + ui) :
    KRangeOK lt rt K r c (kfirst lt rt i j) (klast lt rt K uo ui i j) := by
  unfold KRangeOK
  cases lt <;> cases rt <;> simp only [kfirst, klast, lzero, rzero] <;>
    refine ⟨by omega, fun k hk h => ?_⟩ <;> omega

theorem complete_tcomplete (lt rt : UpLo) (K : Nat) (e : St) (h : Complete K e) : TComplete lt rt K e := by
  obtain ⟨h0, hk, _⟩ := h
  unfold TComplete KRangeOK
  rw [h0, hk]
  exact ⟨Nat.le_refl _, fun k hk' h => by omega⟩

theorem mem_tcellEvents {rows cols : List Nat} {k0 kk st : Nat} {e : St} :
    e ∈ tcellEvents rows cols k0 kk st ↔ e.r ∈ rows ∧ e.c ∈ cols ∧ e.kk = kk ∧ e.style = st ∧ e.k0 = k0 := by
  unfold tcellEvents
  simp only [List.mem_flatMap, List.mem_map]
  constructor
  · rintro ⟨r, hr, c, hc, rfl⟩; exact ⟨hr, hc, rfl, rfl, rfl⟩
  · rintro ⟨hr, hc, hk, hs, h0⟩
    refine ⟨e.r, hr, e.c, hc, ?_⟩
    cases e; simp_all

variable {N K : Nat} {lt rt : UpLo}

theorem fills_tblock (rows cols : List Nat) (st k0 kk : Nat)
    (h : ∀ r ∈ rows, ∀ c ∈ cols, KRangeOK lt rt K r c k0 kk) :
    Fills N (TComplete lt rt K) [tblock rows cols st k0 kk] (· ∈ rows) (· ∈ cols) := by
  refine ⟨?_, ?_, ?_⟩
  · intro s hs; simp only [List.mem_singleton] at hs; subst hs
    exact ⟨by simp [tblock]⟩
  · intro s hs e he; simp only [List.mem_singleton] at hs; subst hs
    obtain ⟨a, b, c, d, e0⟩ := mem_tcellEvents.1 he
    refine ⟨a, b, ?_⟩
    unfold TComplete; rw [c, e0]; exact h _ a _ b
  · intro r c hr hc
    exact ⟨_, List.mem_singleton.2 rfl, ⟨r, c, kk, st, k0⟩, mem_tcellEvents.2 ⟨hr, hc, rfl, rfl, rfl⟩, rfl, rfl⟩

theorem fills_tRowChunks (i u nR : Nat) (hu : 0 < u) (cols : List Nat) (st k0 kk : Nat)
    (h : ∀ r, (i ≤ r ∧ r < i + nR * u) → ∀ c ∈ cols, KRangeOK lt rt K r c k0 kk) :
    Fills N (TComplete lt rt K) ((List.range nR).map fun ii => tblock (rowsFrom (i + ii * u) u) cols st k0 kk)
      (fun r => i ≤ r ∧ r < i + nR * u) (· ∈ cols) := by
  have h' := Fills.map_rows (N := N) (P := TComplete lt rt K) (List.range nR)
    (fun ii => tblock (rowsFrom (i + ii * u) u) cols st k0 kk)
    (fun ii r => r ∈ rowsFrom (i + ii * u) u) (· ∈ cols)
    (fun ii hii => fills_tblock _ _ st k0 kk (fun r hr c hc => by
      refine h r ?_ c hc
      exact (range_chunks hu).1 ⟨ii, hii, by simpa [mem_rowsFrom] using hr⟩))
  refine h'.congr ?_ (fun _ => Iff.rfl)
  intro r
  simp only [mem_rowsFrom]
  exact range_chunks hu

theorem fills_tinterior (V i j u nR nC : Nat) (hu : 0 < u) :
    Fills N (TComplete lt rt K) (tinterior lt rt K V i j u nR nC) (fun r => i ≤ r ∧ r < i + nR * u)
      (fun c => j ≤ c ∧ c < j + nC * V) := by
  unfold tinterior
  refine (fills_tRowChunks i u nR hu (colsAsc j (nC * V)) 0 _ _ ?_).congr (fun _ => Iff.rfl) (fun _ => mem_colsAsc)
  intro r hr c hc
  exact krange_sufficient lt rt K (u * nR) (nC * V) i j r c (by rw [Nat.mul_comm u nR]; exact hr) (mem_colsAsc.1 hc)

theorem fills_tinteriorScalar (i j u nR : Nat) (hu : 0 < u) :
    Fills N (TComplete lt rt K) (tinteriorScalar lt rt K i j u nR) (fun r => i ≤ r ∧ r < i + nR * u)
      (fun c => j ≤ c ∧ c < j + 1) := by
  unfold tinteriorScalar
  refine (fills_tRowChunks i u nR hu [j] 1 _ _ ?_).congr (fun _ => Iff.rfl)
    (fun c => by simp only [List.mem_singleton]; omega)
  intro r hr c hc
  simp only [List.mem_singleton] at hc
  exact krange_sufficient lt rt K (u * nR) 1 i j r c (by rw [Nat.mul_comm u nR]; exact hr) (by omega)

theorem fills_tbase (M V : Nat) (bl : Blocking) (hV : 0 < V) (hu : 0 < bl.u) (hnR : 0 < bl.nR)
    (hnC : 0 < bl.nC) : Fills N (TComplete lt rt K) (tbase lt rt M K N V bl) (· < M) (· < N) := by
  obtain ⟨u, nR, nC⟩ := bl
  simp only at hu hnR hnC
  have hB : 0 < nR * u := Nat.mul_pos hnR hu
  have hIB : 0 < nC * V := Nat.mul_pos hnC hV
  have hM0 : M / (nR * u) * (nR * u) ≤ M := Nat.div_mul_le_self _ _
  have hM1 : M / u * u ≤ M := Nat.div_mul_le_self _ _
  have hN1 : N / V * V ≤ N := Nat.div_mul_le_self _ _
  obtain ⟨hM01, hMd⟩ := div_mul_chain (n := M) hu (Nat.dvd_mul_left u nR) hB
  obtain ⟨hN01, hNd⟩ := div_mul_chain (n := N) hV (Nat.dvd_mul_left V nC) hIB
  have hj0 : forExit 0 (N / (nC * V) * (nC * V)) (nC * V) = N / (nC * V) * (nC * V) :=
    forExit_of_dvd hIB (Nat.zero_le _) (by simp [Nat.dvd_mul_left])
  have hj1 : forExit (N / (nC * V) * (nC * V)) (N / V * V) V = N / V * V :=
    forExit_of_dvd hV hN01 hNd
  have hi0 : forExit 0 (M / (nR * u) * (nR * u)) (nR * u) = M / (nR * u) * (nR * u) :=
    forExit_of_dvd hB (Nat.zero_le _) (by simp [Nat.dvd_mul_left])
  have hi1 : forExit (M / (nR * u) * (nR * u)) (M / u * u) u = M / u * u :=
    forExit_of_dvd hu hM01 hMd
  have mono := fun {segs R C} (h : Fills N (Complete K) segs R C) => h.mono (complete_tcomplete lt rt K)
  unfold tbase
  simp only [hj0, hj1, hi0, hi1]
  apply fills_rows3 hM01 hM1
  · apply fills_rowLoop hB (Nat.zero_le _) (by simp [Nat.dvd_mul_left])
    intro i _
    apply fills_cols3 hN01 hN1
    · exact fills_colLoop hIB (Nat.zero_le _) (by simp [Nat.dvd_mul_left]) _ _
        (fun j _ => fills_tinterior V i j u nR nC hu)
    · refine fills_colLoop hV hN01 hNd _ _ (fun j _ => ?_)
      have := fills_tinterior (N := N) (K := K) (lt := lt) (rt := rt) V i j u nR 1 hu
      simpa using this
    · exact fills_colLoop (by omega) hN1 (Nat.one_dvd _) _ _
        (fun j _ => fills_tinteriorScalar i j u nR hu)
  · apply fills_rowLoop hu hM01 hMd
    intro i _
    apply fills_cols3 hN01 hN1
    · refine fills_colLoop hIB (Nat.zero_le _) (by simp [Nat.dvd_mul_left]) _ _ (fun j _ => ?_)
      have := fills_tinterior (N := N) (K := K) (lt := lt) (rt := rt) V i j u 1 nC hu
      simpa using this
    · refine fills_colLoopMap hV hN01 hNd _ _ (fun j _ => ?_)
      exact (fills_tblock (rowsFrom i u) (colsAsc j V) 0 _ _ (fun r hr c hc =>
        krange_sufficient lt rt K u V i j r c (mem_rowsFrom.1 hr) (mem_colsAsc.1 hc))).congr
        (fun _ => mem_rowsFrom) (fun _ => mem_colsAsc)
    · refine fills_colLoopMap (by omega) hN1 (Nat.one_dvd _) _ _ (fun j _ => ?_)
      exact (fills_tblock (rowsFrom i u) [j] 1 _ _ (fun r hr c hc => by
        simp only [List.mem_singleton] at hc
        exact krange_sufficient lt rt K u 1 i j r c (mem_rowsFrom.1 hr) (by omega))).congr
        (fun _ => mem_rowsFrom) (fun c => by simp only [List.mem_singleton]; omega)
  · split
    · rename_i hpos
      apply fills_cols3 hN01 hN1
      · refine fills_colLoop hIB (Nat.zero_le _) (by simp [Nat.dvd_mul_left]) _ _ (fun j _ => ?_)
        have := fills_interior (N := N) (K := K) V (M / u * u) j (M - M / u * u) 1 nC (by omega)
        exact mono (this.congr (fun r => by omega) (fun _ => Iff.rfl))
      · refine fills_colLoopMap hV hN01 hNd _ _ (fun j _ => ?_)
        exact mono ((fills_blockPartial (rowsFrom (M / u * u) (M - M / u * u)) (colsAsc j V) 0 (by omega)).congr
          (fun r => by rw [mem_rowsFrom]; omega) (fun _ => mem_colsAsc))
      · refine fills_colLoopMap (by omega) hN1 (Nat.one_dvd _) _ _ (fun j _ => ?_)
        exact mono ((fills_blockPartial (rowsFrom (M / u * u) (M - M / u * u)) [j] 1 (by omega)).congr
          (fun r => by rw [mem_rowsFrom]; omega) (fun c => by simp only [List.mem_singleton]; omega))
    · rename_i hpos
      exact empty_fills_rows _ _ (fun r => by omega)

theorem fills_tbaseMasked (masks : Bool) (M V : Nat) (bl : Blocking) (hV : 0 < V) (hu : 0 < bl.u)
    (hnR : 0 < bl.nR) (hnC : 0 < bl.nC) :
    Fills N (TComplete lt rt K) (tbaseMasked lt rt masks M K N V bl) (· < M) (· < N) := by
  obtain ⟨u, nR, nC⟩ := bl
  simp only at hu hnR hnC
  have hB : 0 < nR * u := Nat.mul_pos hnR hu
  have hIB : 0 < nC * V := Nat.mul_pos hnC hV
  have hM0 : M / (nR * u) * (nR * u) ≤ M := Nat.div_mul_le_self _ _
  have hM1 : M / u * u ≤ M := Nat.div_mul_le_self _ _
  have hN1 : N / V * V ≤ N := Nat.div_mul_le_self _ _
  obtain ⟨hM01, hMd⟩ := div_mul_chain (n := M) hu (Nat.dvd_mul_left u nR) hB
  obtain ⟨hN01, hNd⟩ := div_mul_chain (n := N) hV (Nat.dvd_mul_left V nC) hIB
  have hj0 : forExit 0 (N / (nC * V) * (nC * V)) (nC * V) = N / (nC * V) * (nC * V) :=
    forExit_of_dvd hIB (Nat.zero_le _) (by simp [Nat.dvd_mul_left])
  have hj1 : forExit (N / (nC * V) * (nC * V)) (N / V * V) V = N / V * V :=
    forExit_of_dvd hV hN01 hNd
  have hi0 : forExit 0 (M / (nR * u) * (nR * u)) (nR * u) = M / (nR * u) * (nR * u) :=
    forExit_of_dvd hB (Nat.zero_le _) (by simp [Nat.dvd_mul_left])
  have hi1 : forExit (M / (nR * u) * (nR * u)) (M / u * u) u = M / u * u :=
    forExit_of_dvd hu hM01 hMd
  have mono := fun {segs R C} (h : Fills N (Complete K) segs R C) => h.mono (complete_tcomplete lt rt K)
  have hw : N - N / V * V ≤ V := by
    have := Nat.lt_div_mul_add (a := N) hV; omega
  unfold tbaseMasked
  simp only [hj0, hj1, hi0, hi1]
  apply fills_rows3 hM01 hM1
  · apply fills_rowLoop hB (Nat.zero_le _) (by simp [Nat.dvd_mul_left])
    intro i _
    apply fills_cols3 hN01 hN1
    · exact fills_colLoop hIB (Nat.zero_le _) (by simp [Nat.dvd_mul_left]) _ _
        (fun j _ => mono (fills_interior V i j u nR nC hu))
    · refine fills_colLoop hV hN01 hNd _ _ (fun j _ => ?_)
      have := fills_interior (N := N) (K := K) V i j u nR 1 hu
      exact mono (by simpa using this)
    · exact fills_maskLoopFlat _ hN1 _ _ (fun j => mono (fills_interiorMask masks i j u nR _ hu))
  · apply fills_rowLoop hu hM01 hMd
    intro i _
    apply fills_cols3 hN01 hN1
    · refine fills_colLoop hIB (Nat.zero_le _) (by simp [Nat.dvd_mul_left]) _ _ (fun j _ => ?_)
      have := fills_interior (N := N) (K := K) V i j u 1 nC hu
      exact mono (by simpa using this)
    · refine fills_colLoopMap hV hN01 hNd _ _ (fun j _ => ?_)
      exact (fills_tblock (rowsFrom i u) (colsAsc j V) 0 _ _ (fun r hr c hc =>
        krange_sufficient lt rt K u V i j r c (mem_rowsFrom.1 hr) (mem_colsAsc.1 hc))).congr
        (fun _ => mem_rowsFrom) (fun _ => mem_colsAsc)
    · refine fills_maskLoop _ hN1 _ _ (fun j => ?_)
      exact (fills_tblock (rowsFrom i u) (maskCols masks j _) 0 _ _ (fun r hr c hc => by
        have hc' := mem_maskCols.1 hc
        exact krange_sufficient lt rt K u V i j r c (mem_rowsFrom.1 hr) (by omega))).congr
        (fun _ => mem_rowsFrom) (fun _ => mem_maskCols)
  · split
    · rename_i hpos
      apply fills_cols3 hN01 hN1
      · refine fills_colLoop hIB (Nat.zero_le _) (by simp [Nat.dvd_mul_left]) _ _ (fun j _ => ?_)
        have := fills_interior (N := N) (K := K) V (M / u * u) j (M - M / u * u) 1 nC (by omega)
        exact mono (this.congr (fun r => by omega) (fun _ => Iff.rfl))
      · refine fills_colLoopMap hV hN01 hNd _ _ (fun j _ => ?_)
        exact mono ((fills_blockPartial (rowsFrom (M / u * u) (M - M / u * u)) (colsAsc j V) 0 (by omega)).congr
          (fun r => by rw [mem_rowsFrom]; omega) (fun _ => mem_colsAsc))
      · refine fills_maskLoop _ hN1 _ _ (fun j => ?_)
        exact mono ((fills_block (rowsFrom (M / u * u) (M - M / u * u)) (maskCols masks j _) 0 (by omega)).congr
          (fun r => by rw [mem_rowsFrom]; omega) (fun _ => mem_maskCols))
    · rename_i hpos
      exact empty_fills_rows _ _ (fun r => by omega)

theorem fills_tnonPrimitive (M : Nat) :
    Fills N (TComplete lt rt K) (tnonPrimitive lt rt M K N) (· < M) (· < N) := by
  unfold tnonPrimitive
  have h := Fills.flatMap_rows (N := N) (P := TComplete lt rt K) (List.range M)
    (fun i => (List.range N).map fun j => tblock [i] [j] 1 (kfirst lt rt i j) (klast lt rt K 1 1 i j))
    (fun i r => r ∈ [i]) (· < N) ?_
  · exact h.congr (range_rows M) (fun _ => Iff.rfl)
  · intro i _
    have := Fills.map_cols (N := N) (P := TComplete lt rt K) (List.range N)
      (fun j => tblock [i] [j] 1 (kfirst lt rt i j) (klast lt rt K 1 1 i j))
      (fun r => r ∈ [i]) (fun j c => c ∈ [j]) (fun j _ => fills_tblock [i] [j] 1 _ _ (fun r hr c hc => by
        simp only [List.mem_singleton] at hr hc
        exact krange_sufficient lt rt K 1 1 i j r c (by omega) (by omega)))
    exact this.congr (fun _ => Iff.rfl) (range_rows N)

end Fastor.Tmatmul
