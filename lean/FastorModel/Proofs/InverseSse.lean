import FastorModel.Model.InverseSse
import FastorModel.Proofs.InverseLeaf
/- the SSE intrinsic leaf kernels compute a left inverse (hence, for square matrices, the inverse and the same
   values as the scalar closed forms) -/
namespace Fastor.Inv.Sse
open Fastor.Inv
variable {K : Type} [Field K]

theorem inv2f_flat (s : Nat → K) (h : leafDet 2 s ≠ 0) : ∀ i < 2, ∀ j < 2,
    ∑ l ∈ Finset.range 2, inv2f s (i * 2 + l) * s (l * 2 + j) = if i = j then 1 else 0 := by
  have hr := mul_inv_cancel₀ h
  intro i hi j hj
  interval_cases i <;> interval_cases j <;>
    simp only [Finset.sum_range_succ, Finset.sum_range_zero, inv2f, leafDet, loadu, neg, shuffle, mul, add_ss, div_ss,
      V4.get, Nat.reduceMul, Nat.reduceAdd, Nat.reduceMod, Nat.reduceDiv, zero_add] at hr ⊢ <;>
    simp only [if_true, OfNat.ofNat_ne_zero, OfNat.zero_ne_ofNat, OfNat.ofNat_ne_one, OfNat.one_ne_ofNat, zero_ne_one, one_ne_zero, if_false, Nat.reduceEqDiff] <;>
    first | linear_combination hr | ring


set_option maxHeartbeats 8000000 in
theorem inv4f_flat (s : Nat → K) (h : leafDet 4 s ≠ 0) : ∀ i < 4, ∀ j < 4,
    ∑ l ∈ Finset.range 4, inv4f s (i * 4 + l) * s (l * 4 + j) = if i = j then 1 else 0 := by
  have hr := mul_inv_cancel₀ h
  intro i hi j hj
  interval_cases i <;> interval_cases j <;>
    simp only [Finset.sum_range_succ, Finset.sum_range_zero, inv4f, leafDet, loadu, movelh, movehl, shuffle, mul, add, sub,
      mul_ss, add_ss, sub_ss, div_ss, set_ss_one, xorPNNP, V4.get, Nat.reduceMul, Nat.reduceAdd, Nat.reduceMod, Nat.reduceDiv,
      Nat.reduceLT, Nat.reduceSub, if_true, if_false, zero_add] at hr ⊢ <;>
    (try simp only [if_true, OfNat.ofNat_ne_zero, OfNat.zero_ne_ofNat, OfNat.ofNat_ne_one, OfNat.one_ne_ofNat, zero_ne_one, one_ne_zero, if_false, Nat.reduceEqDiff]) <;>
    first | linear_combination hr | ring


theorem inv2d_flat (s : Nat → K) (h : leafDet 2 s ≠ 0) : ∀ i < 2, ∀ j < 2,
    ∑ l ∈ Finset.range 2, inv2d s (i * 2 + l) * s (l * 2 + j) = if i = j then 1 else 0 := by
  have hr := mul_inv_cancel₀ h
  intro i hi j hj
  interval_cases i <;> interval_cases j <;>
    simp only [Finset.sum_range_succ, Finset.sum_range_zero, inv2d, leafDet, loadu2, neg2, shuffle_pd, mul2, add2, div2, reverse2,
      V2.get, Nat.reduceMul, Nat.reduceAdd, Nat.reduceMod, Nat.reduceDiv, Nat.reduceLT, Nat.reduceSub, if_true, if_false, zero_add] at hr ⊢ <;>
    (try simp only [if_true, OfNat.ofNat_ne_zero, OfNat.zero_ne_ofNat, OfNat.ofNat_ne_one, OfNat.one_ne_ofNat, zero_ne_one, one_ne_zero, if_false, Nat.reduceEqDiff]) <;>
    first | linear_combination hr | ring

set_option maxHeartbeats 8000000 in
theorem inv4d_flat (s : Nat → K) (h : leafDet 4 s ≠ 0) : ∀ i < 4, ∀ j < 4,
    ∑ l ∈ Finset.range 4, inv4d s (i * 4 + l) * s (l * 4 + j) = if i = j then 1 else 0 := by
  have hr := mul_inv_cancel₀ h
  intro i hi j hj
  interval_cases i <;> interval_cases j <;>
    simp only [Finset.sum_range_succ, Finset.sum_range_zero, inv4d, leafDet, loadu2, shuffle_pd, mul2, add2, sub2,
      mul_sd, add_sd, sub_sd, div_sd, set_sd_one, xorPN, xorNP, V2.get, Nat.reduceMul, Nat.reduceAdd, Nat.reduceMod, Nat.reduceDiv,
      Nat.reduceLT, Nat.reduceSub, if_true, if_false, zero_add] at hr ⊢ <;>
    (try simp only [if_true, OfNat.ofNat_ne_zero, OfNat.zero_ne_ofNat, OfNat.ofNat_ne_one, OfNat.one_ne_ofNat, zero_ne_one, one_ne_zero, if_false, Nat.reduceEqDiff]) <;>
    first | linear_combination hr | ring

/-- a left inverse of a matrix that has a left inverse `Y` with `A*Y = 1` is `Y` -/
theorem left_inv_unique {n : Nat} (A X Y : Matrix (Fin n) (Fin n) K) (hX : X * A = 1) (hY : Y * A = 1) : X = Y := by
  have hA : A * Y = 1 := mul_eq_one_comm.mp hY
  calc X = X * (A * Y) := by rw [hA, Matrix.mul_one]
    _ = (X * A) * Y := by rw [Matrix.mul_assoc]
    _ = Y := by rw [hX, Matrix.one_mul]

end Fastor.Inv.Sse
