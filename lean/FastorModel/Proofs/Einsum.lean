import Mathlib.Algebra.BigOperators.Group.Finset.Basic
import Mathlib.Algebra.Ring.Defs
import Mathlib.Tactic.Ring
import Mathlib.Data.List.Basic
import FastorModel.Model.Einsum
/-
  Helper lemmas for C03 (pairwise einsum).
  * the accumulation fold `accAt` is a sum over the events that touch the cell;
  * the loop nest `assignments dims 1` enumerates every in-range assignment exactly once;
  * row-major offsets (`flat`, `flatAt`) are injective on in-range multi-indices and stay below the
    product of the extents;
  * the metafunctions `uniq`, `resultIdx`, `resultDims`, `loopDims`, `posIn`.
-/
namespace Fastor.Einsum

variable {R : Type} [CommSemiring R]

/-! ### T1: the accumulation fold is a sum -/

theorem foldl_cond_add {ε : Type} (c : ε → Prop) [DecidablePred c] (v : ε → R) (evs : List ε) (init : R) :
    evs.foldl (fun acc e => if c e then v e + acc else acc) init
      = init + ((evs.filter (fun e => decide (c e))).map v).sum := by
  induction evs generalizing init with
  | nil => simp
  | cons e es ih =>
    simp only [List.foldl_cons, ih, List.filter_cons]
    by_cases h : c e
    · simp [h, add_comm (v e) init, add_assoc]
    · simp [h]

/-- the value of cell `q` is the sum of the contributions of the events whose lane window contains
    `q` (any lane counts) -/
theorem accAt_eq_sum_lanes (a b : Nat → R) (evs : List Acc) (q : Nat) :
    accAt a b evs q
      = (((evs.filter (fun e => decide (e.io ≤ q ∧ q < e.io + e.lanes)))).map
          (fun e => a e.ia * b (e.ib + (q - e.io)))).sum := by
  unfold accAt
  rw [foldl_cond_add (fun e : Acc => e.io ≤ q ∧ q < e.io + e.lanes)
    (fun e => a e.ia * b (e.ib + (q - e.io))) evs 0]
  simp

/-- **T1** scalar events (`lanes = 1`): the cell holds the sum of the products of the events
    addressed to it -/
theorem accAt_eq_sum (a b : Nat → R) (evs : List Acc) (h1 : ∀ e ∈ evs, e.lanes = 1) (q : Nat) :
    accAt a b evs q = ((evs.filter (fun e => decide (e.io = q))).map (fun e => a e.ia * b e.ib)).sum := by
  rw [accAt_eq_sum_lanes]
  have hf : evs.filter (fun e => decide (e.io ≤ q ∧ q < e.io + e.lanes))
      = evs.filter (fun e => decide (e.io = q)) := by
    apply List.filter_congr
    intro e he
    have := h1 e he
    simp only [decide_eq_decide]
    omega
  rw [hf]
  congr 1
  apply List.map_congr_left
  intro e he
  have := (List.mem_filter.1 he).2
  simp only [decide_eq_true_eq] at this
  simp [this]

/-! ### T2: the loop nest -/

/-- `x` is an in-range multi-index for the extents `dims` -/
abbrev InRange (x dims : List Nat) : Prop := List.Forall₂ (· < ·) x dims

theorem forRange_zero_one (d : Nat) : forRange 0 d 1 = List.range d := by
  unfold forRange forCount
  simp

theorem assignments_cons_one (d : Nat) (ds : List Nat) :
    assignments (d :: ds) 1
      = (List.range d).flatMap fun i => (assignments ds 1).map fun r => i :: r := by
  cases ds with
  | nil =>
    simp only [assignments, forRange_zero_one]
    generalize List.range d = l
    induction l with
    | nil => simp
    | cons x xs ih => simp [List.flatMap_cons, ih]
  | cons e es => simp only [assignments]

theorem mem_assignments_iff {dims σ : List Nat} : σ ∈ assignments dims 1 ↔ InRange σ dims := by
  induction dims generalizing σ with
  | nil => simp [assignments, InRange]
  | cons d ds ih =>
    rw [assignments_cons_one]
    simp only [List.mem_flatMap, List.mem_range, List.mem_map]
    constructor
    · rintro ⟨i, hi, r, hr, rfl⟩
      exact List.Forall₂.cons hi (ih.1 hr)
    · intro h
      cases h with
      | cons hi hr => exact ⟨_, hi, _, ih.2 hr, rfl⟩

theorem assignments_nodup (dims : List Nat) : (assignments dims 1).Nodup := by
  induction dims with
  | nil => simp [assignments]
  | cons d ds ih =>
    rw [assignments_cons_one, List.nodup_flatMap]
    refine ⟨fun i _ => ih.map (fun r s h => (List.cons.inj h).2), ?_⟩
    refine List.Pairwise.imp_of_mem ?_ List.nodup_range
    intro i j _ _ hij
    simp only [Function.onFun, List.disjoint_left, List.mem_map]
    rintro σ ⟨r, _, rfl⟩ ⟨s, _, h⟩
    exact hij (List.cons.inj h).1.symm

theorem inRange_iff_getD {x dims : List Nat} :
    InRange x dims ↔ x.length = dims.length ∧ ∀ k < dims.length, x.getD k 0 < dims.getD k 0 := by
  induction x generalizing dims with
  | nil =>
    cases dims with
    | nil => simp [InRange]
    | cons d ds => simp [InRange]
  | cons a as ih =>
    cases dims with
    | nil => simp [InRange]
    | cons d ds =>
      simp only [InRange, List.forall₂_cons, List.length_cons, Nat.add_right_cancel_iff] at ih ⊢
      rw [ih]
      constructor
      · rintro ⟨h0, hl, hk⟩
        refine ⟨hl, fun k hk' => ?_⟩
        cases k with
        | zero => simpa using h0
        | succ k => simpa using hk k (by omega)
      · rintro ⟨hl, hk⟩
        refine ⟨by simpa using hk 0 (by omega), hl, fun k hk' => ?_⟩
        simpa using hk (k + 1) (by omega)

theorem InRange.length_eq {x dims : List Nat} (h : InRange x dims) : x.length = dims.length :=
  List.Forall₂.length_eq h

theorem InRange.getD_lt {x dims : List Nat} (h : InRange x dims) {k : Nat} (hk : k < dims.length) :
    x.getD k 0 < dims.getD k 0 := (inRange_iff_getD.1 h).2 k hk

/-! ### T3: row-major offsets -/

/-- flat row-major offset of the multi-index `x` in a tensor of extents `dims` -/
def flat (dims x : List Nat) : Nat :=
  ((strides dims).zip x).foldl (fun acc sp => acc + sp.1 * sp.2) 0

theorem foldl_add_shift {β : Type} (g : β → Nat) (l : List β) (init : Nat) :
    l.foldl (fun acc s => acc + g s) init = init + l.foldl (fun acc s => acc + g s) 0 := by
  induction l generalizing init with
  | nil => simp
  | cons s ss ih =>
    simp only [List.foldl_cons]
    rw [ih, ih (0 + g s)]
    omega

theorem foldl_mul_shift (l : List Nat) (init : Nat) :
    l.foldl (· * ·) init = init * l.foldl (· * ·) 1 := by
  induction l generalizing init with
  | nil => simp
  | cons s ss ih =>
    simp only [List.foldl_cons]
    rw [ih, ih (1 * s)]
    simp [Nat.mul_assoc]

@[simp] theorem prod_nil : prod [] = 1 := rfl

theorem prod_cons (d : Nat) (ds : List Nat) : prod (d :: ds) = d * prod ds := by
  unfold prod
  simp only [List.foldl_cons]
  rw [foldl_mul_shift]
  simp

@[simp] theorem flat_nil_left (x : List Nat) : flat [] x = 0 := by simp [flat, strides]
@[simp] theorem flat_nil_right (dims : List Nat) : flat dims [] = 0 := by simp [flat]

theorem flat_cons (d : Nat) (ds : List Nat) (x : Nat) (xs : List Nat) :
    flat (d :: ds) (x :: xs) = prod ds * x + flat ds xs := by
  unfold flat
  simp only [strides, List.zip_cons_cons, List.foldl_cons]
  rw [foldl_add_shift (fun sp : Nat × Nat => sp.1 * sp.2)]
  simp [prod]

theorem flatAt_aux (st pos as : List Nat) (init : Nat) :
    (st.zip pos).foldl (fun acc sp => acc + sp.1 * as.getD sp.2 0) init
      = (st.zip (pos.map (as.getD · 0))).foldl (fun acc sp => acc + sp.1 * sp.2) init := by
  induction st generalizing pos init with
  | nil => simp
  | cons s ss ih =>
    cases pos with
    | nil => simp
    | cons p ps => simp only [List.zip_cons_cons, List.foldl_cons, List.map_cons]; exact ih _ _

theorem flatAt_eq_flat (dims pos as : List Nat) :
    flatAt dims pos as = flat dims (pos.map (as.getD · 0)) := flatAt_aux _ _ _ _

theorem flat_lt_prod {dims x : List Nat} (h : InRange x dims) : flat dims x < prod dims := by
  induction h with
  | nil => simp
  | @cons a d as ds had _ ih =>
    rw [flat_cons, prod_cons]
    calc prod ds * a + flat ds as < prod ds * a + prod ds := by omega
      _ = prod ds * (a + 1) := by ring
      _ ≤ prod ds * d := Nat.mul_le_mul_left _ had
      _ = d * prod ds := Nat.mul_comm _ _

/-- **T3** row-major offsets are injective on in-range multi-indices -/
theorem flat_injective {dims x y : List Nat} (hx : InRange x dims) (hy : InRange y dims)
    (h : flat dims x = flat dims y) : x = y := by
  induction hx generalizing y with
  | nil => cases hy; rfl
  | @cons a d as ds had has ih =>
    cases hy with
    | @cons c _ cs _ hcd hcs =>
      rw [flat_cons, flat_cons] at h
      have h1 := flat_lt_prod has
      have h2 := flat_lt_prod hcs
      have hpos : 0 < prod ds := by omega
      have hac : a = c := by
        have e1 : (prod ds * a + flat ds as) / prod ds = a := by
          rw [Nat.mul_comm, Nat.add_comm, Nat.add_mul_div_right _ _ hpos, Nat.div_eq_of_lt h1]; simp
        have e2 : (prod ds * c + flat ds cs) / prod ds = c := by
          rw [Nat.mul_comm, Nat.add_comm, Nat.add_mul_div_right _ _ hpos, Nat.div_eq_of_lt h2]; simp
        rw [← e1, ← e2, h]
      subst hac
      have : flat ds as = flat ds cs := by omega
      rw [ih hcs this]

/-- every cell below the product of the extents is the offset of an in-range multi-index -/
theorem flat_surjective (dims : List Nat) {q : Nat} (hq : q < prod dims) :
    ∃ x, InRange x dims ∧ flat dims x = q := by
  induction dims generalizing q with
  | nil => exact ⟨[], List.Forall₂.nil, by simp at hq; simp [hq]⟩
  | cons d ds ih =>
    rw [prod_cons] at hq
    have hpos : 0 < prod ds := by
      rcases Nat.eq_zero_or_pos (prod ds) with h | h
      · rw [h] at hq; omega
      · exact h
    obtain ⟨xs, hxs, hf⟩ := ih (q := q % prod ds) (Nat.mod_lt _ hpos)
    refine ⟨q / prod ds :: xs, List.Forall₂.cons ?_ hxs, ?_⟩
    · exact (Nat.div_lt_iff_lt_mul hpos).2 hq
    · rw [flat_cons, hf]; exact Nat.div_add_mod _ _

/-! ### the metafunctions -/

/-- one step of `uniq_t` -/
def uniqStep (acc : List Nat) (x : Nat) : List Nat := if acc.contains x then acc else acc ++ [x]

theorem uniq_eq_foldl (l : List Nat) : uniq l = l.foldl uniqStep [] := rfl

theorem uniqStep_eq (acc : List Nat) (x : Nat) :
    uniqStep acc x = if x ∈ acc then acc else acc ++ [x] := by
  simp [uniqStep]

theorem mem_foldl_uniqStep (l acc : List Nat) (x : Nat) :
    x ∈ l.foldl uniqStep acc ↔ x ∈ acc ∨ x ∈ l := by
  induction l generalizing acc with
  | nil => simp
  | cons y ys ih =>
    simp only [List.foldl_cons, ih, uniqStep_eq, List.mem_cons]
    by_cases h : y ∈ acc
    · simp only [h, if_true]
      constructor
      · rintro (h1 | h1)
        · exact Or.inl h1
        · exact Or.inr (Or.inr h1)
      · rintro (h1 | rfl | h1)
        · exact Or.inl h1
        · exact Or.inl h
        · exact Or.inr h1
    · simp only [h, if_false, List.mem_append, List.mem_singleton]
      tauto

theorem nodup_foldl_uniqStep (l acc : List Nat) (h : acc.Nodup) : (l.foldl uniqStep acc).Nodup := by
  induction l generalizing acc with
  | nil => simpa
  | cons y ys ih =>
    simp only [List.foldl_cons]
    apply ih
    rw [uniqStep_eq]
    by_cases hy : y ∈ acc
    · simpa [hy]
    · simp only [hy, if_false]
      rw [List.nodup_append]
      refine ⟨h, by simp, ?_⟩
      intro a ha b hb
      simp only [List.mem_singleton] at hb
      subst hb
      intro hab; subst hab; exact hy ha

theorem mem_uniq {l : List Nat} {x : Nat} : x ∈ uniq l ↔ x ∈ l := by
  rw [uniq_eq_foldl, mem_foldl_uniqStep]; simp

theorem uniq_nodup (l : List Nat) : (uniq l).Nodup :=
  nodup_foldl_uniqStep l [] List.nodup_nil

theorem foldl_uniqStep_filter (P : Nat → Bool) (l acc : List Nat) :
    (l.filter P).foldl uniqStep (acc.filter P) = (l.foldl uniqStep acc).filter P := by
  induction l generalizing acc with
  | nil => simp
  | cons y ys ih =>
    simp only [List.filter_cons, List.foldl_cons]
    by_cases hP : P y = true
    · simp only [hP, if_true, List.foldl_cons]
      rw [← ih]
      congr 1
      rw [uniqStep_eq, uniqStep_eq]
      by_cases hy : y ∈ acc
      · have : y ∈ acc.filter P := List.mem_filter.2 ⟨hy, hP⟩
        simp only [hy, this, if_true]
      · have : y ∉ acc.filter P := fun hm => hy (List.mem_filter.1 hm).1
        simp only [hy, this, if_false, List.filter_append]
        simp [hP]
    · simp only [hP, Bool.false_eq_true, if_false]
      rw [← ih]
      congr 1
      rw [uniqStep_eq]
      split
      · rfl
      · simp [List.filter_append, hP]

/-- `uniq` commutes with filtering -/
theorem uniq_filter (P : Nat → Bool) (l : List Nat) : uniq (l.filter P) = (uniq l).filter P := by
  have := foldl_uniqStep_filter P l []
  simpa [uniq_eq_foldl] using this

theorem foldl_uniqStep_of_nodup (l acc : List Nat) (h : (acc ++ l).Nodup) :
    l.foldl uniqStep acc = acc ++ l := by
  induction l generalizing acc with
  | nil => simp
  | cons y ys ih =>
    simp only [List.foldl_cons]
    have hy : y ∉ acc := by
      intro hy
      rw [List.nodup_append] at h
      exact h.2.2 y hy y (List.mem_cons_self ..) rfl
    have : uniqStep acc y = acc ++ [y] := by simp [uniqStep_eq, hy]
    rw [this, ih]
    · simp
    · simpa using h

theorem uniq_of_nodup {l : List Nat} (h : l.Nodup) : uniq l = l := by
  have := foldl_uniqStep_of_nodup l [] (by simpa using h)
  simpa [uniq_eq_foldl] using this

theorem occursOnce_iff {cat : List Nat} {x : Nat} : occursOnce cat x = true ↔ cat.count x = 1 := by
  simp [occursOnce]

theorem resultIdx_nodup (cat : List Nat) : (resultIdx cat).Nodup := by
  rw [List.nodup_iff_count_le_one]
  intro x
  unfold resultIdx
  by_cases h : occursOnce cat x = true
  · rw [List.count_filter h]; exact Nat.le_of_eq (occursOnce_iff.1 h)
  · have : x ∉ cat.filter (occursOnce cat) := fun hm => h (List.mem_filter.1 hm).2
    rw [List.count_eq_zero.2 this]; omega

/-- the result indices are the once-occurring ones *in order of first appearance* -/
theorem resultIdx_eq_filter_uniq (cat : List Nat) :
    resultIdx cat = (uniq cat).filter (occursOnce cat) := by
  rw [← uniq_filter]; exact (uniq_of_nodup (resultIdx_nodup cat)).symm

theorem mem_resultIdx {cat : List Nat} {x : Nat} : x ∈ resultIdx cat ↔ x ∈ cat ∧ cat.count x = 1 := by
  simp [resultIdx, List.mem_filter, occursOnce_iff]

/-- an index that occurs once is found at its only position -/
theorem idxOf_of_count_one {l : List Nat} {x i : Nat} (hc : l.count x = 1) (hi : l[i]? = some x) :
    l.idxOf x = i := by
  induction l generalizing i with
  | nil => simp at hi
  | cons y ys ih =>
    by_cases hyx : y = x
    · subst hyx
      have h0 : ys.count y = 0 := by simpa using hc
      have hn : y ∉ ys := List.count_eq_zero.1 h0
      cases i with
      | zero => simp
      | succ i =>
        simp only [List.getElem?_cons_succ] at hi
        exact absurd (List.mem_of_getElem? hi) hn
    · have h1 : ys.count x = 1 := by simpa [List.count_cons, hyx] using hc
      cases i with
      | zero => simp at hi; exact absurd hi hyx
      | succ i =>
        simp only [List.getElem?_cons_succ] at hi
        rw [List.idxOf_cons_ne _ hyx, ih h1 hi]

theorem mem_zip_getElem? {cat catDims : List Nat} {x d : Nat} (h : (x, d) ∈ cat.zip catDims) :
    ∃ i : Nat, cat[i]? = some x ∧ catDims[i]? = some d := by
  obtain ⟨i, hi, he⟩ := List.mem_iff_getElem.1 h
  rw [List.getElem_zip] at he
  simp only [List.length_zip, Nat.lt_min] at hi
  refine ⟨i, ?_, ?_⟩
  · rw [List.getElem?_eq_getElem hi.1]; exact congrArg some (Prod.mk.inj he).1
  · rw [List.getElem?_eq_getElem hi.2]; exact congrArg some (Prod.mk.inj he).2

/-- extent of a once-occurring index, looked up through `find_index` -/
theorem zip_lookup_once {cat catDims : List Nat} {x d : Nat} (h : (x, d) ∈ cat.zip catDims)
    (hc : cat.count x = 1) : catDims.getD (cat.idxOf x) 0 = d := by
  obtain ⟨i, h1, h2⟩ := mem_zip_getElem? h
  rw [idxOf_of_count_one hc h1, List.getD_eq_getElem?_getD, h2]; rfl

/-- every occurrence of an index name carries the same extent -/
def Consistent (cat catDims : List Nat) : Prop :=
  ∀ i j, i < cat.length → j < cat.length → cat.getD i 0 = cat.getD j 0 →
    catDims.getD i 0 = catDims.getD j 0

theorem zip_lookup_consistent {cat catDims : List Nat} (hcons : Consistent cat catDims) {x d : Nat}
    (h : (x, d) ∈ cat.zip catDims) : catDims.getD (cat.idxOf x) 0 = d := by
  obtain ⟨i, h1, h2⟩ := mem_zip_getElem? h
  have hx : x ∈ cat := List.mem_of_getElem? h1
  have hj : cat.idxOf x < cat.length := List.idxOf_lt_length_iff.2 hx
  have hi : i < cat.length := by
    rcases Nat.lt_or_ge i cat.length with h | h
    · exact h
    · rw [List.getElem?_eq_none h] at h1; cases h1
  have := hcons (cat.idxOf x) i hj hi (by
    rw [List.getD_eq_getElem?_getD, List.getD_eq_getElem?_getD, h1, List.getElem?_eq_getElem hj,
      List.getElem_idxOf hj])
  rw [this, List.getD_eq_getElem?_getD, h2]; rfl

/-- `resultDims`: the extents of the result indices, read off the operands -/
theorem resultDims_eq_map {cat catDims : List Nat} (hlen : cat.length = catDims.length) :
    resultDims cat catDims = (resultIdx cat).map fun x => catDims.getD (cat.idxOf x) 0 := by
  unfold resultDims resultIdx
  have hfst : cat = (cat.zip catDims).map Prod.fst := (List.map_fst_zip (by omega)).symm
  conv_rhs => rw [hfst, List.filter_map, List.map_map]
  rw [← hfst]
  apply List.map_congr_left
  rintro ⟨x, d⟩ hm
  obtain ⟨hz, hP⟩ := List.mem_filter.1 hm
  simp only [Function.comp]
  exact (zip_lookup_once hz (occursOnce_iff.1 hP)).symm

theorem loopDims_length (cat catDims : List Nat) : (loopDims cat catDims).length = (uniq cat).length := by
  simp [loopDims]

/-- the value of loop variable `x` under an in-range assignment is below the extent found for `x` -/
theorem lookup_lt {cat catDims σ : List Nat} (hσ : InRange σ (loopDims cat catDims)) {x : Nat}
    (hx : x ∈ cat) :
    σ.getD ((uniq cat).idxOf x) 0 < catDims.getD (cat.idxOf x) 0 := by
  have hj : (uniq cat).idxOf x < (uniq cat).length := List.idxOf_lt_length_iff.2 (mem_uniq.2 hx)
  have := hσ.getD_lt (k := (uniq cat).idxOf x) (by rw [loopDims_length]; exact hj)
  have e : (loopDims cat catDims).getD ((uniq cat).idxOf x) 0 = catDims.getD (cat.idxOf x) 0 := by
    unfold loopDims findIndex
    rw [List.getD_eq_getElem?_getD, List.getElem?_map, List.getElem?_eq_getElem hj,
      List.getElem_idxOf hj]
    rfl
  rwa [e] at this

/-- the free part of an assignment: the values of the result indices, in result order -/
def freeOf (cat σ : List Nat) : List Nat := (posIn cat (resultIdx cat)).map (σ.getD · 0)

theorem freeOf_inRange {cat catDims σ : List Nat} (hlen : cat.length = catDims.length)
    (hσ : InRange σ (loopDims cat catDims)) : InRange (freeOf cat σ) (resultDims cat catDims) := by
  rw [resultDims_eq_map hlen]
  unfold freeOf posIn InRange findIndex
  rw [List.map_map, List.forall₂_map_left_iff, List.forall₂_map_right_iff, List.forall₂_same]
  intro x hx
  exact lookup_lt hσ (mem_resultIdx.1 hx).1

/-- under consistent extents the multi-index an assignment induces on an operand is in range -/
theorem operand_inRange {cat catDims idx dims σ : List Nat} (hcons : Consistent cat catDims)
    (hl : idx.length = dims.length) (hsub : ∀ z ∈ idx.zip dims, z ∈ cat.zip catDims)
    (hσ : InRange σ (loopDims cat catDims)) :
    InRange ((posIn cat idx).map (σ.getD · 0)) dims := by
  unfold posIn InRange findIndex
  rw [List.map_map, List.forall₂_map_left_iff, List.forall₂_iff_zip]
  refine ⟨hl, ?_⟩
  intro x d hz
  have hz' := hsub _ hz
  have hx : x ∈ cat := (List.of_mem_zip hz').1
  have := lookup_lt hσ hx
  rw [zip_lookup_consistent hcons hz'] at this
  exact this

/-! ### T5: the scalar loop nest computes the Einstein sum -/

/-- the free part of an assignment of the loop variables of `p`: the values of the result indices -/
def Pair.free (p : Pair) (σ : List Nat) : List Nat := (posIn p.cat p.resIdx).map (σ.getD · 0)

/-- the term of the Einstein sum for the assignment `σ` of all index names -/
def Pair.term (p : Pair) (a b : Nat → R) (σ : List Nat) : R :=
  a (flatAt p.dI (posIn p.cat p.I) σ) * b (flatAt p.dJ (posIn p.cat p.J) σ)

theorem Pair.free_eq_freeOf (p : Pair) (σ : List Nat) : p.free σ = freeOf p.cat σ := rfl

theorem Pair.cat_length (p : Pair) (hI : p.I.length = p.dI.length) (hJ : p.J.length = p.dJ.length) :
    p.cat.length = p.catDims.length := by
  simp [Pair.cat, Pair.catDims, hI, hJ]

theorem Pair.loopEvents_one (p : Pair) :
    p.loopEvents 1 = (assignments p.loopDims 1).map fun as =>
      { io := flatAt p.resDims (posIn p.cat p.resIdx) as,
        ia := flatAt p.dI (posIn p.cat p.I) as,
        ib := flatAt p.dJ (posIn p.cat p.J) as,
        lanes := 1 } := by
  simp [Pair.loopEvents]

theorem Pair.io_eq_flat (p : Pair) (σ : List Nat) :
    flatAt p.resDims (posIn p.cat p.resIdx) σ = flat p.resDims (p.free σ) := flatAt_eq_flat _ _ _

theorem Pair.free_inRange (p : Pair) (hI : p.I.length = p.dI.length) (hJ : p.J.length = p.dJ.length)
    {σ : List Nat} (hσ : σ ∈ assignments p.loopDims 1) : InRange (p.free σ) p.resDims :=
  freeOf_inRange (p.cat_length hI hJ) (mem_assignments_iff.1 hσ)

/-- the cell with result multi-index `m` holds the sum of the terms of all assignments whose free
    part is `m` -/
theorem Pair.loopnest_cell (p : Pair) (hI : p.I.length = p.dI.length) (hJ : p.J.length = p.dJ.length)
    (a b : Nat → R) {m : List Nat} (hm : InRange m p.resDims) :
    accAt a b (p.loopEvents 1) (flat p.resDims m)
      = (((assignments p.loopDims 1).filter (fun σ => decide (p.free σ = m))).map (p.term a b)).sum := by
  rw [accAt_eq_sum a b _ (by
    intro e he
    rw [Pair.loopEvents_one] at he
    obtain ⟨σ, _, rfl⟩ := List.mem_map.1 he
    rfl)]
  rw [Pair.loopEvents_one, List.filter_map, List.map_map]
  have hf : (assignments p.loopDims 1).filter
        ((fun e : Acc => decide (e.io = flat p.resDims m)) ∘ fun as =>
          { io := flatAt p.resDims (posIn p.cat p.resIdx) as,
            ia := flatAt p.dI (posIn p.cat p.I) as,
            ib := flatAt p.dJ (posIn p.cat p.J) as,
            lanes := 1 })
      = (assignments p.loopDims 1).filter (fun σ => decide (p.free σ = m)) := by
    apply List.filter_congr
    intro σ hσ
    simp only [Function.comp, decide_eq_decide, Pair.io_eq_flat]
    constructor
    · exact flat_injective (p.free_inRange hI hJ hσ) hm
    · intro h; rw [h]
  rw [hf]
  rfl

/-- frame: nothing at or beyond the size of the result is written -/
theorem Pair.loopnest_frame (p : Pair) (hI : p.I.length = p.dI.length) (hJ : p.J.length = p.dJ.length)
    (a b : Nat → R) {q : Nat} (hq : prod p.resDims ≤ q) : accAt a b (p.loopEvents 1) q = 0 := by
  rw [accAt_eq_sum a b _ (by
    intro e he
    rw [Pair.loopEvents_one] at he
    obtain ⟨σ, _, rfl⟩ := List.mem_map.1 he
    rfl)]
  have : (p.loopEvents 1).filter (fun e => decide (e.io = q)) = [] := by
    rw [List.filter_eq_nil_iff]
    intro e he
    rw [Pair.loopEvents_one] at he
    obtain ⟨σ, hσ, rfl⟩ := List.mem_map.1 he
    have := flat_lt_prod (p.free_inRange hI hJ hσ)
    simp only [Pair.io_eq_flat, decide_eq_true_eq]
    omega
  rw [this]; simp

/-! ### T6: the vectorised loop nest

A vector event covers `lanes` consecutive cells; `expand` replaces it by the scalar events it stands
for.  This never changes the final content of any cell, and under the conditions in which the library
vectorises, expanding the events of the vector loop nest gives *the scalar loop nest itself*. -/

/-- the scalar events a vector event stands for -/
def expand (e : Acc) : List Acc :=
  (List.range e.lanes).map fun l => { io := e.io + l, ia := e.ia, ib := e.ib + l, lanes := 1 }

theorem filter_range_eq (c n q : Nat) :
    (List.range n).filter (fun l => decide (c + l = q))
      = if c ≤ q ∧ q < c + n then [q - c] else [] := by
  induction n with
  | zero =>
    have : ¬ (c ≤ q ∧ q < c + 0) := by omega
    rw [if_neg this]; rfl
  | succ n ih =>
    rw [List.range_succ, List.filter_append, ih]
    by_cases h1 : c ≤ q ∧ q < c + n
    · have h2 : c ≤ q ∧ q < c + (n + 1) := by omega
      have h3 : ¬ (c + n = q) := by omega
      rw [if_pos h1, if_pos h2]
      simp [h3]
    · by_cases h3 : c + n = q
      · have h2 : c ≤ q ∧ q < c + (n + 1) := by omega
        have h4 : q - c = n := by omega
        rw [if_neg h1, if_pos h2]
        simp [h3, h4]
      · have h2 : ¬ (c ≤ q ∧ q < c + (n + 1)) := by omega
        rw [if_neg h1, if_neg h2]
        simp [h3]

theorem expand_lanes {evs : List Acc} : ∀ e ∈ evs.flatMap expand, e.lanes = 1 := by
  intro e he
  obtain ⟨e0, _, h⟩ := List.mem_flatMap.1 he
  obtain ⟨l, _, rfl⟩ := List.mem_map.1 h
  rfl

/-- expanding vector events into scalar events does not change the result -/
theorem accAt_expand (a b : Nat → R) (evs : List Acc) (q : Nat) :
    accAt a b (evs.flatMap expand) q = accAt a b evs q := by
  rw [accAt_eq_sum a b _ expand_lanes, accAt_eq_sum_lanes]
  induction evs with
  | nil => simp
  | cons e es ih =>
    rw [List.flatMap_cons, List.filter_append, List.map_append, List.sum_append, ih,
      List.filter_cons]
    have he : (expand e).filter (fun e' => decide (e'.io = q))
        = ((List.range e.lanes).filter (fun l => decide (e.io + l = q))).map
            fun l => { io := e.io + l, ia := e.ia, ib := e.ib + l, lanes := 1 } := by
      unfold expand
      rw [List.filter_map]
      rfl
    rw [he, filter_range_eq]
    by_cases hc : e.io ≤ q ∧ q < e.io + e.lanes
    · rw [if_pos hc]
      simp [hc]
    · rw [if_neg hc]
      simp [hc]

theorem assignments_cons_of_ne_nil (d : Nat) (ds : List Nat) (V : Nat) (h : ds ≠ []) :
    assignments (d :: ds) V
      = (List.range d).flatMap fun i => (assignments ds V).map fun r => i :: r := by
  cases ds with
  | nil => exact absurd rfl h
  | cons e es => simp only [assignments]

/-- the loop nest with the innermost variable split off -/
theorem assignments_snoc (ds : List Nat) (d V : Nat) :
    assignments (ds ++ [d]) V
      = (assignments ds 1).flatMap fun r => (forRange 0 d V).map fun i => r ++ [i] := by
  induction ds with
  | nil => simp [assignments]
  | cons e es ih =>
    rw [List.cons_append, assignments_cons_of_ne_nil _ _ _ (by simp), ih, assignments_cons_one]
    simp only [List.flatMap_assoc, List.flatMap_map, List.map_flatMap, List.map_map,
      Function.comp_def, List.cons_append]

theorem forRange_mul (k V : Nat) (hV : 0 < V) :
    forRange 0 (k * V) V = (List.range k).map (· * V) := by
  unfold forRange forCount
  have : (k * V - 0 + (V - 1)) / V = k := by
    rw [Nat.sub_zero, Nat.add_comm, Nat.add_mul_div_right _ _ hV, Nat.div_eq_of_lt (by omega)]
    simp
  rw [this]
  simp

theorem range_mul (k V : Nat) :
    List.range (k * V) = (List.range k).flatMap fun t => (List.range V).map fun l => t * V + l := by
  induction k with
  | zero => simp
  | succ k ih =>
    rw [Nat.succ_mul, List.range_add, ih, List.range_succ, List.flatMap_append]
    simp

/-- if the innermost loop variable enters the output and the second-operand offsets with unit stride
    and does not enter the first-operand offset, the vector loop nest (step `V`, `V` lanes per event)
    expands to the scalar loop nest, event for event and in the same order -/
theorem vector_events_expand (L : List Nat) (k V : Nat) (hV : 0 < V) (io ia ib : List Nat → Nat)
    (hio : ∀ r ∈ assignments L 1, ∀ i, io (r ++ [i]) = io (r ++ [0]) + i)
    (hia : ∀ r ∈ assignments L 1, ∀ i, ia (r ++ [i]) = ia (r ++ [0]))
    (hib : ∀ r ∈ assignments L 1, ∀ i, ib (r ++ [i]) = ib (r ++ [0]) + i) :
    ((assignments (L ++ [k * V]) V).map
        (fun σ => ({ io := io σ, ia := ia σ, ib := ib σ, lanes := V } : Acc))).flatMap expand
      = (assignments (L ++ [k * V]) 1).map
          (fun σ => ({ io := io σ, ia := ia σ, ib := ib σ, lanes := 1 } : Acc)) := by
  rw [assignments_snoc, assignments_snoc, forRange_mul k V hV, forRange_zero_one, range_mul]
  simp only [List.map_flatMap, List.flatMap_assoc, List.flatMap_map, List.map_map, Function.comp_def]
  apply List.flatMap_congr
  intro r hr
  apply List.flatMap_congr
  intro t _
  unfold expand
  apply List.map_congr_left
  intro l _
  simp only
  rw [hio r hr (t * V + l), hio r hr (t * V), hia r hr (t * V + l), hia r hr (t * V),
    hib r hr (t * V + l), hib r hr (t * V)]
  simp only [Acc.mk.injEq, and_true, true_and]
  omega

theorem getD_append_lt (r : List Nat) (i k : Nat) (h : k < r.length) :
    (r ++ [i]).getD k 0 = r.getD k 0 := by
  rw [List.getD_eq_getElem?_getD, List.getD_eq_getElem?_getD, List.getElem?_append_left h]

theorem getD_append_len (r : List Nat) (i : Nat) : (r ++ [i]).getD r.length 0 = i := by
  rw [List.getD_eq_getElem?_getD, List.getElem?_append_right (Nat.le_refl _)]
  simp

/-- the last axis has unit stride -/
theorem flat_snoc (dims x' : List Nat) (i : Nat) (h : dims.length = x'.length + 1) :
    flat dims (x' ++ [i]) = flat dims (x' ++ [0]) + i := by
  induction x' generalizing dims with
  | nil =>
    match dims, h with
    | [d], _ => simp [flat_cons]
  | cons x xs ih =>
    match dims, h with
    | d :: ds, h =>
      simp only [List.cons_append, flat_cons]
      rw [ih ds (by simpa using h)]
      omega

/-- positions that refer to the outer loop variables do not see the innermost one -/
theorem flatAt_outer (dims pos r : List Nat) (i j : Nat) (hpos : ∀ k ∈ pos, k < r.length) :
    flatAt dims pos (r ++ [i]) = flatAt dims pos (r ++ [j]) := by
  rw [flatAt_eq_flat, flatAt_eq_flat]
  congr 1
  apply List.map_congr_left
  intro k hk
  rw [getD_append_lt _ _ _ (hpos k hk), getD_append_lt _ _ _ (hpos k hk)]

/-- an operand whose last index is the innermost loop variable is walked with unit stride -/
theorem flatAt_inner (dims pos' r : List Nat) (i : Nat) (hpos : ∀ k ∈ pos', k < r.length)
    (hlen : dims.length = pos'.length + 1) :
    flatAt dims (pos' ++ [r.length]) (r ++ [i]) = flatAt dims (pos' ++ [r.length]) (r ++ [0]) + i := by
  rw [flatAt_eq_flat, flatAt_eq_flat, List.map_append, List.map_append]
  simp only [List.map_cons, List.map_nil, getD_append_len]
  have e : pos'.map ((r ++ [i]).getD · 0) = pos'.map ((r ++ [0]).getD · 0) := by
    apply List.map_congr_left
    intro k hk
    rw [getD_append_lt _ _ _ (hpos k hk), getD_append_lt _ _ _ (hpos k hk)]
  rw [e]
  exact flat_snoc _ _ _ (by simpa using hlen)

theorem uniq_snoc {cat' : List Nat} {jl : Nat} (hn : jl ∉ cat') :
    uniq (cat' ++ [jl]) = uniq cat' ++ [jl] := by
  simp only [uniq_eq_foldl, List.foldl_append, List.foldl_cons, List.foldl_nil]
  rw [uniqStep_eq, if_neg]
  rw [← uniq_eq_foldl, mem_uniq]
  exact hn

theorem posIn_snoc_lt {cat' : List Nat} {jl : Nat} (hn : jl ∉ cat') (l : List Nat)
    (hl : ∀ x ∈ l, x ∈ cat') : ∀ k ∈ posIn (cat' ++ [jl]) l, k < (uniq cat').length := by
  intro k hk
  unfold posIn findIndex at hk
  obtain ⟨x, hx, rfl⟩ := List.mem_map.1 hk
  rw [uniq_snoc hn, List.idxOf_append_of_mem (mem_uniq.2 (hl x hx))]
  exact List.idxOf_lt_length_iff.2 (mem_uniq.2 (hl x hx))

theorem posIn_snoc_last {cat' : List Nat} {jl : Nat} (hn : jl ∉ cat') (l : List Nat) :
    posIn (cat' ++ [jl]) (l ++ [jl]) = posIn (cat' ++ [jl]) l ++ [(uniq cat').length] := by
  unfold posIn findIndex
  rw [List.map_append, uniq_snoc hn]
  congr 1
  simp only [List.map_cons, List.map_nil]
  rw [List.idxOf_append_of_notMem (fun h => hn (mem_uniq.1 h))]
  simp

theorem resultIdx_snoc {cat' : List Nat} {jl : Nat} (hn : jl ∉ cat') :
    resultIdx (cat' ++ [jl]) = cat'.filter (occursOnce (cat' ++ [jl])) ++ [jl] := by
  unfold resultIdx
  rw [List.filter_append]
  congr 1
  have : occursOnce (cat' ++ [jl]) jl = true := by
    rw [occursOnce_iff, List.count_append, List.count_eq_zero.2 hn]
    simp
  simp [this]

/-- **T6.**  When the last index `jl` of the second operand occurs nowhere else (it is free — then it
    is the innermost loop variable and the last result index) and `V > 0` divides its extent, the
    vector loop nest expands to the scalar loop nest, event for event and in the same order. -/
theorem Pair.loopEvents_vector_expand (p : Pair) (hI : p.I.length = p.dI.length)
    (hJ : p.J.length = p.dJ.length) (J' : List Nat) (jl : Nat) (hJeq : p.J = J' ++ [jl])
    (hnI : jl ∉ p.I) (hnJ : jl ∉ J') (k V : Nat) (hV : 0 < V) (hdl : p.dJ.getLastD 1 = k * V) :
    (p.loopEvents V).flatMap expand = p.loopEvents 1 := by
  -- shape of the concatenated lists
  have hcat : p.cat = (p.I ++ J') ++ [jl] := by simp [Pair.cat, hJeq]
  have hn : jl ∉ p.I ++ J' := by simp [hnI, hnJ]
  obtain ⟨dJ', x, hdJ⟩ : ∃ dJ' x, p.dJ = dJ' ++ [x] := by
    rcases List.eq_nil_or_concat p.dJ with h | ⟨l, b, h⟩
    · rw [h, hJeq] at hJ; simp at hJ
    · exact ⟨l, b, by simpa using h⟩
  have hlen' : J'.length = dJ'.length := by rw [hJeq, hdJ] at hJ; simpa using hJ
  have hx : x = k * V := by rw [hdJ] at hdl; simpa using hdl
  have hcatDims : p.catDims = (p.dI ++ dJ') ++ [x] := by simp [Pair.catDims, hdJ]
  have hcl : p.cat.length = p.catDims.length := p.cat_length hI hJ
  -- the loop extents
  have hU : uniq p.cat = uniq (p.I ++ J') ++ [jl] := by rw [hcat]; exact uniq_snoc hn
  have hL : p.loopDims
      = (uniq (p.I ++ J')).map (fun u => p.catDims.getD (findIndex p.cat u) 0) ++ [k * V] := by
    unfold Pair.loopDims Einsum.loopDims
    rw [hU, List.map_append]
    congr 1
    simp only [List.map_cons, List.map_nil, findIndex]
    rw [hcat, List.idxOf_append_of_notMem hn, hcatDims]
    have : (p.I ++ J').length = (p.dI ++ dJ').length := by simp [hI, hlen']
    simp [this, hx]
  -- the result indices
  have hR : p.resIdx = (p.I ++ J').filter (occursOnce p.cat) ++ [jl] := by
    unfold Pair.resIdx; rw [hcat]; exact resultIdx_snoc hn
  have hRD : p.resDims.length = ((p.I ++ J').filter (occursOnce p.cat)).length + 1 := by
    unfold Pair.resDims
    rw [resultDims_eq_map hcl, List.length_map]
    show p.resIdx.length = _
    rw [hR]; simp only [List.length_append, List.length_cons, List.length_nil]
  have hred : p.resDims.isEmpty = false := by
    cases h : p.resDims with
    | nil => rw [h] at hRD; simp at hRD
    | cons _ _ => rfl
  -- positions
  have hposR : posIn p.cat p.resIdx
      = posIn p.cat ((p.I ++ J').filter (occursOnce p.cat)) ++ [(uniq (p.I ++ J')).length] := by
    rw [hR, hcat]; exact posIn_snoc_last hn _
  have hposJ : posIn p.cat p.J = posIn p.cat J' ++ [(uniq (p.I ++ J')).length] := by
    rw [hJeq, hcat]; exact posIn_snoc_last hn _
  have hltR : ∀ k ∈ posIn p.cat ((p.I ++ J').filter (occursOnce p.cat)),
      k < (uniq (p.I ++ J')).length := by
    rw [hcat]; exact posIn_snoc_lt hn _ (fun x hx => (List.mem_filter.1 hx).1)
  have hltJ : ∀ k ∈ posIn p.cat J', k < (uniq (p.I ++ J')).length := by
    rw [hcat]; exact posIn_snoc_lt hn _ (fun x hx => List.mem_append_right _ hx)
  have hltI : ∀ k ∈ posIn p.cat p.I, k < (uniq (p.I ++ J')).length := by
    rw [hcat]; exact posIn_snoc_lt hn _ (fun x hx => List.mem_append_left _ hx)
  have hrlen : ∀ r ∈ assignments
      ((uniq (p.I ++ J')).map (fun u => p.catDims.getD (findIndex p.cat u) 0)) 1,
      r.length = (uniq (p.I ++ J')).length := by
    intro r hr
    rw [(mem_assignments_iff.1 hr).length_eq, List.length_map]
  -- assemble
  have key := vector_events_expand
    ((uniq (p.I ++ J')).map (fun u => p.catDims.getD (findIndex p.cat u) 0)) k V hV
    (fun σ => flatAt p.resDims (posIn p.cat p.resIdx) σ)
    (fun σ => flatAt p.dI (posIn p.cat p.I) σ)
    (fun σ => flatAt p.dJ (posIn p.cat p.J) σ)
    (by
      intro r hr i
      simp only [hposR, ← hrlen r hr]
      apply flatAt_inner
      · intro k hk; rw [hrlen r hr]; exact hltR k hk
      · rw [hRD]; simp [posIn])
    (by
      intro r hr i
      exact flatAt_outer _ _ _ _ _ (fun k hk => by rw [hrlen r hr]; exact hltI k hk))
    (by
      intro r hr i
      simp only [hposJ, ← hrlen r hr]
      apply flatAt_inner
      · intro k hk; rw [hrlen r hr]; exact hltJ k hk
      · rw [← hJ, hJeq]; simp [posIn])
  unfold Pair.loopEvents
  simp only [hred, Bool.false_eq_true, if_false]
  rw [hL]
  exact key

/-- the arithmetic of `is_vectorisable::stride` -/
def strideOf (fastest sse avx : Nat) (c : Bool) : Nat :=
  if c then 1
  else if fastest % sse == 0 && fastest % avx == 0 then avx
  else if fastest % sse == 0 then sse
  else 1

theorem Pair.stride_eq (p : Pair) (sz : Nat) (vec : Bool) :
    p.stride sz vec = strideOf (p.dJ.getLastD 1) (16 / sz) (32 / sz)
      (!vec || (p.I.contains (p.J.getLastD 0) || decide (p.J.count (p.J.getLastD 0) > 1))) := rfl

theorem strideOf_cases (f sse avx : Nat) (c : Bool) (hsse : 0 < sse) (havx : 1 < avx) :
    strideOf f sse avx c = 1 ∨
    (c = false ∧ f ≠ 1 ∧ 0 < strideOf f sse avx c ∧
      f = f / strideOf f sse avx c * strideOf f sse avx c) := by
  unfold strideOf
  cases c with
  | true => left; rfl
  | false =>
    simp only [Bool.false_eq_true, if_false]
    by_cases h1 : f % sse = 0
    · by_cases h2 : f % avx = 0
      · right
        have hf : f ≠ 1 := by
          rintro rfl
          rw [Nat.mod_eq_of_lt havx] at h2; omega
        simp only [h1, h2, beq_self_eq_true, Bool.and_self, if_true]
        exact ⟨trivial, hf, by omega, (Nat.div_mul_cancel (Nat.dvd_of_mod_eq_zero h2)).symm⟩
      · have e : (f % avx == 0) = false := by simpa using h2
        simp only [h1, e, beq_self_eq_true, Bool.and_false, Bool.false_eq_true, if_false, if_true]
        by_cases h3 : sse = 1
        · left; exact h3
        · right
          have hf : f ≠ 1 := by
            rintro rfl
            rw [Nat.mod_eq_of_lt (by omega)] at h1; omega
          exact ⟨trivial, hf, hsse, (Nat.div_mul_cancel (Nat.dvd_of_mod_eq_zero h1)).symm⟩
    · have e : (f % sse == 0) = false := by simpa using h1
      simp [e]

/-- what `is_vectorisable` guarantees: either the stride is 1 or the last index of the second operand
    occurs nowhere else and the (positive) stride divides its extent -/
theorem Pair.stride_cases (p : Pair) (hJ : p.J.length = p.dJ.length) (sz : Nat)
    (hsz : 0 < sz ∧ sz ≤ 16) (vec : Bool) :
    p.stride sz vec = 1 ∨
    ∃ J' jl k, p.J = J' ++ [jl] ∧ jl ∉ p.I ∧ jl ∉ J' ∧ 0 < p.stride sz vec ∧
      p.dJ.getLastD 1 = k * p.stride sz vec := by
  have hsse : 0 < 16 / sz := Nat.div_pos hsz.2 hsz.1
  have havx : 1 < 32 / sz := by
    have : 2 ≤ 32 / sz := (Nat.le_div_iff_mul_le hsz.1).2 (by omega)
    omega
  rw [Pair.stride_eq]
  rcases strideOf_cases (p.dJ.getLastD 1) (16 / sz) (32 / sz)
    (!vec || (p.I.contains (p.J.getLastD 0) || decide (p.J.count (p.J.getLastD 0) > 1))) hsse havx
    with h | ⟨hc, hf, hpos, hdiv⟩
  · exact Or.inl h
  · right
    rcases List.eq_nil_or_concat p.J with hnil | ⟨J', jl, hJc⟩
    · exfalso
      rw [hnil] at hJ
      have : p.dJ = [] := List.length_eq_zero_iff.1 hJ.symm
      rw [this] at hf
      exact hf rfl
    · have hJ' : p.J = J' ++ [jl] := by simpa using hJc
      simp only [hJ', List.getLastD_concat, Bool.or_eq_false_iff, decide_eq_false_iff_not,
        List.count_append] at hc
      obtain ⟨_, hcI, hcJ⟩ := hc
      refine ⟨J', jl, _, hJ', ?_, ?_, hpos, hdiv⟩
      · intro hm
        rw [List.contains_iff_mem.2 hm] at hcI; cases hcI
      · intro hm
        have := List.count_pos_iff.2 hm
        have h1 : List.count jl [jl] = 1 := by simp
        omega

/-! ### re-routing: the matrix-matrix pattern `A C , C B` -/

theorem InRange.append {x y d e : List Nat} (hx : InRange x d) (hy : InRange y e) :
    InRange (x ++ y) (d ++ e) := List.rel_append hx hy

theorem InRange.split {σ d e : List Nat} (h : InRange σ (d ++ e)) :
    ∃ x y, σ = x ++ y ∧ InRange x d ∧ InRange y e :=
  ⟨σ.take d.length, σ.drop d.length, (List.take_append_drop _ _).symm,
    List.forall₂_take_append _ _ _ h, List.forall₂_drop_append _ _ _ h⟩

theorem prod_append (ds es : List Nat) : prod (ds ++ es) = prod ds * prod es := by
  induction ds with
  | nil => simp
  | cons d ds ih => rw [List.cons_append, prod_cons, prod_cons, ih, Nat.mul_assoc]

theorem flat_append {ds x : List Nat} (hx : x.length = ds.length) (es y : List Nat) :
    flat (ds ++ es) (x ++ y) = flat ds x * prod es + flat es y := by
  induction ds generalizing x with
  | nil =>
    have : x = [] := List.length_eq_zero_iff.1 hx
    subst this; simp
  | cons d ds ih =>
    match x, hx with
    | v :: vs, hx =>
      simp only [List.cons_append, flat_cons]
      rw [ih (by simpa using hx), prod_append]
      ring

/-- looking a segment `l` of distinct names up in `P ++ l ++ S` and reading `xp ++ xl ++ xs` at the
    positions found returns the segment `xl` -/
theorem lk_seg (l : List Nat) : ∀ (P S xp xl xs : List Nat), l.Nodup → (∀ x ∈ l, x ∉ P) →
    xp.length = P.length → xl.length = l.length →
    l.map (fun u => (xp ++ (xl ++ xs)).getD ((P ++ (l ++ S)).idxOf u) 0) = xl := by
  induction l with
  | nil =>
    intro P S xp xl xs _ _ _ hl
    have : xl = [] := List.length_eq_zero_iff.1 hl
    simp [this]
  | cons n l' ih =>
    intro P S xp xl xs hnd hP hxp hxl
    match xl, hxl with
    | v :: xl', hxl =>
      rw [List.map_cons]
      congr 1
      · have hn : n ∉ P := hP n (List.mem_cons_self ..)
        rw [List.idxOf_append_of_notMem hn]
        simp only [List.cons_append, List.idxOf_cons_self, Nat.add_zero]
        rw [← hxp, List.getD_eq_getElem?_getD, List.getElem?_append_right (Nat.le_refl _)]
        simp
      · have e1 : P ++ (n :: l' ++ S) = (P ++ [n]) ++ (l' ++ S) := by simp
        have e2 : xp ++ (v :: xl' ++ xs) = (xp ++ [v]) ++ (xl' ++ xs) := by simp
        rw [e1, e2]
        have hnd' := List.nodup_cons.1 hnd
        apply ih (P ++ [n]) S (xp ++ [v]) xl' xs hnd'.2
        · intro x hx hm
          rcases List.mem_append.1 hm with h | h
          · exact hP x (List.mem_cons_of_mem _ hx) h
          · have : x = n := by simpa using h
            subst this; exact hnd'.1 hx
        · simp [hxp]
        · simpa using hxl

theorem foldl_uniqStep_subset (l acc : List Nat) (h : ∀ x ∈ l, x ∈ acc) :
    l.foldl uniqStep acc = acc := by
  induction l with
  | nil => rfl
  | cons y ys ih =>
    rw [List.foldl_cons, uniqStep_eq, if_pos (h y (List.mem_cons_self ..))]
    exact ih (fun x hx => h x (List.mem_cons_of_mem _ hx))

/-- the pattern of a generalised matrix-matrix product: `I = A ++ C`, `J = C ++ B` -/
def gemmPair (A C B dA dC dB : List Nat) : Pair :=
  { I := A ++ C, J := C ++ B, dI := dA ++ dC, dJ := dC ++ dB }

section gemm
variable {A C B dA dC dB : List Nat}

theorem gemm_uniq (hnd : (A ++ C ++ B).Nodup) :
    uniq (gemmPair A C B dA dC dB).cat = A ++ (C ++ B) := by
  have hAC : (A ++ C).Nodup := List.Nodup.of_append_left hnd
  show uniq ((A ++ C) ++ (C ++ B)) = _
  rw [uniq_eq_foldl, List.foldl_append, ← uniq_eq_foldl, uniq_of_nodup hAC, List.foldl_append,
    foldl_uniqStep_subset C (A ++ C) (fun x hx => List.mem_append_right _ hx),
    foldl_uniqStep_of_nodup B (A ++ C) hnd]
  simp

theorem gemm_counts (hnd : (A ++ C ++ B).Nodup) (x : Nat) :
    A.count x + C.count x + B.count x ≤ 1 := by
  have := List.nodup_iff_count_le_one.1 hnd x
  simp only [List.count_append] at this
  omega

theorem gemm_notMem (hnd : (A ++ C ++ B).Nodup) :
    (∀ x ∈ C, x ∉ A) ∧ (∀ x ∈ B, x ∉ A) ∧ (∀ x ∈ B, x ∉ C) := by
  refine ⟨fun x hx hm => ?_, fun x hx hm => ?_, fun x hx hm => ?_⟩ <;>
  · have := gemm_counts hnd x
    have h1 := List.count_pos_iff.2 hx
    have h2 := List.count_pos_iff.2 hm
    omega

theorem gemm_lookup (hnd : (A ++ C ++ B).Nodup) (hA : A.length = dA.length)
    (hC : C.length = dC.length) (hB : B.length = dB.length) :
    let p := gemmPair A C B dA dC dB
    A.map (fun u => p.catDims.getD (p.cat.idxOf u) 0) = dA ∧
    C.map (fun u => p.catDims.getD (p.cat.idxOf u) 0) = dC ∧
    B.map (fun u => p.catDims.getD (p.cat.idxOf u) 0) = dB := by
  intro p
  obtain ⟨hCA, hBA, hBC⟩ := gemm_notMem hnd
  have ndA : A.Nodup := (List.Nodup.of_append_left hnd).of_append_left
  have ndC : C.Nodup := (List.Nodup.of_append_left hnd).of_append_right
  have ndB : B.Nodup := hnd.of_append_right
  refine ⟨?_, ?_, ?_⟩
  · have := lk_seg A [] (C ++ (C ++ B)) [] dA (dC ++ (dC ++ dB)) ndA (by simp) rfl hA.symm
    simpa [p, gemmPair, Pair.cat, Pair.catDims, List.append_assoc] using this
  · have := lk_seg C A (C ++ B) dA dC (dC ++ dB) ndC hCA hA.symm hC.symm
    simpa [p, gemmPair, Pair.cat, Pair.catDims, List.append_assoc] using this
  · have := lk_seg B (A ++ (C ++ C)) [] (dA ++ (dC ++ dC)) dB [] ndB
      (by
        intro x hx hm
        simp only [List.mem_append] at hm
        rcases hm with h | h | h
        · exact hBA x hx h
        · exact hBC x hx h
        · exact hBC x hx h)
      (by simp [hA, hC]) hB.symm
    simpa [p, gemmPair, Pair.cat, Pair.catDims, List.append_assoc] using this

theorem gemm_loopDims (hnd : (A ++ C ++ B).Nodup) (hA : A.length = dA.length)
    (hC : C.length = dC.length) (hB : B.length = dB.length) :
    (gemmPair A C B dA dC dB).loopDims = dA ++ (dC ++ dB) := by
  obtain ⟨h1, h2, h3⟩ := gemm_lookup hnd hA hC hB
  unfold Pair.loopDims Einsum.loopDims findIndex
  rw [gemm_uniq hnd, List.map_append, List.map_append, h1, h2, h3]

theorem gemm_resIdx (hnd : (A ++ C ++ B).Nodup) :
    (gemmPair A C B dA dC dB).resIdx = A ++ B := by
  show ((A ++ C) ++ (C ++ B)).filter (occursOnce ((A ++ C) ++ (C ++ B))) = _
  have hcnt : ∀ x, ((A ++ C) ++ (C ++ B)).count x = A.count x + C.count x + (C.count x + B.count x) := by
    intro x; simp only [List.count_append]
  have hA' : A.filter (occursOnce ((A ++ C) ++ (C ++ B))) = A := by
    rw [List.filter_eq_self]
    intro x hx
    rw [occursOnce_iff, hcnt]
    have := gemm_counts hnd x
    have := List.count_pos_iff.2 hx
    omega
  have hB' : B.filter (occursOnce ((A ++ C) ++ (C ++ B))) = B := by
    rw [List.filter_eq_self]
    intro x hx
    rw [occursOnce_iff, hcnt]
    have := gemm_counts hnd x
    have := List.count_pos_iff.2 hx
    omega
  have hC' : C.filter (occursOnce ((A ++ C) ++ (C ++ B))) = [] := by
    rw [List.filter_eq_nil_iff]
    intro x hx
    rw [occursOnce_iff, hcnt]
    have := List.count_pos_iff.2 hx
    omega
  simp only [List.filter_append, hA', hB', hC', List.append_nil, List.nil_append]

theorem gemm_cat_length (hA : A.length = dA.length) (hC : C.length = dC.length)
    (hB : B.length = dB.length) :
    (gemmPair A C B dA dC dB).I.length = (gemmPair A C B dA dC dB).dI.length ∧
    (gemmPair A C B dA dC dB).J.length = (gemmPair A C B dA dC dB).dJ.length := by
  simp [gemmPair, hA, hC, hB]

theorem gemm_resDims (hnd : (A ++ C ++ B).Nodup) (hA : A.length = dA.length)
    (hC : C.length = dC.length) (hB : B.length = dB.length) :
    (gemmPair A C B dA dC dB).resDims = dA ++ dB := by
  obtain ⟨h1, _, h3⟩ := gemm_lookup hnd hA hC hB
  obtain ⟨hI, hJ⟩ := gemm_cat_length hA hC hB
  unfold Pair.resDims
  rw [resultDims_eq_map (Pair.cat_length _ hI hJ)]
  show List.map _ (gemmPair A C B dA dC dB).resIdx = _
  rw [gemm_resIdx hnd, List.map_append, h1, h3]

/-- what an assignment `x ++ c ++ y` selects -/
theorem gemm_reads (hnd : (A ++ C ++ B).Nodup) (hA : A.length = dA.length)
    (hC : C.length = dC.length) (hB : B.length = dB.length) {x c y : List Nat}
    (hx : x.length = dA.length) (hc : c.length = dC.length) (hy : y.length = dB.length) :
    let p := gemmPair A C B dA dC dB
    p.free (x ++ (c ++ y)) = x ++ y ∧
    flatAt p.dI (posIn p.cat p.I) (x ++ (c ++ y)) = flat dA x * prod dC + flat dC c ∧
    flatAt p.dJ (posIn p.cat p.J) (x ++ (c ++ y)) = flat dC c * prod dB + flat dB y := by
  intro p
  obtain ⟨hCA, hBA, hBC⟩ := gemm_notMem hnd
  have ndA : A.Nodup := (List.Nodup.of_append_left hnd).of_append_left
  have ndC : C.Nodup := (List.Nodup.of_append_left hnd).of_append_right
  have ndB : B.Nodup := hnd.of_append_right
  have vA : A.map (fun u => (x ++ (c ++ y)).getD ((A ++ (C ++ B)).idxOf u) 0) = x := by
    have := lk_seg A [] (C ++ B) [] x (c ++ y) ndA (by simp) rfl (by omega)
    simpa using this
  have vC : C.map (fun u => (x ++ (c ++ y)).getD ((A ++ (C ++ B)).idxOf u) 0) = c :=
    lk_seg C A B x c y ndC hCA (by omega) (by omega)
  have vB : B.map (fun u => (x ++ (c ++ y)).getD ((A ++ (C ++ B)).idxOf u) 0) = y := by
    have := lk_seg B (A ++ C) [] (x ++ c) y [] ndB
      (by
        intro z hz hm
        rcases List.mem_append.1 hm with h | h
        · exact hBA z hz h
        · exact hBC z hz h)
      (by simp; omega) (by omega)
    simpa [List.append_assoc] using this
  refine ⟨?_, ?_, ?_⟩
  · unfold Pair.free posIn findIndex
    rw [gemm_resIdx hnd, gemm_uniq hnd, List.map_map, List.map_append]
    simp only [Function.comp_def]
    rw [vA, vB]
  · rw [flatAt_eq_flat]
    unfold posIn findIndex
    rw [gemm_uniq hnd, List.map_map]
    show flat (dA ++ dC) (List.map _ (A ++ C)) = _
    rw [List.map_append]
    simp only [Function.comp_def]
    rw [vA, vC, flat_append hx]
  · rw [flatAt_eq_flat]
    unfold posIn findIndex
    rw [gemm_uniq hnd, List.map_map]
    show flat (dC ++ dB) (List.map _ (C ++ B)) = _
    rw [List.map_append]
    simp only [Function.comp_def]
    rw [vC, vB, flat_append hc]

end gemm

/-- summing over the in-range multi-indices of `dims` in loop order is summing over their offsets -/
theorem sum_assignments_flat (dims : List Nat) (g : Nat → R) :
    ∑ c ∈ (assignments dims 1).toFinset, g (flat dims c) = ∑ k ∈ Finset.range (prod dims), g k := by
  apply Finset.sum_bij (fun c _ => flat dims c)
  · intro c hc
    exact Finset.mem_range.2 (flat_lt_prod (mem_assignments_iff.1 (List.mem_toFinset.1 hc)))
  · intro c₁ h₁ c₂ h₂ h
    exact flat_injective (mem_assignments_iff.1 (List.mem_toFinset.1 h₁))
      (mem_assignments_iff.1 (List.mem_toFinset.1 h₂)) h
  · intro k hk
    obtain ⟨c, hc, hf⟩ := flat_surjective dims (Finset.mem_range.1 hk)
    exact ⟨c, List.mem_toFinset.2 (mem_assignments_iff.2 hc), hf⟩
  · intro c _; rfl

/-- **re-routing, matrix-matrix.**  For the pattern `I = A ++ C`, `J = C ++ B` with all names
    distinct, the loop nest leaves in cell `(i, j)` of the `prod dA × prod dB` result the entry of the
    matrix product of the operands flattened to `prod dA × prod dC` and `prod dC × prod dB`. -/
theorem gemm_cell {A C B dA dC dB : List Nat} (hnd : (A ++ C ++ B).Nodup)
    (hA : A.length = dA.length) (hC : C.length = dC.length) (hB : B.length = dB.length)
    (a b : Nat → R) {x y : List Nat} (hx : InRange x dA) (hy : InRange y dB) :
    accAt a b ((gemmPair A C B dA dC dB).loopEvents 1) (flat dA x * prod dB + flat dB y)
      = ∑ k ∈ Finset.range (prod dC), a (flat dA x * prod dC + k) * b (k * prod dB + flat dB y) := by
  obtain ⟨hI, hJ⟩ := gemm_cat_length (A := A) (C := C) (B := B) hA hC hB
  have hRD := gemm_resDims hnd hA hC hB
  have hq : flat dA x * prod dB + flat dB y
      = flat (gemmPair A C B dA dC dB).resDims (x ++ y) := by
    rw [hRD, flat_append hx.length_eq]
  rw [hq, Pair.loopnest_cell _ hI hJ a b (m := x ++ y) (by rw [hRD]; exact hx.append hy),
    gemm_loopDims hnd hA hC hB, ← List.sum_toFinset _ ((assignments_nodup _).filter _),
    ← sum_assignments_flat dC
      (fun k => a (flat dA x * prod dC + k) * b (k * prod dB + flat dB y))]
  symm
  apply Finset.sum_bij (fun c _ => x ++ (c ++ y))
  · intro c hc
    have hc' := mem_assignments_iff.1 (List.mem_toFinset.1 hc)
    rw [List.mem_toFinset, List.mem_filter]
    refine ⟨mem_assignments_iff.2 (hx.append (hc'.append hy)), ?_⟩
    rw [decide_eq_true_eq]
    exact (gemm_reads hnd hA hC hB hx.length_eq hc'.length_eq hy.length_eq).1
  · intro c₁ _ c₂ _ h
    exact List.append_cancel_right (List.append_cancel_left h)
  · intro σ hσ
    rw [List.mem_toFinset, List.mem_filter, decide_eq_true_eq] at hσ
    obtain ⟨x', r, rfl, hx', hr⟩ := (mem_assignments_iff.1 hσ.1).split
    obtain ⟨c, y', rfl, hc, hy'⟩ := hr.split
    have hf := (gemm_reads hnd hA hC hB hx'.length_eq hc.length_eq hy'.length_eq).1
    rw [hf] at hσ
    obtain ⟨e1, e2⟩ := List.append_inj hσ.2 (by rw [hx'.length_eq, hx.length_eq])
    subst e1 e2
    exact ⟨c, List.mem_toFinset.2 (mem_assignments_iff.2 hc), rfl⟩
  · intro c hc
    have hc' := mem_assignments_iff.1 (List.mem_toFinset.1 hc)
    obtain ⟨_, h2, h3⟩ := gemm_reads hnd hA hC hB hx.length_eq hc'.length_eq hy.length_eq
    unfold Pair.term
    rw [h2, h3]

/-! ### from `route = gemm` to the matrix-matrix shape -/

theorem length_foldl_uniqStep_le (l acc : List Nat) :
    (l.foldl uniqStep acc).length ≤ acc.length + l.length := by
  induction l generalizing acc with
  | nil => simp
  | cons y ys ih =>
    rw [List.foldl_cons, uniqStep_eq]
    split
    · have := ih acc; simp only [List.length_cons]; omega
    · have := ih (acc ++ [y]); simp only [List.length_append, List.length_cons, List.length_nil] at this ⊢; omega

theorem nodup_of_length_foldl_uniqStep (l acc : List Nat)
    (h : (l.foldl uniqStep acc).length = acc.length + l.length) :
    (∀ x ∈ l, x ∉ acc) ∧ l.Nodup := by
  induction l generalizing acc with
  | nil => simp
  | cons y ys ih =>
    rw [List.foldl_cons, uniqStep_eq] at h
    by_cases hy : y ∈ acc
    · rw [if_pos hy] at h
      have := length_foldl_uniqStep_le ys acc
      simp only [List.length_cons] at h
      omega
    · rw [if_neg hy] at h
      obtain ⟨h1, h2⟩ := ih (acc ++ [y]) (by simpa [Nat.add_assoc, Nat.add_comm 1] using h)
      refine ⟨?_, List.nodup_cons.2 ⟨fun hm => h1 y hm (by simp), h2⟩⟩
      intro x hx
      rcases List.mem_cons.1 hx with rfl | hx
      · exact hy
      · exact fun hm => h1 x hx (List.mem_append_left _ hm)

theorem nodup_of_uniq_length {l : List Nat} (h : (uniq l).length = l.length) : l.Nodup :=
  (nodup_of_length_foldl_uniqStep l [] (by simpa [uniq_eq_foldl] using h)).2

theorem uniq_length_le (l : List Nat) : (uniq l).length ≤ l.length := by
  have := length_foldl_uniqStep_le l []
  simpa [uniq_eq_foldl] using this

theorem Pair.route_gemm (p : Pair) (h : p.route = .gemm) :
    ((uniq p.I).length = p.I.length ∧ (uniq p.J).length = p.J.length) ∧
    matchTwoEnds p.I p.J (p.I.length + p.J.length - (uniq p.cat).length) = true := by
  unfold Pair.route at h
  dsimp only at h
  split at h
  · cases h
  split at h
  · cases h
  split at h
  · cases h
  split at h
  · rename_i hc
    simp only [Bool.and_eq_true, beq_iff_eq] at hc
    exact ⟨hc.1.1, hc.2⟩
  · split at h <;> cases h

theorem uniq_append_dup (X C B : List Nat) (h : ∀ x ∈ C, x ∈ X) :
    uniq (X ++ (C ++ B)) = uniq (X ++ B) := by
  simp only [uniq_eq_foldl, List.foldl_append]
  rw [foldl_uniqStep_subset C _ (fun x hx => by rw [← uniq_eq_foldl, mem_uniq]; exact h x hx)]

/-- the shape behind `route = gemm` -/
theorem Pair.gemm_structure (p : Pair) (hI : p.I.length = p.dI.length) (hJ : p.J.length = p.dJ.length)
    (hcons : Consistent p.cat p.catDims) (h : p.route = .gemm) :
    ∃ A C B dA dC dB, p = gemmPair A C B dA dC dB ∧ (A ++ C ++ B).Nodup ∧
      A.length = dA.length ∧ C.length = dC.length ∧ B.length = dB.length ∧
      C.length = p.I.length + p.J.length - (uniq p.cat).length ∧ C ≠ [] := by
  obtain ⟨_, hm⟩ := p.route_gemm h
  generalize hnc : p.I.length + p.J.length - (uniq p.cat).length = nc at hm
  unfold matchTwoEnds at hm
  simp only [Bool.and_eq_true, bne_iff_ne, ne_eq, decide_eq_true_eq, beq_iff_eq] at hm
  obtain ⟨⟨⟨h0, hle1⟩, hle2⟩, hdrop⟩ := hm
  have hnu : (uniq p.cat).length ≤ p.I.length + p.J.length := by
    have := uniq_length_le p.cat
    simpa [Pair.cat] using this
  -- the pieces
  have eI : p.I = p.I.take (p.I.length - nc) ++ p.J.take nc := by
    rw [← hdrop, List.take_append_drop]
  have eJ : p.J = p.J.take nc ++ p.J.drop nc := (List.take_append_drop _ _).symm
  have edJ : p.dJ = p.dJ.take nc ++ p.dJ.drop nc := (List.take_append_drop _ _).symm
  have edrop : p.dI.drop (p.I.length - nc) = p.dJ.take nc := by
    apply List.ext_getElem?
    intro k
    rw [List.getElem?_drop, List.getElem?_take]
    by_cases hk : k < nc
    · rw [if_pos hk]
      have hc := hcons (p.I.length - nc + k) (p.I.length + k)
        (by simp [Pair.cat]; omega) (by simp [Pair.cat]; omega)
      have e1 : p.cat.getD (p.I.length - nc + k) 0 = p.cat.getD (p.I.length + k) 0 := by
        have := congrArg (fun l : List Nat => l[k]?) hdrop
        simp only [List.getElem?_drop, List.getElem?_take, if_pos hk] at this
        unfold Pair.cat
        rw [List.getD_eq_getElem?_getD, List.getD_eq_getElem?_getD,
          List.getElem?_append_left (by omega), List.getElem?_append_right (by omega), this]
        simp
      have e2 := hc e1
      unfold Pair.catDims at e2
      rw [List.getD_eq_getElem?_getD, List.getD_eq_getElem?_getD,
        List.getElem?_append_left (by omega), List.getElem?_append_right (by omega)] at e2
      have l1 : p.I.length - nc + k < p.dI.length := by omega
      have l2 : p.I.length + k - p.dI.length < p.dJ.length := by omega
      have e3 : p.I.length + k - p.dI.length = k := by omega
      rw [List.getElem?_eq_getElem l1, List.getElem?_eq_getElem l2] at e2
      simp only [Option.getD_some] at e2
      rw [List.getElem?_eq_getElem l1, List.getElem?_eq_getElem (by omega), e2]
      simp [e3]
    · rw [if_neg hk, List.getElem?_eq_none (by omega)]
  have edI : p.dI = p.dI.take (p.I.length - nc) ++ p.dJ.take nc := by
    rw [← edrop, List.take_append_drop]
  refine ⟨p.I.take (p.I.length - nc), p.J.take nc, p.J.drop nc,
    p.dI.take (p.I.length - nc), p.dJ.take nc, p.dJ.drop nc, ?_, ?_, ?_, ?_, ?_, ?_, ?_⟩
  · unfold gemmPair
    rw [← eI, ← eJ, ← edI, ← edJ]
  · apply nodup_of_uniq_length
    have e : uniq p.cat = uniq (p.I.take (p.I.length - nc) ++ p.J.take nc ++ p.J.drop nc) := by
      have ecat : p.cat = (p.I.take (p.I.length - nc) ++ p.J.take nc) ++ (p.J.take nc ++ p.J.drop nc) := by
        rw [← eI, ← eJ]; rfl
      rw [ecat]
      exact uniq_append_dup _ _ _ (fun x hx => List.mem_append_right _ hx)
    rw [← e]
    simp only [List.length_append, List.length_take, List.length_drop]
    omega
  · simp only [List.length_take]; omega
  · simp only [List.length_take]; omega
  · simp only [List.length_drop]; omega
  · simp only [List.length_take]; omega
  · intro hC
    have := congrArg List.length hC
    simp only [List.length_take, List.length_nil] at this
    omega

theorem gemmShape_of_gemm (A C B dA dC dB : List Nat) (hC : C.length = dC.length)
    (hnc : C.length = (gemmPair A C B dA dC dB).I.length + (gemmPair A C B dA dC dB).J.length
      - (uniq (gemmPair A C B dA dC dB).cat).length)
    (hr : (gemmPair A C B dA dC dB).route = .gemm) (hK : 0 < prod dC) :
    (gemmPair A C B dA dC dB).gemmShape = (prod dA, prod dC, prod dB, false) := by
  unfold Pair.gemmShape
  rw [hr]
  simp only
  rw [← hnc, hC]
  have e : (gemmPair A C B dA dC dB).dJ.take dC.length = dC := by
    show (dC ++ dB).take dC.length = dC
    simp
  rw [e]
  show (prod (dA ++ dC) / prod dC, prod dC, prod (dC ++ dB) / prod dC, false) = _
  rw [prod_append, prod_append, Nat.mul_div_cancel _ hK, Nat.mul_div_cancel_left _ hK]

end Fastor.Einsum
