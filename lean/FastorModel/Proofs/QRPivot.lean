import FastorModel.Proofs.QRLoops
/-
  C13 — the pivoting helpers of unary_piv_op.h: `pivot_inplace` yields a permutation of `0..M-1`,
  `apply_pivot` moves row `P(i)` to row `i`, `reconstruct` undoes it, the 0/1 matrix form of the permutation is
  read back correctly by `std::find`.
-/
namespace Fastor.QR

section perm
variable {α : Type}

/-- `p` permutes `0..M-1` and fixes everything else -/
structure IsPermBelow (M : Nat) (p : Nat → Nat) : Prop where
  lt : ∀ x, x < M → p x < M
  fix : ∀ x, M ≤ x → p x = x
  inj : ∀ x y, p x = p y → x = y
  surj : ∀ y, y < M → ∃ x, x < M ∧ p x = y

/-- the transposition of `a` and `b` -/
def transp (a b x : Nat) : Nat := if x = a then b else if x = b then a else x

theorem swapAt_eq (p : Nat → Nat) (a b x : Nat) : swapAt p a b x = p (transp a b x) := by
  unfold swapAt transp; split_ifs <;> rfl

theorem transp_invol (a b x : Nat) : transp a b (transp a b x) = x := by
  unfold transp; split_ifs <;> omega

theorem transp_lt {a b x M : Nat} (ha : a < M) (hb : b < M) (hx : x < M) : transp a b x < M := by
  unfold transp; split_ifs <;> omega

theorem transp_fix {a b x M : Nat} (ha : a < M) (hb : b < M) (hx : M ≤ x) : transp a b x = x := by
  unfold transp; split_ifs <;> omega

theorem IsPermBelow.swapAt {M : Nat} {p : Nat → Nat} (hp : IsPermBelow M p) {a b : Nat} (ha : a < M) (hb : b < M) :
    IsPermBelow M (swapAt p a b) where
  lt := by intro x hx; rw [swapAt_eq]; exact hp.lt _ (transp_lt ha hb hx)
  fix := by intro x hx; rw [swapAt_eq, transp_fix ha hb hx]; exact hp.fix x hx
  inj := by
    intro x y h
    rw [swapAt_eq, swapAt_eq] at h
    have := congrArg (transp a b) (hp.inj _ _ h)
    rwa [transp_invol, transp_invol] at this
  surj := by
    intro y hy
    obtain ⟨x, hx, hxy⟩ := hp.surj y hy
    exact ⟨transp a b x, transp_lt ha hb hx, by rw [swapAt_eq, transp_invol, hxy]⟩

theorem isPermBelow_id (M : Nat) : IsPermBelow M (fun x => x) :=
  ⟨fun _ h => h, fun _ _ => rfl, fun _ _ h => h, fun y hy => ⟨y, hy, rfl⟩⟩

/-- the arg-max search of column `j` returns a row in `j..M-1` -/
theorem argMax_bounds (gt : α → α → Bool) (abs : α → α) (M : Nat) (A : Mat α) (j : Nat) (hj : j < M) :
    j ≤ argMax gt abs M A j ∧ argMax gt abs M A j < M := by
  unfold argMax
  refine loop_induction (Nat.le_of_lt hj) _ j (fun x mx => j ≤ mx ∧ mx < M ∧ (x ≤ M)) ⟨Nat.le_refl j, hj, Nat.le_of_lt hj⟩ ?_
    |> fun h => ⟨h.1, h.2.1⟩
  intro x mx h1 h2 ih
  split_ifs
  · exact ⟨h1, h2, h2⟩
  · exact ⟨ih.1, ih.2.1, h2⟩

/-- **`pivot_inplace` returns a permutation of `0..M-1`** — whatever the comparison does -/
theorem pivotPerm_isPerm (gt : α → α → Bool) (abs : α → α) (M : Nat) (A : Mat α) :
    IsPermBelow M (pivotPerm gt abs M A) := by
  unfold pivotPerm
  refine loop_induction (Nat.zero_le M) _ _ (fun _ p => IsPermBelow M p) (isPermBelow_id M) ?_
  intro x p _ hx ih
  have hb := argMax_bounds gt abs M A x hx
  simp only
  split_ifs
  · exact ih.swapAt hx hb.2
  · exact ih

/-- **`apply_pivot(A, P)`**: row `i < M` of the result is row `P(i)` of `A` -/
theorem applyPivot_get (M : Nat) (A : Mat α) (P : Nat → Nat) (a b : Nat) :
    (applyPivot M A P) a b = if a < M then A (P a) b else A a b := by
  unfold applyPivot
  refine loop_induction (Nat.zero_le M) _ A (fun x C => ∀ a b, C a b = if a < x then A (P a) b else A a b)
    (by intro a b; simp) ?_ a b
  intro x C _ _ ih a b
  by_cases hP : P x ≠ x
  · rw [if_pos hP]
    show (if a = x then A (P x) b else C a b) = _
    by_cases hax : a = x
    · subst hax; rw [if_pos rfl, if_pos (Nat.lt_succ_self a)]
    · rw [if_neg hax, ih]
      by_cases hlt : a < x
      · rw [if_pos hlt, if_pos (by omega)]
      · rw [if_neg hlt, if_neg (by omega)]
  · rw [if_neg hP, ih]
    have hPx : P x = x := by omega
    by_cases hax : a = x
    · subst hax; rw [if_neg (by omega), if_pos (Nat.lt_succ_self a), hPx]
    · by_cases hlt : a < x
      · rw [if_pos hlt, if_pos (by omega)]
      · rw [if_neg hlt, if_neg (by omega)]

/-- **`reconstruct(B, P) = A`** on the rows `0..M-1` when row `i` of `B` is row `P(i)` of `A` and `P` is a permutation -/
theorem reconstruct_of_rows (M : Nat) (A B : Mat α) (P : Nat → Nat) (hP : IsPermBelow M P) (a b : Nat) (ha : a < M)
    (hB : ∀ i, i < M → B i b = A (P i) b) :
    (reconstruct M B P) a b = A a b := by
  have key : ∀ a, (reconstruct M B P) a b
      = if ∃ i, i < M ∧ P i = a ∧ P i ≠ i then A a b else B a b := by
    unfold reconstruct
    refine loop_induction (Nat.zero_le M) _ B
      (fun x C => x ≤ M ∧ ∀ a, C a b = if ∃ i, i < x ∧ P i = a ∧ P i ≠ i then A a b else B a b)
      ⟨Nat.zero_le M, by intro a; rw [if_neg]; rintro ⟨i, hi, _⟩; omega⟩ ?_ |> fun h => h.2
    intro x C _ hx ih
    refine ⟨hx, ?_⟩
    intro a
    by_cases hPx : P x ≠ x
    · rw [if_pos hPx]
      show (if a = P x then B x b else C a b) = _
      by_cases hax : a = P x
      · rw [if_pos hax, if_pos ⟨x, Nat.lt_succ_self x, hax.symm, hPx⟩, hB x hx, hax]
      · rw [if_neg hax, ih.2]
        by_cases hc : ∃ i, i < x ∧ P i = a ∧ P i ≠ i
        · obtain ⟨i, h1, h2, h3⟩ := hc
          rw [if_pos ⟨i, h1, h2, h3⟩, if_pos ⟨i, by omega, h2, h3⟩]
        · have : ¬ ∃ i, i < x + 1 ∧ P i = a ∧ P i ≠ i := by
            rintro ⟨i, h1, h2, h3⟩
            by_cases hix : i = x
            · subst hix; exact hax h2.symm
            · exact hc ⟨i, by omega, h2, h3⟩
          rw [if_neg hc, if_neg this]
    · rw [if_neg hPx, ih.2]
      by_cases hc : ∃ i, i < x ∧ P i = a ∧ P i ≠ i
      · obtain ⟨i, h1, h2, h3⟩ := hc
        rw [if_pos ⟨i, h1, h2, h3⟩, if_pos ⟨i, by omega, h2, h3⟩]
      · have : ¬ ∃ i, i < x + 1 ∧ P i = a ∧ P i ≠ i := by
          rintro ⟨i, h1, h2, h3⟩
          by_cases hix : i = x
          · subst hix; exact hPx h3
          · exact hc ⟨i, by omega, h2, h3⟩
        rw [if_neg hc, if_neg this]
  rw [key]
  by_cases hc : ∃ i, i < M ∧ P i = a ∧ P i ≠ i
  · rw [if_pos hc]
  · rw [if_neg hc, hB a ha]
    obtain ⟨i, hi, hia⟩ := hP.surj a ha
    have : P i = i := by
      by_contra h
      exact hc ⟨i, hi, hia, h⟩
    have hia' : i = a := by omega
    rw [← hia', this]

/-- **`reconstruct(apply_pivot(A,P), P) = A`** on the rows `0..M-1`, for a permutation `P` -/
theorem reconstruct_applyPivot (M : Nat) (A : Mat α) (P : Nat → Nat) (hP : IsPermBelow M P) (a b : Nat) (ha : a < M) :
    (reconstruct M (applyPivot M A P) P) a b = A a b :=
  reconstruct_of_rows M A _ P hP a b ha (fun i hi => by rw [applyPivot_get, if_pos hi])

end perm

section permmat
variable {K : Type} [Field K] [DecidableEq K]

omit [DecidableEq K] in
/-- `P.fill(0); for i < M: P(i, perm(i)) = 1` -/
theorem permMatrix_get (M : Nat) (p : Nat → Nat) (a b : Nat) :
    (permMatrix M p : Mat K) a b = if a < M ∧ b = p a then 1 else 0 := by
  unfold permMatrix
  refine loop_induction (Nat.zero_le M) _ _ (fun x (Y : Mat K) => ∀ a b, Y a b = if a < x ∧ b = p a then (1 : K) else 0)
    (by intro a b; simp [Mat.ofFn]) ?_ a b
  intro x Y _ _ ih a b
  rw [set2_get]
  by_cases hab : a = x ∧ b = p x
  · obtain ⟨rfl, rfl⟩ := hab
    rw [if_pos ⟨rfl, rfl⟩, if_pos ⟨Nat.lt_succ_self a, rfl⟩]
  · rw [if_neg hab, ih]
    by_cases hc : a < x ∧ b = p a
    · rw [if_pos hc, if_pos ⟨by omega, hc.2⟩]
    · have : ¬ (a < x + 1 ∧ b = p a) := by
        rintro ⟨h1, h2⟩
        by_cases hax : a = x
        · subst hax; exact hab ⟨rfl, h2⟩
        · exact hc ⟨by omega, h2⟩
      rw [if_neg hc, if_neg this]

/-- `std::find` of the first one in a row that holds exactly one one, at column `c0` -/
theorem findOne_unique (N : Nat) (P : Mat K) (i c0 : Nat) (hc0 : c0 < N)
    (h : ∀ c, c < N → (P i c = 1 ↔ c = c0)) : findOne N P i = c0 := by
  unfold findOne
  have := loop_induction (Nat.zero_le N) (fun c found => if found = N ∧ P i c = 1 then c else found) N
    (fun x found => x ≤ N ∧ found = if c0 < x then c0 else N) ⟨Nat.zero_le N, by simp⟩ ?_
  · rw [this.2, if_pos hc0]
  intro x found _ hx ih
  refine ⟨hx, ?_⟩
  rw [ih.2]
  rcases Nat.lt_trichotomy c0 x with hlt | heq | hgt
  · have h1 : (if c0 < x then c0 else N) = c0 := if_pos hlt
    rw [h1, if_neg (by rintro ⟨h2, _⟩; omega), if_pos (by omega)]
  · have h1 : (if c0 < x then c0 else N) = N := if_neg (by omega)
    rw [h1, if_pos ⟨rfl, (h x hx).2 heq.symm⟩, if_pos (by omega)]; exact heq.symm
  · have h1 : (if c0 < x then c0 else N) = N := if_neg (by omega)
    rw [h1, if_neg (by rintro ⟨_, h2⟩; have := (h x hx).1 h2; omega), if_neg (by omega)]

/-- reading the permutation back from its 0/1 matrix gives the permutation -/
theorem findOne_permMatrix (M : Nat) (p : Nat → Nat) (i : Nat) (hi : i < M) (hp : p i < M) :
    findOne M (permMatrix M p : Mat K) i = p i := by
  apply findOne_unique M _ i (p i) hp
  intro c _
  rw [permMatrix_get]
  constructor
  · intro h
    by_contra hne
    rw [if_neg (fun hh => hne hh.2)] at h
    exact zero_ne_one h
  · intro h; rw [if_pos ⟨hi, h⟩]

end permmat
end Fastor.QR
