import FastorModel.Model.RandomViews
import FastorModel.Props.C02
/-
  Lemmas for C19: the loop shapes of the view code enumerate `0 .. n-1` in order, lanes of the gather
  are the scalar reads, and the effect of a list of read-modify-write instructions with pairwise
  distinct positions.
-/
namespace Fastor.RandomViews
open Fastor Fastor.Expr

/-! ### loops -/

theorem forRange_zero_one (n : Nat) : forRange 0 n 1 = List.range n := by
  unfold forRange forCount
  simp

theorem forRange_from_one (lo hi : Nat) : forRange lo hi 1 = (List.range (hi - lo)).map (fun t => lo + t) := by
  unfold forRange forCount
  simp

theorem forRange_blocks (q V : Nat) (hV : 0 < V) : forRange 0 (q * V) V = (List.range q).map (fun t => t * V) := by
  unfold forRange forCount
  have : (q * V - 0 + (V - 1)) / V = q := by
    rw [Nat.sub_zero, Nat.mul_comm, Nat.mul_add_div hV, Nat.div_eq_of_lt (by omega)]; simp
  rw [this]; simp

/-- `q` blocks of `V` consecutive positions are the first `q*V` positions in order -/
theorem blocks_eq_range {β : Type} (g : Nat → β) (q V : Nat) :
    (List.range q).flatMap (fun t => (List.range V).map fun l => g (t * V + l)) = (List.range (q * V)).map g := by
  induction q with
  | zero => simp
  | succ k ih =>
    rw [List.range_succ, List.flatMap_append, ih, List.flatMap_singleton, Nat.succ_mul, List.range_add,
      List.map_append, List.map_map]
    rfl

/-- **vector body + scalar tail visit every position once, in order**, when each vector iteration
    produces per lane what the scalar iteration produces -/
theorem vecThenTail_eq {β : Type} (n ex : Nat) (hn : n < 2 ^ 64) (hex : ex ≤ 64) (vec : Nat → List β) (sc : Nat → β)
    (hvec : ∀ i, vec i = (List.range (2 ^ ex)).map fun l => sc (i + l)) :
    vecThenTail n (2 ^ ex) vec sc = (List.range n).map sc := by
  have hV : 0 < 2 ^ ex := Nat.pow_pos (by omega)
  unfold vecThenTail
  rw [C02.roundDown_pow2 n ex hn hex]
  simp only []
  have hexit : forExit 0 (n / 2 ^ ex * 2 ^ ex) (2 ^ ex) = n / 2 ^ ex * 2 ^ ex :=
    forExit_of_dvd hV (Nat.zero_le _) (by simp [Nat.dvd_mul_left])
  rw [hexit, forRange_blocks _ _ hV, forRange_from_one, List.flatMap_map]
  have h1 : (List.range (n / 2 ^ ex)).flatMap (fun t => vec (t * 2 ^ ex))
      = (List.range (n / 2 ^ ex * 2 ^ ex)).map sc := by
    rw [← blocks_eq_range sc]
    congr 1; funext t; exact hvec _
  rw [h1]
  have hle : n / 2 ^ ex * 2 ^ ex ≤ n := Nat.div_mul_le_self _ _
  have h2 : n = n / 2 ^ ex * 2 ^ ex + (n - n / 2 ^ ex * 2 ^ ex) := by omega
  conv => rhs; rw [h2, List.range_add, List.map_append, List.map_map]
  simp [Function.comp_def]

/-! ### lanes of the gather -/

variable {α : Type}

/-- `vector_setter` + `set`: the two reversals cancel, lane `l` is `data[inds[l]]` -/
theorem vectorSetter_eq (data : Nat → α) (inds : List Nat) : vectorSetter data inds = inds.map data := by
  unfold vectorSetter setLanes
  rw [List.map_reverse, List.reverse_reverse]

section
variable [Zero α] [Add α] [Sub α] [Mul α]
/-- **vector evaluation of any tree is the scalar evaluation lane by lane** (gather lanes = scalar reads) -/
theorem evalV_eq (ofInt : Int → α) (env : Nat → Nat → α) (it : Nat → Nat) (mask : Nat → Bool) (V : Nat) (e : Src) (i : Nat) :
    evalV ofInt env it mask V e i = (List.range V).map fun l => evalS ofInt env it mask e (i + l) := by
  induction e with
  | v w => simp [evalV, evalS, vectorSetter_eq, laneInds, forRange_zero_one]
  | f w => simp [evalV, evalS, forRange_zero_one]
  | t w => simp [evalV, evalS]
  | c k => simp [evalV, evalS, List.map_const']
  | bin op l r ihl ihr =>
    simp only [evalV, evalS, ihl, ihr]
    rw [List.zipWith_map, List.zipWith_self]

end

theorem zip_range_map {β : Type} (g : Nat → β) (V : Nat) :
    ((List.range V).map g).zip (List.range V) = (List.range V).map fun l => (g l, l) := by
  rw [List.zip_map_left, List.zip_eq_zipWith, List.zipWith_self, List.map_map]
  rfl

/-! ### the two-index constructor loop -/

theorem laneW_range {β : Type} (dst V : Nat) (g : Nat → β) :
    laneW dst ((List.range V).map g) = (List.range V).map fun l => (dst + l, g l) := by
  unfold laneW
  rw [List.length_map, List.length_range, zip_range_map, List.map_map]
  rfl

theorem range_split {β : Type} (g : Nat → β) (a N : Nat) (h : a ≤ N) :
    (List.range a).map g ++ (List.range (N - a)).map (fun x => g (a + x)) = (List.range N).map g := by
  have h2 : N = a + (N - a) := by omega
  conv => rhs; rw [h2, List.range_add, List.map_append, List.map_map]
  rfl

/-- one row of the constructor loop enumerates the columns `0..N-1` once, in order -/
theorem ctor2_row {β : Type} (V N i : Nat) (hV : 0 < V) (vec : Nat → List β) (sc : Nat → β)
    (hvec : ∀ j, vec j = (List.range V).map fun l => sc (j + l)) :
    (forRange 0 (Views.roundDownV N V) V).flatMap (fun j => laneW (i * N + j) (vec j)) ++
      (forRange (forExit 0 (Views.roundDownV N V) V) N 1).map (fun j => (i * N + j, sc j))
      = (List.range N).map fun j => (i * N + j, sc j) := by
  unfold Views.roundDownV
  have hexit : forExit 0 (N / V * V) V = N / V * V :=
    forExit_of_dvd hV (Nat.zero_le _) (by simp [Nat.dvd_mul_left])
  rw [hexit, forRange_blocks _ _ hV, forRange_from_one, List.flatMap_map]
  have h1 : (List.range (N / V)).flatMap (fun t => laneW (i * N + t * V) (vec (t * V)))
      = (List.range (N / V * V)).map fun j => (i * N + j, sc j) := by
    rw [← blocks_eq_range (fun j => (i * N + j, sc j))]
    congr 1; funext t
    rw [hvec, laneW_range]
    simp [Nat.add_assoc]
  rw [h1, List.map_map]
  exact range_split (fun j => (i * N + j, sc j)) (N / V * V) N (Nat.div_mul_le_self _ _)

/-! ### stores -/

theorem applyWrites_range {β : Type} (g : Nat → β) (n : Nat) (m : Nat → β) (p : Nat) :
    applyWrites ((List.range n).map fun j => (j, g j)) m p = if p < n then g p else m p := by
  induction n with
  | zero => simp [applyWrites]
  | succ k ih =>
    rw [List.range_succ, List.map_append, applyWrites_append]
    simp only [List.map_cons, List.map_nil, applyWrites, List.foldl_cons, List.foldl_nil]
    have ih' : List.foldl (fun m w => fun p => if p = w.1 then w.2 else m p) m
        (List.map (fun j => (j, g j)) (List.range k)) p = if p < k then g p else m p := ih
    by_cases hp : p = k
    · subst hp; simp
    · simp only [hp, if_false]
      rw [ih']
      by_cases h : p < k
      · have : p < k + 1 := by omega
        simp [h, this]
      · have : ¬ p < k + 1 := by omega
        simp [h, this]

/-! ### read-modify-write instruction lists -/

theorem exec_cons (ap : α → α → α) (x : Nat × α) (xs : List (Nat × α)) (mem : Nat → α) :
    exec ap (x :: xs) mem = exec ap xs (fun q => if q = x.1 then ap (mem x.1) x.2 else mem q) := by
  simp [exec]

/-- positions not mentioned by any instruction keep their value -/
theorem exec_frame (ap : α → α → α) (ins : List (Nat × α)) (mem : Nat → α) (q : Nat)
    (hq : ∀ x ∈ ins, x.1 ≠ q) : exec ap ins mem q = mem q := by
  induction ins generalizing mem with
  | nil => simp [exec]
  | cons x xs ih =>
    rw [exec_cons, ih _ (fun y hy => hq y (List.mem_cons_of_mem _ hy))]
    have : q ≠ x.1 := fun e => hq x (by simp) e.symm
    simp [this]

/-- with pairwise distinct positions every instruction acts on the ORIGINAL value of its position -/
theorem exec_nodup (ap : α → α → α) (ins : List (Nat × α)) (mem : Nat → α) (hnd : (ins.map (·.1)).Nodup)
    (x : Nat × α) (hx : x ∈ ins) : exec ap ins mem x.1 = ap (mem x.1) x.2 := by
  induction ins generalizing mem with
  | nil => simp at hx
  | cons y ys ih =>
    rw [exec_cons]
    simp only [List.map_cons, List.nodup_cons] at hnd
    rcases List.mem_cons.1 hx with h | h
    · subst h
      rw [exec_frame]
      · simp
      · intro z hz hzx
        exact hnd.1 (List.mem_map.2 ⟨z, hz, hzx⟩)
    · rw [ih _ hnd.2 h]
      have : x.1 ≠ y.1 := fun e => hnd.1 (List.mem_map.2 ⟨x, h, e⟩)
      simp [this]

/-- plain assignment is `applyWrites`: the last instruction for a position wins -/
theorem exec_set_eq_applyWrites (ins : List (Nat × α)) (mem : Nat → α) :
    exec (fun _ y => y) ins mem = applyWrites ins mem := by
  rfl

end Fastor.RandomViews
