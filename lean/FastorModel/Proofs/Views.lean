import FastorModel.Model.Views
import Mathlib.Tactic.Ring
import Mathlib.Tactic.Linarith
/-
  Lemmas for C04, part 1: ranges — `seq::size`, the run-time normalisers and `to_positive` against the
  documented meaning of what the user writes.
-/
namespace Fastor.Views

/-! ### what a user may write on one axis, and what it is documented to mean -/

/-- spellings of a range on one axis -/
inductive Enc
  | range (f l s : Nat)      -- `seq(f,l,s)`, `fseq<f,l,s>`, `iseq<f,l,s>`
  | toEnd (f k s : Nat)      -- `seq(f,last-k,s)` (`last` is the integer -1): from `f` to below `n-k`; `all` = `toEnd 0 0 1`
  | fromEnd (j k s : Nat)    -- `seq(last-j,last-k,s)`: from `n-j` to below `n-k`
  | idx (i : Int)            -- a plain integer (`seq(int i)`, `fix<i>`); negative = counted from the end
deriving Repr, DecidableEq

/-- the three integers the spelling puts into `seq` / `fseq` -/
def Enc.seq : Enc → Seq
  | .range f l s => ⟨f, l, s⟩
  | .toEnd f k s => ⟨f, -1 - (k : Int), s⟩
  | .fromEnd j k s => ⟨-1 - (j : Int), -1 - (k : Int), s⟩
  | .idx i => Seq.ofInt i

def Enc.isRange : Enc → Prop
  | .idx _ => False
  | _ => True

instance : DecidablePred Enc.isRange := fun e => by cases e <;> (unfold Enc.isRange; infer_instance)

/-- admissible on an axis of extent `n` -/
def Enc.Adm (n : Nat) : Enc → Prop
  | .range f l s => f < l ∧ l ≤ n ∧ 0 < s
  | .toEnd f k s => f + k < n ∧ 0 < s
  | .fromEnd j k s => k < j ∧ j ≤ n ∧ 0 < s
  | .idx i => -(n : Int) ≤ i ∧ i < n

instance (n : Nat) : DecidablePred (Enc.Adm n) := fun e => by cases e <;> (unfold Enc.Adm; infer_instance)

/-- documented first selected element -/
def Enc.first (n : Nat) : Enc → Nat
  | .range f _ _ => f
  | .toEnd f _ _ => f
  | .fromEnd j _ _ => n - j
  | .idx i => (if i < 0 then (n : Int) + i else i).toNat

/-- documented end (exclusive) -/
def Enc.last (n : Nat) : Enc → Nat
  | .range _ l _ => l
  | .toEnd _ k _ => n - k
  | .fromEnd _ k _ => n - k
  | .idx i => (if i < 0 then (n : Int) + i else i).toNat + 1

def Enc.stepN : Enc → Nat
  | .range _ _ s => s
  | .toEnd _ _ s => s
  | .fromEnd _ _ s => s
  | .idx _ => 1

/-- documented number of selected elements: `ceil((last-first)/step)` -/
def Enc.countN (n : Nat) (e : Enc) : Nat := (e.last n - e.first n + e.stepN - 1) / e.stepN

/-! ### `to_positive` is the n-D normaliser -/

theorem toPositive_eq_normN (N : Int) (s : Seq) : toPositive N s = normN N s := by
  obtain ⟨f, l, st⟩ := s
  simp only [toPositive, normN]
  split_ifs <;> simp only [Seq.mk.injEq, and_true, true_and] <;> omega

/-! ### `seq::size` -/

theorem nat_ceil_div (r s : Nat) (hs : 0 < s) :
    (if r % s = 0 then r / s else r / s + 1) = (r + s - 1) / s := by
  have h := Nat.div_add_mod r s
  have hm := Nat.mod_lt r hs
  split
  · next h0 =>
    symm; apply Nat.div_eq_of_lt_le
    · rw [Nat.mul_comm]; omega
    · have : (r / s + 1) * s = s * (r / s) + s := by ring
      omega
  · next h0 =>
    symm; apply Nat.div_eq_of_lt_le
    · have : (r / s + 1) * s = s * (r / s) + s := by ring
      omega
    · have : (r / s + 1 + 1) * s = s * (r / s) + s + s := by ring
      omega

theorem sizeInt_nat (r t : Nat) (ht : 0 < t) :
    (if (r : Int).tmod t = 0 then (r : Int).tdiv t else (r : Int).tdiv t + 1) = ((r + t - 1) / t : Nat) := by
  rw [← Int.ofNat_tdiv, ← Int.ofNat_tmod, ← nat_ceil_div _ _ ht]
  by_cases h : r % t = 0
  · simp [h]
  · have h' : ¬ ((r : Int) % (t : Int)) = 0 := by exact_mod_cast h
    simp [h, h']

/-- on a forward range the truncating computation is the ceiling division of naturals -/
theorem size_nat (f l s : Nat) (hs : 0 < s) (hfl : f ≤ l) :
    (Seq.mk f l s).size = ((l - f + s - 1) / s : Nat) := by
  unfold Seq.size
  simp only
  have hr : ((l : Int) - f) = ((l - f : Nat) : Int) := by omega
  rw [hr]
  exact sizeInt_nat _ _ hs

theorem size_spec (s : Seq) (hs : 0 < s.step) (hfl : s.first ≤ s.last) :
    (s.size - 1) * s.step < s.last - s.first ∧ s.last - s.first ≤ s.size * s.step ∧ 0 ≤ s.size := by
  obtain ⟨f, l, st⟩ := s
  simp only at hs hfl ⊢
  obtain ⟨r, hr⟩ := Int.eq_ofNat_of_zero_le (show 0 ≤ l - f by omega)
  obtain ⟨t, ht⟩ := Int.eq_ofNat_of_zero_le (show 0 ≤ st by omega)
  have htpos : 0 < t := by omega
  have hsz : (Seq.mk f l st).size = ((r + t - 1) / t : Nat) := by
    unfold Seq.size
    simp only
    rw [hr, ht]
    exact sizeInt_nat _ _ htpos
  rw [hsz, hr, ht]
  have hd := Nat.div_add_mod (r + t - 1) t
  have hm := Nat.mod_lt (r + t - 1) htpos
  generalize (r + t - 1) / t = q at hd ⊢
  refine ⟨?_, ?_, by positivity⟩
  · have : ((q : Int) - 1) * t = ((t * q : Nat) : Int) - t := by push_cast; ring
    rw [this]; omega
  · have : (q : Int) * t = ((t * q : Nat) : Int) := by push_cast; ring
    rw [this]; omega

/-! ### the normalisers against the documented meaning -/

theorem adm_bounds (n : Nat) (e : Enc) (h : e.Adm n) :
    e.first n < e.last n ∧ e.last n ≤ n ∧ 0 < e.stepN := by
  cases e <;> simp only [Enc.Adm, Enc.first, Enc.last, Enc.stepN] at h ⊢ <;> (try split_ifs) <;> omega

theorem normN_plain (N f l s : Int) (hf : 0 ≤ f) (hl : 0 < l) : normN N ⟨f, l, s⟩ = ⟨f, l, s⟩ := by
  unfold normN
  rw [if_neg (by dsimp only; omega), if_neg (by dsimp only; omega), if_neg (by dsimp only; omega)]

theorem normN_toEnd (N f l s : Int) (hf : 0 ≤ f) (hl : l < 0) : normN N ⟨f, l, s⟩ = ⟨f, l + (N + 1), s⟩ := by
  unfold normN
  rw [if_pos (by dsimp only; omega)]

theorem normN_both (N f l s : Int) (hf : f < 0) (hl : l < 0) :
    normN N ⟨f, l, s⟩ = ⟨f + (N + 1), l + (N + 1), s⟩ := by
  unfold normN
  rw [if_neg (by dsimp only; omega), if_neg (by dsimp only; omega), if_pos (by dsimp only; omega)]

theorem normN_minus_one (N s : Int) : normN N ⟨-1, 0, s⟩ = ⟨N - 1, N, s⟩ := by
  unfold normN
  rw [if_neg (by dsimp only; omega), if_pos (by dsimp only; omega)]

theorem norm1_eq (N f l s : Int) :
    norm1 N ⟨f, l, s⟩ = ⟨if f < 0 then f + (N + 1) else f, if l < 0 then l + (N + 1) else l, s⟩ := rfl

/-- what the 2-D / n-D normaliser (and `to_positive`) makes of an admissible spelling -/
theorem normN_enc (n : Nat) (e : Enc) (h : e.Adm n) :
    normN n e.seq = ⟨(e.first n : Nat), (e.last n : Nat), (e.stepN : Nat)⟩ := by
  cases e with
  | range f l s =>
    simp only [Enc.Adm] at h
    simp only [Enc.seq, Enc.first, Enc.last, Enc.stepN]
    exact normN_plain _ _ _ _ (by omega) (by omega)
  | toEnd f k s =>
    simp only [Enc.Adm] at h
    simp only [Enc.seq, Enc.first, Enc.last, Enc.stepN]
    rw [normN_toEnd _ _ _ _ (by omega) (by omega), Seq.mk.injEq]
    exact ⟨rfl, by omega, rfl⟩
  | fromEnd j k s =>
    simp only [Enc.Adm] at h
    simp only [Enc.seq, Enc.first, Enc.last, Enc.stepN]
    rw [normN_both _ _ _ _ (by omega) (by omega), Seq.mk.injEq]
    exact ⟨by omega, by omega, rfl⟩
  | idx i =>
    simp only [Enc.Adm] at h
    simp only [Enc.seq, Seq.ofInt, Enc.first, Enc.last, Enc.stepN]
    by_cases h1 : i < -1
    · rw [if_pos h1, if_pos h1, normN_both _ _ _ _ (by omega) (by omega), Seq.mk.injEq, if_pos (by omega)]
      exact ⟨by omega, by omega, by simp⟩
    · rw [if_neg h1, if_neg h1]
      by_cases h2 : i = -1
      · subst h2
        rw [show (-1 : Int) + 1 = 0 by rfl, normN_minus_one, Seq.mk.injEq, if_pos (by omega)]
        exact ⟨by omega, by omega, by simp⟩
      · rw [normN_plain _ _ _ _ (by omega) (by omega), Seq.mk.injEq, if_neg (by omega)]
        exact ⟨by omega, by omega, by simp⟩

theorem norm1_enc (n : Nat) (e : Enc) (h : e.Adm n) (hr : e.isRange) :
    norm1 n e.seq = ⟨(e.first n : Nat), (e.last n : Nat), (e.stepN : Nat)⟩ := by
  cases e with
  | range f l s =>
    simp only [Enc.Adm] at h
    simp only [Enc.seq, Enc.first, Enc.last, Enc.stepN, norm1_eq]
    rw [if_neg (by omega), if_neg (by omega)]
  | toEnd f k s =>
    simp only [Enc.Adm] at h
    simp only [Enc.seq, Enc.first, Enc.last, Enc.stepN, norm1_eq]
    rw [if_neg (by omega), if_pos (by omega), Seq.mk.injEq]
    exact ⟨rfl, by omega, rfl⟩
  | fromEnd j k s =>
    simp only [Enc.Adm] at h
    simp only [Enc.seq, Enc.first, Enc.last, Enc.stepN, norm1_eq]
    rw [if_pos (by omega), if_pos (by omega), Seq.mk.injEq]
    exact ⟨by omega, by omega, rfl⟩
  | idx i => exact absurd hr (by simp [Enc.isRange])

theorem norm_eq (n : Nat) (e : Enc) (h : e.Adm n) (cls : Cls) (hc : cls ≠ .dyn1 ∨ e.isRange) :
    cls.norm n e.seq = ⟨(e.first n : Nat), (e.last n : Nat), (e.stepN : Nat)⟩ := by
  cases cls
  case dyn1 =>
    rcases hc with hc | hc
    · exact absurd rfl hc
    · exact norm1_enc n e h hc
  all_goals first
    | exact normN_enc n e h
    | (show toPositive _ _ = _; rw [toPositive_eq_normN]; exact normN_enc n e h)

theorem ofSeq_nat (f l s : Nat) (hs : 0 < s) (hfl : f ≤ l) :
    Ax.ofSeq ⟨(f : Nat), (l : Nat), (s : Nat)⟩ = ⟨f, s, (l - f + s - 1) / s⟩ := by
  unfold Ax.ofSeq
  rw [size_nat f l s hs hfl]
  simp only [Int.toNat_natCast]

theorem norm_adm (n : Nat) (e : Enc) (h : e.Adm n) (cls : Cls) (hc : cls ≠ .dyn1 ∨ e.isRange) :
    let s := cls.norm n e.seq
    0 ≤ s.first ∧ s.first < s.last ∧ s.last ≤ n ∧ 0 < s.step ∧
    Ax.ofSeq s = ⟨e.first n, e.stepN, e.countN n⟩ := by
  intro s
  have hb := adm_bounds n e h
  have hs : s = ⟨(e.first n : Nat), (e.last n : Nat), (e.stepN : Nat)⟩ := norm_eq n e h cls hc
  rw [hs]
  refine ⟨?_, ?_, ?_, ?_, ?_⟩
  · show (0 : Int) ≤ ((e.first n : Nat) : Int)
    positivity
  · show ((e.first n : Nat) : Int) < ((e.last n : Nat) : Int)
    exact_mod_cast hb.1
  · show ((e.last n : Nat) : Int) ≤ (n : Int)
    exact_mod_cast hb.2.1
  · show (0 : Int) < ((e.stepN : Nat) : Int)
    exact_mod_cast hb.2.2
  rw [ofSeq_nat _ _ _ hb.2.2 (by omega)]
  rfl

end Fastor.Views
