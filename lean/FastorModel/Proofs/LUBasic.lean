import Mathlib.Algebra.BigOperators.Group.Finset.Basic
import Mathlib.Algebra.BigOperators.Group.Finset.Piecewise
import Mathlib.Algebra.BigOperators.Group.Finset.Sigma
import Mathlib.Algebra.BigOperators.Ring.Finset
import Mathlib.Algebra.Field.Basic
import Mathlib.Tactic.Ring
import Mathlib.Tactic.FieldSimp
import FastorModel.Model.LU
/-
  Helper lemmas for C11 / C12: loops as sums, the specification predicate `IsLU`, loop invariants.
-/
namespace Fastor.LU
open Finset

/-- invariant rule for `foldl` -/
theorem foldl_inv {σ β : Type} (P : σ → Prop) (step : σ → β → σ) (l : List β) (init : σ)
    (h0 : P init) (hs : ∀ s x, x ∈ l → P s → P (step s x)) : P (l.foldl step init) := by
  induction l generalizing init with
  | nil => simpa using h0
  | cons a t ih =>
    simp only [List.foldl_cons]
    exact ih _ (hs _ _ (by simp) h0) (fun s x hx => hs s x (by simp [hx]))

section ring
variable {K : Type} [Field K]

theorem subLoop_eq (m : Nat) (f : Nat → K) (a : K) : subLoop m f a = a - ∑ k ∈ range m, f k := by
  unfold subLoop
  induction m with
  | zero => simp
  | succ m ih => rw [List.range_succ, List.foldl_append, ih, sum_range_succ]; simp; ring

theorem sumTo_eq (m : Nat) (f : Nat → K) : sumTo m f = ∑ k ∈ range m, f k := by
  unfold sumTo
  induction m with
  | zero => simp
  | succ m ih => rw [List.range_succ, List.foldl_append, ih, sum_range_succ]; simp

theorem get_mul (r k c : Nat) (A B : Mat K) (i j : Nat) (hi : i < r) (hj : j < c) :
    (Mat.mul r k c A B).get i j = ∑ m ∈ range k, A.get i m * B.get m j := by
  unfold Mat.mul
  rw [Mat.get_ofFn, if_pos ⟨hi, hj⟩, sumTo_eq]

/-- the specification: `L` unit lower triangular with exact zeros above the diagonal, `U` upper triangular with exact
zeros below it, `L * U = A` (all on the leading n×n part) -/
structure IsLU (n : Nat) (A L U : Mat K) : Prop where
  diag : ∀ i, i < n → L.get i i = 1
  lzero : ∀ i j, i < n → j < n → i < j → L.get i j = 0
  uzero : ∀ i j, i < n → j < n → j < i → U.get i j = 0
  mul : ∀ i j, i < n → j < n → ∑ m ∈ range n, L.get i m * U.get m j = A.get i j

end ring
end Fastor.LU
