import FastorModel.Proofs.LUReconstruct
/-
  The executable triangular inverses used to run the model satisfy `InvSpec` (so the hypothesis of the block theorems is
  not vacuous, and the model that `fmodel` executes is the model the theorems are about).
-/
namespace Fastor.LU
open Finset

variable {K : Type} [Field K]

theorem invLowerUnit_spec (n : Nat) (L : Mat K) :
    ∀ m, m ≤ n →
      (∀ i c, ((List.range m).foldl (fun (X : Mat K) i =>
          (List.range n).foldl (fun (X : Mat K) j =>
            X.set i j (subLoop i (fun k => L.get i k * X.get k j) (if i = j then 1 else 0))) X) (Mat.zero n n)).has i c ↔ i < n ∧ c < n) ∧
      (∀ r c, r < m → c < n → ((List.range m).foldl (fun (X : Mat K) i =>
          (List.range n).foldl (fun (X : Mat K) j =>
            X.set i j (subLoop i (fun k => L.get i k * X.get k j) (if i = j then 1 else 0))) X) (Mat.zero n n)).get r c =
        (if r = c then 1 else 0) - ∑ k ∈ range r, L.get r k *
          ((List.range m).foldl (fun (X : Mat K) i =>
            (List.range n).foldl (fun (X : Mat K) j =>
              X.set i j (subLoop i (fun k => L.get i k * X.get k j) (if i = j then 1 else 0))) X) (Mat.zero n n)).get k c) := by
  intro m
  induction m with
  | zero => intro _; exact ⟨fun i c => by simp [Mat.zero, Mat.has_ofFn], fun r c hr => by omega⟩
  | succ m ih =>
    intro hm
    obtain ⟨h1, h2⟩ := ih (by omega)
    rw [List.range_succ, List.foldl_append]
    simp only [List.foldl_cons, List.foldl_nil]
    generalize (List.range m).foldl (fun (X : Mat K) i =>
          (List.range n).foldl (fun (X : Mat K) j =>
            X.set i j (subLoop i (fun k => L.get i k * X.get k j) (if i = j then 1 else 0))) X) (Mat.zero n n) = S at h1 h2
    rw [List.range_eq_range']
    obtain ⟨r1, r2⟩ := foldl_set_row m (fun (M : Mat K) j => subLoop m (fun k => L.get m k * M.get k j) (if m = j then 1 else 0))
      (by
        intro M M' t hMM
        simp only [subLoop_eq]
        congr 1
        apply sum_congr rfl; intro k hk
        rw [hMM k t (by have := mem_range.1 hk; omega)])
      n 0 S (fun t _ ht => (h1 m t).2 ⟨by omega, by omega⟩)
    generalize (List.range' 0 n).foldl (fun (M : Mat K) t =>
        M.set m t (subLoop m (fun k => L.get m k * M.get k t) (if m = t then 1 else 0))) S = T at r1 r2 ⊢
    have other : ∀ r c, r ≠ m → T.get r c = S.get r c := by
      intro r c hr; rw [r2 r c, if_neg (fun h => hr h.1)]
    refine ⟨fun i c => by rw [r1]; exact h1 i c, fun r c hr hc => ?_⟩
    by_cases hrm : r = m
    · subst hrm
      rw [r2 r c, if_pos ⟨rfl, by omega, by omega⟩]
      simp only [subLoop_eq]
      congr 1
      apply sum_congr rfl; intro k hk
      rw [other k c (by have := mem_range.1 hk; omega)]
    · rw [other r c hrm, h2 r c (by omega) hc]
      congr 1
      apply sum_congr rfl; intro k hk
      rw [other k c (by have := mem_range.1 hk; omega)]

theorem invUpperLeft_spec (n : Nat) (U : Mat K) :
    ∀ m, m ≤ n →
      (∀ i c, ((List.range m).foldl (fun (X : Mat K) j =>
          (List.range n).foldl (fun (X : Mat K) i =>
            X.set i j (subLoop j (fun k => X.get i k * U.get k j) (if i = j then 1 else 0) / U.get j j)) X) (Mat.zero n n)).has i c ↔ i < n ∧ c < n) ∧
      (∀ r c, c < m → r < n → ((List.range m).foldl (fun (X : Mat K) j =>
          (List.range n).foldl (fun (X : Mat K) i =>
            X.set i j (subLoop j (fun k => X.get i k * U.get k j) (if i = j then 1 else 0) / U.get j j)) X) (Mat.zero n n)).get r c =
        ((if r = c then 1 else 0) - ∑ k ∈ range c,
          ((List.range m).foldl (fun (X : Mat K) j =>
            (List.range n).foldl (fun (X : Mat K) i =>
              X.set i j (subLoop j (fun k => X.get i k * U.get k j) (if i = j then 1 else 0) / U.get j j)) X) (Mat.zero n n)).get r k
            * U.get k c) / U.get c c) := by
  intro m
  induction m with
  | zero => intro _; exact ⟨fun i c => by simp [Mat.zero, Mat.has_ofFn], fun r c hc => by omega⟩
  | succ m ih =>
    intro hm
    obtain ⟨h1, h2⟩ := ih (by omega)
    rw [List.range_succ, List.foldl_append]
    simp only [List.foldl_cons, List.foldl_nil]
    generalize (List.range m).foldl (fun (X : Mat K) j =>
          (List.range n).foldl (fun (X : Mat K) i =>
            X.set i j (subLoop j (fun k => X.get i k * U.get k j) (if i = j then 1 else 0) / U.get j j)) X) (Mat.zero n n) = S at h1 h2
    rw [List.range_eq_range']
    obtain ⟨r1, r2⟩ := foldl_set_col m (fun (M : Mat K) i => subLoop m (fun k => M.get i k * U.get k m) (if i = m then 1 else 0) / U.get m m)
      (by
        intro M M' t hMM
        simp only [subLoop_eq]
        congr 2
        apply sum_congr rfl; intro k hk
        rw [hMM t k (by have := mem_range.1 hk; omega)])
      n 0 S (fun t _ ht => (h1 t m).2 ⟨by omega, by omega⟩)
    generalize (List.range' 0 n).foldl (fun (M : Mat K) t =>
        M.set t m (subLoop m (fun k => M.get t k * U.get k m) (if t = m then 1 else 0) / U.get m m)) S = T at r1 r2 ⊢
    have other : ∀ r c, c ≠ m → T.get r c = S.get r c := by
      intro r c hc; rw [r2 r c, if_neg (fun h => hc h.1)]
    refine ⟨fun i c => by rw [r1]; exact h1 i c, fun r c hc hr => ?_⟩
    by_cases hcm : c = m
    · subst hcm
      rw [r2 r c, if_pos ⟨rfl, by omega, by omega⟩]
      simp only [subLoop_eq]
      congr 2
      apply sum_congr rfl; intro k hk
      rw [other r k (by have := mem_range.1 hk; omega)]
    · rw [other r c hcm, h2 r c (by omega) hr]
      congr 2
      apply sum_congr rfl; intro k hk
      rw [other r k (by have := mem_range.1 hk; omega)]

/-- the executable stand-ins for `tinverse` are inverses: `InvSpec` holds for the operations `fmodel` runs -/
theorem execOps_spec : InvSpec (execOps : InvOps K) := by
  constructor
  · intro N L hdiag hlz i p hi hp
    have h := (invLowerUnit_spec N L N (Nat.le_refl _)).2
    show ∑ m ∈ range N, L.get i m * (invLowerUnit N L).get m p = _
    unfold invLowerUnit
    have split : ∀ X : Mat K, ∑ m ∈ range N, L.get i m * X.get m p = ∑ m ∈ range (i + 1), L.get i m * X.get m p := by
      intro X
      have hsub : range (i + 1) ⊆ range N := by intro x; simp; omega
      symm
      apply sum_subset hsub
      intro m hm hm'
      have h1 : m < N := by simpa using hm
      have h2 : i < m := by simp at hm'; omega
      rw [hlz i m hi h1 h2]; simp
    rw [split, sum_range_succ, hdiag i hi, h i p hi hp]; ring
  · intro N U huz hd p j hp hj
    have h := (invUpperLeft_spec N U N (Nat.le_refl _)).2
    show ∑ m ∈ range N, (invUpperLeft N U).get p m * U.get m j = _
    unfold invUpperLeft
    have split : ∀ X : Mat K, ∑ m ∈ range N, X.get p m * U.get m j = ∑ m ∈ range (j + 1), X.get p m * U.get m j := by
      intro X
      have hsub : range (j + 1) ⊆ range N := by intro x; simp; omega
      symm
      apply sum_subset hsub
      intro m hm hm'
      have h1 : m < N := by simpa using hm
      have h2 : j < m := by simp at hm'; omega
      rw [huz m j h1 hj h2]; simp
    have hjj := hd j hj
    rw [split, sum_range_succ, h p j hj hp]
    field_simp; ring

end Fastor.LU
