import FastorModel.Model.ViewWrite
import FastorModel.Proofs.MatmulFills
/-
  Lemmas for C05/C18: (1) the memory semantics of a program of iterations whose stored positions are
  pairwise distinct (`exec_spec`), (2) the lanes of the 1-D / row loops listed in order (`seg_lanes`).
-/
namespace Fastor.ViewWrite
open Fastor

variable {α : Type} [Add α] [Sub α] [Mul α] [Div α]

/-! ### semantics of distinct stores -/

theorem applyWrites_cons (w : Nat × α) (ws : List (Nat × α)) (m : Nat → α) :
    applyWrites (w :: ws) m = applyWrites ws (fun p => if p = w.1 then w.2 else m p) := by
  simp [applyWrites]

/-- stores to pairwise distinct positions: each stored position holds its value, the rest is unchanged -/
theorem applyWrites_nodup (ws : List (Nat × α)) (m : Nat → α) (hnd : (ws.map (·.1)).Nodup) :
    (∀ w ∈ ws, applyWrites ws m w.1 = w.2) ∧ (∀ p, p ∉ ws.map (·.1) → applyWrites ws m p = m p) := by
  induction ws generalizing m with
  | nil => simp [applyWrites]
  | cons w ws ih =>
    simp only [List.map_cons, List.nodup_cons] at hnd
    have ih' := ih (fun p => if p = w.1 then w.2 else m p) hnd.2
    rw [applyWrites_cons]
    refine ⟨?_, ?_⟩
    · intro x hx
      rcases List.mem_cons.1 hx with rfl | hx
      · rw [ih'.2 _ hnd.1]; simp
      · exact ih'.1 x hx
    · intro p hp
      simp only [List.map_cons, List.mem_cons, not_or] at hp
      rw [ih'.2 p hp.2]; simp [hp.1]

/-- sequential read-modify-writes to pairwise distinct positions -/
theorem rmw_nodup (op : WOp) (vals : List (Nat × α)) (m : Nat → α) (hnd : (vals.map (·.1)).Nodup) :
    let m' := vals.foldl (fun m w => fun p => if p = w.1 then op.ap (m w.1) w.2 else m p) m
    (∀ w ∈ vals, m' w.1 = op.ap (m w.1) w.2) ∧ (∀ p, p ∉ vals.map (·.1) → m' p = m p) := by
  induction vals generalizing m with
  | nil => simp
  | cons w ws ih =>
    simp only [List.map_cons, List.nodup_cons] at hnd
    have ih' := ih (fun p => if p = w.1 then op.ap (m w.1) w.2 else m p) hnd.2
    simp only [List.foldl_cons]
    refine ⟨?_, ?_⟩
    · intro x hx
      rcases List.mem_cons.1 hx with rfl | hx
      · rw [ih'.2 _ hnd.1]; simp
      · rw [ih'.1 x hx]
        have hne : x.1 ≠ w.1 := by
          intro e; exact hnd.1 (e ▸ List.mem_map_of_mem (f := (·.1)) hx)
        simp [hne]
    · intro p hp
      simp only [List.map_cons, List.mem_cons, not_or] at hp
      rw [ih'.2 p hp.2]; simp [hp.1]

/-- one iteration, right-hand side independent of the destination tensor -/
theorem execIter_spec (op : WOp) (r : Nat → α) (m : Nat → α) (it : Iter)
    (hnd : (it.lanes.map (·.1)).Nodup) :
    (∀ l ∈ it.lanes, execIter op (fun _ => r) m it l.1 = op.ap (m l.1) (r l.2)) ∧
    (∀ p, p ∉ it.lanes.map (·.1) → execIter op (fun _ => r) m it p = m p) := by
  obtain ⟨kind, lanes⟩ := it
  simp only at hnd
  have hA : (∀ l ∈ lanes, applyWrites (lanes.map fun l => (l.1, op.ap (m l.1) (r l.2))) m l.1 = op.ap (m l.1) (r l.2)) ∧
      (∀ p, p ∉ lanes.map (·.1) → applyWrites (lanes.map fun l => (l.1, op.ap (m l.1) (r l.2))) m p = m p) := by
    have h := applyWrites_nodup (lanes.map fun l => (l.1, op.ap (m l.1) (r l.2))) m
      (by simpa [List.map_map, Function.comp_def] using hnd)
    refine ⟨?_, ?_⟩
    · intro l hl
      exact h.1 (l.1, op.ap (m l.1) (r l.2)) (List.mem_map_of_mem (f := fun l => (l.1, op.ap (m l.1) (r l.2))) hl)
    · intro p hp
      apply h.2
      simpa [List.map_map, Function.comp_def] using hp
  cases kind
  case rmw =>
    simp only [execIter]
    have h := rmw_nodup op (lanes.map fun l => (l.1, r l.2)) m (by simpa [List.map_map, Function.comp_def] using hnd)
    refine ⟨?_, ?_⟩
    · intro l hl
      exact h.1 (l.1, r l.2) (List.mem_map_of_mem (f := fun l => (l.1, r l.2)) hl)
    · intro p hp
      apply h.2
      simpa [List.map_map, Function.comp_def] using hp
  all_goals (simp only [execIter]; exact hA)

/-- all lanes of a program, in order -/
def lanesOf (its : List Iter) : List (Nat × Nat) := its.flatMap (·.lanes)

theorem writeSeq_eq (its : List Iter) : writeSeq its = (lanesOf its).map (·.1) := by
  unfold writeSeq lanesOf
  induction its with
  | nil => rfl
  | cons it its ih => simp [List.flatMap_cons, ih]

/-- **a program whose stored positions are pairwise distinct**: every lane `(p, j)` ends as
    `op(old p, rhs j)` and every position that is no lane's keeps its value -/
theorem exec_spec (op : WOp) (r : Nat → α) (its : List Iter) (m : Nat → α)
    (hnd : ((lanesOf its).map (·.1)).Nodup) :
    (∀ l ∈ lanesOf its, exec op (fun _ => r) its m l.1 = op.ap (m l.1) (r l.2)) ∧
    (∀ p, p ∉ (lanesOf its).map (·.1) → exec op (fun _ => r) its m p = m p) := by
  induction its generalizing m with
  | nil => simp [lanesOf, exec]
  | cons it its ih =>
    have hl : lanesOf (it :: its) = it.lanes ++ lanesOf its := by simp [lanesOf]
    rw [hl, List.map_append, List.nodup_append] at hnd
    obtain ⟨hnd1, hnd2, hdisj⟩ := hnd
    have h1 := execIter_spec op r m it hnd1
    have ih' := ih (execIter op (fun _ => r) m it) hnd2
    have hex : exec op (fun _ => r) (it :: its) m = exec op (fun _ => r) its (execIter op (fun _ => r) m it) := by
      simp [exec]
    rw [hex, hl]
    refine ⟨?_, ?_⟩
    · intro l hmem
      rcases List.mem_append.1 hmem with hm | hm
      · have hnot : l.1 ∉ (lanesOf its).map (·.1) := by
          intro hin
          exact hdisj l.1 (List.mem_map_of_mem (f := (·.1)) hm) l.1 hin rfl
        rw [ih'.2 _ hnot]; exact h1.1 l hm
      · rw [ih'.1 l hm]
        have hnot : l.1 ∉ it.lanes.map (·.1) := by
          intro hin
          exact hdisj l.1 hin l.1 (List.mem_map_of_mem (f := (·.1)) hm) rfl
        rw [h1.2 _ hnot]
    · intro p hp
      simp only [List.map_append, List.mem_append, not_or] at hp
      rw [ih'.2 p hp.2, h1.2 p hp.1]

theorem execIter_const (op : WOp) (rhs : (Nat → α) → Nat → α) (m : Nat → α) (it : Iter) :
    execIter op rhs m it = execIter op (fun _ => rhs m) m it := by
  obtain ⟨kind, lanes⟩ := it
  cases kind <;> rfl

/-- **a right-hand side that reads the destination tensor only at the lane's own position** (source and
    destination coincide exactly): the in-order execution still gives `op(old p, rhs(old) j)` -/
theorem exec_spec_local (op : WOp) (rhs : (Nat → α) → Nat → α) (its : List Iter) (m : Nat → α)
    (hnd : ((lanesOf its).map (·.1)).Nodup)
    (hloc : ∀ (m1 m2 : Nat → α) (l : Nat × Nat), l ∈ lanesOf its → m1 l.1 = m2 l.1 → rhs m1 l.2 = rhs m2 l.2) :
    (∀ l ∈ lanesOf its, exec op rhs its m l.1 = op.ap (m l.1) (rhs m l.2)) ∧
    (∀ p, p ∉ (lanesOf its).map (·.1) → exec op rhs its m p = m p) := by
  induction its generalizing m with
  | nil => simp [lanesOf, exec]
  | cons it its ih =>
    have hl : lanesOf (it :: its) = it.lanes ++ lanesOf its := by simp [lanesOf]
    rw [hl, List.map_append, List.nodup_append] at hnd
    obtain ⟨hnd1, hnd2, hdisj⟩ := hnd
    have h1 := execIter_spec op (rhs m) m it hnd1
    rw [← execIter_const] at h1
    have hloc' : ∀ (m1 m2 : Nat → α) (l : Nat × Nat), l ∈ lanesOf its → m1 l.1 = m2 l.1 → rhs m1 l.2 = rhs m2 l.2 :=
      fun m1 m2 l hmem => hloc m1 m2 l (by rw [hl]; exact List.mem_append_right _ hmem)
    have ih' := ih (execIter op rhs m it) hnd2 hloc'
    have hex : exec op rhs (it :: its) m = exec op rhs its (execIter op rhs m it) := by simp [exec]
    rw [hex, hl]
    refine ⟨?_, ?_⟩
    · intro l hmem
      rcases List.mem_append.1 hmem with hm | hm
      · have hnot : l.1 ∉ (lanesOf its).map (·.1) := by
          intro hin
          exact hdisj l.1 (List.mem_map_of_mem (f := (·.1)) hm) l.1 hin rfl
        rw [ih'.2 _ hnot]; exact h1.1 l hm
      · rw [ih'.1 l hm]
        have hnot : l.1 ∉ it.lanes.map (·.1) := by
          intro hin
          exact hdisj l.1 hin l.1 (List.mem_map_of_mem (f := (·.1)) hm) rfl
        have hkeep := h1.2 _ hnot
        rw [hkeep, hloc _ m l (by rw [hl]; exact List.mem_append_right _ hm) hkeep]
    · intro p hp
      simp only [List.map_append, List.mem_append, not_or] at hp
      rw [ih'.2 p hp.2, h1.2 p hp.1]

/-! ### the lanes of one run of the innermost loop -/

theorem flatMap_single {β γ : Type} (f : β → γ) (l : List β) : l.flatMap (fun x => [f x]) = l.map f := by
  induction l with
  | nil => rfl
  | cons x xs ih => simp [List.flatMap_cons, ih]

theorem range_blocks {β : Type} (g : Nat → β) (V q : Nat) :
    (List.range q).flatMap (fun t => (List.range V).map fun l => g (t * V + l)) = (List.range (q * V)).map g := by
  induction q with
  | zero => simp
  | succ q ih =>
    rw [List.range_succ, List.flatMap_append, ih, Nat.succ_mul, List.range_add, List.map_append]
    simp [List.map_map, Function.comp_def]

theorem forRange_step (q V : Nat) (hV : 0 < V) : forRange 0 (q * V) V = (List.range q).map (fun t => t * V) := by
  unfold forRange forCount
  have : (q * V - 0 + (V - 1)) / V = q := by
    rw [Nat.sub_zero, Nat.mul_comm, Nat.mul_add_div hV, Nat.div_eq_of_lt (by omega)]; simp
  rw [this]; simp

theorem forRange_one (lo hi : Nat) : forRange lo hi 1 = (List.range (hi - lo)).map (fun t => lo + t) := by
  unfold forRange forCount; simp

/-- the lanes of `segIters`, in order: element `k` of the run for `k = 0 .. n-1`, each exactly once —
    whichever of the three routes is taken, for every power-of-two width -/
theorem seg_lanes (e : Nat) (he : e ≤ 64) (vea : Bool) (strided : IKind) (pb jb : Nat) (a : Ax) (hn : a.ext < 2 ^ 64) :
    lanesOf (segIters (2 ^ e) vea strided pb jb a) =
      (List.range a.ext).map fun k => (pb + (k * a.step + a.first), jb + k) := by
  have hV : 0 < 2 ^ e := Nat.pow_pos (by omega)
  have hR : rd a.ext (2 ^ e) = a.ext / 2 ^ e * 2 ^ e := Matmul.roundDown_pow2 a.ext e hn he
  have hle : a.ext / 2 ^ e * 2 ^ e ≤ a.ext := Nat.div_mul_le_self _ _
  have hexit : forExit 0 (a.ext / 2 ^ e * 2 ^ e) (2 ^ e) = a.ext / 2 ^ e * 2 ^ e :=
    forExit_of_dvd hV (Nat.zero_le _) (by simp [Nat.dvd_mul_left])
  -- the vector body followed by the scalar tail lists 0 .. n-1
  have hsplit : ∀ (kindv : IKind),
      lanesOf ((forRange 0 (a.ext / 2 ^ e * 2 ^ e) (2 ^ e)).map (fun i => (⟨kindv, (List.range (2 ^ e)).map fun l =>
          (pb + ((i + l) * a.step + a.first), jb + (i + l))⟩ : Iter)) ++
        (forRange (a.ext / 2 ^ e * 2 ^ e) a.ext 1).map (fun i => (⟨.scalar, [(pb + (i * a.step + a.first), jb + i)]⟩ : Iter))) =
      (List.range a.ext).map fun k => (pb + (k * a.step + a.first), jb + k) := by
    intro kindv
    unfold lanesOf
    rw [List.flatMap_append, forRange_step _ _ hV, forRange_one]
    simp only [List.flatMap_map, List.map_map, Function.comp_def]
    have h1 := range_blocks (fun k => (pb + (k * a.step + a.first), jb + k)) (2 ^ e) (a.ext / 2 ^ e)
    rw [h1]
    have h2 : (List.range (a.ext - a.ext / 2 ^ e * 2 ^ e)).flatMap
        (fun t => [(pb + ((a.ext / 2 ^ e * 2 ^ e + t) * a.step + a.first), jb + (a.ext / 2 ^ e * 2 ^ e + t))]) =
        ((List.range (a.ext - a.ext / 2 ^ e * 2 ^ e)).map (fun t => a.ext / 2 ^ e * 2 ^ e + t)).map
          (fun k => (pb + (k * a.step + a.first), jb + k)) := by
      rw [flatMap_single, List.map_map]; rfl
    rw [h2, ← List.map_append, ← List.range_add]
    congr 2; omega
  unfold segIters
  simp only [hR, hexit]
  by_cases hs : a.step = 1
  · simp only [hs, if_true]
    have := hsplit .vstore
    simp only [hs] at this
    exact this
  · simp only [hs, if_false]
    cases vea with
    | true => simp only [if_true]; exact hsplit strided
    | false =>
      simp only [Bool.false_eq_true, if_false]
      unfold lanesOf
      rw [forRange_one]
      simp only [List.flatMap_map, Nat.sub_zero, Nat.zero_add]
      exact flatMap_single _ _

end Fastor.ViewWrite
