import FastorModel.Model.Layout
/-
  Mixed-radix index arithmetic for C20: row-major / column-major offsets of a multi-index, their inverses,
  reversal, and the index odometer of `tocolumnmajor` / `torowmajor`.
-/
namespace Fastor.Layout

/-- the multi-index `i` lies in the box of extents `dims` (same rank, every component below its extent) -/
def Box : List Nat → List Nat → Prop
  | [], [] => True
  | d :: ds, i :: is => i < d ∧ Box ds is
  | _, _ => False

/-- row-major offset `Σ_k i_k · Π_{l>k} d_l` -/
def rowFlat : List Nat → List Nat → Nat
  | _ :: ds, i :: is => i * prod ds + rowFlat ds is
  | _, _ => 0

/-- column-major offset in Horner form `i_0 + d_0·(i_1 + d_1·(…))` -/
def colFlat : List Nat → List Nat → Nat
  | d :: ds, i :: is => i + d * colFlat ds is
  | _, _ => 0

/-- column-major offset as the sum `Σ_k i_k · Π_{l<k} d_l`, with the running product `s = Π_{l<k} d_l` -/
def colOffsetFrom (s : Nat) : List Nat → List Nat → Nat
  | d :: ds, i :: is => i * s + colOffsetFrom (s * d) ds is
  | _, _ => 0

def colOffset (dims idx : List Nat) : Nat := colOffsetFrom 1 dims idx
def rowOffset (dims idx : List Nat) : Nat := rowFlat dims idx

theorem colOffsetFrom_eq (s : Nat) (ds is : List Nat) : colOffsetFrom s ds is = s * colFlat ds is := by
  induction ds generalizing s is with
  | nil => cases is <;> simp [colOffsetFrom, colFlat]
  | cons d ds ih =>
    cases is with
    | nil => simp [colOffsetFrom, colFlat]
    | cons i is =>
      simp only [colOffsetFrom, colFlat, ih]
      rw [Nat.mul_add, Nat.mul_assoc, Nat.mul_comm i s]

theorem colOffset_eq (ds is : List Nat) : colOffset ds is = colFlat ds is := by
  simp [colOffset, colOffsetFrom_eq]

theorem Box.length_eq {ds is : List Nat} (h : Box ds is) : is.length = ds.length := by
  induction ds generalizing is with
  | nil => cases is with
    | nil => rfl
    | cons => simp [Box] at h
  | cons d ds ih => cases is with
    | nil => simp [Box] at h
    | cons i is => simp [Box] at h; simp [ih h.2]

theorem prod_append (xs : List Nat) (d : Nat) : prod (xs ++ [d]) = prod xs * d := by
  induction xs with
  | nil => simp [prod]
  | cons x xs ih => simp [prod, ih, Nat.mul_assoc]

theorem prod_reverse (xs : List Nat) : prod xs.reverse = prod xs := by
  induction xs with
  | nil => rfl
  | cons x xs ih => simp [prod_append, prod, ih, Nat.mul_comm]

theorem rowFlat_lt {ds is : List Nat} (h : Box ds is) : rowFlat ds is < prod ds := by
  induction ds generalizing is with
  | nil => cases is with
    | nil => simp [rowFlat, prod]
    | cons => simp [Box] at h
  | cons d ds ih => cases is with
    | nil => simp [Box] at h
    | cons i is =>
      simp only [Box] at h
      have hr := ih h.2
      have h1 : (i + 1) * prod ds ≤ d * prod ds := Nat.mul_le_mul_right _ (by omega)
      rw [Nat.add_mul, Nat.one_mul] at h1
      simp only [rowFlat, prod]
      omega

theorem mul_add_inj {P i j r s : Nat} (hr : r < P) (hs : s < P) (h : i * P + r = j * P + s) : i = j ∧ r = s := by
  have key : ∀ {a b x y : Nat}, x < P → a < b → a * P + x < b * P + y := by
    intro a b x y hx hab
    have h1 : (a + 1) * P ≤ b * P := Nat.mul_le_mul_right _ (by omega)
    rw [Nat.add_mul, Nat.one_mul] at h1
    omega
  have hij : i = j := by
    rcases Nat.lt_trichotomy i j with hlt | heq | hgt
    · have := key (y := s) hr hlt; omega
    · exact heq
    · have := key (y := r) hs hgt; omega
  subst hij
  exact ⟨rfl, by omega⟩

theorem rowFlat_inj {ds is js : List Nat} (hi : Box ds is) (hj : Box ds js) (h : rowFlat ds is = rowFlat ds js) :
    is = js := by
  induction ds generalizing is js with
  | nil => cases is with
    | nil => cases js with
      | nil => rfl
      | cons => simp [Box] at hj
    | cons => simp [Box] at hi
  | cons d ds ih => cases is with
    | nil => simp [Box] at hi
    | cons i is => cases js with
      | nil => simp [Box] at hj
      | cons j js =>
        simp only [Box] at hi hj
        simp only [rowFlat] at h
        have := mul_add_inj (rowFlat_lt hi.2) (rowFlat_lt hj.2) h
        rw [this.1, ih hi.2 hj.2 this.2]

/-- the multi-index whose row-major offset is `p` -/
def unflatRow : List Nat → Nat → List Nat
  | [], _ => []
  | _ :: ds, p => p / prod ds :: unflatRow ds (p % prod ds)

theorem unflatRow_spec {ds : List Nat} {p : Nat} (h : p < prod ds) :
    Box ds (unflatRow ds p) ∧ rowFlat ds (unflatRow ds p) = p := by
  induction ds generalizing p with
  | nil => simp [unflatRow, Box, rowFlat, prod] at *; omega
  | cons d ds ih =>
    simp only [prod] at h
    have hP : 0 < prod ds := by
      rcases Nat.eq_zero_or_pos (prod ds) with h0 | h0
      · rw [h0] at h; simp at h
      · exact h0
    have hm := ih (Nat.mod_lt p hP)
    refine ⟨⟨?_, hm.1⟩, ?_⟩
    · rw [Nat.div_lt_iff_lt_mul hP]; exact h
    · simp only [unflatRow, rowFlat, hm.2]
      exact Nat.div_add_mod' p (prod ds)

/-! ### reversal: column-major = row-major of the reversed extents and index -/

theorem rowFlat_append {ds is : List Nat} (hl : is.length = ds.length) (d i : Nat) :
    rowFlat (ds ++ [d]) (is ++ [i]) = rowFlat ds is * d + i := by
  induction ds generalizing is with
  | nil => cases is with
    | nil => simp [rowFlat, prod]
    | cons => simp at hl
  | cons e ds ih => cases is with
    | nil => simp at hl
    | cons j is =>
      simp only [List.length_cons, Nat.add_right_cancel_iff] at hl
      simp only [List.cons_append, rowFlat, prod_append, ih hl]
      rw [Nat.add_mul, Nat.mul_assoc, Nat.add_assoc]

theorem colFlat_eq_rowFlat_reverse {ds is : List Nat} (hl : is.length = ds.length) :
    colFlat ds is = rowFlat ds.reverse is.reverse := by
  induction ds generalizing is with
  | nil => cases is <;> simp [colFlat, rowFlat]
  | cons d ds ih => cases is with
    | nil => simp at hl
    | cons i is =>
      simp only [List.length_cons, Nat.add_right_cancel_iff] at hl
      simp only [List.reverse_cons, colFlat]
      rw [rowFlat_append (by simp [hl]), ← ih hl, Nat.mul_comm, Nat.add_comm]

theorem box_append {ds is : List Nat} (hl : is.length = ds.length) (d i : Nat) :
    Box (ds ++ [d]) (is ++ [i]) ↔ Box ds is ∧ i < d := by
  induction ds generalizing is with
  | nil => cases is with
    | nil => simp [Box]
    | cons => simp at hl
  | cons e ds ih => cases is with
    | nil => simp at hl
    | cons j is =>
      simp only [List.length_cons, Nat.add_right_cancel_iff] at hl
      simp only [List.cons_append, Box, ih hl, and_assoc]

theorem box_reverse {ds is : List Nat} (hl : is.length = ds.length) : Box ds.reverse is.reverse ↔ Box ds is := by
  induction ds generalizing is with
  | nil => cases is with
    | nil => simp
    | cons => simp at hl
  | cons d ds ih => cases is with
    | nil => simp at hl
    | cons i is =>
      simp only [List.length_cons, Nat.add_right_cancel_iff] at hl
      simp only [List.reverse_cons]
      rw [box_append (by simp [hl]), ih hl]
      simp only [Box]; exact And.comm

theorem box_reverse' {ds as : List Nat} (h : Box ds.reverse as) : Box ds as.reverse := by
  have hl := h.length_eq
  have : as.reverse.length = ds.length := by simpa using hl
  rw [← box_reverse this]; simpa using h

theorem colFlat_lt {ds is : List Nat} (h : Box ds is) : colFlat ds is < prod ds := by
  rw [colFlat_eq_rowFlat_reverse h.length_eq, ← prod_reverse]
  exact rowFlat_lt ((box_reverse h.length_eq).2 h)

theorem colFlat_inj {ds is js : List Nat} (hi : Box ds is) (hj : Box ds js) (h : colFlat ds is = colFlat ds js) :
    is = js := by
  rw [colFlat_eq_rowFlat_reverse hi.length_eq, colFlat_eq_rowFlat_reverse hj.length_eq] at h
  have := rowFlat_inj ((box_reverse hi.length_eq).2 hi) ((box_reverse hj.length_eq).2 hj) h
  simpa using congrArg List.reverse this

/-- the multi-index whose column-major offset is `p` -/
def unflatCol (ds : List Nat) (p : Nat) : List Nat := (unflatRow ds.reverse p).reverse

theorem unflatCol_spec {ds : List Nat} {p : Nat} (h : p < prod ds) :
    Box ds (unflatCol ds p) ∧ colFlat ds (unflatCol ds p) = p := by
  have hs := unflatRow_spec (ds := ds.reverse) (p := p) (by rw [prod_reverse]; exact h)
  have hb := box_reverse' hs.1
  unfold unflatCol
  refine ⟨hb, ?_⟩
  rw [colFlat_eq_rowFlat_reverse hb.length_eq]
  simp only [List.reverse_reverse]
  exact hs.2

/-! ### strides and the dot product of the odometer -/

theorem rowFlat_eq_dot (ds is : List Nat) : rowFlat ds is = dot (strides ds) is := by
  induction ds generalizing is with
  | nil => cases is <;> simp [rowFlat, strides, dot]
  | cons d ds ih => cases is with
    | nil => simp [rowFlat, strides, dot]
    | cons i is => simp [rowFlat, strides, dot, ih, Nat.mul_comm]

theorem strides_length (ds : List Nat) : (strides ds).length = ds.length := by
  induction ds with
  | nil => rfl
  | cons d ds ih => simp [strides, ih]

theorem dot_append {xs ys : List Nat} (hl : ys.length = xs.length) (x y : Nat) :
    dot (xs ++ [x]) (ys ++ [y]) = dot xs ys + x * y := by
  induction xs generalizing ys with
  | nil => cases ys with
    | nil => simp [dot]
    | cons => simp at hl
  | cons a xs ih => cases ys with
    | nil => simp at hl
    | cons b ys =>
      simp only [List.length_cons, Nat.add_right_cancel_iff] at hl
      simp only [List.cons_append, dot, ih hl, Nat.add_assoc]

theorem dot_reverse {xs ys : List Nat} (hl : ys.length = xs.length) : dot xs.reverse ys.reverse = dot xs ys := by
  induction xs generalizing ys with
  | nil => cases ys <;> simp [dot]
  | cons a xs ih => cases ys with
    | nil => simp at hl
    | cons b ys =>
      simp only [List.length_cons, Nat.add_right_cancel_iff] at hl
      simp only [List.reverse_cons]
      rw [dot_append (by simp [hl]), ih hl]
      simp only [dot]; omega

/-! ### the odometer -/

/-- the body of the increment at one position, given the outcome `r` of the positions to its right -/
def incrStep (d a : Nat) (r : List Nat × Bool) : List Nat × Bool :=
  if r.2 then (if a + 1 < d then ((a + 1) :: r.1, false) else (0 :: r.1, true)) else (a :: r.1, false)

theorem odoIncr_cons (d a : Nat) (ds as : List Nat) : odoIncr (d :: ds) (a :: as) = incrStep d a (odoIncr ds as) := rfl

theorem incrStep_spec (d a v : Nat) (ds : List Nat) (r : List Nat × Bool) (ha : a < d) (hb : Box ds r.1)
    (hv : rowFlat ds r.1 + (if r.2 then prod ds else 0) = v + 1) :
    Box (d :: ds) (incrStep d a r).1 ∧
    rowFlat (d :: ds) (incrStep d a r).1 + (if (incrStep d a r).2 then prod (d :: ds) else 0) = a * prod ds + v + 1 := by
  obtain ⟨as', c⟩ := r
  cases c with
  | false =>
    simp only [incrStep, Bool.false_eq_true, if_false, Box, rowFlat] at hb hv ⊢
    exact ⟨⟨ha, hb⟩, by omega⟩
  | true =>
    simp only [if_true] at hb hv
    by_cases h1 : a + 1 < d
    · simp only [incrStep, if_true, h1, Box, rowFlat, Bool.false_eq_true, if_false]
      refine ⟨⟨trivial, hb⟩, ?_⟩
      rw [Nat.add_mul, Nat.one_mul]; omega
    · simp only [incrStep, if_true, h1, if_false, Box, rowFlat, prod]
      have hd : d = a + 1 := by omega
      refine ⟨⟨by omega, hb⟩, ?_⟩
      rw [hd, Nat.add_mul, Nat.one_mul]; omega

/-- one increment: stays in the box and adds one to the value, the flag reporting the wrap-around -/
theorem odoIncr_spec {dh as : List Nat} (h : Box dh as) :
    Box dh (odoIncr dh as).1 ∧
    rowFlat dh (odoIncr dh as).1 + (if (odoIncr dh as).2 then prod dh else 0) = rowFlat dh as + 1 := by
  induction dh generalizing as with
  | nil => cases as with
    | nil => simp [odoIncr, Box, rowFlat, prod]
    | cons => simp [Box] at h
  | cons d ds ih => cases as with
    | nil => simp [Box] at h
    | cons a as =>
      simp only [Box] at h
      have hr := ih h.2
      rw [odoIncr_cons]
      have := incrStep_spec d a (rowFlat ds as) ds (odoIncr ds as) h.1 hr.1 hr.2
      simpa [rowFlat, Nat.add_assoc] using this

/-- the loop visits the counters `counter, counter+1, …, size-1` in order, and at counter `c` the odometer holds
    the digits of `c` (most significant first w.r.t. `dh`) -/
theorem odoLoop_eq (pr dh : List Nat) (fuel : Nat) (as : List Nat) (counter : Nat)
    (hb : Box dh as) (hv : rowFlat dh as = counter) (hf : prod dh ≤ counter + fuel) :
    odoLoop pr dh (prod dh) fuel as counter =
      (List.range' counter (prod dh - counter)).map fun c => (dot pr (unflatRow dh c), c) := by
  induction fuel generalizing as counter with
  | zero =>
    have : prod dh - counter = 0 := by omega
    simp [odoLoop, this]
  | succ fuel ih =>
    have hlt : counter < prod dh := hv ▸ rowFlat_lt hb
    simp only [odoLoop, hlt, if_true]
    have hspec := odoIncr_spec hb
    have has : as = unflatRow dh counter := by
      have hu := unflatRow_spec hlt
      exact rowFlat_inj hb hu.1 (by rw [hu.2, hv])
    have hsplit : prod dh - counter = (prod dh - (counter + 1)) + 1 := by omega
    rw [hsplit, List.range'_succ]
    simp only [List.map_cons]
    congr 1
    · rw [has]
    · cases hc : (odoIncr dh as).2 with
      | true =>
        simp only [hc, if_true] at hspec
        have : prod dh - (counter + 1) = 0 := by omega
        simp [this]
      | false =>
        simp only [hc, Bool.false_eq_true, if_false] at hspec
        simp only [Bool.false_eq_true, if_false]
        exact ih (odoIncr dh as).1 (counter + 1) hspec.1 (by omega) (by omega)

theorem box_replicate_zero {ds : List Nat} (h : 0 < prod ds) : Box ds (List.replicate ds.length 0) := by
  induction ds with
  | nil => simp [Box]
  | cons d ds ih =>
    simp only [prod] at h
    have hd : 0 < d := Nat.pos_of_mul_pos_right h |> fun _ => by
      rcases Nat.eq_zero_or_pos d with h0 | h0
      · rw [h0] at h; simp at h
      · exact h0
    have hp : 0 < prod ds := by
      rcases Nat.eq_zero_or_pos (prod ds) with h0 | h0
      · rw [h0] at h; simp at h
      · exact h0
    simp only [List.length_cons, List.replicate_succ, Box]
    exact ⟨hd, ih hp⟩

theorem rowFlat_replicate_zero (ds : List Nat) : rowFlat ds (List.replicate ds.length 0) = 0 := by
  induction ds with
  | nil => simp [rowFlat]
  | cons d ds ih => simp [List.replicate_succ, rowFlat, ih]

/-- **the n-D branch**: the moves are exactly the pairs (row-major offset, column-major offset) of the box -/
theorem mem_odoMoves (dims : List Nat) (m : Nat × Nat) :
    m ∈ odoMoves dims ↔ ∃ i, Box dims i ∧ m = (rowFlat dims i, colFlat dims i) := by
  unfold odoMoves
  by_cases hpos : 0 < prod dims
  · have hb0 : Box dims.reverse (List.replicate dims.length 0) := by
      have := box_replicate_zero (ds := dims.reverse) (by rw [prod_reverse]; exact hpos)
      simpa using this
    have hv0 : rowFlat dims.reverse (List.replicate dims.length 0) = 0 := by
      have := rowFlat_replicate_zero dims.reverse
      simpa using this
    have hloop := odoLoop_eq (strides dims).reverse dims.reverse (prod dims) (List.replicate dims.length 0) 0
      hb0 hv0 (by rw [prod_reverse]; omega)
    rw [prod_reverse] at hloop
    rw [hloop]
    simp only [Nat.sub_zero, List.mem_map, List.mem_range'_1, Nat.zero_le, Nat.zero_add, true_and]
    constructor
    · rintro ⟨c, hc, rfl⟩
      have hu := unflatRow_spec (ds := dims.reverse) (p := c) (by rw [prod_reverse]; exact hc)
      have hbi := box_reverse' hu.1
      refine ⟨(unflatRow dims.reverse c).reverse, hbi, ?_⟩
      have hl := hbi.length_eq
      have hd := dot_reverse (xs := strides dims) (ys := (unflatRow dims.reverse c).reverse)
        (by rw [strides_length]; exact hl)
      rw [List.reverse_reverse] at hd
      rw [colFlat_eq_rowFlat_reverse hl, List.reverse_reverse, hu.2, rowFlat_eq_dot, hd]
    · rintro ⟨i, hi, rfl⟩
      have hl := hi.length_eq
      refine ⟨colFlat dims i, colFlat_lt hi, ?_⟩
      have hbr := (box_reverse hl).2 hi
      have hu := unflatRow_spec (ds := dims.reverse) (p := colFlat dims i) (by rw [prod_reverse]; exact colFlat_lt hi)
      have : unflatRow dims.reverse (colFlat dims i) = i.reverse :=
        rowFlat_inj hu.1 hbr (by rw [hu.2, colFlat_eq_rowFlat_reverse hl])
      have hd := dot_reverse (xs := strides dims) (ys := i) (by rw [strides_length]; exact hl)
      rw [this, rowFlat_eq_dot, hd]
  · have h0 : prod dims = 0 := by omega
    rw [h0]
    simp only [odoLoop]
    constructor
    · intro h; simp at h
    · rintro ⟨i, hi, -⟩
      have := rowFlat_lt hi; omega

/-- the 2-D branch -/
theorem mem_loop2 (M N : Nat) (m : Nat × Nat) :
    m ∈ loop2 M N ↔ ∃ i, Box [M, N] i ∧ m = (rowFlat [M, N] i, colFlat [M, N] i) := by
  simp only [loop2, List.mem_flatMap, List.mem_map, List.mem_range]
  constructor
  · rintro ⟨i, hi, j, hj, rfl⟩
    exact ⟨[i, j], by simp [Box, hi, hj], by simp [rowFlat, colFlat, prod, Nat.mul_comm, Nat.add_comm]⟩
  · rintro ⟨idx, hb, rfl⟩
    match idx, hb with
    | [i, j], hb =>
      simp only [Box, and_true] at hb
      exact ⟨i, hb.1, j, hb.2, by simp [rowFlat, colFlat, prod, Nat.mul_comm, Nat.add_comm]⟩

/-- **every rank**: the moves of `tocolumnmajor` are exactly the pairs (row-major offset, column-major offset) -/
theorem mem_toColumnMajorMoves (dims : List Nat) (m : Nat × Nat) :
    m ∈ toColumnMajorMoves dims ↔ ∃ i, Box dims i ∧ m = (rowFlat dims i, colFlat dims i) := by
  match dims with
  | [] =>
    simp only [toColumnMajorMoves, List.mem_singleton]
    constructor
    · rintro rfl; exact ⟨[], by simp [Box], by simp [rowFlat, colFlat]⟩
    · rintro ⟨i, hb, rfl⟩
      match i, hb with
      | [], _ => simp [rowFlat, colFlat]
  | [n] =>
    simp only [toColumnMajorMoves, List.mem_map, List.mem_range]
    constructor
    · rintro ⟨p, hp, rfl⟩; exact ⟨[p], by simp [Box, hp], by simp [rowFlat, colFlat, prod]⟩
    · rintro ⟨i, hb, rfl⟩
      match i, hb with
      | [p], hb => simp only [Box, and_true] at hb; exact ⟨p, hb, by simp [rowFlat, colFlat, prod]⟩
  | [M, N] => exact mem_loop2 M N m
  | d0 :: d1 :: d2 :: ds => exact mem_odoMoves _ m

theorem mem_toRowMajorMoves (dims : List Nat) (m : Nat × Nat) :
    m ∈ toRowMajorMoves dims ↔ ∃ i, Box dims i ∧ m = (colFlat dims i, rowFlat dims i) := by
  have key : m ∈ (toColumnMajorMoves dims).map (fun m => (m.2, m.1)) ↔ ∃ i, Box dims i ∧ m = (colFlat dims i, rowFlat dims i) := by
    simp only [List.mem_map]
    constructor
    · rintro ⟨m', hm', rfl⟩
      obtain ⟨i, hi, rfl⟩ := (mem_toColumnMajorMoves dims m').1 hm'
      exact ⟨i, hi, rfl⟩
    · rintro ⟨i, hi, rfl⟩
      exact ⟨(rowFlat dims i, colFlat dims i), (mem_toColumnMajorMoves dims _).2 ⟨i, hi, rfl⟩, rfl⟩
  match dims with
  | [] => simpa [toRowMajorMoves, toColumnMajorMoves] using key
  | [n] =>
    have : toRowMajorMoves [n] = (toColumnMajorMoves [n]).map (fun m => (m.2, m.1)) := by
      simp [toRowMajorMoves, toColumnMajorMoves, Function.comp_def]
    rw [this]; exact key
  | [M, N] => exact key
  | d0 :: d1 :: d2 :: ds => exact key

/-! ### memory after a list of moves that is a function of the destination -/

variable {α : Type}

theorem applyWrites_functional (ws : List (Nat × α)) (m : Nat → α) (p : Nat) (v : α)
    (hmem : (p, v) ∈ ws) (huniq : ∀ v', (p, v') ∈ ws → v' = v) : applyWrites ws m p = v := by
  rw [applyWrites_eq_lastWrite]
  cases h : lastWrite ws p with
  | none => exact absurd rfl ((lastWrite_none_iff ws p).1 h _ hmem)
  | some v' => simp [huniq v' (lastWrite_some_mem h)]

end Fastor.Layout
