import FastorModel.Proofs.Views
import FastorModel.Core.Writes
/-
  Lemmas for C04, part 2: row-major offsets, scalar indexing, the un-flatten loop, the odometer and
  the evaluators of the views against the documented element of a slice.
-/
namespace Fastor.Views

/-! ### row-major offsets -/

/-- Horner evaluation `((i0*d1 + i1)*d2 + i2)…`: the offset of the element with multi-index `idx` -/
def horner : Nat → List Nat → List Nat → Nat
  | acc, d :: ds, i :: is => horner (acc * d + i) ds is
  | acc, _, _ => acc

def rowMajor (dims idx : List Nat) : Nat := horner 0 dims idx

/-- `idx` is a multi-index below `dims` -/
def InRange : List Nat → List Nat → Prop
  | d :: ds, i :: is => i < d ∧ InRange ds is
  | [], [] => True
  | _, _ => False

def dotNat : List Nat → List Nat → Nat
  | p :: ps, i :: is => p * i + dotNat ps is
  | _, _ => 0

theorem horner_eq (acc : Nat) (ds is : List Nat) (h : ds.length = is.length) :
    horner acc ds is = acc * lprod ds + dotNat (prods ds) is := by
  induction ds generalizing acc is with
  | nil => cases is <;> simp [horner, lprod, prods, dotNat]
  | cons d ds ih =>
    cases is with
    | nil => simp at h
    | cons i is =>
      simp only [List.length_cons, Nat.add_right_cancel_iff] at h
      simp only [horner, lprod, prods, dotNat]
      rw [ih _ _ h]; ring

theorem rowMajor_cons (d : Nat) (ds : List Nat) (i : Nat) (is : List Nat) (h : ds.length = is.length) :
    rowMajor (d :: ds) (i :: is) = i * lprod ds + rowMajor ds is := by
  unfold rowMajor
  simp only [horner]
  rw [horner_eq _ _ _ h, horner_eq 0 _ _ h]; ring

theorem inRange_length {ds is : List Nat} (h : InRange ds is) : ds.length = is.length := by
  induction ds generalizing is with
  | nil => cases is <;> simp_all [InRange]
  | cons d ds ih =>
    cases is with
    | nil => simp [InRange] at h
    | cons i is => simp only [InRange] at h; simp [ih h.2]

theorem rowMajor_lt {ds is : List Nat} (h : InRange ds is) : rowMajor ds is < lprod ds := by
  induction ds generalizing is with
  | nil => cases is <;> simp_all [InRange, rowMajor, horner, lprod]
  | cons d ds ih =>
    cases is with
    | nil => simp [InRange] at h
    | cons i is =>
      simp only [InRange] at h
      rw [rowMajor_cons _ _ _ _ (inRange_length h.2)]
      have := ih h.2
      simp only [lprod]
      calc i * lprod ds + rowMajor ds is < i * lprod ds + lprod ds := by omega
        _ = (i + 1) * lprod ds := by ring
        _ ≤ d * lprod ds := Nat.mul_le_mul_right _ h.1

/-! ### scalar indexing -/

theorem dotProds_cast (ps is : List Nat) : dotProds ps (is.map (fun (i : Nat) => (i : Int))) = (dotNat ps is : Nat) := by
  induction ps generalizing is with
  | nil => cases is <;> simp [dotProds, dotNat]
  | cons p ps ih =>
    cases is with
    | nil => simp [dotProds, dotNat]
    | cons i is => simp [dotProds, dotNat, ih]

/-- each argument is a valid (possibly negative) index of its axis -/
def ValidArgs : List Nat → List Int → Prop
  | d :: ds, a :: as => -(d : Int) ≤ a ∧ a < d ∧ ValidArgs ds as
  | [], [] => True
  | _, _ => False

/-- the documented element: negative indices count from the end -/
def wrapNat (d : Nat) (a : Int) : Nat := (if a < 0 then (d : Int) + a else a).toNat

theorem wrap_valid {ds : List Nat} {as : List Int} (h : ValidArgs ds as) :
    List.zipWith wrapIdx ds as = (List.zipWith wrapNat ds as).map (fun (i : Nat) => (i : Int)) ∧
    InRange ds (List.zipWith wrapNat ds as) ∧ inBounds ds (List.zipWith wrapIdx ds as) = true := by
  induction ds generalizing as with
  | nil => cases as <;> simp_all [ValidArgs, InRange, inBounds]
  | cons d ds ih =>
    cases as with
    | nil => simp [ValidArgs] at h
    | cons a as =>
      simp only [ValidArgs] at h
      obtain ⟨h1, h2, h3⟩ := h
      obtain ⟨i1, i2, i3⟩ := ih h3
      have hw : wrapIdx d a = ((wrapNat d a : Nat) : Int) := by
        unfold wrapIdx wrapNat; split <;> omega
      have hlt : wrapNat d a < d := by unfold wrapNat; split <;> omega
      refine ⟨?_, ?_, ?_⟩
      · simp only [List.zipWith_cons_cons, List.map_cons, hw, i1]
      · simp only [List.zipWith_cons_cons, InRange]; exact ⟨hlt, i2⟩
      · simp only [List.zipWith_cons_cons, inBounds, hw, i3, Bool.and_true, Bool.and_eq_true, decide_eq_true_eq]
        omega

theorem scalarIndex_generic (chk : Bool) (ds : List Nat) (as : List Int) (h : ValidArgs ds as) :
    scalarIndex chk ds as = some (dotProds (prods ds) (List.zipWith wrapIdx ds as)) := by
  obtain ⟨_, _, hb⟩ := wrap_valid h
  unfold scalarIndex
  simp only [hb, Bool.not_true, Bool.and_false, Bool.false_eq_true, if_false]
  -- the four written-out ranks agree with the generic sum
  match ds, as, h with
  | [], [], _ => rfl
  | [d0], [a0], _ => simp [prods, lprod, dotProds]
  | [d0, d1], [a0, a1], _ => simp [prods, lprod, dotProds]; ring
  | [d0, d1, d2], [a0, a1, a2], _ => simp [prods, lprod, dotProds]; ring
  | [d0, d1, d2, d3], [a0, a1, a2, a3], _ => simp [prods, lprod, dotProds]; ring
  | _ :: _ :: _ :: _ :: _ :: _, _ :: _ :: _ :: _ :: _ :: _, _ => rfl
  | [], _ :: _, h => simp [ValidArgs] at h
  | _ :: _, [], h => simp [ValidArgs] at h
  | [_], _ :: _ :: _, h => simp [ValidArgs] at h
  | _ :: _ :: _, [_], h => simp [ValidArgs] at h
  | [_, _], _ :: _ :: _ :: _, h => simp [ValidArgs] at h
  | _ :: _ :: _ :: _, [_, _], h => simp [ValidArgs] at h
  | [_, _, _], _ :: _ :: _ :: _ :: _, h => simp [ValidArgs] at h
  | _ :: _ :: _ :: _ :: _, [_, _, _], h => simp [ValidArgs] at h
  | [_, _, _, _], _ :: _ :: _ :: _ :: _ :: _, h => simp [ValidArgs] at h
  | _ :: _ :: _ :: _ :: _ :: _, [_, _, _, _], h => simp [ValidArgs] at h

theorem scalarIndex_valid (chk : Bool) (ds : List Nat) (as : List Int) (h : ValidArgs ds as) :
    scalarIndex chk ds as = some ((rowMajor ds (List.zipWith wrapNat ds as) : Nat) : Int) := by
  rw [scalarIndex_generic chk ds as h]
  obtain ⟨hw, hr, _⟩ := wrap_valid h
  rw [hw, dotProds_cast]
  unfold rowMajor
  rw [horner_eq 0 _ _ (inRange_length hr)]
  simp

/-- with the bounds assertion compiled in, an index outside `[-d, d)` on an axis of a tensor whose
    rank matches is rejected before any access -/
theorem scalarIndex_checked_oob (ds : List Nat) (as : List Int)
    (h : inBounds ds (List.zipWith wrapIdx ds as) = false) : scalarIndex true ds as = none := by
  unfold scalarIndex
  simp [h]

/-! ### the documented element of a slice, and the index sum of the evaluators -/

/-- documented parent offset of element `j` of the slice: `A(first0 + j0*step0, first1 + j1*step1, …)` -/
def specOff (pdims : List Nat) (axs : List Ax) (j : List Nat) : Nat :=
  rowMajor pdims (List.zipWith (fun (a : Ax) i => a.first + i * a.step) axs j)

theorem flatIdx_eq (pd : List Nat) (axs : List Ax) (j : List Nat)
    (h1 : pd.length = axs.length) (h2 : axs.length = j.length) :
    flatIdx (prods pd) axs j = specOff pd axs j := by
  induction pd generalizing axs j with
  | nil =>
    cases axs <;> cases j <;> simp_all [flatIdx, prods, specOff, rowMajor, horner]
  | cons d ds ih =>
    cases axs with
    | nil => simp at h1
    | cons a axs =>
      cases j with
      | nil => simp at h2
      | cons i is =>
        simp only [List.length_cons, Nat.add_right_cancel_iff] at h1 h2
        unfold specOff
        simp only [prods, flatIdx, List.zipWith_cons_cons]
        rw [rowMajor_cons _ _ _ _ (by simp [h1, h2]), ih axs is h1 h2]
        unfold specOff; ring

/-! ### the un-flatten loop -/

theorem inRange_pos {ds is : List Nat} (h : InRange ds is) : ∀ d ∈ ds, 0 < d := by
  induction ds generalizing is with
  | nil => simp
  | cons d ds ih =>
    cases is with
    | nil => simp [InRange] at h
    | cons i is =>
      simp only [InRange] at h
      intro x hx
      rcases List.mem_cons.1 hx with rfl | hx
      · omega
      · exact ih h.2 x hx

theorem lprod_pos {ds : List Nat} (h : ∀ d ∈ ds, 0 < d) : 0 < lprod ds := by
  induction ds with
  | nil => simp [lprod]
  | cons d ds ih =>
    simp only [lprod]
    exact Nat.mul_pos (h d (by simp)) (ih (fun x hx => h x (by simp [hx])))

theorem unflat_add_mul (ds : List Nat) (hpos : ∀ d ∈ ds, 0 < d) (x k : Nat) :
    unflat ds (lprod ds) (x + k * lprod ds) = unflat ds (lprod ds) x := by
  induction ds generalizing k with
  | nil => simp [unflat]
  | cons d ds ih =>
    have hd : 0 < d := hpos d (by simp)
    have hP : 0 < lprod ds := lprod_pos (fun y hy => hpos y (by simp [hy]))
    simp only [unflat, lprod]
    rw [Nat.mul_div_cancel_left _ hd]
    have e1 : x + k * (d * lprod ds) = x + (k * d) * lprod ds := by ring
    rw [e1, Nat.add_mul_div_right _ _ hP, Nat.add_mul_mod_self_right]
    rw [ih (fun y hy => hpos y (by simp [hy])) (k * d)]

/-- the loop recovers the multi-index of a row-major position -/
theorem unflat_rowMajor {ds j : List Nat} (h : InRange ds j) : unflat ds (lprod ds) (rowMajor ds j) = j := by
  induction ds generalizing j with
  | nil => cases j <;> simp_all [InRange, unflat]
  | cons d ds ih =>
    cases j with
    | nil => simp [InRange] at h
    | cons i is =>
      have hpos := inRange_pos h
      simp only [InRange] at h
      have hP : 0 < lprod ds := lprod_pos (fun y hy => hpos y (by simp [hy]))
      have hm := rowMajor_lt h.2
      rw [rowMajor_cons _ _ _ _ (inRange_length h.2)]
      simp only [unflat, lprod]
      rw [Nat.mul_div_cancel_left _ (by omega : 0 < d)]
      have e1 : i * lprod ds + rowMajor ds is = rowMajor ds is + i * lprod ds := by ring
      rw [e1, Nat.add_mul_div_right _ _ hP, Nat.div_eq_of_lt hm, Nat.zero_add, Nat.mod_eq_of_lt h.1]
      rw [unflat_add_mul ds (fun y hy => hpos y (by simp [hy])), ih h.2]

/-! ### well-formed views and `eval_s` / `eval` -/

/-- the class matches the rank (what the overloads of `operator()` guarantee) -/
def View.WF (v : View) : Prop :=
  v.pdims.length = v.axs.length ∧
  match v.cls with
  | .dyn1 => v.axs.length = 1
  | .fix1 => v.axs.length = 1
  | .dyn2 => v.axs.length = 2
  | .fix2 => v.axs.length = 2
  | _ => True

theorem vdims_length (axs : List Ax) : (vdims axs).length = axs.length := by simp [vdims]

/-- **flat scalar evaluator**: position `rowMajor dims j` of the evaluated slice reads the documented element `j` -/
theorem evalS_correct (v : View) (hwf : v.WF) (j : List Nat) (hj : InRange (vdims v.axs) j) :
    v.evalS (rowMajor (vdims v.axs) j) = specOff v.pdims v.axs j := by
  obtain ⟨cls, pd, axs⟩ := v
  obtain ⟨hlen, hcls⟩ := hwf
  simp only at hlen hcls hj ⊢
  have hjl := inRange_length hj
  rw [vdims_length] at hjl
  have generic : flatIdx (prods pd) axs (unflat (vdims axs) (View.size ⟨cls, pd, axs⟩) (rowMajor (vdims axs) j))
      = specOff pd axs j := by
    show flatIdx (prods pd) axs (unflat (vdims axs) (lprod (vdims axs)) (rowMajor (vdims axs) j)) = _
    rw [unflat_rowMajor hj, flatIdx_eq pd axs j hlen hjl]
  cases cls
  case dynN => exact generic
  case fixN => exact generic
  case dyn1 =>
    match axs, pd, j, hlen, hcls, hjl, hj with
    | [a], [n], [i], _, _, _, _ =>
      simp [View.evalS, specOff, rowMajor, horner, vdims]; ring
  case fix1 =>
    match axs, pd, j, hlen, hcls, hjl, hj with
    | [a], [n], [i], _, _, _, _ =>
      simp [View.evalS, specOff, rowMajor, horner, vdims]; ring
  case dyn2 =>
    match axs, pd, j, hlen, hcls, hjl, hj with
    | [a0, a1], [m, n], [i, k], _, _, _, hj =>
      simp only [vdims, List.map, InRange] at hj
      have hd : 0 < a1.dim := by omega
      simp only [View.evalS, specOff, rowMajor, horner, vdims, List.map, List.zipWith_cons_cons, List.zipWith_nil_right]
      have e1 : (0 * a0.dim + i) * a1.dim + k = k + i * a1.dim := by ring
      rw [e1, Nat.add_mul_div_right _ _ hd, Nat.add_mul_mod_self_right, Nat.div_eq_of_lt hj.2.1, Nat.mod_eq_of_lt hj.2.1]
      ring
  case fix2 =>
    match axs, pd, j, hlen, hcls, hjl, hj with
    | [a0, a1], [m, n], [i, k], _, _, _, hj =>
      simp only [vdims, List.map, InRange] at hj
      have hd : 0 < a1.dim := by omega
      simp only [View.evalS, specOff, rowMajor, horner, vdims, List.map, List.zipWith_cons_cons, List.zipWith_nil_right]
      have e1 : (0 * a0.dim + i) * a1.dim + k = k + i * a1.dim := by ring
      rw [e1, Nat.add_mul_div_right _ _ hd, Nat.add_mul_mod_self_right, Nat.div_eq_of_lt hj.2.1, Nat.mod_eq_of_lt hj.2.1]
      ring

theorem evalV_length (v : View) (V idx : Nat) : (v.evalV V idx).length = V := by
  unfold View.evalV
  split <;> simp

/-- **flat vector evaluator**: lane `l` of `eval(idx)` is `eval_s(idx + l)` (strided gather for the 1-D
    views, per-lane un-flatten and index gather for the others) -/
theorem evalV_lane (v : View) (hwf : v.WF) (V idx l : Nat) (hl : l < V) :
    (v.evalV V idx)[l]? = some (v.evalS (idx + l)) := by
  obtain ⟨cls, pd, axs⟩ := v
  obtain ⟨hlen, hcls⟩ := hwf
  simp only at hlen hcls
  cases cls
  case dyn1 =>
    match axs, pd, hlen, hcls with
    | [a], [n], _, _ => simp [View.evalV, View.evalS, hl]; ring
  case fix1 =>
    match axs, pd, hlen, hcls with
    | [a], [n], _, _ => simp [View.evalV, View.evalS, hl]; ring
  all_goals simp [View.evalV, hl]

/-! ### the two-index forms (2-D views) -/

def is2D : Cls → Prop
  | .dyn2 => True
  | .fix2 => True
  | _ => False

/-- **`eval_s(i,j)`** of a 2-D view reads the documented element `(i,j)` -/
theorem eval2S_correct (cls : Cls) (h2 : is2D cls) (m n : Nat) (a0 a1 : Ax) (i j : Nat) :
    (View.mk cls [m, n] [a0, a1]).eval2S i j = specOff [m, n] [a0, a1] [i, j] := by
  cases cls <;> simp only [is2D] at h2 <;>
    (simp [View.eval2S, specOff, rowMajor, horner]; ring)

/-- **`eval(i,j)`**: lane `l` is `eval_s(i,j+l)` on both routes, and the route is the contiguous load
    exactly when the last step is 1 -/
theorem eval2V_lane (cls : Cls) (h2 : is2D cls) (m n : Nat) (a0 a1 : Ax) (V i j l : Nat) (hl : l < V) :
    let r := (View.mk cls [m, n] [a0, a1]).eval2V V i j
    r.2[l]? = some ((View.mk cls [m, n] [a0, a1]).eval2S i (j + l)) ∧ (r.1 = true ↔ a1.step = 1) := by
  cases cls <;> simp only [is2D] at h2 <;>
    (simp only [View.eval2V, View.eval2S]
     by_cases hs : a1.step = 1
     · simp [hs, hl]; ring
     · simp [hs, hl]; ring)

theorem eval2V_length (cls : Cls) (h2 : is2D cls) (m n : Nat) (a0 a1 : Ax) (V i j : Nat) :
    ((View.mk cls [m, n] [a0, a1]).eval2V V i j).2.length = V := by
  cases cls <;> simp only [is2D] at h2 <;>
    (simp only [View.eval2V]; split <;> simp)

/-! ### `teval_s` and the three routes of `teval` -/

/-- **`teval_s(as)`** reads the documented element `as` -/
theorem tevalS_correct (v : View) (hwf : v.WF) (as : List Nat) (hl : v.axs.length = as.length) :
    v.tevalS as = specOff v.pdims v.axs as := by
  obtain ⟨cls, pd, axs⟩ := v
  obtain ⟨hlen, hcls⟩ := hwf
  simp only at hlen hcls hl ⊢
  have generic : flatIdx (prods pd) axs as = specOff pd axs as := flatIdx_eq pd axs as hlen hl
  cases cls
  case dynN => exact generic
  case fixN => exact generic
  case dyn1 =>
    match axs, pd, as, hlen, hcls, hl with
    | [a], [n], [i], _, _, _ => simp [View.tevalS, specOff, rowMajor, horner]; ring
  case fix1 =>
    match axs, pd, as, hlen, hcls, hl with
    | [a], [n], [i], _, _, _ => simp [View.tevalS, specOff, rowMajor, horner]; ring
  case dyn2 =>
    match axs, pd, as, hlen, hcls, hl with
    | [a0, a1], [m, n], [i, k], _, _, _ => simp [View.tevalS, specOff, rowMajor, horner]; ring
  case fix2 =>
    match axs, pd, as, hlen, hcls, hl with
    | [a0, a1], [m, n], [i, k], _, _, _ => simp [View.tevalS, specOff, rowMajor, horner]; ring

/-- add `l` to the last component of a multi-index -/
def bumpLast : List Nat → Nat → List Nat
  | [], _ => []
  | [a], l => [a + l]
  | a :: as, l => a :: bumpLast as l

theorem bumpLast_length (as : List Nat) (l : Nat) : (bumpLast as l).length = as.length := by
  induction as with
  | nil => rfl
  | cons a as ih =>
    cases as with
    | nil => rfl
    | cons b bs => simp only [bumpLast, List.length_cons] at ih ⊢; omega

theorem specOff_cons (d : Nat) (ds : List Nat) (a : Ax) (axs : List Ax) (i : Nat) (is : List Nat)
    (h1 : ds.length = axs.length) (h2 : axs.length = is.length) :
    specOff (d :: ds) (a :: axs) (i :: is) = (a.first + i * a.step) * lprod ds + specOff ds axs is := by
  unfold specOff
  rw [List.zipWith_cons_cons, rowMajor_cons _ _ _ _ (by rw [List.length_zipWith]; omega)]

theorem specOff_bumpLast (pd : List Nat) (axs : List Ax) (as : List Nat) (l : Nat)
    (h1 : pd.length = axs.length) (h2 : axs.length = as.length) (hne : as ≠ []) :
    specOff pd axs (bumpLast as l) = specOff pd axs as + l * (lastAx axs).step := by
  induction pd generalizing axs as with
  | nil =>
    cases axs with
    | nil => cases as with
      | nil => exact absurd rfl hne
      | cons _ _ => simp at h2
    | cons _ _ => simp at h1
  | cons d ds ih =>
    cases axs with
    | nil => simp at h1
    | cons a axs =>
      cases as with
      | nil => exact absurd rfl hne
      | cons i is =>
        simp only [List.length_cons, Nat.add_right_cancel_iff] at h1 h2
        cases is with
        | nil =>
          have ha : axs = [] := List.eq_nil_of_length_eq_zero (by simpa using h2)
          have hd : ds = [] := List.eq_nil_of_length_eq_zero (by simpa [ha] using h1)
          subst ha; subst hd
          simp [bumpLast, specOff, rowMajor, horner, lastAx]; ring
        | cons i2 is2 =>
          cases axs with
          | nil => simp at h2
          | cons a2 axs2 =>
            have hb : bumpLast (i :: i2 :: is2) l = i :: bumpLast (i2 :: is2) l := rfl
            have hlen2 : (bumpLast (i2 :: is2) l).length = (i2 :: is2).length := bumpLast_length _ _
            rw [hb, specOff_cons _ _ _ _ _ _ h1 (by rw [hlen2]; exact h2), specOff_cons _ _ _ _ _ _ h1 h2,
                ih (a2 :: axs2) (i2 :: is2) h1 h2 (by simp)]
            have hla : lastAx (a :: a2 :: axs2) = lastAx (a2 :: axs2) := by simp [lastAx]
            rw [hla]; ring

theorem route_contiguous_step (v : View) (hwf : v.WF) (V : Nat) (h : v.route V = .contiguous) :
    (lastAx v.axs).step = 1 := by
  obtain ⟨cls, pd, axs⟩ := v
  obtain ⟨hlen, hcls⟩ := hwf
  simp only at hlen hcls h ⊢
  have generic : routeND axs V = .contiguous → (lastAx axs).step = 1 := by
    unfold routeND
    simp only
    split
    · split
      · intro _; assumption
      · intro h; cases h
    · intro h; cases h
  cases cls
  case dynN => exact generic (by simpa [View.route] using h)
  case fixN => exact generic (by simpa [View.route] using h)
  case dyn1 =>
    match axs, hcls with
    | [a], _ => simp [View.route] at h
  case fix1 =>
    match axs, hcls with
    | [a], _ => simp [View.route] at h
  case dyn2 =>
    match axs, hcls with
    | [a0, a1], _ =>
      simp only [View.route] at h
      split at h
      · simpa [lastAx]
      · cases h
  case fix2 =>
    match axs, hcls with
    | [a0, a1], _ =>
      simp only [View.route] at h
      split at h
      · simpa [lastAx]
      · cases h

/-- **`teval(as)`, contiguous-load and strided-gather routes**: lane `l` reads the documented element
    `(as_0, …, as_last + l)` — the two routes agree with each other and with `teval_s` -/
theorem tevalV_lane_row (v : View) (hwf : v.WF) (V : Nat) (as : List Nat) (hl : v.axs.length = as.length)
    (hne : as ≠ []) (l : Nat) (hlV : l < V) (hr : v.route V ≠ .gather) :
    (v.tevalV V as)[l]? = some (specOff v.pdims v.axs (bumpLast as l)) := by
  rw [specOff_bumpLast _ _ _ _ hwf.1 hl hne, ← tevalS_correct v hwf as hl]
  unfold View.tevalV
  cases hroute : v.route V
  case gather => exact absurd hroute hr
  case contiguous =>
    simp only [List.getElem?_map, List.getElem?_range hlV, Option.map_some]
    rw [route_contiguous_step v hwf V hroute]; simp
  case strided =>
    simp only [List.getElem?_map, List.getElem?_range hlV, Option.map_some]

/-- the per-lane gather route computes each lane with the same index sum as `teval_s`, at the
    multi-index reached by `l` unit steps of the odometer -/
theorem tevalV_lane_gather (v : View) (V : Nat) (as : List Nat) (l : Nat) (hlV : l < V)
    (hr : v.route V = .gather) :
    (v.tevalV V as)[l]? = some (flatIdx (prods v.pdims) v.axs (odoIter (vdims v.axs) l as)) := by
  unfold View.tevalV
  rw [hr]
  simp only [List.getElem?_map, List.getElem?_range hlV, Option.map_some]

/-! ### consumer loops: vector body over `ROUND_DOWN(n,V)` followed by a scalar tail -/

theorem mem_laneWrites {dst : Nat} {offs : List Nat} {w : Nat × Nat} (h : w ∈ laneWrites dst offs) :
    ∃ l, l < offs.length ∧ w.1 = dst + l ∧ offs[l]? = some w.2 := by
  unfold laneWrites at h
  simp only [List.mem_map] at h
  obtain ⟨⟨o, l⟩, hol, rfl⟩ := h
  obtain ⟨k, hk, hk2⟩ := List.getElem_of_mem hol
  have hk' : k < offs.length := by simp at hk; omega
  rw [List.getElem_zip] at hk2
  have e1 : offs[k] = o := congrArg Prod.fst hk2
  have e2 : (List.range offs.length)[k]'(by simpa using hk') = l := congrArg Prod.snd hk2
  simp at e2
  subst e2
  exact ⟨k, hk', rfl, by rw [List.getElem?_eq_getElem hk', e1]⟩

theorem laneWrites_mem {dst : Nat} {offs : List Nat} {l o : Nat} (h : offs[l]? = some o) :
    (dst + l, o) ∈ laneWrites dst offs := by
  unfold laneWrites
  simp only [List.mem_map]
  have hl : l < offs.length := by
    rcases Nat.lt_or_ge l offs.length with h' | h'
    · exact h'
    · rw [List.getElem?_eq_none h'] at h; cases h
  refine ⟨(o, l), ?_, rfl⟩
  rw [List.mem_iff_getElem?]
  refine ⟨l, ?_⟩
  rw [List.getElem?_zip_eq_some]
  exact ⟨h, by simp [hl]⟩

/-- a loop `for (j=0; j<ROUND_DOWN(n,V); j+=V) store V lanes at b+j;  for (; j<n; ++j) store one` whose
    lanes agree with the scalar evaluator writes exactly the positions `b ≤ p < b+n`, position `b+j`
    receiving `sF j` -/
theorem vecTail_exact (V n b : Nat) (hV : 0 < V) (vecF : Nat → List Nat) (sF : Nat → Nat) (f : Nat → Nat)
    (hlen : ∀ j, (vecF j).length = V)
    (hlane : ∀ j l, l < V → (vecF j)[l]? = some (sF (j + l)))
    (hf : ∀ j, j < n → sF j = f (b + j)) :
    WritesExactly
      ((forRange 0 (roundDownV n V) V).flatMap (fun j => laneWrites (b + j) (vecF j)) ++
       (forRange (forExit 0 (roundDownV n V) V) n 1).map (fun j => (b + j, sF j)))
      (fun p => b ≤ p ∧ p < b + n) f := by
  unfold roundDownV
  have hR : n / V * V ≤ n := Nat.div_mul_le_self _ _
  have hexit : forExit 0 (n / V * V) V = n / V * V :=
    forExit_of_dvd hV (Nat.zero_le _) (by simp [Nat.dvd_mul_left])
  rw [hexit]
  apply writesExactly_of_all_right
  · intro w hw
    rcases List.mem_append.1 hw with h | h
    · obtain ⟨j, hj, hw⟩ := List.mem_flatMap.1 h
      obtain ⟨t, rfl, hlt⟩ := (mem_forRange hV).1 hj
      obtain ⟨l, hl, hw1, hw2⟩ := mem_laneWrites hw
      rw [hlen] at hl
      rw [hlane _ _ hl] at hw2
      have hle : (t + 1) * V ≤ n / V * V := by
        apply Nat.mul_le_mul_right
        have : t * V < n / V * V := by omega
        exact Nat.lt_of_mul_lt_mul_right this
      rw [Nat.add_mul] at hle
      have hjl : 0 + t * V + l < n := by omega
      refine ⟨⟨by omega, by omega⟩, ?_⟩
      rw [hw1, ← Option.some.inj hw2, hf _ hjl]
      congr 1; omega
    · simp only [List.mem_map] at h
      obtain ⟨j, hj, rfl⟩ := h
      obtain ⟨t, rfl, hlt⟩ := (mem_forRange (by omega : 0 < 1)).1 hj
      exact ⟨⟨by omega, by omega⟩, hf _ hlt⟩
  · intro p ⟨hp1, hp2⟩
    obtain ⟨q, rfl⟩ : ∃ q, p = b + q := ⟨p - b, by omega⟩
    have hq : q < n := by omega
    by_cases hqR : q < n / V * V
    · have hq1 : q / V * V ≤ q := Nat.div_mul_le_self _ _
      have hr : q - q / V * V < V := by
        have := Nat.lt_div_mul_add (a := q) hV; omega
      refine ⟨(b + q, f (b + q)), ?_, rfl⟩
      apply List.mem_append_left
      apply List.mem_flatMap.2
      refine ⟨0 + q / V * V, (mem_forRange hV).2 ⟨q / V, rfl, by omega⟩, ?_⟩
      have hlanes := hlane (0 + q / V * V) (q - q / V * V) hr
      have hpe : 0 + q / V * V + (q - q / V * V) = q := by omega
      rw [hpe, hf _ hq] at hlanes
      have := laneWrites_mem (dst := b + (0 + q / V * V)) hlanes
      have hpe2 : b + (0 + q / V * V) + (q - q / V * V) = b + q := by omega
      rw [hpe2] at this
      exact this
    · refine ⟨(b + q, f (b + q)), ?_, rfl⟩
      apply List.mem_append_right
      simp only [List.mem_map]
      exact ⟨q, (mem_forRange (by omega : 0 < 1)).2 ⟨q - n / V * V, by omega, hq⟩, by rw [hf _ hq]⟩

/-- **`trivial_assign*(dst, view)`** (1-D views, and every view on the `+=`-family and inside flat
    expressions): exactly the positions below `size()` are written, position `p` from `eval_s(p)` -/
theorem trivialWrites_exact (v : View) (hwf : v.WF) (V : Nat) (hV : 0 < V) :
    WritesExactly (v.trivialWrites V) (fun p => p < v.size) (fun p => v.evalS p) := by
  have h := vecTail_exact V v.size 0 hV (fun j => v.evalV V j) (fun j => v.evalS j) (fun p => v.evalS p)
    (fun j => evalV_length v V j) (fun j l hl => evalV_lane v hwf V j l hl) (fun j _ => by simp)
  unfold View.trivialWrites
  simp only [Nat.zero_add] at h
  exact writesExactly_congr h (by intro p; simp)

/-- **the two-index constructor loop** over a 2-D view: exactly the positions below `M*N` are written,
    position `i*N + j` from `eval_s(i,j)` -/
theorem ctor2Writes_exact (cls : Cls) (h2 : is2D cls) (m n : Nat) (a0 a1 : Ax) (V M N : Nat) (hV : 0 < V)
    (hN : 0 < N) :
    WritesExactly ((View.mk cls [m, n] [a0, a1]).ctor2Writes V M N) (fun p => p < M * N)
      (fun p => (View.mk cls [m, n] [a0, a1]).eval2S (p / N) (p % N)) := by
  set v := View.mk cls [m, n] [a0, a1] with hv
  unfold View.ctor2Writes
  have hrow : ∀ i ∈ List.range M, WritesExactly (v.ctor2Row V N i) (fun p => i * N ≤ p ∧ p < i * N + N)
      (fun p => v.eval2S (p / N) (p % N)) := by
    intro i _
    unfold View.ctor2Row
    apply vecTail_exact V N (i * N) hV (fun j => (v.eval2V V i j).2) (fun j => v.eval2S i j)
    · intro j; exact eval2V_length cls h2 m n a0 a1 V i j
    · intro j l hl; exact (eval2V_lane cls h2 m n a0 a1 V i j l hl).1
    · intro j hj
      have e1 : (i * N + j) / N = i := by
        rw [Nat.add_comm, Nat.add_mul_div_right _ _ hN, Nat.div_eq_of_lt hj, Nat.zero_add]
      have e2 : (i * N + j) % N = j := by
        rw [Nat.add_comm, Nat.add_mul_mod_self_right, Nat.mod_eq_of_lt hj]
      simp only [e1, e2]
  have := writesExactly_flatMap (List.range M) (v.ctor2Row V N) (fun i p => i * N ≤ p ∧ p < i * N + N) _ hrow
  apply writesExactly_congr this
  intro p
  simp only [List.mem_range]
  constructor
  · rintro ⟨i, hi, h1, h2⟩
    calc p < i * N + N := h2
      _ = (i + 1) * N := by ring
      _ ≤ M * N := Nat.mul_le_mul_right _ hi
  · intro hp
    refine ⟨p / N, (Nat.div_lt_iff_lt_mul hN).2 hp, Nat.div_mul_le_self _ _, ?_⟩
    have := Nat.lt_div_mul_add (a := p) hN
    omega

end Fastor.Views
