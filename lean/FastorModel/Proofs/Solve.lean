import FastorModel.Proofs.LUBlock
import FastorModel.Proofs.LUPivot
import FastorModel.Model.Solve
/-
  C12: forward / backward substitution solve their triangular systems; LU-based solve.
-/
namespace Fastor.LU
open Finset

variable {K : Type} [Field K]

theorem forwardSubs_get (n c : Nat) (L B : Mat K) (p : Nat → Nat) (i j : Nat) (hi : i < n) (hj : j < c) :
    (forwardSubs n c L B p).get i j = (forwardCol n L B p j).get i 0 := by
  simp [forwardSubs, Mat.get_ofFn, hi, hj, Array.getD]

theorem backwardSubs_get (n c : Nat) (U Y : Mat K) (i j : Nat) (hi : i < n) (hj : j < c) :
    (backwardSubs n c U Y).get i j = (backwardCol n U Y j).get i 0 := by
  simp [backwardSubs, Mat.get_ofFn, hi, hj, Array.getD]

/-- the state of the forward recursion after `m` rows -/
def fwdState (n : Nat) (L B : Mat K) (p : Nat → Nat) (j m : Nat) : Mat K :=
  (List.range m).foldl (fun (y : Mat K) i =>
      y.set i 0 (B.get (p i) j - sumTo i (fun k => L.get i k * y.get k 0))) (Mat.zero n 1)

theorem fwdState_spec (n : Nat) (L B : Mat K) (p : Nat → Nat) (j : Nat) :
    ∀ m, m ≤ n → (∀ i c, (fwdState n L B p j m).has i c ↔ i < n ∧ c < 1) ∧
      ∀ i, i < m → (fwdState n L B p j m).get i 0 = B.get (p i) j - ∑ k ∈ range i, L.get i k * (fwdState n L B p j m).get k 0 := by
  intro m
  induction m with
  | zero => intro _; exact ⟨fun i c => by simp [fwdState, Mat.zero, Mat.has_ofFn], fun i hi => by omega⟩
  | succ m ih =>
    intro hm
    obtain ⟨h1, h2⟩ := ih (by omega)
    have e : fwdState n L B p j (m + 1) = (fwdState n L B p j m).set m 0
        (B.get (p m) j - sumTo m (fun k => L.get m k * (fwdState n L B p j m).get k 0)) := by
      simp [fwdState, List.range_succ, List.foldl_append]
    have hh : (fwdState n L B p j m).has m 0 := (h1 m 0).2 ⟨by omega, by omega⟩
    have other : ∀ k, k ≠ m → (fwdState n L B p j (m + 1)).get k 0 = (fwdState n L B p j m).get k 0 := by
      intro k hk; rw [e, Mat.get_set, if_neg (fun h => hk h.1)]
    refine ⟨fun i c => by rw [e, Mat.has_set]; exact h1 i c, fun i hi => ?_⟩
    by_cases him : i = m
    · subst him
      have hv : (fwdState n L B p j (i + 1)).get i 0 =
          B.get (p i) j - sumTo i (fun k => L.get i k * (fwdState n L B p j i).get k 0) := by
        rw [e, Mat.get_set, if_pos ⟨rfl, rfl, hh⟩]
      rw [hv, sumTo_eq]
      congr 1
      apply sum_congr rfl; intro k hk
      rw [other k (by have := mem_range.1 hk; omega)]
    · rw [other i him, h2 i (by omega)]
      congr 1
      apply sum_congr rfl; intro k hk
      rw [other k (by have := mem_range.1 hk; omega)]

/-- `forward_subs`: L unit lower triangular ⇒ `L * y = b∘p`, for every size, every column -/
theorem forwardCol_solves (n : Nat) (L B : Mat K) (p : Nat → Nat) (j : Nat)
    (hdiag : ∀ i, i < n → L.get i i = 1) (hlz : ∀ i k, i < n → k < n → i < k → L.get i k = 0) (i : Nat) (hi : i < n) :
    ∑ k ∈ range n, L.get i k * (forwardCol n L B p j).get k 0 = B.get (p i) j := by
  have e : forwardCol n L B p j = fwdState n L B p j n := rfl
  have h := (fwdState_spec n L B p j n (Nat.le_refl _)).2 i hi
  rw [e]
  have split : ∑ k ∈ range n, L.get i k * (fwdState n L B p j n).get k 0 = ∑ k ∈ range (i + 1), L.get i k * (fwdState n L B p j n).get k 0 := by
    have hsub : range (i + 1) ⊆ range n := by intro x; simp; omega
    symm
    apply sum_subset hsub
    intro m hm hm'
    have h1 : m < n := by simpa using hm
    have h2 : i < m := by simp at hm'; omega
    rw [hlz i m hi h1 h2]; simp
  rw [split, sum_range_succ, hdiag i hi, h]; ring

/-- the state of the backward recursion after `m` rows (rows n-1, …, n-m) -/
def bwdState (n : Nat) (U Y : Mat K) (j m : Nat) : Mat K :=
  (List.range m).foldl (fun (x : Mat K) t =>
      let i := n - 1 - t
      x.set i 0 ((Y.get i j - sumTo (n - i) (fun k => U.get i (i + k) * x.get (i + k) 0)) / U.get i i)) (Mat.zero n 1)

theorem bwdState_spec (n : Nat) (U Y : Mat K) (j : Nat) (hd : ∀ i, i < n → U.get i i ≠ 0) :
    ∀ m, m ≤ n → (∀ i c, (bwdState n U Y j m).has i c ↔ i < n ∧ c < 1) ∧
      (∀ i, i < n - m → (bwdState n U Y j m).get i 0 = 0) ∧
      ∀ i, n - m ≤ i → i < n → ∑ k ∈ range (n - i), U.get i (i + k) * (bwdState n U Y j m).get (i + k) 0 = Y.get i j := by
  intro m
  induction m with
  | zero =>
    intro _
    exact ⟨fun i c => by simp [bwdState, Mat.zero, Mat.has_ofFn], fun i _ => by simp [bwdState, get_zero], fun i h1 h2 => by omega⟩
  | succ m ih =>
    intro hm
    obtain ⟨h1, h2, h3⟩ := ih (by omega)
    have hr : n - 1 - m < n := by omega
    have e : bwdState n U Y j (m + 1) = (bwdState n U Y j m).set (n - 1 - m) 0
        ((Y.get (n - 1 - m) j - sumTo (n - (n - 1 - m)) (fun k => U.get (n - 1 - m) (n - 1 - m + k) * (bwdState n U Y j m).get (n - 1 - m + k) 0))
          / U.get (n - 1 - m) (n - 1 - m)) := by
      simp [bwdState, List.range_succ, List.foldl_append]
    have hh : (bwdState n U Y j m).has (n - 1 - m) 0 := (h1 _ 0).2 ⟨hr, by omega⟩
    have other : ∀ k, k ≠ n - 1 - m → (bwdState n U Y j (m + 1)).get k 0 = (bwdState n U Y j m).get k 0 := by
      intro k hk; rw [e, Mat.get_set, if_neg (fun h => hk h.1)]
    refine ⟨fun i c => by rw [e, Mat.has_set]; exact h1 i c, fun i hi => ?_, fun i hi1 hi2 => ?_⟩
    · rw [other i (by omega)]; exact h2 i (by omega)
    · by_cases him : i = n - 1 - m
      · subst him
        have hp := hd _ hr
        have hz : (bwdState n U Y j m).get (n - 1 - m) 0 = 0 := h2 _ (by omega)
        have key : ∀ k ∈ range (n - (n - 1 - m)), U.get (n - 1 - m) (n - 1 - m + k) * (bwdState n U Y j (m + 1)).get (n - 1 - m + k) 0 =
            U.get (n - 1 - m) (n - 1 - m + k) * (bwdState n U Y j m).get (n - 1 - m + k) 0 +
              (if 0 = k then U.get (n - 1 - m) (n - 1 - m) * (bwdState n U Y j (m + 1)).get (n - 1 - m) 0 else 0) := by
          intro k _
          by_cases hk : 0 = k
          · subst hk; simp [hz]
          · rw [other _ (by omega)]; simp [hk]
        rw [sum_congr rfl key, sum_add_distrib, sum_ite_eq]
        have : 0 ∈ range (n - (n - 1 - m)) := by simp; omega
        rw [if_pos this]
        have hv : (bwdState n U Y j (m + 1)).get (n - 1 - m) 0 =
            (Y.get (n - 1 - m) j - sumTo (n - (n - 1 - m)) (fun k => U.get (n - 1 - m) (n - 1 - m + k) * (bwdState n U Y j m).get (n - 1 - m + k) 0))
              / U.get (n - 1 - m) (n - 1 - m) := by
          rw [e, Mat.get_set, if_pos ⟨rfl, rfl, hh⟩]
        rw [hv, sumTo_eq]
        field_simp; ring
      · rw [← h3 i (by omega) hi2]
        apply sum_congr rfl; intro k _
        rw [other _ (by omega)]

/-- `backward_subs`: U upper triangular with non-zero diagonal ⇒ `U * x = y`, for every size, every column -/
theorem backwardCol_solves (n : Nat) (U Y : Mat K) (j : Nat)
    (huz : ∀ i k, i < n → k < n → k < i → U.get i k = 0) (hd : ∀ i, i < n → U.get i i ≠ 0) (i : Nat) (hi : i < n) :
    ∑ k ∈ range n, U.get i k * (backwardCol n U Y j).get k 0 = Y.get i j := by
  have e : backwardCol n U Y j = bwdState n U Y j n := rfl
  have h := (bwdState_spec n U Y j hd n (Nat.le_refl _)).2.2 i (by omega) hi
  rw [e, sum_split n i (by omega)]
  have z : ∀ k ∈ range i, U.get i k * (bwdState n U Y j n).get k 0 = 0 := by
    intro k hk; have := mem_range.1 hk
    rw [huz i k hi (by omega) this]; simp
  rw [sum_eq_zero z, zero_add, h]

/-- `get_lu_solve`: with `L*U = PA` (rows `p`), `L` unit lower, `U` upper with non-zero diagonal: `(PA) * X = P B`, every size,
every number of columns -/
theorem luSolve_solves (n c : Nat) (PA L U B : Mat K) (p : Nat → Nat) (h : IsLU n PA L U) (hd : ∀ i, i < n → U.get i i ≠ 0)
    (i j : Nat) (hi : i < n) (hj : j < c) :
    ∑ k ∈ range n, PA.get i k * (luSolve n c L U B p).get k j = B.get (p i) j := by
  have e1 : ∀ k ∈ range n, PA.get i k * (luSolve n c L U B p).get k j =
      (∑ m ∈ range n, L.get i m * U.get m k) * (backwardCol n U (forwardSubs n c L B p) j).get k 0 := by
    intro k hk; have hk' := mem_range.1 hk
    rw [h.mul i k hi hk']; unfold luSolve; rw [backwardSubs_get _ _ _ _ _ _ hk' hj]
  rw [sum_congr rfl e1, sum_assoc_right]
  have e2 : ∀ m ∈ range n, L.get i m * ∑ k ∈ range n, U.get m k * (backwardCol n U (forwardSubs n c L B p) j).get k 0 =
      L.get i m * (forwardCol n L B p j).get m 0 := by
    intro m hm; have hm' := mem_range.1 hm
    rw [backwardCol_solves n U _ j h.uzero hd m hm', forwardSubs_get _ _ _ _ _ _ _ hm' hj]
  rw [sum_congr rfl e2]
  exact forwardCol_solves n L B p j h.diag h.lzero i hi

end Fastor.LU
