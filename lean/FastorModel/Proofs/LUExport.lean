import FastorModel.Proofs.LUInv
/-
  Lemma-level export of C11 for other properties (C10: LU-based inverses, C12: solve, C16: determinant):
  `Fastor.LU.LUDefined`, `Fastor.LU.lu_core_correct`, `Fastor.LU.lu_correct` (component form), `Fastor.LU.LUPost` /
  `Fastor.LU.lu_post` (one structure) and the hypothesis-free `Fastor.LU.lu_post_exec` (for the inverses `execOps`).
-/
namespace Fastor.LU
open Finset

variable {K : Type} [Field K]

def blocked : Strategy → Bool
  | .block | .blockPiv => true
  | _ => false

/-- non-zero pivots as met by the factorisation kernel the strategy dispatches to -/
def CoreDefined (ops : InvOps K) (blk : Bool) (n : Nat) (A : Mat K) : Prop :=
  if blk then BlockDefined ops n A else (if n ≤ 8 then UnrolledDefined n A else SimpleDefined n A)

/-- the strategy is defined on A (the pivoted strategies factorise the row-permuted matrix) -/
def LUDefined (ops : InvOps K) (gt : K → K → Bool) (s : Strategy) (n : Nat) (A : Mat K) : Prop :=
  CoreDefined ops (blocked s) n (if s.pivoted then applyPivotV n A (pivotPerm gt n A) else A)

/-- the factorisation kernel behind each public strategy, EVERY n: `L.fill(0); U.fill(0); lu_block_dispatcher` (unrolled 1..8,
recursive 9..32, blocked 33..64 with split `(M/8*8)/2`, blocked > 64 with split `(M/16*16)/2` and the sub-dispatch of
`useless::lu_block_simple_dispatcher`) and `lu_simple_dispatcher` (unrolled 1..8, Doolittle loops above) -/
theorem lu_core_correct (ops : InvOps K) (hops : InvSpec ops) (blk : Bool) (n : Nat) (A : Mat K) (hdef : CoreDefined ops blk n A) :
    IsLU n A (luCore ops blk n A).1 (luCore ops blk n A).2 := by
  unfold CoreDefined at hdef
  unfold luCore
  cases blk with
  | true =>
    simp only [if_true] at hdef ⊢
    exact luBlock_isLU ops hops n A _ _ (fun i j _ _ _ => get_zero n n i j) (fun i j _ _ _ => get_zero n n i j) hdef
  | false =>
    simp only [Bool.false_eq_true, if_false] at hdef ⊢
    unfold luSimple
    by_cases h8 : n ≤ 8
    · rw [if_pos h8] at hdef ⊢; exact lufactUnrolled_isLU n A hdef
    · rw [if_neg h8] at hdef ⊢; exact luSimpleLoops_isLU n A hdef

theorem range_getD (n i : Nat) (hi : i < n) : (Array.range n).getD i 0 = i := by
  simp [Array.getD, hi]

/-- **lu_correct** — `lu<LUCompType::S>(A, L, U[, p])` for EVERY strategy S (BlockLU, SimpleLU, BlockLUPiv, SimpleLUPiv), EVERY
size n and every A on which S is defined: L unit lower triangular with exact zeros above the diagonal, U upper triangular with
exact zeros below it, `L*U = P*A` (`(P*A)(i,j) = A(p(i),j)`; p = identity for the unpivoted strategies), p a bijection. -/
theorem lu_correct (ops : InvOps K) (hops : InvSpec ops) (gt : K → K → Bool) (s : Strategy) (n : Nat) (A : Mat K)
    (hdef : LUDefined ops gt s n A) :
    let r := luPublicV ops gt s n A
    (∀ i, i < n → r.L.get i i = 1) ∧ (∀ i j, i < n → j < n → i < j → r.L.get i j = 0) ∧
    (∀ i j, i < n → j < n → j < i → r.U.get i j = 0) ∧
    (∀ i j, i < n → j < n → ∑ m ∈ range n, r.L.get i m * r.U.get m j = A.get (r.perm.getD i 0) j) ∧
    (∀ i, i < n → r.perm.getD i 0 < n) ∧
    (∀ i j, i < n → j < n → r.perm.getD i 0 = r.perm.getD j 0 → i = j) ∧
    (∀ v, v < n → ∃ i, i < n ∧ r.perm.getD i 0 = v) := by
  unfold LUDefined at hdef
  have idb : (∀ i, i < n → (Array.range n).getD i 0 < n) ∧
      (∀ i j, i < n → j < n → (Array.range n).getD i 0 = (Array.range n).getD j 0 → i = j) ∧
      (∀ v, v < n → ∃ i, i < n ∧ (Array.range n).getD i 0 = v) :=
    ⟨fun i hi => by rw [range_getD n i hi]; exact hi,
     fun i j hi hj h => by rwa [range_getD n i hi, range_getD n j hj] at h,
     fun v hv => ⟨v, hv, range_getD n v hv⟩⟩
  have pb := pivotPerm_bijection gt n A
  cases s with
  | block =>
    have h := lu_core_correct ops hops true n A (by simpa [blocked, Strategy.pivoted] using hdef)
    refine ⟨h.diag, h.lzero, h.uzero, ?_, idb⟩
    intro i j hi hj
    show ∑ m ∈ range n, (luCore ops true n A).1.get i m * (luCore ops true n A).2.get m j = A.get ((Array.range n).getD i 0) j
    rw [range_getD n i hi]; exact h.mul i j hi hj
  | simple =>
    have h := lu_core_correct ops hops false n A (by simpa [blocked, Strategy.pivoted] using hdef)
    refine ⟨h.diag, h.lzero, h.uzero, ?_, idb⟩
    intro i j hi hj
    show ∑ m ∈ range n, (luCore ops false n A).1.get i m * (luCore ops false n A).2.get m j = A.get ((Array.range n).getD i 0) j
    rw [range_getD n i hi]; exact h.mul i j hi hj
  | blockPiv =>
    have h := lu_core_correct ops hops true n (applyPivotV n A (pivotPerm gt n A)) (by simpa [blocked, Strategy.pivoted] using hdef)
    refine ⟨h.diag, h.lzero, h.uzero, ?_, pb.2⟩
    intro i j hi hj
    show ∑ m ∈ range n, (luCore ops true n (applyPivotV n A (pivotPerm gt n A))).1.get i m *
      (luCore ops true n (applyPivotV n A (pivotPerm gt n A))).2.get m j = A.get ((pivotPerm gt n A).getD i 0) j
    rw [h.mul i j hi hj, applyPivotV_get n A _ i j hi hj]
  | simplePiv =>
    have h := lu_core_correct ops hops false n (applyPivotV n A (pivotPerm gt n A)) (by simpa [blocked, Strategy.pivoted] using hdef)
    refine ⟨h.diag, h.lzero, h.uzero, ?_, pb.2⟩
    intro i j hi hj
    show ∑ m ∈ range n, (luCore ops false n (applyPivotV n A (pivotPerm gt n A))).1.get i m *
      (luCore ops false n (applyPivotV n A (pivotPerm gt n A))).2.get m j = A.get ((pivotPerm gt n A).getD i 0) j
    rw [h.mul i j hi hj, applyPivotV_get n A _ i j hi hj]


/-- the postcondition of every `lu<LUCompType::…>` as one structure -/
structure LUPost (n : Nat) (A L U : Mat K) (perm : Array Nat) : Prop where
  diag : ∀ i, i < n → L.get i i = 1
  lzero : ∀ i j, i < n → j < n → i < j → L.get i j = 0
  uzero : ∀ i j, i < n → j < n → j < i → U.get i j = 0
  mul : ∀ i j, i < n → j < n → ∑ m ∈ range n, L.get i m * U.get m j = A.get (perm.getD i 0) j
  inrange : ∀ i, i < n → perm.getD i 0 < n
  inj : ∀ i j, i < n → j < n → perm.getD i 0 = perm.getD j 0 → i = j
  surj : ∀ v, v < n → ∃ i, i < n ∧ perm.getD i 0 = v

/-- `L*U = P*A` etc. for every strategy and size, given exact triangular inverses (`InvSpec ops`) -/
theorem lu_post (ops : InvOps K) (hops : InvSpec ops) (gt : K → K → Bool) (s : Strategy) (n : Nat) (A : Mat K)
    (hdef : LUDefined ops gt s n A) :
    LUPost n A (luPublicV ops gt s n A).L (luPublicV ops gt s n A).U (luPublicV ops gt s n A).perm := by
  obtain ⟨h1, h2, h3, h4, h5, h6, h7⟩ := lu_correct ops hops gt s n A hdef
  exact ⟨h1, h2, h3, h4, h5, h6, h7⟩

/-- hypothesis-free (apart from "the strategy is defined on A") for the executed inverses -/
theorem lu_post_exec (gt : K → K → Bool) (s : Strategy) (n : Nat) (A : Mat K)
    (hdef : LUDefined (execOps : InvOps K) gt s n A) :
    LUPost n A (luPublicV execOps gt s n A).L (luPublicV execOps gt s n A).U (luPublicV execOps gt s n A).perm :=
  lu_post execOps execOps_spec gt s n A hdef

/-- the postcondition as `IsLU` of the row-permuted matrix -/
theorem LUPost.isLU {n : Nat} {A L U : Mat K} {perm : Array Nat} (h : LUPost n A L U perm) :
    IsLU n (applyPivotV n A perm) L U :=
  ⟨h.diag, h.lzero, h.uzero, fun i j hi hj => by rw [h.mul i j hi hj, applyPivotV_get n A perm i j hi hj]⟩

end Fastor.LU
