import FastorModel.Model.Permute
/-
  Proofs about the permute model (C14).
  Part 1: boxes, row-major offsets, the code's index arithmetic, the recursive Cartesian loop.
-/
namespace Fastor.Permute

/-- multi-index `as` lies in the box `dims` (same length, every component below its extent) -/
def InBox : List Nat → List Nat → Prop
  | [], [] => True
  | d :: ds, x :: xs => x < d ∧ InBox ds xs
  | _, _ => False

/-- row-major offset -/
def flat : List Nat → List Nat → Nat
  | d :: ds, x :: xs => x * prod ds + flat ds xs
  | _, _ => 0

/-- `as[mi[0]], as[mi[1]], …` -/
def gather (mi as : List Nat) : List Nat := mi.map fun k => as.getD k 0

theorem InBox.length_eq : ∀ {dims as : List Nat}, InBox dims as → as.length = dims.length
  | [], [], _ => rfl
  | _ :: ds, _ :: xs, h => by simp [InBox.length_eq (dims := ds) (as := xs) h.2]
  | [], _ :: _, h => by simp [InBox] at h
  | _ :: _, [], h => by simp [InBox] at h

theorem inBox_iff_getD : ∀ {dims as : List Nat},
    InBox dims as ↔ as.length = dims.length ∧ ∀ k, k < dims.length → as.getD k 0 < dims.getD k 0
  | [], [] => by simp [InBox]
  | [], _ :: _ => by simp [InBox]
  | _ :: _, [] => by simp [InBox]
  | d :: ds, x :: xs => by
    simp only [InBox, inBox_iff_getD (dims := ds) (as := xs), List.length_cons]
    constructor
    · rintro ⟨hx, hl, h⟩
      refine ⟨by omega, ?_⟩
      intro k hk
      cases k with
      | zero => simpa using hx
      | succ k => simpa using h k (by omega)
    · rintro ⟨hl, h⟩
      refine ⟨by simpa using h 0 (by omega), by omega, ?_⟩
      intro k hk
      simpa using h (k + 1) (by omega)

theorem prod_cons (d : Nat) (ds : List Nat) : prod (d :: ds) = d * prod ds := rfl

theorem flat_lt : ∀ {dims as : List Nat}, InBox dims as → flat dims as < prod dims
  | [], [], _ => by simp [flat, prod]
  | d :: ds, x :: xs, h => by
    have ih := flat_lt (dims := ds) (as := xs) h.2
    have hx := h.1
    simp only [flat, prod_cons]
    calc x * prod ds + flat ds xs < x * prod ds + prod ds := by omega
      _ = (x + 1) * prod ds := by rw [Nat.add_mul]; simp
      _ ≤ d * prod ds := Nat.mul_le_mul_right _ hx
  | [], _ :: _, h => by simp [InBox] at h
  | _ :: _, [], h => by simp [InBox] at h

theorem flat_inj : ∀ {dims as bs : List Nat}, InBox dims as → InBox dims bs → flat dims as = flat dims bs → as = bs
  | [], [], [], _, _, _ => rfl
  | d :: ds, x :: xs, y :: ys, ha, hb, h => by
    have la := flat_lt ha.2
    have lb := flat_lt hb.2
    simp only [flat] at h
    have hP : 0 < prod ds := by omega
    have hxy : x = y := by
      have h1 : (x * prod ds + flat ds xs) / prod ds = x := by
        rw [Nat.add_comm, Nat.add_mul_div_right _ _ hP, Nat.div_eq_of_lt la]; simp
      have h2 : (y * prod ds + flat ds ys) / prod ds = y := by
        rw [Nat.add_comm, Nat.add_mul_div_right _ _ hP, Nat.div_eq_of_lt lb]; simp
      rw [h] at h1; omega
    subst hxy
    have : flat ds xs = flat ds ys := by omega
    rw [flat_inj ha.2 hb.2 this]
  | [], _ :: _, _, h, _, _ => by simp [InBox] at h
  | [], [], _ :: _, _, h, _ => by simp [InBox] at h
  | _ :: _, [], _, h, _, _ => by simp [InBox] at h
  | _ :: _, _ :: _, [], _, h, _ => by simp [InBox] at h

/-- every offset below the size is the offset of a multi-index of the box -/
theorem flat_surj : ∀ (dims : List Nat) (q : Nat), q < prod dims → ∃ as, InBox dims as ∧ flat dims as = q
  | [], q, h => ⟨[], trivial, by simp [prod] at h; simp [flat, h]⟩
  | d :: ds, q, h => by
    rw [prod_cons] at h
    have hP : 0 < prod ds := by
      rcases Nat.eq_zero_or_pos (prod ds) with h0 | h0
      · rw [h0] at h; simp at h
      · exact h0
    obtain ⟨xs, hxs, hf⟩ := flat_surj ds (q % prod ds) (Nat.mod_lt _ hP)
    refine ⟨(q / prod ds) :: xs, ⟨(Nat.div_lt_iff_lt_mul hP).2 h, hxs⟩, ?_⟩
    simp only [flat, hf]
    exact Nat.div_add_mod' q (prod ds)

/-! ### the code's index arithmetic -/

def sumRange (n : Nat) (f : Nat → Nat) : Nat := (List.range n).foldl (fun acc it => acc + f it) 0

theorem foldl_add_init (l : List Nat) (f : Nat → Nat) (init : Nat) :
    l.foldl (fun acc it => acc + f it) init = init + l.foldl (fun acc it => acc + f it) 0 := by
  induction l generalizing init with
  | nil => simp
  | cons x xs ih => simp only [List.foldl_cons]; rw [ih, ih (0 + f x)]; omega

theorem sumRange_succ_left (n : Nat) (f : Nat → Nat) : sumRange (n + 1) f = f 0 + sumRange n (fun it => f (it + 1)) := by
  unfold sumRange
  rw [List.range_succ_eq_map, List.foldl_cons, List.foldl_map, foldl_add_init]
  simp

theorem sumRange_succ_right (n : Nat) (f : Nat → Nat) : sumRange (n + 1) f = sumRange n f + f n := by
  unfold sumRange
  rw [List.range_succ, List.foldl_append]; simp

theorem sumRange_congr {n : Nat} {f g : Nat → Nat} (h : ∀ it, it < n → f it = g it) : sumRange n f = sumRange n g := by
  induction n with
  | zero => rfl
  | succ n ih =>
    rw [sumRange_succ_right, sumRange_succ_right, ih (fun it hit => h it (by omega)), h n (by omega)]

theorem productsFrom_cons_succ (d : Nat) (ds : List Nat) (i : Nat) : productsFrom (d :: ds) (i + 1) = productsFrom ds i := by
  simp [productsFrom]

theorem productsFrom_zero (ds : List Nat) : productsFrom ds 0 = prod ds := by simp [productsFrom, prod]

/-- the row-major offset written the way the loop body computes it: all but the last component times the
    product of the later extents, plus the last component -/
theorem flat_eq_sum : ∀ (ds xs : List Nat), xs.length = ds.length → ds ≠ [] →
    flat ds xs = sumRange (ds.length - 1) (fun it => productsFrom ds (it + 1) * xs.getD it 0) + xs.getD (ds.length - 1) 0
  | [], _, _, h => absurd rfl h
  | [d], [x], _, _ => by simp [flat, prod, sumRange]
  | d :: d' :: ds, x :: x' :: xs, hl, _ => by
    have ih := flat_eq_sum (d' :: ds) (x' :: xs) (by simpa using hl) (by simp)
    have e : (d :: d' :: ds).length - 1 = ((d' :: ds).length - 1) + 1 := by simp
    rw [e, sumRange_succ_left]
    simp only [flat] at ih ⊢
    rw [ih]
    simp only [productsFrom_cons_succ, productsFrom_zero, List.length_cons, List.getD_cons_zero, List.getD_cons_succ,
      Nat.add_sub_cancel, prod_cons]
    rw [Nat.mul_comm x]; omega
  | _ :: _ :: _, [], hl, _ => by simp at hl
  | _ :: _ :: _, [_], hl, _ => by simp at hl
  | [_], [], hl, _ => by simp at hl
  | [_], _ :: _ :: _, hl, _ => by simp at hl

theorem nprods_getD (ds : List Nat) (it : Nat) (hit : it < ds.length) :
    (nprods ds).getD it 0 = if it + 1 = ds.length then 0 else productsFrom ds (it + 1) := by
  unfold nprods
  simp only [List.getD_eq_getElem?_getD, List.getElem?_map, List.getElem?_range hit, Option.map_some, Option.getD_some]
  split
  · rfl
  · have h1 : it + 1 < ds.length := by omega
    simp [h1, List.getElem?_range h1]

theorem gather_length (mi as : List Nat) : (gather mi as).length = mi.length := by simp [gather]

theorem gather_getD (mi as : List Nat) (n : Nat) (hn : n < mi.length) :
    (gather mi as).getD n 0 = as.getD (mi.getD n 0) 0 := by
  simp [gather, List.getD_eq_getElem?_getD, List.getElem?_map, List.getElem?_eq_getElem hn]

theorem foldl_range_eq_sumRange (n : Nat) (f : Nat → Nat) (init : Nat) :
    (List.range n).foldl (fun acc it => acc + f it) init = init + sumRange n f := foldl_add_init _ _ _

/-- **index arithmetic**: for `bound = r-1` (the `index_out` loops) and `bound = r` (the `index_a` loops, whose
    last term has a zero factor) the computed offset is the row-major offset of the gathered multi-index -/
theorem codeIndex_eq_flat (ds mi as : List Nat) (bound : Nat) (hne : ds ≠ []) (hmi : mi.length = ds.length)
    (hb : bound = ds.length - 1 ∨ bound = ds.length) :
    codeIndex (nprods ds) mi as ds.length bound = flat ds (gather mi as) := by
  have hr : 0 < ds.length := List.length_pos_iff.2 hne
  rw [flat_eq_sum ds (gather mi as) (by rw [gather_length, hmi]) hne]
  unfold codeIndex
  rw [foldl_range_eq_sumRange, gather_getD mi as _ (by omega), Nat.add_comm]
  congr 1
  have hmain : sumRange (ds.length - 1) (fun it => (nprods ds).getD it 0 * as.getD (mi.getD it 0) 0)
      = sumRange (ds.length - 1) (fun it => productsFrom ds (it + 1) * (gather mi as).getD it 0) := by
    apply sumRange_congr
    intro it hit
    rw [nprods_getD ds it (by omega), gather_getD mi as it (by omega)]
    have : ¬ it + 1 = ds.length := by omega
    simp [this]
  rcases hb with hb | hb
  · rw [hb, hmain]
  · have e : ds.length = (ds.length - 1) + 1 := by omega
    rw [hb, e, sumRange_succ_right, ← e, hmain, nprods_getD ds _ (by omega)]
    have : ds.length - 1 + 1 = ds.length := by omega
    simp [this]

/-! ### the recursive Cartesian loop -/

/-- lexicographic enumeration of the box -/
def lexBox : List Nat → List (List Nat)
  | [] => [[]]
  | d :: ds => (List.range d).flatMap fun i => (lexBox ds).map fun tl => i :: tl

theorem mem_lexBox : ∀ {dims as : List Nat}, as ∈ lexBox dims ↔ InBox dims as
  | [], [] => by simp [lexBox, InBox]
  | [], _ :: _ => by simp [lexBox, InBox]
  | d :: ds, [] => by simp [lexBox, InBox]
  | d :: ds, x :: xs => by
    simp only [lexBox, List.mem_flatMap, List.mem_range, List.mem_map, InBox, ← mem_lexBox (dims := ds) (as := xs)]
    constructor
    · rintro ⟨i, hi, tl, htl, h⟩
      injection h with h1 h2
      subst h1; subst h2; exact ⟨hi, htl⟩
    · rintro ⟨hx, hxs⟩
      exact ⟨x, hx, xs, hxs, rfl⟩

theorem drop_set_self : ∀ (l : List Nat) (n v : Nat), n < l.length → (l.set n v).drop n = v :: l.drop (n + 1)
  | _ :: _, 0, _, _ => by simp
  | x :: xs, n + 1, v, h => by
    simp only [List.set_cons_succ, List.drop_succ_cons]
    exact drop_set_self xs n v (by simpa using h)
  | [], _, _, h => by simp at h

/-- the nest over the remaining extents `ds` extends the already fixed outer components (stored from the
    top of `idx` downwards and reversed by `reverse_copy`) by every multi-index of `ds` in lexicographic order -/
theorem cartesian_eq : ∀ (ds idx : List Nat), ds.length ≤ idx.length →
    cartesian ds idx = (lexBox ds).map fun tl => (idx.drop ds.length).reverse ++ tl
  | [], idx, _ => by simp [cartesian, lexBox]
  | d :: ds, idx, h => by
    have hlt : ds.length < idx.length := by simp only [List.length_cons] at h; omega
    simp only [cartesian, lexBox, List.map_flatMap, List.map_map, List.length_cons]
    congr 1
    funext i
    rw [cartesian_eq ds (idx.set ds.length i) (by simp; omega), drop_set_self idx _ i hlt]
    simp [Function.comp_def]

theorem cartesian_zeros (dims : List Nat) : cartesian dims (List.replicate dims.length 0) = lexBox dims := by
  rw [cartesian_eq dims _ (by simp)]
  simp

/-! ### Part 2: permutations, inverse maps, the move lists -/

variable {α : Type}

theorem applyWrites_unique {ws : List (Nat × α)} {pos : Nat} {v : α} (hmem : (pos, v) ∈ ws)
    (huniq : ∀ w ∈ ws, w.1 = pos → w.2 = v) (m : Nat → α) : applyWrites ws m pos = v := by
  rw [applyWrites_eq_lastWrite]
  cases h : lastWrite ws pos with
  | none => exact absurd rfl ((lastWrite_none_iff ws pos).1 h _ hmem)
  | some v' =>
    have := huniq _ (lastWrite_some_mem h) rfl
    simp only [Option.getD_some]; exact this

theorem applyWrites_untouched {ws : List (Nat × α)} {pos : Nat} (h : ∀ w ∈ ws, w.1 ≠ pos) (m : Nat → α) :
    applyWrites ws m pos = m pos := by
  rw [applyWrites_eq_lastWrite, (lastWrite_none_iff ws pos).2 h]; rfl

/-- `mi` and `rev` are mutually inverse maps on `0..r-1` -/
structure IsInv (mi rev : List Nat) (r : Nat) : Prop where
  lmi : mi.length = r
  lrev : rev.length = r
  left : ∀ n, n < r → mi.getD n 0 < r ∧ rev.getD (mi.getD n 0) 0 = n
  right : ∀ k, k < r → rev.getD k 0 < r ∧ mi.getD (rev.getD k 0) 0 = k

theorem IsInv.symm {mi rev : List Nat} {r : Nat} (h : IsInv mi rev r) : IsInv rev mi r :=
  ⟨h.lrev, h.lmi, h.right, h.left⟩

theorem ext_getD {l1 l2 : List Nat} (hl : l1.length = l2.length) (h : ∀ k, k < l1.length → l1.getD k 0 = l2.getD k 0) :
    l1 = l2 := by
  apply List.ext_getElem hl
  intro k h1 h2
  have := h k h1
  simpa [List.getD_eq_getElem?_getD, List.getElem?_eq_getElem h1, List.getElem?_eq_getElem h2] using this

theorem gather_gather {mi rev : List Nat} {r : Nat} (h : IsInv mi rev r) (as : List Nat) (hl : as.length = r) :
    gather rev (gather mi as) = as := by
  apply ext_getD (by rw [gather_length, h.lrev, hl])
  intro k hk
  rw [gather_length, h.lrev] at hk
  rw [gather_getD rev _ k (by rw [h.lrev]; exact hk), gather_getD mi as _ (by rw [h.lmi]; exact (h.right k hk).1),
    (h.right k hk).2]

theorem gather_inBox {mi rev : List Nat} {r : Nat} (h : IsInv mi rev r) {dims as : List Nat} (hd : dims.length = r)
    (hb : InBox dims as) : InBox (gather mi dims) (gather mi as) := by
  rw [inBox_iff_getD] at hb ⊢
  refine ⟨by simp [gather_length], ?_⟩
  intro n hn
  rw [gather_length, h.lmi] at hn
  rw [gather_getD mi as n (by rw [h.lmi]; exact hn), gather_getD mi dims n (by rw [h.lmi]; exact hn)]
  exact hb.2 _ (by rw [hd]; exact (h.left n hn).1)

theorem gather_range (as : List Nat) : gather (List.range as.length) as = as := by
  apply ext_getD (by simp [gather_length])
  intro k hk
  rw [gather_length, List.length_range] at hk
  rw [gather_getD _ as k (by simpa using hk)]
  simp [List.getD_eq_getElem?_getD, List.getElem?_range hk]

/-- **forward-map loop body** (C++14 `permute`, legacy `permutation`): over any loop skeleton that visits
    exactly the input box -/
theorem forward_correct (v : Variant) (mi rev dims : List Nat) (hne : dims ≠ [])
    (hst : ∀ as, as ∈ loopStates v dims ↔ InBox dims as) (hinv : IsInv mi rev dims.length)
    (a m : Nat → α) :
    let ws := movesWrites a (forwardMoves v mi dims (gather mi dims))
    (∀ i, InBox dims i → applyWrites ws m (flat (gather mi dims) (gather mi i)) = a (flat dims i)) ∧
    (∀ pos, prod (gather mi dims) ≤ pos → applyWrites ws m pos = m pos) ∧
    (∀ pos, pos < prod (gather mi dims) → ∃ i, InBox dims i ∧ flat (gather mi dims) (gather mi i) = pos) := by
  have hol : (gather mi dims).length = dims.length := by rw [gather_length, hinv.lmi]
  have hone : gather mi dims ≠ [] := by
    intro h; rw [h] at hol; exact hne (List.length_eq_zero_iff.1 hol.symm)
  have key : ∀ as, InBox dims as →
      codeIndex (nprods (gather mi dims)) mi as dims.length (dims.length - 1) = flat (gather mi dims) (gather mi as) ∧
      codeIndex (nprods dims) (List.range dims.length) as dims.length dims.length = flat dims as := by
    intro as has
    constructor
    · have := codeIndex_eq_flat (gather mi dims) mi as (dims.length - 1) hone (by rw [hol, hinv.lmi]) (Or.inl (by rw [hol]))
      rw [hol] at this; exact this
    · have := codeIndex_eq_flat dims (List.range dims.length) as dims.length hne (by simp) (Or.inr rfl)
      rw [this, ← has.length_eq, gather_range]
  have hws : ∀ w, w ∈ movesWrites a (forwardMoves v mi dims (gather mi dims)) ↔
      ∃ as, InBox dims as ∧ w = (flat (gather mi dims) (gather mi as), a (flat dims as)) := by
    intro w
    simp only [movesWrites, forwardMoves, List.mem_map, List.map_map, Function.comp_def]
    constructor
    · rintro ⟨as, has, rfl⟩
      have hb := (hst as).1 has
      exact ⟨as, hb, by rw [(key as hb).1, (key as hb).2]⟩
    · rintro ⟨as, hb, rfl⟩
      exact ⟨as, (hst as).2 hb, by rw [(key as hb).1, (key as hb).2]⟩
  refine ⟨?_, ?_, ?_⟩
  · intro i hi
    apply applyWrites_unique ((hws _).2 ⟨i, hi, rfl⟩)
    rintro w hw hpos
    obtain ⟨as, has, rfl⟩ := (hws w).1 hw
    have e1 : gather mi as = gather mi i :=
      flat_inj (gather_inBox hinv rfl has) (gather_inBox hinv rfl hi) hpos
    have e2 : as = i := by
      rw [← gather_gather hinv as has.length_eq, e1, gather_gather hinv i hi.length_eq]
    rw [e2]
  · intro pos hpos
    apply applyWrites_untouched
    intro w hw
    obtain ⟨as, has, rfl⟩ := (hws w).1 hw
    have := flat_lt (gather_inBox hinv rfl has)
    show flat (gather mi dims) (gather mi as) ≠ pos
    omega
  · intro pos hpos
    obtain ⟨j, hj, hf⟩ := flat_surj _ pos hpos
    have hjl : j.length = dims.length := by rw [hj.length_eq, hol]
    refine ⟨gather rev j, ?_, ?_⟩
    · have := gather_inBox hinv.symm hol hj
      rwa [gather_gather hinv dims rfl] at this
    · rw [gather_gather hinv.symm j hjl, hf]

/-- **reverse-map loop body** (C++17 `permute`): the skeleton visits exactly the output box -/
theorem reverse_correct (v : Variant) (mi rev dims : List Nat) (hne : dims ≠ [])
    (hst : ∀ as, as ∈ loopStates v (gather mi dims) ↔ InBox (gather mi dims) as) (hinv : IsInv mi rev dims.length)
    (a m : Nat → α) :
    let ws := movesWrites a (reverseMoves v rev dims (gather mi dims))
    (∀ i, InBox dims i → applyWrites ws m (flat (gather mi dims) (gather mi i)) = a (flat dims i)) ∧
    (∀ pos, prod (gather mi dims) ≤ pos → applyWrites ws m pos = m pos) ∧
    (∀ pos, pos < prod (gather mi dims) → ∃ i, InBox dims i ∧ flat (gather mi dims) (gather mi i) = pos) := by
  have hol : (gather mi dims).length = dims.length := by rw [gather_length, hinv.lmi]
  have hone : gather mi dims ≠ [] := by
    intro h; rw [h] at hol; exact hne (List.length_eq_zero_iff.1 hol.symm)
  have key : ∀ as, InBox (gather mi dims) as →
      codeIndex (nprods (gather mi dims)) (List.range dims.length) as dims.length (dims.length - 1) = flat (gather mi dims) as ∧
      codeIndex (nprods dims) rev as dims.length dims.length = flat dims (gather rev as) := by
    intro as has
    constructor
    · have := codeIndex_eq_flat (gather mi dims) (List.range dims.length) as (dims.length - 1) hone (by simp [hol])
        (Or.inl (by rw [hol]))
      rw [hol] at this
      rw [this, ← hol, ← has.length_eq, gather_range]
    · exact codeIndex_eq_flat dims rev as dims.length hne hinv.lrev (Or.inr rfl)
  have hws : ∀ w, w ∈ movesWrites a (reverseMoves v rev dims (gather mi dims)) ↔
      ∃ as, InBox (gather mi dims) as ∧ w = (flat (gather mi dims) as, a (flat dims (gather rev as))) := by
    intro w
    simp only [movesWrites, reverseMoves, List.mem_map, List.map_map, Function.comp_def]
    constructor
    · rintro ⟨as, has, rfl⟩
      have hb := (hst as).1 has
      exact ⟨as, hb, by rw [(key as hb).1, (key as hb).2]⟩
    · rintro ⟨as, hb, rfl⟩
      exact ⟨as, (hst as).2 hb, by rw [(key as hb).1, (key as hb).2]⟩
  refine ⟨?_, ?_, ?_⟩
  · intro i hi
    have hgi := gather_inBox hinv rfl hi
    apply applyWrites_unique ((hws _).2 ⟨gather mi i, hgi, by rw [gather_gather hinv i hi.length_eq]⟩)
    rintro w hw hpos
    obtain ⟨as, has, rfl⟩ := (hws w).1 hw
    have e1 : as = gather mi i := flat_inj has hgi hpos
    rw [e1, gather_gather hinv i hi.length_eq]
  · intro pos hpos
    apply applyWrites_untouched
    intro w hw
    obtain ⟨as, has, rfl⟩ := (hws w).1 hw
    have := flat_lt has
    show flat (gather mi dims) as ≠ pos
    omega
  · intro pos hpos
    obtain ⟨j, hj, hf⟩ := flat_surj _ pos hpos
    have hjl : j.length = dims.length := by rw [hj.length_eq, hol]
    refine ⟨gather rev j, ?_, ?_⟩
    · have := gather_inBox hinv.symm hol hj
      rwa [gather_gather hinv dims rfl] at this
    · rw [gather_gather hinv.symm j hjl, hf]

theorem loopStates_recursive_mem (dims as : List Nat) : as ∈ loopStates .recursive dims ↔ InBox dims as := by
  simp only [loopStates, cartesian_zeros, mem_lexBox]

/-! ### Part 3: the metafunctions on a permutation of `0..r-1` -/

theorem countLess_eq_countP (l : List Nat) (x : Nat) : countLess l x = l.countP (fun y => decide (y < x)) := by
  induction l with
  | nil => rfl
  | cons y l ih =>
    have : countLess (y :: l) x = countLess l x + (if y < x then 1 else 0) := rfl
    rw [this, ih, List.countP_cons]; simp

theorem countP_lt_range (r x : Nat) : (List.range r).countP (fun y => decide (y < x)) = min x r := by
  induction r with
  | zero => simp
  | succ r ih =>
    rw [List.range_succ, List.countP_append, ih]
    by_cases h : r < x <;> simp [List.countP_cons, h] <;> omega

theorem perm_facts {p : List Nat} {r : Nat} (hp : p.Perm (List.range r)) :
    p.length = r ∧ p.Nodup ∧ ∀ x, x ∈ p ↔ x < r :=
  ⟨by rw [hp.length_eq, List.length_range], hp.nodup_iff.2 List.nodup_range, fun x => by rw [hp.mem_iff, List.mem_range]⟩

theorem countLess_perm {p : List Nat} {r : Nat} (hp : p.Perm (List.range r)) {x : Nat} (hx : x < r) :
    countLess p x = x := by
  rw [countLess_eq_countP, hp.countP_eq, countP_lt_range]; omega

/-- `new_permute_impl::resulting_index` is the pack itself -/
theorem newIdx_eq {p : List Nat} {r : Nat} (hp : p.Perm (List.range r)) : newIdx p = p := by
  obtain ⟨hl, _, hm⟩ := perm_facts hp
  unfold newIdx
  conv => rhs; rw [← List.map_id p]
  apply List.map_congr_left
  intro x hx
  have hx' := (hm x).1 hx
  rw [countLess_perm hp hx', hl]
  simp [List.getD_eq_getElem?_getD, List.getElem?_range hx']

/-- `new_permute_impl::resulting_tensor` has extents `dims[p[n]]` -/
theorem newDims_eq {p : List Nat} {r : Nat} (hp : p.Perm (List.range r)) (dims : List Nat) :
    newDims p dims = gather p dims := by
  obtain ⟨_, _, hm⟩ := perm_facts hp
  unfold newDims gather
  apply List.map_congr_left
  intro x hx
  rw [countLess_perm hp ((hm x).1 hx)]

/-- the inverse permutation as a list: position of `k` in `p` -/
def invOf (p : List Nat) : List Nat := (List.range p.length).map fun k => p.idxOf k

theorem getD_eq_getElem' (l : List Nat) (n : Nat) (h : n < l.length) : l.getD n 0 = l[n] := by
  simp [List.getD_eq_getElem?_getD, List.getElem?_eq_getElem h]

theorem isInv_invOf {p : List Nat} {r : Nat} (hp : p.Perm (List.range r)) : IsInv p (invOf p) r := by
  obtain ⟨hl, hnd, hm⟩ := perm_facts hp
  have hget : ∀ k, k < r → (invOf p).getD k 0 = p.idxOf k := by
    intro k hk
    simp [invOf, List.getD_eq_getElem?_getD, List.getElem?_map, List.getElem?_range (hl ▸ hk)]
  refine ⟨hl, by simp [invOf, hl], ?_, ?_⟩
  · intro n hn
    have hn' : n < p.length := hl ▸ hn
    have h1 : p.getD n 0 = p[n] := getD_eq_getElem' p n hn'
    have h2 : p[n] < r := (hm _).1 (List.getElem_mem hn')
    refine ⟨h1 ▸ h2, ?_⟩
    rw [h1, hget _ h2]
    exact hnd.idxOf_getElem n hn'
  · intro k hk
    have hmem : k ∈ p := (hm k).2 hk
    have hlt : p.idxOf k < p.length := List.idxOf_lt_length_of_mem hmem
    rw [hget k hk]
    refine ⟨hl ▸ hlt, ?_⟩
    rw [getD_eq_getElem' p _ hlt]
    exact List.getElem_idxOf hlt

/-- inverses are unique -/
theorem isInv_unique {mi rev rev' : List Nat} {r : Nat} (h : IsInv mi rev r) (h' : IsInv mi rev' r) : rev = rev' := by
  apply ext_getD (by rw [h.lrev, h'.lrev])
  intro k hk
  rw [h.lrev] at hk
  obtain ⟨hk1, hk2⟩ := h.right k hk
  have := (h'.left _ hk1).2
  rw [hk2] at this
  exact this.symm

end Fastor.Permute
