import FastorModel.Proofs.MatmulFills
import FastorModel.Proofs.TmatmulFills
/-
  C07: the *intermediate* store events (`Seg.pre`) of the matmul / tmatmul kernel models read nothing
  (spilled lanes, `kk = 0`) or re-read a prefix `k < kk ≤ K` of the `k` range of a cell that a final
  event of the same segment also produces (partial sums of the `M % u` remainder blocks and of
  `_matvecmul`).  `PreOK` is a property of one segment; `AllSegs` lifts it through the loop structure of
  the kernels (append / flatMap / map / if), with no arithmetic involved.
-/
namespace Fastor.Matmul
open Fastor

/-- every intermediate event is empty, or a shorter accumulation (from `k = 0`) for a cell of a final event -/
def PreOK (K : Nat) (s : Seg) : Prop :=
  ∀ e ∈ s.pre, e.kk = 0 ∨ (e.k0 = 0 ∧ e.kk ≤ K ∧ ∃ e' ∈ s.fin, e'.r = e.r ∧ e'.c = e.c)

def AllSegs (Q : Seg → Prop) (segs : List Seg) : Prop := ∀ s ∈ segs, Q s

variable {Q : Seg → Prop}

@[simp] theorem allSegs_nil : AllSegs Q [] := by simp [AllSegs]
@[simp] theorem allSegs_append {A B : List Seg} : AllSegs Q (A ++ B) ↔ AllSegs Q A ∧ AllSegs Q B := by
  simp only [AllSegs, List.mem_append]
  exact ⟨fun h => ⟨fun s hs => h s (Or.inl hs), fun s hs => h s (Or.inr hs)⟩,
    fun h s hs => hs.elim (h.1 s) (h.2 s)⟩
@[simp] theorem allSegs_flatMap {ι : Type} {L : List ι} {f : ι → List Seg} :
    AllSegs Q (L.flatMap f) ↔ ∀ x ∈ L, AllSegs Q (f x) := by
  simp only [AllSegs, List.mem_flatMap]
  exact ⟨fun h x hx s hs => h s ⟨x, hx, hs⟩, fun h s ⟨x, hx, hs⟩ => h x hx s hs⟩
@[simp] theorem allSegs_map {ι : Type} {L : List ι} {f : ι → Seg} :
    AllSegs Q (L.map f) ↔ ∀ x ∈ L, Q (f x) := by
  simp only [AllSegs, List.mem_map]
  exact ⟨fun h x hx => h _ ⟨x, hx, rfl⟩, fun h s ⟨x, hx, e⟩ => e ▸ h x hx⟩
@[simp] theorem allSegs_singleton {s : Seg} : AllSegs Q [s] ↔ Q s := by simp [AllSegs]
theorem allSegs_ite {c : Prop} [Decidable c] {A B : List Seg} (ha : AllSegs Q A) (hb : AllSegs Q B) :
    AllSegs Q (if c then A else B) := by split <;> assumption

variable {K : Nat}

@[simp] theorem preOK_block (rows cols : List Nat) (st : Nat) : PreOK K (block K rows cols st) := by
  intro e he; simp [block] at he

@[simp] theorem preOK_blockPartial (rows cols : List Nat) (st : Nat) : PreOK K (blockPartial K rows cols st) := by
  intro e he
  simp only [blockPartial, List.mem_flatMap, List.mem_range] at he
  obtain ⟨k, hk, he⟩ := he
  obtain ⟨a, b, c, _, e0⟩ := mem_cellEvents.1 he
  right
  exact ⟨e0, by omega, ⟨e.r, e.c, K, st, 0⟩, mem_cellEvents.2 ⟨a, b, rfl, rfl, rfl⟩, rfl, rfl⟩

@[simp] theorem allSegs_interior (V i j u nR nC : Nat) : AllSegs (PreOK K) (interior K V i j u nR nC) := by
  simp [interior]
@[simp] theorem allSegs_interiorScalar (i j u nR : Nat) : AllSegs (PreOK K) (interiorScalar K i j u nR) := by
  simp [interiorScalar]
@[simp] theorem allSegs_interiorMask (masks : Bool) (i j u nR w : Nat) :
    AllSegs (PreOK K) (interiorMask masks K i j u nR w) := by
  simp [interiorMask]

theorem allSegs_base (M N V : Nat) (bl : Blocking) : AllSegs (PreOK K) (base M K N V bl) := by
  unfold base
  simp only [allSegs_append, allSegs_flatMap, allSegs_map, allSegs_interior, allSegs_interiorScalar,
    preOK_block, preOK_blockPartial, implies_true, and_self, true_and]
  exact allSegs_ite (by simp) allSegs_nil

theorem allSegs_baseMasked (masks : Bool) (M N V : Nat) (bl : Blocking) :
    AllSegs (PreOK K) (baseMasked masks M K N V bl) := by
  unfold baseMasked
  simp only [allSegs_append, allSegs_flatMap, allSegs_map, allSegs_interior, allSegs_interiorMask,
    preOK_block, preOK_blockPartial, implies_true, and_self, true_and]
  exact allSegs_ite (by simp) allSegs_nil

theorem allSegs_tiny (M N V : Nat) : AllSegs (PreOK K) (tiny M K N V) := by
  unfold tiny; simp

theorem allSegs_nonPrimitive (M N : Nat) : AllSegs (PreOK K) (nonPrimitive M K N) := by
  unfold nonPrimitive; simp

theorem preOK_smallNRow (masks : Bool) (N V r : Nat) (sp lg : Bool) : PreOK K (smallNRow masks K N V r sp lg) := by
  intro e he
  left
  unfold smallNRow at he
  simp only at he
  split at he
  · simp only [List.mem_map, List.mem_range] at he
    obtain ⟨l, _, rfl⟩ := he; rfl
  · simp at he

theorem allSegs_smallN (masks : Bool) (M N V : Nat) : AllSegs (PreOK K) (smallN masks M K N V) := by
  unfold smallN
  simp only [allSegs_map]
  intro r _
  exact preOK_smallNRow masks N V r _ _

theorem preOK_matvecGroup (K1 i n : Nat) (hK1 : K1 ≤ K) : PreOK K (matvecGroup K K1 i n) := by
  intro e he
  unfold matvecGroup at he ⊢
  simp only at he ⊢
  split at he
  · simp at he
  · rename_i hne
    right
    simp only [List.mem_append, List.mem_map, List.mem_flatMap] at he
    rcases he with ⟨r, hr, rfl⟩ | ⟨j, hj, r, hr, rfl⟩
    · refine ⟨rfl, hK1, ?_⟩
      rw [if_neg hne]
      exact ⟨_, List.mem_map.2 ⟨r, hr, rfl⟩, rfl, rfl⟩
    · obtain ⟨t, _, hlt⟩ := (mem_forRange (by omega : 0 < 1)).1 hj
      refine ⟨rfl, by simp only; omega, ?_⟩
      rw [if_neg hne]
      exact ⟨_, List.mem_map.2 ⟨r, hr, rfl⟩, rfl, rfl⟩

theorem allSegs_matvec (M V : Nat) : AllSegs (PreOK K) (matvec M K V) := by
  have hK1 : K / V * V ≤ K := Nat.div_mul_le_self K V
  unfold matvec
  simp only
  split
  · simp
  · simp only [allSegs_append, allSegs_map]
    refine ⟨fun i _ => preOK_matvecGroup _ _ _ hK1, ?_⟩
    split
    · simp only [allSegs_singleton]; exact preOK_matvecGroup _ _ _ hK1
    · exact allSegs_nil

end Fastor.Matmul

namespace Fastor.Tmatmul
open Fastor Fastor.Matmul

variable {K : Nat}

@[simp] theorem preOK_tblock (rows cols : List Nat) (st k0 kk : Nat) : PreOK K (tblock rows cols st k0 kk) := by
  intro e he; simp [tblock] at he

@[simp] theorem allSegs_tinterior (lt rt : UpLo) (V i j u nR nC : Nat) :
    AllSegs (PreOK K) (tinterior lt rt K V i j u nR nC) := by simp [tinterior]
@[simp] theorem allSegs_tinteriorScalar (lt rt : UpLo) (i j u nR : Nat) :
    AllSegs (PreOK K) (tinteriorScalar lt rt K i j u nR) := by simp [tinteriorScalar]

theorem allSegs_tbase (lt rt : UpLo) (M N V : Nat) (bl : Blocking) : AllSegs (PreOK K) (tbase lt rt M K N V bl) := by
  unfold tbase
  simp only [allSegs_append, allSegs_flatMap, allSegs_map, allSegs_interior, allSegs_tinterior, allSegs_tinteriorScalar,
    preOK_block, preOK_tblock, preOK_blockPartial, implies_true, and_self, true_and]
  exact allSegs_ite (by simp) allSegs_nil

theorem allSegs_tbaseMasked (lt rt : UpLo) (masks : Bool) (M N V : Nat) (bl : Blocking) :
    AllSegs (PreOK K) (tbaseMasked lt rt masks M K N V bl) := by
  unfold tbaseMasked
  simp only [allSegs_append, allSegs_flatMap, allSegs_map, allSegs_interior, allSegs_interiorMask, allSegs_tinterior,
    preOK_block, preOK_tblock, preOK_blockPartial, implies_true, and_self, true_and]
  exact allSegs_ite (by simp) allSegs_nil

theorem allSegs_tnonPrimitive (lt rt : UpLo) (M N : Nat) : AllSegs (PreOK K) (tnonPrimitive lt rt M K N) := by
  unfold tnonPrimitive; simp

end Fastor.Tmatmul
