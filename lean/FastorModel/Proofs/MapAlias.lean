import FastorModel.Model.MapAlias
import FastorModel.Props.C02
import FastorModel.Proofs.Layout
/-
  In-place evaluation (what plain `=` does on a map) versus evaluation into a temporary (what it does on an owning
  tensor), for element-wise expressions: both leave `op(m p, e(p))` at every `p < n` and nothing else changes.
-/
namespace Fastor.MapAlias
open Fastor Fastor.Expr Fastor.Layout

variable {α : Type}

theorem applyWrites_map_range (lo W : Nat) (g : Nat → α) (cur : Nat → α) (q : Nat) :
    applyWrites ((List.range W).map fun l => (lo + l, g (lo + l))) cur q = if lo ≤ q ∧ q < lo + W then g q else cur q := by
  by_cases hq : lo ≤ q ∧ q < lo + W
  · rw [if_pos hq]
    apply applyWrites_functional
    · simp only [List.mem_map, List.mem_range]
      exact ⟨q - lo, by omega, by simp [show lo + (q - lo) = q by omega]⟩
    · intro v' hv'
      simp only [List.mem_map, List.mem_range] at hv'
      obtain ⟨l, _, hl⟩ := hv'
      have h1 : lo + l = q := congrArg Prod.fst hl
      have h2 : g (lo + l) = v' := congrArg Prod.snd hl
      rw [← h2, h1]
  · rw [if_neg hq, applyWrites_eq_lastWrite]
    have : lastWrite ((List.range W).map fun l => (lo + l, g (lo + l))) q = none := by
      rw [lastWrite_none_iff]
      intro w hw
      simp only [List.mem_map, List.mem_range] at hw
      obtain ⟨l, hl, rfl⟩ := hw
      simp only; omega
    rw [this]; rfl

/-- a threaded loop over `k` consecutive chunks of width `W` starting at `lo`, each chunk leaving `F` on its
    positions provided the memory still has the original contents `m` from the chunk on -/
theorem chunkFold_spec (stepW : (Nat → α) → Nat → List (Nat × α)) (W : Nat) (F m : Nat → α)
    (hstep : ∀ cur i, (∀ q, i ≤ q → cur q = m q) →
      ∀ q, applyWrites (stepW cur i) cur q = if i ≤ q ∧ q < i + W then F q else cur q)
    (k lo : Nat) (cur : Nat → α) (hcur : ∀ q, lo ≤ q → cur q = m q) (q : Nat) :
    applyWrites (chunkFold stepW ((List.range k).map fun t => lo + t * W) cur) cur q =
      if lo ≤ q ∧ q < lo + k * W then F q else cur q := by
  induction k generalizing lo cur with
  | zero => simp [chunkFold, applyWrites]; omega
  | succ k ih =>
    have hlist : (List.range (k + 1)).map (fun t => lo + t * W) =
        lo :: (List.range k).map (fun t => (lo + W) + t * W) := by
      rw [List.range_succ_eq_map]
      simp only [List.map_cons, List.map_map, Nat.zero_mul, Nat.add_zero]
      congr 1
      apply List.map_congr_left
      intro t _
      simp only [Function.comp]
      rw [Nat.succ_mul]; omega
    rw [hlist]
    simp only [chunkFold]
    rw [applyWrites_append]
    have hs := hstep cur lo hcur
    have hcur' : ∀ q, lo + W ≤ q → applyWrites (stepW cur lo) cur q = m q := by
      intro q hq
      rw [hs q, if_neg (by omega)]
      exact hcur q (by omega)
    rw [ih (lo + W) _ hcur', hs q]
    have hmul : (k + 1) * W = k * W + W := Nat.succ_mul k W
    by_cases h1 : lo + W ≤ q ∧ q < lo + W + k * W
    · rw [if_pos h1, if_pos (by omega)]
    · rw [if_neg h1]
      by_cases h2 : lo ≤ q ∧ q < lo + W
      · rw [if_pos h2, if_pos (by omega)]
      · rw [if_neg h2, if_neg (by omega)]

variable [Add α] [Sub α] [Mul α] [Neg α]

/-- an element-wise expression evaluated at `p` only looks at position `p` of its operands -/
theorem evalS_congr_at (ofInt : Int → α) (env1 env2 : Nat → Nat → α) (e : E) (p : Nat)
    (h : ∀ w, env1 w p = env2 w p) : evalS ofInt env1 e p = evalS ofInt env2 e p := by
  induction e with
  | t w => simp [evalS, h]
  | c k => simp [evalS]
  | bin op l r ihl ihr => simp [evalS, ihl, ihr]
  | neg e ih => simp [evalS, ih]

/-- the stores of one vector step, lane by lane -/
theorem vecStep_eq (ofInt : Int → α) (opnd : Nat → Nat → α) (op : AOp) (e : E) (V : Nat) (cur : Nat → α) (i : Nat) :
    vecStep ofInt opnd op e V cur i =
      (List.range V).map fun l => (i + l, op.ap (cur (i + l)) (evalS ofInt (envOf opnd cur) e (i + l))) := by
  unfold vecStep
  apply List.ext_getElem?
  intro k
  by_cases hk : k < V
  · have hl := C02.lanes_of_evalV ofInt (envOf opnd cur) V e i k hk
    simp only [List.getElem?_map, List.getElem?_range hk]
    rw [show ((evalV ofInt (envOf opnd cur) V e i).zip (List.range V))[k]? =
      some (evalS ofInt (envOf opnd cur) e (i + k), k) from by
        rw [List.getElem?_zip_eq_some]; exact ⟨hl, by simp [hk]⟩]
    simp
  · have h1 : ((evalV ofInt (envOf opnd cur) V e i).zip (List.range V)).length ≤ k := by
      simp [C02.evalV_length]; omega
    have h2 : (List.range V).length ≤ k := by simp; omega
    simp only [List.getElem?_map]
    rw [List.getElem?_eq_none h1, List.getElem?_eq_none h2]; rfl

/-- **in-place evaluation is evaluation of the snapshot**: a `trivial_assign*` pass executed in place (every step
    reading the memory as it is by then) leaves `op(m p, e(p))` — `e` evaluated on the ORIGINAL contents — at every
    `p < n`, and nothing else changes; for every element-wise expression, size and power-of-two width -/
theorem passInPlace_spec (ofInt : Int → α) (opnd : Nat → Nat → α) (op : AOp) (e : E) (n ex : Nat)
    (hn : n < 2 ^ 64) (hex : ex ≤ 64) (m : Nat → α) (q : Nat) :
    passInPlace ofInt opnd op e n (2 ^ ex) m q =
      if q < n then op.ap (m q) (evalS ofInt (envOf opnd m) e q) else m q := by
  have hV : 0 < 2 ^ ex := Nat.pow_pos (by omega)
  unfold passInPlace passWrites
  rw [C02.roundDown_pow2 n ex hn hex]
  simp only []
  have hR : n / 2 ^ ex * 2 ^ ex ≤ n := Nat.div_mul_le_self _ _
  have hexit : forExit 0 (n / 2 ^ ex * 2 ^ ex) (2 ^ ex) = n / 2 ^ ex * 2 ^ ex :=
    forExit_of_dvd hV (Nat.zero_le _) (by simp [Nat.dvd_mul_left])
  rw [hexit, applyWrites_append]
  let F : Nat → α := fun q => op.ap (m q) (evalS ofInt (envOf opnd m) e q)
  have hcong : ∀ (cur : Nat → α) (q : Nat), cur q = m q →
      op.ap (cur q) (evalS ofInt (envOf opnd cur) e q) = F q := by
    intro cur q hq
    show op.ap (cur q) _ = op.ap (m q) _
    rw [hq, evalS_congr_at ofInt (envOf opnd cur) (envOf opnd m) e q (by intro w; simp [envOf, hq])]
  -- the vector body
  have hvec : ∀ cur i, (∀ q, i ≤ q → cur q = m q) →
      ∀ q, applyWrites (vecStep ofInt opnd op e (2 ^ ex) cur i) cur q = if i ≤ q ∧ q < i + 2 ^ ex then F q else cur q := by
    intro cur i hc q
    rw [vecStep_eq, applyWrites_map_range i (2 ^ ex) (fun p => op.ap (cur p) (evalS ofInt (envOf opnd cur) e p)) cur q]
    by_cases h : i ≤ q ∧ q < i + 2 ^ ex
    · rw [if_pos h, if_pos h]; exact hcong cur q (hc q h.1)
    · rw [if_neg h, if_neg h]
  have hsc : ∀ cur i, (∀ q, i ≤ q → cur q = m q) →
      ∀ q, applyWrites (scalStep ofInt opnd op e cur i) cur q = if i ≤ q ∧ q < i + 1 then F q else cur q := by
    intro cur i hc q
    simp only [scalStep, applyWrites, List.foldl]
    by_cases h : q = i
    · subst h; rw [if_pos rfl, if_pos (by omega)]; exact hcong cur q (hc q (Nat.le_refl _))
    · rw [if_neg h, if_neg (by omega)]
  have hcount : forCount 0 (n / 2 ^ ex * 2 ^ ex) (2 ^ ex) = n / 2 ^ ex := by
    unfold forCount
    rw [Nat.sub_zero, Nat.add_comm, Nat.add_mul_div_right _ _ hV, Nat.div_eq_of_lt (by omega)]; simp
  have hbody := chunkFold_spec (vecStep ofInt opnd op e (2 ^ ex)) (2 ^ ex) F m hvec
    (forCount 0 (n / 2 ^ ex * 2 ^ ex) (2 ^ ex)) 0 m (fun _ _ => rfl)
  have hbody' : ∀ q, applyWrites (chunkFold (vecStep ofInt opnd op e (2 ^ ex)) (forRange 0 (n / 2 ^ ex * 2 ^ ex) (2 ^ ex)) m) m q
      = if q < n / 2 ^ ex * 2 ^ ex then F q else m q := by
    intro q
    have := hbody q
    rw [hcount] at this
    unfold forRange
    rw [hcount, this]
    simp
  have hcount2 : forCount (n / 2 ^ ex * 2 ^ ex) n 1 = n - n / 2 ^ ex * 2 ^ ex := by
    unfold forCount; simp
  have htail := chunkFold_spec (scalStep ofInt opnd op e) 1 F m hsc
    (forCount (n / 2 ^ ex * 2 ^ ex) n 1) (n / 2 ^ ex * 2 ^ ex)
    (applyWrites (chunkFold (vecStep ofInt opnd op e (2 ^ ex)) (forRange 0 (n / 2 ^ ex * 2 ^ ex) (2 ^ ex)) m) m)
    (fun q hq => by rw [hbody' q, if_neg (by omega)]) q
  have hbodyU := hbody'
  unfold forRange at hbodyU htail ⊢
  rw [htail, hcount2, hbodyU q]
  by_cases h1 : q < n
  · rw [if_pos h1]
    by_cases h2 : q < n / 2 ^ ex * 2 ^ ex
    · rw [if_neg (by omega), if_pos h2]
    · rw [if_pos (by omega)]
  · rw [if_neg h1, if_neg (by omega), if_neg (by omega)]

/-- plain `=` on an owning tensor (temporary, then copy) -/
theorem assignViaTemp_spec (ofInt : Int → α) (opnd : Nat → Nat → α) (e : E) (n ex : Nat)
    (hn : n < 2 ^ 64) (hex : ex ≤ 64) (cur dst tmp0 : Nat → α) (q : Nat) :
    assignViaTemp ofInt opnd e n (2 ^ ex) cur dst tmp0 q =
      if q < n then evalS ofInt (envOf opnd cur) e q else dst q := by
  unfold assignViaTemp viaTempWrites
  simp only []
  have := applyWrites_map_range 0 n
    (applyWrites (assignWrites ofInt (envOf opnd cur) AOp.set tmp0 e n (2 ^ ex)) tmp0) dst q
  simp only [Nat.zero_add, Nat.zero_le, true_and] at this
  rw [this]
  by_cases h : q < n
  · rw [if_pos h, if_pos h]
    exact (C02.assign_memory ofInt (envOf opnd cur) .set tmp0 e n ex hn hex q).1 h
  · rw [if_neg h, if_neg h]

end Fastor.MapAlias
