import Mathlib.Algebra.BigOperators.Group.Finset.Sigma
import FastorModel.Proofs.QRInv
/-
  C13 — the rational-QR family: if `A0 = Q0 * R0` with `Q0` having orthonormal columns, `R0` upper triangular and
  `sqrt (R0 i i ^ 2) = R0 i i ≠ 0`, then the dispatcher returns exactly `Q0`, `R0`, and the `i`-th argument of `sqrt`
  is `R0 i i ^ 2`.  This is why the exact correspondence runs never meet a non-square.
-/
namespace Fastor.QR
open Finset

variable {K : Type} [Field K]

structure Fam (M N : Nat) (A0 Q0 R0 : Mat K) (sqrt : K → K) : Prop where
  orth : ∀ p q, p < N → q < N → ∑ k ∈ range M, Q0 k p * Q0 k q = if p = q then 1 else 0
  upper : ∀ p j, j < p → R0 p j = 0
  root : ∀ i, i < N → sqrt (R0 i i * R0 i i) = R0 i i ∧ R0 i i ≠ 0
  prod : ∀ k j, k < M → j < N → A0 k j = ∑ p ∈ range N, Q0 k p * R0 p j

structure FInv (M N : Nat) (Q0 R0 : Mat K) (i : Nat) (s : St K) : Prop where
  fQ : ∀ k p, k < M → p < i → s.Q k p = Q0 k p
  fR : ∀ p j, p < i → j < N → s.R p j = R0 p j
  fW : ∀ k j, k < M → i ≤ j → j < N → s.W k j = ∑ p ∈ range N, (if i ≤ p then Q0 k p * R0 p j else 0)

theorem finv_step (sqrt : K → K) (M N i : Nat) (A0 Q0 R0 : Mat K) (s : St K) (hf : Fam M N A0 Q0 R0 sqrt)
    (hi : i < N) (hz : ∀ j, s.R i j = 0) (h : FInv M N Q0 R0 i s) :
    colNorm2 M s.W i = R0 i i * R0 i i ∧ FInv M N Q0 R0 (i + 1) (outerStep sqrt M N i s) := by
  have hWi : ∀ k, k < M → s.W k i = Q0 k i * R0 i i := by
    intro k hk
    rw [h.fW k i hk (Nat.le_refl i) hi, sum_eq_single i]
    · rw [if_pos (Nat.le_refl i)]
    · intro p _ hpi
      by_cases hip : i ≤ p
      · rw [if_pos hip, hf.upper p i (by omega), mul_zero]
      · rw [if_neg hip]
    · intro hni; exact absurd (mem_range.2 hi) hni
  have hnorm : colNorm2 M s.W i = R0 i i * R0 i i := by
    rw [colNorm2_eq, sum_congr rfl (fun k hk => by
      rw [hWi k (mem_range.1 hk), show Q0 k i * R0 i i * (Q0 k i * R0 i i) = (Q0 k i * Q0 k i) * (R0 i i * R0 i i) by ring]),
      ← sum_mul, hf.orth i i hi hi, if_pos rfl, one_mul]
  refine ⟨hnorm, ?_⟩
  have hr := hf.root i hi
  have hQ := outerStep_Q sqrt M N i s
  have hR := outerStep_R sqrt M N i s
  have hW := outerStep_W sqrt M N i s
  rw [hnorm, hr.1] at hQ hR
  generalize outerStep sqrt M N i s = s' at hQ hR hW
  have hQi : ∀ k, k < M → s'.Q k i = Q0 k i := by
    intro k hk
    rw [hQ, if_pos ⟨rfl, hk⟩, hWi k hk, mul_div_assoc, div_self hr.2, mul_one]
  have hRij : ∀ j, i + 1 ≤ j → j < N → s'.R i j = R0 i j := by
    intro j h1 h2
    rw [hR, if_pos ⟨rfl, h1, h2⟩, set2_get, if_neg (by omega), hz j, zero_add]
    rw [sum_congr rfl (fun k hk => by
      rw [hQi k (mem_range.1 hk), h.fW k j (mem_range.1 hk) (by omega) h2, mul_sum])]
    rw [sum_comm]
    rw [sum_eq_single i]
    · rw [sum_congr rfl (fun k _ => by
        rw [if_pos (Nat.le_refl i), show Q0 k i * (Q0 k i * R0 i j) = (Q0 k i * Q0 k i) * R0 i j by ring]),
        ← sum_mul, hf.orth i i hi hi, if_pos rfl, one_mul]
    · intro p hp hpi
      by_cases hip : i ≤ p
      · rw [sum_congr rfl (fun k _ => by
          rw [if_pos hip, show Q0 k i * (Q0 k p * R0 p j) = (Q0 k i * Q0 k p) * R0 p j by ring]),
          ← sum_mul, hf.orth i p hi (mem_range.1 hp), if_neg (Ne.symm hpi), zero_mul]
      · simp [hip]
    · intro hni; exact absurd (mem_range.2 hi) hni
  refine ⟨?_, ?_, ?_⟩
  · intro k p hk hp
    rcases Nat.lt_succ_iff_lt_or_eq.1 hp with hp | rfl
    · rw [hQ, if_neg (by omega)]; exact h.fQ k p hk hp
    · exact hQi k hk
  · intro p j hp hj
    rcases Nat.lt_succ_iff_lt_or_eq.1 hp with hp | rfl
    · rw [hR, if_neg (by omega), set2_get, if_neg (by omega)]; exact h.fR p j hp hj
    · rcases Nat.lt_trichotomy j p with hlt | rfl | hgt
      · rw [hR, if_neg (by omega), set2_get, if_neg (by omega), hz j, hf.upper p j hlt]
      · rw [hR, if_neg (by omega), set2_get, if_pos ⟨rfl, rfl⟩]
      · exact hRij j (by omega) hj
  · intro k j hk h1 h2
    rw [hW, if_pos ⟨hk, h1, h2⟩, hQi k hk, hRij j h1 h2, h.fW k j hk (by omega) h2]
    have hsplit : ∀ p, (if i ≤ p then Q0 k p * R0 p j else 0)
        = (if p = i then Q0 k i * R0 i j else 0) + (if i + 1 ≤ p then Q0 k p * R0 p j else 0) := by
      intro p
      by_cases h3 : p = i
      · subst h3; rw [if_pos (Nat.le_refl p), if_pos rfl, if_neg (by omega), add_zero]
      · by_cases h4 : i ≤ p
        · rw [if_pos h4, if_neg h3, if_pos (by omega), zero_add]
        · rw [if_neg h4, if_neg h3, if_neg (by omega), add_zero]
    rw [sum_congr rfl (fun p _ => hsplit p), sum_add_distrib, sum_ite_eq' (range N) i, if_pos (mem_range.2 hi)]
    ring

/-- on the family the state after `i` iterations holds the first `i` columns of `Q0` and rows of `R0`, and the
    arguments of `sqrt` so far were the squares `R0 t t ^ 2` -/
theorem finv_stateAt (sqrt : K → K) (M N : Nat) (A0 Qin Q0 R0 : Mat K) (hf : Fam M N A0 Q0 R0 sqrt) (i : Nat) (hi : i ≤ N) :
    FInv M N Q0 R0 i (stateAt sqrt M N A0 Qin i)
    ∧ ∀ t, t < i → normArg sqrt M N A0 Qin t = R0 t t * R0 t t := by
  induction i with
  | zero =>
    refine ⟨⟨by intro k p _ hp; omega, by intro p j hp; omega, ?_⟩, by intro t ht; omega⟩
    intro k j hk _ hj
    show A0 k j = _
    rw [hf.prod k j hk hj]
    exact sum_congr rfl (fun p _ => by rw [if_pos (Nat.zero_le p)])
  | succ n ih =>
    obtain ⟨h1, h2⟩ := ih (by omega)
    have hstep := finv_step sqrt M N n A0 Q0 R0 _ hf (by omega)
      (fun j => rzero_stateAt sqrt M N A0 Qin n n j (Or.inr (Nat.le_refl n))) h1
    rw [stateAt_succ]
    refine ⟨hstep.2, ?_⟩
    intro t ht
    rcases Nat.lt_succ_iff_lt_or_eq.1 ht with ht | rfl
    · exact h2 t ht
    · exact hstep.1

end Fastor.QR
