import FastorModel.Proofs.ViewWrite
/-
  The n-D odometer of the view assignment operators (`odoNext`, `odoLoop` in Model/ViewWrite.lean) visits
  every multi-index of the box exactly once, in row-major order, for every rank (induction on the rank).
-/
namespace Fastor.ViewWrite
open Fastor

/-- the box in row-major order: axis values `0, inc, 2 inc, … < e` -/
def box : List (Nat × Nat) → List (List Nat)
  | [] => [[]]
  | (e, inc) :: es => (forRange 0 e inc).flatMap fun a => (box es).map (a :: ·)

/-- following `odoNext` from `as` visits exactly the list `L` and then runs off the front -/
inductive Steps (ei : List (Nat × Nat)) : List Nat → List (List Nat) → Prop
  | last {as} : odoNext ei as = none → Steps ei as [as]
  | cons {as as' L} : odoNext ei as = some as' → Steps ei as' L → Steps ei as (as :: L)

theorem Steps.ne_nil {ei as L} (h : Steps ei as L) : L ≠ [] := by cases h <;> simp

/-- lifting a trajectory of the inner axes under one more (outer) axis -/
theorem steps_lift (e inc a : Nat) (es : List (Nat × Nat)) {as : List Nat} {L : List (List Nat)} (h : Steps es as L) :
    (¬ a + inc < e → Steps ((e, inc) :: es) (a :: as) (L.map (a :: ·))) ∧
    (a + inc < e → ∀ L2, Steps ((e, inc) :: es) ((a + inc) :: es.map (fun _ => 0)) L2 →
        Steps ((e, inc) :: es) (a :: as) (L.map (a :: ·) ++ L2)) := by
  induction h with
  | last hn =>
    refine ⟨?_, ?_⟩
    · intro hlt
      apply Steps.last
      simp [odoNext, hn, hlt]
    · intro hlt L2 h2
      simp only [List.map_cons, List.map_nil, List.cons_append, List.nil_append]
      apply Steps.cons _ h2
      simp [odoNext, hn, hlt]
  | cons hs _ ih =>
    refine ⟨?_, ?_⟩
    · intro hlt
      simp only [List.map_cons]
      apply Steps.cons _ (ih.1 hlt)
      simp [odoNext, hs]
    · intro hlt L2 h2
      simp only [List.map_cons, List.cons_append]
      apply Steps.cons _ (ih.2 hlt L2 h2)
      simp [odoNext, hs]

theorem forRange_cons {lo hi s : Nat} (hs : 0 < s) (h : lo < hi) : forRange lo hi s = lo :: forRange (lo + s) hi s := by
  unfold forRange
  have hc : forCount lo hi s = forCount (lo + s) hi s + 1 := by
    unfold forCount
    have : hi - lo + (s - 1) = (hi - (lo + s) + (s - 1)) + s ∨ hi < lo + s := by omega
    rcases this with h1 | h1
    · rw [h1, Nat.add_div_right _ hs]
    · have h2 : hi - (lo + s) = 0 := by omega
      rw [h2]
      have h3 : (0 + (s - 1)) / s = 0 := Nat.div_eq_of_lt (by omega)
      rw [h3]
      have h4 : hi - lo + (s - 1) = (hi - lo - 1) + s := by omega
      rw [h4, Nat.add_div_right _ hs, Nat.div_eq_of_lt (by omega)]
  rw [hc, List.range_succ_eq_map, List.map_cons, List.map_map]
  simp only [Nat.zero_mul, Nat.add_zero, List.cons.injEq, true_and]
  apply List.map_congr_left
  intro t _
  simp [Nat.succ_mul]; omega

theorem forRange_nil {lo hi s : Nat} (h : hi ≤ lo) : forRange lo hi s = [] := by
  unfold forRange forCount
  have : hi - lo = 0 := by omega
  rw [this]
  by_cases hs : s = 0
  · subst hs; simp
  · rw [Nat.zero_add, Nat.div_eq_of_lt (by omega)]; rfl

/-- **the odometer enumerates the box**: starting from all zeros, for every rank -/
theorem steps_box (ei : List (Nat × Nat)) (hpos : ∀ x ∈ ei, 0 < x.1 ∧ 0 < x.2) :
    Steps ei (ei.map fun _ => 0) (box ei) := by
  induction ei with
  | nil => exact Steps.last (by simp [odoNext])
  | cons x es ih =>
    obtain ⟨e, inc⟩ := x
    have hx := hpos (e, inc) (by simp)
    have ihes := ih (fun y hy => hpos y (List.mem_cons_of_mem _ hy))
    -- from the state (a, 0, …, 0) the rest of the box is visited; induction on the distance to the end
    have key : ∀ n a, e - a ≤ n → a < e →
        Steps ((e, inc) :: es) (a :: es.map (fun _ => 0)) ((forRange a e inc).flatMap fun a' => (box es).map (a' :: ·)) := by
      intro n
      induction n with
      | zero => intro a h1 h2; omega
      | succ n ihn =>
        intro a h1 h2
        rw [forRange_cons hx.2 h2, List.flatMap_cons]
        have hl := steps_lift e inc a es ihes
        by_cases hlt : a + inc < e
        · exact hl.2 hlt _ (ihn (a + inc) (by omega) hlt)
        · rw [forRange_nil (by omega : e ≤ a + inc)]
          simp only [List.flatMap_nil, List.append_nil]
          exact hl.1 hlt
    have := key e 0 (by omega) hx.1
    simpa [box] using this

/-- the loop with its counter emits the trajectory, as long as the counter guard and the fuel allow -/
theorem odoLoop_of_steps (ei : List (Nat × Nat)) (total cstep : Nat) {as : List Nat} {L : List (List Nat)}
    (h : Steps ei as L) (fuel c : Nat) (hf : L.length ≤ fuel) (hc : c + (L.length - 1) * cstep < total) :
    odoLoop ei total cstep fuel c as = (List.range L.length).zipWith (fun k a => (a, c + k * cstep)) L := by
  induction h generalizing fuel c with
  | last hn =>
    cases fuel with
    | zero => simp at hf
    | succ fuel =>
      simp only [List.length_cons, List.length_nil] at hc
      have : c < total := by omega
      simp [odoLoop, this, hn]
  | @cons as as' L hs hrest ih =>
    cases fuel with
    | zero => simp at hf
    | succ fuel =>
      simp only [List.length_cons] at hf hc
      have hL : 1 ≤ L.length := by
        have := hrest.ne_nil
        cases L with
        | nil => exact absurd rfl this
        | cons _ _ => simp
      have hlt : c < total := by
        have : 0 ≤ (L.length + 1 - 1) * cstep := Nat.zero_le _
        omega
      have ih' := ih fuel (c + cstep) (by omega) (by
        have : (L.length + 1 - 1) * cstep = (L.length - 1) * cstep + cstep := by
          have : L.length + 1 - 1 = (L.length - 1) + 1 := by omega
          rw [this, Nat.succ_mul]
        omega)
      simp only [odoLoop, hlt, if_true, hs, ih', List.length_cons]
      rw [List.range_succ_eq_map]
      simp only [List.zipWith_cons_cons, Nat.zero_mul, Nat.add_zero, List.cons.injEq, true_and, List.zipWith_map_left]
      congr 1
      funext k a
      rw [Nat.succ_mul]
      congr 1
      omega

theorem box_length (ei : List (Nat × Nat)) : (box ei).length = (ei.map fun x => forCount 0 x.1 x.2).prod := by
  induction ei with
  | nil => rfl
  | cons x es ih =>
    obtain ⟨e, inc⟩ := x
    simp only [box, List.length_flatMap, List.length_map, List.map_cons, List.prod_cons]
    rw [ih]
    simp only [forRange, List.map_map, Function.comp_def, List.map_const', List.length_range]
    induction forCount 0 e inc with
    | zero => simp
    | succ n ihn => rw [List.replicate_succ, List.sum_cons, ihn, Nat.succ_mul, Nat.add_comm]

/-! ### the lanes of the n-D loops, listed as multi-indices of the full box -/

theorem zipWith_range_map {β γ : Type} (L : List β) (h : Nat → Nat) (F : β → γ) :
    ((List.range L.length).zipWith (fun k a => (a, h k)) L).map (fun st => F st.1) = L.map F := by
  induction L generalizing h with
  | nil => simp
  | cons x xs ih =>
    simp only [List.length_cons, List.range_succ_eq_map, List.zipWith_cons_cons, List.map_cons, List.zipWith_map_left]
    congr 1
    exact ih (fun k => h (k + 1))

theorem incs_one (exts : List Nat) : incs exts 1 = exts.map fun e => (e, 1) := by
  induction exts with
  | nil => rfl
  | cons e es ih =>
    cases es with
    | nil => rfl
    | cons e' es' => simp only [incs, List.map_cons] at ih ⊢; rw [ih]

/-- vector branch: the states of the odometer with the last axis stepping by `V`, each expanded into its `V`
    lanes, are the multi-indices of the full box in row-major order, at the right positions -/
theorem odo_lanes_vec (V : Nat) (hV : 0 < V) : ∀ (axs : List Ax) (dims : List Nat), axs ≠ [] → dims.length = axs.length →
    (lastAx axs).step = 1 → V ∣ (lastAx axs).ext → ∀ pb jb : Nat,
    (box (incs (axs.map (·.ext)) V)).flatMap (fun as => (List.range V).map fun l =>
        (pb + (posOf dims axs as + l), jb + (flat (axs.map (·.ext)) as + l))) =
    (box (incs (axs.map (·.ext)) 1)).map (fun j => (pb + posOf dims axs j, jb + flat (axs.map (·.ext)) j)) := by
  intro axs
  induction axs with
  | nil => intro dims h; exact absurd rfl h
  | cons a rest ih =>
    intro dims _ hlen hstep hdvd pb jb
    cases dims with
    | nil => simp at hlen
    | cons d ds =>
      cases rest with
      | nil =>
        -- the last axis
        have hds : ds = [] := by
          simp only [List.length_cons, List.length_nil] at hlen
          exact List.length_eq_zero_iff.1 (by omega)
        subst hds
        simp only [lastAx] at hstep hdvd
        obtain ⟨q, hq⟩ := hdvd
        simp only [List.map_cons, List.map_nil, incs, box, List.flatMap_map, List.map_map]
        rw [hq, Nat.mul_comm V q, forRange_step q V hV, forRange_one]
        simp only [Nat.sub_zero, List.flatMap_map, List.map_map, Function.comp_def, List.map_nil, List.map_cons, Nat.zero_add]
        rw [flatMap_single (fun a => [a * V]), flatMap_single (fun a => [a])]
        simp only [List.flatMap_map, List.map_map, Function.comp_def, posOf, flat, List.prod_nil, Nat.mul_one, Nat.add_zero, hstep]
        have h := range_blocks (fun k => (pb + (k + a.first), jb + k)) V q
        rw [← h]
        congr 1
        funext t
        apply List.map_congr_left
        intro l _
        generalize t * V = x
        have : x + a.first + l = x + l + a.first := by omega
        rw [this]
      | cons b rest' =>
        have hlast : lastAx (a :: b :: rest') = lastAx (b :: rest') := rfl
        rw [hlast] at hstep hdvd
        have hlen' : ds.length = (b :: rest').length := by simpa using hlen
        have ih' := ih ds (by simp) hlen' hstep hdvd
        have hincs : ∀ w, incs ((a :: b :: rest').map (·.ext)) w = (a.ext, 1) :: incs ((b :: rest').map (·.ext)) w := by
          intro w; simp [incs]
        rw [hincs V, hincs 1]
        simp only [box, List.flatMap_assoc, List.map_flatMap, List.flatMap_map, List.map_map, Function.comp_def]
        congr 1
        funext x
        have hp : ∀ as, posOf (d :: ds) (a :: b :: rest') (x :: as) = (x * a.step + a.first) * ds.prod + posOf ds (b :: rest') as := by
          intro as; rfl
        have hf : ∀ as, flat ((a :: b :: rest').map (·.ext)) (x :: as) = x * ((b :: rest').map (·.ext)).prod + flat ((b :: rest').map (·.ext)) as := by
          intro as; rfl
        simp only [hp, hf]
        have := ih' (pb + (x * a.step + a.first) * ds.prod) (jb + x * ((b :: rest').map (·.ext)).prod)
        simp only [Nat.add_assoc] at this ⊢
        exact this

theorem incs_zeros (exts : List Nat) (w : Nat) : (incs exts w).map (fun _ => 0) = exts.map fun _ => 0 := by
  induction exts with
  | nil => rfl
  | cons e es ih =>
    cases es with
    | nil => rfl
    | cons e' es' => simp only [incs, List.map_cons] at ih ⊢; rw [ih]

theorem incs_pos (exts : List Nat) (w : Nat) (hw : 0 < w) (he : ∀ e ∈ exts, 0 < e) :
    ∀ x ∈ incs exts w, 0 < x.1 ∧ 0 < x.2 := by
  induction exts with
  | nil => intro x hx; simp [incs] at hx
  | cons e es ih =>
    cases es with
    | nil =>
      intro x hx
      simp only [incs, List.mem_singleton] at hx
      subst hx
      exact ⟨he e (by simp), hw⟩
    | cons e' es' =>
      intro x hx
      simp only [incs, List.mem_cons] at hx
      rcases hx with rfl | hx
      · exact ⟨he e (by simp), Nat.one_pos⟩
      · exact ih (fun y hy => he y (List.mem_cons_of_mem _ hy)) x (by simpa [incs] using hx)

theorem prod_pos_of (l : List Nat) (h : ∀ e ∈ l, 0 < e) : 0 < l.prod := by
  induction l with
  | nil => simp
  | cons x xs ih =>
    rw [List.prod_cons]
    exact Nat.mul_pos (h x (by simp)) (ih fun e he => h e (List.mem_cons_of_mem _ he))

theorem forCount_one (e : Nat) : forCount 0 e 1 = e := by unfold forCount; simp

theorem forCount_mul (q V : Nat) (hV : 0 < V) : forCount 0 (q * V) V = q := by
  unfold forCount
  rw [Nat.sub_zero, Nat.mul_comm, Nat.mul_add_div hV, Nat.div_eq_of_lt (by omega)]; simp

/-- number of odometer states times the lane count = number of elements of the slice -/
theorem box_len_mul (V : Nat) (hV : 0 < V) : ∀ (exts : List Nat), exts ≠ [] → V ∣ exts.getLast! →
    (box (incs exts V)).length * V = exts.prod := by
  intro exts
  induction exts with
  | nil => intro h; exact absurd rfl h
  | cons e es ih =>
    intro _ hd
    cases es with
    | nil =>
      simp only [List.getLast!, List.getLast] at hd
      obtain ⟨q, hq⟩ := hd
      rw [box_length]
      simp only [incs, List.map_cons, List.map_nil, List.prod_cons, List.prod_nil, Nat.mul_one]
      rw [hq, Nat.mul_comm V q, forCount_mul q V hV]
    | cons e' es' =>
      have hd' : V ∣ (e' :: es').getLast! := by simpa [List.getLast!, List.getLast] using hd
      have := ih (by simp) hd'
      rw [box_length] at this ⊢
      simp only [incs, List.map_cons, List.prod_cons, forCount_one] at this ⊢
      rw [Nat.mul_assoc, this]

theorem lastAx_ext (axs : List Ax) (h : axs ≠ []) : (axs.map (·.ext)).getLast! = (lastAx axs).ext := by
  induction axs with
  | nil => exact absurd rfl h
  | cons a rest ih =>
    cases rest with
    | nil => rfl
    | cons b r => simpa [List.getLast!, List.getLast, lastAx] using ih (by simp)

/-- **the lanes of the n-D loops** (equal-order binders, either counter step): the multi-indices of the full
    box in row-major order, element `j` stored at `posOf j` and taking rhs element `flat j` -/
theorem odo_lanes (V : Nat) (hV : 0 < V) (dims : List Nat) (axs : List Ax) (hne : axs ≠ []) (hlen : dims.length = axs.length)
    (hext : ∀ a ∈ axs, 0 < a.ext) (cstep : Nat) (hcs : cstep = V ∨ cstep = 1) :
    lanesOf (odoIters V dims axs false cstep) =
      (box (incs (axs.map (·.ext)) 1)).map fun j => (posOf dims axs j, flat (axs.map (·.ext)) j) := by
  have hepos : ∀ e ∈ axs.map (·.ext), 0 < e := by
    intro e he; obtain ⟨a, ha, rfl⟩ := List.mem_map.1 he; exact hext a ha
  have htot : 0 < (axs.map (·.ext)).prod := prod_pos_of _ hepos
  unfold odoIters
  simp only []
  by_cases hc : (lastAx axs).ext % V = 0 ∧ (lastAx axs).step = 1
  · simp only [hc, and_self, if_true]
    have hdvd : V ∣ (lastAx axs).ext := Nat.dvd_of_mod_eq_zero hc.1
    have hsteps := steps_box (incs (axs.map (·.ext)) V) (incs_pos _ V hV hepos)
    rw [incs_zeros] at hsteps
    have hlenmul := box_len_mul V hV (axs.map (·.ext)) (by simpa using hne) (by rw [lastAx_ext axs hne]; exact hdvd)
    have hL1 : 1 ≤ (box (incs (axs.map (·.ext)) V)).length := by
      have := hsteps.ne_nil
      cases hb : box (incs (axs.map (·.ext)) V) with
      | nil => exact absurd hb this
      | cons _ _ => simp
    have hloop := odoLoop_of_steps (incs (axs.map (·.ext)) V) (axs.map (·.ext)).prod cstep hsteps
      (axs.map (·.ext)).prod 0
      (by rw [← hlenmul]; exact Nat.le_mul_of_pos_right _ hV)
      (by
        rw [Nat.zero_add, ← hlenmul]
        rcases hcs with h | h <;> rw [h]
        · have : (box (incs (axs.map (·.ext)) V)).length = ((box (incs (axs.map (·.ext)) V)).length - 1) + 1 := by omega
          rw [this, Nat.succ_mul]; simp only [Nat.add_sub_cancel]; omega
        · have h1 : (box (incs (axs.map (·.ext)) V)).length ≤ (box (incs (axs.map (·.ext)) V)).length * V :=
            Nat.le_mul_of_pos_right _ hV
          omega)
    rw [hloop]
    unfold lanesOf
    rw [List.flatMap_def, List.map_map]
    have := zipWith_range_map (box (incs (axs.map (·.ext)) V)) (fun k => 0 + k * cstep)
      (fun as => (List.range V).map fun l => (posOf dims axs as + l, flat (axs.map (·.ext)) as + l))
    simp only [Function.comp_def, Bool.false_eq_true, if_false] at this ⊢
    rw [this, ← List.flatMap_def]
    have hv := odo_lanes_vec V hV axs dims hne hlen hc.2 hdvd 0 0
    simpa using hv
  · simp only [hc, if_false]
    have hsteps := steps_box (incs (axs.map (·.ext)) 1) (incs_pos _ 1 (by decide) hepos)
    rw [incs_zeros] at hsteps
    have hblen : (box (incs (axs.map (·.ext)) 1)).length = (axs.map (·.ext)).prod := by
      rw [box_length, incs_one, List.map_map]
      simp [Function.comp_def, forCount_one]
    have hloop := odoLoop_of_steps (incs (axs.map (·.ext)) 1) (axs.map (·.ext)).prod 1 hsteps
      (axs.map (·.ext)).prod 0 (by rw [hblen]; exact Nat.le_refl _) (by rw [hblen]; omega)
    rw [hloop]
    unfold lanesOf
    rw [List.flatMap_def, List.map_map]
    have := zipWith_range_map (box (incs (axs.map (·.ext)) 1)) (fun k => 0 + k * 1)
      (fun as => [(posOf dims axs as, flat (axs.map (·.ext)) as)])
    simp only [Function.comp_def, Bool.false_eq_true, if_false] at this ⊢
    rw [this, ← List.flatMap_def, flatMap_single]

/-! ### the running counter of the unequal-order binders is the flat index -/

theorem forRange_range (e : Nat) : forRange 0 e 1 = List.range e := by
  rw [forRange_one]; simp

theorem zipWith_range_eq_map {β : Type} (L : List β) (g : β → Nat) (h : Nat → Nat)
    (hgh : L.map g = (List.range L.length).map h) :
    (List.range L.length).zipWith (fun k a => (a, h k)) L = L.map fun a => (a, g a) := by
  induction L generalizing h with
  | nil => simp
  | cons x xs ih =>
    simp only [List.length_cons, List.range_succ_eq_map, List.map_cons, List.map_map, List.cons.injEq] at hgh
    simp only [List.length_cons, List.range_succ_eq_map, List.zipWith_cons_cons, List.map_cons, List.zipWith_map_left,
      List.cons.injEq, hgh.1, true_and]
    exact ih (fun k => h (k + 1)) (by simpa [Function.comp_def] using hgh.2)

theorem sum_const_range (n c : Nat) : ((List.range n).map fun _ => c).sum = n * c := by
  induction n with
  | zero => simp
  | succ n ihn => rw [List.range_succ, List.map_append, List.sum_append, ihn]; simp [Nat.succ_mul]

/-- the `k`-th state of the odometer (last axis stepping by `V`) has flat index `k * V` -/
theorem box_flat (V : Nat) (hV : 0 < V) : ∀ (exts : List Nat), exts ≠ [] → V ∣ exts.getLast! →
    (box (incs exts V)).map (flat exts) = (List.range (box (incs exts V)).length).map (· * V) := by
  intro exts
  induction exts with
  | nil => intro h; exact absurd rfl h
  | cons e es ih =>
    intro _ hd
    cases es with
    | nil =>
      simp only [List.getLast!, List.getLast] at hd
      obtain ⟨q, hq⟩ := hd
      rw [box_length]
      simp only [incs, box, List.map_cons, List.map_nil, List.prod_cons, List.prod_nil, Nat.mul_one]
      rw [hq, Nat.mul_comm V q, forCount_mul q V hV, forRange_step q V hV, flatMap_single (fun a => [a])]
      simp [List.map_map, Function.comp_def, flat]
    | cons e' es' =>
      have hd' : V ∣ (e' :: es').getLast! := by simpa [List.getLast!, List.getLast] using hd
      have ih' := ih (by simp) hd'
      have hlen := box_len_mul V hV (e' :: es') (by simp) hd'
      have hincs : incs (e :: e' :: es') V = (e, 1) :: incs (e' :: es') V := by simp [incs]
      rw [hincs]
      simp only [box, List.map_flatMap, List.map_map, Function.comp_def, List.length_flatMap, List.length_map]
      rw [forRange_range]
      have hf : ∀ (x : Nat) (as : List Nat), flat (e :: e' :: es') (x :: as) = x * (e' :: es').prod + flat (e' :: es') as := by
        intro x as; rfl
      simp only [hf]
      rw [sum_const_range]
      have hb := range_blocks (fun k => k * V) (box (incs (e' :: es') V)).length e
      rw [← hb]
      congr 1
      funext x
      have : (box (incs (e' :: es') V)).map (fun as => x * (e' :: es').prod + flat (e' :: es') as) =
          ((box (incs (e' :: es') V)).map (flat (e' :: es'))).map (fun y => x * (e' :: es').prod + y) := by
        rw [List.map_map]; rfl
      rw [this, ih', List.map_map]
      apply List.map_congr_left
      intro k _
      simp only [Function.comp]
      rw [← hlen, Nat.add_mul, Nat.mul_assoc]

/-- **binders of unequal order**: reading the right-hand side through the running counter is reading it through
    the flat index of the multi-index — the two forms of the n-D loops are the same program -/
theorem odo_flat_eq (V : Nat) (hV : 0 < V) (dims : List Nat) (axs : List Ax) (hne : axs ≠ []) (hext : ∀ a ∈ axs, 0 < a.ext) :
    odoIters V dims axs true V = odoIters V dims axs false V := by
  have hepos : ∀ e ∈ axs.map (·.ext), 0 < e := by
    intro e he; obtain ⟨a, ha, rfl⟩ := List.mem_map.1 he; exact hext a ha
  have htot : 0 < (axs.map (·.ext)).prod := prod_pos_of _ hepos
  have hne' : axs.map (·.ext) ≠ [] := by simpa using hne
  -- for either increment W dividing the last extent the loop output pairs each state with its flat index
  have key : ∀ W, 0 < W → W ∣ (lastAx axs).ext →
      odoLoop (incs (axs.map (·.ext)) W) (axs.map (·.ext)).prod W (axs.map (·.ext)).prod 0 (axs.map (fun _ => 0)) =
        (box (incs (axs.map (·.ext)) W)).map fun a => (a, flat (axs.map (·.ext)) a) := by
    intro W hW hdvd
    have hsteps := steps_box (incs (axs.map (·.ext)) W) (incs_pos _ W hW hepos)
    rw [incs_zeros, List.map_map] at hsteps
    have hd' : W ∣ (axs.map (·.ext)).getLast! := by rw [lastAx_ext axs hne]; exact hdvd
    have hlenmul := box_len_mul W hW (axs.map (·.ext)) hne' hd'
    have hloop := odoLoop_of_steps (incs (axs.map (·.ext)) W) (axs.map (·.ext)).prod W hsteps
      (axs.map (·.ext)).prod 0
      (by rw [← hlenmul]; exact Nat.le_mul_of_pos_right _ hW)
      (by
        have hL1 : 1 ≤ (box (incs (axs.map (·.ext)) W)).length := by
          have := hsteps.ne_nil
          cases hb : box (incs (axs.map (·.ext)) W) with
          | nil => exact absurd hb this
          | cons _ _ => simp
        rw [Nat.zero_add, ← hlenmul]
        have : (box (incs (axs.map (·.ext)) W)).length = ((box (incs (axs.map (·.ext)) W)).length - 1) + 1 := by omega
        rw [this, Nat.succ_mul]; simp only [Nat.add_sub_cancel]; omega)
    have hcomp : (fun (_ : Ax) => (0 : Nat)) = ((fun _ => 0) ∘ fun (x : Ax) => x.ext) := rfl
    rw [hcomp, hloop]
    have := zipWith_range_eq_map (box (incs (axs.map (·.ext)) W)) (flat (axs.map (·.ext))) (fun k => k * W)
      (box_flat W hW _ hne' hd')
    simpa using this
  unfold odoIters
  simp only [List.map_map, Function.comp_def]
  by_cases hc : (lastAx axs).ext % V = 0 ∧ (lastAx axs).step = 1
  · simp only [hc, and_self, if_true]
    rw [key V hV (Nat.dvd_of_mod_eq_zero hc.1), List.map_map, List.map_map]
    simp [Function.comp_def]
  · simp only [hc, if_false]
    rw [key 1 Nat.one_pos (Nat.one_dvd _), List.map_map, List.map_map]
    simp [Function.comp_def]

end Fastor.ViewWrite
