import FastorModel.Model.LU
/-
  C12 — solve.  Executable model of

    unary_lu_op.h     forward_subs_impl / forward_subs (single, multiple right-hand sides, pivoted)   -> `forwardCol`, `forwardSubs`
                      backward_subs_impl / backward_subs                                            -> `backwardCol`, `backwardSubs`
                      get_lu_solve, solve<SolveCompType::{Simple,Block}LU[Piv]>                       -> `luSolve`, `solve`
    binary_solve_op.h solve<SimpleInv>, solve<SimpleInvPiv> (vector and matrix right-hand sides),
                      the four expression overloads (evaluate the operands, then the tensor overload) -> `solve`
    unary_piv_op.h    reconstruct_colwise                                                           -> `reconstructColwise`

  A vector is a matrix with one column.  `inverse<SimpleInv>` (property C10) enters as its exact mathematical result (parameter
  `inv`), products are `Mat.mul` (C01).  Mathlib-free; runs over core `Rat`, reasoned about over a `Field`.
-/
namespace Fastor.LU

variable {α : Type} [Zero α] [One α] [Add α] [Sub α] [Mul α] [Div α]

/-- `forward_subs_impl<0,M-1>::do_multi_rhs[_pivot](j, L, B, p, y, X)` on a fresh `y(0)`:
`y(i) = B(p(i), j) - _inner<T,i>(&L[i*M], y)` for i = 0..M-1; returns y (column j of the result) -/
def forwardCol (n : Nat) (L B : Mat α) (p : Nat → Nat) (j : Nat) : Mat α :=
  (List.range n).foldl (fun (y : Mat α) i =>
      y.set i 0 (B.get (p i) j - sumTo i (fun k => L.get i k * y.get k 0))) (Mat.zero n 1)

/-- `forward_subs(L[, p], B)`: for every column j a fresh `y`, and `X(i,j) = y(i)` for every i (every entry of X is written once) -/
def forwardSubs (n c : Nat) (L B : Mat α) (p : Nat → Nat) : Mat α :=
  let cols := Array.ofFn (n := c) fun j => forwardCol n L B p j.1
  Mat.ofFn n c fun i j => (cols.getD j #[]).get i 0

/-- `backward_subs_impl<M-1,0>::do_multi_rhs(j, U, Y, x, X)` on a fresh `x(0)`: for i = M-1 down to 0:
`value = _inner<T,M-i>(&U[i*M+i], &x[i])` (the sum starts AT the diagonal, where x(i) is still the initial 0),
`x(i) = (Y(i,j) - value) / U(i,i)` -/
def backwardCol (n : Nat) (U Y : Mat α) (j : Nat) : Mat α :=
  (List.range n).foldl (fun (x : Mat α) t =>
      let i := n - 1 - t
      x.set i 0 ((Y.get i j - sumTo (n - i) (fun k => U.get i (i + k) * x.get (i + k) 0)) / U.get i i)) (Mat.zero n 1)

def backwardSubs (n c : Nat) (U Y : Mat α) : Mat α :=
  let cols := Array.ofFn (n := c) fun j => backwardCol n U Y j.1
  Mat.ofFn n c fun i j => (cols.getD j #[]).get i 0

/-- `get_lu_solve(L, U[, p], B)` -/
def luSolve (n c : Nat) (L U B : Mat α) (p : Nat → Nat) : Mat α :=
  backwardSubs n c U (forwardSubs n c L B p)

/-- `reconstruct_colwise(A, P)`: for i in order: if P(i) != i, column P(i) of the copy := column i of A -/
def reconstructColwise (n : Nat) (A : Mat α) (perm : Array Nat) : Mat α :=
  (List.range n).foldl (fun (C : Mat α) i =>
      if perm.getD i 0 ≠ i then Mat.ofFn n n fun r c => if c = perm.getD i 0 then A.get r i else C.get r c else C) (Mat.copy n n A)

/-- `reconstruct(A, P)` (pivot only, row-wise) -/
def reconstructRows (n : Nat) (A : Mat α) (perm : Array Nat) : Mat α :=
  (List.range n).foldl (fun (C : Mat α) i =>
      if perm.getD i 0 ≠ i then setRow n C (perm.getD i 0) A i else C) (Mat.copy n n A)

inductive SolveStrategy | simpleInv | simpleInvPiv | blockLU | blockLUPiv | simpleLU | simpleLUPiv
  deriving DecidableEq, Repr

/-- `solve<SolveCompType::S>(A, B)`; `c` columns (`c = 1` with `vec = true` is the `Tensor<T,M>` overload).
The vector and the matrix overloads of SimpleInvPiv both post-multiply by the permutation (`reconstruct_colwise`). -/
def solve (ops : InvOps α) (inv : Nat → Mat α → Mat α) (gt : α → α → Bool) (s : SolveStrategy) (n c : Nat) (A B : Mat α) : Mat α :=
  match s with
  | .simpleInv => Mat.mul n n c (inv n A) B
  | .simpleInvPiv =>
      let p := pivotPerm gt n A
      let invA := inv n (applyPivotV n A p)
      Mat.mul n n c (reconstructColwise n invA p) B
  | .blockLU => let r := luPublicV ops gt .block n A; luSolve n c r.L r.U B id
  | .simpleLU => let r := luPublicV ops gt .simple n A; luSolve n c r.L r.U B id
  | .blockLUPiv => let r := luPublicV ops gt .blockPiv n A; luSolve n c r.L r.U B (fun i => r.perm.getD i 0)
  | .simpleLUPiv => let r := luPublicV ops gt .simplePiv n A; luSolve n c r.L r.U B (fun i => r.perm.getD i 0)

/-- an executable exact inverse for matrices that have an LU factorisation (what `inverse` returns over a field) -/
def invViaLU (n : Nat) (A : Mat α) : Mat α :=
  if n = 0 then Mat.zero 0 0 else
  let f := if n ≤ 1 then luRecursive n A (Mat.zero n n) (Mat.zero n n) else luRecursive n A (Mat.zero n n) (Mat.zero n n)
  luSolve n n f.1 f.2 (Mat.eye n) id

end Fastor.LU
