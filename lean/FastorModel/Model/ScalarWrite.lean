import FastorModel.Model.ViewWrite
import FastorModel.Model.Views
/-
  Scalar element assignment `A(i,j,…) op= x` (tensor/ScalarIndexing.h: `return _data[get_flat_index(args...)]`;
  `Tensor` and `TensorMap` include the same fragment): C04's `Views.scalarIndex` (ranks 1..4 written out in
  IndexRetriever.h, rank >= 5 the products loop, negative indices wrapped by the extent of THEIR axis, optional bounds
  assertion) composed with one read-modify-write of the C05 write model.
-/
namespace Fastor.ViewWrite
open Fastor

variable {α : Type} [Add α] [Sub α] [Mul α] [Div α]

/-- `A(args...) op= x`; when the bounds assertion fires nothing is accessed -/
def scalarWrite (check : Bool) (dims : List Nat) (args : List Int) (op : WOp) (x : α) (m : Nat → α) : Nat → α :=
  match Views.scalarIndex check dims args with
  | some off => fun p => if p = off.toNat then op.ap (m p) x else m p
  | none => m

/-- the position stored to, if any -/
def scalarWritePos (check : Bool) (dims : List Nat) (args : List Int) : Option Nat :=
  (Views.scalarIndex check dims args).map Int.toNat

end Fastor.ViewWrite
