import FastorModel.Core.Writes
/-
  Lane semantics of the x86 data-movement intrinsics used by the transposition kernels of
  backend/transpose/transpose.h and transpose_kernels.h (Intel Intrinsics Guide pseudo-code, restricted to pure
  moves).  A register is the list of its lanes, least significant first; `z` is the value of a zeroed lane.
  The `*_pd` operations take the lane width `w` in list cells: `w = 1` when the register holds doubles, `w = 2`
  when it holds floats viewed as doubles (`_mm512_castps_pd`).
  These definitions are part of the trusted base of the kernel theorems (Generated/C14Kernels.lean).
-/
namespace Fastor.Intr

variable {α : Type}

def pick (z : α) (l : List α) (i : Nat) : α := l.getD i z

/-- gather lanes by index -/
def lanes (z : α) (l : List α) (ix : List Nat) : List α := ix.map (pick z l)

/-- `n` consecutive elements of memory `a` from offset `o` -/
def load (a : Nat → α) (o n : Nat) : List α := (List.range n).map fun l => a (o + l)

/-- store the first `n` lanes of `r` at offset `o` -/
def store (z : α) (o n : Nat) (r : List α) : List (Nat × α) := (List.range n).map fun l => (o + l, pick z r l)

def MM_SHUFFLE (d c b a : Nat) : Nat := d * 64 + c * 16 + b * 4 + a

def sel2 (imm k : Nat) : Nat := (imm / 4 ^ k) % 4
def bit (imm k : Nat) : Nat := (imm / 2 ^ k) % 2

/-! 128-bit single precision -/
def unpacklo_ps (z : α) (a b : List α) : List α := [pick z a 0, pick z b 0, pick z a 1, pick z b 1]
def unpackhi_ps (z : α) (a b : List α) : List α := [pick z a 2, pick z b 2, pick z a 3, pick z b 3]
def movelh_ps (z : α) (a b : List α) : List α := [pick z a 0, pick z a 1, pick z b 0, pick z b 1]
def movehl_ps (z : α) (a b : List α) : List α := [pick z b 2, pick z b 3, pick z a 2, pick z a 3]
def shuffle_ps (z : α) (a b : List α) (imm : Nat) : List α :=
  [pick z a (sel2 imm 0), pick z a (sel2 imm 1), pick z b (sel2 imm 2), pick z b (sel2 imm 3)]
/-- `_mm_loadl_pi(x, p)`: low two lanes from memory, high two from `x` -/
def loadl_pi (z : α) (x : List α) (a : Nat → α) (o : Nat) : List α := [a o, a (o + 1), pick z x 2, pick z x 3]
def load_ss (z : α) (a : Nat → α) (o : Nat) : List α := [a o, z, z, z]
def setzero (z : α) (n : Nat) : List α := List.replicate n z

/-- `_MM_TRANSPOSE4_PS` (xmmintrin.h) -/
def MM_TRANSPOSE4_PS (z : α) (r0 r1 r2 r3 : List α) : List α × List α × List α × List α :=
  let t0 := unpacklo_ps z r0 r1
  let t1 := unpacklo_ps z r2 r3
  let t2 := unpackhi_ps z r0 r1
  let t3 := unpackhi_ps z r2 r3
  (movelh_ps z t0 t1, movehl_ps z t1 t0, movelh_ps z t2 t3, movehl_ps z t3 t2)

/-! 128-bit double precision -/
def shuffle_pd (z : α) (a b : List α) (imm : Nat) : List α := [pick z a (bit imm 0), pick z b (bit imm 1)]
def load_sd (z : α) (a : Nat → α) (o : Nat) : List α := [a o, z]

/-! 256-bit -/
def unpacklo_ps256 (z : α) (a b : List α) : List α :=
  [pick z a 0, pick z b 0, pick z a 1, pick z b 1, pick z a 4, pick z b 4, pick z a 5, pick z b 5]
def unpackhi_ps256 (z : α) (a b : List α) : List α :=
  [pick z a 2, pick z b 2, pick z a 3, pick z b 3, pick z a 6, pick z b 6, pick z a 7, pick z b 7]
def shuffle_ps256 (z : α) (a b : List α) (imm : Nat) : List α :=
  [pick z a (sel2 imm 0), pick z a (sel2 imm 1), pick z b (sel2 imm 2), pick z b (sel2 imm 3),
   pick z a (4 + sel2 imm 0), pick z a (4 + sel2 imm 1), pick z b (4 + sel2 imm 2), pick z b (4 + sel2 imm 3)]
/-- one 128-bit half (`h` cells) selected by a 2-bit control: 0 a.lo, 1 a.hi, 2 b.lo, 3 b.hi -/
def half128 (z : α) (a b : List α) (h c : Nat) : List α :=
  (List.range h).map fun l => if c % 4 < 2 then pick z a ((c % 2) * h + l) else pick z b ((c % 2) * h + l)
/-- `_mm256_permute2f128_ps|pd` (the zeroing bits 3 and 7 are not used by the kernels); `h` = cells per 128 bits -/
def permute2f128 (z : α) (a b : List α) (imm h : Nat) : List α := half128 z a b h (imm % 16) ++ half128 z a b h (imm / 16)
def permutevar8x32 (z : α) (a : List α) (ix : List Nat) : List α := ix.map fun i => pick z a (i % 8)
def shuffle_pd256 (z : α) (a b : List α) (imm : Nat) : List α :=
  [pick z a (bit imm 0), pick z b (bit imm 1), pick z a (2 + bit imm 2), pick z b (2 + bit imm 3)]
def cast256_128 (a : List α) : List α := a.take 2
def extractf128_pd (z : α) (a : List α) (imm : Nat) : List α := [pick z a (2 * imm), pick z a (2 * imm + 1)]
def cast128_256 (z : α) (a : List α) : List α := [pick z a 0, pick z a 1, z, z]
def insertf128_pd (z : α) (a b : List α) (imm : Nat) : List α :=
  if imm % 2 = 0 then [pick z b 0, pick z b 1, pick z a 2, pick z a 3] else [pick z a 0, pick z a 1, pick z b 0, pick z b 1]

/-! 512-bit; `w` = cells per 64-bit lane -/
def permutexvar (z : α) (ix : List Nat) (a : List α) : List α := ix.map fun i => pick z a (i % ix.length)
/-- 64-bit lane `i` of a register of `w`-cell lanes -/
def lane64 (z : α) (a : List α) (w i : Nat) : List α := (List.range w).map fun c => pick z a (i * w + c)
def permutexvar_pd (z : α) (ix : List Nat) (a : List α) (w : Nat) : List α := ix.flatMap fun i => lane64 z a w (i % 8)
/-- `_mm512_permutex2var_pd(a, idx, b)`: bit 3 of the index selects `b` -/
def permutex2var_pd (z : α) (a : List α) (ix : List Nat) (b : List α) (w : Nat) : List α :=
  ix.flatMap fun i => if (i / 8) % 2 = 0 then lane64 z a w (i % 8) else lane64 z b w (i % 8)
/-- `_mm512_mask_permutexvar_pd(src, k, idx, a)` -/
def mask_permutexvar_pd (z : α) (src : List α) (k : Nat) (ix : List Nat) (a : List α) (w : Nat) : List α :=
  (List.range 8).flatMap fun i => if bit k i = 1 then lane64 z a w (ix.getD i 0 % 8) else lane64 z src w i
/-- `_mm512_mask_permutexvar_ps(src, k, idx, a)` -/
def mask_permutexvar_ps (z : α) (src : List α) (k : Nat) (ix : List Nat) (a : List α) : List α :=
  (List.range 16).map fun i => if bit k i = 1 then pick z a (ix.getD i 0 % 16) else pick z src i
/-- `_mm512_insertf64x4(a, b, imm)` / `_mm512_insertf32x8`: replace one 256-bit half (`h` cells) -/
def insert256 (z : α) (a b : List α) (imm h : Nat) : List α :=
  if imm % 2 = 0 then (List.range h).map (pick z b) ++ (List.range h).map (fun l => pick z a (h + l))
  else (List.range h).map (pick z a) ++ (List.range h).map (pick z b)
def cast512_256 (a : List α) (h : Nat) : List α := a.take h
def cast256_512 (z : α) (a : List α) (h : Nat) : List α := (List.range h).map (pick z a) ++ List.replicate h z

/-! what a kernel must achieve, as decidable-by-evaluation statements -/

/-- final contents of cells `0..n-1` after the stores `ws` (`none` = never written) -/
def finalCells (ws : List (Nat × α)) (n : Nat) : List (Option α) := (List.range n).map (lastWrite ws)

def transposed (a : Nat → α) (n : Nat) : List (Option α) := (List.range (n * n)).map fun p => some (a ((p % n) * n + p / n))

def allBelow (xs : List Nat) (n : Nat) : Bool := xs.all fun x => decide (x < n)

end Fastor.Intr
