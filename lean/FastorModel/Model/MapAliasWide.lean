import FastorModel.Model.MapAlias
import FastorModel.Model.ViewWrite
import FastorModel.Model.Views
import FastorModel.Model.Reduce
/-
  C20, enlarged operation alphabet: any number of names (owning tensor or maps of different shapes) of ONE storage,
  and — besides the operations of Model/MapAlias.lean — scalar assignment, scalar indexing with negative indices
  (C04: `Views.scalarIndex`), writes through strided views (C05: `ViewWrite.exec` over the iterations of the view class
  the name gets: a `TensorMap` of ANY rank uses the generic n-D view class, an owning tensor of rank 1 / 2 the
  specialised classes), reading a view into an owning tensor, `X.sum()` (C13: `Reduce.tensorSum`), and right-hand sides
  that require evaluation (`trans`, lazy products, …: C09) which reach the buffer through a temporary.
-/
namespace Fastor.MapAlias
open Fastor Fastor.Expr Fastor.Layout

/-- right-hand side of a view write -/
inductive VRhs
  | scalar (c : Nat)        -- `X(view) op= const_c`
  | tensor                  -- `X(view) op= B'`, `B'` an owning tensor of the view's shape (operand window 1), element `j`
deriving Repr, Inhabited

inductive Op2
  | base (o : Op)                                               -- the alphabet of Model/MapAlias.lean
  | sassign (c : Nat)                                           -- `X = const_c`
  | windex (idx : List Int) (c : Nat)                           -- `X(i,j,…) = const_c`, negative indices allowed
  | viewW (axs : List ViewWrite.Ax) (op : ViewWrite.WOp) (rhs : VRhs)   -- `X(seq…) op= rhs`, ranges already normalised
  | viewR (axs : List ViewWrite.Ax)                             -- `R = X(seq…)`
  | reduce                                                      -- `acc = X.sum()`
  | staged (op : AOp) (tag : Nat)                               -- `X op= E`, `E` requires evaluation (`stagedFn tag`)
deriving Repr, Inhabited

structure St2 (α : Type) where
  buf : Nat → α
  rd : Nat → Nat → α        -- one owning read target per name
  acc : α                   -- result of the last reduction

variable {α : Type} [Add α] [Sub α] [Mul α] [Neg α] [Div α] [Zero α]

/-- the view class of an owning tensor by rank: 1-D and 2-D specialisations, generic n-D class otherwise -/
def rankCls : Nat → ViewWrite.Cls
  | 1 => .dyn1
  | 2 => .dyn2
  | _ => .dynN

/-- the view class `operator()(seq…)` returns for a name: a map of any rank gets the generic n-D class -/
def viewCls (nm : Name) : ViewWrite.Cls := if nm.isMap then .dynN else rankCls nm.dims.length

/-- the counter increment of the n-D operators: 1 in the scalar-rhs operators, `V` otherwise -/
def VRhs.cstep (V : Nat) : VRhs → Nat
  | .scalar _ => 1
  | .tensor => V

def vrhsVal (cst : Nat → α) (opnd : Nat → Nat → α) : VRhs → Nat → α
  | .scalar c => fun _ => cst c
  | .tensor => fun j => opnd 1 j

/-- iterations of `X(view) op= rhs` issued through `nm` (the scalar-rhs operators advance the counter by 1) -/
def viewIters (V : Nat) (nm : Name) (axs : List ViewWrite.Ax) (rhs : VRhs) : List ViewWrite.Iter :=
  ViewWrite.itersOf (viewCls nm) V false nm.dims axs false (rhs.cstep V)

/-- one operation of the enlarged alphabet issued through name number `k` = `nm` -/
def step2 (ofInt : Int → α) (cst : Nat → α) (opnd : Nat → Nat → α) (tmp0 : Nat → α) (V : Nat)
    (stagedFn : Nat → (Nat → α) → Nat → α) (nm : Name) (k : Nat) (o : Op2) (s : St2 α) : St2 α × List Nat :=
  let n := prod nm.dims
  match o with
  | .base b =>
    let r := step ofInt cst opnd tmp0 V nm .map b { buf := s.buf, rd := fun _ => s.rd k }
    ({ s with buf := r.1.buf, rd := fun j => if j = k then r.1.rd .map else s.rd j }, r.2.flatMap fun e =>
      match e with
      | .store p _ => [p]
      | .vstore p _ => (List.range V).map (p + ·)
      | .vload _ _ => [])
  | .sassign c =>
    if nm.isMap then
      -- `assign(*this, num)`: vector stores of the broadcast value, scalar tail
      let ws := passWrites ofInt (fun _ _ => cst c) .set (.t 1) n V s.buf
      ({ s with buf := applyWrites ws s.buf }, ws.map (·.1))
    else
      -- owning: `Tensor(num)` temporary, then the element-wise copy
      let ws := (List.range n).map fun p => (p, cst c)
      ({ s with buf := applyWrites ws s.buf }, ws.map (·.1))
  | .windex idx c =>
    let p := ((Views.scalarIndex false nm.dims idx).getD 0).toNat
    ({ s with buf := applyWrites [(p, cst c)] s.buf }, [p])
  | .viewW axs op rhs =>
    let its := viewIters V nm axs rhs
    ({ s with buf := ViewWrite.exec op (fun _ => vrhsVal cst opnd rhs) its s.buf }, ViewWrite.writeSeq its)
  | .viewR axs =>
    -- element `j` (row-major in the view's extents) of the owning result is the parent element at `posOf`
    let exts := axs.map (·.ext)
    let r : Nat → α := fun j => if j < exts.prod then s.buf (ViewWrite.posOf nm.dims axs (ViewWrite.unflat exts j)) else s.rd k j
    ({ s with rd := fun j => if j = k then r else s.rd j }, [])
  | .reduce => ({ s with acc := Reduce.tensorSum s.buf n V }, [])
  | .staged op tag =>
    -- the right-hand side is evaluated (reading the buffer as it is) into a temporary; map: `trivial_assign*(*this, tmp)`,
    -- owning with plain `=`: the temporary is the converted tensor, copied element by element
    let tmp := stagedFn tag s.buf
    if op == .set && !nm.isMap then
      let ws := (List.range n).map fun p => (p, tmp p)
      ({ s with buf := applyWrites ws s.buf }, ws.map (·.1))
    else
      let ws := passWrites ofInt (fun _ p => tmp p) op (.t 1) n V s.buf
      ({ s with buf := applyWrites ws s.buf }, ws.map (·.1))

/-- a program over any number of names of the one storage -/
abbrev Prog2 := List (Nat × Op2)

def runNames (ofInt : Int → α) (cst : Nat → α) (opnd : Nat → Nat → Nat → α) (tmp0 : Nat → α) (V : Nat)
    (stagedFn : Nat → Nat → (Nat → α) → Nat → α) (names : Nat → Name) : Prog2 → St2 α → St2 α
  | [], s => s
  | (k, o) :: rest, s =>
    runNames ofInt cst opnd tmp0 V stagedFn names rest
      (step2 ofInt cst (opnd k) tmp0 V (stagedFn k) (names k) k o s).1

end Fastor.MapAlias
