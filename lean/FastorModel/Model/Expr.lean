import FastorModel.Core.Writes
import FastorModel.Core.Loop
/-
  Model of element-wise expression evaluation and assignment (tensor/TensorAssignment.h,
  expressions/binary_ops/*, unary_ops): an expression tree with a scalar evaluator (`eval_s`) and a
  vector evaluator (`eval`, V lanes at a time), and the five `trivial_assign*` loops: a vector loop
  over `ROUND_DOWN(size,V)` followed by a scalar tail.  Vector primitives are lane-wise here by
  definition; that every real `SIMDVector<T,ABI>` is lane-wise is property C08.
-/
namespace Fastor.Expr

inductive BinOp | add | sub | mul
deriving Repr, BEq, DecidableEq, Inhabited

inductive E
  | t (win : Nat)            -- a tensor operand (identified by its window)
  | c (k : Int)              -- a scalar operand, broadcast
  | bin (op : BinOp) (l r : E)
  | neg (e : E)
deriving Repr, Inhabited

inductive AOp | set | add | sub | mul
deriving Repr, BEq, DecidableEq, Inhabited

variable {α : Type} [Add α] [Sub α] [Mul α] [Neg α]

def BinOp.ap : BinOp → α → α → α
  | .add, x, y => x + y
  | .sub, x, y => x - y
  | .mul, x, y => x * y

def AOp.ap : AOp → α → α → α
  | .set, _, y => y
  | .add, x, y => x + y
  | .sub, x, y => x - y
  | .mul, x, y => x * y

/-- `eval_s<T>(p)` -/
def evalS (ofInt : Int → α) (env : Nat → Nat → α) : E → Nat → α
  | .t w, p => env w p
  | .c k, _ => ofInt k
  | .bin op l r, p => op.ap (evalS ofInt env l p) (evalS ofInt env r p)
  | .neg e, p => - evalS ofInt env e p

/-- `eval<T>(p)`: `V` lanes starting at flat position `p` -/
def evalV (ofInt : Int → α) (env : Nat → Nat → α) (V : Nat) : E → Nat → List α
  | .t w, p => (List.range V).map fun l => env w (p + l)
  | .c k, _ => List.replicate V (ofInt k)
  | .bin op l r, p => List.zipWith op.ap (evalV ofInt env V l p) (evalV ofInt env V r p)
  | .neg e, p => (evalV ofInt env V e p).map (- ·)

/-- `ROUND_DOWN(x,s)` = `x & ~(s-1)` on 64-bit `size_t` -/
def roundDown (x s : Nat) : Nat := x &&& (2 ^ 64 - 1 - (s - 1))

/-- the writes of `trivial_assign*(dst, expr)`: vector body then scalar tail -/
def assignWrites (ofInt : Int → α) (env : Nat → Nat → α) (op : AOp) (dst : Nat → α) (e : E) (n V : Nat) :
    List (Nat × α) :=
  let R := roundDown n V
  (forRange 0 R V).flatMap (fun i =>
    ((evalV ofInt env V e i).zip (List.range V)).map fun vl => (i + vl.2, op.ap (dst (i + vl.2)) vl.1)) ++
  (forRange (forExit 0 R V) n 1).map fun i => (i, op.ap (dst i) (evalS ofInt env e i))

/-- tensor operands (windows) occurring in an expression -/
def E.leaves : E → List Nat
  | .t w => [w]
  | .c _ => []
  | .bin _ l r => l.leaves ++ r.leaves
  | .neg e => e.leaves

end Fastor.Expr
