import FastorModel.Core.Loop
/-
  Model of reading a tensor through a scalar index or a slice (property C04).

  Transcribed from
    tensor/Ranges.h                         `seq`, `seq(int)`, `seq::size`, `range_detector`, `to_positive`
    tensor/IndexRetriever.h, ScalarIndexing.h   `get_flat_index` (ranks 1..4 written out, generic loop for >= 5)
    expressions/views/tensor_views_1d.h     constructor normaliser, eval / eval_s / teval / teval_s
    expressions/views/tensor_views_2d.h     constructor normaliser, flat and two-index evaluators
    expressions/views/tensor_views_nd.h     constructor normaliser, `_is_vectorisable`, `_is_strided_vectorisable`,
                                            per-lane un-flatten, the three `teval` routes
    expressions/views/tensor_fixed_views_*.h  the same evaluators over `to_positive`-normalised ranges
    simd_vector/simd_vector_common.h        `vector_setter(vec,data,idx,stride)`, `vector_setter(vec,data,inds)`
    tensor/TensorAssignment.h               `trivial_assign*` (vector body over ROUND_DOWN(size,V), scalar tail)
    tensor/SpecialisedConstructors.h        the two-index constructor loop and the odometer constructors
    tensor/BlockIndexing.h                  the immediate `iseq` loops

  Every evaluator is modelled as the *parent offset(s)* it reads (`Nat` / `List Nat`, one entry per
  lane): the value is the parent's element at that offset, the read set is the list itself, and a
  contiguous vector load is distinguished from a gather by the route tag.
-/
namespace Fastor.Views

/-! ## ranges -/

/-- `seq` / `fseq<F,L,S>` : the three integers the user writes -/
structure Seq where
  first : Int
  last : Int
  step : Int
deriving Repr, BEq, DecidableEq, Inhabited

/-- `seq::size()`, `range_detector<F,L,S>::value`: `range % step == 0 ? range/step : range/step + 1`
    with the C++ operators on `int` (truncation toward zero) -/
def Seq.size (s : Seq) : Int :=
  let range := s.last - s.first
  if range.tmod s.step = 0 then range.tdiv s.step else range.tdiv s.step + 1

/-- `seq(int num)` and `fix<num>`: `[num,num+1)` for `num >= -1`, `[num-1,num)` for `num < -1` -/
def Seq.ofInt (num : Int) : Seq :=
  ⟨if num < -1 then num - 1 else num, if num < -1 then num else num + 1, 1⟩

/-- constructor of the 1-D dynamic views: two independent `+= N + 1` -/
def norm1 (N : Int) (s : Seq) : Seq :=
  let l := if s.last < 0 then s.last + (N + 1) else s.last
  let f := if s.first < 0 then s.first + (N + 1) else s.first
  ⟨f, l, s.step⟩

/-- constructor of the 2-D and n-D dynamic views (the same three-way case per axis) -/
def normN (N : Int) (s : Seq) : Seq :=
  if s.last < 0 ∧ s.first ≥ 0 then ⟨s.first, s.last + (N + 1), s.step⟩
  else if s.last = 0 ∧ s.first = -1 then ⟨N - 1, N, s.step⟩
  else if s.last < 0 ∧ s.first < 0 then ⟨s.first + (N + 1), s.last + (N + 1), s.step⟩
  else s

/-- `to_positive<fseq<F,L,S>,N>` (fixed views, and `iseq`) -/
def toPositive (N : Int) (s : Seq) : Seq :=
  let f := if s.last = 0 ∧ s.first = -1 then N - 1
           else if s.last < 0 ∧ s.first < 0 then s.first + N + 1 else s.first
  let l := if s.last < 0 ∧ s.first ≥ 0 then s.last + N + 1
           else if s.last = 0 ∧ s.first = -1 then N
           else if s.last < 0 ∧ s.first < 0 then s.last + N + 1 else s.last
  ⟨f, l, s.step⟩

/-- the view classes of the library, as far as normalisation and evaluation differ -/
inductive Cls | dyn1 | dyn2 | dynN | fix1 | fix2 | fixN
deriving Repr, BEq, DecidableEq, Inhabited

def Cls.norm : Cls → Int → Seq → Seq
  | .dyn1 => norm1
  | .dyn2 => normN
  | .dynN => normN
  | _ => toPositive

/-- one axis of a normalised view: first element, step, number of selected elements -/
structure Ax where
  first : Nat
  step : Nat
  dim : Nat
deriving Repr, BEq, DecidableEq, Inhabited

def Ax.ofSeq (s : Seq) : Ax := ⟨s.first.toNat, s.step.toNat, s.size.toNat⟩

/-! ## scalar indexing -/

def lprod : List Nat → Nat
  | [] => 1
  | d :: ds => d * lprod ds

/-- `nprods_views<Index<Rest...>>::values`: `products_[i]` = product of the extents after axis `i` -/
def prods : List Nat → List Nat
  | [] => []
  | _ :: ds => lprod ds :: prods ds

/-- `args < 0 ? dim + args : args` (the result is converted to `size_t`) -/
def wrapIdx (d : Nat) (i : Int) : Int := if i < 0 then (d : Int) + i else i

/-- `sum products_[i] * largs[i]` -/
def dotProds : List Nat → List Int → Int
  | p :: ps, i :: is => (p : Int) * i + dotProds ps is
  | _, _ => 0

/-- bounds assertion of `get_flat_index` (`FASTOR_BOUNDS_CHECK`) -/
def inBounds : List Nat → List Int → Bool
  | d :: ds, i :: is => decide (0 ≤ i) && decide (i < (d : Int)) && inBounds ds is
  | [], [] => true
  | _, _ => false

/-- `get_flat_index(args...)`: ranks 1..4 are written out in the source, rank >= 5 is the loop;
    `check` = `FASTOR_BOUNDS_CHECK`.  `none` = assertion failure (no access is made). -/
def scalarIndex (check : Bool) (dims : List Nat) (args : List Int) : Option Int :=
  let w := List.zipWith wrapIdx dims args
  if check && !inBounds dims w then none else
  match dims, w with
  | [_], [i] => some i
  | [_, n], [i, j] => some (i * n + j)
  | [_, n, p], [i, j, k] => some (i * n * p + j * p + k)
  | [_, n, p, q], [i, j, k, l] => some (i * n * p * q + j * p * q + k * q + l)
  | _, _ => some (dotProds (prods dims) w)

/-! ## evaluators of a view: parent offsets -/

/-- `sum_it products_[it]*as[it]*step_it + first_it*products_[it]` -/
def flatIdx : List Nat → List Ax → List Nat → Nat
  | p :: ps, a :: axs, i :: is => p * i * a.step + a.first * p + flatIdx ps axs is
  | _, _, _ => 0

/-- the un-flatten loop of the flat evaluators:
    `remaining = size(); for n: remaining /= dims[n]; as[n] = (idx / remaining) % dims[n]` -/
def unflat : List Nat → Nat → Nat → List Nat
  | [], _, _ => []
  | d :: ds, rem, idx => (idx / (rem / d)) % d :: unflat ds (rem / d) idx

def vdims (axs : List Ax) : List Nat := axs.map (·.dim)
def vsize (axs : List Ax) : Nat := lprod (vdims axs)

/-- the odometer step `for jt = DIMS-1 .. 0: as[jt] += (jt==DIMS-1 ? inc : 1); if as[jt] < dims[jt] break; else as[jt] = 0`;
    the flag is `jt < 0` after the loop (the odometer ran over) -/
def odoInc : List Nat → List Nat → Nat → List Nat × Bool
  | [d], [a], inc => if a + inc < d then ([a + inc], false) else ([0], true)
  | d :: ds, a :: as, inc =>
    let r := odoInc ds as inc
    if r.2 then (if a + 1 < d then ((a + 1) :: r.1, false) else (0 :: r.1, true)) else (a :: r.1, false)
  | _, _, _ => ([], true)

/-- route of `teval` -/
inductive Route | contiguous | strided | gather
deriving Repr, BEq, DecidableEq, Inhabited

def lastAx (axs : List Ax) : Ax := axs.getLast?.getD ⟨0, 1, 1⟩

/-- `_is_vectorisable`, `_is_strided_vectorisable` of the n-D views -/
def routeND (axs : List Ax) (V : Nat) : Route :=
  let a := lastAx axs
  if a.dim % V = 0 then (if a.step = 1 then .contiguous else .strided) else .gather

/-- a view: class, extents of the parent, normalised axes -/
structure View where
  cls : Cls
  pdims : List Nat
  axs : List Ax
deriving Repr, Inhabited

def View.size (v : View) : Nat := vsize v.axs

/-- `eval_s<T>(idx)` -/
def View.evalS (v : View) (idx : Nat) : Nat :=
  match v.cls, v.pdims, v.axs with
  | .dyn1, _, [a] => idx * a.step + a.first
  | .fix1, _, [a] => a.step * idx + a.first
  | .dyn2, [_, n], [a0, a1] => a0.step * (idx / a1.dim) * n + a1.step * (idx % a1.dim) + a0.first * n + a1.first
  | .fix2, [_, n], [a0, a1] => a0.step * (idx / a1.dim) * n + a1.step * (idx % a1.dim) + (a0.first * n + a1.first)
  | _, _, _ => flatIdx (prods v.pdims) v.axs (unflat (vdims v.axs) v.size idx)

/-- `eval<T>(idx)`: the offsets of the `V` lanes.  1-D: `vector_setter(vec,data,idx*step+first,step)`;
    2-D and n-D: per-lane un-flatten and `vector_setter(vec,data,inds)` -/
def View.evalV (v : View) (V idx : Nat) : List Nat :=
  match v.cls, v.axs with
  | .dyn1, [a] => (List.range V).map fun l => idx * a.step + a.first + l * a.step
  | .fix1, [a] => (List.range V).map fun l => a.step * idx + a.first + l * a.step
  | _, _ => (List.range V).map fun l => v.evalS (idx + l)

/-- `eval_s<T>(i,j)` -/
def View.eval2S (v : View) (i j : Nat) : Nat :=
  match v.cls, v.pdims, v.axs with
  | .dyn2, [_, n], [a0, a1] => (a0.step * i + a0.first) * n + (a1.step * j + a1.first)
  | .fix2, [_, n], [a0, a1] => a0.step * i * n + a1.step * j + (a0.first * n + a1.first)
  | _, _, _ => v.evalS (i + j)

/-- `eval<T>(i,j)`: (is it one contiguous vector load?, lane offsets) -/
def View.eval2V (v : View) (V i j : Nat) : Bool × List Nat :=
  match v.cls, v.pdims, v.axs with
  | .dyn2, [_, n], [a0, a1] =>
    if a1.step = 1 then (true, (List.range V).map fun l => a0.step * i * n + j + a0.first * n + a1.first + l)
    else (false, (List.range V).map fun l => a0.step * i * n + a1.step * j + a0.first * n + a1.first + l * a1.step)
  | .fix2, [_, n], [a0, a1] =>
    if a1.step = 1 then (true, (List.range V).map fun l => a0.step * i * n + j + (a0.first * n + a1.first) + l)
    else (false, (List.range V).map fun l => a0.step * i * n + a1.step * j + (a0.first * n + a1.first) + l * a1.step)
  | _, _, _ => (false, v.evalV V (i + j))

/-- `teval_s<T>(as)` -/
def View.tevalS (v : View) (as : List Nat) : Nat :=
  match v.cls, v.pdims, v.axs, as with
  | .dyn1, _, [a], [i] => i * a.step + a.first
  | .fix1, _, [a], [i] => a.step * i + a.first
  | .dyn2, [_, n], [a0, a1], [i, j] => (a0.step * i + a0.first) * n + (a1.step * j + a1.first)
  | .fix2, [_, n], [a0, a1], [i, j] => a0.step * i * n + a1.step * j + (a0.first * n + a1.first)
  | _, _, _, _ => flatIdx (prods v.pdims) v.axs as

/-- iterate the unit odometer step -/
def odoIter (dims : List Nat) : Nat → List Nat → List Nat
  | 0, as => as
  | k + 1, as => odoIter dims k (odoInc dims as 1).1

/-- the route `teval` takes -/
def View.route (v : View) (V : Nat) : Route :=
  match v.cls, v.axs with
  | .dyn1, [_] => .strided
  | .fix1, [_] => .strided
  | .dyn2, [_, a1] => if a1.step = 1 then .contiguous else .strided
  | .fix2, [_, a1] => if a1.step = 1 then .contiguous else .strided
  | _, _ => routeND v.axs V

/-- `teval<T>(as)`: contiguous load | `vector_setter(vec,data,ind,step_last)` | per-lane odometer gather -/
def View.tevalV (v : View) (V : Nat) (as : List Nat) : List Nat :=
  let ind := v.tevalS as
  match v.route V with
  | .contiguous => (List.range V).map fun l => ind + l
  | .strided => (List.range V).map fun l => ind + l * (lastAx v.axs).step
  | .gather => (List.range V).map fun l => flatIdx (prods v.pdims) v.axs (odoIter (vdims v.axs) l as)

/-! ## consumers: reading a view into a tensor.  A write is (destination position, lane offsets …) flattened
    to `(destination position, parent offset)`; `loads` counts contiguous vector loads -/

/-- `ROUND_DOWN(x,V)` for a power of two `V` on `size_t` (see `Expr.roundDown`; arithmetic form) -/
def roundDownV (x V : Nat) : Nat := x / V * V

structure Run where
  writes : List (Nat × Nat)
  loads : Nat
deriving Repr, Inhabited

def Run.append (a b : Run) : Run := ⟨a.writes ++ b.writes, a.loads + b.loads⟩
def Run.empty : Run := ⟨[], 0⟩

def laneWrites (dst : Nat) (offs : List Nat) : List (Nat × Nat) :=
  (offs.zip (List.range offs.length)).map fun ol => (dst + ol.2, ol.1)

/-- `trivial_assign*(dst, view)`: `for (i=0; i<ROUND_DOWN(size,V); i+=V) eval(i).store(&dst[i])`, scalar tail -/
def View.trivialWrites (v : View) (V : Nat) : List (Nat × Nat) :=
  let n := v.size
  let R := roundDownV n V
  (forRange 0 R V).flatMap (fun i => laneWrites i (v.evalV V i)) ++
  (forRange (forExit 0 R V) n 1).map (fun i => (i, v.evalS i))

def View.trivialAssign (v : View) (V : Nat) : Run := ⟨v.trivialWrites V, 0⟩

/-- one row of the two-index constructor loop: vector body over `ROUND_DOWN(N,V)`, scalar tail -/
def View.ctor2Row (v : View) (V N i : Nat) : List (Nat × Nat) :=
  let R := roundDownV N V
  (forRange 0 R V).flatMap (fun j => laneWrites (i * N + j) (v.eval2V V i j).2) ++
  (forRange (forExit 0 R V) N 1).map (fun j => (i * N + j, v.eval2S i j))

/-- the two-index constructor loop (`Tensor(const TensorViewExpr<…,2>&)`, `Tensor(const TensorFixedViewExpr2D&)`
    and the `has_tensor_view && DIMS==2` expression constructors) over the result extents `M × N` -/
def View.ctor2Writes (v : View) (V M N : Nat) : List (Nat × Nat) :=
  (List.range M).flatMap (v.ctor2Row V N)

def View.ctor2 (v : View) (V M N : Nat) : Run :=
  ⟨v.ctor2Writes V M N,
   ((List.range M).flatMap fun i => (forRange 0 (roundDownV N V) V).map fun j => (v.eval2V V i j).1).count true⟩

/-- the odometer constructors (`while (counter < size) { …; counter += inc; odometer; if (jt<0) break; }`),
    `inc = V` with `teval` when the view is (strided-)vectorisable, else `inc = 1` with `teval_s` -/
def odoLoop (v : View) (V : Nat) (vec : Bool) (rdims : List Nat) (size : Nat) : Nat → Nat → List Nat → Run
  | 0, _, _ => Run.empty
  | fuel + 1, counter, as =>
    if counter < size then
      let here : Run :=
        if vec then ⟨laneWrites counter (v.tevalV V as), if v.route V == .contiguous then 1 else 0⟩
        else ⟨[(counter, v.tevalS as)], 0⟩
      let nx := odoInc rdims as (if vec then V else 1)
      if nx.2 then here else here.append (odoLoop v V vec rdims size fuel (counter + (if vec then V else 1)) nx.1)
    else Run.empty

/-- `Tensor(const TensorViewExpr<…,DIMS>&)` for rank >= 3 (`vecAllowed`), and the scalar odometer
    constructors of const views / expressions of rank != 2 (`vecAllowed = false`) -/
def View.ctorN (v : View) (V : Nat) (vecAllowed : Bool) (rdims : List Nat) : Run :=
  let vec := vecAllowed && (v.route V != .gather)
  odoLoop v V vec rdims (lprod rdims) (lprod rdims) 0 (rdims.map fun _ => 0)

/-- immediate `iseq` indexing (BlockIndexing.h): nested `for (i=F; i<L; i+=S)` loops with counters,
    every element through scalar indexing.  Result: (destination position, parent offset) -/
def iseqLoop : List Nat → List Nat → List (Nat × Nat × Nat) → List (Nat × Nat)
  | _ :: pds, _ :: rds, (f, l, s) :: rest =>
    ((forRange f l s).zip (List.range (forCount f l s))).flatMap fun ic =>
      (iseqLoop pds rds rest).map fun w => (ic.2 * lprod rds + w.1, ic.1 * lprod pds + w.2)
  | _, _, _ => [(0, 0)]

end Fastor.Views
