import FastorModel.Core.Loop
import FastorModel.Core.Writes
/-
  Model of `permute<Index<p...>>(a)` (tensor_algebra/permute.h), the legacy `permutation<Index<p...>>(a)`
  (tensor_algebra/permutation.h) and the metafunctions of meta/einsum_meta.h and meta/meta.h they use.

  * metafunctions as functions on lists, transcribed recursion by recursion: `count_less`, `meta_min`,
    `meta_argmin`, `meta_argsort` (selection sort by argmin + `filter_`), `new_permute_impl`
    (`resulting_tensor`, `resulting_index`, `requires_permutation`), `permute_impl` (legacy),
    `get_floor_map`, `find_permuation`, `permute_mapped_index`, `nprods` (`products`/`shifter`/`zeroer`);
  * the two loop skeletons: the recursive Cartesian product (`NewRecursiveCartesianPerm`, default build;
    `idx[sizeof...(Lasts)] = i` … `reverse_copy(idx, as)`) and the odometer (`CONTRACT_OPT==-1`;
    `while(true){ …; for(jt=r-1;jt>=0;jt--){ if(++as[jt]<maxes[jt]) break; else as[jt]=0; } if(jt<0) break; }`);
  * the index arithmetic of the loop body: `index_a` and `index_out` from the stride products, in the
    C++14 form (loop over the *input* box, forward map `resulting_index` on the output side) and the
    C++17 form (loop over the *output* box, reverse map `permute_mapped_index_t` on the input side);
  * the whole call as an ordered list of moves `out[dst] = a[src]`.
-/
namespace Fastor.Permute

/-! ### metafunctions -/

/-- `count_less(seq, i, cur)`:  `cur == N ? 0 : count_less(seq,i,cur+1) + (seq[cur] < i ? 1 : 0)` -/
def countLess (seq : List Nat) (i : Nat) : Nat :=
  seq.foldr (fun x acc => acc + (if x < i then 1 else 0)) 0

/-- `meta_min<m, rest...>` with the first two arguments already folded into `m` -/
def metaMin (m : Nat) : List Nat → Nat
  | [] => m
  | n :: rest =>
    let pval := if m ≤ n then m else n
    match rest with
    | [] => pval
    | _ => if pval ≤ metaMin pval rest then pval else metaMin pval rest

/-- `meta_argmin<m, n, rest...>` (meta.h) -/
def metaArgmin (m n : Nat) : List Nat → Nat
  | [] => if m < n then 0 else 1
  | r :: rs =>
    let pval := if m ≤ n then m else n
    if pval ≤ metaMin pval (r :: rs) then (if m < n then 0 else 1) else metaArgmin pval r rs + 1

/-- `meta_argmin_wrapper<Index<rest...>>::value` for at least two entries -/
def argminOf : List Nat → Nat
  | m :: n :: rest => metaArgmin m n rest
  | _ => 0

/-- `filter_<I, Is...>`: drops every entry equal to `I` -/
def filterOut (x : Nat) (l : List Nat) : List Nat := l.filter (fun y => y != x)

/-- `meta_argsort<Index<rest...>,Index<ss...>>::new_argseq` (selection sort carrying the positions);
    `fuel` is the pack length -/
def metaArgsortAux : Nat → List Nat → List Nat → List Nat
  | 0, _, ss => ss
  | fuel + 1, vals, ss =>
    match vals with
    | [_] => ss
    | _ =>
      let k := argminOf vals
      let leastValue := vals.getD k 0
      let leastIndex := ss.getD k 0
      leastIndex :: metaArgsortAux fuel (filterOut leastValue vals) (filterOut leastIndex ss)

def metaArgsort (vals : List Nat) : List Nat := metaArgsortAux vals.length vals (List.range vals.length)

/-- `is_sequential(seq)` -/
def isSequential : List Nat → Bool
  | x :: y :: rest => x + 1 == y && isSequential (y :: rest)
  | _ => true

/-- `new_permute_impl::resulting_tensor`: extents `fvals[count_less(lst, lst[ss])]...` -/
def newDims (p dims : List Nat) : List Nat := p.map fun x => dims.getD (countLess p x) 0

/-- `new_permute_impl::resulting_index`: `aranger[count_less(lst, lst[ss])]...` -/
def newIdx (p : List Nat) : List Nat := p.map fun x => (List.range p.length).getD (countLess p x) 0

/-- `new_permute_impl::requires_permutation` -/
def newRequires (p dims : List Nat) : Bool := !(newDims p dims == dims && isSequential (newIdx p))

/-- legacy `permute_impl::resulting_index` = `meta_argsort<Index<ls...>,Index<ss...>>::new_argseq` -/
def legacyIdx (p : List Nat) : List Nat := metaArgsort p

/-- legacy `permute_impl::maxes_out_type` (and, since the repair, `resulting_tensor`) -/
def legacyDims (p dims : List Nat) : List Nat := (legacyIdx p).map fun x => dims.getD x 0

def legacyRequires (p dims : List Nat) : Bool := !(legacyDims p dims == dims && isSequential (legacyIdx p))

/-- `get_floor_map(idx)`: `for i: out[idx[i]] = i` on a zero-initialised array -/
def floorMap (idx : List Nat) : List Nat :=
  (List.range idx.length).foldl (fun out i => out.set (idx.getD i 0) i) (List.replicate idx.length 0)

/-- `find_permuation(idx0, idx1)`: `out[i] = find_index(idx0, idx1[i])` -/
def findPermutation (idx0 idx1 : List Nat) : List Nat :=
  (List.range idx1.length).map fun i => idx0.idxOf (idx1.getD i 0)

/-- `permute_mapped_index_t<Index<r...>, Index<o...>>` on two label packs (the explicit-output einsum passes the labels
    of the contraction result and of the requested output) -/
def mappedIndex2 (r o : List Nat) : List Nat :=
  let argsort0 := metaArgsort r
  let argsort1 := metaArgsort o
  findPermutation (floorMap argsort0) (floorMap argsort1)

/-- `permute_mapped_index_t<Index<p...>, make_index_t<r>>` (C++17 reverse map of `permute`) -/
def mappedIndex (p : List Nat) : List Nat := mappedIndex2 p (List.range p.length)

/-- `products(seq, i)`: `i == N-1 ? seq[N-1] : products(seq,i+1)*seq[i]` -/
def productsFrom (seq : List Nat) (i : Nat) : Nat := (seq.drop i).foldr (· * ·) 1

/-- `nprods<Index<dims...>>::values` through `pvals`, `svals = shifter(pvals,·)`, `zeroer(svals,·)` -/
def nprods (dims : List Nat) : List Nat :=
  let n := dims.length
  let pvals := (List.range n).map (productsFrom dims)
  let svals := (List.range n).map fun i => if i + 1 < n then pvals.getD (i + 1) 0 else pvals.getD (n - 1) 0
  (List.range n).map fun i => if i + 1 = n then 0 else svals.getD i 0

/-! ### loop skeletons: the sequence of index arrays `as` the body sees -/

/-- `NewRecursiveCartesianPerm<…, First, Lasts...>::Do`: `for i<First { idx[sizeof...(Lasts)] = i; recurse }`,
    the innermost level ends with `reverse_copy(idx, as)` -/
def cartesian : List Nat → List Nat → List (List Nat)
  | [], idx => [idx.reverse]
  | d :: ds, idx => (List.range d).flatMap fun i => cartesian ds (idx.set ds.length i)

/-- the carry loop of the odometer from position `jt-1` downwards; `none` = `jt < 0` on exit -/
def odoCarry (maxes : List Nat) : Nat → List Nat → Option (List Nat)
  | 0, _ => none
  | jt + 1, as =>
    let v := as.getD jt 0 + 1
    if v < maxes.getD jt 0 then some (as.set jt v) else odoCarry maxes jt (as.set jt 0)

/-- `while(true){ body(as); carry; if (jt<0) break; }` with a step budget -/
def odometer (maxes : List Nat) : Nat → List Nat → List (List Nat)
  | 0, _ => []
  | fuel + 1, as =>
    as :: (match odoCarry maxes maxes.length as with
           | none => []
           | some as' => odometer maxes fuel as')

def prod (l : List Nat) : Nat := l.foldr (· * ·) 1

inductive Variant | recursive | odometer
deriving Repr, BEq, DecidableEq

/-- the index arrays in program order over the box `maxes` -/
def loopStates (v : Variant) (maxes : List Nat) : List (List Nat) :=
  match v with
  | .recursive => cartesian maxes (List.replicate maxes.length 0)
  | .odometer => odometer maxes (prod maxes) (List.replicate maxes.length 0)

/-! ### loop body -/

/-- `size_t index = as[mi[r-1]]; for (it = 0; it < bound; it++) index += prods[it]*as[mi[it]];` -/
def codeIndex (prods mi as : List Nat) (r bound : Nat) : Nat :=
  (List.range bound).foldl (fun acc it => acc + prods.getD it 0 * as.getD (mi.getD it 0) 0)
    (as.getD (mi.getD (r - 1) 0) 0)

structure Move where
  dst : Nat
  src : Nat
deriving Repr, BEq, DecidableEq

inductive Std | cxx14 | cxx17
deriving Repr, BEq, DecidableEq

/-- loop body with the forward map on the output side (C++14 `permute`, legacy `permutation`) -/
def forwardMoves (v : Variant) (mi dims odims : List Nat) : List Move :=
  let r := dims.length
  (loopStates v dims).map fun as =>
    { dst := codeIndex (nprods odims) mi as r (r - 1),
      src := codeIndex (nprods dims) (List.range r) as r r }

/-- loop body with the reverse map on the input side (C++17 `permute`) -/
def reverseMoves (v : Variant) (mi dims odims : List Nat) : List Move :=
  let r := dims.length
  (loopStates v odims).map fun as =>
    { dst := codeIndex (nprods odims) (List.range r) as r (r - 1),
      src := codeIndex (nprods dims) mi as r r }

/-- `permute<Index<p...>>(Tensor<T,dims...>)` when `requires_permutation` -/
def permuteMoves (s : Std) (v : Variant) (p dims : List Nat) : List Move :=
  match s with
  | .cxx14 => forwardMoves v (newIdx p) dims (newDims p dims)
  | .cxx17 => reverseMoves v (mappedIndex p) dims (newDims p dims)

/-- legacy `permutation<Index<p...>>(Tensor<T,dims...>)` when `requires_permutation`
    (the same forward-map body under both standards) -/
def legacyMoves (v : Variant) (p dims : List Nat) : List Move :=
  forwardMoves v (legacyIdx p) dims (legacyDims p dims)

variable {α : Type}

/-- the stores of a move list reading the source `a` (a tensor's buffer, or `eval_s(index_a)` of an
    unevaluated expression) -/
def movesWrites (a : Nat → α) (ms : List Move) : List (Nat × α) := ms.map fun m => (m.dst, a m.src)

end Fastor.Permute
