import FastorModel.Core.Writes
import FastorModel.Core.Loop
import FastorModel.Model.Matmul
/-
  Model of WRITING through tensor views (expressions/views/tensor_views_{1d,2d,nd}.h and
  tensor_fixed_views_{1d,2d,nd}.h): `A(ranges) op= rhs` as a memory transformer.

  * range normalisation as each view constructor writes it (`norm1`, `normN` = `to_positive`),
    `seq::size()` with C++ truncating `/ %`;
  * the three loop shapes of the assignment operators:
      `linIters`  1-D views: vector body over ROUND_DOWN(size,V) + scalar tail when the step is 1,
                  under FASTOR_USE_VECTORISED_EXPR_ASSIGN a vector read of the rhs followed by V scalar
                  read-modify-writes when it is not, plain scalar loop otherwise;
      `rowIters`  2-D views: the same per row, the strided vector store being `data_setter`;
      `odoIters`  n-D views: the odometer over the multi-index (`odoNext`/`odoLoop`), vector stores only
                  when `_is_vectorisable` (last extent a multiple of V and unit last step);
  * every iteration reads (right-hand side lanes, old destination lanes) from the CURRENT memory and
    then stores (`execIter`), so that a right-hand side that reads the destination tensor itself sees
    earlier stores of the same statement — the behaviour property C18 is about;
  * right-hand sides that require evaluation are evaluated into a temporary first (`assign`).
-/
namespace Fastor.ViewWrite
open Fastor

/-! ### ranges -/

/-- a `seq` as passed by the caller -/
structure Seq where
  first : Int
  last : Int
  step : Int
deriving Repr, Inhabited, DecidableEq

/-- `seq::size()` / `range_detector`: C++ truncating division and remainder -/
def Seq.size (s : Seq) : Int :=
  let range := s.last - s.first
  if Int.tmod range s.step = 0 then Int.tdiv range s.step else Int.tdiv range s.step + 1

/-- constructor of the dynamic 1-D view: two independent `+= N+1` -/
def norm1 (n : Nat) (s : Seq) : Seq :=
  let l := if s.last < 0 then s.last + (n + 1) else s.last
  let f := if s.first < 0 then s.first + (n + 1) else s.first
  ⟨f, l, s.step⟩

/-- constructors of the dynamic 2-D / n-D views and `to_positive` of the fixed views: three-way case -/
def normN (n : Nat) (s : Seq) : Seq :=
  if s.last < 0 ∧ s.first ≥ 0 then ⟨s.first, s.last + (n + 1), s.step⟩
  else if s.last = 0 ∧ s.first = -1 then ⟨(n : Int) - 1, n, s.step⟩
  else if s.last < 0 ∧ s.first < 0 then ⟨s.first + (n + 1), s.last + (n + 1), s.step⟩
  else s

/-- a normalised axis: first element, step, number of elements -/
structure Ax where
  first : Nat
  step : Nat
  ext : Nat
deriving Repr, Inhabited, DecidableEq

def Ax.ofSeq (s : Seq) : Ax := ⟨s.first.toNat, s.step.toNat, s.size.toNat⟩

/-- the six non-const view classes -/
inductive Cls | dyn1 | dyn2 | dynN | fix1 | fix2 | fixN
deriving Repr, BEq, DecidableEq, Inhabited

def Cls.norm : Cls → Nat → Seq → Seq
  | .dyn1 => norm1
  | _ => normN

def axesOf (c : Cls) (dims : List Nat) (rs : List Seq) : List Ax :=
  List.zipWith (fun n r => Ax.ofSeq (c.norm n r)) dims rs

/-! ### positions -/

/-- `products_[k] * (as[k]*step[k] + first[k])` summed over the axes (row-major parent of extents `dims`) -/
def posOf : List Nat → List Ax → List Nat → Nat
  | _ :: ds, a :: axs, j :: js => (j * a.step + a.first) * ds.prod + posOf ds axs js
  | _, _, _ => 0

/-- multi-index of the row-major flat index `c` in a box of extents `exts` -/
def unflat : List Nat → Nat → List Nat
  | [], _ => []
  | _ :: es, c => (c / es.prod) :: unflat es (c % es.prod)

/-- row-major flat index of a multi-index -/
def flat : List Nat → List Nat → Nat
  | _ :: es, j :: js => j * es.prod + flat es js
  | _, _ => 0

/-! ### iterations -/

inductive IKind
  | vstore    -- all lanes read, one vector store
  | scatter   -- all lanes read, `data_setter`: one scalar store per lane
  | rmw       -- rhs lanes read as a vector, then per lane a scalar read-modify-write
  | scalar    -- one element
deriving Repr, BEq, DecidableEq, Inhabited

/-- one loop iteration: lanes are (position in the parent tensor, logical index of the rhs element) -/
structure Iter where
  kind : IKind
  lanes : List (Nat × Nat)
deriving Repr, Inhabited

def rd (n V : Nat) : Nat := Matmul.roundDown n V

/-- one contiguous run of the innermost loop, shared by the 1-D views (whole view) and the 2-D views (one
    row): element `k` of the run lives at `pb + (k*step + first)` and takes rhs element `jb + k`.
      step == 1 : vector body over ROUND_DOWN(n,V) (`_vec.store(&_data[..])`), scalar tail;
      step != 1, FASTOR_USE_VECTORISED_EXPR_ASSIGN : vector read of the rhs, then per lane scalar
                  read-modify-writes (1-D, `strided = rmw`) or `data_setter` (2-D, `strided = scatter`), scalar tail;
      otherwise : scalar loop. -/
def segIters (V : Nat) (vea : Bool) (strided : IKind) (pb jb : Nat) (a : Ax) : List Iter :=
  let n := a.ext
  let R := rd n V
  if a.step = 1 then
    (forRange 0 R V).map (fun i => ⟨.vstore, (List.range V).map fun l => (pb + ((i + l) * a.step + a.first), jb + (i + l))⟩) ++
    (forRange (forExit 0 R V) n 1).map (fun i => ⟨.scalar, [(pb + (i * a.step + a.first), jb + i)]⟩)
  else if vea then
    (forRange 0 R V).map (fun i => ⟨strided, (List.range V).map fun l => (pb + ((i + l) * a.step + a.first), jb + (i + l))⟩) ++
    (forRange (forExit 0 R V) n 1).map (fun i => ⟨.scalar, [(pb + (i * a.step + a.first), jb + i)]⟩)
  else
    (forRange 0 n 1).map (fun i => ⟨.scalar, [(pb + (i * a.step + a.first), jb + i)]⟩)

/-- 1-D views (`tensor_views_1d.h`, `tensor_fixed_views_1d.h`): `_data[i*step + first]` -/
def linIters (V : Nat) (vea : Bool) (a : Ax) : List Iter := segIters V vea .rmw 0 0 a

/-- 2-D views (`tensor_views_2d.h`, `tensor_fixed_views_2d.h`); `N` = columns of the parent: row `i` of the
    view is the run starting at `(step0*i + first0)*N`, its rhs elements start at `i*ext1` -/
def rowIters (V : Nat) (vea : Bool) (N : Nat) (a0 a1 : Ax) : List Iter :=
  (List.range a0.ext).flatMap fun i => segIters V vea .scatter ((a0.step * i + a0.first) * N) (i * a1.ext) a1

/-- the carry loop `for (jt = DIMS-1; jt >= 0; jt--) { as[jt] += inc; if (as[jt] < dims[jt]) break; else as[jt] = 0; }`
    on (extent, increment) pairs; `none` = the loop ran off the front (`jt < 0`) -/
def odoNext : List (Nat × Nat) → List Nat → Option (List Nat)
  | (e, inc) :: es, a :: as =>
    match odoNext es as with
    | some as' => some (a :: as')
    | none => if a + inc < e then some ((a + inc) :: es.map (fun _ => 0)) else none
  | _, _ => none

/-- `while (counter < total) { body(as, counter); counter += cstep; carry; if (jt < 0) break; }` -/
def odoLoop (ei : List (Nat × Nat)) (total cstep : Nat) : Nat → Nat → List Nat → List (List Nat × Nat)
  | 0, _, _ => []
  | fuel + 1, c, as =>
    if c < total then
      (as, c) :: (match odoNext ei as with
        | some as' => odoLoop ei total cstep fuel (c + cstep) as'
        | none => [])
    else []

/-- increments of the carry loop: 1 on every axis, `last` on the last one -/
def incs : List Nat → Nat → List (Nat × Nat)
  | [], _ => []
  | [e], last => [(e, last)]
  | e :: es, last => (e, 1) :: incs es last

def lastAx : List Ax → Ax
  | [] => ⟨0, 1, 1⟩
  | [a] => a
  | _ :: as => lastAx as

/-- n-D views (`tensor_views_nd.h`, `tensor_fixed_views_nd.h`).  `flatRhs`: the right-hand side is read
    through the running `counter` (binders of unequal order) instead of the multi-index; `cstep`: what the
    vector branch adds to `counter` per iteration (`V::Size`, but 1 in the scalar-rhs operators). -/
def odoIters (V : Nat) (dims : List Nat) (axs : List Ax) (flatRhs : Bool) (cstep : Nat := V) : List Iter :=
  let exts := axs.map (·.ext)
  let total := exts.prod
  let la := lastAx axs
  let zeros := exts.map fun _ => 0
  if la.ext % V = 0 ∧ la.step = 1 then
    (odoLoop (incs exts V) total cstep total 0 zeros).map fun st =>
      let jf := if flatRhs then st.2 else flat exts st.1
      ⟨.vstore, (List.range V).map fun l => (posOf dims axs st.1 + l, jf + l)⟩
  else
    (odoLoop (incs exts 1) total 1 total 0 zeros).map fun st =>
      let jf := if flatRhs then st.2 else flat exts st.1
      ⟨.scalar, [(posOf dims axs st.1, jf)]⟩

/-- dispatch on the view class -/
def itersOf (c : Cls) (V : Nat) (vea : Bool) (dims : List Nat) (axs : List Ax) (flatRhs : Bool) (cstep : Nat := V) : List Iter :=
  match c, dims, axs with
  | .dyn1, _, [a] => linIters V vea a
  | .fix1, _, [a] => linIters V vea a
  | .dyn2, [_, N], [a0, a1] => rowIters V vea N a0 a1
  | .fix2, [_, N], [a0, a1] => rowIters V vea N a0 a1
  | .dynN, _, _ => odoIters V dims axs flatRhs cstep
  | .fixN, _, _ => odoIters V dims axs flatRhs cstep
  | _, _, _ => []

/-! ### memory semantics -/

inductive WOp | set | add | sub | mul | div
deriving Repr, BEq, DecidableEq, Inhabited

variable {α : Type} [Add α] [Sub α] [Mul α] [Div α]

def WOp.ap : WOp → α → α → α
  | .set, _, y => y
  | .add, x, y => x + y
  | .sub, x, y => x - y
  | .mul, x, y => x * y
  | .div, x, y => x / y

/-- one iteration on the current memory; `rhs m j` = value of logical element `j` of the right-hand
    side when the destination tensor holds `m` -/
def execIter (op : WOp) (rhs : (Nat → α) → Nat → α) (m : Nat → α) (it : Iter) : Nat → α :=
  match it.kind with
  | .rmw =>
    let vals := it.lanes.map fun l => (l.1, rhs m l.2)
    vals.foldl (fun m w => fun p => if p = w.1 then op.ap (m w.1) w.2 else m p) m
  | _ => applyWrites (it.lanes.map fun l => (l.1, op.ap (m l.1) (rhs m l.2))) m

def exec (op : WOp) (rhs : (Nat → α) → Nat → α) (its : List Iter) (m : Nat → α) : Nat → α :=
  its.foldl (execIter op rhs) m

/-- a right-hand side: its elements as a function of the destination tensor's contents, and whether
    the expression `requires_evaluation` -/
structure Rhs (α : Type) where
  needsEval : Bool
  val : (Nat → α) → Nat → α

/-- `view op= rhs` without the alias flag -/
def assign (op : WOp) (its : List Iter) (r : Rhs α) (m : Nat → α) : Nat → α :=
  if r.needsEval then
    let tmp := r.val m                   -- `evaluate(other.self())` into a temporary tensor
    exec op (fun _ j => tmp j) its m     -- `this->operator op=(tmp)`
  else exec op r.val its m

/-- positions stored to, in order -/
def writeSeq (its : List Iter) : List Nat := its.flatMap fun it => it.lanes.map (·.1)

end Fastor.ViewWrite
