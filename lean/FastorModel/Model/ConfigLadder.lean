import FastorModel.Model.Config
/-
  The macro ladder of Fastor/config/config.h, config/macros.h and simd_vector_abi.h as a function of
  the compiler's predefined macros: which implementation macros are live, `simd_abi::native`,
  `FASTOR_MEMORY_ALIGNMENT_VALUE`, `FASTOR_HAS_AVX512_MASKS`.  Tied to the source by the
  configuration dump of `./check C06` (the real macros and `choose_best_simd_t<…,N>::Size` printed by a
  probe compiled under every flag set must equal what this model computes).
-/
namespace Fastor

/-- the compiler predefines the ladder looks at (`__SSE2__` … `__AVX512VL__`) plus `FASTOR_DONT_VECTORISE` -/
structure Predef where
  sse2 : Bool
  sse3 : Bool
  ssse3 : Bool
  sse41 : Bool
  sse42 : Bool
  avx : Bool
  avx2 : Bool
  fma : Bool
  f : Bool      -- __AVX512F__
  cd : Bool
  bw : Bool
  dq : Bool
  vl : Bool
  novec : Bool  -- FASTOR_DONT_VECTORISE
deriving Repr, BEq, DecidableEq, Inhabited

namespace Predef

/-- `FASTOR_AVX512_IMPL` (config.h: any of the five AVX-512 macros) -/
def avx512Impl (p : Predef) : Bool := p.f || p.cd || p.bw || p.dq || p.vl
/-- `FASTOR_AVX_IMPL` (`__AVX__`, or implied by `FASTOR_AVX2_IMPL`) -/
def avxImpl (p : Predef) : Bool := p.avx || p.avx2
/-- `FASTOR_SSE_IMPL` -/
def sseImpl (p : Predef) : Bool := p.sse2 || p.ssse3 || p.sse3 || p.sse41 || p.sse42
/-- `FASTOR_SCALAR_IMPL` -/
def scalarImpl (p : Predef) : Bool := !p.avx512Impl && !p.avxImpl && !p.sseImpl
/-- `FASTOR_HAS_AVX512_MASKS` -/
def masks (p : Predef) : Bool := p.f && p.vl

/-- `simd_abi::native` (simd_vector_abi.h) -/
def native (p : Predef) : Abi :=
  if p.novec then .scalar
  else if p.avx512Impl then .avx512
  else if p.avxImpl then .avx
  else if p.sse2 then .sse
  else .scalar

/-- `FASTOR_MEMORY_ALIGNMENT_VALUE` (macros.h) in bytes -/
def alignment (p : Predef) : Nat :=
  if p.avx512Impl then 64 else if p.avxImpl then 32 else if p.sseImpl then 16 else 8

/-- the `Cfg` the kernel models take -/
def toCfg (p : Predef) : Cfg := ⟨p.native, p.avx2, p.masks, none, none⟩

/-- flag sets as g++ defines them: every `-m` option implies the older ones -/
def Monotone (p : Predef) : Prop :=
  (p.sse3 → p.sse2) ∧ (p.ssse3 → p.sse3) ∧ (p.sse41 → p.ssse3) ∧ (p.sse42 → p.sse41) ∧ (p.avx → p.sse42) ∧
  (p.avx2 → p.avx) ∧ (p.f → p.avx2) ∧ (p.cd → p.f) ∧ (p.bw → p.f) ∧ (p.dq → p.f) ∧ (p.vl → p.f)

def ofName : String → Option Predef
  | "scalar"  => some ⟨true, false, false, false, false, false, false, false, false, false, false, false, false, true⟩
  | "sse2"    => some ⟨true, false, false, false, false, false, false, false, false, false, false, false, false, false⟩
  | "sse42"   => some ⟨true, true, true, true, true, false, false, false, false, false, false, false, false, false⟩
  | "avx"     => some ⟨true, true, true, true, true, true, false, false, false, false, false, false, false, false⟩
  | "avx2"    => some ⟨true, true, true, true, true, true, true, true, false, false, false, false, false, false⟩
  | "avx512f" => some ⟨true, true, true, true, true, true, true, true, true, false, false, false, false, false⟩
  | "avx512"  => some ⟨true, true, true, true, true, true, true, true, true, true, true, true, true, false⟩
  | _ => none

end Predef
end Fastor
