/-
  C11 — LU factorisation.  Executable model of

    Fastor/backend/lufact.h                         `_lufact<T,1..8>`            -> `lufactUnrolled`
    Fastor/expressions/linalg_ops/unary_lu_op.h     `lu_simple_dispatcher`       -> `luSimpleLoops`
                                                    `recursive_lu_dispatcher`    -> `luRecursive`
                                                    `lu_block_dispatcher`        -> `luBlock` (+ `luSub` = useless::lu_block_simple_dispatcher)
                                                    `lu<LUCompType::…>`          -> `luPublic`
    Fastor/expressions/linalg_ops/unary_piv_op.h    `pivot_inplace`              -> `pivotPerm`, `pivotMat`
                                                    `apply_pivot`                -> `applyPivotV`, `applyPivotM`
                                                    `reconstruct`                -> `reconstructV`, `reconstructM`

  Matrices are arrays of rows (`Mat`), read with `get` (0 outside), written with `set` / rebuilt with `ofFn`.
  Everything is polymorphic in the scalar through core classes only, so the same definitions run over core
  `Rat` in the driver and are reasoned about over a `Field` in Proofs/ and Props/.  No Mathlib here.

  `tinverse` / `tmatmul` / `matmul` (properties C10 / C17 / C01) enter the block algorithm as their exact
  mathematical results: the two triangular inverses are parameters (`InvOps`), products are `Mat.mul`.
-/
namespace Fastor.LU

abbrev Mat (α : Type) := Array (Array α)

variable {α : Type}

def Mat.get [Zero α] (M : Mat α) (i j : Nat) : α := ((M[i]?).bind (·[j]?)).getD 0
def Mat.ofFn (r c : Nat) (f : Nat → Nat → α) : Mat α :=
  Array.ofFn (n := r) fun i => Array.ofFn (n := c) fun j => f i.1 j.1
def Mat.set (M : Mat α) (i j : Nat) (v : α) : Mat α := M.modify i (·.setIfInBounds j v)
/-- position (i,j) is storage of `M` -/
abbrev Mat.has (M : Mat α) (i j : Nat) : Prop := j < ((M[i]?).getD #[]).size

theorem Mat.get_ofFn [Zero α] (r c) (f : Nat → Nat → α) (i j) :
    (Mat.ofFn r c f).get i j = if i < r ∧ j < c then f i j else 0 := by
  unfold Mat.get Mat.ofFn
  by_cases hi : i < r <;> by_cases hj : j < c <;> simp [hi, hj]

theorem Mat.has_ofFn (r c) (f : Nat → Nat → α) (i j) : (Mat.ofFn r c f).has i j ↔ i < r ∧ j < c := by
  unfold Mat.has Mat.ofFn
  by_cases hi : i < r <;> simp [hi]

theorem Mat.has_set (M : Mat α) (i j i' j') (v : α) : (M.set i j v).has i' j' ↔ M.has i' j' := by
  unfold Mat.has Mat.set
  rw [Array.getElem?_modify]
  by_cases hi : i = i'
  · subst hi
    cases h : M[i]? <;> simp
  · simp [hi]

theorem Mat.get_set [Zero α] (M : Mat α) (i j i' j') (v : α) :
    (M.set i j v).get i' j' = if i' = i ∧ j' = j ∧ M.has i j then v else M.get i' j' := by
  unfold Mat.get Mat.set Mat.has
  rw [Array.getElem?_modify]
  by_cases hi : i = i'
  · subst hi
    cases h : M[i]? with
    | none => simp
    | some row =>
      simp [Array.getElem?_setIfInBounds]
      by_cases hj : j = j'
      · subst hj; by_cases hh : j < row.size <;> simp [hh]
      · simp [hj]; intro h; exact absurd h.symm hj
  · simp [hi]; intro h; exact absurd h.symm hi

section model
variable [Zero α] [One α] [Add α] [Sub α] [Mul α] [Div α]

def Mat.zero (r c : Nat) : Mat α := Mat.ofFn r c fun _ _ => 0
/-- `Tensor::eye2` -/
def Mat.eye (n : Nat) : Mat α := Mat.ofFn n n fun i j => if i = j then 1 else 0
/-- copy of the leading r×c part (`U = A`, `Tensor copyA(A)`) -/
def Mat.copy (r c : Nat) (A : Mat α) : Mat α := Mat.ofFn r c fun i j => A.get i j
/-- static view `A(fseq<r0,r0+r>, fseq<c0,c0+c>)` evaluated into a tensor -/
def Mat.block (A : Mat α) (r0 c0 r c : Nat) : Mat α := Mat.ofFn r c fun i j => A.get (r0 + i) (c0 + j)

/-- `value -= f k` for `k = 0 .. m-1`, in this order -/
def subLoop (m : Nat) (f : Nat → α) (a : α) : α := (List.range m).foldl (fun v k => v - f k) a
/-- `Σ_{k<m} f k` accumulated from 0 -/
def sumTo (m : Nat) (f : Nat → α) : α := (List.range m).foldl (fun v k => v + f k) 0
/-- exact product of an r×k by a k×c matrix (what `matmul` / `tmatmul` return, C01 / C17) -/
def Mat.mul (r k c : Nat) (A B : Mat α) : Mat α :=
  Mat.ofFn r c fun i j => sumTo k fun m => A.get i m * B.get m j
def Mat.sub (r c : Nat) (A B : Mat α) : Mat α := Mat.ofFn r c fun i j => A.get i j - B.get i j

/-! ### `_lufact<T,N>`, N = 1..8 (backend/lufact.h)

The unrolled kernels compute, for s = 0..N-1, the s-th row of U (`U_sj = A_sj - L_s0*U_0j - … `, left to right) and then
the s-th column of L (`L_is = (A_is - L_i0*U_0s - …)/U_ss`) into local constants, and finally store ALL N² entries of L
and of U, the ones, and the zeros outside the triangles, as literals. -/
def lufactUnrolled (n : Nat) (A : Mat α) : Mat α × Mat α :=
  let st := (List.range n).foldl (fun (st : Mat α × Mat α) s =>
      let U := (List.range' s (n - s)).foldl (fun (U : Mat α) j =>
                  U.set s j (subLoop s (fun k => st.1.get s k * U.get k j) (A.get s j))) st.2
      let L := (List.range' (s + 1) (n - (s + 1))).foldl (fun (L : Mat α) i =>
                  L.set i s (subLoop s (fun k => L.get i k * U.get k s) (A.get i s) / U.get s s)) st.1
      (L, U)) (Mat.zero n n, Mat.zero n n)
  (Mat.ofFn n n fun i j => if i = j then 1 else if j < i then st.1.get i j else 0,
   Mat.ofFn n n fun i j => if i ≤ j then st.2.get i j else 0)

/-! ### `lu_simple_dispatcher`, M > 8 (Doolittle loops, column by column) -/
def luSimpleCol (n : Nat) (A : Mat α) (st : Mat α × Mat α) (j : Nat) : Mat α × Mat α :=
  let L := st.1.set j j 1
  let U := (List.range (j + 1)).foldl (fun (U : Mat α) i =>
              U.set i j (subLoop i (fun k => L.get i k * U.get k j) (A.get i j))) st.2
  let L := (List.range' j (n - j)).foldl (fun (L : Mat α) i =>
              L.set i j (subLoop j (fun k => L.get i k * U.get k j) (A.get i j) / U.get j j)) L
  (L, U)

def luSimpleLoops (n : Nat) (A : Mat α) : Mat α × Mat α :=
  (List.range n).foldl (luSimpleCol n A) (Mat.zero n n, Mat.zero n n)

/-- `lu_simple_dispatcher`: the size switch -/
def luSimple (n : Nat) (A : Mat α) : Mat α × Mat α :=
  if n ≤ 8 then lufactUnrolled n A else luSimpleLoops n A

/-! ### `recursive_lu_dispatcher` (right-looking elimination on static views) -/
/-- one `recursive_lu_impl<k,·>::Do` -/
def luRecStep (n : Nat) (st : Mat α × Mat α) (k : Nat) : Mat α × Mat α :=
  let L := st.1
  let U := st.2
  let piv := U.get k k                                   -- U.data()[from*N+from]
  -- L(fseq<k+1,M>, fix<k>) = U(fseq<k+1,M>, fix<k>) / piv
  let L' := Mat.ofFn n n fun i j => if j = k ∧ k < i then U.get i k / piv else L.get i j
  -- U(fseq<k+1,M>, fix<k>) = 0
  let U1 := Mat.ofFn n n fun i j => if j = k ∧ k < i then 0 else U.get i j
  -- U(fseq<k+1,M>, fseq<k+1,M>) -= matmul(L(fseq<k+1,M>,fix<k>), U(fix<k>,fseq<k+1,M>))
  let U2 := Mat.ofFn n n fun i j => if k < i ∧ k < j then U1.get i j - L'.get i k * U1.get k j else U1.get i j
  (L', U2)

/-- `recursive_lu_dispatcher(A, L, U)`: M = 1 writes one entry of the L and U it is given, M > 1 overwrites both. -/
def luRecursive (n : Nat) (A L U : Mat α) : Mat α × Mat α :=
  if n ≤ 1 then (L.set 0 0 1, U.set 0 0 (A.get 0 0))
  else (List.range (n - 1)).foldl (luRecStep n) (Mat.eye n, Mat.copy n n A)

/-! ### `lu_block_dispatcher` -/
/-- the two triangular inverses the block algorithm calls (`tinverse<SimpleInv,UniLower>` and `tinverse<SimpleInv,Upper>`) -/
structure InvOps (α : Type) where
  invLower : Nat → Mat α → Mat α
  invUpper : Nat → Mat α → Mat α

/-- the start size `N` of the two blocked size classes -/
def blockSplit (m : Nat) : Nat := if m ≤ 64 then (m / 8 * 8) / 2 else (m / 16 * 16) / 2

/-- writing the three computed blocks back (`L(fseq<0,N>,fseq<0,N>) = L11` …); the fourth block keeps what `X` held -/
def assemble (n N : Nat) (X X11 X12 X21 X22 : Mat α) (upper : Bool) : Mat α :=
  Mat.ofFn n n fun i j =>
    if i < N then
      if j < N then X11.get i j else (if upper then X12.get i (j - N) else X.get i j)
    else
      if j < N then (if upper then X.get i j else X21.get (i - N) j) else X22.get (i - N) (j - N)

def luBlock (ops : InvOps α) (n : Nat) (A L U : Mat α) : Mat α × Mat α :=
  if h8 : n ≤ 8 then lufactUnrolled n A
  else if h32 : n ≤ 32 then luRecursive n A L U
  else
    let N := blockSplit n
    let A11 := A.block 0 0 N N
    let A12 := A.block 0 N N (n - N)
    let A21 := A.block N 0 (n - N) N
    let A22 := A.block N N (n - N) (n - N)
    -- n ≤ 64: lu_block_dispatcher on both blocks; n > 64: useless::lu_block_simple_dispatcher
    -- (lu_block_dispatcher up to 64, recursive_lu_dispatcher above)
    let f11 := if N ≤ 64 then luBlock ops N A11 (Mat.zero N N) (Mat.zero N N)
               else luRecursive N A11 (Mat.zero N N) (Mat.zero N N)
    let U12 := Mat.mul N N (n - N) (ops.invLower N f11.1) A12
    let L21 := Mat.mul (n - N) N N A21 (ops.invUpper N f11.2)
    let S := Mat.sub (n - N) (n - N) A22 (Mat.mul (n - N) N (n - N) L21 U12)
    let f22 := if n - N ≤ 64 then luBlock ops (n - N) S (Mat.zero (n - N) (n - N)) (Mat.zero (n - N) (n - N))
               else luRecursive (n - N) S (Mat.zero (n - N) (n - N)) (Mat.zero (n - N) (n - N))
    (assemble n N L f11.1 (Mat.zero 0 0) L21 f22.1 false, assemble n N U f11.2 U12 (Mat.zero 0 0) f22.2 true)
termination_by n
decreasing_by
  all_goals simp only [blockSplit]
  all_goals split <;> omega

/-! ### pivoting (unary_piv_op.h) -/
/-- the swap loop of `pivot_inplace`; `gt a b` is `cnorm(a) > cnorm(b)` -/
def pivotPerm (gt : α → α → Bool) (n : Nat) (A : Mat α) : Array Nat :=
  (List.range n).foldl (fun (perm : Array Nat) j =>
      let mx := (List.range' j (n - j)).foldl (fun mx i => if gt (A.get i j) (A.get mx j) then i else mx) j
      if j ≠ mx then perm.swapIfInBounds j mx else perm) (Array.range n)

/-- `P.fill(0); for i: P(i, perm(i)) = 1` -/
def pivotMat (n : Nat) (perm : Array Nat) : Mat α :=
  (List.range n).foldl (fun (P : Mat α) i => P.set i (perm.getD i 0) 1) (Mat.zero n n)

/-- `apply_pivot(A, Tensor<size_t,M> P)`: row i of the result is row P(i) of A -/
def applyPivotV (n : Nat) (A : Mat α) (perm : Array Nat) : Mat α :=
  Mat.ofFn n n fun i j => if perm.getD i 0 ≠ i then A.get (perm.getD i 0) j else A.get i j

/-- `std::find(row i of P, T(1))`: the first column holding a one (n when there is none) -/
def findOne (isOne : α → Bool) (n : Nat) (P : Mat α) (i : Nat) : Nat :=
  ((List.range n).find? (fun j => isOne (P.get i j))).getD n

def applyPivotM (isOne : α → Bool) (n : Nat) (A P : Mat α) : Mat α :=
  Mat.ofFn n n fun i j => if findOne isOne n P i ≠ i then A.get (findOne isOne n P i) j else A.get i j

/-- `copy_n(&copyA[i*N], N, &A[p*N])` -/
def setRow (n : Nat) (A : Mat α) (p : Nat) (src : Mat α) (i : Nat) : Mat α :=
  Mat.ofFn n n fun r j => if r = p then src.get i j else A.get r j

/-- `reconstruct(L,U,Tensor<size_t,M> P)`: A = L*U; for i in order: if P(i) != i, row P(i) of A := row i of L*U -/
def reconstructV (n : Nat) (L U : Mat α) (perm : Array Nat) : Mat α :=
  let LU := Mat.mul n n n L U
  (List.range n).foldl (fun (A : Mat α) i =>
      if perm.getD i 0 ≠ i then setRow n A (perm.getD i 0) LU i else A) LU

def reconstructM (isOne : α → Bool) (n : Nat) (L U P : Mat α) : Mat α :=
  let LU := Mat.mul n n n L U
  (List.range n).foldl (fun (A : Mat α) i =>
      if findOne isOne n P i ≠ i then setRow n A (findOne isOne n P i) LU i else A) LU

/-! ### the public entry points `lu<LUCompType::…>(A, L, U[, P])` -/
inductive Strategy | block | simple | blockPiv | simplePiv
  deriving DecidableEq, Repr

def Strategy.pivoted : Strategy → Bool
  | .blockPiv | .simplePiv => true
  | _ => false

/-- the factorisation step shared by the pivoted and unpivoted entry points: BlockLU does `L.fill(0); U.fill(0)` and
calls `lu_block_dispatcher`, SimpleLU calls `lu_simple_dispatcher` (which fills for M > 8, and stores every entry for M ≤ 8) -/
def luCore (ops : InvOps α) (blocked : Bool) (n : Nat) (A : Mat α) : Mat α × Mat α :=
  if blocked then luBlock ops n A (Mat.zero n n) (Mat.zero n n) else luSimple n A

structure Result (α : Type) where
  L : Mat α
  U : Mat α
  perm : Array Nat     -- identity for the unpivoted strategies
  P : Mat α            -- the matrix encoding (pivoted strategies, matrix overload)

/-- permutation returned as a vector -/
def luPublicV (ops : InvOps α) (gt : α → α → Bool) (s : Strategy) (n : Nat) (A : Mat α) : Result α :=
  match s with
  | .block => let f := luCore ops true n A; ⟨f.1, f.2, Array.range n, Mat.eye n⟩
  | .simple => let f := luCore ops false n A; ⟨f.1, f.2, Array.range n, Mat.eye n⟩
  | .blockPiv =>
      let p := pivotPerm gt n A
      let f := luCore ops true n (applyPivotV n A p); ⟨f.1, f.2, p, pivotMat n p⟩
  | .simplePiv =>
      let p := pivotPerm gt n A
      let f := luCore ops false n (applyPivotV n A p); ⟨f.1, f.2, p, pivotMat n p⟩

/-- permutation returned as a matrix: `pivot_inplace(A,P)` builds the matrix, `apply_pivot(A,P)` reads it back with `find` -/
def luPublicM (ops : InvOps α) (gt : α → α → Bool) (isOne : α → Bool) (s : Strategy) (n : Nat) (A : Mat α) : Result α :=
  let p := pivotPerm gt n A
  let P : Mat α := pivotMat n p
  let f := luCore ops (s == .blockPiv || s == .block) n (applyPivotM isOne n A P)
  ⟨f.1, f.2, p, P⟩

/-- `internal::count_swaps(A)`: the number of columns at which the static pivot exchanges two entries -/
def countSwaps (gt : α → α → Bool) (n : Nat) (A : Mat α) : Nat :=
  (List.range n).foldl (fun (cnt : Nat) j =>
      let mx := (List.range' j (n - j)).foldl (fun mx i => if gt (A.get i j) (A.get mx j) then i else mx) j
      if j ≠ mx then cnt + 1 else cnt) 0

/-- `determinant<DetCompType::LU>(A)`: `nswaps = count_swaps(A) % 2 == 0 ? 1 : -1; lu<BlockLUPiv>(A,L,U,p); product(diag(U)) * nswaps` -/
def detLU (ops : InvOps α) (gt : α → α → Bool) (n : Nat) (A : Mat α) : α :=
  let r := luPublicV ops gt .blockPiv n A
  let prod := (List.range n).foldl (fun (acc : α) i => acc * r.U.get i i) 1
  if countSwaps gt n A % 2 = 0 then prod else 0 - prod

end model

/-! ### executable triangular inverses (what `tinverse` returns over a field)

`invLowerUnit n L` solves `L * X = 1` by forward substitution (L unit lower), `invUpperLeft n U` solves `X * U = 1`
column by column.  For an invertible triangular matrix both are THE inverse. -/
section inv
variable [Zero α] [One α] [Add α] [Sub α] [Mul α] [Div α]

def invLowerUnit (n : Nat) (L : Mat α) : Mat α :=
  (List.range n).foldl (fun (X : Mat α) i =>
      (List.range n).foldl (fun (X : Mat α) j =>
          X.set i j (subLoop i (fun k => L.get i k * X.get k j) (if i = j then 1 else 0))) X) (Mat.zero n n)

def invUpperLeft (n : Nat) (U : Mat α) : Mat α :=
  (List.range n).foldl (fun (X : Mat α) j =>
      (List.range n).foldl (fun (X : Mat α) i =>
          X.set i j (subLoop j (fun k => X.get i k * U.get k j) (if i = j then 1 else 0) / U.get j j)) X) (Mat.zero n n)

def execOps : InvOps α := ⟨invLowerUnit, invUpperLeft⟩
end inv

/-- the route through the size classes, for coverage accounting -/
def blockRoute (n : Nat) : String :=
  if n ≤ 8 then s!"u{n}"
  else if n ≤ 32 then s!"r{n}"
  else
    let N := blockSplit n
    let sub (m : Nat) : String := if m ≤ 64 then (if m ≤ 8 then s!"u{m}" else if m ≤ 32 then s!"r{m}" else s!"b{m}") else s!"R{m}"
    (if n ≤ 64 then "b8" else "b16") ++ s!"({sub N}+{sub (n - N)})"

end Fastor.LU
