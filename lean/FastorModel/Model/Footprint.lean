import FastorModel.Core.Loop
/-
  C07 models (no Mathlib): which lanes / offsets the code touches.

  * the partial load / store helpers of simd_vector/extintrin.h (`_mm_loadl3_ps`, `_mm_loadul3_ps`,
    `_mm256_loadl3_pd`, `_mm256_loadul3_pd`, the `store` twins), the free `maskload` / `maskstore` of
    simd_vector_common.h (scalar fallback loop and the AVX intrinsic specialisations, both with the library's
    *reversed* mask array: `maska[i]` governs lane `V-1-i`), `array_to_mask` / `mask_to_array`, the member
    `mask_load` / `mask_store` (AVX-512 k-mask, and the non-AVX-512 fallback loops), and the remainder mask the kernels build;
  * the bounds-check logic of tensor/IndexRetriever.h (`get_flat_index`, `get_mem_index`);
  * the aligned-flag logic: `is_aligned()` of `Tensor` / `TensorMap` / views and the accesses of the
    `trivial_assign*` loops, of `sum()`/`product()` and of `reverse()` that carry the flag.
-/
namespace Fastor.Footprint

/-! ## partial load / store helpers -/

/-- which `#if` branch of extintrin.h is compiled -/
inductive Branch | avx512 | avx | sse
deriving Repr, DecidableEq, BEq

/-- lane `i` of `_mm_set_epi32(e3,e2,e1,e0)` / `_mm256_set_epi64x(e3,…,e0)` / `_mm256_set_epi32(e7,…,e0)`:
    the arguments are written highest lane first -/
def setLane (args : List Int) (i : Nat) : Int := args.getD (args.length - 1 - i) 0

/-- AVX `_mm(256)_maskload_*` / `_mm(256)_maskstore_*`: a lane is accessed iff the sign bit of its mask
    element is set -/
def avxMaskLanes (V : Nat) (args : List Int) : List Nat := (List.range V).filter fun l => setLane args l < 0

/-- AVX-512 `_mm*_mask_load(u)_*` / `_mm*_mask_store(u)_*`: a lane is accessed iff its mask bit is set -/
def kmaskLanes (V mask : Nat) : List Nat := (List.range V).filter fun l => mask.testBit l

/-- `_mm_loadl3_ps`, `_mm_loadul3_ps` (and, without the `.sse` branch, `_mm256_loadl3_pd`, `_mm256_loadul3_pd`) -/
def load3 : Branch → List Nat
  | .avx512 => kmaskLanes 4 0x07                 -- _mm_mask_load(u)_ps(ZEROPS, (__mmask8)0x07, arr)
  | .avx => avxMaskLanes 4 [0, -1, -1, -1]        -- mask = _mm_set_epi32(0,-1,-1,-1); _mm_maskload_ps(arr, mask)
  | .sse => [0, 1] ++ [2]                         -- _mm_loadl_epi64 (lanes 0,1) then _mm_load_ss(&arr[2])

/-- `_mm_storel3_ps`, `_mm_storeul3_ps`, `_mm256_storel3_pd`, `_mm256_storeul3_pd` -/
def store3 : Branch → List Nat
  | .avx512 => kmaskLanes 4 0x07                 -- _mm_mask_store(u)_ps(arr, (__mmask8)0x07, value)
  | .avx => avxMaskLanes 4 [0, -1, -1, -1]        -- _mm_maskstore_ps(arr, _mm_set_epi32(0,-1,-1,-1), value)
  | .sse => [0, 1] ++ [2]                         -- _mm_storel_pi (lanes 0,1) then _mm_store_ss(&arr[2], …)

/-- the generic `maskload<V>` / `maskstore<V>` loop of simd_vector_common.h, in access order:
    `for (i=0; i<V; ++i) if (maska[i] == -1) … a[V - i - 1] …` -/
def maskLoop (V : Nat) (maska : List Int) : List Nat :=
  (List.range V).filterMap fun i => if maska.getD i 0 = -1 then some (V - i - 1) else none

/-- the AVX specialisations: `mask = _mm256_set_epi32(maska[0],…,maska[7])`, then the intrinsic -/
def maskAvx (V : Nat) (maska : List Int) : List Nat := avxMaskLanes V maska

/-- `array_to_mask`: `c |= 1 << (N - i - 1)` for every `b[i] == -1` -/
def arrayToMask (N : Nat) (b : List Int) : Nat :=
  (List.range N).foldl (fun c i => if b.getD i 0 = -1 then c ||| (1 <<< (N - i - 1)) else c) 0

/-- `mask_to_array`: `b[i] = -((c & (1 << (N-i-1))) != 0)` -/
def maskToArray (N c : Nat) : List Int := (List.range N).map fun i => if c.testBit (N - i - 1) then -1 else 0

/-- member `mask_load` / `mask_store` when AVX-512 masks are available -/
def memberMask (V mask : Nat) : List Nat := kmaskLanes V mask

/-- member `mask_load` without AVX-512 masks: `mask_to_array`, then the reversed loop -/
def memberMaskLoadFallback (V mask : Nat) : List Nat := maskLoop V (maskToArray V mask)

/-- member `mask_store` without AVX-512 masks (simd_vector_base.h and the `#else` branches of the float / double /
    int classes): `mask_to_array`, then the reversed loop storing the enabled lanes only.  (Until the repair
    "mask_store wrote 0 to the disabled lanes when AVX-512 masks are not available" this branch had an `else a[…] = 0`
    and wrote every lane — see docs/DESIGN_C07.md, history.) -/
def memberMaskStoreFallback (V mask : Nat) : List Nat := maskLoop V (maskToArray V mask)

/-- the mask array of the masked remainder kernels (matmul_kernels.h, matmul_mk_smalln.h, tmatmul.h):
    `std::fill(maska, maska+V, -1); for (jj=0; jj < V - (N-N1); ++jj) maska[jj] = 0;` with `w = N - N1` -/
def remainderMask (V w : Nat) : List Int := (List.range V).map fun jj => if jj < V - w then 0 else -1

/-! ## bounds checks (tensor/IndexRetriever.h) -/

inductive Res | err | ok (flat : Nat)
deriving Repr, DecidableEq

/-- `const size_t i = idx < 0 ? M + idx : idx;` — `idx` is an `int`, `M` a `size_t`, so the sum is taken
    modulo 2^64 -/
def wrapIdx (M : Nat) (idx : Int) : Nat :=
  if idx < 0 then (M + (idx % (2 ^ 64 : Int)).toNat) % 2 ^ 64 else idx.toNat

/-- row-major offset `((i0*d1 + i1)*d2 + i2)…` (what `i*N*P + j*P + k` and the `products_` loop compute) -/
def rowMajor : List Nat → List Nat → Nat
  | d :: ds, i :: is => i * ds.foldl (· * ·) 1 + rowMajor ds is
  | _, _ => 0

/-- `get_flat_index(args...)` for ranks 1–4 (and, for extents below 2^31, rank ≥ 5, where the same test is
    made on `int`s): wrap negative indices, then — only `#if FASTOR_BOUNDS_CHECK` and only when
    `FASTOR_ASSERT` is active — assert every `i < M`, and return the offset -/
def flatIndex (checks : Bool) (dims : List Nat) (idx : List Int) : Res :=
  let is := List.zipWith wrapIdx dims idx
  if checks && !((List.zipWith (fun i d => decide (i < d)) is dims).all id) then .err
  else .ok (rowMajor dims is)

/-- `get_mem_index(index)`: `FASTOR_ASSERT(index>=0 && index < size())` with `index` converted to `size_t` -/
def memIndex (checks : Bool) (size : Nat) (index : Int) : Res :=
  let u := (index % (2 ^ 64 : Int)).toNat
  if checks && !(decide (0 ≤ index) && decide (u < size)) then .err else .ok u

/-! ## the aligned flag -/

inductive Storage | tensor | tensorMap | view | fixedView | filterView
deriving Repr, DecidableEq

structure Build where
  dontAlign : Bool        -- FASTOR_DONT_ALIGN
  dontVectorise : Bool    -- FASTOR_DONT_VECTORISE
deriving Repr

/-- `X::is_aligned()`: `Tensor` returns `memory_alignment_v<T> == FASTOR_MEMORY_ALIGNMENT_VALUE` unless
    `FASTOR_DONT_ALIGN` / `FASTOR_DONT_VECTORISE` (`simdType`: T is float, double, int32, int64 or their
    complex types — the types `memory_alignment_value` knows); `TensorMap` and every view return false -/
def isAligned (b : Build) (simdType : Bool) : Storage → Bool
  | .tensor => !(b.dontAlign || b.dontVectorise) && simdType
  | _ => false

structure Access where
  off : Nat
  lanes : Nat
  aligned : Bool
  write : Bool
deriving Repr, DecidableEq

/-- stores of `trivial_assign*` (TensorAssignment.h): `for (i=0; i<ROUND_DOWN(size,V); i+=V) ….store(&_data[i],
    dst.is_aligned())`, then the scalar tail -/
def assignStores (n V : Nat) (flag : Bool) : List Access :=
  (forRange 0 (n / V * V) V).map (fun i => ⟨i, V, flag, true⟩) ++
  (forRange (forExit 0 (n / V * V) V) n 1).map (fun i => ⟨i, 1, false, true⟩)

/-- loads of the destination by the compound assignments (`V(&_data[i], dst.is_aligned())`) and of
    `sum()` / `product()` (`load(&_data[i], is_aligned())`): same loop -/
def flaggedLoads (n V : Nat) (flag : Bool) : List Access :=
  (forRange 0 (n / V * V) V).map (fun i => ⟨i, V, flag, false⟩) ++
  (forRange (forExit 0 (n / V * V) V) n 1).map (fun i => ⟨i, 1, false, false⟩)

/-- operand loads of expression leaves: `eval(i)` = `_vec.load(&_data[get_mem_index(i)], false)` -/
def leafLoads (n V : Nat) : List Access := flaggedLoads n V false

/-- `reverse()`: loads of the temporary copy at `size - i - V` (unaligned flag) and stores at `i`
    (the tensor's flag) -/
def reverseAccesses (n V : Nat) (flag : Bool) : List Access :=
  (forRange 0 (n / V * V) V).flatMap fun i => [⟨n - i - V, V, false, false⟩, ⟨i, V, flag, true⟩]

/-! ## read sets of expression assignment (C02 model): which operand positions `evalV` / `evalS` touch -/

/-- positions of every tensor leaf read by `trivial_assign*(dst, e)` over `n` elements with width `V` -/
def assignReadPositions (n V : Nat) : List Nat :=
  (forRange 0 (n / V * V) V).flatMap (fun i => (List.range V).map (i + ·)) ++
  (forRange (forExit 0 (n / V * V) V) n 1)

end Fastor.Footprint
