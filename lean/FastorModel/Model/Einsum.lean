import FastorModel.Core.Loop
/-
  Model of pairwise `einsum<Index<I...>,Index<J...>>(a,b)` / `contraction` (tensor_algebra/einsum.h,
  contraction.h, meta/einsum_meta.h): the compile-time metafunctions as functions on lists, the
  dispatch between the back ends, and the default (RecursiveCartesian) loop nest as an ordered list
  of accumulation events.
-/
namespace Fastor.Einsum

/-! ### metafunctions -/

/-- `uniq_t`: unique indices in order of first appearance -/
def uniq (l : List Nat) : List Nat :=
  l.foldl (fun acc x => if acc.contains x then acc else acc ++ [x]) []

/-- `find_index(ind, num)`: position of the first occurrence, `N` if absent -/
def findIndex (l : List Nat) (x : Nat) : Nat := l.idxOf x

/-- `is_uniq(ind, i)`: the index at position `i` occurs once in the concatenated list -/
def occursOnce (cat : List Nat) (x : Nat) : Bool := cat.count x == 1

/-- `contraction_impl::indices`: the non-repeated indices in order -/
def resultIdx (cat : List Nat) : List Nat := cat.filter (occursOnce cat)

/-- `contraction_impl::type`: their extents -/
def resultDims (cat catDims : List Nat) : List Nat :=
  ((cat.zip catDims).filter (fun p => occursOnce cat p.1)).map (·.2)

/-- `loop_setter::dims`: extent of each unique index (taken at its first occurrence) -/
def loopDims (cat catDims : List Nat) : List Nat :=
  (uniq cat).map fun u => catDims.getD (findIndex cat u) 0

/-- `IndexTensors::indices`: for each index of an operand, its position among the unique indices -/
def posIn (cat idx : List Nat) : List Nat := idx.map (findIndex (uniq cat))

/-- row-major strides; the library's `nprods` (last entry zeroed, last index added separately)
    computes the same offsets -/
def strides : List Nat → List Nat
  | [] => []
  | _ :: ds => (ds.foldl (· * ·) 1) :: strides ds

/-- flat offset of the operand whose k-th index is loop variable `pos[k]`, under assignment `as` -/
def flatAt (dims pos as : List Nat) : Nat :=
  ((strides dims).zip pos).foldl (fun acc sp => acc + sp.1 * as.getD sp.2 0) 0

/-- all assignments of the loop variables in lexicographic order (first variable outermost),
    the innermost variable stepping by `stride` -/
def assignments : List Nat → Nat → List (List Nat)
  | [], _ => [[]]
  | [d], stride => (forRange 0 d stride).map fun i => [i]
  | d :: ds, stride => (List.range d).flatMap fun i => (assignments ds stride).map fun r => i :: r

structure Pair where
  I : List Nat
  J : List Nat
  dI : List Nat
  dJ : List Nat
deriving Repr

def Pair.cat (p : Pair) : List Nat := p.I ++ p.J
def Pair.catDims (p : Pair) : List Nat := p.dI ++ p.dJ
def Pair.resIdx (p : Pair) : List Nat := Einsum.resultIdx p.cat
def Pair.resDims (p : Pair) : List Nat := Einsum.resultDims p.cat p.catDims
def Pair.loopDims (p : Pair) : List Nat := Einsum.loopDims p.cat p.catDims

/-- `is_vectorisable<Index<I>,Index<J>,Tensor<T,dJ>>::stride` for an element of `sz` bytes
    (`vectorise = false` under FASTOR_DONT_VECTORISE) -/
def Pair.stride (p : Pair) (sz : Nat) (vectorise : Bool) : Nat :=
  let fastest := p.dJ.getLastD 1
  let jl := p.J.getLastD 0
  let lastContracted := p.I.contains jl || p.J.count jl > 1
  let sse := 16 / sz
  let avx := 32 / sz
  if !vectorise || lastContracted then 1
  else if fastest % sse == 0 && fastest % avx == 0 then avx
  else if fastest % sse == 0 then sse
  else 1

/-- one accumulation `out[io + l] = a[ia] * b[ib + l] + out[io + l]`, `l < lanes` -/
structure Acc where
  io : Nat
  ia : Nat
  ib : Nat
  lanes : Nat
deriving Repr

/-- the default loop nest (`RecursiveCartesian`), in program order -/
def Pair.loopEvents (p : Pair) (stride : Nat) : List Acc :=
  let reduction := p.resDims.isEmpty
  (assignments p.loopDims stride).map fun as =>
    { io := flatAt p.resDims (posIn p.cat p.resIdx) as,
      ia := flatAt p.dI (posIn p.cat p.I) as,
      ib := flatAt p.dJ (posIn p.cat p.J) as,
      lanes := if reduction then 1 else stride }

variable {α : Type} [Zero α] [Add α] [Mul α]

/-- value of `out[q]` after running the accumulation events on a zero-initialised result
    (each event only combines the previous value of the cells it touches, so the cell-wise fold is
    the sequential semantics) -/
def accAt (a b : Nat → α) (evs : List Acc) (q : Nat) : α :=
  evs.foldl (fun acc e =>
    if e.io ≤ q ∧ q < e.io + e.lanes then a e.ia * b (e.ib + (q - e.io)) + acc else acc) 0

/-- the whole result buffer of `n` cells -/
def runAcc (a b : Nat → α) (n : Nat) (evs : List Acc) : List α :=
  (List.range n).map (accAt a b evs)

/-! ### classification (which back end `einsum` selects) -/

/-- `match_indices_from_end(ind0, ind1)` -/
def matchFromEnd (i0 i1 : List Nat) : Bool :=
  let n := min i0.length i1.length
  n != 0 && (i0.reverse.take n == i1.reverse.take n)

/-- `match_indices_from_start(ind0, ind1)` -/
def matchFromStart (i0 i1 : List Nat) : Bool :=
  let n := min i0.length i1.length
  n != 0 && (i0.take n == i1.take n)

/-- `match_indices_from_two_ends(ind0, ind1, ncontracted)`: the last `nc` of `ind0` equal the
    first `nc` of `ind1` -/
def matchTwoEnds (i0 i1 : List Nat) (nc : Nat) : Bool :=
  nc != 0 && nc ≤ i0.length && nc ≤ i1.length && (i0.drop (i0.length - nc) == i1.take nc)

inductive Route
  | inner        -- identical index lists
  | dyadic       -- all indices distinct: outer product
  | gemv         -- generalised matrix-vector
  | gevm         -- generalised vector-matrix
  | gemm         -- generalised matrix-matrix
  | general      -- the loop nest
deriving Repr, BEq, DecidableEq

def Pair.route (p : Pair) : Route :=
  let nu := (uniq p.cat).length
  let noRepeats := (uniq p.I).length == p.I.length && (uniq p.J).length == p.J.length
  let isMatVec := noRepeats && matchFromEnd p.I p.J && p.I.length != p.J.length
  let isVecMat := noRepeats && matchFromStart p.I p.J && p.I.length != p.J.length
  let nc := p.I.length + p.J.length - nu
  let isInner := p.I.length == p.J.length && nu == p.J.length
  if p.I == p.J then .inner
  else if isMatVec then .gemv
  else if isVecMat then .gevm
  else if noRepeats && !isInner && matchTwoEnds p.I p.J nc then .gemm
  else if nu == p.I.length + p.J.length then .dyadic
  else .general

def prod (l : List Nat) : Nat := l.foldl (· * ·) 1

/-- for the re-routed cases: `(M, K, N, swapped)` of the `_matmul<T,M,K,N>` call; `swapped` means
    the second operand is passed as the left matrix -/
def Pair.gemmShape (p : Pair) : Nat × Nat × Nat × Bool :=
  match p.route with
  | .gemv =>
    -- the longer operand is the matrix; the vector's extents multiply to K
    if p.I.length > p.J.length then (prod p.dI / prod p.dJ, prod p.dJ, 1, false)
    else (prod p.dJ / prod p.dI, prod p.dI, 1, true)
  | .gevm =>
    if p.I.length > p.J.length then (1, prod p.dJ, prod p.dI / prod p.dJ, true)
    else (1, prod p.dI, prod p.dJ / prod p.dI, false)
  | .gemm =>
    let nc := p.I.length + p.J.length - (uniq p.cat).length
    let K := prod (p.dJ.take nc)
    (prod p.dI / K, K, prod p.dJ / K, false)
  | _ => (0, 0, 0, false)

end Fastor.Einsum
