/-
  Model of the per-ABI horizontal min / max helpers of simd_vector/extintrin.h (C16, mechanism 2):
  `_mm_hmax_ps/_pd`, `_mm256_hmax_ps/_pd` and the `hmin` twins, with the register shuffles they are built from.
  A register is a function from lane index to value; the shuffle immediates are PARAMETERS (the check reads
  them from the source text and hands them to this model; the theorems are stated at the values in the source).
-/
namespace Fastor.Horizontal

variable {α : Type}

abbrev Reg (α : Type) := Nat → α

/-- `_MM_SHUFFLE(z,y,x,w)` -/
def mmShuffle (z y x w : Nat) : Nat := z * 64 + y * 16 + x * 4 + w

/-- `_mm_shuffle_ps(a,b,imm)`: lanes 0,1 from `a`, lanes 2,3 from `b` -/
def shufflePs (imm : Nat) (a b : Reg α) : Reg α := fun l =>
  match l with
  | 0 => a (imm % 4)
  | 1 => a (imm / 4 % 4)
  | 2 => b (imm / 16 % 4)
  | _ => b (imm / 64 % 4)

/-- `_mm_shuffle_pd(a,b,imm)` -/
def shufflePd (imm : Nat) (a b : Reg α) : Reg α := fun l =>
  match l with
  | 0 => a (imm % 2)
  | _ => b (imm / 2 % 2)

/-- `_mm256_shuffle_pd(a,b,imm)`: per 128-bit half -/
def shuffle256Pd (imm : Nat) (a b : Reg α) : Reg α := fun l =>
  match l with
  | 0 => a (imm % 2)
  | 1 => b (imm / 2 % 2)
  | 2 => a (2 + imm / 4 % 2)
  | _ => b (2 + imm / 8 % 2)

/-- `_mm256_permute2f128_pd(a,b,imm)` (4 lanes; the zeroing bits are not used by the library) -/
def permute2f128Pd (imm : Nat) (a b : Reg α) : Reg α := fun l =>
  let sel (c : Nat) (k : Nat) : α := match c % 4 with
    | 0 => a k | 1 => a (2 + k) | 2 => b k | _ => b (2 + k)
  if l < 2 then sel imm l else sel (imm / 16) (l - 2)

/-- `_mm256_castps256_ps128` / `_mm256_extractf128_ps(a,imm)` for 8 float lanes -/
def half8 (imm : Nat) (a : Reg α) : Reg α := fun l => a (4 * (imm % 2) + l)

/-- lane-wise binary operation (`_mm_max_ps`, `_mm_min_pd`, …) -/
def lanewise (op : α → α → α) (a b : Reg α) : Reg α := fun l => op (a l) (b l)

/-- `_mm_reverse_ps(a) = _mm_shuffle_ps(a,a,immRev)` -/
def reversePs (immRev : Nat) (a : Reg α) : Reg α := shufflePs immRev a a
/-- `_mm_reverse_pd(a) = _mm_shuffle_pd(a,a,immRev)` -/
def reversePd (immRev : Nat) (a : Reg α) : Reg α := shufflePd immRev a a
/-- `_mm256_reverse_pd(a)`: `r1 = _mm256_permute2f128_pd(a,a,immP); return _mm256_shuffle_pd(r1,r1,immS)` -/
def reverse256Pd (immP immS : Nat) (a : Reg α) : Reg α :=
  let r1 := permute2f128Pd immP a a
  shuffle256Pd immS r1 r1

/-- `_mm_hmax_ps` / `_mm_hmin_ps`: `max0 = op(a, reverse(a)); tmp = shuffle(max0,max0,imm1); cvtss(op(max0,tmp))` -/
def hPs (op : α → α → α) (immRev imm1 : Nat) (a : Reg α) : α :=
  let max0 := lanewise op a (reversePs immRev a)
  let tmp := shufflePs imm1 max0 max0
  lanewise op max0 tmp 0

/-- `_mm_hmax_pd` / `_mm_hmin_pd`: `cvtsd(op(a, reverse(a)))` -/
def hPd (op : α → α → α) (immRev : Nat) (a : Reg α) : α := lanewise op a (reversePd immRev a) 0

/-- `_mm256_hmax_ps` / `_mm256_hmin_ps`: both halves as `hPs` (without the final extraction), then `op` of lane 0 -/
def h256Ps (op : α → α → α) (immRev imm1 immHi imm1b : Nat) (a : Reg α) : α :=
  let lo := half8 0 a
  let max0 := lanewise op lo (reversePs immRev lo)
  let tmp0 := shufflePs imm1 max0 max0
  let maxLo := lanewise op max0 tmp0
  let hi := half8 immHi a
  let max1 := lanewise op hi (reversePs immRev hi)
  let tmp1 := shufflePs imm1b max1 max1
  let maxHi := lanewise op max1 tmp1
  lanewise op maxLo maxHi 0

/-- `_mm256_hmax_pd` / `_mm256_hmin_pd`: `max0 = op(a, reverse256(a)); tmp = shuffle256(max0,max0,imm1); lane 0 of op(max0,tmp)` -/
def h256Pd (op : α → α → α) (immP immS imm1 : Nat) (a : Reg α) : α :=
  let max0 := lanewise op a (reverse256Pd immP immS a)
  let tmp := shuffle256Pd imm1 max0 max0
  lanewise op max0 tmp 0

/-! ### horizontal sums / products of the float and double registers -/

/-- `_mm_movehl_ps(a,b)`: lanes 0,1 = lanes 2,3 of `b`; lanes 2,3 = lanes 2,3 of `a` -/
def movehlPs (a b : Reg α) : Reg α := fun l => if l < 2 then b (l + 2) else a l

/-- `_mm_sum_ps` / `_mm_prod_ps`: `shuf = movehdup(a)` (SSE3) or `shuffle(a,a,immDup)`; `sums = op(a,shuf)`;
    `shuf = movehl(shuf,sums)`; `op_ss(sums,shuf)` lane 0 -/
def hsumPs (op : α → α → α) (sse3 : Bool) (immDup : Nat) (a : Reg α) : α :=
  let shuf : Reg α := if sse3 then (fun l => a (l / 2 * 2 + 1)) else shufflePs immDup a a
  let sums := lanewise op a shuf
  let shuf2 := movehlPs shuf sums
  op (sums 0) (shuf2 0)

/-- `_mm_sum_pd` / `_mm_prod_pd`: `shuf = movehl(ZERO, a)` (lane 0 = upper double); `op_sd(a, shuf)` lane 0 -/
def hsumPd (op : α → α → α) (a : Reg α) : α := op (a 0) (a 1)

/-- `_mm256_sum_ps`: `_mm_sum_ps(lo + extractf128(a,immHi))` -/
def hsum256Ps (op : α → α → α) (sse3 : Bool) (immDup immHi : Nat) (a : Reg α) : α :=
  hsumPs op sse3 immDup (lanewise op (half8 0 a) (half8 immHi a))

/-- `_mm256_prod_ps`: `_mm_prod_ps(lo) * _mm_prod_ps(extractf128(a,immHi))` -/
def hprod256Ps (op : α → α → α) (sse3 : Bool) (immDup immHi : Nat) (a : Reg α) : α :=
  op (hsumPs op sse3 immDup (half8 0 a)) (hsumPs op sse3 immDup (half8 immHi a))

/-- `_mm256_sum_pd`: `sum = op(a, shuffle256(a,a,immS)); op_sd(lo(sum), extractf128(sum,immHi))` lane 0 -/
def hsum256Pd (op : α → α → α) (immS immHi : Nat) (a : Reg α) : α :=
  let sum := lanewise op a (shuffle256Pd immS a a)
  op (sum 0) (sum (2 * (immHi % 2)))

/-- `_mm256_prod_pd`: `sum = op(a, shuffle256(a,a,immS)); op_sd(extractf128(sum,immHi), lo(sum))` lane 0 -/
def hprod256Pd (op : α → α → α) (immS immHi : Nat) (a : Reg α) : α :=
  let sum := lanewise op a (shuffle256Pd immS a a)
  op (sum (2 * (immHi % 2))) (sum 0)

end Fastor.Horizontal
