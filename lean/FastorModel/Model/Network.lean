import FastorModel.Model.Einsum
/-
  Model of multi-operand `einsum` (tensor_algebra/network_contraction.h, meta/opmin_meta.h):
  the flop cost model, the variant the cost model selects, and the evaluation as a composition of
  pairwise contractions.  The *declared* result (what the return type says) lists the free indices
  in order of first appearance over all operands; the *computed* result has the order produced by
  the selected sequence of pairwise contractions.
-/
namespace Fastor.Network
open Fastor.Einsum

structure Operand where
  idx : List Nat
  dims : List Nat
deriving Repr, Inhabited

/-- `pair_flop_cost<Ind0,Ind1,Tensor0,Tensor1>::value` -/
def pairCost (A B : Operand) : Nat :=
  if A.idx.isEmpty && B.idx.isEmpty then 1
  else if B.idx.isEmpty then prod A.dims
  else if A.idx.isEmpty then prod B.dims
  else
    prod A.dims * (B.idx.foldl (fun acc j =>
      acc * (if A.idx.contains j then 1 else B.dims.getD (findIndex B.idx j) 1)) 1)

/-- result of a pairwise contraction (`get_resuling_index` / `get_resuling_tensor`) -/
def pairRes (A B : Operand) : Operand :=
  ⟨resultIdx (A.idx ++ B.idx), resultDims (A.idx ++ B.idx) (A.dims ++ B.dims)⟩

/-- `no_of_loops_to_set<…>::indices/type`: all unique indices of two operands with their extents -/
def concatAll (A B : Operand) : Operand :=
  ⟨uniq (A.idx ++ B.idx), loopDims (A.idx ++ B.idx) (A.dims ++ B.dims)⟩

def minList : List Nat → Nat
  | [] => 0
  | [x] => x
  | x :: xs => min x (minList xs)

/-- `meta_argmin<…>` as written (ties between the first two go to 1) -/
def argmin : List Nat → Nat
  | [] => 0
  | [_] => 0
  | [m, n] => if m < n then 0 else 1
  | m :: n :: rest =>
    let pval := min m n
    if pval ≤ minList (pval :: rest) then (if m < n then 0 else 1) else argmin (pval :: rest) + 1
termination_by l => l.length

structure Plan where
  variant : Nat
  cost : Nat
  res : Operand
deriving Repr, Inhabited

/-- `triplet_flop_cost` -/
def triplet (A B C : Operand) : Plan :=
  let r0 := pairRes A B
  let c01 := pairCost A B + pairCost r0 C
  let r1 := pairRes A C
  let c02 := pairCost A C + pairCost r1 B
  let r2 := pairRes B C
  let c12 := pairCost B C + pairCost r2 A
  let c012 := pairCost (concatAll A B) C
  let v := argmin [c01, c02, c12, c012]
  let res := if v == 0 then pairRes r0 C else if v == 1 then pairRes B r1 else pairRes A r2
  ⟨v, minList [c01, c02, c12, c012], res⟩

/-- `quartet_flop_cost` -/
def quartet (A B C D : Operand) : Plan :=
  let t0 := triplet A B C
  let t1 := triplet A B D
  let t2 := triplet A C D
  let t3 := triplet B C D
  let c0 := t0.cost + pairCost t0.res D
  let c1 := t1.cost + pairCost t1.res C
  let c2 := t2.cost + pairCost t2.res B
  let c3 := t3.cost + pairCost t3.res A
  let v := argmin [c0, c1, c2, c3]
  let res := if v == 0 then pairRes t0.res D else if v == 1 then pairRes C t1.res
    else if v == 2 then pairRes B t2.res else pairRes A t3.res
  ⟨v, minList [c0, c1, c2, c3], res⟩

variable {α : Type} [Zero α] [Add α] [Mul α]

/-- values of the pairwise contraction of two operands (Einstein sum, stride 1) -/
def pairVals (A B : Operand) (a b : List α) : List α :=
  let p : Pair := ⟨A.idx, B.idx, A.dims, B.dims⟩
  runAcc (fun k => a.getD k 0) (fun k => b.getD k 0) (prod p.resDims) (p.loopEvents 1)

/-- `extractor_contract_3::contract_impl` -/
def eval3 (A B C : Operand) (a b c : List α) : Operand × List α :=
  let v := (triplet A B C).variant
  if v == 0 then
    let r := pairRes A B; (pairRes r C, pairVals r C (pairVals A B a b) c)
  else if v == 1 then
    let r := pairRes A C; (pairRes B r, pairVals B r b (pairVals A C a c))
  else
    let r := pairRes B C; (pairRes A r, pairVals A r a (pairVals B C b c))

/-- `extractor_contract_4::contract_impl` -/
def eval4 (A B C D : Operand) (a b c d : List α) : Operand × List α :=
  let v := (quartet A B C D).variant
  if v == 0 then
    let (r, x) := eval3 A B C a b c; (pairRes r D, pairVals r D x d)
  else if v == 1 then
    let (r, x) := eval3 A B D a b d; (pairRes C r, pairVals C r c x)
  else if v == 2 then
    let (r, x) := eval3 A C D a c d; (pairRes B r, pairVals B r b x)
  else
    let (r, x) := eval3 B C D b c d; (pairRes A r, pairVals A r a x)

/-- single-loop evaluation used when operation minimisation is off (`extractor_contract_N_no_opt`):
    one loop nest over all unique indices, result in the declared order -/
def directVals (ops : List Operand) (vals : List (List α)) : Operand × List α :=
  let cat := ops.flatMap (·.idx)
  let cd := ops.flatMap (·.dims)
  let res : Operand := ⟨resultIdx cat, resultDims cat cd⟩
  let ld := loopDims cat cd
  let posO := posIn cat res.idx
  let n := prod res.dims
  let terms : List (Nat × α) := (assignments ld 1).map fun as =>
    let v := (ops.zip vals).foldl (fun (acc : Option α) ov =>
      let x := ov.2.getD (flatAt ov.1.dims (posIn cat ov.1.idx) as) 0
      match acc with
      | none => some x
      | some y => some (y * x)) none
    (flatAt res.dims posO as, v.getD 0)
  (res, (List.range n).map fun q => terms.foldl (fun acc t => if t.1 == q then t.2 + acc else acc) 0)

/-- the declared result: free indices in order of first appearance over all operands -/
def declared (ops : List Operand) : Operand :=
  let cat := ops.flatMap (·.idx)
  let cd := ops.flatMap (·.dims)
  ⟨resultIdx cat, resultDims cat cd⟩

end Fastor.Network
