import FastorModel.Model.Inverse
/-
  Hand model of the SSE intrinsic leaf kernels of Fastor/backend/inverse.h (compiled whenever FASTOR_SSE2_IMPL is
  defined, i.e. on every x86-64 build that does not pass FASTOR_DONT_VECTORISE; the AVX / AVX-512 builds use the same
  128-bit code for these sizes):

    `_inverse<float,4>`   Intel's "divide and conquer" 4x4 inverse on four 2x2 sub-matrices held in one register each
    `_inverse<float,2>`   adjugate by two shuffles, determinant by `_mm_add_ss`
    `_inverse<double,2>`  two registers per matrix

  A 128-bit register of four floats is `V4` (lane 0 = lowest address), of two doubles `V2`.  Each intrinsic is its
  lane function; the floating point operations are the operations of the carrier (a field in the theorems:
  `Proofs/InverseSse.lean` shows the kernels compute exactly the closed forms `inv4` / `inv2`, hence the inverse).
-/
namespace Fastor.Inv.Sse

structure V4 (α : Type) where
  x0 : α
  x1 : α
  x2 : α
  x3 : α

structure V2 (α : Type) where
  y0 : α
  y1 : α

variable {α : Type}

def V4.get (v : V4 α) (i : Nat) : α := match i with | 0 => v.x0 | 1 => v.x1 | 2 => v.x2 | _ => v.x3
def V2.get (v : V2 α) (i : Nat) : α := match i with | 0 => v.y0 | _ => v.y1

/-- `_mm_loadu_ps(p + o)` -/
def loadu (s : Nat → α) (o : Nat) : V4 α := ⟨s o, s (o + 1), s (o + 2), s (o + 3)⟩
/-- `_mm_movelh_ps(a,b)` = (a0,a1,b0,b1) -/
def movelh (a b : V4 α) : V4 α := ⟨a.x0, a.x1, b.x0, b.x1⟩
/-- `_mm_movehl_ps(a,b)` = (b2,b3,a2,a3) -/
def movehl (a b : V4 α) : V4 α := ⟨b.x2, b.x3, a.x2, a.x3⟩
/-- `_mm_shuffle_ps(a,b,imm)` = (a[imm&3], a[(imm>>2)&3], b[(imm>>4)&3], b[(imm>>6)&3]) -/
def shuffle (a b : V4 α) (imm : Nat) : V4 α :=
  ⟨a.get (imm % 4), a.get (imm / 4 % 4), b.get (imm / 16 % 4), b.get (imm / 64 % 4)⟩

section Ops
variable [Zero α] [One α] [Add α] [Sub α] [Neg α] [Mul α] [Div α]

def mul (a b : V4 α) : V4 α := ⟨a.x0 * b.x0, a.x1 * b.x1, a.x2 * b.x2, a.x3 * b.x3⟩
def add (a b : V4 α) : V4 α := ⟨a.x0 + b.x0, a.x1 + b.x1, a.x2 + b.x2, a.x3 + b.x3⟩
def sub (a b : V4 α) : V4 α := ⟨a.x0 - b.x0, a.x1 - b.x1, a.x2 - b.x2, a.x3 - b.x3⟩
/-- the `_ss` forms operate on lane 0 and pass lanes 1..3 of the first operand -/
def mul_ss (a b : V4 α) : V4 α := ⟨a.x0 * b.x0, a.x1, a.x2, a.x3⟩
def add_ss (a b : V4 α) : V4 α := ⟨a.x0 + b.x0, a.x1, a.x2, a.x3⟩
def sub_ss (a b : V4 α) : V4 α := ⟨a.x0 - b.x0, a.x1, a.x2, a.x3⟩
def div_ss (a b : V4 α) : V4 α := ⟨a.x0 / b.x0, a.x1, a.x2, a.x3⟩
/-- `_mm_set_ss(1.0f)` -/
def set_ss_one : V4 α := ⟨1, 0, 0, 0⟩
/-- `_mm_xor_ps(v, p4f_sign_PNNP)`, `p4f_sign_PNNP = _mm_set_epi32(0, 0x80000000, 0x80000000, 0)`: sign flip of lanes 1, 2 -/
def xorPNNP (v : V4 α) : V4 α := ⟨v.x0, - v.x1, - v.x2, v.x3⟩
/-- `_mm_neg_ps` (xor with the sign mask in every lane) -/
def neg (v : V4 α) : V4 α := ⟨- v.x0, - v.x1, - v.x2, - v.x3⟩

/-- `_inverse<float,4>` (SSE): the sixteen values stored to `dst`, statement by statement -/
def inv4f (s : Nat → α) : Nat → α :=
  let L1 := loadu s 0
  let L2 := loadu s 4
  let L3 := loadu s 8
  let L4 := loadu s 12
  let A := movelh L1 L2
  let B := movehl L2 L1
  let C := movelh L3 L4
  let D := movehl L4 L3
  -- AB = A# * B
  let AB := mul (shuffle A A 0x0F) B
  let AB := sub AB (mul (shuffle A A 0xA5) (shuffle B B 0x4E))
  -- DC = D# * C
  let DC := mul (shuffle D D 0x0F) C
  let DC := sub DC (mul (shuffle D D 0xA5) (shuffle C C 0x4E))
  -- determinants of the sub-matrices (lane 0)
  let dA := mul (shuffle A A 0x5F) A
  let dA := sub_ss dA (movehl dA dA)
  let dB := mul (shuffle B B 0x5F) B
  let dB := sub_ss dB (movehl dB dB)
  let dC := mul (shuffle C C 0x5F) C
  let dC := sub_ss dC (movehl dC dC)
  let dD := mul (shuffle D D 0x5F) D
  let dD := sub_ss dD (movehl dD dD)
  -- d = trace(AB*DC)
  let d := mul (shuffle DC DC 0xD8) AB
  -- iD = C*A#*B
  let iD := mul (shuffle C C 0xA0) (movelh AB AB)
  let iD := add iD (mul (shuffle C C 0xF5) (movehl AB AB))
  -- iA = B*D#*C
  let iA := mul (shuffle B B 0xA0) (movelh DC DC)
  let iA := add iA (mul (shuffle B B 0xF5) (movehl DC DC))
  let d := add d (movehl d d)
  let d := add_ss d (shuffle d d 1)
  let d1 := mul_ss dA dD
  let d2 := mul_ss dB dC
  -- iD = D*|A| - C*A#*B
  let iD := sub (mul D (shuffle dA dA 0)) iD
  -- iA = A*|D| - B*D#*C
  let iA := sub (mul A (shuffle dD dD 0)) iA
  -- det = |A|*|D| + |B|*|C| - trace(A#*B*D#*C)
  let det := sub_ss (add_ss d1 d2) d
  let rd := div_ss set_ss_one det
  -- iB = D * (A#B)#
  let iB := mul D (shuffle AB AB 0x33)
  let iB := sub iB (mul (shuffle D D 0xB1) (shuffle AB AB 0x66))
  -- iC = A * (D#C)#
  let iC := mul A (shuffle DC DC 0x33)
  let iC := sub iC (mul (shuffle A A 0xB1) (shuffle DC DC 0x66))
  let rd := shuffle rd rd 0
  let rd := xorPNNP rd
  -- iB = C*|B| - D*B#*A
  let iB := sub (mul C (shuffle dB dB 0)) iB
  -- iC = B*|C| - A*C#*D
  let iC := sub (mul B (shuffle dC dC 0)) iC
  let iA := mul rd iA
  let iB := mul rd iB
  let iC := mul rd iC
  let iD := mul rd iD
  let r0 := shuffle iA iB 0x77
  let r1 := shuffle iA iB 0x22
  let r2 := shuffle iC iD 0x77
  let r3 := shuffle iC iD 0x22
  fun k => if k < 4 then r0.get k else if k < 8 then r1.get (k - 4) else if k < 12 then r2.get (k - 8) else r3.get (k - 12)

/-- the value `_inverse<float,4>` divides by (lane 0 of `det`) -/
def det4f (s : Nat → α) : α :=
  let a := s 0 * s 5 - s 1 * s 4
  let b := s 2 * s 7 - s 3 * s 6
  let c := s 8 * s 13 - s 9 * s 12
  let dd := s 10 * s 15 - s 11 * s 14
  let ab0 := s 5 * s 2 - s 1 * s 6
  let ab1 := s 5 * s 3 - s 1 * s 7
  let ab2 := s 0 * s 6 - s 4 * s 2
  let ab3 := s 0 * s 7 - s 4 * s 3
  let dc0 := s 15 * s 8 - s 11 * s 12
  let dc1 := s 15 * s 9 - s 11 * s 13
  let dc2 := s 10 * s 12 - s 14 * s 8
  let dc3 := s 10 * s 13 - s 14 * s 9
  a * dd + b * c - (dc0 * ab0 + dc2 * ab1 + (dc1 * ab2 + dc3 * ab3))

/-- `_inverse<float,2>` (SSE) -/
def inv2f (s : Nat → α) : Nat → α :=
  let mat := loadu s 0
  let nmat := neg mat
  let adj := shuffle mat nmat 0x9C
  let adj := shuffle adj adj 0x39
  let tmp0 := shuffle mat mat 0xD8
  let tmp0 := mul adj tmp0
  let tmp1 := shuffle tmp0 tmp0 0x1
  let det := div_ss (⟨1, 1, 1, 1⟩ : V4 α) (add_ss tmp0 tmp1)
  let det := shuffle det det 0x0
  let inv := mul adj det
  fun k => inv.get k

/-! two doubles per register -/
def loadu2 (s : Nat → α) (o : Nat) : V2 α := ⟨s o, s (o + 1)⟩
/-- `_mm_shuffle_pd(a,b,imm)` = (imm&1 ? a1 : a0, imm&2 ? b1 : b0) -/
def shuffle_pd (a b : V2 α) (imm : Nat) : V2 α := ⟨a.get (imm % 2), b.get (imm / 2 % 2)⟩
def neg2 (v : V2 α) : V2 α := ⟨- v.y0, - v.y1⟩
def mul2 (a b : V2 α) : V2 α := ⟨a.y0 * b.y0, a.y1 * b.y1⟩
def add2 (a b : V2 α) : V2 α := ⟨a.y0 + b.y0, a.y1 + b.y1⟩
def div2 (a b : V2 α) : V2 α := ⟨a.y0 / b.y0, a.y1 / b.y1⟩
/-- `_mm_reverse_pd` (extintrin.h) -/
def reverse2 (v : V2 α) : V2 α := ⟨v.y1, v.y0⟩

/-- `_inverse<double,2>` (SSE) -/
def inv2d (s : Nat → α) : Nat → α :=
  let row0 := loadu2 s 0
  let row1 := loadu2 s 2
  let tmp := row0
  let row0 := shuffle_pd row0 (neg2 row0) 0x2
  let row1 := shuffle_pd (neg2 row1) row1 0x2
  let irow0 := shuffle_pd row1 row0 0x3
  let irow1 := shuffle_pd row1 row0 0x0
  let det := mul2 tmp (reverse2 row1)
  let det := add2 det (reverse2 det)
  let invdet := div2 (⟨1, 1⟩ : V2 α) det
  let irow0 := mul2 irow0 invdet
  let irow1 := mul2 irow1 invdet
  fun k => if k < 2 then irow0.get k else irow1.get (k - 2)

end Ops
end Fastor.Inv.Sse
