import FastorModel.Model.Inverse
/-
  Hand model of the SSE intrinsic leaf kernels of Fastor/backend/inverse.h (compiled whenever FASTOR_SSE2_IMPL is
  defined, i.e. on every x86-64 build that does not pass FASTOR_DONT_VECTORISE; the AVX / AVX-512 builds use the same
  128-bit code for these sizes):

    `_inverse<float,4>`   Intel's "divide and conquer" 4x4 inverse on four 2x2 sub-matrices held in one register each
    `_inverse<float,2>`   adjugate by two shuffles, determinant by `_mm_add_ss`
    `_inverse<double,2>`  two registers per matrix

  A 128-bit register of four floats is `V4` (lane 0 = lowest address), of two doubles `V2`.  Each intrinsic is its
  lane function; the floating point operations are the operations of the carrier (a field in the theorems:
  `Proofs/InverseSse.lean` shows the kernels compute exactly the closed forms `inv4` / `inv2`, hence the inverse).
-/
namespace Fastor.Inv.Sse

structure V4 (α : Type) where
  x0 : α
  x1 : α
  x2 : α
  x3 : α

structure V2 (α : Type) where
  y0 : α
  y1 : α

variable {α : Type}

def V4.get (v : V4 α) (i : Nat) : α := match i with | 0 => v.x0 | 1 => v.x1 | 2 => v.x2 | _ => v.x3
def V2.get (v : V2 α) (i : Nat) : α := match i with | 0 => v.y0 | _ => v.y1

/-- `_mm_loadu_ps(p + o)` -/
def loadu (s : Nat → α) (o : Nat) : V4 α := ⟨s o, s (o + 1), s (o + 2), s (o + 3)⟩
/-- `_mm_movelh_ps(a,b)` = (a0,a1,b0,b1) -/
def movelh (a b : V4 α) : V4 α := ⟨a.x0, a.x1, b.x0, b.x1⟩
/-- `_mm_movehl_ps(a,b)` = (b2,b3,a2,a3) -/
def movehl (a b : V4 α) : V4 α := ⟨b.x2, b.x3, a.x2, a.x3⟩
/-- `_mm_shuffle_ps(a,b,imm)` = (a[imm&3], a[(imm>>2)&3], b[(imm>>4)&3], b[(imm>>6)&3]) -/
def shuffle (a b : V4 α) (imm : Nat) : V4 α :=
  ⟨a.get (imm % 4), a.get (imm / 4 % 4), b.get (imm / 16 % 4), b.get (imm / 64 % 4)⟩

section Ops
variable [Zero α] [One α] [Add α] [Sub α] [Neg α] [Mul α] [Div α]

def mul (a b : V4 α) : V4 α := ⟨a.x0 * b.x0, a.x1 * b.x1, a.x2 * b.x2, a.x3 * b.x3⟩
def add (a b : V4 α) : V4 α := ⟨a.x0 + b.x0, a.x1 + b.x1, a.x2 + b.x2, a.x3 + b.x3⟩
def sub (a b : V4 α) : V4 α := ⟨a.x0 - b.x0, a.x1 - b.x1, a.x2 - b.x2, a.x3 - b.x3⟩
/-- the `_ss` forms operate on lane 0 and pass lanes 1..3 of the first operand -/
def mul_ss (a b : V4 α) : V4 α := ⟨a.x0 * b.x0, a.x1, a.x2, a.x3⟩
def add_ss (a b : V4 α) : V4 α := ⟨a.x0 + b.x0, a.x1, a.x2, a.x3⟩
def sub_ss (a b : V4 α) : V4 α := ⟨a.x0 - b.x0, a.x1, a.x2, a.x3⟩
def div_ss (a b : V4 α) : V4 α := ⟨a.x0 / b.x0, a.x1, a.x2, a.x3⟩
/-- `_mm_set_ss(1.0f)` -/
def set_ss_one : V4 α := ⟨1, 0, 0, 0⟩
/-- `_mm_xor_ps(v, p4f_sign_PNNP)`, `p4f_sign_PNNP = _mm_set_epi32(0, 0x80000000, 0x80000000, 0)`: sign flip of lanes 1, 2 -/
def xorPNNP (v : V4 α) : V4 α := ⟨v.x0, - v.x1, - v.x2, v.x3⟩
/-- `_mm_neg_ps` (xor with the sign mask in every lane) -/
def neg (v : V4 α) : V4 α := ⟨- v.x0, - v.x1, - v.x2, - v.x3⟩

/-- `_inverse<float,4>` (SSE): the sixteen values stored to `dst`, statement by statement -/
def inv4f (s : Nat → α) : Nat → α :=
  let L1 := loadu s 0
  let L2 := loadu s 4
  let L3 := loadu s 8
  let L4 := loadu s 12
  let A := movelh L1 L2
  let B := movehl L2 L1
  let C := movelh L3 L4
  let D := movehl L4 L3
  -- AB = A# * B
  let AB := mul (shuffle A A 0x0F) B
  let AB := sub AB (mul (shuffle A A 0xA5) (shuffle B B 0x4E))
  -- DC = D# * C
  let DC := mul (shuffle D D 0x0F) C
  let DC := sub DC (mul (shuffle D D 0xA5) (shuffle C C 0x4E))
  -- determinants of the sub-matrices (lane 0)
  let dA := mul (shuffle A A 0x5F) A
  let dA := sub_ss dA (movehl dA dA)
  let dB := mul (shuffle B B 0x5F) B
  let dB := sub_ss dB (movehl dB dB)
  let dC := mul (shuffle C C 0x5F) C
  let dC := sub_ss dC (movehl dC dC)
  let dD := mul (shuffle D D 0x5F) D
  let dD := sub_ss dD (movehl dD dD)
  -- d = trace(AB*DC)
  let d := mul (shuffle DC DC 0xD8) AB
  -- iD = C*A#*B
  let iD := mul (shuffle C C 0xA0) (movelh AB AB)
  let iD := add iD (mul (shuffle C C 0xF5) (movehl AB AB))
  -- iA = B*D#*C
  let iA := mul (shuffle B B 0xA0) (movelh DC DC)
  let iA := add iA (mul (shuffle B B 0xF5) (movehl DC DC))
  let d := add d (movehl d d)
  let d := add_ss d (shuffle d d 1)
  let d1 := mul_ss dA dD
  let d2 := mul_ss dB dC
  -- iD = D*|A| - C*A#*B
  let iD := sub (mul D (shuffle dA dA 0)) iD
  -- iA = A*|D| - B*D#*C
  let iA := sub (mul A (shuffle dD dD 0)) iA
  -- det = |A|*|D| + |B|*|C| - trace(A#*B*D#*C)
  let det := sub_ss (add_ss d1 d2) d
  let rd := div_ss set_ss_one det
  -- iB = D * (A#B)#
  let iB := mul D (shuffle AB AB 0x33)
  let iB := sub iB (mul (shuffle D D 0xB1) (shuffle AB AB 0x66))
  -- iC = A * (D#C)#
  let iC := mul A (shuffle DC DC 0x33)
  let iC := sub iC (mul (shuffle A A 0xB1) (shuffle DC DC 0x66))
  let rd := shuffle rd rd 0
  let rd := xorPNNP rd
  -- iB = C*|B| - D*B#*A
  let iB := sub (mul C (shuffle dB dB 0)) iB
  -- iC = B*|C| - A*C#*D
  let iC := sub (mul B (shuffle dC dC 0)) iC
  let iA := mul rd iA
  let iB := mul rd iB
  let iC := mul rd iC
  let iD := mul rd iD
  let r0 := shuffle iA iB 0x77
  let r1 := shuffle iA iB 0x22
  let r2 := shuffle iC iD 0x77
  let r3 := shuffle iC iD 0x22
  fun k => if k < 4 then r0.get k else if k < 8 then r1.get (k - 4) else if k < 12 then r2.get (k - 8) else r3.get (k - 12)

/-- the value `_inverse<float,4>` divides by (lane 0 of `det`) -/
def det4f (s : Nat → α) : α :=
  let a := s 0 * s 5 - s 1 * s 4
  let b := s 2 * s 7 - s 3 * s 6
  let c := s 8 * s 13 - s 9 * s 12
  let dd := s 10 * s 15 - s 11 * s 14
  let ab0 := s 5 * s 2 - s 1 * s 6
  let ab1 := s 5 * s 3 - s 1 * s 7
  let ab2 := s 0 * s 6 - s 4 * s 2
  let ab3 := s 0 * s 7 - s 4 * s 3
  let dc0 := s 15 * s 8 - s 11 * s 12
  let dc1 := s 15 * s 9 - s 11 * s 13
  let dc2 := s 10 * s 12 - s 14 * s 8
  let dc3 := s 10 * s 13 - s 14 * s 9
  a * dd + b * c - (dc0 * ab0 + dc2 * ab1 + (dc1 * ab2 + dc3 * ab3))

/-- `_inverse<float,2>` (SSE) -/
def inv2f (s : Nat → α) : Nat → α :=
  let mat := loadu s 0
  let nmat := neg mat
  let adj := shuffle mat nmat 0x9C
  let adj := shuffle adj adj 0x39
  let tmp0 := shuffle mat mat 0xD8
  let tmp0 := mul adj tmp0
  let tmp1 := shuffle tmp0 tmp0 0x1
  let det := div_ss (⟨1, 1, 1, 1⟩ : V4 α) (add_ss tmp0 tmp1)
  let det := shuffle det det 0x0
  let inv := mul adj det
  fun k => inv.get k

/-! two doubles per register -/
def loadu2 (s : Nat → α) (o : Nat) : V2 α := ⟨s o, s (o + 1)⟩
/-- `_mm_shuffle_pd(a,b,imm)` = (imm&1 ? a1 : a0, imm&2 ? b1 : b0) -/
def shuffle_pd (a b : V2 α) (imm : Nat) : V2 α := ⟨a.get (imm % 2), b.get (imm / 2 % 2)⟩
def neg2 (v : V2 α) : V2 α := ⟨- v.y0, - v.y1⟩
def mul2 (a b : V2 α) : V2 α := ⟨a.y0 * b.y0, a.y1 * b.y1⟩
def add2 (a b : V2 α) : V2 α := ⟨a.y0 + b.y0, a.y1 + b.y1⟩
def div2 (a b : V2 α) : V2 α := ⟨a.y0 / b.y0, a.y1 / b.y1⟩
/-- `_mm_reverse_pd` (extintrin.h) -/
def reverse2 (v : V2 α) : V2 α := ⟨v.y1, v.y0⟩

/-- `_inverse<double,2>` (SSE) -/
def inv2d (s : Nat → α) : Nat → α :=
  let row0 := loadu2 s 0
  let row1 := loadu2 s 2
  let tmp := row0
  let row0 := shuffle_pd row0 (neg2 row0) 0x2
  let row1 := shuffle_pd (neg2 row1) row1 0x2
  let irow0 := shuffle_pd row1 row0 0x3
  let irow1 := shuffle_pd row1 row0 0x0
  let det := mul2 tmp (reverse2 row1)
  let det := add2 det (reverse2 det)
  let invdet := div2 (⟨1, 1⟩ : V2 α) det
  let irow0 := mul2 irow0 invdet
  let irow1 := mul2 irow1 invdet
  fun k => if k < 2 then irow0.get k else irow1.get (k - 2)

def sub2 (a b : V2 α) : V2 α := ⟨a.y0 - b.y0, a.y1 - b.y1⟩
/-- the `_sd` forms operate on lane 0 and pass lane 1 of the first operand -/
def mul_sd (a b : V2 α) : V2 α := ⟨a.y0 * b.y0, a.y1⟩
def add_sd (a b : V2 α) : V2 α := ⟨a.y0 + b.y0, a.y1⟩
def sub_sd (a b : V2 α) : V2 α := ⟨a.y0 - b.y0, a.y1⟩
def div_sd (a b : V2 α) : V2 α := ⟨a.y0 / b.y0, a.y1⟩
/-- `_mm_set_sd(1.0)` -/
def set_sd_one : V2 α := ⟨1, 0⟩
/-- `_mm_xor_pd(v, _Sign_PN)`, `_Sign_PN = _mm_set_epi32(0x80000000,0,0,0)`: sign flip of lane 1 -/
def xorPN (v : V2 α) : V2 α := ⟨v.y0, - v.y1⟩
/-- `_mm_xor_pd(v, _Sign_NP)`, `_Sign_NP = _mm_set_epi32(0,0,0x80000000,0)`: sign flip of lane 0 -/
def xorNP (v : V2 α) : V2 α := ⟨- v.y0, v.y1⟩

/-- `_inverse<double,4>` (SSE): eight registers for the four 2x2 sub-matrices, statement by statement -/
def inv4d (s : Nat → α) : Nat → α :=
  let A1 := loadu2 s 0
  let B1 := loadu2 s 2
  let A2 := loadu2 s 4
  let B2 := loadu2 s 6
  let C1 := loadu2 s 8
  let D1 := loadu2 s 10
  let C2 := loadu2 s 12
  let D2 := loadu2 s 14
  let dA := shuffle_pd A2 A2 1
  let dA := mul2 A1 dA
  let dA := sub_sd dA (shuffle_pd dA dA 3)
  let dB := shuffle_pd B2 B2 1
  let dB := mul2 B1 dB
  let dB := sub_sd dB (shuffle_pd dB dB 3)
  let AB1 := mul2 B1 (shuffle_pd A2 A2 3)
  let AB2 := mul2 B2 (shuffle_pd A1 A1 0)
  let AB1 := sub2 AB1 (mul2 B2 (shuffle_pd A1 A1 3))
  let AB2 := sub2 AB2 (mul2 B1 (shuffle_pd A2 A2 0))
  let dC := shuffle_pd C2 C2 1
  let dC := mul2 C1 dC
  let dC := sub_sd dC (shuffle_pd dC dC 3)
  let dD := shuffle_pd D2 D2 1
  let dD := mul2 D1 dD
  let dD := sub_sd dD (shuffle_pd dD dD 3)
  let DC1 := mul2 C1 (shuffle_pd D2 D2 3)
  let DC2 := mul2 C2 (shuffle_pd D1 D1 0)
  let DC1 := sub2 DC1 (mul2 C2 (shuffle_pd D1 D1 3))
  let DC2 := sub2 DC2 (mul2 C1 (shuffle_pd D2 D2 0))
  let d1 := mul2 AB1 (shuffle_pd DC1 DC2 0)
  let d2 := mul2 AB2 (shuffle_pd DC1 DC2 3)
  let rd := add2 d1 d2
  let rd := add_sd rd (shuffle_pd rd rd 3)
  let iD1 := mul2 AB1 (shuffle_pd C1 C1 0)
  let iD2 := mul2 AB1 (shuffle_pd C2 C2 0)
  let iD1 := add2 iD1 (mul2 AB2 (shuffle_pd C1 C1 3))
  let iD2 := add2 iD2 (mul2 AB2 (shuffle_pd C2 C2 3))
  let iA1 := mul2 DC1 (shuffle_pd B1 B1 0)
  let iA2 := mul2 DC1 (shuffle_pd B2 B2 0)
  let iA1 := add2 iA1 (mul2 DC2 (shuffle_pd B1 B1 3))
  let iA2 := add2 iA2 (mul2 DC2 (shuffle_pd B2 B2 3))
  let dA := shuffle_pd dA dA 0
  let iD1 := sub2 (mul2 D1 dA) iD1
  let iD2 := sub2 (mul2 D2 dA) iD2
  let dD := shuffle_pd dD dD 0
  let iA1 := sub2 (mul2 A1 dD) iA1
  let iA2 := sub2 (mul2 A2 dD) iA2
  let d1 := mul_sd dA dD
  let d2 := mul_sd dB dC
  let iB1 := mul2 D1 (shuffle_pd AB2 AB1 1)
  let iB2 := mul2 D2 (shuffle_pd AB2 AB1 1)
  let iB1 := sub2 iB1 (mul2 (shuffle_pd D1 D1 1) (shuffle_pd AB2 AB1 2))
  let iB2 := sub2 iB2 (mul2 (shuffle_pd D2 D2 1) (shuffle_pd AB2 AB1 2))
  let det := add_sd d1 d2
  let det := sub_sd det rd
  let iC1 := mul2 A1 (shuffle_pd DC2 DC1 1)
  let iC2 := mul2 A2 (shuffle_pd DC2 DC1 1)
  let iC1 := sub2 iC1 (mul2 (shuffle_pd A1 A1 1) (shuffle_pd DC2 DC1 2))
  let iC2 := sub2 iC2 (mul2 (shuffle_pd A2 A2 1) (shuffle_pd DC2 DC1 2))
  let rd := div_sd set_sd_one det
  let rd := shuffle_pd rd rd 0
  let dB := shuffle_pd dB dB 0
  let iB1 := sub2 (mul2 C1 dB) iB1
  let iB2 := sub2 (mul2 C2 dB) iB2
  let d1 := xorPN rd
  let d2 := xorNP rd
  let dC := shuffle_pd dC dC 0
  let iC1 := sub2 (mul2 B1 dC) iC1
  let iC2 := sub2 (mul2 B2 dC) iC2
  let o0 := mul2 (shuffle_pd iA2 iA1 3) d1
  let o4 := mul2 (shuffle_pd iA2 iA1 0) d2
  let o2 := mul2 (shuffle_pd iB2 iB1 3) d1
  let o6 := mul2 (shuffle_pd iB2 iB1 0) d2
  let o8 := mul2 (shuffle_pd iC2 iC1 3) d1
  let o12 := mul2 (shuffle_pd iC2 iC1 0) d2
  let o10 := mul2 (shuffle_pd iD2 iD1 3) d1
  let o14 := mul2 (shuffle_pd iD2 iD1 0) d2
  fun k => match k with
    | 0 => o0.y0 | 1 => o0.y1 | 2 => o2.y0 | 3 => o2.y1
    | 4 => o4.y0 | 5 => o4.y1 | 6 => o6.y0 | 7 => o6.y1
    | 8 => o8.y0 | 9 => o8.y1 | 10 => o10.y0 | 11 => o10.y1
    | 12 => o12.y0 | 13 => o12.y1 | 14 => o14.y0 | _ => o14.y1

end Ops
end Fastor.Inv.Sse
