import FastorModel.Core.Loop
import FastorModel.Model.Expr
import FastorModel.Model.Config
/-
  Model of the scalar-valued reductions (property C16).

  Anchors (transcribed from the current source):
  * tensor/AbstractTensorFunctions.h  `sum product min max` of an expression (`eval<T>(i)` / `eval_s<T>(i)`
    route), `all_of any_of none_of`, `issymmetric`, `isequal`
  * tensor/TensorMethods.h            `Tensor::sum()`, `Tensor::product()` (early return for size <= 1)
  * backend/norm.h                    `_norm<T,N>` (single accumulator when N <= 4V / 8V, unroll ladder otherwise)
  * expressions/linalg_ops/unary_norm_op.h  `norm(expr)` (unroll ladder 8,4,2,1 / 4,2,1 with 8 / 4 accumulators)
  * backend/doublecontract.h (`inner`) `_doublecontract<T,N,1>` (single accumulator when N <= 4V, ladder 4,2,1)
  * backend/trace.h, unary_trace_op.h `_trace` / `trace(expr)` (scalar loop over i*(N+1))
  * backend/determinant.h             `_det` closed forms n <= 4; unary_lu_op.h / unary_qr_op.h determinants

  Every reduction is the same machine: `U` vector accumulators of `V` lanes each, a ladder of unroll
  factors `u` (one loop `for (; i < ROUND_DOWN(n,u*V); i += u*V)` per factor, whose body touches
  accumulators `0..u-1` at positions `i + k*V`), a scalar tail `for (; i < n; ++i)`, a lane-wise
  combination of the accumulators, a horizontal step over the lanes and a final combine with the tail.
  Vector primitives are lane-wise by definition (lane `l` of a load at `p` is element `p+l`; that the
  real `SIMDVector<T,ABI>` and the expression `eval` are lane-wise is C08 / C02 `lanes_of_evalV`).
-/
namespace Fastor.Reduce
open Fastor Fastor.Expr

variable {α : Type}

/-! ### loop structure -/

/-- one stage `for (; i < ROUND_DOWN(n,u*V); i += u*V) { for k<u: omm_k (op)= load(i + k*V) }`:
    the (accumulator, position) pairs in program order and the value of `i` on exit -/
def stage (n V u i : Nat) : List (Nat × Nat) × Nat :=
  ((forRange i (roundDown n (u * V)) (u * V)).flatMap (fun p => (List.range u).map fun k => (k, p + k * V)),
   forExit i (roundDown n (u * V)) (u * V))

/-- the ladder of stages, from `i` -/
def ladder (n V : Nat) : List Nat → Nat → List (Nat × Nat) × Nat
  | [], i => ([], i)
  | u :: us, i =>
    let s := stage n V u i
    let r := ladder n V us s.2
    (s.1 ++ r.1, r.2)

/-- vector steps of a reduction with the given unroll ladder -/
def vecSteps (n V : Nat) (us : List Nat) : List (Nat × Nat) := (ladder n V us 0).1
/-- positions handled by the scalar tail `for (; i < n; ++i)` -/
def tailPos (n V : Nat) (us : List Nat) : List Nat := forRange (ladder n V us 0).2 n 1

/-! ### values -/

/-- accumulators after the vector steps: `acc k l` is lane `l` of accumulator `k`.
    `upd a t` is the lane update (`a op= t`, `a = fmadd(s,s,a)` ...) -/
def runVec (upd : α → α → α) (term : Nat → α) (init : α) (steps : List (Nat × Nat)) : Nat → Nat → α :=
  steps.foldl (fun acc kp => fun k l => if k = kp.1 then upd (acc k l) (term (kp.2 + l)) else acc k l) (fun _ _ => init)

/-- `omm0 op omm1 op ... op omm_{U-1}` lane-wise (left to right) -/
def combine (op : α → α → α) (U : Nat) (acc : Nat → Nat → α) (l : Nat) : α :=
  (List.range (U - 1)).foldl (fun a k => op a (acc (k + 1) l)) (acc 0 l)

/-- horizontal step of the ideal vector: `q = h0; for l < V: q = q op v[l]` (`SIMDVector::sum/product`) -/
def hfold (op : α → α → α) (h0 : α) (V : Nat) (v : Nat → α) : α :=
  (List.range V).foldl (fun q l => op q (v l)) h0

/-- scalar tail: `s = s0; for i: s = upd s (term i)` -/
def runTail (upd : α → α → α) (term : Nat → α) (s0 : α) (ps : List Nat) : α :=
  ps.foldl (fun s i => upd s (term i)) s0

/-- parameters of one reduction as the code writes it -/
structure Spec (α : Type) where
  op : α → α → α          -- the scalar operation
  vecInit : α             -- every lane of every vector accumulator starts here
  tailInit : α            -- the scalar accumulator starts here
  hInit : α               -- the horizontal step starts here
  U : Nat                 -- number of vector accumulators
  us : List Nat           -- unroll ladder

/-- the reduction: `hfold(combine(accs)) op tail` -/
def reduce (s : Spec α) (term : Nat → α) (n V : Nat) : α :=
  let acc := runVec s.op term s.vecInit (vecSteps n V s.us)
  let tl := runTail s.op term s.tailInit (tailPos n V s.us)
  s.op (hfold s.op s.hInit V (combine s.op s.U acc)) tl

/-- depth of the summation tree the machine fixes: no element passes through more than this many applications of `op`
    (`#vector steps + U + V + #tail steps + 1`); the harness prints the same number (reduce_depth.h) -/
def depth (n V U : Nat) (us : List Nat) : Nat := (vecSteps n V us).length + U + V + (tailPos n V us).length + 1

/-! ### the instances the code contains (seeds read from the source) -/

section inst
variable [Zero α] [One α] [Add α] [Mul α]

/-- `sum(expr)`: `T _scal=0; V _vec(_scal); ... return _vec.sum() + _scal;` -/
def sumSpec : Spec α := ⟨(· + ·), 0, 0, 0, 1, [1]⟩
/-- `product(expr)`: `T _scal=1; V _vec(_scal); ... return _vec.product() * _scal;` -/
def prodSpec : Spec α := ⟨(· * ·), 1, 1, 1, 1, [1]⟩

def sumExpr (term : Nat → α) (n V : Nat) : α := reduce sumSpec term n V
def prodExpr (term : Nat → α) (n V : Nat) : α := reduce prodSpec term n V

/-- `Tensor::sum()`: `if (size()==0 || size()==1) return _data[0];` then the same loops -/
def tensorSum (x : Nat → α) (n V : Nat) : α := if n ≤ 1 then x 0 else reduce sumSpec x n V
/-- `Tensor::product()` -/
def tensorProd (x : Nat → α) (n V : Nat) : α := if n ≤ 1 then x 0 else reduce prodSpec x n V

/-- unroll ladder and accumulator count of `norm(expr)`: 8,4,2,1 under `FASTOR_AVX512_IMPL`, else 4,2,1 -/
def normLadder (avx512 : Bool) : Nat × List Nat := if avx512 then (8, [8, 4, 2, 1]) else (4, [4, 2, 1])

/-- radicand of `norm(expr)`: `omm_k = fmadd(s,s,omm_k)`, tail `_scal += s*s`,
    `sqrts((omm0 + ... ).sum() + _scal)`; the accumulators are default-constructed (zero) -/
def norm2Expr (avx512 : Bool) (term : Nat → α) (n V : Nat) : α :=
  reduce ⟨(· + ·), 0, 0, 0, (normLadder avx512).1, (normLadder avx512).2⟩ (fun i => term i * term i) n V

/-- radicand of `_norm<T,N>`: the overload with one accumulator when `N <= 4V` (`8V` with AVX-512) -/
def norm2Tensor (avx512 : Bool) (x : Nat → α) (n V : Nat) : α :=
  if n ≤ (normLadder avx512).1 * V then reduce ⟨(· + ·), 0, 0, 0, 1, [1]⟩ (fun i => x i * x i) n V
  else norm2Expr avx512 x n V

/-- `_doublecontract<T,N,1>` (`inner(a,b)`): one accumulator when `N <= 4V`, else ladder 4,2,1 with 4 -/
def inner (a b : Nat → α) (n V : Nat) : α :=
  if n ≤ 4 * V then reduce ⟨(· + ·), 0, 0, 0, 1, [1]⟩ (fun i => a i * b i) n V
  else reduce ⟨(· + ·), 0, 0, 0, 4, [4, 2, 1]⟩ (fun i => a i * b i) n V

/-- `_trace<T,M,M>` / `trace(expr)`: `for i<M: sum += a[i*N+i]` (the expression form reads `i*(N+1)`) -/
def trace (x : Nat → α) (M : Nat) : α := (List.range M).foldl (fun s i => s + x (i * M + i)) 0
def traceExpr (x : Nat → α) (M : Nat) : α := (List.range M).foldl (fun s i => s + x (i * (M + 1))) 0

end inst

/-! ### min / max -/

/-- horizontal `minimum()/maximum()` of the generic and integer vectors:
    `quan = value[0]; for i<Size: if (value[i] < quan) quan = value[i];` -/
def hpick (better : α → α → Bool) (V : Nat) (v : Nat → α) : α :=
  (List.range V).foldl (fun q l => if better (v l) q then v l else q) (v 0)

/-- `min(expr)` / `max(expr)`: `_scal = seed; _vec(_scal); _vec = min(eval(i), _vec);
    _scal = std::min(eval_s(i), _scal); return std::min(_vec.minimum(), _scal);`
    `pick a b` is `std::min(a,b)` = `(b < a) ? b : a`, resp. `std::max(a,b)` = `(a < b) ? b : a` -/
def minmax (better : α → α → Bool) (seed : α) (x : Nat → α) (n V : Nat) : α :=
  let pick : α → α → α := fun a b => if better b a then b else a
  let acc := runVec (fun a t => pick t a) x seed (vecSteps n V [1])
  let tl := runTail (fun s t => pick t s) x seed (tailPos n V [1])
  pick (hpick better V (acc 0)) tl

/-! ### predicates -/

/-- `all_of`: `val = true; for i: if (eval_s(i) == false) { val = false; break; }` -/
def allOf (b : Nat → Bool) (n : Nat) : Bool :=
  (List.range n).foldl (fun val i => if val then (if b i == false then false else true) else false) true
/-- `any_of`: `val = false; for i: if (eval_s(i) == true) { val = true; break; }` -/
def anyOf (b : Nat → Bool) (n : Nat) : Bool :=
  (List.range n).foldl (fun val i => if val then true else (if b i == true then true else false)) false
/-- `none_of` AS WRITTEN in AbstractTensorFunctions.h: the body is a copy of `any_of`
    (`val = false; ... if (eval_s(i) == true) { val = true; break; } return val;`) -/
def noneOfCode (b : Nat → Bool) (n : Nat) : Bool :=
  (List.range n).foldl (fun val i => if val then true else (if b i == true then true else false)) false
/-- the repaired body (`val = true; ... { val = false; break; }`) -/
def noneOfFixed (b : Nat → Bool) (n : Nat) : Bool :=
  (List.range n).foldl (fun val i => if val then (if b i == true then false else true) else false) true

/-- `issymmetric` of a square `M x M` expression (non-evaluating overload): the break only leaves the
    inner loop, `_issym` stays false -/
def isSymmetric (viol : Nat → Nat → Bool) (M : Nat) : Bool :=
  (List.range M).foldl (fun s i =>
    (List.range M).foldl (fun (st : Bool × Bool) j =>   -- (issym, broken)
      if st.2 then st else if viol (i * M + j) (j * M + i) then (false, true) else st) (s, false) |>.1) true

/-! ### determinants -/

section det
variable [Add α] [Sub α] [Mul α]

/-- `_det<T,2,2>` -/
def det2 (a : Nat → α) : α := a 0 * a 3 - a 1 * a 2
/-- `_det<T,3,3>` -/
def det3 (a : Nat → α) : α :=
  a 0 * a 4 * a 8 + a 1 * a 5 * a 6 + a 2 * a 3 * a 7 - a 2 * a 4 * a 6 - a 1 * a 3 * a 8 - a 0 * a 5 * a 7
/-- `_det<T,4,4>` (the 24 terms in source order) -/
def det4 (m : Nat → α) : α :=
  m 12 * m 9 * m 6 * m 3 - m 8 * m 13 * m 6 * m 3 -
  m 12 * m 5 * m 10 * m 3 + m 4 * m 13 * m 10 * m 3 +
  m 8 * m 5 * m 14 * m 3 - m 4 * m 9 * m 14 * m 3 -
  m 12 * m 9 * m 2 * m 7 + m 8 * m 13 * m 2 * m 7 +
  m 12 * m 1 * m 10 * m 7 - m 0 * m 13 * m 10 * m 7 -
  m 8 * m 1 * m 14 * m 7 + m 0 * m 9 * m 14 * m 7 +
  m 12 * m 5 * m 2 * m 11 - m 4 * m 13 * m 2 * m 11 -
  m 12 * m 1 * m 6 * m 11 + m 0 * m 13 * m 6 * m 11 +
  m 4 * m 1 * m 14 * m 11 - m 0 * m 5 * m 14 * m 11 -
  m 8 * m 5 * m 2 * m 15 + m 4 * m 9 * m 2 * m 15 +
  m 8 * m 1 * m 6 * m 15 - m 0 * m 9 * m 6 * m 15 -
  m 4 * m 1 * m 10 * m 15 + m 0 * m 5 * m 10 * m 15

/-- `determinant<Simple>` for `M <= 4` (`M = 1`: the element) -/
def detSimple (M : Nat) (a : Nat → α) : α :=
  match M with
  | 1 => a 0
  | 2 => det2 a
  | 3 => det3 a
  | _ => det4 a
end det

/-- `internal::count_swaps(A)`: static pivot search on the ORIGINAL matrix: for every column `j` the
    first row `i >= j` with the largest `|A(i,j)|`; counts the columns where that row is not `j` -/
def countSwaps (absLt : Nat → Nat → Bool) (M : Nat) : Nat :=
  (List.range M).foldl (fun count j =>
    let maxIndex := (forRange j M 1).foldl (fun mi i => if absLt (mi * M + j) (i * M + j) then i else mi) j
    if j != maxIndex then count + 1 else count) 0

/-- `determinant<LU>`: `nswaps = count_swaps(A) % 2 == 0 ? 1 : -1; lu<BlockLUPiv>(A,L,U,p);
    return product(diag(U)) * nswaps;` — given the diagonal of `U` -/
def detLU [One α] [Mul α] [Neg α] (swaps : Nat) (udiag : Nat → α) (M V : Nat) : α :=
  prodExpr udiag M V * (if swaps % 2 == 0 then 1 else -1)

/-- `determinant<QR>`: `qr(a,Q,R); return product(diag(R));` -/
def detQR [One α] [Mul α] (rdiag : Nat → α) (M V : Nat) : α := prodExpr rdiag M V

end Fastor.Reduce
