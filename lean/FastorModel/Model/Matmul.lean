import FastorModel.Core.Grid
import FastorModel.Model.Config
/-
  Model of `Fastor::_matmul<T,M,K,N>` (backend/matmul/matmul.h, matmul_kernels.h,
  matmul_mk_smalln.h, `_matvecmul` in matmul_specialisations_kernels.h) for the generic,
  scalar-type-independent kernels: the dispatch ladder and, per kernel, the ordered list of store
  events and the sets of operand elements read.  The float/double 2×K×2…8×K×8 intrinsic
  specialisations are not part of this model (they are tied by value runs on real types).
-/
namespace Fastor.Matmul

variable {α : Type} [Zero α] [Add α] [Mul α]

/-! ### accumulation orders used by the code -/

/-- `c = fmadd(a,b,c)` from the zero register: `a*b + c` -/
def dotFma (a b : Nat → α) (K N r c kk : Nat) : α :=
  (List.range kk).foldl (fun acc k => a (r * K + k) * b (k * N + c) + acc) 0

/-- scalar `c += a*b` from `0` -/
def dotAcc (a b : Nat → α) (K N r c kk : Nat) : α :=
  (List.range kk).foldl (fun acc k => acc + a (r * K + k) * b (k * N + c)) 0

/-- small-N kernels: `o = a0*b0`, then `o = fmadd(a_k,b_k,o)` for `k ≥ 1` -/
def dotMulFirst (a b : Nat → α) (K N r c kk : Nat) : α :=
  match kk with
  | 0 => 0
  | kk + 1 => (List.range kk).foldl (fun acc k => a (r * K + (k + 1)) * b ((k + 1) * N + c) + acc)
      (a (r * K) * b c)

/-- value carried by a store event -/
def val (a b : Nat → α) (K N : Nat) (e : St) : α :=
  match e.style with
  | 0 => dotFma a b K N e.r e.c e.kk
  | 1 => dotAcc a b K N e.r e.c e.kk
  | 2 => dotMulFirst a b K N e.r e.c e.kk
  | _ => 0    -- lanes that were disabled in the masked load of `b`: products with zero

/-! ### blocks -/

def rowsFrom (i n : Nat) : List Nat := (List.range n).map (i + ·)
def colsAsc (j w : Nat) : List Nat := (List.range w).map (j + ·)
/-- lane order of the generic array-mask `maskstore`: highest enabled lane first -/
def colsDesc (j w : Nat) : List Nat := (List.range w).map (fun l => j + (w - 1 - l))

def cellEvents (rows cols : List Nat) (kk style : Nat) : List St :=
  rows.flatMap fun r => cols.map fun c => { r := r, c := c, kk := kk, style := style }

/-- a register block: `rows × cols` accumulated over all `K` terms, then stored row by row -/
def block (K : Nat) (rows cols : List Nat) (style : Nat) : Seg :=
  { pre := [], fin := cellEvents rows cols K style }

/-- the `M-M1` remainder blocks of `_matmul_base`, which store inside the `k` loop as well -/
def blockPartial (K : Nat) (rows cols : List Nat) (style : Nat) : Seg :=
  { pre := (List.range K).flatMap fun k => cellEvents rows cols (k + 1) style,
    fin := cellEvents rows cols K style }

/-- `interior_block_matmul_impl<…,u,nR,nC>(a,b,c,i,j)` -/
def interior (K V i j u nR nC : Nat) : List Seg :=
  (List.range nR).map fun ii => block K (rowsFrom (i + ii * u) u) (colsAsc j (nC * V)) 0

/-- `interior_block_matmul_scalar_impl<…,u,nR,1>` -/
def interiorScalar (K i j u nR : Nat) : List Seg :=
  (List.range nR).map fun ii => block K (rowsFrom (i + ii * u) u) [j] 1

/-- masked column chunk of width `w = N-N1` at column `j`: lane order depends on the mask idiom -/
def maskCols (masks : Bool) (j w : Nat) : List Nat := if masks then colsAsc j w else colsDesc j w

def interiorMask (masks : Bool) (K i j u nR w : Nat) : List Seg :=
  (List.range nR).map fun ii => block K (rowsFrom (i + ii * u) u) (maskCols masks j w) 0

structure Blocking where
  u : Nat
  nR : Nat
  nC : Nat
deriving Repr

/-- the `constexpr` block constants of `_matmul_base` / `_matmul_base_masked` -/
def blocking (cfg : Cfg) (M N V : Nat) : Blocking :=
  let u := 4
  let nR := match cfg.outerBlock with
    | some x => x
    | none => if M % (u * 3) == 0 then 3 else (if M < 2 * V then 1 else 2)
  let nC := match cfg.innerBlock with
    | some x => x
    | none => if N % (V * 3) == 0 && M % (V * 3) == 0 && N > 24 then 3 else 2
  ⟨u, nR, nC⟩

/-- `_matmul_base<T,M,K,N>` -/
def base (M K N V : Nat) (bl : Blocking) : List Seg :=
  let u := bl.u; let nR := bl.nR; let nC := bl.nC
  let B := nR * u
  let M0 := M / B * B
  let IB := nC * V
  let N0 := N / IB * IB
  let N1 := N / V * V
  let M1 := M / u * u
  let j0 := forExit 0 N0 IB
  let j1 := forExit j0 N1 V
  let part1 := (forRange 0 M0 B).flatMap fun i =>
    (forRange 0 N0 IB).flatMap (fun j => interior K V i j u nR nC) ++
    (forRange j0 N1 V).flatMap (fun j => interior K V i j u nR 1) ++
    (forRange j1 N 1).flatMap (fun j => interiorScalar K i j u nR)
  let i0 := forExit 0 M0 B
  let part2 := (forRange i0 M1 u).flatMap fun i =>
    (forRange 0 N0 IB).flatMap (fun j => interior K V i j u 1 nC) ++
    (forRange j0 N1 V).map (fun j => block K (rowsFrom i u) (colsAsc j V) 0) ++
    (forRange j1 N 1).map (fun j => block K (rowsFrom i u) [j] 1)
  let i1 := forExit i0 M1 u
  let part3 := if M - M1 > 0 then
      (forRange 0 N0 IB).flatMap (fun j => interior K V i1 j (M - M1) 1 nC) ++
      (forRange j0 N1 V).map (fun j => blockPartial K (rowsFrom M1 (M - M1)) (colsAsc j V) 0) ++
      (forRange j1 N 1).map (fun j => blockPartial K (rowsFrom M1 (M - M1)) [j] 1)
    else []
  part1 ++ part2 ++ part3

/-- `_matmul_base_masked<T,M,K,N>` (`masks`: AVX-512 k-mask idiom, else the int-array idiom) -/
def baseMasked (masks : Bool) (M K N V : Nat) (bl : Blocking) : List Seg :=
  let u := bl.u; let nR := bl.nR; let nC := bl.nC
  let B := nR * u
  let M0 := M / B * B
  let IB := nC * V
  let N0 := N / IB * IB
  let N1 := N / V * V
  let M1 := M / u * u
  let w := N - N1
  let j0 := forExit 0 N0 IB
  let j1 := forExit j0 N1 V
  let part1 := (forRange 0 M0 B).flatMap fun i =>
    (forRange 0 N0 IB).flatMap (fun j => interior K V i j u nR nC) ++
    (forRange j0 N1 V).flatMap (fun j => interior K V i j u nR 1) ++
    (forRange j1 N w).flatMap (fun j => interiorMask masks K i j u nR w)
  let i0 := forExit 0 M0 B
  let part2 := (forRange i0 M1 u).flatMap fun i =>
    (forRange 0 N0 IB).flatMap (fun j => interior K V i j u 1 nC) ++
    (forRange j0 N1 V).map (fun j => block K (rowsFrom i u) (colsAsc j V) 0) ++
    (forRange j1 N w).map (fun j => block K (rowsFrom i u) (maskCols masks j w) 0)
  let i1 := forExit i0 M1 u
  let part3 := if M - M1 > 0 then
      (forRange 0 N0 IB).flatMap (fun j => interior K V i1 j (M - M1) 1 nC) ++
      (forRange j0 N1 V).map (fun j => blockPartial K (rowsFrom M1 (M - M1)) (colsAsc j V) 0) ++
      (forRange j1 N w).map (fun j => block K (rowsFrom M1 (M - M1)) (maskCols masks j w) 0)
    else []
  part1 ++ part2 ++ part3

/-- `ROUND_DOWN(x,s)` = `x & ~(s-1)` on 64-bit `size_t` -/
def roundDown (x s : Nat) : Nat := x &&& (2 ^ 64 - 1 - (s - 1))

/-- the `else` branch of `_matmul` for tiny products -/
def tiny (M K N V : Nat) : List Seg :=
  let R := roundDown N V
  let k0 := forExit 0 R V
  (List.range M).flatMap fun j =>
    (forRange 0 R V).map (fun k => block K [j] (colsAsc k V) 0) ++
    (forRange k0 N 1).map (fun k => block K [j] [k] 1)

/-- `_matmul_base_non_primitive` -/
def nonPrimitive (M K N : Nat) : List Seg :=
  (List.range M).flatMap fun i => (List.range N).map fun j => block K [i] [j] 1

/-- row unroll factor of the `_matmul_mk_smalln` overload selected for `(N,V)` -/
def smallNUnroll (N V : Nat) : Nat :=
  if N ≤ V then 10 else if N ≤ 2 * V then 5 else if N ≤ 3 * V then 4 else if N ≤ 4 * V then 3 else 2

/-- events of one row of `_matmul_mk_smalln`.  `spillPrev`: the previous row of the same unrolled
    group stored its last vector unmasked, so its disabled lanes (zeros) landed on the first cells
    of this row and are overwritten here. -/
def smallNRow (masks : Bool) (K N V r : Nat) (spillPrev lastOfGroup : Bool) : Seg :=
  let N1 := N / V * V
  let w := N - N1
  let junk : List St := if spillPrev then
      (List.range (V - w)).map fun l => { r := r - 1, c := N + l, kk := 0, style := 3 }
    else []
  let tail : List Nat := if w == 0 then [] else
    if N < V || lastOfGroup then maskCols masks N1 w else colsAsc N1 w
  { pre := junk, fin := cellEvents [r] (colsAsc 0 N1 ++ tail) K 2 }

/-- `_matmul_mk_smalln` (all overloads): rows in groups of `smallNUnroll`; per row `N/V` full
    vectors, then the remainder: masked for the last row of a group (and for every row when
    `N < V`), a full-width store spilling into the next row otherwise -/
def smallN (masks : Bool) (M K N V : Nat) : List Seg :=
  let U := smallNUnroll N V
  let M0 := M / U * U
  let w := N - N / V * V
  (List.range M).map fun r =>
    let idx := if r < M0 then r % U else r - M0
    let glen := if r < M0 then U else M - M0
    let spills := w != 0 && V < N
    smallNRow masks K N V r (spills && idx != 0) (idx + 1 == glen)

/-! ### matrix-vector: `_matvecmul<T,M,K>` (N = 1; here `K` is the common extent) -/

/-- `_matvecmul<T,M,K>`: when `K < V` one store per row; otherwise rows in groups of 8 (and one
    remainder group): the horizontal sums of the vector accumulators over the first `K1` terms are
    stored first, then the scalar tail adds one term at a time with `out[i] += …`, so every tail
    step is a store of a longer partial sum and the last one is complete -/
def matvecGroup (K K1 i n : Nat) : Seg :=
  let first : List St := (rowsFrom i n).map fun r => { r := r, c := 0, kk := K1, style := 0 }
  if K1 == K then { pre := [], fin := first }
  else
    { pre := first ++ (forRange K1 (K - 1) 1).flatMap fun j =>
        (rowsFrom i n).map fun r => { r := r, c := 0, kk := j + 1, style := 0 },
      fin := (rowsFrom i n).map fun r => { r := r, c := 0, kk := (K - 1) + 1, style := 0 } }

def matvec (M K V : Nat) : List Seg :=
  let K1 := K / V * V
  if K < V then
    (List.range M).map fun i => block K [i] [0] 0
  else
    let M0 := M / 8 * 8
    (forRange 0 M0 8).map (fun i => matvecGroup K K1 i 8) ++
      (if M - M0 > 0 then [matvecGroup K K1 M0 (M - M0)] else [])

/-! ### dispatch: the `FASTOR_IF_CONSTEXPR` ladder of `_matmul` -/

inductive Route
  | nonPrimitive | matvec | smallN | base | baseMasked | tiny | spec
deriving Repr, BEq, DecidableEq

/-- `isFloat`: `T` is `float` or `double` (the intrinsic M×K×M specialisations apply) -/
def dispatch (cfg : Cfg) (isFloat primitive : Bool) (sz M K N : Nat) : Route :=
  if isFloat && (M != K && M == N && (M == 2 || M == 3 || M == 4 || M == 8)) then .spec
  else if !primitive then .nonPrimitive
  else if N == 1 then .matvec
  else
    let V := cfg.vsize sz N
    if (N == V || N == 2 * V || N == 3 * V || N == 4 * V || N == 5 * V) && V != 1 then .smallN
    else if (cfg.avx2 || cfg.masks) && (N < 5 * V && N != 1) then .smallN
    else if cfg.avx2 || cfg.masks then
      (if M * N * K > 27 && N % V ≤ 1 then .base
       else if M * N * K > 27 && N % V > 1 then .baseMasked
       else .tiny)
    else
      (if M * N * K > 27 then .base else .tiny)

/-- segments of the kernel selected for `(cfg, sz, M, K, N)` (generic kernels only) -/
def kernel (cfg : Cfg) (sz M K N : Nat) : Route × Nat × List Seg :=
  let rt := dispatch cfg false true sz M K N
  match rt with
  | .matvec =>
    let V := cfg.vsize sz K
    (rt, V, matvec M K V)
  | _ =>
    let V := cfg.vsize sz N
    let segs := match rt with
      | .smallN => smallN cfg.masks M K N V
      | .base => base M K N V (blocking cfg M N V)
      | .baseMasked => baseMasked cfg.masks M K N V (blocking cfg M N V)
      | .tiny => tiny M K N V
      | _ => nonPrimitive M K N
    (rt, V, segs)

/-! ### operand footprints -/

/-- elements of `a` (row-major `M×K`) and `b` (`K×N`) read while producing the events:
    every event of cell `(r,c)` with `kk` terms reads `a[r*K+k]`, `b[k*N+c]` for `k < kk` -/
def readsA (K : Nat) (segs : List Seg) : List Nat :=
  segs.flatMap fun s => s.events.flatMap fun e => (List.range e.kk).map fun k => e.r * K + k

def readsB (N : Nat) (segs : List Seg) : List Nat :=
  segs.flatMap fun s => s.events.flatMap fun e => (List.range e.kk).map fun k => k * N + e.c

end Fastor.Matmul
