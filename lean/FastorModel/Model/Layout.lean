import FastorModel.Core.Writes
/-
  Model of the layout converters `tocolumnmajor` / `torowmajor` (tensor/TensorFunctions.h), of the scalar
  indexing arithmetic `get_flat_index` (tensor/IndexRetriever.h), and of the constructors of `Tensor` that take
  a raw buffer / std::array / std::vector (+ layout) or nested initializer lists (tensor/Tensor.h,
  tensor/InitializerListConstructors.h).

  Which way do the converters convert?  Read from the code (both branches of each function agree):
    `tocolumnmajor(a)` : out[row-major offset of (i0..ik)]    = a[column-major offset of (i0..ik)]
    `torowmajor(a)`    : out[column-major offset of (i0..ik)] = a[row-major offset of (i0..ik)]
  i.e. `tocolumnmajor` takes a buffer that IS column-major and produces the library's (row-major) storage — this is
  how `Tensor(ptr, ColumnMajor)` uses it — and `torowmajor` takes the library's storage and places element
  (i0..ik) at the column-major offset.  The names describe the layout of the *argument's interpretation*, not of the
  result; the comment lines above the two functions in the source say the opposite of what the code does.
-/
namespace Fastor.Layout

def prod : List Nat → Nat
  | [] => 1
  | d :: ds => d * prod ds

/-- `nprods_views<Index<dims...>>::values` (meta/einsum_meta.h): suffix products (`products`), shifted by one
    position (`shifter`), last entry replaced by 1 (`_oner`): `values[i] = Π_{l>i} dims[l]` -/
def strides : List Nat → List Nat
  | [] => []
  | _ :: ds => prod ds :: strides ds

/-- `index = Σ_ii products_[ii]*as[ii]` -/
def dot : List Nat → List Nat → Nat
  | p :: ps, a :: as => p * a + dot ps as
  | _, _ => 0

/-- the increment of the index odometer, literally:
    `for (jt = D-1; jt >= 0; jt--) { as[jt] += 1; if (as[jt] < DimensionHolder[jt]) break; else as[jt] = 0; }`
    The rightmost position is touched first; the result's flag is `jt < 0` (every position wrapped). -/
def odoIncr : List Nat → List Nat → List Nat × Bool
  | d :: ds, a :: as =>
    let r := odoIncr ds as
    if r.2 then (if a + 1 < d then ((a + 1) :: r.1, false) else (0 :: r.1, true)) else (a :: r.1, false)
  | _, _ => ([], true)

/-- `while (counter < Size) { index = dot(products_, as); BODY(index, counter); counter++; increment; if (jt<0) break; }`
    as the list of `(index, counter)` pairs in execution order (`fuel` bounds the number of iterations) -/
def odoLoop (pr dh : List Nat) (size : Nat) : Nat → List Nat → Nat → List (Nat × Nat)
  | 0, _, _ => []
  | fuel + 1, as, counter =>
    if counter < size then
      let r := odoIncr dh as
      (dot pr as, counter) :: (if r.2 then [] else odoLoop pr dh size fuel r.1 (counter + 1))
    else []

/-- the n-D branch: `products_` and `DimensionHolder` are reversed, `as` starts at zero -/
def odoMoves (dims : List Nat) : List (Nat × Nat) :=
  odoLoop (strides dims).reverse dims.reverse (prod dims) (prod dims) (List.replicate dims.length 0) 0

/-- the 2-D branch: `for i<M for j<N` with the two offsets `(i*N+j, j*M+i)` -/
def loop2 (M N : Nat) : List (Nat × Nat) :=
  (List.range M).flatMap fun i => (List.range N).map fun j => (i * N + j, j * M + i)

/-- `tocolumnmajor`: `(destination offset, source offset)` pairs in execution order.
    rank < 2: `return a` (a copy); rank 2: `arr_out[i*N+j] = a_data[j*M+i]`; else `arr_out[index] = a_data[counter]` -/
def toColumnMajorMoves : List Nat → List (Nat × Nat)
  | [] => [(0, 0)]
  | [n] => (List.range n).map fun p => (p, p)
  | [M, N] => loop2 M N
  | dims => odoMoves dims

/-- `torowmajor`: rank 2: `arr_out[j*M+i] = a_data[i*N+j]`; n-D: `arr_out[counter] = a_data[index]` -/
def toRowMajorMoves : List Nat → List (Nat × Nat)
  | [] => [(0, 0)]
  | [n] => (List.range n).map fun p => (p, p)
  | [M, N] => (loop2 M N).map fun m => (m.2, m.1)
  | dims => (odoMoves dims).map fun m => (m.2, m.1)

variable {α : Type}

/-- the stores of a converter: `out[destination] = a[source]` in execution order -/
def movesWrites (moves : List (Nat × Nat)) (a : Nat → α) : List (Nat × α) := moves.map fun m => (m.1, a m.2)

/-- execute the moves: `out` starts with arbitrary contents `init` (an uninitialised local tensor) -/
def runMoves (moves : List (Nat × Nat)) (a init : Nat → α) : Nat → α := applyWrites (movesWrites moves a) init

def toColumnMajor (dims : List Nat) (a init : Nat → α) : Nat → α := runMoves (toColumnMajorMoves dims) a init
def toRowMajor (dims : List Nat) (a init : Nat → α) : Nat → α := runMoves (toRowMajorMoves dims) a init

/-! ### scalar indexing -/

/-- `get_flat_index(args...)` for non-negative in-range arguments: closed forms for ranks 1–4, the `products_` loop
    from rank 5 on -/
def flatIndex : List Nat → List Nat → Nat
  | [_], [i] => i
  | [_, N], [i, j] => i * N + j
  | [_, N, P], [i, j, k] => i * N * P + j * P + k
  | [_, N, P, Q], [i, j, k, l] => i * N * P * Q + j * P * Q + k * Q + l
  | dims, idx => dot (strides dims) idx

/-! ### constructors -/

inductive LayoutTag | rowMajor | columnMajor
deriving Repr, BEq, DecidableEq, Inhabited

/-- `Tensor(const T* arr, int layout)` (also the std::array / std::vector overloads), as the stores into `_data`:
    `std::copy(arr, arr+size, _data); if (layout != RowMajor) *this = tocolumnmajor(*this);`
    (`init` = the indeterminate contents of `_data` and of the local `out` of the converter) -/
def ctorBufferWrites (dims : List Nat) (layout : LayoutTag) (arr init : Nat → α) : List (Nat × α) :=
  let cw := (List.range (prod dims)).map fun p => (p, arr p)
  match layout with
  | .rowMajor => cw
  | .columnMajor =>
    let copied := applyWrites cw init
    let tmp := applyWrites (movesWrites (toColumnMajorMoves dims) copied) init
    cw ++ (List.range (prod dims)).map fun p => (p, tmp p)

def ctorBuffer (dims : List Nat) (layout : LayoutTag) (arr init : Nat → α) : Nat → α :=
  applyWrites (ctorBufferWrites dims layout arr init) init

/-- nested initializer lists, ranks 1–4: `counter = 0; for (lst ...) for (...) { _data[counter] = i; counter++; }` -/
def ilistWrites1 (l : List α) (counter : Nat) : List (Nat × α) × Nat :=
  l.foldl (fun st x => (st.1 ++ [(st.2, x)], st.2 + 1)) ([], counter)
def ilistWrites2 (l : List (List α)) (counter : Nat) : List (Nat × α) × Nat :=
  l.foldl (fun st row => let r := ilistWrites1 row st.2; (st.1 ++ r.1, r.2)) ([], counter)
def ilistWrites3 (l : List (List (List α))) (counter : Nat) : List (Nat × α) × Nat :=
  l.foldl (fun st row => let r := ilistWrites2 row st.2; (st.1 ++ r.1, r.2)) ([], counter)
def ilistWrites4 (l : List (List (List (List α)))) (counter : Nat) : List (Nat × α) × Nat :=
  l.foldl (fun st row => let r := ilistWrites3 row st.2; (st.1 ++ r.1, r.2)) ([], counter)

end Fastor.Layout
