import FastorModel.Model.Matmul
/-
  Model of `Fastor::_tmatmul<T,M,K,N,LhsType,RhsType>` (backend/matmul/tmatmul.h): the tile
  structure of `_matmul_base(_masked)` with the `k` range of each tile clipped by
  `find_kfirst` / `find_klast`.
-/
namespace Fastor.Tmatmul
open Fastor Fastor.Matmul

inductive UpLo | general | lower | upper
deriving Repr, BEq, DecidableEq, Inhabited

def UpLo.ofName : String → Option UpLo
  | "g" => some .general | "l" => some .lower | "u" => some .upper | _ => none

/-- `find_kfirst<size_t,K,uo,ui,Lhs,Rhs>(i,j)`: the nested conditional of the source
    (`Lhs ∈ {Lower,General} ? (Rhs==Lower ? j : 0) : (Lhs==Upper ? (Rhs==Lower ? max(i,j) : i) : 0)`)
    as a decision table -/
def kfirst (lt rt : UpLo) (i j : Nat) : Nat :=
  match lt, rt with
  | .lower, .lower => j
  | .general, .lower => j
  | .lower, _ => 0
  | .general, _ => 0
  | .upper, .lower => max i j
  | .upper, _ => i

/-- `find_klast<size_t,K,uo,ui,Lhs,Rhs>(i,j)`:
    `Lhs==Lower ? (Rhs==Upper ? min(min(i+uo,j+ui),K) : min(i+uo,K))
                : (Rhs==Upper ? min(j+ui,K) : K)` -/
def klast (lt rt : UpLo) (K uo ui i j : Nat) : Nat :=
  match lt, rt with
  | .lower, .upper => min (min (i + uo) (j + ui)) K
  | .lower, _ => min (i + uo) K
  | _, .upper => min (j + ui) K
  | _, _ => K

variable {α : Type} [Zero α] [Add α] [Mul α]

/-- accumulation over `k0 ≤ k < kk` -/
def dotFmaR (a b : Nat → α) (K N r c k0 kk : Nat) : α :=
  (List.range' k0 (kk - k0)).foldl (fun acc k => a (r * K + k) * b (k * N + c) + acc) 0
def dotAccR (a b : Nat → α) (K N r c k0 kk : Nat) : α :=
  (List.range' k0 (kk - k0)).foldl (fun acc k => acc + a (r * K + k) * b (k * N + c)) 0

def tval (a b : Nat → α) (K N : Nat) (e : St) : α :=
  match e.style with
  | 0 => dotFmaR a b K N e.r e.c e.k0 e.kk
  | _ => dotAccR a b K N e.r e.c e.k0 e.kk

def tcellEvents (rows cols : List Nat) (k0 kk style : Nat) : List St :=
  rows.flatMap fun r => cols.map fun c => { r := r, c := c, kk := kk, style := style, k0 := k0 }

def tblock (rows cols : List Nat) (style k0 kk : Nat) : Seg :=
  { pre := [], fin := tcellEvents rows cols k0 kk style }

/-- `interior_block_tmatmul_impl<…,u,nR,nC,Lhs,Rhs>(a,b,c,i,j)` -/
def tinterior (lt rt : UpLo) (K V i j u nR nC : Nat) : List Seg :=
  let kf := kfirst lt rt i j
  let kl := klast lt rt K (u * nR) (nC * V) i j
  (List.range nR).map fun ii => tblock (rowsFrom (i + ii * u) u) (colsAsc j (nC * V)) 0 kf kl

/-- `interior_block_tmatmul_scalar_impl<…,u,nR,1,Lhs,Rhs>` -/
def tinteriorScalar (lt rt : UpLo) (K i j u nR : Nat) : List Seg :=
  let kf := kfirst lt rt i j
  let kl := klast lt rt K (u * nR) 1 i j
  (List.range nR).map fun ii => tblock (rowsFrom (i + ii * u) u) [j] 1 kf kl

/-- `_tmatmul_base<T,M,K,N,Lhs,Rhs>` -/
def tbase (lt rt : UpLo) (M K N V : Nat) (bl : Blocking) : List Seg :=
  let u := bl.u; let nR := bl.nR; let nC := bl.nC
  let B := nR * u
  let M0 := M / B * B
  let IB := nC * V
  let N0 := N / IB * IB
  let N1 := N / V * V
  let M1 := M / u * u
  let j0 := forExit 0 N0 IB
  let j1 := forExit j0 N1 V
  let part1 := (forRange 0 M0 B).flatMap fun i =>
    (forRange 0 N0 IB).flatMap (fun j => tinterior lt rt K V i j u nR nC) ++
    (forRange j0 N1 V).flatMap (fun j => tinterior lt rt K V i j u nR 1) ++
    (forRange j1 N 1).flatMap (fun j => tinteriorScalar lt rt K i j u nR)
  let i0 := forExit 0 M0 B
  let part2 := (forRange i0 M1 u).flatMap fun i =>
    (forRange 0 N0 IB).flatMap (fun j => tinterior lt rt K V i j u 1 nC) ++
    (forRange j0 N1 V).map (fun j => tblock (rowsFrom i u) (colsAsc j V) 0 (kfirst lt rt i j) (klast lt rt K u V i j)) ++
    (forRange j1 N 1).map (fun j => tblock (rowsFrom i u) [j] 1 (kfirst lt rt i j) (klast lt rt K u 1 i j))
  let i1 := forExit i0 M1 u
  let part3 := if M - M1 > 0 then
      (forRange 0 N0 IB).flatMap (fun j => interior K V i1 j (M - M1) 1 nC) ++
      (forRange j0 N1 V).map (fun j => blockPartial K (rowsFrom M1 (M - M1)) (colsAsc j V) 0) ++
      (forRange j1 N 1).map (fun j => blockPartial K (rowsFrom M1 (M - M1)) [j] 1)
    else []
  part1 ++ part2 ++ part3

/-- `_tmatmul_base_masked<T,M,K,N,Lhs,Rhs>`: every call of `interior_block_tmatmul_impl` in this kernel omits the tag arguments
    (they default to General: no clipping), so only the two hand-written column loops of the `M0..M1` row loop (single vector,
    masked remainder) clip the `k` range -/
def tbaseMasked (lt rt : UpLo) (masks : Bool) (M K N V : Nat) (bl : Blocking) : List Seg :=
  let u := bl.u; let nR := bl.nR; let nC := bl.nC
  let B := nR * u
  let M0 := M / B * B
  let IB := nC * V
  let N0 := N / IB * IB
  let N1 := N / V * V
  let M1 := M / u * u
  let w := N - N1
  let j0 := forExit 0 N0 IB
  let j1 := forExit j0 N1 V
  let part1 := (forRange 0 M0 B).flatMap fun i =>
    (forRange 0 N0 IB).flatMap (fun j => interior K V i j u nR nC) ++
    (forRange j0 N1 V).flatMap (fun j => interior K V i j u nR 1) ++
    (forRange j1 N w).flatMap (fun j => interiorMask masks K i j u nR w)
  let i0 := forExit 0 M0 B
  let part2 := (forRange i0 M1 u).flatMap fun i =>
    (forRange 0 N0 IB).flatMap (fun j => interior K V i j u 1 nC) ++
    (forRange j0 N1 V).map (fun j => tblock (rowsFrom i u) (colsAsc j V) 0 (kfirst lt rt i j) (klast lt rt K u V i j)) ++
    (forRange j1 N w).map (fun j => tblock (rowsFrom i u) (maskCols masks j w) 0 (kfirst lt rt i j) (klast lt rt K u V i j))
  let i1 := forExit i0 M1 u
  let part3 := if M - M1 > 0 then
      (forRange 0 N0 IB).flatMap (fun j => interior K V i1 j (M - M1) 1 nC) ++
      (forRange j0 N1 V).map (fun j => blockPartial K (rowsFrom M1 (M - M1)) (colsAsc j V) 0) ++
      (forRange j1 N w).map (fun j => block K (rowsFrom M1 (M - M1)) (maskCols masks j w) 0)
    else []
  part1 ++ part2 ++ part3

/-- `_tmatmul_base_non_primitive` -/
def tnonPrimitive (lt rt : UpLo) (M K N : Nat) : List Seg :=
  (List.range M).flatMap fun i => (List.range N).map fun j =>
    tblock [i] [j] 1 (kfirst lt rt i j) (klast lt rt K 1 1 i j)

inductive TRoute | nonPrimitive | base | baseMasked
deriving Repr, BEq, DecidableEq

def tdispatch (cfg : Cfg) (primitive : Bool) (sz N : Nat) : TRoute :=
  if !primitive then .nonPrimitive
  else if cfg.avx2 || cfg.masks then (if N % cfg.vsize sz N ≤ 1 then .base else .baseMasked)
  else .base

def tkernel (cfg : Cfg) (lt rt : UpLo) (sz M K N : Nat) : TRoute × Nat × List Seg :=
  let V := cfg.vsize sz N
  let rt' := tdispatch cfg true sz N
  (rt', V, match rt' with
    | .base => tbase lt rt M K N V (blocking cfg M N V)
    | .baseMasked => tbaseMasked lt rt cfg.masks M K N V (blocking cfg M N V)
    | .nonPrimitive => tnonPrimitive lt rt M K N)

/-- values of all store events: matmul blocks of the unclipped parts use `Matmul.val`,
    whose `k0` is 0 — `tval` agrees with it there (`dotFmaR … 0 kk = dotFma … kk`). -/
def readsA (K : Nat) (segs : List Seg) : List Nat :=
  segs.flatMap fun s => s.events.flatMap fun e => (List.range' e.k0 (e.kk - e.k0)).map fun k => e.r * K + k

def readsB (N : Nat) (segs : List Seg) : List Nat :=
  segs.flatMap fun s => s.events.flatMap fun e => (List.range' e.k0 (e.kk - e.k0)).map fun k => k * N + e.c

end Fastor.Tmatmul
