/-
  C13 — executable model of the QR factorisation code
  (Fastor/expressions/linalg_ops/unary_qr_op.h, unary_piv_op.h), Mathlib-free.

  The code works on `Tensor<T,M,N>` objects through `operator()(i,j)`; a matrix is modelled as a
  function `Nat → Nat → α` and an assignment `X(i,j) = v` as the point update `set2 X i j v`.
  Every C++ loop is a `loop lo hi body` (the values of `for (x = lo; x < hi; ++x)` folded over the
  state), in the nesting order of the source.  The scalar type is a parameter, and so is the square
  root (`sqrts` in the code): the model is executed over `Rat` with an exact square root by the
  driver and reasoned about over any field in `Props/C13.lean`.
-/
namespace Fastor.QR

/-- `for (x = lo; x < hi; ++x) s = body x s` -/
def loop {σ : Type} (lo hi : Nat) (body : Nat → σ → σ) (s : σ) : σ :=
  (List.range' lo (hi - lo)).foldl (fun s x => body x s) s

/-- a tensor of rank 2, read through `operator()(i,j)`, together with the number of element stores made
    into it so far.  (The counter is an observable of the model; it also keeps `Mat` from being a bare
    function at run time — the compiler eta-expands definitions that return functions, which would turn
    every loop nest below into a thunk that is re-run on each read.) -/
structure Mat (α : Type) where
  get : Nat → Nat → α
  stores : Nat

instance {α : Type} : CoeFun (Mat α) (fun _ => Nat → Nat → α) := ⟨Mat.get⟩

/-- a tensor holding `f i j`, no store made yet -/
def Mat.ofFn {α : Type} (f : Nat → Nat → α) : Mat α := ⟨f, 0⟩

/-- `X(i,j) = v` -/
def set2 {α : Type} (X : Mat α) (i j : Nat) (v : α) : Mat α :=
  ⟨fun a b => if a = i ∧ b = j then v else X a b, X.stores + 1⟩

section dispatcher
variable {α : Type} [Zero α] [Add α] [Sub α] [Mul α] [Div α]

/-- step 1 before the root: `T R_ii = 0; for k < M: R_ii += A(k,i)*A(k,i)` -/
def colNorm2 (M : Nat) (W : Mat α) (i : Nat) : α :=
  loop 0 M (fun k acc => acc + W k i * W k i) 0

/-- step 2: `for k < M: Q(k,i) = A(k,i) / R_ii` (the local `R_ii`, not a re-read of `R(i,i)`) -/
def phase2 (M i : Nat) (W : Mat α) (rii : α) (Q : Mat α) : Mat α :=
  loop 0 M (fun k Q => set2 Q k i (W k i / rii)) Q

/-- step 3: `for k < M: for j = i+1 .. N-1: R(i,j) += Q(k,i) * A(k,j)` -/
def phase3 (M N i : Nat) (Q W : Mat α) (R : Mat α) : Mat α :=
  loop 0 M (fun k R => loop (i + 1) N (fun j R => set2 R i j (R i j + Q k i * W k j)) R) R

/-- step 4: `for k < M: for j = i+1 .. N-1: A(k,j) -= Q(k,i) * R(i,j)` — in place on the working copy -/
def phase4 (M N i : Nat) (Q R : Mat α) (W : Mat α) : Mat α :=
  loop 0 M (fun k W => loop (i + 1) N (fun j W => set2 W k j (W k j - Q k i * R i j)) W) W

/-- the three tensors the dispatcher works on: the working copy `A` (here `W`), `Q`, `R` -/
structure St (α : Type) where
  W : Mat α
  Q : Mat α
  R : Mat α

/-- one iteration of the outer loop `for (i = 0; i < N; ++i)` of `qr_mgsr_dispatcher` -/
def outerStep (sqrt : α → α) (M N : Nat) (i : Nat) (s : St α) : St α :=
  let rii := sqrt (colNorm2 M s.W i)
  let R1 := set2 s.R i i rii
  let Q1 := phase2 M i s.W rii s.Q
  let R2 := phase3 M N i Q1 s.W R1
  let W1 := phase4 M N i Q1 R2 s.W
  { W := W1, Q := Q1, R := R2 }

/-- state on entry of the outer loop: `Tensor<T,M,N> A(A0); R.fill(0);`  (`Q` holds whatever the caller
    passed in: it is an output parameter that is not initialised) -/
def initSt (A0 Qin : Mat α) : St α := { W := A0, Q := Qin, R := Mat.ofFn (fun _ _ => 0) }

/-- the state after `i` iterations of the outer loop -/
def stateAt (sqrt : α → α) (M N : Nat) (A0 Qin : Mat α) (i : Nat) : St α :=
  loop 0 i (outerStep sqrt M N) (initSt A0 Qin)

/-- `internal::qr_mgsr_dispatcher(A0, Q, R)` for `Tensor<T,M,N>` -/
def qrMgsr (sqrt : α → α) (M N : Nat) (A0 Qin : Mat α) : St α := stateAt sqrt M N A0 Qin N

/-- the argument of the `i`-th call of `sqrts` -/
def normArg (sqrt : α → α) (M N : Nat) (A0 Qin : Mat α) (i : Nat) : α :=
  colNorm2 M (stateAt sqrt M N A0 Qin i).W i

end dispatcher

/-! ### pivoting (unary_piv_op.h) -/
section pivot
variable {α : Type}

/-- `std::swap(perm(a), perm(b))` -/
def swapAt (p : Nat → Nat) (a b : Nat) : Nat → Nat :=
  fun x => if x = a then p b else if x = b then p a else p x

/-- inner loop of `pivot_inplace`: `max_index = j; for i = j .. M-1: if |A(i,j)| > |A(max_index,j)| max_index = i` -/
def argMax (gt : α → α → Bool) (abs : α → α) (M : Nat) (A : Mat α) (j : Nat) : Nat :=
  loop j M (fun i mx => if gt (abs (A i j)) (abs (A mx j)) then i else mx) j

/-- `pivot_inplace(A, perm)`: `perm.iota(); for j < M: … if (j != max_index) swap(perm(j), perm(max_index))`.
    The arg-max is taken on the ORIGINAL matrix (no row is moved between columns). -/
def pivotPerm (gt : α → α → Bool) (abs : α → α) (M : Nat) (A : Mat α) : Nat → Nat :=
  loop 0 M (fun j p => let mx := argMax gt abs M A j; if j ≠ mx then swapAt p j mx else p) (fun x => x)

/-- `apply_pivot(A, P)`: `copyA(A); for i < M: if (P(i) != i) copy_n(&A[P(i)*N], N, &copyA[i*N])` — row `i` of
    the result is row `P(i)` of `A` -/
def applyPivot (M : Nat) (A : Mat α) (P : Nat → Nat) : Mat α :=
  loop 0 M (fun i C => if P i ≠ i then ⟨fun a b => if a = i then A (P i) b else C a b, C.stores + 1⟩ else C) A

/-- `reconstruct(A, P)`: `copyA(A); for i < M: if (P(i) != i) copy_n(&A[i*N], N, &copyA[P(i)*N])` -/
def reconstruct (M : Nat) (A : Mat α) (P : Nat → Nat) : Mat α :=
  loop 0 M (fun i C => if P i ≠ i then ⟨fun a b => if a = P i then A i b else C a b, C.stores + 1⟩ else C) A

/-- matrix form of the pivot: `P.fill(0); for i < M: P(i, perm(i)) = 1` -/
def permMatrix [Zero α] [One α] (M : Nat) (p : Nat → Nat) : Mat α :=
  loop 0 M (fun i P => set2 P i (p i) 1) (Mat.ofFn (fun _ _ => 0))

/-- `std::find(row i of P, T(1))`: the first column holding a one (N when there is none) -/
def findOne [One α] [DecidableEq α] (N : Nat) (P : Mat α) (i : Nat) : Nat :=
  loop 0 N (fun c found => if found = N ∧ P i c = 1 then c else found) N

end pivot

section api
variable {α : Type} [Zero α] [One α] [Add α] [Sub α] [Mul α] [Div α]

/-- `qr<QRCompType::MGSR>(A, Q, R)` (square only: the signature takes `Q : Tensor<T,M,N>` and
    `R : Tensor<T,N,M>` and passes both to a dispatcher that wants `Tensor<T,M,N>`) -/
def qr (sqrt : α → α) (n : Nat) (A Qin : Mat α) : St α := qrMgsr sqrt n n A Qin

/-- `qr<QRCompType::MGSRPiv>(A, Q, R, P)` with `P : Tensor<size_t,M>` -/
def qrPivV (sqrt : α → α) (gt : α → α → Bool) (abs : α → α) (n : Nat) (A Qin : Mat α) : St α × (Nat → Nat) :=
  let P := pivotPerm gt abs n A
  (qrMgsr sqrt n n (applyPivot n A P) Qin, P)

/-- `qr<QRCompType::MGSRPiv>(A, Q, R, P)` with `P : Tensor<T,M,N>`: the permutation is stored as a 0/1
    matrix and read back by `std::find` -/
def qrPivM [DecidableEq α] (sqrt : α → α) (gt : α → α → Bool) (abs : α → α) (n : Nat) (A Qin : Mat α) :
    St α × Mat α :=
  let P : Mat α := permMatrix n (pivotPerm gt abs n A)
  (qrMgsr sqrt n n (applyPivot n A (findOne n P)) Qin, P)

/-- `product(diag(R))` -/
def diagProd (n : Nat) (R : Mat α) : α := loop 0 n (fun i acc => acc * R i i) 1

/-- `determinant<DetCompType::QR>(A)`: `qr(a,Q,R); return product(diag(R));` -/
def detQR (sqrt : α → α) (n : Nat) (A Qin : Mat α) : α := diagProd n (qr sqrt n A Qin).R

end api

end Fastor.QR
