import FastorModel.Core.Loop
import FastorModel.Core.Writes
import FastorModel.Model.Config
/-
  Model of `_transpose<T,M,N>(a, out)` (backend/transpose/transpose.h) for a row-major `M×N` matrix:

  * without `FASTOR_AVX_IMPL`: the plain double loop `out[j*M+i] = a[i*N+j]`;
  * with `FASTOR_AVX_IMPL`: the register-blocked loop nest.  `V` = `SIMDVector<T,DEFAULT_ABI>::Size`,
    `nR` = `FASTOR_TRANS_OUTER_BLOCK_SIZE`, `nC` = `FASTOR_TRANS_INNER_BLOCK_SIZE` (both 1 by default),
    `innerBlock = V*nC`, `outerBlock = V*nR`.  Every block is packed into `pack_a` by vector loads,
    transposed into `pack_out` by the leaf `_transpose_dispatch<T,innerBlock,outerBlock>` (generic loop;
    for float/double some square sizes are intrinsic kernels which are pure lane permutations, tied
    separately by the real-type runs) and unpacked by vector stores; the `M - M0` remaining columns of
    each block row and the `N - N0` remaining rows are moved by scalar loops.
    The two pack buffers are uninitialised stack arrays: their previous contents are the arbitrary
    functions `g1 i j`, `g2 i j` (one per block), so a kernel that transposes cells it never packed
    shows up as a dependence on them.
  * `_ctranspose` (unary_ctrans_op.h) is the plain loop with `conj` applied.

  The program is an ordered list of stores `(position in out, value)`; the reads of `a` are listed
  separately in program order.
-/
namespace Fastor.Transpose

variable {α : Type}

/-- `for j<N for i<M: out[j*M+i] = f(a[i*N+j])` -/
def plainWrites (f : α → α) (a : Nat → α) (M N : Nat) : List (Nat × α) :=
  (List.range N).flatMap fun j => (List.range M).map fun i => (j * M + i, f (a (i * N + j)))

def plainReads (M N : Nat) : List Nat :=
  (List.range N).flatMap fun j => (List.range M).map fun i => i * N + j

/-- "Pack A": `for ii<innerBlock for vv<numSIMDRows: _vec.load(&a[(i+ii)*N+j+vv*V]); _vec.store(&pack_a[ii*outerBlock+vv*V])` -/
def packWrites (a : Nat → α) (N V nR ib ob i j : Nat) : List (Nat × α) :=
  (List.range ib).flatMap fun ii => (List.range nR).flatMap fun vv => (List.range V).map fun l =>
    (ii * ob + vv * V + l, a ((i + ii) * N + j + vv * V + l))

def packReads (N V nR ib i j : Nat) : List Nat :=
  (List.range ib).flatMap fun ii => (List.range nR).flatMap fun vv => (List.range V).map fun l =>
    (i + ii) * N + j + vv * V + l

/-- `_transpose_dispatch<T,innerBlock,outerBlock>(pack_a, pack_out)`: `for j<ob for i<ib: out[j*ib+i] = a[i*ob+j]` -/
def leafWrites (pa : Nat → α) (ib ob : Nat) : List (Nat × α) := plainWrites id pa ib ob

/-- "Unpack": `for jj<outerBlock for vv<numSIMDCols: _vec.load(&pack_out[jj*innerBlock+vv*V]); _vec.store(&out[(j+jj)*M+i+vv*V])` -/
def unpackWrites (po : Nat → α) (M V nC ib ob i j : Nat) : List (Nat × α) :=
  (List.range ob).flatMap fun jj => (List.range nC).flatMap fun vv => (List.range V).map fun l =>
    ((j + jj) * M + i + vv * V + l, po (jj * ib + vv * V + l))

/-- one full block at `(i, j)` -/
def blockWrites (a g1 g2 : Nat → α) (M N V nR nC i j : Nat) : List (Nat × α) :=
  let ib := V * nC
  let ob := V * nR
  let pa := applyWrites (packWrites a N V nR ib ob i j) g1
  let po := applyWrites (leafWrites pa ib ob) g2
  unpackWrites po M V nC ib ob i j

/-- remainder columns of a block row: `for (; i<M; ++i) for jj<outerBlock: out[(j+jj)*M+i] = a[i*N+j+jj]` -/
def colEdgeWrites (a : Nat → α) (M N ob M0 j : Nat) : List (Nat × α) :=
  (forRange M0 M 1).flatMap fun i => (List.range ob).map fun jj => ((j + jj) * M + i, a (i * N + j + jj))

def colEdgeReads (M N ob M0 j : Nat) : List Nat :=
  (forRange M0 M 1).flatMap fun i => (List.range ob).map fun jj => i * N + j + jj

/-- remainder rows: `for (; j<N; ++j) for i<M: out[j*M+i] = a[i*N+j]` -/
def rowEdgeWrites (a : Nat → α) (M N N0 : Nat) : List (Nat × α) :=
  (forRange N0 N 1).flatMap fun j => (List.range M).map fun i => (j * M + i, a (i * N + j))

def rowEdgeReads (M N N0 : Nat) : List Nat :=
  (forRange N0 N 1).flatMap fun j => (List.range M).map fun i => i * N + j

/-- the blocked `_transpose<T,M,N>` -/
def blockedWrites (a : Nat → α) (g1 g2 : Nat → Nat → Nat → α) (M N V nR nC : Nat) : List (Nat × α) :=
  let ib := V * nC
  let ob := V * nR
  let M0 := M / ib * ib
  let N0 := N / ob * ob
  ((forRange 0 N0 ob).flatMap fun j =>
      ((forRange 0 M0 ib).flatMap fun i => blockWrites a (g1 i j) (g2 i j) M N V nR nC i j)
      ++ colEdgeWrites a M N ob (forExit 0 M0 ib) j)
  ++ rowEdgeWrites a M N (forExit 0 N0 ob)

def blockedReads (M N V nR nC : Nat) : List Nat :=
  let ib := V * nC
  let ob := V * nR
  let M0 := M / ib * ib
  let N0 := N / ob * ob
  ((forRange 0 N0 ob).flatMap fun j =>
      ((forRange 0 M0 ib).flatMap fun i => packReads N V nR ib i j)
      ++ colEdgeReads M N ob (forExit 0 M0 ib) j)
  ++ rowEdgeReads M N (forExit 0 N0 ob)

inductive Route | plain | blocked
deriving Repr, BEq, DecidableEq

/-- `#ifdef FASTOR_AVX_IMPL` -/
def route (cfg : Cfg) : Route :=
  match cfg.native with
  | .avx | .avx512 => .blocked
  | _ => .plain

/-- `_transpose<T,M,N>` for a generic element type of `sz` bytes under configuration `cfg` -/
def transposeWrites (cfg : Cfg) (sz nR nC : Nat) (a : Nat → α) (g1 g2 : Nat → Nat → Nat → α) (M N : Nat) :
    List (Nat × α) :=
  match route cfg with
  | .plain => plainWrites id a M N
  | .blocked => blockedWrites a g1 g2 M N (cfg.native.lanes sz) nR nC

def transposeReads (cfg : Cfg) (sz nR nC M N : Nat) : List Nat :=
  match route cfg with
  | .plain => plainReads M N
  | .blocked => blockedReads M N (cfg.native.lanes sz) nR nC

/-- `TensorMap<T,N,M> dst(p); dst = trans(A);` — an expression that is evaluated in stages is first materialised in a
    temporary tensor (`const result_type tmp(src)`: the `_transpose` above, into the temporary whose previous contents are
    `t0`) and then copied linearly into the map (`trivial_assign`: vector stores in increasing order, scalar tail) -/
def mapAssignWrites (cfg : Cfg) (sz nR nC : Nat) (a : Nat → α) (g1 g2 : Nat → Nat → Nat → α) (t0 : Nat → α) (M N : Nat) :
    List (Nat × α) :=
  let tmp := applyWrites (transposeWrites cfg sz nR nC a g1 g2 M N) t0
  (List.range (N * M)).map fun p => (p, tmp p)

end Fastor.Transpose
