import FastorModel.Model.Expr
import FastorModel.Model.Layout
/-
  Model of `TensorMap` (tensor/TensorMap.h) and of `reshape` / `flatten` / `squeeze` (tensor/TensorFunctions.h).

  A map is a pointer plus a static shape; the class re-includes the very same fragments as `Tensor`
  (scalar indexing, evaluators, in-place operators, methods), so every operation is the same loop as for an owning
  tensor, with two differences that this model makes explicit:
    * `is_aligned()` is `false`, so every vector load/store of the destination is the unaligned one;
    * plain `=` on a map calls `assign(*this, src)` directly (the expression is evaluated chunk by chunk INTO the
      buffer it may be reading), whereas plain `=` on an owning tensor first builds a temporary from the expression
      (`Tensor(const AbstractTensor&)`) and then copies it element by element.
  One memory, two names: a state is the buffer contents (plus two owning read targets); an operation is issued
  "via map" or "via source".
-/
namespace Fastor.MapAlias
open Fastor Fastor.Expr Fastor.Layout

variable {α : Type} [Add α] [Sub α] [Mul α] [Neg α]

/-- an access event of the destination buffer -/
inductive Ev
  | store (pos : Nat) (aligned : Bool)     -- one element stored (a vector store is `V` of these)
  | vload (pos : Nat) (aligned : Bool)     -- vector load of the destination starting at `pos`
  | vstore (pos : Nat) (aligned : Bool)    -- vector store starting at `pos`
deriving Repr, BEq, DecidableEq

/-- operations of the state machine.  Operand windows of expressions: 0 = the buffer itself, 1, 2 = two owning
    operands `B`, `C` of the shape of the name the operation is issued through. -/
inductive Op
  | write (idx : List Nat) (c : Nat)   -- `X(idx...) = const_c`
  | fill (c : Nat)                     -- `X.fill(const_c)`
  | scal (op : AOp) (c : Nat)          -- `X op= const_c`   (op ≠ set)
  | expr (op : AOp) (e : E)            -- `X op= e`
  | other (op : AOp)                   -- `X op= Y`, `Y` the other name of the same storage
  | copy                               -- `X = O`, `O` an object of the same type as `X` holding the values of `B`
  | read (e : E)                       -- `R = e`, `R` an owning tensor
deriving Repr, Inhabited

inductive Via | map | src
deriving Repr, BEq, DecidableEq, Inhabited

structure St (α : Type) where
  buf : Nat → α
  rd : Via → Nat → α        -- the two owning read targets (map-shaped, source-shaped)

/-- environment of an expression evaluated while the buffer contents are `cur` -/
def envOf (opnd : Nat → Nat → α) (cur : Nat → α) : Nat → Nat → α := fun w p => if w = 0 then cur p else opnd w p

/-- a loop whose every iteration reads the memory as it is at that moment and then stores: the stores of all
    iterations in execution order (`stepW cur i` = the stores of iteration `i` when the memory is `cur`) -/
def chunkFold (stepW : (Nat → α) → Nat → List (Nat × α)) : List Nat → (Nat → α) → List (Nat × α)
  | [], _ => []
  | i :: is, cur => let ws := stepW cur i; ws ++ chunkFold stepW is (applyWrites ws cur)

/-- stores of one vector step of `trivial_assign*`: `V(&_data[i]) op src.eval<T>(i)` stored at `&_data[i]` -/
def vecStep (ofInt : Int → α) (opnd : Nat → Nat → α) (op : AOp) (e : E) (V : Nat) (cur : Nat → α) (i : Nat) :
    List (Nat × α) :=
  ((evalV ofInt (envOf opnd cur) V e i).zip (List.range V)).map fun vl => (i + vl.2, op.ap (cur (i + vl.2)) vl.1)

/-- store of one step of the scalar tail: `_data[i] op= src.eval_s<T>(i)` -/
def scalStep (ofInt : Int → α) (opnd : Nat → Nat → α) (op : AOp) (e : E) (cur : Nat → α) (i : Nat) : List (Nat × α) :=
  [(i, op.ap (cur i) (evalS ofInt (envOf opnd cur) e i))]

/-- one `trivial_assign*` pass executed IN PLACE on memory `m` (state threading: each vector step and each step of
    the scalar tail reads the memory as it is at that moment, then stores) -/
def passWrites (ofInt : Int → α) (opnd : Nat → Nat → α) (op : AOp) (e : E) (n V : Nat) (m : Nat → α) : List (Nat × α) :=
  let R := roundDown n V
  let body := chunkFold (vecStep ofInt opnd op e V) (forRange 0 R V) m
  body ++ chunkFold (scalStep ofInt opnd op e) (forRange (forExit 0 R V) n 1) (applyWrites body m)

def passInPlace (ofInt : Int → α) (opnd : Nat → Nat → α) (op : AOp) (e : E) (n V : Nat) (m : Nat → α) : Nat → α :=
  applyWrites (passWrites ofInt opnd op e n V m) m

/-- plain `=` on an owning tensor: a temporary is built from the expression (its own `trivial_assign` pass, into
    storage `tmp0` that does not alias anything; the expression reads the buffer contents `cur`), then copied
    element by element into the destination: the stores into the destination -/
def viaTempWrites (ofInt : Int → α) (opnd : Nat → Nat → α) (e : E) (n V : Nat) (cur tmp0 : Nat → α) : List (Nat × α) :=
  let tmp := applyWrites (assignWrites ofInt (envOf opnd cur) .set tmp0 e n V) tmp0
  (List.range n).map fun p => (p, tmp p)

def assignViaTemp (ofInt : Int → α) (opnd : Nat → Nat → α) (e : E) (n V : Nat) (cur dst tmp0 : Nat → α) : Nat → α :=
  applyWrites (viaTempWrites ofInt opnd e n V cur tmp0) dst

/-- destination access events of one pass: per vector step an optional load of the destination and a store -/
def passEvents (loadsDst : Bool) (aligned : Bool) (n V : Nat) : List Ev :=
  let R := roundDown n V
  (forRange 0 R V).flatMap (fun i => (if loadsDst then [Ev.vload i aligned] else []) ++ [Ev.vstore i aligned]) ++
  (forRange (forExit 0 R V) n 1).map fun i => Ev.store i false

def copyEvents (n : Nat) : List Ev := (List.range n).map fun p => Ev.store p false

/-- static configuration of one name of the storage -/
structure Name where
  dims : List Nat
  isMap : Bool          -- `TensorMap` (is_aligned() == false, in-place `=`) or owning `Tensor`
  aligned : Bool        -- value of `is_aligned()`; for a map always false
deriving Repr

/-- one operation issued through the name `nm`; `cst c` is the scalar constant of the step, `opnd` the operands.
    Returns the new state and the destination access events. -/
def step (ofInt : Int → α) (cst : Nat → α) (opnd : Nat → Nat → α) (tmp0 : Nat → α) (V : Nat) (nm : Name) (via : Via)
    (o : Op) (s : St α) : St α × List Ev :=
  let n := prod nm.dims
  match o with
  | .write idx c =>
    let p := flatIndex nm.dims idx
    ({ s with buf := applyWrites [(p, cst c)] s.buf }, [Ev.store p false])
  | .fill c =>
    -- `fill`: vector stores of the broadcast value, scalar tail (no read of the destination)
    ({ s with buf := applyWrites (passWrites ofInt (fun _ _ => cst c) .set (.t 1) n V s.buf) s.buf }, passEvents false nm.aligned n V)
  | .scal op c =>
    ({ s with buf := applyWrites (passWrites ofInt (fun _ _ => cst c) op (.t 1) n V s.buf) s.buf }, passEvents true nm.aligned n V)
  | .expr op e =>
    if op == .set && !nm.isMap then
      ({ s with buf := applyWrites (viaTempWrites ofInt opnd e n V s.buf tmp0) s.buf }, copyEvents n)
    else
      ({ s with buf := applyWrites (passWrites ofInt opnd op e n V s.buf) s.buf }, passEvents (op != .set) nm.aligned n V)
  | .other op =>
    if op == .set then
      -- map: `assign` returns at once because both names have the same data pointer;
      -- owning: a temporary is built from the map and copied back
      if nm.isMap then (s, []) else ({ s with buf := applyWrites (viaTempWrites ofInt opnd (.t 0) n V s.buf tmp0) s.buf }, copyEvents n)
    else
      ({ s with buf := applyWrites (passWrites ofInt opnd op (.t 0) n V s.buf) s.buf }, passEvents true nm.aligned n V)
  | .copy =>
    if nm.isMap then ({ s with buf := applyWrites (passWrites ofInt opnd .set (.t 1) n V s.buf) s.buf }, passEvents false nm.aligned n V)
    else ({ s with buf := applyWrites ((List.range n).map fun p => (p, opnd 1 p)) s.buf }, copyEvents n)
  | .read e =>
    -- `R = e`: `R` is owning, so a temporary is built and copied; the buffer is only read
    let ws := viaTempWrites ofInt opnd e n V s.buf tmp0
    let r := applyWrites ws (s.rd via)
    ({ s with rd := fun v => if v = via then r else s.rd v }, [])

/-- a program: operations tagged with the name they are issued through -/
abbrev Prog := List (Via × Op)

/-- run on the shared buffer: `via map` uses the map's name, `via src` the source's -/
def runShared (ofInt : Int → α) (cst : Nat → α) (opnd : Via → Nat → Nat → α) (tmp0 : Nat → α) (V : Nat)
    (mapN srcN : Name) : Prog → St α → St α
  | [], s => s
  | (via, o) :: rest, s =>
    let nm := match via with | .map => mapN | .src => srcN
    runShared ofInt cst opnd tmp0 V mapN srcN rest (step ofInt cst (opnd via) tmp0 V nm via o s).1

/-! ### reshape / flatten / squeeze: views of the same base pointer -/

structure View where
  base : Nat
  dims : List Nat
deriving Repr, BEq, DecidableEq

/-- `reshape<shapes...>(a)` = `TensorMap<T,shapes...>(a.data())` -/
def reshape (v : View) (shapes : List Nat) : View := { base := v.base, dims := shapes }
/-- `flatten(a)` = `TensorMap<T,pack_prod<Rest...>::value>(a.data())` -/
def flatten (v : View) : View := { base := v.base, dims := [prod v.dims] }
/-- `squeeze(a)` = `TensorMap<T, filter_t<1,Rest...>>(a.data())` -/
def squeeze (v : View) : View := { base := v.base, dims := v.dims.filter (· != 1) }
/-- element access through a view: `_data[get_flat_index(idx...)]` -/
def View.at (v : View) (mem : Nat → α) (idx : List Nat) : α := mem (v.base + flatIndex v.dims idx)

end Fastor.MapAlias
