/-
  Model of the staged ("lazy") assignment of expressions that contain evaluation-requiring nodes
  (expressions/binary_ops/binary_arithmetic_assignment.h, linalg_ops/binary_matmul_op.h,
  tensor/Aliasing.h): the overload table that splits `dst op= l ± r` into two assignments, the alias
  check with its temporary, the whole-expression temporary for `*=`/`/=`, and the gemm-style
  assignment of a lazy product.  All operands are `n × n` matrices stored flat.
-/
namespace Fastor.Lazy

inductive EOp | add | sub | mul
deriving Repr, BEq, DecidableEq, Inhabited

inductive LExpr
  | leaf (x : Nat)
  | ew (op : EOp) (l r : LExpr)      -- element-wise + - *
  | mm (l r : LExpr)                 -- lazy matrix product `l % r`
deriving Repr, Inhabited

inductive AOp | set | add | sub | mul
deriving Repr, BEq, DecidableEq, Inhabited

abbrev Store (α : Type) := Nat → Nat → α      -- tensor name → flat position → value

variable {α : Type} [Zero α] [Add α] [Sub α] [Mul α]

def EOp.ap : EOp → α → α → α
  | .add, x, y => x + y
  | .sub, x, y => x - y
  | .mul, x, y => x * y

def AOp.ap : AOp → α → α → α
  | .set, _, y => y
  | .add, x, y => x + y
  | .sub, x, y => x - y
  | .mul, x, y => x * y

/-- `requires_evaluation_v` -/
def LExpr.needsEval : LExpr → Bool
  | .leaf _ => false
  | .ew _ l r => l.needsEval || r.needsEval
  | .mm _ _ => true

/-- `does_alias(dst, e)` (Aliasing.h): some leaf of `e` is `dst` -/
def LExpr.aliases (dst : Nat) : LExpr → Bool
  | .leaf x => x == dst
  | .ew _ l r => l.aliases dst || r.aliases dst
  | .mm l r => l.aliases dst || r.aliases dst

def mmul (n : Nat) (a b : Nat → α) : Nat → α := fun p =>
  (List.range n).foldl (fun acc k => acc + a (p / n * n + k) * b (k * n + p % n)) 0

/-- eager meaning of an expression -/
def denote (n : Nat) : LExpr → Store α → Nat → α
  | .leaf x, σ => σ x
  | .ew op l r, σ => fun p => op.ap (denote n l σ p) (denote n r σ p)
  | .mm l r, σ => mmul n (denote n l σ) (denote n r σ)

def upd (σ : Store α) (dst : Nat) (v : Nat → α) : Store α := fun x => if x = dst then v else σ x

/-- element-wise `dst op= v` -/
def ewAssign (op : AOp) (dst : Nat) (v : Nat → α) (σ : Store α) : Store α :=
  upd σ dst (fun p => op.ap (σ dst p) (v p))

/-- the operator pair `(X, Y)` used by `assign_X(dst, l); assign_Y(dst, r)` for `dst op= l ⊕ r` -/
def splitOps (op : AOp) (e : EOp) : AOp × AOp :=
  match op, e with
  | .set, .add => (.set, .add)
  | .set, .sub => (.set, .sub)
  | .set, .mul => (.set, .mul)
  | .add, .add => (.add, .add)
  | .add, .sub => (.add, .sub)
  | .sub, .add => (.sub, .sub)
  | .sub, .sub => (.sub, .add)
  | o, _ => (o, o)

/-- staged assignment `dst op= e` as the overload table performs it; also counts the passes over
    `dst` (each pass writes all `n*n` positions in order) -/
def assignS (n : Nat) (op : AOp) (dst : Nat) : LExpr → Store α → Store α × Nat
  | .leaf x, σ =>
    -- `assign(dst, Tensor)`: `if (dst.data()==src.data()) return;`
    if op = .set ∧ x = dst then (σ, 0) else (ewAssign op dst (σ x) σ, 1)
  | .mm l r, σ =>
    -- operands that are not tensors are evaluated into temporaries; the product goes through
    -- `matmul_dispatcher` (set) or the gemm-style `tmp = a*b; c = ±tmp + c` / `c *= tmp`
    (ewAssign op dst (mmul n (denote n l σ) (denote n r σ)) σ, 1)
  | .ew e l r, σ =>
    if !(l.needsEval || r.needsEval) then
      (ewAssign op dst (denote n (.ew e l r) σ) σ, 1)           -- trivial_assign*
    else
      match op, e with
      | .mul, _ | .add, .mul | .sub, .mul =>
        -- FASTOR_MAKE_BINARY_ARITHMETIC_ASSIGNMENT_2: whole expression into a temporary
        (ewAssign op dst (denote n (.ew e l r) σ) σ, 1)
      | .set, _ =>
        -- ..._ASSIGNMENT_0: `assign(dst, lhs); assign_op(dst, rhs);` (no alias check)
        let (x, y) := splitOps op e
        let (s1, p1) := assignS n x dst l σ
        let (s2, p2) := assignS n y dst r s1
        (s2, p1 + p2)
      | _, _ =>
        -- ..._ASSIGNMENT_1
        let (x, y) := splitOps op e
        if !(r.aliases dst) then
          let (s1, p1) := assignS n x dst l σ
          let (s2, p2) := assignS n y dst r s1
          (s2, p1 + p2)
        else
          let tmp := denote n r σ
          let (s1, p1) := assignS n x dst l σ
          (ewAssign y dst tmp s1, p1 + 1)

def LExpr.leaves : LExpr → List Nat
  | .leaf x => [x]
  | .ew _ l r => l.leaves ++ r.leaves
  | .mm l r => l.leaves ++ r.leaves

end Fastor.Lazy
