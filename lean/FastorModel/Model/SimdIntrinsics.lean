/-
  C08 — semantics of the Intel intrinsics used by Fastor's SIMD layer (`Fastor/simd_vector/*.h`), transcribed
  from the pseudocode of the Intel Intrinsics Guide.  (Mathlib-free: this file is linked into `fmodel`.)

  A register of any width is a function from the index of a 32-bit lane to the 32 bits of that lane
  (`Reg = Nat → BitVec 32`, lane 0 = least significant).  A 64-bit lane `j` is the pair of 32-bit lanes `2j` (low half)
  and `2j+1` (high half): `lane64`.  All data movement (shuffles, unpacks, permutes, blends, casts, extract / insert)
  is therefore a re-indexing of 32-bit lanes, 64-bit integer arithmetic goes through `lane64` / `of64`, and
  floating-point lanes are *bit patterns* on which the arithmetic operations are uninterpreted functions
  (`FOps`), except the operations the library implements by bit manipulation (negate = xor with the sign mask,
  abs = and-not with the sign mask), which are plain `BitVec` operations.

  The definitions are written per 128-bit block (`k / 4`, `k % 4`), so the same definition is the 128-, 256- and
  512-bit form of an instruction (`_mm_shuffle_epi32`, `_mm256_shuffle_epi32`, ...).  Lanes that the ISA leaves
  undefined (upper half after `_mm256_castsi128_si256`) are `junk`, an opaque constant nothing can be proved about.

  These definitions are validated against the CPU on boundary and random lane values by the check (`intrin`
  command of the driver, `harness/simd_intrin.h`); they are part of the trusted base of C08.
-/
namespace Fastor.Simd

abbrev Reg := Nat → BitVec 32

/-- contents of lanes the instruction set leaves undefined -/
opaque junk : Nat → BitVec 32

def lo32 (x : BitVec 64) : BitVec 32 := x.extractLsb' 0 32
def hi32 (x : BitVec 64) : BitVec 32 := x.extractLsb' 32 32

/-- 64-bit lane `j` of a register -/
def lane64 (a : Reg) (j : Nat) : BitVec 64 := a (2 * j + 1) ++ a (2 * j)
/-- register whose 64-bit lanes are `f` -/
def of64 (f : Nat → BitVec 64) : Reg := fun k => if k % 2 = 0 then lo32 (f (k / 2)) else hi32 (f (k / 2))

/-- uninterpreted IEEE operations on bit patterns (single and double precision) -/
structure FOps where
  add32 : BitVec 32 → BitVec 32 → BitVec 32
  sub32 : BitVec 32 → BitVec 32 → BitVec 32
  mul32 : BitVec 32 → BitVec 32 → BitVec 32
  div32 : BitVec 32 → BitVec 32 → BitVec 32
  min32 : BitVec 32 → BitVec 32 → BitVec 32
  max32 : BitVec 32 → BitVec 32 → BitVec 32
  sqrt32 : BitVec 32 → BitVec 32
  fma32 : BitVec 32 → BitVec 32 → BitVec 32 → BitVec 32
  add64 : BitVec 64 → BitVec 64 → BitVec 64
  sub64 : BitVec 64 → BitVec 64 → BitVec 64
  mul64 : BitVec 64 → BitVec 64 → BitVec 64
  div64 : BitVec 64 → BitVec 64 → BitVec 64
  min64 : BitVec 64 → BitVec 64 → BitVec 64
  max64 : BitVec 64 → BitVec 64 → BitVec 64
  sqrt64 : BitVec 64 → BitVec 64
  fma64 : BitVec 64 → BitVec 64 → BitVec 64 → BitVec 64

/-- sign masks: the bit patterns of `-0.f` and `-0.0` -/
def sign32 : BitVec 32 := 0x80000000#32
def sign64 : BitVec 64 := 0x8000000000000000#64

-- ---------------------------------------------------------------------------------------------- lane-wise helpers
def map32 (f : BitVec 32 → BitVec 32) (a : Reg) : Reg := fun k => f (a k)
def zip32 (f : BitVec 32 → BitVec 32 → BitVec 32) (a b : Reg) : Reg := fun k => f (a k) (b k)
def zip64 (f : BitVec 64 → BitVec 64 → BitVec 64) (a b : Reg) : Reg := of64 fun j => f (lane64 a j) (lane64 b j)
def map64 (f : BitVec 64 → BitVec 64) (a : Reg) : Reg := of64 fun j => f (lane64 a j)
/-- scalar (`_ss`) form: lane 0 computed, the other lanes copied from the first operand -/
def low32 (f : BitVec 32 → BitVec 32 → BitVec 32) (a b : Reg) : Reg := fun k => if k = 0 then f (a 0) (b 0) else a k
/-- scalar (`_sd`) form: 64-bit lane 0 computed, the rest copied from the first operand -/
def low64 (f : BitVec 64 → BitVec 64 → BitVec 64) (a b : Reg) : Reg :=
  fun k => if k < 2 then of64 (fun _ => f (lane64 a 0) (lane64 b 0)) k else a k

-- ---------------------------------------------------------------------------------------------- set / broadcast
def setzero : Reg := fun _ => 0
def set1_32 (x : BitVec 32) : Reg := fun _ => x
def set1_64 (x : BitVec 64) : Reg := of64 fun _ => x
/-- lanes listed from lane 0 upwards (`_mm_setr_*`); the `_mm_set_*` forms list them from the top -/
def setr32 (xs : List (BitVec 32)) : Reg := fun k => xs.getD k 0
def setr64 (xs : List (BitVec 64)) : Reg := of64 fun j => xs.getD j 0
def set32 (xs : List (BitVec 32)) : Reg := setr32 xs.reverse
def set64 (xs : List (BitVec 64)) : Reg := setr64 xs.reverse

-- ---------------------------------------------------------------------------------------------- integer arithmetic
def add_epi32 := zip32 (· + ·)
def sub_epi32 := zip32 (· - ·)
def mullo_epi32 := zip32 (· * ·)
def add_epi64 := zip64 (· + ·)
def sub_epi64 := zip64 (· - ·)
def mullo_epi64 := zip64 (· * ·)
/-- `_mm_mul_epu32`: 64-bit lane j = zero-extended 32-bit lane 2j of a times that of b -/
def mul_epu32 (a b : Reg) : Reg := of64 fun j => (a (2 * j)).setWidth 64 * (b (2 * j)).setWidth 64
/-- `_mm_mul_epi32`: the same with sign extension -/
def mul_epi32 (a b : Reg) : Reg := of64 fun j => (a (2 * j)).signExtend 64 * (b (2 * j)).signExtend 64
def and_si := zip32 (· &&& ·)
def or_si := zip32 (· ||| ·)
def xor_si := zip32 (· ^^^ ·)
/-- `_mm_andnot_*`: (NOT a) AND b -/
def andnot_si := zip32 fun a b => ~~~a &&& b
def srai_epi32 (a : Reg) (n : Nat) : Reg := map32 (fun x => x.sshiftRight (min n 31)) a
def srli_epi32 (a : Reg) (n : Nat) : Reg := map32 (fun x => if n > 31 then 0 else x >>> n) a
def slli_epi32 (a : Reg) (n : Nat) : Reg := map32 (fun x => if n > 31 then 0 else x <<< n) a
def abs32 (x : BitVec 32) : BitVec 32 := if x.slt 0#32 then -x else x
def abs64 (x : BitVec 64) : BitVec 64 := if x.slt 0#64 then -x else x
def abs_epi32 := map32 abs32
def abs_epi64 := map64 abs64
def smin32 (a b : BitVec 32) : BitVec 32 := if a.slt b then a else b
def smax32 (a b : BitVec 32) : BitVec 32 := if b.slt a then a else b
def smin64 (a b : BitVec 64) : BitVec 64 := if a.slt b then a else b
def smax64 (a b : BitVec 64) : BitVec 64 := if b.slt a then a else b
def min_epi32 := zip32 smin32
def max_epi32 := zip32 smax32
def min_epi64 := zip64 smin64
def max_epi64 := zip64 smax64
/-- `_mm_slli_si128` for a byte count that is a multiple of 4 (the only use in the library): shift lanes up within each 128-bit block -/
def slli_si128 (a : Reg) (bytes : Nat) : Reg :=
  fun k => if bytes % 4 ≠ 0 then junk k else if k % 4 < bytes / 4 then 0 else a (k - bytes / 4)

-- ---------------------------------------------------------------------------------------------- data movement
/-- `_mm_shuffle_epi32` / `_mm256_shuffle_epi32` / `_mm256_permute_ps`: per 128-bit block, lane j := a[imm[2j+1:2j]] -/
def shuffle_epi32 (a : Reg) (imm : Nat) : Reg := fun k => a (k / 4 * 4 + (imm >>> (2 * (k % 4))) % 4)
/-- `_mm_shuffle_ps` / `_mm256_shuffle_ps`: lanes 0,1 of each block selected from a, lanes 2,3 from b -/
def shuffle_ps (a b : Reg) (imm : Nat) : Reg :=
  fun k => (if k % 4 < 2 then a else b) (k / 4 * 4 + (imm >>> (2 * (k % 4))) % 4)
/-- `_mm_shuffle_pd` / `_mm256_shuffle_pd`: 64-bit lane m from a (m even) or b (m odd), element chosen by bit m of imm -/
def shuffle_pd (a b : Reg) (imm : Nat) : Reg :=
  fun k => let m := k / 2; (if m % 2 = 0 then a else b) (2 * (m / 2 * 2 + (imm >>> m) % 2) + k % 2)
def unpacklo_epi32 (a b : Reg) : Reg := fun k => (if k % 2 = 0 then a else b) (k / 4 * 4 + k % 4 / 2)
def unpackhi_epi32 (a b : Reg) : Reg := fun k => (if k % 2 = 0 then a else b) (k / 4 * 4 + 2 + k % 4 / 2)
def unpacklo_epi64 (a b : Reg) : Reg := fun k => if k % 4 < 2 then a (k / 4 * 4 + k % 4) else b (k / 4 * 4 + k % 4 - 2)
def unpackhi_epi64 (a b : Reg) : Reg := fun k => if k % 4 < 2 then a (k / 4 * 4 + 2 + k % 4) else b (k / 4 * 4 + k % 4)
/-- `_mm_movehl_ps a b` = (b2, b3, a2, a3) -/
def movehl_ps (a b : Reg) : Reg := fun k => if k < 2 then b (k + 2) else a k
/-- `_mm_movelh_ps a b` = (a0, a1, b0, b1) -/
def movelh_ps (a b : Reg) : Reg := fun k => if k < 2 then a k else b (k - 2)
/-- `_mm_movehdup_ps a` = (a1, a1, a3, a3) -/
def movehdup_ps (a : Reg) : Reg := fun k => a (k / 2 * 2 + 1)
/-- `_mm256_blend_ps`: bit k of imm selects b -/
def blend_ps (a b : Reg) (imm : Nat) : Reg := fun k => if (imm >>> k) % 2 = 1 then b k else a k
/-- `_mm256_castX128_X256`: the upper half is undefined -/
def cast128_256 (a : Reg) : Reg := fun k => if k < 4 then a k else junk k
/-- `_mm256_extractf128_*` -/
def extractf128 (a : Reg) (imm : Nat) : Reg := fun k => a (k + 4 * (imm % 2))
/-- `_mm256_insertf128_*` -/
def insertf128 (a b : Reg) (imm : Nat) : Reg :=
  fun k => if 4 * (imm % 2) ≤ k ∧ k < 4 * (imm % 2) + 4 then b (k - 4 * (imm % 2)) else a k
/-- one 128-bit half selected by a 4-bit control of `_mm256_permute2f128_*` -/
def sel2f128 (a b : Reg) (c : Nat) (j : Nat) : BitVec 32 :=
  if (c >>> 3) % 2 = 1 then 0 else (if c % 4 < 2 then a else b) (4 * (c % 2) + j)
def permute2f128 (a b : Reg) (imm : Nat) : Reg :=
  fun k => if k < 4 then sel2f128 a b (imm % 16) k else sel2f128 a b ((imm >>> 4) % 16) (k - 4)
/-- `_mm256_permute4x64_*`: 64-bit lane m := a[imm[2m+1:2m]] -/
def permute4x64 (a : Reg) (imm : Nat) : Reg := fun k => a (2 * ((imm >>> (2 * (k / 2))) % 4) + k % 2)
/-- `_mm512_permutexvar_epi32 idx a` (also `_ps`) -/
def permutexvar32 (idx a : Reg) : Reg := fun k => a ((idx k).toNat % 16)
/-- `_mm512_permutexvar_epi64 idx a` (also `_pd`) -/
def permutexvar64 (idx a : Reg) : Reg := fun k => a (2 * ((lane64 idx (k / 2)).toNat % 8) + k % 2)
/-- `_mm512_permutex2var_ps/_epi32 (a, idx, b)`: lane i := (bit 4 of idx_i ? b : a)[idx_i mod 16] -/
def permutex2var32 (a idx b : Reg) : Reg :=
  fun i => let j := (idx i).toNat; (if (j >>> 4) % 2 = 1 then b else a) (j % 16)
/-- `_mm512_permutex2var_pd/_epi64 (a, idx, b)`: 64-bit lane m := (bit 3 of idx_m ? b : a)[idx_m mod 8] -/
def permutex2var64 (a idx b : Reg) : Reg :=
  fun k => let j := (lane64 idx (k / 2)).toNat; (if (j >>> 3) % 2 = 1 then b else a) (2 * (j % 8) + k % 2)
/-- `_mm_hadd_ps` per block: (a0+a1, a2+a3, b0+b1, b2+b3) -/
def hadd_ps (fo : FOps) (a b : Reg) : Reg :=
  fun k => let s := if k % 4 < 2 then a else b; let j := k / 4 * 4 + 2 * (k % 2); fo.add32 (s j) (s (j + 1))
/-- `_mm_hadd_pd` / `_mm256_hadd_pd` per block: (a0+a1, b0+b1) in 64-bit lanes -/
def hadd_pd (fo : FOps) (a b : Reg) : Reg :=
  of64 fun m => let s := if m % 2 = 0 then a else b; fo.add64 (lane64 s (m / 2 * 2)) (lane64 s (m / 2 * 2 + 1))

-- ---------------------------------------------------------------------------------------------- floating point
def add_ps (fo : FOps) := zip32 fo.add32
def sub_ps (fo : FOps) := zip32 fo.sub32
def mul_ps (fo : FOps) := zip32 fo.mul32
def div_ps (fo : FOps) := zip32 fo.div32
def min_ps (fo : FOps) := zip32 fo.min32
def max_ps (fo : FOps) := zip32 fo.max32
def sqrt_ps (fo : FOps) := map32 fo.sqrt32
def add_pd (fo : FOps) := zip64 fo.add64
def sub_pd (fo : FOps) := zip64 fo.sub64
def mul_pd (fo : FOps) := zip64 fo.mul64
def div_pd (fo : FOps) := zip64 fo.div64
def min_pd (fo : FOps) := zip64 fo.min64
def max_pd (fo : FOps) := zip64 fo.max64
def sqrt_pd (fo : FOps) := map64 fo.sqrt64
def add_ss (fo : FOps) := low32 fo.add32
def sub_ss (fo : FOps) := low32 fo.sub32
def mul_ss (fo : FOps) := low32 fo.mul32
def add_sd (fo : FOps) := low64 fo.add64
def sub_sd (fo : FOps) := low64 fo.sub64
def mul_sd (fo : FOps) := low64 fo.mul64
def fmadd_ps (fo : FOps) (a b c : Reg) : Reg := fun k => fo.fma32 (a k) (b k) (c k)
def fmadd_pd (fo : FOps) (a b c : Reg) : Reg := of64 fun j => fo.fma64 (lane64 a j) (lane64 b j) (lane64 c j)
/-- `_mm_fmsub_ps` = a*b - c = fma(a, b, -c) with the IEEE negate (sign-bit flip) -/
def fmsub_ps (fo : FOps) (a b c : Reg) : Reg := fun k => fo.fma32 (a k) (b k) (c k ^^^ sign32)
def fmsub_pd (fo : FOps) (a b c : Reg) : Reg := of64 fun j => fo.fma64 (lane64 a j) (lane64 b j) (lane64 c j ^^^ sign64)
/-- `_mm_fnmadd_ps` = -(a*b) + c = fma(-a, b, c) -/
def fnmadd_ps (fo : FOps) (a b c : Reg) : Reg := fun k => fo.fma32 (a k ^^^ sign32) (b k) (c k)
def fnmadd_pd (fo : FOps) (a b c : Reg) : Reg := of64 fun j => fo.fma64 (lane64 a j ^^^ sign64) (lane64 b j) (lane64 c j)

-- ---------------------------------------------------------------------------------------------- scalar extraction
def cvt32 (a : Reg) : BitVec 32 := a 0
def cvt64 (a : Reg) : BitVec 64 := lane64 a 0
/-- `_mm512_reduce_add_epi32` (a sequence intrinsic): the sum of the 16 lanes -/
def reduce_add_epi32 (a : Reg) : BitVec 32 := (List.range 16).foldl (fun s k => s + a k) 0
def reduce_add_epi64 (a : Reg) : BitVec 64 := (List.range 8).foldl (fun s k => s + lane64 a k) 0

-- ---------------------------------------------------------------------------------------------- scalar references
/-- IEEE negate / abs on bit patterns -/
def fneg32 (x : BitVec 32) : BitVec 32 := x ^^^ sign32
def fneg64 (x : BitVec 64) : BitVec 64 := x ^^^ sign64
def fabs32 (x : BitVec 32) : BitVec 32 := ~~~sign32 &&& x
def fabs64 (x : BitVec 64) : BitVec 64 := ~~~sign64 &&& x

-- ---------------------------------------------------------------------------------------------- memory
/-- memory behind a pointer: 32-bit words indexed from the pointer (`float*`: element e = word e; `double*`: element e =
    words 2e, 2e+1, read with `lane64`).  `loadw m off` = the register loaded from word offset `off` (any width: the
    consumer uses the lanes its width has). -/
def loadw (m : Reg) (off : Nat) : Reg := fun k => m (off + k)
/-- `_mm_load_ss` / `_mm_load_sd`: one element loaded into the low lane(s), the rest of the register zero -/
def loadw_ss (m : Reg) (off : Nat) : Reg := fun k => if k = 0 then m off else 0
def loadw_sd (m : Reg) (off : Nat) : Reg := fun k => if k < 2 then m (off + k) else 0
/-- `_mm_maskload_ps/_epi32` (AVX): lane k is loaded when the sign bit of mask lane k is set, else 0.  `m` is the memory
    already positioned at the pointer (`loadw p off`); a disabled lane is not accessed. -/
def maskload32 (m mask : Reg) : Reg := fun k => if (mask k).msb then m k else 0
/-- `_mm_maskload_pd/_epi64`: the sign bit of the 64-bit mask lane = of its high 32-bit half -/
def maskload64 (m mask : Reg) : Reg := fun k => if (mask (2 * (k / 2) + 1)).msb then m k else 0
/-- `_mm_maskstore_ps`: only the lanes whose mask sign bit is set are written -/
def maskstore32 (m : Reg) (off n : Nat) (mask r : Reg) : Reg :=
  fun w => if off ≤ w ∧ w < off + n ∧ (mask (w - off)).msb then r (w - off) else m w
def maskstore64 (m : Reg) (off n : Nat) (mask r : Reg) : Reg :=
  fun w => if off ≤ w ∧ w < off + n ∧ (mask (2 * ((w - off) / 2) + 1)).msb then r (w - off) else m w
/-- AVX-512 `_mm*_mask_loadu_ps(src, k, p)`: bit i of k selects memory, else the lane of src -/
def kload32 (src : Reg) (k : Nat) (m : Reg) : Reg := fun i => if (k >>> i) % 2 = 1 then m i else src i
def kload64 (src : Reg) (k : Nat) (m : Reg) : Reg := fun i => if (k >>> (i / 2)) % 2 = 1 then m i else src i
/-- AVX-512 `_mm*_mask_storeu_ps(p, k, r)` -/
def kstore32 (m : Reg) (off n k : Nat) (r : Reg) : Reg :=
  fun w => if off ≤ w ∧ w < off + n ∧ (k >>> (w - off)) % 2 = 1 then r (w - off) else m w
def kstore64 (m : Reg) (off n k : Nat) (r : Reg) : Reg :=
  fun w => if off ≤ w ∧ w < off + n ∧ (k >>> ((w - off) / 2)) % 2 = 1 then r (w - off) else m w
/-- `_mm_loadl_pi a p`: the two low lanes from memory, the two high lanes of `a` -/
def loadl_pi (a m : Reg) (off : Nat) : Reg := fun k => if k < 2 then m (off + k) else a k
/-- store of the `n` low lanes of `r` at word offset `off`; every other word keeps its value (the footprint of the store) -/
def storew (m : Reg) (off n : Nat) (r : Reg) : Reg := fun w => if off ≤ w ∧ w < off + n then r (w - off) else m w

/-- uniform calling convention of the generated definitions for the `gen` driver command: float operations, register
    arguments by position, scalar arguments by position (32-bit ones in the low half) -> result registers, result scalars -/
abbrev GenFn := FOps → (Nat → Reg) → (Nat → BitVec 64) → List Reg × List (BitVec 64)

end Fastor.Simd
