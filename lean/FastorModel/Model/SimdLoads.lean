import FastorModel.Model.SimdIntrinsics
/-
  C16: loads from a `const float*` / `const double*` argument, for the intrinsic specialisations of the reduction back ends
  (`Generated/C16Spec_<isa>.lean`).  Memory is a function from element index to the bit pattern of the element.
  `loadps mem off n`: lanes `0..n-1` are `mem[off..off+n-1]`, the other lanes are zero — `_mm_load_ps` / `_mm_loadu_ps` (n = 4),
  `_mm256_load(u)_ps` (n = 8), `_mm_load_ss` (n = 1, upper lanes zeroed by the instruction).  `loadpd`: the same in 64-bit lanes.
-/
namespace Fastor.Simd
def loadps (mem : Nat → BitVec 32) (off n : Nat) : Reg := fun k => if k < n then mem (off + k) else 0
def loadpd (mem : Nat → BitVec 64) (off n : Nat) : Reg := of64 fun j => if j < n then mem (off + j) else 0
end Fastor.Simd
