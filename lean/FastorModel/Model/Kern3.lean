import FastorModel.Model.Footprint
/-
  C07: memory-access models of the fixed-size intrinsic kernels whose whole point is a 3-wide / 9-element
  footprint (backend/transpose/transpose.h, backend/matmul/matmul_specialisations_kernels.h, backend/norm.h,
  trace.h, determinant.h, doublecontract.h).  A kernel is the ordered list of its loads and stores: operand,
  element offset, lanes touched (`List.range V` for `loadu/storeu`, `Footprint.load3/store3` for the 3-lane
  helpers, `[0]` for `load_ss/load_sd/store_ss` and scalar element accesses).
-/
namespace Fastor.Kern3
open Fastor.Footprint

structure KAcc where
  opnd : Nat          -- 0 = a (first input), 1 = b (second input), 2 = out
  off : Nat
  lanes : List Nat
  write : Bool
deriving Repr, DecidableEq

def ld (opnd off V : Nat) : KAcc := ⟨opnd, off, List.range V, false⟩
def st (off V : Nat) : KAcc := ⟨2, off, List.range V, true⟩
def ld3 (br : Branch) (opnd off : Nat) : KAcc := ⟨opnd, off, load3 br, false⟩
def st3 (br : Branch) (off : Nat) : KAcc := ⟨2, off, store3 br, true⟩
def el (opnd off : Nat) : KAcc := ⟨opnd, off, [0], false⟩
def wr (off : Nat) : KAcc := ⟨2, off, [0], true⟩

/-- `_transpose<float,3,3>`: the SSE path (after the repair: last row through the 3-lane helpers) and the AVX2
    path (one 8-lane load/store plus element 8) -/
def transpose33 (br : Branch) (avx2 : Bool) : List KAcc :=
  if avx2 then [ld 0 0 8, st 0 8, el 0 8, wr 8]
  else [ld 0 0 4, ld 0 3 4, ld3 br 0 6, st 0 4, st 3 4, st3 br 6]

/-- the SSE path before the repair (history): 4 lanes at `a+6` and `out+6` -/
def transpose33_before : List KAcc := [ld 0 0 4, ld 0 3 4, ld 0 6 4, st 0 4, st 3 4, st 6 4]

/-- `_matmul<float,3,K,3>` (SSE2) / `_matmul<double,3,K,3>` (AVX), `K ≠ 3`: per `i < K` one 3-lane load of row `i`
    of `b` and three broadcasts of `a`; three row stores, 4 lanes at stride 3 then the 3-lane helper -/
def matmul3K3 (br : Branch) (K : Nat) : List KAcc :=
  (List.range K).flatMap (fun i => [ld3 br 1 (3 * i), el 0 i, el 0 (K + i), el 0 (2 * K + i)]) ++
  [st 0 4, st 3 4, st3 br 6]

/-- `_matmul<float,3,3,3>` / `_matmul<double,3,3,3>` -/
def matmul333 (br : Branch) : List KAcc :=
  [ld 1 0 4, ld 1 3 4, ld3 br 1 6, el 0 0, el 0 3, el 0 6, el 0 1, el 0 4, el 0 7, el 0 2, el 0 5, el 0 8,
   st 0 4, st 3 4, st3 br 6]

/-- `_matmul<float,3,3,1>` / `_matmul<double,3,3,1>` -/
def matvec331 (br : Branch) : List KAcc :=
  [ld3 br 0 0, ld3 br 0 3, ld3 br 0 6, ld3 br 1 0, wr 0, wr 1, wr 2]

/-- `_norm<float,9>` (AVX) ; `_norm<double,9>` (AVX) -/
def norm9f : List KAcc := [ld 0 0 8, el 0 8]
def norm9d : List KAcc := [ld 0 0 4, ld 0 4 4, el 0 8]
/-- `_trace<float,3,3>` (AVX, after the repair an unaligned load) ; `_trace<double,3,3>` -/
def trace33f : List KAcc := [ld 0 0 8, el 0 8]
def trace33d : List KAcc := [el 0 0, el 0 4, el 0 8]
/-- `_det<float,3,3>` / `_det<double,3,3>` (AVX): brace-initialised registers from single elements -/
def det33 : List KAcc := [2, 1, 0, 3, 5, 4, 7, 6, 8, 6, 7, 8, 4, 5, 3, 2, 0, 1].map (el 0)
/-- `_doublecontract<float,3,3>` / `<double,3,3>` (AVX) -/
def dc33f : List KAcc := [ld 0 0 8, ld 1 0 8, el 0 8, el 1 8]
def dc33d : List KAcc := [ld 0 0 4, ld 1 0 4, ld 0 4 4, ld 1 4 4, el 0 8, el 1 8]


/-! ### kernels whose extent is a whole number of vectors (2x2, 4x4) and the double 3x3 transpose -/

/-- `_transpose<double,3,3>`: `vw`-lane loads/stores covering elements 0..7 (`vw = 2` SSE, `4` AVX, `8` AVX-512), then
    element 8 through `load_sd/store_sd` -/
def transpose33d (vw : Nat) : List KAcc :=
  (List.range (8 / vw)).map (fun i => ld 0 (i * vw) vw) ++ (List.range (8 / vw)).map (fun i => st (i * vw) vw) ++ [el 0 8, wr 8]
/-- `_transpose<float,2,2>`, `_inverse<float,2>`: one 4-lane load, one 4-lane store -/
def unary4f : List KAcc := [ld 0 0 4, st 0 4]
/-- `_inverse<double,2>`, `_transpose<double,2,2>` (SSE form): two 2-lane loads, two 2-lane stores -/
def unary4d : List KAcc := [ld 0 0 2, ld 0 2 2, st 0 2, st 2 2]
/-- `_transpose<float,4,4>`: four 4-lane rows (SSE/AVX) or one 16-lane register (AVX-512) -/
def transpose44f (avx512 : Bool) : List KAcc :=
  if avx512 then [ld 0 0 16, st 0 16] else [ld 0 0 4, ld 0 4 4, ld 0 8 4, ld 0 12 4, st 0 4, st 4 4, st 8 4, st 12 4]
/-- `_matmul<float,2,2,2>` -/
def matmul222f : List KAcc := [ld 0 0 4, ld 1 0 4, st 0 4]
/-- `_matmul<float,4,4,4>`: rows of `b` as 4-lane loads, every `a[i]` broadcast, four row stores -/
def matmul444f : List KAcc :=
  [ld 1 0 4, ld 1 4 4, ld 1 8 4, ld 1 12 4] ++ (List.range 16).map (el 0) ++ [st 0 4, st 4 4, st 8 4, st 12 4]

/-- `_dyadic<float,3,3>` (AVX builds, after the repair): 3-lane loads of both operands, two 4-lane row stores and the
    3-lane helper for the last row; `_dyadic<double,3,3>`: `a` by elements -/
def dyadic33f (br : Branch) : List KAcc := [ld3 br 0 0, ld3 br 1 0, st 0 4, st 3 4, st3 br 6]
def dyadic33d (br : Branch) : List KAcc := [ld3 br 1 0, el 0 0, el 0 1, el 0 2, st 0 4, st 3 4, st3 br 6]
/-- before the repair (history): 4-lane loads, 4-lane store at `out+6` -/
def dyadic33f_before : List KAcc := [ld 0 0 4, ld 1 0 4, st 0 4, st 3 4, st 6 4]
/-- `_dyadic<float,2,2>` (after the repair: 64-bit loads), `_dyadic<T,4,4>` -/
def dyadic22f : List KAcc := [ld 0 0 2, ld 1 0 2, st 0 4]

/-- element offsets of operand `opnd` read (`w = false`) or written (`w = true`), in order -/
def offsets (k : List KAcc) (opnd : Nat) (w : Bool) : List Nat :=
  (k.filter fun x => x.opnd == opnd && x.write == w).flatMap fun x => x.lanes.map (x.off + ·)

/-- index (in the list of stores) of the last store that covers `p` -/
def lastWriter (k : List KAcc) (p : Nat) : Option Nat :=
  let ws := k.filter (·.write)
  ((List.range ws.length).filter fun i => p ∈ (ws.getD i ⟨0, 0, [], true⟩).lanes.map ((ws.getD i ⟨0, 0, [], true⟩).off + ·)).getLast?

end Fastor.Kern3
