/-
  Build-configuration model: which SIMD ABI is native, the register width the library picks for a
  given element size and extent (`choose_best_simd_type` in simd_vector_abi.h), and the switches
  that decide dispatch (`FASTOR_AVX2_IMPL`, `FASTOR_HAS_AVX512_MASKS`).
  The table is tied to the source by the X4 dump (see translate/config_dump.py) on every run.
-/
namespace Fastor

inductive Abi | scalar | sse | avx | avx512
deriving Repr, BEq, DecidableEq, Inhabited

structure Cfg where
  native : Abi            -- simd_abi::native
  avx2 : Bool             -- FASTOR_AVX2_IMPL
  masks : Bool            -- FASTOR_HAS_AVX512_MASKS
  outerBlock : Option Nat := none   -- FASTOR_MATMUL_OUTER_BLOCK_SIZE
  innerBlock : Option Nat := none   -- FASTOR_MATMUL_INNER_BLOCK_SIZE
deriving Repr, BEq, Inhabited

def Cfg.ofName : String → Option Cfg
  | "scalar" => some ⟨.scalar, false, false, none, none⟩
  | "sse2"   => some ⟨.sse, false, false, none, none⟩
  | "sse42"  => some ⟨.sse, false, false, none, none⟩
  | "avx"    => some ⟨.avx, false, false, none, none⟩
  | "avx2"   => some ⟨.avx, true, false, none, none⟩
  | "avx512f" => some ⟨.avx512, true, false, none, none⟩
  | "avx512" => some ⟨.avx512, true, true, none, none⟩
  | _ => none

def Abi.bits : Abi → Nat → Nat
  | .avx512, _ => 512
  | .avx, _ => 256
  | .sse, _ => 128
  | .scalar, sz => sz * 8

/-- `get_simd_vector_size<SIMDVector<T,ABI>>::value` for an element of `sz` bytes -/
def Abi.lanes (a : Abi) (sz : Nat) : Nat :=
  let v := a.bits sz / sz / 8
  if v != 0 then v else 1

def Abi.half : Abi → Abi
  | .avx512 => .avx
  | .avx => .sse
  | a => a

/-- `is_exact_multiple_of_smaller_simd<SIMDVector<T,ABI>,N>` : (value, type) -/
def exactMultiple (a : Abi) (sz N : Nat) : Bool × Abi :=
  let vs := a.lanes sz
  let which := if vs / N == 2 then 2 else (if vs / N == 4 then 4 else 1)
  let value := which != 1 && a != .sse
  let halfOf512 := a == .avx512 && which == 2
  let halfOfAvx := a == .avx && which == 2
  let quarterOf512 := a == .avx512 && which == 4
  let ty := if halfOf512 then .avx else if halfOfAvx then .sse else if quarterOf512 then .sse else a
  (value, ty)

/-- ABI chosen by `choose_best_simd_type<SIMDVector<T,native>,N>` for a vectorisable `T` -/
def Cfg.bestAbi (c : Cfg) (sz N : Nat) : Abi :=
  let (isExact, exactTy) := exactMultiple c.native sz N
  if c.avx2 || c.masks then
    (if isExact then exactTy else c.native)
  else
    (if isExact then exactTy else if N < c.native.lanes sz then c.native.half else c.native)

/-- `choose_best_simd_type<…,N>::type::Size` -/
def Cfg.vsize (c : Cfg) (sz N : Nat) : Nat := (c.bestAbi sz N).lanes sz

end Fastor
