import FastorModel.Model.ViewWrite
/-
  Model of the alias flag of the view classes (property C18).  Every non-const slice view
  (`TensorViewExpr<…,1|2|DIMS>`, `TensorFixedViewExpr1D|2D|nD`) stores `bool _does_alias`, set by
  `noalias()`.  Each tensor-valued `operator op=` starts with

      if (_does_alias) { _does_alias = false;
          auto tmp_this_tensor = get_tensor();            // copy of the WHOLE parent tensor
          auto tmp = View(tmp_this_tensor, same ranges);   // a view of the copy (its own flag is false)
          tmp = other;                                     // plain `=` into the copy; `other` still reads the real tensor
          this->operator op=(tmp);                         // plain `op=` from the copy's view
          return; }

  The scalar overloads (`operator op=(U num)`) neither test nor clear the flag.  Index-tensor views test it the
  same way; boolean-mask (filter) views store the flag but never test it (`honours = false`).
-/
namespace Fastor.ViewAlias
open Fastor Fastor.ViewWrite

structure ViewObj where
  honours : Bool      -- the class tests `_does_alias` in its tensor-valued operators
  flag : Bool         -- `_does_alias`
deriving Repr, DecidableEq, Inhabited

def ViewObj.noalias (v : ViewObj) : ViewObj := { v with flag := true }

/-- does the next assignment go through the copy? -/
def ViewObj.takesGuardedPath (v : ViewObj) (scalarRhs : Bool) : Bool := v.honours && v.flag && !scalarRhs

/-- the view object after that assignment -/
def ViewObj.after (v : ViewObj) (scalarRhs : Bool) : ViewObj :=
  if v.takesGuardedPath scalarRhs then { v with flag := false } else v

variable {α : Type} [Add α] [Sub α] [Mul α] [Div α]

/-- the guarded path.  `its1`: iterations of `tmp = other` (the copy's view has the same ranges, so the same
    positions, in a separate buffer that starts as a copy of `m`); `its2`: iterations of `this op= tmp`;
    `dpos j`: position of logical element `j` of the view (how `tmp` is read back). -/
def guardedAssign (op : WOp) (its1 its2 : List Iter) (dpos : Nat → Nat) (r : Rhs α) (m : Nat → α) : Nat → α :=
  let other := r.val m
  let cpy := exec .set (fun _ j => other j) its1 m
  exec op (fun _ j => cpy (dpos j)) its2 m

/-- one statement on a stored view object -/
structure Stmt (α : Type) where
  na : Bool            -- `.noalias()` is called on the object just before
  scalarRhs : Bool
  op : WOp
  r : Rhs α

def step (its1 its2 : List Iter) (dpos : Nat → Nat) (st : ViewObj × (Nat → α)) (s : Stmt α) : ViewObj × (Nat → α) :=
  let v := if s.na then st.1.noalias else st.1
  if v.takesGuardedPath s.scalarRhs then (v.after s.scalarRhs, guardedAssign s.op its1 its2 dpos s.r st.2)
  else (v.after s.scalarRhs, assign s.op its1 s.r st.2)

/-- a history of assignments through one view object -/
def runHist (its1 its2 : List Iter) (dpos : Nat → Nat) (v : ViewObj) (m : Nat → α) (h : List (Stmt α)) : ViewObj × (Nat → α) :=
  h.foldl (step its1 its2 dpos) (v, m)

end Fastor.ViewAlias
