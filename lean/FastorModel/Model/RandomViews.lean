import FastorModel.Core.Writes
import FastorModel.Core.Loop
import FastorModel.Model.Expr
import FastorModel.Model.Views
/-
  Model of index-tensor views and boolean-mask views (C19).

  §1  `tensor/BlockIndexing.h`: the `operator()(Tensor<Int,…>, …)` overloads that pre-compute a tensor
      of flat positions `tmp_it` from per-axis index tensors (index × index, index × integer,
      integer × index, index × fseq, fseq × index).  Each overload is the list of stores
      `tmp_it(i,j) = …` of its loop nest; `tmp_it(i,j)` of a `Tensor<Int,M,N>` is flat element `i*N + j`.
  §2  `expressions/views/tensor_random_views.h` reads: `eval_s(i) = data[it[i]]`, and
      `eval(i)`: `inds[j] = it[i+j]` for `j < V`, then `vector_setter(vec, data, inds)` of
      `simd_vector/simd_vector_common.h`, which calls `vec.set(data[a[V-1]], …, data[a[0]])`;
      `set` puts its LAST argument into lane 0.  The view may sit inside an expression tree (`Src`).
      Reading into a tensor is `trivial_assign*` of `tensor/TensorAssignment.h` (vector body over
      `ROUND_DOWN(size,V)`, scalar tail).
  §3  writes through the view: `data[it[i]] op= rhs.eval_s(i)` for `i < size` (scalar scatter), or with
      `FASTOR_USE_VECTORISED_EXPR_ASSIGN` a vector body (`rhs.eval(i)`, lanes scattered one by one)
      and a scalar tail.  A write program is a list of instructions `(position, value)` executed in
      order as `mem[position] = op(mem[position], value)` — with repeated positions the later
      instruction sees the result of the earlier one, as in the code.
  §4  `expressions/views/tensor_filter_views.h`: `for i < size: if mask[i]: data[i] op= rhs.eval_s(i)`;
      reading a filter view gives `mask[i] ? data[i] : 0`.
-/
namespace Fastor.RandomViews
open Fastor Fastor.Expr

/-! ## §1 flat-index precomputation -/

/-- the tensor left by a list of stores into an uninitialised tensor (`junk` = what was there) -/
def storesTo (junk : Nat → Nat) (ws : List (Nat × Nat)) : Nat → Nat := applyWrites ws junk

/-- `A(it0, it1)`:  `for i<M: for j<N: tmp_it(i,j) = it0(i)*NCols + it1(j)` -/
def flatII (ncols M N : Nat) (it0 it1 : Nat → Nat) : List (Nat × Nat) :=
  (forRange 0 M 1).flatMap fun i => (forRange 0 N 1).map fun j => (i * N + j, it0 i * ncols + it1 j)

/-- `A(it0, num)`:  `for i<M: tmp_it(i,0) = it0(i)*NCols + num`   (`tmp_it` is `M x 1`) -/
def flatIN (ncols M : Nat) (it0 : Nat → Nat) (num : Nat) : List (Nat × Nat) :=
  (forRange 0 M 1).map fun i => (i * 1 + 0, it0 i * ncols + num)

/-- `A(num, it0)`:  `for i<M: tmp_it(i,0) = num*NCols + it0(i)` -/
def flatNI (ncols M : Nat) (num : Nat) (it0 : Nat → Nat) : List (Nat × Nat) :=
  (forRange 0 M 1).map fun i => (i * 1 + 0, num * ncols + it0 i)

/-- `A(it0, fseq<F,L,S>)`: `for i<M: for j<ColSize: tmp_it(i,j) = it0(i)*NCols + step*j + first` -/
def flatIF (ncols M : Nat) (it0 : Nat → Nat) (first step csize : Nat) : List (Nat × Nat) :=
  (forRange 0 M 1).flatMap fun i => (forRange 0 csize 1).map fun j => (i * csize + j, it0 i * ncols + step * j + first)

/-- `A(fseq<F,L,S>, it0)`: `for i<RowSize: for j<N: tmp_it(i,j) = (step*i + first)*NCols + it0(j)` -/
def flatFI (ncols N : Nat) (first step rsize : Nat) (it0 : Nat → Nat) : List (Nat × Nat) :=
  (forRange 0 rsize 1).flatMap fun i => (forRange 0 N 1).map fun j => (i * N + j, (step * i + first) * ncols + it0 j)

/-! ## §2 reads -/

/-- the other operands of a statement: random views, filter views, tensors, scalars, `+ - *` -/
inductive Src
  | v (win : Nat)            -- index-tensor view of the parent in window `win` (through the index map `it`)
  | f (win : Nat)            -- boolean-mask view of the parent in window `win` (through `mask`)
  | t (win : Nat)            -- a tensor of the view's shape
  | c (k : Int)              -- a scalar
  | bin (op : BinOp) (l r : Src)
deriving Repr, Inhabited

variable {α : Type} [Zero α] [Add α] [Sub α] [Mul α]

/-- `SIMDVector::set(a_{V-1}, …, a_0)`: the arguments in call order; lane `l` receives the `l`-th from the end -/
def setLanes (args : List α) : List α := args.reverse

/-- `vector_setter(vec, data, inds)`: `vec.set(data[inds[V-1]], …, data[inds[0]])` -/
def vectorSetter (data : Nat → α) (inds : List Nat) : List α :=
  setLanes (inds.reverse.map data)

/-- the per-lane index array of `eval(i)`: `for j<V: inds[j] = it[i+j]` -/
def laneInds (it : Nat → Nat) (V i : Nat) : List Nat := (forRange 0 V 1).map fun j => it (i + j)

/-- `eval_s<T>(i)` -/
def evalS (ofInt : Int → α) (env : Nat → Nat → α) (it : Nat → Nat) (mask : Nat → Bool) : Src → Nat → α
  | .v w, i => env w (it i)
  | .f w, i => if mask i then env w i else 0
  | .t w, i => env w i
  | .c k, _ => ofInt k
  | .bin op l r, i => op.ap (evalS ofInt env it mask l i) (evalS ofInt env it mask r i)

/-- `eval<T>(i)`: `V` lanes -/
def evalV (ofInt : Int → α) (env : Nat → Nat → α) (it : Nat → Nat) (mask : Nat → Bool) (V : Nat) : Src → Nat → List α
  | .v w, i => vectorSetter (env w) (laneInds it V i)
  | .f w, i => (forRange 0 V 1).map fun j => if mask (i + j) then env w (i + j) else 0
  | .t w, i => (List.range V).map fun l => env w (i + l)
  | .c k, _ => List.replicate V (ofInt k)
  | .bin op l r, i => List.zipWith op.ap (evalV ofInt env it mask V l i) (evalV ofInt env it mask V r i)

/-! ## §2b the view as a 2-D / n-D operand: `eval_s(i,k)`, `eval(i,k)`, `teval_s(as)`, `teval(as)` -/

/-- `eval_s(i,k)` of a view whose index tensor has `ncols = it.dimension(DIMS-1)` columns:
    `data[it[i*ncols + k]]` -/
def evalS2 (data : Nat → α) (it : Nat → Nat) (ncols i k : Nat) : α := data (it (i * ncols + k))

/-- `eval(i,k)`: `i = i*ncols + k; inds[j] = it[i+j]; vector_setter(vec, data, inds)` -/
def evalV2 (data : Nat → α) (it : Nat → Nat) (V ncols i k : Nat) : List α :=
  vectorSetter data (laneInds it V (i * ncols + k))

/-- `Tensor::get_flat_index(as)`: `Σ products[d]*as[d]` with the row-major strides of `dims` -/
def flatIndex : List Nat → List Nat → Nat
  | _ :: ds, a :: as => a * ds.foldl (· * ·) 1 + flatIndex ds as
  | _, _ => 0

/-- `teval_s(as)`: `data[it[get_flat_index(as)]]` -/
def tevalS (data : Nat → α) (it : Nat → Nat) (dims as : List Nat) : α := data (it (flatIndex dims as))

/-- `teval(as)`: `i = get_flat_index(as); inds[j] = it[i+j]; vector_setter(vec, data, inds)` -/
def tevalV (data : Nat → α) (it : Nat → Nat) (V : Nat) (dims as : List Nat) : List α :=
  vectorSetter data (laneInds it V (flatIndex dims as))

/-- `teval_s(as)` of a mask view: `mask.teval_s(as) ? data.teval_s(as) : 0` -/
def ftevalS (data : Nat → α) (mask : Nat → Bool) (dims as : List Nat) : α :=
  if mask (flatIndex dims as) then data (flatIndex dims as) else 0

/-- the multi-index `as` advanced by `j` along the last axis -/
def bumpLast : List Nat → Nat → List Nat
  | [], _ => []
  | [a], j => [a + j]
  | a :: as, j => a :: bumpLast as j

/-- `teval(as)` of a mask view: `for j<V: bs = as; bs[last] += j; inds[j] = mask.teval_s(bs) ? data.teval_s(bs) : 0`, then a load -/
def ftevalV (data : Nat → α) (mask : Nat → Bool) (V : Nat) (dims as : List Nat) : List α :=
  (forRange 0 V 1).map fun j => ftevalS data mask dims (bumpLast as j)

/-- body of every "vector loop over `ROUND_DOWN(n,V)` + scalar tail" in this file: `vec i` is what the
    vector iteration at `i` produces per lane, `sc i` what the scalar iteration produces -/
def vecThenTail {β : Type} (n V : Nat) (vec : Nat → List β) (sc : Nat → β) : List β :=
  let R := roundDown n V
  (forRange 0 R V).flatMap vec ++ (forRange (forExit 0 R V) n 1).map sc

/-- `trivial_assign*(dst, src)`: stores `(position, value)` into `dst` -/
def readWrites (ofInt : Int → α) (env : Nat → Nat → α) (it : Nat → Nat) (mask : Nat → Bool)
    (op : AOp) (dst : Nat → α) (e : Src) (n V : Nat) : List (Nat × α) :=
  vecThenTail n V
    (fun i => ((evalV ofInt env it mask V e i).zip (List.range V)).map fun vl => (i + vl.2, op.ap (dst (i + vl.2)) vl.1))
    (fun i => (i, op.ap (dst i) (evalS ofInt env it mask e i)))

/-! ## §3 writes through an index-tensor view -/

/-- execute `mem[p] = op(mem[p], v)` for the instructions in order -/
def exec (ap : α → α → α) (ins : List (Nat × α)) (mem : Nat → α) : Nat → α :=
  ins.foldl (fun m pv => fun q => if q = pv.1 then ap (m pv.1) pv.2 else m q) mem

/-- scalar scatter: `for i<n: data[it[i]] op= rhs.eval_s(i)` -/
def scatterScalar (ofInt : Int → α) (env : Nat → Nat → α) (it : Nat → Nat) (mask : Nat → Bool) (rhs : Src) (n : Nat) :
    List (Nat × α) :=
  (forRange 0 n 1).map fun i => (it i, evalS ofInt env it mask rhs i)

/-- `FASTOR_USE_VECTORISED_EXPR_ASSIGN`: `for i<ROUND_DOWN(n,V) step V: vec = rhs.eval(i); for j<V: data[it[i+j]] op= vec[j]`,
    then the scalar loop from where the vector loop stopped -/
def scatterVector (ofInt : Int → α) (env : Nat → Nat → α) (it : Nat → Nat) (mask : Nat → Bool) (rhs : Src) (n V : Nat) :
    List (Nat × α) :=
  vecThenTail n V
    (fun i => ((evalV ofInt env it mask V rhs i).zip (forRange 0 V 1)).map fun vj => (it (i + vj.2), vj.1))
    (fun i => (it i, evalS ofInt env it mask rhs i))

/-- instructions of `A(it) op= rhs` -/
def scatter (vea : Bool) (ofInt : Int → α) (env : Nat → Nat → α) (it : Nat → Nat) (mask : Nat → Bool) (rhs : Src) (n V : Nat) :
    List (Nat × α) :=
  if vea then scatterVector ofInt env it mask rhs n V else scatterScalar ofInt env it mask rhs n

/-! ## §4 boolean-mask views -/

/-- `for i<n: if (mask.eval_s(i)) data[i] op= rhs.eval_s(i)` -/
def filterInstrs (ofInt : Int → α) (env : Nat → Nat → α) (it : Nat → Nat) (mask : Nat → Bool) (rhs : Src) (n : Nat) :
    List (Nat × α) :=
  (forRange 0 n 1).flatMap fun i => if mask i then [(i, evalS ofInt env it mask rhs i)] else []

/-! ## §5 an index / mask view inside a 2-D expression evaluated by the two-index constructor loop -/

/-- `store` of the lanes of one vector at destination position `dst` -/
def laneW {β : Type} (dst : Nat) (xs : List β) : List (Nat × β) :=
  (xs.zip (List.range xs.length)).map fun ol => (dst + ol.2, ol.1)

/-- the two-index constructor loop of `tensor/SpecialisedConstructors.h` (2-D expressions that contain a range
    view; C04 models it for a range-view source as `Views.View.ctor2Writes`) over an arbitrary source given by its
    two-index members `eval(i,j)` (lanes) and `eval_s(i,j)`:
    `for i<M: for (j=0; j<ROUND_DOWN(N,V); j+=V) eval(i,j).store(&data[i*N+j]); for (; j<N; ++j) data[i*N+j] = eval_s(i,j)` -/
def ctor2Gen {β : Type} (V M N : Nat) (vec : Nat → Nat → List β) (sc : Nat → Nat → β) : List (Nat × β) :=
  (List.range M).flatMap fun i =>
    let R := Views.roundDownV N V
    (forRange 0 R V).flatMap (fun j => laneW (i * N + j) (vec i j)) ++
    (forRange (forExit 0 R V) N 1).map (fun j => (i * N + j, sc i j))

/-! ## §6 right-hand sides that are evaluated first (`requires_evaluation`: `P % Q`, `trans(C)`, `P % Q + D`, …)

  The evaluating overload of every operator of the 1-D index view and of the mask view is
  `const result_type& tmp = evaluate(other.self()); this->operator op=(tmp);` — the whole right-hand side is computed
  from the memory as it is BEFORE the statement, then the element-wise path of §3 / §4 runs with `tmp` as a tensor operand. -/

/-- the operand environment in which window `w` is the temporary -/
def stagedEnv (env : Nat → Nat → α) (w : Nat) (tmp : Nat → α) : Nat → Nat → α :=
  fun w' j => if w' = w then tmp j else env w' j

/-- `A(it) op= rhs` with an evaluating right-hand side; `rhsOf mem j` = element `j` of the expression when the parent holds `mem` -/
def stagedScatter (vea : Bool) (ap : α → α → α) (ofInt : Int → α) (env : Nat → Nat → α) (it : Nat → Nat) (mask : Nat → Bool)
    (rhsOf : (Nat → α) → Nat → α) (n V : Nat) (A : Nat → α) : Nat → α :=
  let tmp := rhsOf A
  exec ap (scatter vea ofInt (stagedEnv env 7 tmp) it mask (.t 7) n V) A

/-- `A(mask) op= rhs` with an evaluating right-hand side -/
def stagedFilter (ap : α → α → α) (ofInt : Int → α) (env : Nat → Nat → α) (it : Nat → Nat) (mask : Nat → Bool)
    (rhsOf : (Nat → α) → Nat → α) (n : Nat) (A : Nat → α) : Nat → α :=
  let tmp := rhsOf A
  exec ap (filterInstrs ofInt (stagedEnv env 7 tmp) it mask (.t 7) n) A

/-- element `p` of the product of `P : M×K` and `Q : K×N` (row-major); `N = 1` for a matrix-vector product -/
def mmAt (P Q : Nat → α) (K N p : Nat) : α :=
  (List.range K).foldl (fun acc k => acc + P (p / N * K + k) * Q (k * N + p % N)) 0

/-! ## read sets (for the correspondence only) -/

/-- positions of window `w` read when the tree is evaluated at the view positions `ps` -/
def Src.readsOf (it : Nat → Nat) (mask : Nat → Bool) (w : Nat) (ps : List Nat) : Src → List Nat
  | .v w' => if w' = w then ps.map it else []
  | .f w' => if w' = w then ps.filter (fun p => mask p) else []
  | .t w' => if w' = w then ps else []
  | .c _ => []
  | .bin _ l r => l.readsOf it mask w ps ++ r.readsOf it mask w ps

end Fastor.RandomViews
