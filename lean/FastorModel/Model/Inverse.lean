/-
  Model of the matrix-inverse tower of Fastor (property C10):

  * `Fastor/backend/inverse.h`           `_inverse<T,1..4>` (generic scalar adjugate forms, transcribed on flat
                                          row-major indices `src[k]`, `dst[k]`)
  * `Fastor/backend/lut_inverse.h`       `_lowunitri_inverse<T,1..4>`
  * `Fastor/expressions/linalg_ops/unary_inv_op.h`
        `inverse_dispatcher`, `ut_inverse_dispatcher`, `lut_inverse_dispatcher` (size-class dispatch, split
        point of each class, 2x2 block recursion), `inverse<SimpleInv>`, `inverse<SimpleInvPiv>`, the batched
        inverse over the trailing two axes, `tinverse<…,Upper>` / `tinverse<…,UniLower>`
  * `Fastor/expressions/linalg_ops/unary_piv_op.h`
        `pivot_inplace` (vector form), `apply_pivot`, `reconstruct_colwise`
  * `Fastor/expressions/linalg_ops/unary_lu_op.h`
        `forward_subs` / `backward_subs` (multiple right-hand sides, with and without the pivot vector),
        `get_lu_inverse`, `lu_simple_dispatcher` (the Doolittle loops of the M>8 class).

  Matrices are entry functions `Nat → Nat → α` (structure `Mat`), a fixed view `in(fseq<r0,..>,fseq<c0,..>)` is
  `blk A r0 c0`, a `Tensor` temporary is `memo` (extensionally the identity: it only evaluates the
  entries once, as the C++ temporary does).  `matmul` / `tmatmul` are the mathematical products
  (their kernels are the subject of C01 / C17).  No Mathlib here: the same definitions are executed over
  core `Rat` by the driver and proved correct over an arbitrary field in `Proofs/Inverse*.lean`.
-/
namespace Fastor.Inv

/-- a matrix is its entry function, wrapped in a structure so that a model function returning a matrix
    evaluates its `let`-bound temporaries once per call (a bare function type would be eta-expanded by the
    compiler and the temporaries recomputed for every entry) -/
structure Mat (α : Type) where
  get : Nat → Nat → α
  /-- second field: keeps the compiler from erasing the wrapper ("trivial structure") -/
  tag : Unit := ()
instance {α : Type} : CoeFun (Mat α) (fun _ => Nat → Nat → α) := ⟨Mat.get⟩
@[ext] theorem Mat.ext' {α : Type} {A B : Mat α} (h : ∀ i j, A i j = B i j) : A = B := by
  cases A; cases B; congr; funext i j; exact h i j

structure Vec (α : Type) where
  get : Nat → α
  tag : Unit := ()
instance {α : Type} : CoeFun (Vec α) (fun _ => Nat → α) := ⟨Vec.get⟩

section Basic
variable {α : Type}

/-- a `Tensor<T,n,m>` temporary: all `n*m` entries are evaluated once (row-major); extensionally `f` -/
def memo (n m : Nat) (f : Mat α) : Mat α :=
  let arr : Array α := Array.ofFn (n := n * m) (fun k => f (k.val / m) (k.val % m))
  { get := fun i j => if i < n ∧ j < m then (if h : i * m + j < arr.size then arr[i * m + j] else f i j) else f i j }

/-- vector temporary -/
def memoV (n : Nat) (f : Vec α) : Vec α :=
  let arr : Array α := Array.ofFn (n := n) (fun k => f k.val)
  { get := fun i => if h : i < arr.size then arr[i] else f i }

/-- fixed view `A(fseq<r0,r0+..>(), fseq<c0,c0+..>())` -/
def blk (A : Mat α) (r0 c0 : Nat) : Mat α := { get := fun i j => A (r0 + i) (c0 + j) }

/-- the four view assignments `out(fseq<0,N>,fseq<0,N>) = aa; out(fseq<0,N>,fseq<N,M>) = ab; …` -/
def assemble (N : Nat) (aa ab ba bb : Mat α) : Mat α := { get := fun i j =>
  if i < N then (if j < N then aa i j else ab i (j - N))
  else (if j < N then ba (i - N) j else bb (i - N) (j - N)) }

/-- row-major flattening of an `n`-column matrix and back (`data()[i*n+j]`) -/
def flat (n : Nat) (A : Mat α) : Nat → α := fun k => A (k / n) (k % n)
def unflat (n : Nat) (s : Nat → α) : Mat α := { get := fun i j => s (i * n + j) }

variable [Zero α] [Add α] [Mul α]

/-- `matmul(A,B)` with inner extent `k` -/
def matmul (k : Nat) (A B : Mat α) : Mat α :=
  { get := fun i j => (List.range k).foldl (fun acc l => acc + A i l * B l j) 0 }

/-- the part of a matrix a triangular product reads -/
def triu (X : Mat α) : Mat α := { get := fun i j => if i ≤ j then X i j else 0 }
def tril (X : Mat α) : Mat α := { get := fun i j => if j ≤ i then X i j else 0 }

end Basic

/-! ### size classes and split points (`enable_if` bounds and `constexpr size_t N = …` of unary_inv_op.h) -/

/-- the start size `N` of the class containing `M` (`M > 4`); the three dispatchers use the same table:
    `4 < M ≤ 8 : 4`, `8 < M ≤ 16 : 8`, `16 < M ≤ 32 : (M/8*8)/2`, `32 < M ≤ 64 : (M/16*16)/2`,
    `64 < M ≤ 128 : (M/32*32)/2`, `128 < M ≤ 256 : (M/64*64)/2` -/
def splitPoint (M : Nat) : Nat :=
  if M ≤ 8 then 4
  else if M ≤ 16 then 8
  else if M ≤ 32 then (M / 8 * 8) / 2
  else if M ≤ 64 then (M / 16 * 16) / 2
  else if M ≤ 128 then (M / 32 * 32) / 2
  else (M / 64 * 64) / 2

/-- the sizes for which a dispatcher overload exists -/
def accepted (M : Nat) : Bool := decide (0 < M ∧ M ≤ 256)

theorem splitPoint_pos {M : Nat} (h : 4 < M) : 0 < splitPoint M := by
  unfold splitPoint; repeat' split
  all_goals omega

theorem splitPoint_lt {M : Nat} (h : 4 < M) : splitPoint M < M := by
  unfold splitPoint; repeat' split
  all_goals omega

/-- the triangular dispatchers switch from `matmul` to `tmatmul` in the classes above 32 -/
def usesTmatmul (M : Nat) : Bool := decide (32 < M)

section Field
variable {α : Type} [Zero α] [One α] [Add α] [Sub α] [Neg α] [Mul α] [Div α]

/-! ### closed forms `_inverse<T,N>` (generic scalar code of backend/inverse.h), flat indices -/

/-- the value the code divides by (`det`, resp. `*src` for `N = 1`) -/
def leafDet (n : Nat) (s : Nat → α) : α :=
  match n with
  | 1 => s 0
  | 2 => s 0 * s 3 + s 1 * (- s 2)
  | 3 =>
    let d0 := s 4 * s 8 - s 5 * s 7
    let d3 := (- s 3) * s 8 + s 5 * s 6
    let d6 := s 3 * s 7 - s 4 * s 6
    s 0 * d0 + s 1 * d3 + s 2 * d6
  | 4 =>
    let t1 := s (2*4+2) * s (3*4+3) - s (2*4+3) * s (3*4+2)
    let t2 := s (2*4+1) * s (3*4+3) - s (2*4+3) * s (3*4+1)
    let t3 := s (2*4+1) * s (3*4+2) - s (2*4+2) * s (3*4+1)
    let d0 := s (1*4+1) * t1 - s (1*4+2) * t2 + s (1*4+3) * t3
    let t4 := s (2*4+0) * s (3*4+3) - s (2*4+3) * s (3*4+0)
    let t5 := s (2*4+0) * s (3*4+2) - s (2*4+2) * s (3*4+0)
    let d4 := s (1*4+2) * t4 - s (1*4+0) * t1 - s (1*4+3) * t5
    let t1' := s (2*4+0) * s (3*4+1) - s (2*4+1) * s (3*4+0)
    let d8 := s (1*4+0) * t2 - s (1*4+1) * t4 + s (1*4+3) * t1'
    let d12 := s (1*4+1) * t5 - s (1*4+0) * t3 - s (1*4+2) * t1'
    s 0 * d0 + s 1 * d4 + s 2 * d8 + s 3 * d12
  | _ => 1

/-- `_inverse<T,1>`: `*dst = T(1)/(*src)` -/
def inv1 (s : Nat → α) : Nat → α := fun _ => 1 / s 0

/-- `_inverse<T,2>` -/
def inv2 (s : Nat → α) : Nat → α :=
  let d0 := s 3
  let d1 := - s 1
  let d2 := - s 2
  let d3 := s 0
  let det := s 0 * d0 + s 1 * d2
  let det := 1 / det
  fun k => match k with
    | 0 => d0 * det | 1 => d1 * det | 2 => d2 * det | _ => d3 * det

/-- `_inverse<T,3>` -/
def inv3 (s : Nat → α) : Nat → α :=
  let d0 := s 4 * s 8 - s 5 * s 7
  let d1 := (- s 1) * s 8 + s 2 * s 7
  let d2 := s 1 * s 5 - s 2 * s 4
  let d3 := (- s 3) * s 8 + s 5 * s 6
  let d4 := s 0 * s 8 - s 2 * s 6
  let d5 := (- s 0) * s 5 + s 2 * s 3
  let d6 := s 3 * s 7 - s 4 * s 6
  let d7 := (- s 0) * s 7 + s 1 * s 6
  let d8 := s 0 * s 4 - s 1 * s 3
  let det := s 0 * d0 + s 1 * d3 + s 2 * d6
  let det := 1 / det
  fun k => match k with
    | 0 => d0 * det | 1 => d1 * det | 2 => d2 * det | 3 => d3 * det | 4 => d4 * det
    | 5 => d5 * det | 6 => d6 * det | 7 => d7 * det | _ => d8 * det

/-- `_inverse<T,4>` (the temporaries `t1..t5` are reassigned as in the source) -/
def inv4 (s : Nat → α) : Nat → α :=
  let t1 := s (2*4+2) * s (3*4+3) - s (2*4+3) * s (3*4+2)
  let t2 := s (2*4+1) * s (3*4+3) - s (2*4+3) * s (3*4+1)
  let t3 := s (2*4+1) * s (3*4+2) - s (2*4+2) * s (3*4+1)
  let d0 := s (1*4+1) * t1 - s (1*4+2) * t2 + s (1*4+3) * t3
  let d1 := s (0*4+2) * t2 - s (0*4+1) * t1 - s (0*4+3) * t3
  let t4 := s (2*4+0) * s (3*4+3) - s (2*4+3) * s (3*4+0)
  let t5 := s (2*4+0) * s (3*4+2) - s (2*4+2) * s (3*4+0)
  let d4 := s (1*4+2) * t4 - s (1*4+0) * t1 - s (1*4+3) * t5
  let d5 := s (0*4+0) * t1 - s (0*4+2) * t4 + s (0*4+3) * t5
  let t1 := s (2*4+0) * s (3*4+1) - s (2*4+1) * s (3*4+0)
  let d8 := s (1*4+0) * t2 - s (1*4+1) * t4 + s (1*4+3) * t1
  let d9 := s (0*4+1) * t4 - s (0*4+0) * t2 - s (0*4+3) * t1
  let d12 := s (1*4+1) * t5 - s (1*4+0) * t3 - s (1*4+2) * t1
  let d13 := s (0*4+0) * t3 - s (0*4+1) * t5 + s (0*4+2) * t1
  let t1 := s (0*4+2) * s (1*4+3) - s (0*4+3) * s (1*4+2)
  let t2 := s (0*4+1) * s (1*4+3) - s (0*4+3) * s (1*4+1)
  let t3 := s (0*4+1) * s (1*4+2) - s (0*4+2) * s (1*4+1)
  let d2 := s (3*4+1) * t1 - s (3*4+2) * t2 + s (3*4+3) * t3
  let d3 := s (2*4+2) * t2 - s (2*4+1) * t1 - s (2*4+3) * t3
  let t4 := s (0*4+0) * s (1*4+3) - s (0*4+3) * s (1*4+0)
  let t5 := s (0*4+0) * s (1*4+2) - s (0*4+2) * s (1*4+0)
  let d6 := s (3*4+2) * t4 - s (3*4+0) * t1 - s (3*4+3) * t5
  let d7 := s (2*4+0) * t1 - s (2*4+2) * t4 + s (2*4+3) * t5
  let t1 := s (0*4+0) * s (1*4+1) - s (0*4+1) * s (1*4+0)
  let d10 := s (3*4+0) * t2 - s (3*4+1) * t4 + s (3*4+3) * t1
  let d11 := s (2*4+1) * t4 - s (2*4+0) * t2 - s (2*4+3) * t1
  let d14 := s (3*4+1) * t5 - s (3*4+0) * t3 - s (3*4+2) * t1
  let d15 := s (2*4+0) * t3 - s (2*4+1) * t5 + s (2*4+2) * t1
  let det := s 0 * d0 + s 1 * d4 + s 2 * d8 + s 3 * d12
  let invdet := 1 / det
  fun k => match k with
    | 0 => d0 * invdet | 1 => d1 * invdet | 2 => d2 * invdet | 3 => d3 * invdet
    | 4 => d4 * invdet | 5 => d5 * invdet | 6 => d6 * invdet | 7 => d7 * invdet
    | 8 => d8 * invdet | 9 => d9 * invdet | 10 => d10 * invdet | 11 => d11 * invdet
    | 12 => d12 * invdet | 13 => d13 * invdet | 14 => d14 * invdet | _ => d15 * invdet

/-- `_inverse<T,N>(src,dst)` for `1 ≤ N ≤ 4` on flat data -/
def leafFlat (n : Nat) (s : Nat → α) : Nat → α :=
  match n with
  | 1 => inv1 s | 2 => inv2 s | 3 => inv3 s | 4 => inv4 s | _ => s

/-- `_inverse<T,M>(in.data(), out.data())` on a `Tensor<T,M,M>` -/
def leafInv (n : Nat) (A : Mat α) : Mat α := unflat n (leafFlat n (flat n A))

/-! ### `_lowunitri_inverse<T,N>` (backend/lut_inverse.h) -/
def lutLeafFlat (n : Nat) (s : Nat → α) : Nat → α :=
  match n with
  | 1 => fun _ => 1
  | 2 => fun k => match k with | 0 => 1 | 1 => 0 | 2 => - s 2 | _ => 1
  | 3 => fun k => match k with
    | 0 => 1 | 1 => 0 | 2 => 0
    | 3 => (- s 3) * s 8 | 4 => 1 | 5 => 0
    | 6 => s 3 * s 7 - s 6 | 7 => - s 7 | _ => 1
  | 4 =>
    let t2 := s (2*4+1)
    let t3 := s (2*4+1) * s (3*4+2) - s (3*4+1)
    let t4 := s (2*4+0)
    let t5 := s (2*4+0) * s (3*4+2) - s (3*4+0)
    fun k => match k with
    | 0 => 1 | 1 => 0 | 2 => 0 | 3 => 0
    | 4 => - s (1*4+0) | 5 => 1 | 6 => 0 | 7 => 0
    | 8 => s (1*4+0) * t2 - t4 | 9 => - t2 | 10 => 1 | 11 => 0
    | 12 => t5 - s (1*4+0) * t3 | 13 => t3 | 14 => - s (3*4+2) | _ => 1
  | _ => s

def lutLeafInv (n : Nat) (A : Mat α) : Mat α := unflat n (lutLeafFlat n (flat n A))

/-! ### `inverse_dispatcher` -/

/-- `internal::inverse_dispatcher(in,out)` / `inverse<SimpleInv>` for `M ≤ 4` and above: leaf, or the
    Schur-complement recursion on the split `N = splitPoint M`.  (The `4 < M ≤ 8` overload calls
    `inverse(a)` and `inverse(d - …)`, which for block sizes ≤ 4 are `_inverse` again.) -/
def inv (M : Nat) (A : Mat α) : Mat α :=
  if h : M ≤ 4 then leafInv M A
  else
    let N := splitPoint M
    let a := blk A 0 0
    let b := blk A 0 N
    let c := blk A N 0
    let d := blk A N N
    let inv_a := memo N N (inv N a)
    let c_inva := memo (M - N) N (matmul N c inv_a)
    let block_bb := memo (M - N) (M - N)
      (inv (M - N) (memo (M - N) (M - N) { get := fun i j => d i j - matmul N c_inva b i j }))
    let inva_b := memo N (M - N) (matmul N inv_a b)
    let bb_c_inva := memo (M - N) N (matmul (M - N) block_bb c_inva)
    let block_aa : Mat α := { get := fun i j => inv_a i j + matmul (M - N) inva_b bb_c_inva i j }
    let block_ab : Mat α := { get := fun i j => - matmul (M - N) inva_b block_bb i j }
    let block_ba : Mat α := { get := fun i j => - bb_c_inva i j }
    assemble N block_aa block_ab block_ba block_bb
termination_by M
decreasing_by
  · exact splitPoint_lt (by omega)
  · have := splitPoint_pos (M := M) (by omega); omega

/-- the divisors met by `inv` in execution order (one per leaf: the determinant of the leaf block) -/
def invDivs (M : Nat) (A : Mat α) : List α :=
  if h : M ≤ 4 then [leafDet M (flat M A)]
  else
    let N := splitPoint M
    let a := blk A 0 0
    let b := blk A 0 N
    let c := blk A N 0
    let d := blk A N N
    let inv_a := memo N N (inv N a)
    let c_inva := memo (M - N) N (matmul N c inv_a)
    let s := memo (M - N) (M - N) { get := fun i j => d i j - matmul N c_inva b i j }
    invDivs N a ++ invDivs (M - N) s
termination_by M
decreasing_by
  · exact splitPoint_lt (by omega)
  · have := splitPoint_pos (M := M) (by omega); omega

/-- the leaf sizes of the recursion, left to right (depends on `M` only) -/
def leafSizes (M : Nat) : List Nat :=
  if _h : M ≤ 4 then [M]
  else leafSizes (splitPoint M) ++ leafSizes (M - splitPoint M)
termination_by M
decreasing_by
  · exact splitPoint_lt (by omega)
  · have := splitPoint_pos (M := M) (by omega); omega

/-- `inverse<InvCompType::SimpleInv>(A)` -/
def inverseSimple (M : Nat) (A : Mat α) : Mat α := memo M M (inv M (memo M M A))

/-! ### triangular dispatchers -/

/-- `tmatmul<General,Upper>(B, U)` / `tmatmul<Upper,General>(U, B)` / … : the product that reads only the
    tagged triangle (C17) -/
def mmGU (k : Nat) (B U : Mat α) : Mat α := matmul k B (triu U)
def mmUG (k : Nat) (U B : Mat α) : Mat α := matmul k (triu U) B
def mmGL (k : Nat) (B L : Mat α) : Mat α := matmul k B (tril L)
def mmLG (k : Nat) (L B : Mat α) : Mat α := matmul k (tril L) B

/-- `internal::ut_inverse_dispatcher` (`tinverse<SimpleInv,UpLoType::Upper>`) -/
def utInv (M : Nat) (A : Mat α) : Mat α :=
  if h : M ≤ 4 then leafInv M A
  else
    let N := splitPoint M
    let a := blk A 0 0
    let b := blk A 0 N
    let d := blk A N N
    let inv_a := memo N N (utInv N a)
    let inv_d := memo (M - N) (M - N) (utInv (M - N) d)
    let b_invd := memo N (M - N)
      (if usesTmatmul M then mmGU (M - N) b inv_d else matmul (M - N) b inv_d)
    let ab : Mat α := memo N (M - N)
      (if usesTmatmul M then mmUG N inv_a b_invd else matmul N inv_a b_invd)
    assemble N inv_a { get := fun i j => - ab i j } { get := fun _ _ => 0 } inv_d
termination_by M
decreasing_by
  · exact splitPoint_lt (by omega)
  · have := splitPoint_pos (M := M) (by omega); omega

def utDivs (M : Nat) (A : Mat α) : List α :=
  if _h : M ≤ 4 then [leafDet M (flat M A)]
  else utDivs (splitPoint M) (blk A 0 0) ++ utDivs (M - splitPoint M) (blk A (splitPoint M) (splitPoint M))
termination_by M
decreasing_by
  · exact splitPoint_lt (by omega)
  · have := splitPoint_pos (M := M) (by omega); omega

/-- `internal::lut_inverse_dispatcher` (`tinverse<SimpleInv,UpLoType::UniLower>`) -/
def lutInv (M : Nat) (A : Mat α) : Mat α :=
  if h : M ≤ 4 then lutLeafInv M A
  else
    let N := splitPoint M
    let a := blk A 0 0
    let c := blk A N 0
    let d := blk A N N
    let inv_a := memo N N (lutInv N a)
    let c_inva := memo (M - N) N
      (if usesTmatmul M then mmGL N c inv_a else matmul N c inv_a)
    let inv_d := memo (M - N) (M - N) (lutInv (M - N) d)
    let ba : Mat α := memo (M - N) N
      (if usesTmatmul M then mmLG (M - N) inv_d c_inva else matmul (M - N) inv_d c_inva)
    assemble N inv_a { get := fun _ _ => 0 } { get := fun i j => - ba i j } inv_d
termination_by M
decreasing_by
  · exact splitPoint_lt (by omega)
  · have := splitPoint_pos (M := M) (by omega); omega

def tinverseUpper (M : Nat) (A : Mat α) : Mat α := memo M M (utInv M (memo M M A))
def tinverseUniLower (M : Nat) (A : Mat α) : Mat α := memo M M (lutInv M (memo M M A))

/-! ### batched inverse over the trailing two axes (`inverse(const Tensor<T,Rest...>&)`, rank ≥ 3) -/

/-- `for i < remaining_product: _inverse<T,J>(a_data + i*J*J, out_data + i*J*J)` on the flat data -/
def batchedInverse (J : Nat) (a : Nat → α) : Vec α :=
  { get := fun k => leafFlat J (fun q => a ((k / (J * J)) * (J * J) + q)) (k % (J * J)) }

end Field

/-! ### pivoting (unary_piv_op.h) -/
section Pivot
variable {α : Type}

/-- inner loop of `pivot_inplace`: `max_index = j; for i in j..M-1: if cnorm(A(i,j)) > cnorm(A(max_index,j)) max_index = i` -/
def maxIndex (gt : α → α → Bool) (M : Nat) (A : Mat α) (j : Nat) : Nat :=
  (List.range' j (M - j)).foldl (fun mi i => if gt (A i j) (A mi j) then i else mi) j

/-- `std::swap(perm(a), perm(b))` -/
def swapAt (p : Vec Nat) (a b : Nat) : Vec Nat :=
  { get := fun k => if k = a then p b else if k = b then p a else p k }

/-- `pivot_inplace(A, perm)`: `perm.iota(); for j: … if (j != max_index) swap(perm(j), perm(max_index))`.
    Note that the column maxima are searched in the ORIGINAL matrix (rows are not exchanged while scanning). -/
def pivotVec (gt : α → α → Bool) (M : Nat) (A : Mat α) : Vec Nat :=
  (List.range M).foldl
    (fun p j => let mi := maxIndex gt M A j; if j ≠ mi then memoV M (swapAt p j mi) else p) { get := id }

/-- `apply_pivot(A,P)`: `copyA = A; for i: if (P(i) != i) copy row P(i) of A to row i of copyA` -/
def applyPivot (A : Mat α) (p : Vec Nat) : Mat α :=
  { get := fun i j => if p i ≠ i then A (p i) j else A i j }

/-- `reconstruct_colwise(A,P)`: `copyA = A; for i < M: if (P(i) != i) copyA(all,P(i)) = A(all,i)` -/
def reconstructColwise (M : Nat) (Y : Mat α) (p : Vec Nat) : Mat α :=
  (List.range M).foldl
    (fun X i => if p i ≠ i then { get := fun r c => if c = p i then Y r i else X r c } else X) Y

end Pivot

section PivField
variable {α : Type} [Zero α] [One α] [Add α] [Sub α] [Neg α] [Mul α] [Div α]

/-- `inverse<InvCompType::SimpleInvPiv>(A)` -/
def inverseSimplePiv (gt : α → α → Bool) (M : Nat) (A0 : Mat α) : Mat α :=
  let A := memo M M A0
  let p := pivotVec gt M A
  let PA := memo M M (applyPivot A p)
  let out := memo M M (inv M PA)
  memo M M (reconstructColwise M out p)

/-! ### LU based inverses (unary_lu_op.h) -/

/-- `_inner<T,n>(a,b)` as used by the substitutions: `Σ_{k<n} a k * b k` (for `n = 0` the code returns
    `a[0]*b[0]` with `b[0]` still zero) -/
def inner (n : Nat) (a b : Nat → α) : α :=
  (List.range n).foldl (fun acc k => acc + a k * b k) 0

/-- `forward_subs_impl<0,M-1>::do_multi_rhs(_pivot)` for one column `rhs` (already `B(p(i),j)` in the pivoted
    form): the first `t` entries of `y`, `y(i) = rhs(i) - _inner<T,i>(&L(i,0), y)` -/
def fwdArr (L : Mat α) (rhs : Nat → α) : Nat → Array α
  | 0 => #[]
  | t + 1 =>
    let y := fwdArr L rhs t
    y.push (rhs t - inner t (fun k => L t k) (fun k => y.getD k 0))

/-- `backward_subs_impl<M-1,0>::do_multi_rhs` for one column: entries `x(M-1), x(M-2), …, x(M-t)` (in this
    order), `x(i) = (y(i) - _inner<T,M-i>(&U(i,i), &x(i))) / U(i,i)` with `x(i)` still zero -/
def bwdArr (M : Nat) (U : Mat α) (y : Nat → α) : Nat → Array α
  | 0 => #[]
  | t + 1 =>
    let x := bwdArr M U y t          -- x(M-1) … x(M-t)
    let i := M - 1 - t
    let xv : Nat → α := fun k => if i < k ∧ k < M then x.getD (M - 1 - k) 0 else 0
    x.push ((y i - inner (M - i) (fun k => U i (i + k)) (fun k => xv (i + k))) / U i i)

/-- `get_lu_inverse(L,U[,p])`: `Y = forward_subs(L,[p,]I); X = backward_subs(U,Y)`, column by column
    (`p = id` for the unpivoted overload; the pivoted one reads `I(p(i),j)`) -/
def getLuInverse (M : Nat) (L U : Mat α) (p : Vec Nat) : Mat α :=
  let ycols : Array (Array α) :=
    Array.ofFn (n := M) fun j => fwdArr L (fun r => if p r = j.val then 1 else 0) M
  let xcols : Array (Array α) :=
    Array.ofFn (n := M) fun j => bwdArr M U (fun r => (ycols.getD j.val #[]).getD r 0) M
  { get := fun i j => (xcols.getD j #[]).getD (M - 1 - i) 0 }

/-- `lu_simple_dispatcher` for `M > 8` (Doolittle loops), executable transcription.  The LU factors of a
    matrix are unique, so the closed forms `_lufact<T,1..8>` and the block / recursive dispatchers (C11)
    produce the same `L`, `U` whenever they are defined; C10 only uses the factors through
    `get_lu_inverse`. -/
def luSimple (M : Nat) (A : Mat α) : Mat α × Mat α := Id.run do
  let mut L : Array α := Array.replicate (M * M) 0
  let mut U : Array α := Array.replicate (M * M) 0
  for j in [0:M] do
    L := L.setIfInBounds (j * M + j) 1
    for i in [0:j+1] do
      let mut v := A i j
      for k in [0:i] do
        v := v - L.getD (i * M + k) 0 * U.getD (k * M + j) 0
      U := U.setIfInBounds (i * M + j) v
    for i in [j:M] do
      let mut v := A i j
      for k in [0:j] do
        v := v - L.getD (i * M + k) 0 * U.getD (k * M + j) 0
      v := v / U.getD (j * M + j) 0
      L := L.setIfInBounds (i * M + j) v
  let Lf := L; let Uf := U
  return ({ get := fun i j => Lf.getD (i * M + j) 0 }, { get := fun i j => Uf.getD (i * M + j) 0 })

/-- `inverse<SimpleLU>` / `inverse<BlockLU>` (`piv = false`) and `inverse<SimpleLUPiv>` / `inverse<BlockLUPiv>` -/
def inverseLU (gt : α → α → Bool) (piv : Bool) (M : Nat) (A0 : Mat α) : Mat α :=
  let A := memo M M A0
  let p : Vec Nat := if piv then pivotVec gt M A else { get := id }
  let PA := if piv then memo M M (applyPivot A p) else A
  let (L, U) := luSimple M PA
  getLuInverse M L U p

/-- the pivots `U(j,j)` the LU based strategies divide by -/
def luPivots (M : Nat) (PA : Mat α) : List α :=
  let (_, U) := luSimple M PA
  (List.range M).map fun j => U j j

end PivField

end Fastor.Inv
