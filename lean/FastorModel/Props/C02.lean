import FastorModel.Model.Expr
/-
# C02 — An evaluated expression equals the scalar operation applied element by element

Property: assigning any expression built from tensors, scalars, unary minus, +, -, * … to a tensor
(with =, +=, -=, *=) gives, at every flat position p, exactly the value obtained by applying the same
scalar operations to the p-th elements of the operands, for every tensor size (whether or not a
multiple of the vector width).

Reading of the statements.
* `E` is the expression tree; `env w p` is element `p` of tensor operand `w`; `evalS` is the scalar
  evaluator every node implements (`eval_s`), `evalV … V` the vector evaluator (`eval`), `V` lanes.
* `lanes_of_evalV`: by structural induction, lane `l` of the vector evaluation at `p` is the scalar
  evaluation at `p + l` — for every tree and every width.  (The vector primitives of the model are
  lane-wise by definition; the real ones are the subject of C08 — C02 is proved relative to C08.)
* `assign_correct`: for every size `n`, width `V = 2^e`, operator and tree, the writes issued by the
  assignment loop (vector body over `ROUND_DOWN(n,V)`, scalar tail) leave `op(dst p, evalS e p)` at
  every `p < n` and touch nothing at or beyond `n`.  Division, math functions, comparisons and the
  reciprocal-multiply form of division by a scalar are not in this model (value runs on the real types).
-/
namespace Fastor.C02
open Fastor Fastor.Expr

variable {α : Type} [Add α] [Sub α] [Mul α] [Neg α]

theorem evalV_length (ofInt : Int → α) (env : Nat → Nat → α) (V : Nat) (e : E) (p : Nat) :
    (evalV ofInt env V e p).length = V := by
  induction e generalizing p with
  | t w => simp [evalV]
  | c k => simp [evalV]
  | bin op l r ihl ihr => simp [evalV, ihl, ihr]
  | neg e ih => simp [evalV, ih]

/-- **vector evaluation is the scalar evaluation lane by lane** -/
theorem lanes_of_evalV (ofInt : Int → α) (env : Nat → Nat → α) (V : Nat) (e : E) (p l : Nat) (hl : l < V) :
    (evalV ofInt env V e p)[l]? = some (evalS ofInt env e (p + l)) := by
  induction e generalizing p with
  | t w => simp [evalV, evalS, hl]
  | c k => simp [evalV, evalS, hl]
  | bin op lhs rhs ihl ihr =>
    simp only [evalV, evalS]
    rw [List.getElem?_zipWith, ihl, ihr]
  | neg e ih =>
    simp only [evalV, evalS, List.getElem?_map, ih]
    rfl

theorem roundDown_pow2 (x e : Nat) (hx : x < 2 ^ 64) (he : e ≤ 64) :
    roundDown x (2 ^ e) = x / 2 ^ e * 2 ^ e := by
  unfold roundDown
  apply Nat.eq_of_testBit_eq
  intro i
  rw [Nat.testBit_and]
  have h2 : 2 ^ 64 - 1 - (2 ^ e - 1) = 2 ^ e * (2 ^ (64 - e) - 1) := by
    have : 2 ^ 64 = 2 ^ e * 2 ^ (64 - e) := by rw [← Nat.pow_add]; congr 1; omega
    have hp : 0 < 2 ^ e := Nat.pow_pos (by omega)
    rw [Nat.mul_sub, ← this]; omega
  rw [h2, Nat.mul_comm (x / 2 ^ e) (2 ^ e)]
  rw [Nat.testBit_two_pow_mul, Nat.testBit_two_pow_mul]
  by_cases hie : e ≤ i
  · simp only [hie, decide_true, Bool.true_and]
    rw [Nat.testBit_two_pow_sub_one, Nat.testBit_div_two_pow]
    have : i - e + e = i := by omega
    rw [this]
    by_cases h64 : i < 64
    · have : i - e < 64 - e := by omega
      simp [this]
    · have : x.testBit i = false :=
        Nat.testBit_lt_two_pow (Nat.lt_of_lt_of_le hx (Nat.pow_le_pow_right (by omega) (by omega)))
      simp [this]
  · simp [hie]

/-- **C02**: the assignment loop leaves `op(dst p, evalS e p)` at every `p < n` and writes nothing else. -/
theorem assign_correct (ofInt : Int → α) (env : Nat → Nat → α) (op : AOp) (dst : Nat → α) (e : E)
    (n ex : Nat) (hn : n < 2 ^ 64) (hex : ex ≤ 64) :
    WritesExactly (assignWrites ofInt env op dst e n (2 ^ ex)) (fun p => p < n)
      (fun p => op.ap (dst p) (evalS ofInt env e p)) := by
  have hV : 0 < 2 ^ ex := Nat.pow_pos (by omega)
  unfold assignWrites
  rw [roundDown_pow2 n ex hn hex]
  simp only []
  have hR : n / 2 ^ ex * 2 ^ ex ≤ n := Nat.div_mul_le_self _ _
  have hexit : forExit 0 (n / 2 ^ ex * 2 ^ ex) (2 ^ ex) = n / 2 ^ ex * 2 ^ ex :=
    forExit_of_dvd hV (Nat.zero_le _) (by simp [Nat.dvd_mul_left])
  rw [hexit]
  apply writesExactly_of_all_right
  · intro w hw
    rcases List.mem_append.1 hw with h | h
    · obtain ⟨i, hi, hw⟩ := List.mem_flatMap.1 h
      obtain ⟨t, rfl, hlt⟩ := (mem_forRange hV).1 hi
      simp only [List.mem_map] at hw
      obtain ⟨⟨v, l⟩, hvl, rfl⟩ := hw
      have hmem := List.of_mem_zip hvl
      have hl : l < 2 ^ ex := List.mem_range.1 hmem.2
      -- position of the pair in the zip identifies the lane
      obtain ⟨k, hk, hk2⟩ := List.getElem_of_mem hvl
      have hlen : ((evalV ofInt env (2 ^ ex) e (0 + t * 2 ^ ex)).zip (List.range (2 ^ ex))).length = 2 ^ ex := by
        simp [evalV_length]
      have hkV : k < 2 ^ ex := by rw [hlen] at hk; exact hk
      rw [List.getElem_zip] at hk2
      have hkl : k = l := by
        have := congrArg Prod.snd hk2; simp at this; exact this
      subst hkl
      have hv : v = evalS ofInt env e (0 + t * 2 ^ ex + k) := by
        have h1 := congrArg Prod.fst hk2
        simp only at h1
        have h2 := lanes_of_evalV ofInt env (2 ^ ex) e (0 + t * 2 ^ ex) k hkV
        rw [List.getElem?_eq_getElem (by rw [evalV_length]; exact hkV)] at h2
        rw [← h1]; exact Option.some.inj h2
      refine ⟨?_, ?_⟩
      · show 0 + t * 2 ^ ex + k < n
        have : (t + 1) * 2 ^ ex ≤ n / 2 ^ ex * 2 ^ ex := by
          apply Nat.mul_le_mul_right
          have : t * 2 ^ ex < n / 2 ^ ex * 2 ^ ex := by omega
          exact Nat.lt_of_mul_lt_mul_right this
        rw [Nat.add_mul] at this; omega
      · simp only [hv]
    · simp only [List.mem_map] at h
      obtain ⟨i, hi, rfl⟩ := h
      obtain ⟨t, rfl, hlt⟩ := (mem_forRange (by omega : 0 < 1)).1 hi
      exact ⟨hlt, rfl⟩
  · intro p hp
    by_cases hpR : p < n / 2 ^ ex * 2 ^ ex
    · -- vector body
      have hq : p / 2 ^ ex * 2 ^ ex ≤ p := Nat.div_mul_le_self _ _
      have hr : p - p / 2 ^ ex * 2 ^ ex < 2 ^ ex := by
        have := Nat.lt_div_mul_add (a := p) hV; omega
      refine ⟨(p, op.ap (dst p) (evalS ofInt env e p)), ?_, rfl⟩
      apply List.mem_append_left
      apply List.mem_flatMap.2
      refine ⟨0 + p / 2 ^ ex * 2 ^ ex, (mem_forRange hV).2 ⟨p / 2 ^ ex, rfl, by omega⟩, ?_⟩
      simp only [List.mem_map]
      refine ⟨(evalS ofInt env e p, p - p / 2 ^ ex * 2 ^ ex), ?_, ?_⟩
      · -- the pair is in the zip
        have hlanes := lanes_of_evalV ofInt env (2 ^ ex) e (0 + p / 2 ^ ex * 2 ^ ex) (p - p / 2 ^ ex * 2 ^ ex) hr
        have hpe : 0 + p / 2 ^ ex * 2 ^ ex + (p - p / 2 ^ ex * 2 ^ ex) = p := by omega
        rw [hpe] at hlanes
        rw [List.mem_iff_getElem?]
        refine ⟨p - p / 2 ^ ex * 2 ^ ex, ?_⟩
        rw [List.getElem?_zip_eq_some]
        exact ⟨hlanes, by simp [hr]⟩
      · have hpe : 0 + p / 2 ^ ex * 2 ^ ex + (p - p / 2 ^ ex * 2 ^ ex) = p := by omega
        simp only [hpe]
    · -- scalar tail
      refine ⟨(p, op.ap (dst p) (evalS ofInt env e p)), ?_, rfl⟩
      apply List.mem_append_right
      simp only [List.mem_map]
      exact ⟨p, (mem_forRange (by omega : 0 < 1)).2 ⟨p - n / 2 ^ ex * 2 ^ ex, by omega, hp⟩, rfl⟩

/-- final memory: the property as stated -/
theorem assign_memory (ofInt : Int → α) (env : Nat → Nat → α) (op : AOp) (dst : Nat → α) (e : E)
    (n ex : Nat) (hn : n < 2 ^ 64) (hex : ex ≤ 64) (p : Nat) :
    (p < n → applyWrites (assignWrites ofInt env op dst e n (2 ^ ex)) dst p = op.ap (dst p) (evalS ofInt env e p)) ∧
    (n ≤ p → applyWrites (assignWrites ofInt env op dst e n (2 ^ ex)) dst p = dst p) := by
  have h := applyWrites_of_exact (assign_correct ofInt env op dst e n ex hn hex) dst p
  exact ⟨h.1, fun hp => h.2 (by omega)⟩

/-- non-vacuity: a depth-2 tree over `Int`, width 4, size 7 -/
example : applyWrites (assignWrites (fun k => k) (fun w p => (w : Int) * 10 + p) .add (fun p => (p : Int))
    (.bin .add (.t 1) (.bin .mul (.t 2) (.c 3))) 7 (2 ^ 2)) (fun p => (p : Int)) 5 = 5 + (15 + 25 * 3) := by
  decide

end Fastor.C02
