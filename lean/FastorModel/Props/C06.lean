import FastorModel.Model.ConfigLadder
import FastorModel.Props.C01
import FastorModel.Props.C02
import FastorModel.Props.C03
import FastorModel.Props.C17
/-
# C06 — Results do not depend on the SIMD instruction set, C++ level or tuning macros

Property (properties.jsonl): a program using the library computes the same values whichever supported
build configuration it is compiled with (scalar-only, SSE2 … AVX-512; C++14/17; -O0..-O3; runtime
checks on/off; any documented tuning macro).  Integer and boolean results are bit-identical, floating
point results agree within the rounding bound; a program accepted by the compiler in one configuration
is accepted in all.

What is a theorem here and what is not.
* The *build configuration* enters the models through (i) the macro ladder of config.h / macros.h /
  simd_vector_abi.h — modelled by `Predef` (ConfigLadder.lean) and tied to the source by the probe of
  `./check C06` under every flag set — and (ii) explicit parameters of the kernel models: `Cfg` (native
  ABI, AVX2, masks, block-size macros) for matmul / tmatmul, the vector width `V` for expression
  assignment, element size and the vectorisation switch for einsum.
* For every operation that has a kernel model, "the result does not depend on the configuration" is a
  corollary of the owning property's `model = specification` theorem: both sides equal the same
  configuration-free expression.  These corollaries are collected below (`*_independent`), over an
  arbitrary commutative semiring — i.e. exactly for integer-valued data, as the property says.
* Facts about the ladder itself that the kernels rely on: the widest vector of the native ABI fits
  the alignment value (`native_vector_fits_alignment`), every selected width divides it
  (`vsize_dvd_alignment`) and is at most the native one (`vsize_le_native`).
* NOT theorems (observed by the digest matrix of `./check C06`, see DESIGN.md §4 C06): that every
  configuration *compiles* the same programs, what the optimiser does at -O0..-O3, and the
  floating-point "within the rounding bound" clause.
-/
namespace Fastor.C06
open Fastor Fastor.Matmul Fastor.Tmatmul Finset

/-! ## The configuration ladder -/

/-- Element sizes of the primitive types the library vectorises. -/
def PrimSize (sz : Nat) : Prop := sz = 4 ∨ sz = 8

instance : LawfulBEq Abi where
  eq_of_beq := by intro a b h; cases a <;> cases b <;> first | rfl | cases h
  rfl := by intro a; cases a <;> rfl

theorem native_lanes_pos (a : Abi) (sz : Nat) : 0 < a.lanes sz := by
  unfold Abi.lanes
  generalize a.bits sz / sz / 8 = v
  by_cases h : v = 0 <;> simp [h] <;> omega

/-- The widest vector of the native ABI fits into `FASTOR_MEMORY_ALIGNMENT_VALUE` bytes, for every
    set of compiler predefines (also inconsistent ones): an aligned vector access at a multiple of
    the vector width from the start of tensor storage is aligned. -/
theorem native_vector_fits_alignment (p : Predef) (sz : Nat) (hsz : PrimSize sz) :
    p.native.lanes sz * sz ≤ p.alignment := by
  have h512 : p.native = .avx512 → p.alignment = 64 := by
    unfold Predef.native Predef.alignment; intro h; (repeat' split at h) <;> simp_all
  have havx : p.native = .avx → 32 ≤ p.alignment := by
    unfold Predef.native Predef.alignment; intro h; (repeat' split at h) <;> simp_all
  have hsse : p.native = .sse → 16 ≤ p.alignment := by
    unfold Predef.native Predef.alignment Predef.sseImpl; intro h
    (repeat' split at h) <;> simp_all
  have h8 : 8 ≤ p.alignment := by unfold Predef.alignment; (repeat' split) <;> omega
  rcases hsz with rfl | rfl <;> cases hn : p.native <;> simp [Abi.lanes, Abi.bits] <;>
    first | (have := h512 hn; omega) | (have := havx hn; omega) | (have := hsse hn; omega) | omega

/-- the ABI selected by `choose_best_simd_type` is the native one, its half, or (AVX-512 only) its quarter -/
theorem bestAbi_rel (c : Cfg) (sz N : Nat) :
    c.bestAbi sz N = c.native ∨ c.bestAbi sz N = c.native.half ∨ (c.native = .avx512 ∧ c.bestAbi sz N = .sse) := by
  unfold Cfg.bestAbi exactMultiple
  cases c.native <;> simp [Abi.half] <;> (repeat' split) <;> simp_all

/-- every width `choose_best_simd_type` selects is at most the native width -/
theorem vsize_le_native (c : Cfg) (sz N : Nat) (hsz : PrimSize sz) :
    c.vsize sz N ≤ c.native.lanes sz := by
  unfold Cfg.vsize
  rcases bestAbi_rel c sz N with h | h | ⟨hn, h⟩
  · rw [h]
  · rw [h]; rcases hsz with rfl | rfl <;> cases c.native <;> decide
  · rw [h, hn]; rcases hsz with rfl | rfl <;> decide

/-- every selected width is a power of two (so `ROUND_DOWN` by masking is `n / V * V`) -/
theorem vsize_pow2 (c : Cfg) (sz N : Nat) (hsz : PrimSize sz) : ∃ e, e ≤ 6 ∧ c.vsize sz N = 2 ^ e :=
  C01.vsize_pow2 c sz N (by rcases hsz with h | h <;> simp [h])

/-- every selected width (in bytes) divides the alignment value of the configuration -/
theorem vsize_dvd_alignment (p : Predef) (sz N : Nat) (hsz : PrimSize sz) :
    (p.toCfg.vsize sz N * sz) ∣ p.alignment := by
  obtain ⟨e, he, hv⟩ := vsize_pow2 p.toCfg sz N hsz
  have hle := vsize_le_native p.toCfg sz N hsz
  have hfit := native_vector_fits_alignment p sz hsz
  have hnat : p.toCfg.native = p.native := rfl
  rw [hnat] at hle
  have hb : 2 ^ e * sz ≤ p.alignment := by rw [← hv]; exact Nat.le_trans (Nat.mul_le_mul_right _ hle) hfit
  have hal : p.alignment = 64 ∨ p.alignment = 32 ∨ p.alignment = 16 ∨ p.alignment = 8 := by
    unfold Predef.alignment; (repeat' split) <;> simp
  rw [hv]
  have he' : e = 0 ∨ e = 1 ∨ e = 2 ∨ e = 3 ∨ e = 4 ∨ e = 5 ∨ e = 6 := by omega
  rcases hsz with rfl | rfl <;> rcases he' with rfl | rfl | rfl | rfl | rfl | rfl | rfl <;>
    rcases hal with h | h | h | h <;> rw [h] at hb ⊢ <;> first | omega | decide

/-- the seven flag sets the checks compile are monotone predefine sets, and the `Cfg` used by the
    kernel models for each name is the one the ladder derives -/
theorem named_configs_consistent :
    ∀ n ∈ ["scalar", "sse2", "sse42", "avx", "avx2", "avx512f", "avx512"],
      ∃ p, Predef.ofName n = some p ∧ p.Monotone ∧ Cfg.ofName n = some p.toCfg := by
  intro n hn
  simp only [List.mem_cons, List.mem_nil_iff, or_false] at hn
  rcases hn with rfl | rfl | rfl | rfl | rfl | rfl | rfl <;>
    exact ⟨_, rfl, by simp [Predef.Monotone], rfl⟩

/-! ## Operations with a kernel model: the result is the same under every configuration -/

variable {R : Type} [CommSemiring R]

/-- **matmul**: the final contents of the output buffer do not depend on ISA, element size class or
    the block-size macros (`FASTOR_MATMUL_OUTER/INNER_BLOCK_SIZE`). -/
theorem matmul_independent (cfg cfg' : Cfg) (sz sz' M K N : Nat)
    (hsz : sz = 4 ∨ sz = 8 ∨ sz = 16) (hsz' : sz' = 4 ∨ sz' = 8 ∨ sz' = 16) (hN : N < 2 ^ 64)
    (hob : ∀ x, cfg.outerBlock = some x → 0 < x) (hib : ∀ x, cfg.innerBlock = some x → 0 < x)
    (hob' : ∀ x, cfg'.outerBlock = some x → 0 < x) (hib' : ∀ x, cfg'.innerBlock = some x → 0 < x)
    (a b c₀ : Nat → R) (p : Nat) :
    applyWrites (kernelWrites N (val a b K N) (kernel cfg sz M K N).2.2) c₀ p
      = applyWrites (kernelWrites N (val a b K N) (kernel cfg' sz' M K N).2.2) c₀ p :=
  C01.matmul_config_independent cfg cfg' sz sz' M K N hsz hsz' hN hob hib hob' hib' a b c₀ p

/-- **tmatmul** (operands vanishing outside their tagged triangles): same statement. -/
theorem tmatmul_independent (cfg cfg' : Cfg) (lt rt : UpLo) (sz sz' M K N : Nat)
    (hsz : sz = 4 ∨ sz = 8 ∨ sz = 16) (hsz' : sz' = 4 ∨ sz' = 8 ∨ sz' = 16)
    (hob : ∀ x, cfg.outerBlock = some x → 0 < x) (hib : ∀ x, cfg.innerBlock = some x → 0 < x)
    (hob' : ∀ x, cfg'.outerBlock = some x → 0 < x) (hib' : ∀ x, cfg'.innerBlock = some x → 0 < x)
    (a b c₀ : Nat → R) (ha : TriA lt K a) (hb : TriB rt N b) (p : Nat) :
    applyWrites (kernelWrites N (tval a b K N) (tkernel cfg lt rt sz M K N).2.2) c₀ p
      = applyWrites (kernelWrites N (tval a b K N) (tkernel cfg' lt rt sz' M K N).2.2) c₀ p := by
  obtain ⟨h1, h1'⟩ := C17.tmatmul_exact cfg lt rt sz M K N hsz hob hib a b c₀ ha hb
  obtain ⟨h2, h2'⟩ := C17.tmatmul_exact cfg' lt rt sz' M K N hsz' hob' hib' a b c₀ ha hb
  by_cases hp : p < M * N
  · have hNpos : 0 < N := by
      rcases Nat.eq_zero_or_pos N with h0 | h0
      · subst h0; simp at hp
      · exact h0
    have hr : p / N < M := by rw [Nat.div_lt_iff_lt_mul hNpos]; exact hp
    have hc : p % N < N := Nat.mod_lt _ hNpos
    have hpe : p / N * N + p % N = p := by rw [Nat.mul_comm]; exact Nat.div_add_mod p N
    rw [← hpe, h1 _ hr _ hc, h2 _ hr _ hc]
  · rw [h1' p (by omega), h2' p (by omega)]

/-- **element-wise expression assignment** (`=`, `+=`, `-=`, `*=` of any tree): the final contents of
    the destination do not depend on the vector width (hence not on the ISA). -/
theorem assign_independent {α : Type} [Add α] [Sub α] [Mul α] [Neg α]
    (ofInt : Int → α) (env : Nat → Nat → α) (op : Expr.AOp) (dst : Nat → α) (e : Expr.E)
    (n ex ex' : Nat) (hn : n < 2 ^ 64) (hex : ex ≤ 64) (hex' : ex' ≤ 64) (p : Nat) :
    applyWrites (Expr.assignWrites ofInt env op dst e n (2 ^ ex)) dst p
      = applyWrites (Expr.assignWrites ofInt env op dst e n (2 ^ ex')) dst p := by
  have h1 := C02.assign_memory ofInt env op dst e n ex hn hex p
  have h2 := C02.assign_memory ofInt env op dst e n ex' hn hex' p
  by_cases hp : p < n
  · rw [h1.1 hp, h2.1 hp]
  · rw [h1.2 (by omega), h2.2 (by omega)]

/-- **pairwise einsum**: every cell is the same whatever element size decides the stride and whether
    vectorisation is enabled (`FASTOR_DONT_VECTORISE`). -/
theorem einsum_independent (p : Einsum.Pair) (hI : p.I.length = p.dI.length) (hJ : p.J.length = p.dJ.length)
    (sz sz' : Nat) (hsz : 0 < sz ∧ sz ≤ 16) (hsz' : 0 < sz' ∧ sz' ≤ 16) (vec vec' : Bool)
    (a b : Nat → R) (q : Nat) :
    Einsum.accAt a b (p.loopEvents (p.stride sz vec)) q
      = Einsum.accAt a b (p.loopEvents (p.stride sz' vec')) q := by
  rw [C03.loopnest_vectorised_correct p hI hJ sz hsz vec a b q,
      C03.loopnest_vectorised_correct p hI hJ sz' hsz' vec' a b q]

/-! non-vacuity -/
example : PrimSize 4 ∧ PrimSize 8 := ⟨Or.inl rfl, Or.inr rfl⟩
example : ∃ p, Predef.ofName "avx512" = some p ∧ p.native = .avx512 ∧ p.alignment = 64 ∧
    p.toCfg.vsize 4 4 = 4 ∧ p.toCfg.vsize 8 3 = 4 := ⟨_, rfl, by decide, by decide, by decide, by decide⟩
example : ∃ p, Predef.ofName "sse2" = some p ∧ p.native = .sse ∧ p.toCfg.vsize 4 3 = 4 ∧ p.toCfg.vsize 8 1 = 2 :=
  ⟨_, rfl, by decide, by decide, by decide⟩

end Fastor.C06
