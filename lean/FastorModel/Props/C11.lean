import FastorModel.Model.LU
/-
  C11 — LU factorisation.  (theorems are added below as they are proved)
-/
namespace Fastor.C11
open Fastor.LU

/-- both blocks of the blocked size classes are non-empty and strictly smaller: the recursion of `lu_block_dispatcher` is well founded
and never produces an empty tensor -/
theorem blockSplit_bounds (n : Nat) (h : 32 < n) : 16 ≤ blockSplit n ∧ blockSplit n < n ∧ blockSplit n ≤ n - blockSplit n := by
  unfold blockSplit
  split <;> omega

end Fastor.C11
