import FastorModel.Proofs.LUBlock
import FastorModel.Proofs.LUPivot
import Mathlib.Data.Rat.Defs
import Mathlib.Algebra.Order.Field.Rat
/-
  C11 — "For every size and each LU strategy (block, simple, and their pivoted forms with permutation returned as a vector or
  as a matrix), L is unit lower triangular with exact zeros above the diagonal, U is upper triangular with exact zeros below
  it, the returned permutation is a bijection, and L*U equals the permuted input […]. reconstruct(L,U,P) returns the original
  matrix […]."

  The theorems are about `Model/LU.lean`, which transcribes the loops, views, size classes, split points and zero fills of
  backend/lufact.h, unary_lu_op.h and unary_piv_op.h, over ANY field `K` (exact arithmetic: what a wrong index, split, fill or
  swap breaks).  `IsLU n A L U` is the specification (unit diagonal, exact zeros above / below, `L*U = A`).
  The floating-point backward-error bound of the property is outside what is proved (measured by the harness, labelled a test).

  Proved for ALL sizes: the recursive kernel (`lu_recursive_correct`), one block step for every split point (`lu_block_step`),
  the block strategy for every size of the recursive and both blocked classes, n > 8 (`lu_block_correct`, strong induction on
  the size along the dispatch), its pivoted form (`lu_blockPiv_correct`), the permutation (`pivot_perm`, `pivot_matrix`).
  Partial: the two Doolittle loop nests (`lu_simple_dispatcher` for M > 8 and the unrolled `_lufact<T,1..8>`): the algebraic step
  is proved (`lu_simple_correct_partial`: the equations the loops assign force `L*U = A`); that the loop nests establish these
  equations for every n (frame reasoning over the sequence of `set`s) is NOT proved here — the full statement would be
      theorem lu_simple_correct (n) (A : Mat K) (h : every pivot U_jj, j+1<n, of luSimple n A is non-zero) :
          IsLU n A (luSimple n A).1 (luSimple n A).2
  and is tied by the exact correspondence only.  `reconstruct(L,U,P) = A` likewise (tie + oracle only).
-/
namespace Fastor.C11
open Fastor.LU Finset

variable {K : Type} [Field K]

/-- both blocks of the blocked size classes are non-empty and strictly smaller: the recursion of `lu_block_dispatcher` is well
founded, never produces an empty tensor and never reaches the unrolled kernels -/
theorem blockSplit_bounds (n : Nat) (h : 32 < n) : 16 ≤ blockSplit n ∧ blockSplit n < n ∧ blockSplit n ≤ n - blockSplit n := by
  unfold blockSplit
  split <;> omega

/-- `recursive_lu_dispatcher`, every size M ≥ 2, every A on which it is defined (non-zero pivots as met by the recursion),
whatever L and U held before. -/
theorem lu_recursive_correct (n : Nat) (hn : 2 ≤ n) (A L0 U0 : Mat K) (hdef : RecDefined n A) :
    IsLU n A (luRecursive n A L0 U0).1 (luRecursive n A L0 U0).2 :=
  luRecursive_isLU n hn A L0 U0 hdef

/-- one step of `lu_block_dispatcher` for EVERY split point N ≤ n (the code's `(M/8*8)/2` and `(M/16*16)/2` are instances):
if the two sub-factorisations are right and the triangular inverses are inverses, the assembled factors are right; the two
blocks the dispatcher does not write are zero because the destination was zero. -/
theorem lu_block_step (ops : InvOps K) (hops : InvSpec ops) (n N : Nat) (hN : N ≤ n) (A L0 U0 L11 U11 L22 U22 X Y : Mat K)
    (h11 : IsLU N (A.block 0 0 N N) L11 U11) (hd : ∀ i, i < N → U11.get i i ≠ 0)
    (hL0 : ∀ i j, i < n → j < n → i < j → L0.get i j = 0) (hU0 : ∀ i j, i < n → j < n → j < i → U0.get i j = 0)
    (h22 : IsLU (n - N)
      (Mat.sub (n - N) (n - N) (A.block N N (n - N) (n - N))
        (Mat.mul (n - N) N (n - N) (Mat.mul (n - N) N N (A.block N 0 (n - N) N) (ops.invUpper N U11))
          (Mat.mul N N (n - N) (ops.invLower N L11) (A.block 0 N N (n - N))))) L22 U22) :
    IsLU n A
      (assemble n N L0 L11 X (Mat.mul (n - N) N N (A.block N 0 (n - N) N) (ops.invUpper N U11)) L22 false)
      (assemble n N U0 U11 (Mat.mul N N (n - N) (ops.invLower N L11) (A.block 0 N N (n - N))) Y U22 true) :=
  block_step ops hops n N hN A L0 U0 L11 U11 L22 U22 X Y h11 hd hL0 hU0 h22

/-- `lu<LUCompType::BlockLU>(A, L, U)` (`L.fill(0); U.fill(0); lu_block_dispatcher`) for EVERY n > 8 — the recursive class
9..32, the class 33..64 (split `(M/8*8)/2`) and the class > 64 (split `(M/16*16)/2`, sub-dispatch through
`useless::lu_block_simple_dispatcher`) — and every A on which the strategy is defined. -/
theorem lu_block_correct (ops : InvOps K) (hops : InvSpec ops) (gt : K → K → Bool) (n : Nat) (hn : 8 < n) (A : Mat K)
    (hdef : BlockDefined ops n A) :
    IsLU n A (luPublicV ops gt .block n A).L (luPublicV ops gt .block n A).U := by
  simp only [luPublicV, luCore, if_true]
  exact luBlock_isLU ops hops n hn A _ _ (fun i j _ _ _ => get_zero n n i j) (fun i j _ _ _ => get_zero n n i j) hdef

/-- the static pivot: for EVERY input (any comparison `gt`, any matrix) the vector produced by the swap loop of
`pivot_inplace` is a bijection of 0..n-1 -/
theorem pivot_perm {α : Type} [Zero α] (gt : α → α → Bool) (n : Nat) (A : Mat α) :
    (pivotPerm gt n A).size = n ∧ (∀ i, i < n → (pivotPerm gt n A).getD i 0 < n) ∧
    (∀ i j, i < n → j < n → (pivotPerm gt n A).getD i 0 = (pivotPerm gt n A).getD j 0 → i = j) ∧
    (∀ v, v < n → ∃ i, i < n ∧ (pivotPerm gt n A).getD i 0 = v) :=
  pivotPerm_bijection gt n A

/-- the matrix encoding is the permutation matrix of that vector (`P.fill(0)` included: every other entry is an exact zero) -/
theorem pivot_matrix (gt : K → K → Bool) (n : Nat) (A : Mat K) (i j : Nat) (hi : i < n) (hj : j < n) :
    (pivotMat n (pivotPerm gt n A) : Mat K).get i j = if (pivotPerm gt n A).getD i 0 = j then 1 else 0 :=
  pivotMat_get n _ (pivotPerm_bijection gt n A).2.1 i j hi hj

/-- `lu<LUCompType::BlockLUPiv>(A, L, U, p)`, n > 8: `L*U = P*A` with `(P*A)(i,j) = A(p(i), j)`, `p` a bijection. -/
theorem lu_blockPiv_correct (ops : InvOps K) (hops : InvSpec ops) (gt : K → K → Bool) (n : Nat) (hn : 8 < n) (A : Mat K)
    (hdef : BlockDefined ops n (applyPivotV n A (pivotPerm gt n A))) :
    let r := luPublicV ops gt .blockPiv n A
    (∀ i, i < n → r.L.get i i = 1) ∧ (∀ i j, i < n → j < n → i < j → r.L.get i j = 0) ∧
    (∀ i j, i < n → j < n → j < i → r.U.get i j = 0) ∧
    (∀ i j, i < n → j < n → ∑ m ∈ range n, r.L.get i m * r.U.get m j = A.get (r.perm.getD i 0) j) ∧
    (∀ v, v < n → ∃ i, i < n ∧ r.perm.getD i 0 = v) := by
  simp only [luPublicV, luCore, if_true]
  have h := luBlock_isLU ops hops n hn (applyPivotV n A (pivotPerm gt n A)) _ _
    (fun i j _ _ _ => get_zero n n i j) (fun i j _ _ _ => get_zero n n i j) hdef
  refine ⟨h.diag, h.lzero, h.uzero, ?_, (pivotPerm_bijection gt n A).2.2.2⟩
  intro i j hi hj
  rw [h.mul i j hi hj, applyPivotV_get n A _ i j hi hj]

/-- PARTIAL (see the header): the equations assigned by the Doolittle loop nests (`lu_simple_dispatcher`, `_lufact<T,N>`)
force `L*U = A`. -/
theorem lu_simple_correct_partial (n : Nat) (A L U : Mat K)
    (hdiag : ∀ i, i < n → L.get i i = 1)
    (hlz : ∀ i j, i < n → j < n → i < j → L.get i j = 0)
    (huz : ∀ i j, i < n → j < n → j < i → U.get i j = 0)
    (hU : ∀ i j, i < n → j < n → i ≤ j → U.get i j = A.get i j - ∑ k ∈ range i, L.get i k * U.get k j)
    (hL : ∀ i j, i < n → j < n → j < i → L.get i j = (A.get i j - ∑ k ∈ range j, L.get i k * U.get k j) / U.get j j)
    (hpiv : ∀ j, j + 1 < n → U.get j j ≠ 0) : IsLU n A L U :=
  doolittle_equations_isLU n A L U hdiag hlz huz hU hL hpiv

/-! ### non-vacuity: concrete matrices on which the strategies are defined -/
/-- a 9×9 tridiagonal rational matrix (the smallest size of the recursive class) -/
def exA : Mat ℚ := Mat.ofFn 9 9 fun i j => if i = j then 4 else if i + 1 = j ∨ j + 1 = i then 1 else 0
/-- the same with rows 0 and 1 exchanged: the static pivot has to swap -/
def exB : Mat ℚ := Mat.ofFn 9 9 fun i j => exA.get (if i = 0 then 1 else if i = 1 then 0 else i) j
def exGt (a b : ℚ) : Bool := decide (b * b < a * a)

instance (n : Nat) (A : Mat ℚ) : Decidable (RecDefined n A) := by unfold RecDefined; infer_instance

example : RecDefined 9 exA := by decide +kernel
example : BlockDefined (execOps : InvOps ℚ) 9 exA := by
  rw [BlockDefined, dif_neg (by decide), dif_pos (by decide)]
  decide +kernel
example : (pivotPerm exGt 9 exB).toList = [1, 0, 2, 3, 4, 5, 6, 7, 8] := by decide +kernel
example : BlockDefined (execOps : InvOps ℚ) 9 (applyPivotV 9 exB (pivotPerm exGt 9 exB)) := by
  rw [BlockDefined, dif_neg (by decide), dif_pos (by decide)]
  decide +kernel

end Fastor.C11
