import FastorModel.Proofs.LUReconstruct
import FastorModel.Proofs.LUInv
import FastorModel.Proofs.LUExport
import Mathlib.Data.Rat.Defs
import Mathlib.Algebra.Order.Field.Rat
/-
  C11 — "For every size and each LU strategy (block, simple, and their pivoted forms with permutation returned as a vector or
  as a matrix), L is unit lower triangular with exact zeros above the diagonal, U is upper triangular with exact zeros below
  it, the returned permutation is a bijection, and L*U equals the permuted input […]. reconstruct(L,U,P) returns the original
  matrix […]."

  The theorems are about `Model/LU.lean`, which transcribes the loops, static views, size classes, split points and zero fills
  of backend/lufact.h, unary_lu_op.h and unary_piv_op.h, over ANY field `K` (exact arithmetic: what a wrong index, split, fill
  or swap breaks), for EVERY size n.  `IsLU n A L U` is the specification: unit diagonal, exact zeros above (L) / below (U)
  the diagonal, `L*U = A`.  `LUDefined` says that the pivots the chosen strategy divides by are non-zero (defined by running
  the model itself, i.e. "non-zero pivots as met by the strategy").

  `tinverse` / `tmatmul` / `matmul` enter as their exact results (hypothesis `InvSpec`, discharged by C10 / C17 / C01).
  The floating-point backward-error bound of the property is outside what is proved (measured by the harness, labelled a test).
-/
namespace Fastor.C11
open Fastor.LU Finset

variable {K : Type} [Field K]

/-- both blocks of the blocked size classes are non-empty and strictly smaller: the recursion of `lu_block_dispatcher` is well
founded, never produces an empty tensor and never reaches the unrolled kernels -/
theorem blockSplit_bounds (n : Nat) (h : 32 < n) : 16 ≤ blockSplit n ∧ blockSplit n < n ∧ blockSplit n ≤ n - blockSplit n := by
  unfold blockSplit
  split <;> omega

/-- the unrolled kernels `_lufact<T,N>` (the code has N = 1..8; the pattern is right for every N) -/
theorem lufact_unrolled_correct (n : Nat) (A : Mat K) (hdef : UnrolledDefined n A) :
    IsLU n A (lufactUnrolled n A).1 (lufactUnrolled n A).2 := lufactUnrolled_isLU n A hdef

/-- `lu_simple_dispatcher` for M > 8: the Doolittle loop nest, every size -/
theorem lu_simple_loops_correct (n : Nat) (A : Mat K) (hdef : SimpleDefined n A) :
    IsLU n A (luSimpleLoops n A).1 (luSimpleLoops n A).2 := luSimpleLoops_isLU n A hdef

/-- `recursive_lu_dispatcher`, every size M ≥ 2, whatever L and U held before -/
theorem lu_recursive_correct (n : Nat) (hn : 2 ≤ n) (A L0 U0 : Mat K) (hdef : RecDefined n A) :
    IsLU n A (luRecursive n A L0 U0).1 (luRecursive n A L0 U0).2 :=
  luRecursive_isLU n hn A L0 U0 hdef

/-- one step of `lu_block_dispatcher` for EVERY split point N ≤ n (the code's `(M/8*8)/2` and `(M/16*16)/2` are instances):
if the two sub-factorisations are right and the triangular inverses are inverses, the assembled factors are right; the two
blocks the dispatcher does not write are zero because the destination was zero. -/
theorem lu_block_step (ops : InvOps K) (hops : InvSpec ops) (n N : Nat) (hN : N ≤ n) (A L0 U0 L11 U11 L22 U22 X Y : Mat K)
    (h11 : IsLU N (A.block 0 0 N N) L11 U11) (hd : ∀ i, i < N → U11.get i i ≠ 0)
    (hL0 : ∀ i j, i < n → j < n → i < j → L0.get i j = 0) (hU0 : ∀ i j, i < n → j < n → j < i → U0.get i j = 0)
    (h22 : IsLU (n - N)
      (Mat.sub (n - N) (n - N) (A.block N N (n - N) (n - N))
        (Mat.mul (n - N) N (n - N) (Mat.mul (n - N) N N (A.block N 0 (n - N) N) (ops.invUpper N U11))
          (Mat.mul N N (n - N) (ops.invLower N L11) (A.block 0 N N (n - N))))) L22 U22) :
    IsLU n A
      (assemble n N L0 L11 X (Mat.mul (n - N) N N (A.block N 0 (n - N) N) (ops.invUpper N U11)) L22 false)
      (assemble n N U0 U11 (Mat.mul N N (n - N) (ops.invLower N L11) (A.block 0 N N (n - N))) Y U22 true) :=
  block_step ops hops n N hN A L0 U0 L11 U11 L22 U22 X Y h11 hd hL0 hU0 h22

/-- the factorisation kernel behind each public strategy, EVERY n: `L.fill(0); U.fill(0); lu_block_dispatcher` (unrolled 1..8,
recursive 9..32, blocked 33..64 with split `(M/8*8)/2`, blocked > 64 with split `(M/16*16)/2` and the sub-dispatch of
`useless::lu_block_simple_dispatcher`) and `lu_simple_dispatcher` (unrolled 1..8, Doolittle loops above) -/
theorem lu_core_correct (ops : InvOps K) (hops : InvSpec ops) (blk : Bool) (n : Nat) (A : Mat K) (hdef : CoreDefined ops blk n A) :
    IsLU n A (luCore ops blk n A).1 (luCore ops blk n A).2 :=
  Fastor.LU.lu_core_correct ops hops blk n A hdef

/-- the static pivot: for EVERY input (any comparison `gt`, any matrix) the vector produced by the swap loop of
`pivot_inplace` is a bijection of 0..n-1 -/
theorem pivot_perm {α : Type} [Zero α] (gt : α → α → Bool) (n : Nat) (A : Mat α) :
    (pivotPerm gt n A).size = n ∧ (∀ i, i < n → (pivotPerm gt n A).getD i 0 < n) ∧
    (∀ i j, i < n → j < n → (pivotPerm gt n A).getD i 0 = (pivotPerm gt n A).getD j 0 → i = j) ∧
    (∀ v, v < n → ∃ i, i < n ∧ (pivotPerm gt n A).getD i 0 = v) :=
  pivotPerm_bijection gt n A

/-- the matrix encoding is the permutation matrix of that vector (`P.fill(0)` included: every other entry is an exact zero) -/
theorem pivot_matrix (gt : K → K → Bool) (n : Nat) (A : Mat K) (i j : Nat) (hi : i < n) (hj : j < n) :
    (pivotMat n (pivotPerm gt n A) : Mat K).get i j = if (pivotPerm gt n A).getD i 0 = j then 1 else 0 :=
  pivotMat_get n _ (pivotPerm_bijection gt n A).2.1 i j hi hj

/-- **lu_correct** — `lu<LUCompType::S>(A, L, U[, p])` for EVERY strategy S (BlockLU, SimpleLU, BlockLUPiv, SimpleLUPiv), EVERY
size n and every A on which S is defined: L unit lower triangular with exact zeros above the diagonal, U upper triangular with
exact zeros below it, `L*U = P*A` (`(P*A)(i,j) = A(p(i),j)`; p = identity for the unpivoted strategies), p a bijection. -/
theorem lu_correct (ops : InvOps K) (hops : InvSpec ops) (gt : K → K → Bool) (s : Strategy) (n : Nat) (A : Mat K)
    (hdef : LUDefined ops gt s n A) :
    let r := luPublicV ops gt s n A
    (∀ i, i < n → r.L.get i i = 1) ∧ (∀ i j, i < n → j < n → i < j → r.L.get i j = 0) ∧
    (∀ i j, i < n → j < n → j < i → r.U.get i j = 0) ∧
    (∀ i j, i < n → j < n → ∑ m ∈ range n, r.L.get i m * r.U.get m j = A.get (r.perm.getD i 0) j) ∧
    (∀ i, i < n → r.perm.getD i 0 < n) ∧
    (∀ i j, i < n → j < n → r.perm.getD i 0 = r.perm.getD j 0 → i = j) ∧
    (∀ v, v < n → ∃ i, i < n ∧ r.perm.getD i 0 = v) :=
  Fastor.LU.lu_correct ops hops gt s n A hdef

/-- the matrix encoding (`lu(A, L, U, Tensor<T,M,M>& P)`): `pivot_inplace` stores the permutation matrix, `apply_pivot` reads it
back with `std::find`, and the factors are THE SAME as with the vector encoding; so `lu_correct` covers both encodings. -/
theorem lu_matrix_encoding (ops : InvOps K) (gt : K → K → Bool) (isOne : K → Bool) (h1 : isOne 1 = true) (h0 : isOne 0 = false)
    (s : Strategy) (hs : s.pivoted = true) (n : Nat) (A : Mat K) :
    (luPublicM ops gt isOne s n A).L = (luPublicV ops gt s n A).L ∧ (luPublicM ops gt isOne s n A).U = (luPublicV ops gt s n A).U ∧
    (luPublicM ops gt isOne s n A).perm = (luPublicV ops gt s n A).perm ∧
    ∀ i j, i < n → j < n → (luPublicM ops gt isOne s n A).P.get i j = if (luPublicV ops gt s n A).perm.getD i 0 = j then 1 else 0 := by
  have pb := pivotPerm_bijection gt n A
  have e := applyPivotM_eq isOne h1 h0 n A (pivotPerm gt n A) pb.2.1
  cases s with
  | block => simp [Strategy.pivoted] at hs
  | simple => simp [Strategy.pivoted] at hs
  | blockPiv =>
    refine ⟨by simp [luPublicM, luPublicV, e], by simp [luPublicM, luPublicV, e], by simp [luPublicM, luPublicV], ?_⟩
    intro i j hi hj
    simp only [luPublicM, luPublicV]
    exact pivotMat_get n _ pb.2.1 i j hi hj
  | simplePiv =>
    have hb : (Strategy.simplePiv == Strategy.blockPiv || Strategy.simplePiv == Strategy.block) = false := by decide
    refine ⟨by simp [luPublicM, luPublicV, e, hb], by simp [luPublicM, luPublicV, e, hb], by simp [luPublicM, luPublicV], ?_⟩
    intro i j hi hj
    simp only [luPublicM, luPublicV]
    exact pivotMat_get n _ pb.2.1 i j hi hj

/-- **reconstruct_correct** — `reconstruct(L, U, p)` returns the original matrix, every strategy, every size -/
theorem reconstruct_correct (ops : InvOps K) (hops : InvSpec ops) (gt : K → K → Bool) (s : Strategy) (n : Nat) (A : Mat K)
    (hdef : LUDefined ops gt s n A) (r j : Nat) (hr : r < n) (hj : j < n) :
    (reconstructV n (luPublicV ops gt s n A).L (luPublicV ops gt s n A).U (luPublicV ops gt s n A).perm).get r j = A.get r j := by
  obtain ⟨h1, h2, h3, h4, h5, h6, h7⟩ := lu_correct ops hops gt s n A hdef
  obtain ⟨i, hi, e⟩ := h7 r hr
  rw [← e, reconstructV_get n _ _ _ h5 h6 h7 i j hi hj, get_mul _ _ _ _ _ _ _ hi hj, h4 i j hi hj]

/-- the matrix form of `reconstruct` reads the same permutation back -/
theorem reconstruct_matrix_encoding (isOne : K → Bool) (h1 : isOne 1 = true) (h0 : isOne 0 = false) (n : Nat) (L U : Mat K)
    (perm : Array Nat) (hlt : ∀ i, i < n → perm.getD i 0 < n) :
    reconstructM isOne n L U (pivotMat n perm : Mat K) = reconstructV n L U perm := by
  unfold reconstructM reconstructV
  apply List.foldl_ext
  intro M i hi
  rw [findOne_pivotMat isOne h1 h0 n perm hlt i (List.mem_range.1 hi)]

/-- the triangular inverses that `fmodel` executes ARE inverses: `InvSpec` is not vacuous, and the model run in the
correspondence is an instance of the model the theorems speak about -/
theorem exec_ops_spec : InvSpec (execOps : InvOps K) := execOps_spec

/-- `lu_correct` for the executed model (no hypothesis on the inverses left) -/
theorem lu_correct_exec (gt : K → K → Bool) (s : Strategy) (n : Nat) (A : Mat K)
    (hdef : LUDefined (execOps : InvOps K) gt s n A) (i j : Nat) (hi : i < n) (hj : j < n) :
    ∑ m ∈ range n, (luPublicV execOps gt s n A).L.get i m * (luPublicV execOps gt s n A).U.get m j =
      A.get ((luPublicV execOps gt s n A).perm.getD i 0) j :=
  (lu_correct execOps execOps_spec gt s n A hdef).2.2.2.1 i j hi hj

/-! ### non-vacuity: concrete matrices on which the strategies are defined -/
/-- a 9×9 tridiagonal rational matrix (the smallest size of the recursive class) -/
def exA : Mat ℚ := Mat.ofFn 9 9 fun i j => if i = j then 4 else if i + 1 = j ∨ j + 1 = i then 1 else 0
/-- the same with rows 0 and 1 exchanged: the static pivot has to swap -/
def exB : Mat ℚ := Mat.ofFn 9 9 fun i j => exA.get (if i = 0 then 1 else if i = 1 then 0 else i) j
/-- a 3×3 matrix for the unrolled kernels -/
def exC : Mat ℚ := Mat.ofFn 3 3 fun i j => if i = j then 3 else 1
def exGt (a b : ℚ) : Bool := decide (b * b < a * a)

instance (n : Nat) (A : Mat ℚ) : Decidable (RecDefined n A) := by unfold RecDefined; infer_instance
instance (n : Nat) (A : Mat ℚ) : Decidable (SimpleDefined n A) := by unfold SimpleDefined; infer_instance
instance (n : Nat) (A : Mat ℚ) : Decidable (UnrolledDefined n A) :=
  decidable_of_iff (∀ s, s < n - 1 → (unrolledState n A (s + 1)).2.get s s ≠ 0)
    ⟨fun h s hs => h s (by omega), fun h s hs => h s (by omega)⟩

example : RecDefined 9 exA := by decide +kernel
example : SimpleDefined 9 exA := by decide +kernel
example : UnrolledDefined 3 exC := by decide +kernel
example : LUDefined (execOps : InvOps ℚ) exGt .block 9 exA := by
  unfold LUDefined CoreDefined
  simp only [blocked, Strategy.pivoted, if_true, Bool.false_eq_true, if_false]
  rw [BlockDefined, dif_neg (by decide), dif_pos (by decide)]
  decide +kernel
example : (pivotPerm exGt 9 exB).toList = [1, 0, 2, 3, 4, 5, 6, 7, 8] := by decide +kernel
example : LUDefined (execOps : InvOps ℚ) exGt .blockPiv 9 exB := by
  unfold LUDefined CoreDefined
  simp only [blocked, Strategy.pivoted, if_true]
  rw [BlockDefined, dif_neg (by decide), dif_pos (by decide)]
  decide +kernel
example : LUDefined (execOps : InvOps ℚ) exGt .simplePiv 9 exB := by
  unfold LUDefined CoreDefined
  simp only [blocked, Strategy.pivoted, if_true, Bool.false_eq_true, if_false]
  decide +kernel

end Fastor.C11
