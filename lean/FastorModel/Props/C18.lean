import FastorModel.Model.ViewAlias
import FastorModel.Proofs.ViewWrite
import FastorModel.Props.C05
/-
  C18 — overlapping slice assignment with noalias() acts on a snapshot of the source.

  Model: `Model/ViewAlias.lean` (`ViewObj` with the `_does_alias` flag, `guardedAssign` = copy the parent,
  assign into a view of the copy, `op=` the copy's view into the real view; `step`/`runHist` = histories on a
  stored view object) over the write model of C05 (`Model/ViewWrite.lean`), in which every iteration reads
  the CURRENT memory, so an unguarded overlapping assignment really shows the traversal-dependent result.

  The hypotheses `hnd`/`hd` ("the stored positions are pairwise distinct and lane j is stored at dpos j") are
  discharged for the 1-D classes (`noalias_snapshot_1d`) and the n-D classes of every rank (`noalias_snapshot_nd`, via
  the odometer enumeration of Proofs/Odometer.lean) and the 2-D classes (`noalias_snapshot_2d`).

  * `noalias_snapshot`         guarded assignment = evaluate the WHOLE right-hand side on the original contents,
                               then update: every selected element is `op(old, rhs(old) j)`, the rest is unchanged;
                               whatever the right-hand side reads (any overlap, any operator).
  * `perfect_overlap_no_flag`  without the flag, if the right-hand side reads the destination tensor only at the
                               element's own position (source and destination coincide exactly), the in-order
                               path gives the same result.
  * `flag_one_shot`            history theorem: on a view object whose class honours the flag, `noalias()` before
                               statement 0 sends exactly that statement through the copy; all later statements
                               (without a new `noalias()`) take the plain path.  `flag_cleared`, `scalar_keeps_flag`
                               (the scalar overloads neither test nor clear it), `ignored_flag` (classes that store
                               the flag but never test it always take the plain path).
-/
namespace Fastor.C18
open Fastor Fastor.ViewWrite Fastor.ViewAlias

variable {α : Type} [Add α] [Sub α] [Mul α] [Div α]

/-- **noalias_snapshot** -/
theorem noalias_snapshot (op : WOp) (its1 its2 : List Iter) (dpos : Nat → Nat) (r : Rhs α) (m : Nat → α)
    (hnd1 : ((lanesOf its1).map (·.1)).Nodup) (hnd2 : ((lanesOf its2).map (·.1)).Nodup)
    (hd2 : ∀ l ∈ lanesOf its2, dpos l.2 = l.1)
    (hsame : ∀ l ∈ lanesOf its2, l ∈ lanesOf its1) :
    (∀ l ∈ lanesOf its2, guardedAssign op its1 its2 dpos r m l.1 = op.ap (m l.1) (r.val m l.2)) ∧
    (∀ p, p ∉ (lanesOf its2).map (·.1) → guardedAssign op its1 its2 dpos r m p = m p) := by
  unfold guardedAssign
  have h1 := exec_spec .set (r.val m) its1 m hnd1
  have h2 := exec_spec op (fun j => exec .set (fun _ j => r.val m j) its1 m (dpos j)) its2 m hnd2
  refine ⟨?_, h2.2⟩
  intro l hl
  rw [h2.1 l hl, hd2 l hl]
  have := h1.1 l (hsame l hl)
  simp only [WOp.ap] at this
  rw [this]

/-- non-vacuity: `A(seq(1,4)).noalias() += A(seq(0,3))` on 5 integers, width 2: the shifted source is read
    from the original contents -/
example : (List.range 5).map (guardedAssign .add (linIters 2 false ⟨1, 1, 3⟩) (linIters 2 false ⟨1, 1, 3⟩)
      (fun j => j + 1) ⟨false, fun m j => m j⟩ (fun p => (10 : Int) * p)) = [0, 10, 30, 50, 40] := by decide

/-- the same statement WITHOUT the guard under width 2 differs (the hazard the property is about):
    `A(seq(1,4)) += A(seq(0,3))` in order -/
example : (List.range 5).map (exec .add (fun m j => m j) (linIters 2 false ⟨1, 1, 3⟩) (fun p => (10 : Int) * p))
    = [0, 10, 30, 60, 40] := by decide

/-- **perfect_overlap_no_flag** -/
theorem perfect_overlap_no_flag (op : WOp) (its : List Iter) (g : α → Nat → α) (dpos : Nat → Nat) (m : Nat → α)
    (hnd : ((lanesOf its).map (·.1)).Nodup) (hd : ∀ l ∈ lanesOf its, dpos l.2 = l.1) :
    let rhs : (Nat → α) → Nat → α := fun mm j => g (mm (dpos j)) j
    (∀ l ∈ lanesOf its, exec op rhs its m l.1 = op.ap (m l.1) (g (m l.1) l.2)) ∧
    (∀ p, p ∉ (lanesOf its).map (·.1) → exec op rhs its m p = m p) := by
  intro rhs
  have h := exec_spec_local op rhs its m hnd (by
    intro m1 m2 l hl he
    show g (m1 (dpos l.2)) l.2 = g (m2 (dpos l.2)) l.2
    rw [hd l hl, he])
  refine ⟨?_, h.2⟩
  intro l hl
  rw [h.1 l hl]
  show op.ap (m l.1) (g (m (dpos l.2)) l.2) = _
  rw [hd l hl]

/-- and therefore equals the guarded result for the same right-hand side -/
theorem perfect_overlap_eq_guarded (op : WOp) (its : List Iter) (g : α → Nat → α) (dpos : Nat → Nat) (m : Nat → α)
    (hnd : ((lanesOf its).map (·.1)).Nodup) (hd : ∀ l ∈ lanesOf its, dpos l.2 = l.1) :
    exec op (fun mm j => g (mm (dpos j)) j) its m =
      guardedAssign op its its dpos ⟨false, fun mm j => g (mm (dpos j)) j⟩ m := by
  funext p
  have h1 := perfect_overlap_no_flag op its g dpos m hnd hd
  have h2 := noalias_snapshot op its its dpos ⟨false, fun mm j => g (mm (dpos j)) j⟩ m hnd hnd hd (fun _ h => h)
  by_cases hp : p ∈ (lanesOf its).map (·.1)
  · obtain ⟨l, hl, rfl⟩ := List.mem_map.1 hp
    rw [h1.1 l hl, h2.1 l hl]
    show _ = op.ap (m l.1) (g (m (dpos l.2)) l.2)
    rw [hd l hl]
  · rw [h1.2 p hp, h2.2 p hp]

example : (List.range 5).map (exec .mul (fun m j => m (j + 1) + 1) (linIters 2 true ⟨1, 1, 3⟩) (fun p => (p : Int)))
    = [0, 2, 6, 12, 4] := by decide

/-! ### the hypotheses discharged for the view classes -/

/-- **noalias_snapshot, 1-D views** (dynamic and fixed): all extents, steps, widths, macro settings, operators and
    right-hand sides (reading the destination tensor anywhere) -/
theorem noalias_snapshot_1d (e : Nat) (he : e ≤ 64) (vea : Bool) (a : Ax) (hn : a.ext < 2 ^ 64) (hs : 0 < a.step)
    (op : WOp) (r : Rhs α) (m : Nat → α) :
    let its := linIters (2 ^ e) vea a
    let m' := guardedAssign op its its (fun j => j * a.step + a.first) r m
    (∀ k < a.ext, m' (k * a.step + a.first) = op.ap (m (k * a.step + a.first)) (r.val m k)) ∧
    (∀ p, (∀ k < a.ext, p ≠ k * a.step + a.first) → m' p = m p) := by
  intro its m'
  have hl : lanesOf its = (List.range a.ext).map fun k => (0 + (k * a.step + a.first), 0 + k) := seg_lanes e he vea .rmw 0 0 a hn
  have hnd : ((lanesOf its).map (·.1)).Nodup := by rw [hl]; exact C05.run_nodup 0 a.first a.step a.ext hs
  have hd : ∀ l ∈ lanesOf its, (fun j => j * a.step + a.first) l.2 = l.1 := by
    intro l hl'
    rw [hl] at hl'
    obtain ⟨k, _, rfl⟩ := List.mem_map.1 hl'
    simp
  have h := noalias_snapshot op its its (fun j => j * a.step + a.first) r m hnd hnd hd (fun _ h => h)
  refine ⟨?_, ?_⟩
  · intro k hk
    have hmem : (0 + (k * a.step + a.first), 0 + k) ∈ lanesOf its := by
      rw [hl]; exact List.mem_map.2 ⟨k, List.mem_range.2 hk, rfl⟩
    simpa using h.1 _ hmem
  · intro p hp
    apply h.2
    rw [hl]
    intro hin
    simp only [List.map_map, List.mem_map, List.mem_range, Function.comp] at hin
    obtain ⟨k, hk, hkp⟩ := hin
    exact hp k hk (by omega)

/-- **noalias_snapshot, 2-D views** (dynamic and fixed) -/
theorem noalias_snapshot_2d (e : Nat) (he : e ≤ 64) (vea : Bool) (N : Nat) (a0 a1 : Ax) (hn : a1.ext < 2 ^ 64)
    (hs0 : 0 < a0.step) (hs1 : 0 < a1.step) (hin : ∀ k < a1.ext, k * a1.step + a1.first < N) (he1 : 0 < a1.ext)
    (op : WOp) (r : Rhs α) (m : Nat → α) :
    let its := rowIters (2 ^ e) vea N a0 a1
    let pos := fun i k => (a0.step * i + a0.first) * N + (k * a1.step + a1.first)
    let m' := guardedAssign op its its (fun j => pos (j / a1.ext) (j % a1.ext)) r m
    (∀ i < a0.ext, ∀ k < a1.ext, m' (pos i k) = op.ap (m (pos i k)) (r.val m (i * a1.ext + k))) ∧
    (∀ p, (∀ i < a0.ext, ∀ k < a1.ext, p ≠ pos i k) → m' p = m p) := by
  intro its pos m'
  have hl := C05.row_lanes e he vea N a0 a1 hn
  have hnd : ((lanesOf its).map (·.1)).Nodup := by rw [hl]; exact C05.row_nodup N a0 a1 hs0 hs1 hin
  have hd : ∀ l ∈ lanesOf its, (fun j => pos (j / a1.ext) (j % a1.ext)) l.2 = l.1 := by
    intro l hl'
    rw [hl] at hl'
    obtain ⟨i, _, hl''⟩ := List.mem_flatMap.1 hl'
    obtain ⟨k, hk, rfl⟩ := List.mem_map.1 hl''
    have hk' := List.mem_range.1 hk
    show pos ((i * a1.ext + k) / a1.ext) ((i * a1.ext + k) % a1.ext) = _
    have h1 : (i * a1.ext + k) / a1.ext = i := by
      rw [Nat.mul_comm, Nat.mul_add_div he1, Nat.div_eq_of_lt hk', Nat.add_zero]
    have h2 : (i * a1.ext + k) % a1.ext = k := by
      rw [Nat.mul_comm, Nat.mul_add_mod, Nat.mod_eq_of_lt hk']
    rw [h1, h2]
  have h := noalias_snapshot op its its (fun j => pos (j / a1.ext) (j % a1.ext)) r m hnd hnd hd (fun _ h => h)
  refine ⟨?_, ?_⟩
  · intro i hi k hk
    have hmem : (pos i k, i * a1.ext + k) ∈ lanesOf its := by
      rw [hl]
      exact List.mem_flatMap.2 ⟨i, List.mem_range.2 hi, List.mem_map.2 ⟨k, List.mem_range.2 hk, rfl⟩⟩
    exact h.1 _ hmem
  · intro p hp
    apply h.2
    rw [hl]
    intro hmem
    simp only [List.map_flatMap, List.mem_flatMap, List.map_map, List.mem_map, List.mem_range, Function.comp] at hmem
    obtain ⟨i, hi, k, hk, hkp⟩ := hmem
    exact hp i hi k hk hkp.symm
/-- **noalias_snapshot, n-D views of every rank** (the odometer classes), `dpos` being any function that maps the flat
    index of a multi-index of the slice to its position (the copy's view is read back through the same index map) -/
theorem noalias_snapshot_nd (V : Nat) (hV : 0 < V) (dims : List Nat) (axs : List Ax) (hne : axs ≠ [])
    (hin : C05.InBounds dims axs) (hlen : dims.length = axs.length) (hext : ∀ a ∈ axs, 0 < a.ext)
    (dpos : Nat → Nat) (hdpos : ∀ j ∈ box ((axs.map (·.ext)).map fun e => (e, 1)), dpos (flat (axs.map (·.ext)) j) = posOf dims axs j)
    (op : WOp) (r : Rhs α) (m : Nat → α) :
    let its := odoIters V dims axs false V
    let m' := guardedAssign op its its dpos r m
    (∀ j ∈ box ((axs.map (·.ext)).map fun e => (e, 1)),
        m' (posOf dims axs j) = op.ap (m (posOf dims axs j)) (r.val m (flat (axs.map (·.ext)) j))) ∧
    (∀ p, (∀ j ∈ box ((axs.map (·.ext)).map fun e => (e, 1)), p ≠ posOf dims axs j) → m' p = m p) := by
  intro its m'
  have hl := odo_lanes V hV dims axs hne hlen hext V (Or.inl rfl)
  rw [incs_one] at hl
  have hnd : ((lanesOf its).map (·.1)).Nodup := by
    rw [hl, List.map_map]
    have := C05.pos_nodup dims axs hin 0
    simpa [Function.comp_def] using this
  have hd : ∀ l ∈ lanesOf its, dpos l.2 = l.1 := by
    intro l hl'
    rw [hl] at hl'
    obtain ⟨j, hj, rfl⟩ := List.mem_map.1 hl'
    exact hdpos j (by simpa [List.map_map] using hj)
  have h := noalias_snapshot op its its dpos r m hnd hnd hd (fun _ h => h)
  refine ⟨?_, ?_⟩
  · intro j hj
    have hmem : (posOf dims axs j, flat (axs.map (·.ext)) j) ∈ lanesOf its := by
      rw [hl]; exact List.mem_map.2 ⟨j, by simpa [List.map_map] using hj, rfl⟩
    exact h.1 _ hmem
  · intro p hp
    apply h.2
    rw [hl]
    intro hmem
    simp only [List.map_map, List.mem_map, Function.comp] at hmem
    obtain ⟨j, hj, hjp⟩ := hmem
    exact hp j (by simpa [List.map_map] using hj) hjp.symm

/-! ### the flag is one-shot -/

theorem flag_cleared (v : ViewObj) (hh : v.honours = true) : (v.noalias.after false).flag = false := by
  simp [ViewObj.after, ViewObj.takesGuardedPath, ViewObj.noalias, hh]

theorem scalar_keeps_flag (v : ViewObj) : v.after true = v := by
  simp [ViewObj.after, ViewObj.takesGuardedPath]

theorem ignored_flag (v : ViewObj) (hh : v.honours = false) (s : Bool) : v.takesGuardedPath s = false := by
  simp [ViewObj.takesGuardedPath, hh]

/-- statements that do not call `noalias()` and are run on an object whose flag is clear take the plain path
    and leave the flag clear -/
theorem plain_run (its1 its2 : List Iter) (dpos : Nat → Nat) (v : ViewObj) (hf : v.flag = false) (m : Nat → α)
    (h : List (Stmt α)) (hna : ∀ s ∈ h, s.na = false) :
    runHist its1 its2 dpos v m h = (v, h.foldl (fun m s => assign s.op its1 s.r m) m) := by
  unfold runHist
  induction h generalizing m with
  | nil => rfl
  | cons s h ih =>
    simp only [List.foldl_cons]
    have hs : s.na = false := hna s (by simp)
    have hstep : step its1 its2 dpos (v, m) s = (v, assign s.op its1 s.r m) := by
      simp [step, hs, ViewObj.takesGuardedPath, ViewObj.after, hf]
    rw [hstep]
    exact ih _ (fun s' hs' => hna s' (List.mem_cons_of_mem _ hs'))

/-- **flag_one_shot**: `v.noalias()` followed by a history whose first statement has a tensor-valued right-hand
    side and in which `noalias()` is not called again: the first statement — and only it — goes through the copy -/
theorem flag_one_shot (its1 its2 : List Iter) (dpos : Nat → Nat) (v : ViewObj) (hh : v.honours = true) (m : Nat → α)
    (s : Stmt α) (hs : s.scalarRhs = false) (h : List (Stmt α)) (hna : ∀ s' ∈ h, s'.na = false) :
    runHist its1 its2 dpos v.noalias m (s :: h) =
      ({ v with flag := false },
        h.foldl (fun m s => assign s.op its1 s.r m) (guardedAssign s.op its1 its2 dpos s.r m)) := by
  have hstep : step its1 its2 dpos (v.noalias, m) s = ({ v with flag := false }, guardedAssign s.op its1 its2 dpos s.r m) := by
    cases hsn : s.na <;> simp [step, hsn, hs, ViewObj.takesGuardedPath, ViewObj.after, ViewObj.noalias, hh]
  have := plain_run its1 its2 dpos { v with flag := false } rfl (guardedAssign s.op its1 its2 dpos s.r m) h hna
  unfold runHist at this ⊢
  simp only [List.foldl_cons, hstep]
  exact this

example : ∃ s : Stmt Int, s.scalarRhs = false := ⟨⟨false, false, .add, ⟨false, fun m j => m j⟩⟩, rfl⟩

end Fastor.C18
