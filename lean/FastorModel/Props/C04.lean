import FastorModel.Proofs.ViewsOdo
import FastorModel.Proofs.ViewsIseq
import FastorModel.Props.C02
/-
# C04 — Reading through an index or a slice returns exactly the selected elements

Property: scalar indexing `A(i0,...,ik)` denotes the row-major element with each negative index counted
from the end, and a slice built from any mixture of dynamic ranges, compile-time ranges, immediate
ranges, all/first/last and fixed integers denotes the tensor of extent `ceil((last-first)/step)` per axis
whose element `(j0,...,jk)` is `A(first0+j0*step0,...)`.  Evaluating a slice, alone or inside any
expression, yields exactly those elements in that order for every admissible range.

Reading of the statements (the model is `FastorModel/Model/Views.lean`, a transcription of Ranges.h,
IndexRetriever.h, BlockIndexing.h, the six view headers, `vector_setter`, `trivial_assign` and the
specialised constructors; every evaluator returns the *parent offsets* it reads, one per lane):

* `Enc` is what a user writes on one axis; `Enc.Adm n` says when that is a documented range on an axis of
  extent `n`; `Enc.first/count/step` is its documented meaning.  Spellings outside `Enc.Adm` are not judged.
* `rowMajor dims idx` is the offset of the element with multi-index `idx` (Horner form); `InRange dims idx`
  says `idx` is a multi-index below `dims`.
* `specOff pdims axs j` = `rowMajor pdims (first_k + j_k*step_k)_k`: the documented parent offset of
  element `j` of the slice — this is the specification; `flatIdx`, `unflat`, `odoInc`, the routes and the
  loops are the code.
* `View.WF`: the view class matches the rank (what overload resolution of `operator()` guarantees).
* consumer theorems use `WritesExactly ws D f` (Core/Writes.lean): the stores stay inside `D`, every
  position of `D` is stored to, and the last store to `p ∈ D` is `f p` — here `f p` is the parent offset
  whose element lands at result position `p`.

Not in these theorems (tied by the correspondence runs only): expressions mixing several
views (each leaf is covered; the node-wise combination is C02), and that the real `SIMDVector` load / `set` /
store are lane-wise (C08; here the symbolic runs use an ideal vector and the real types run against the oracle).
-/
namespace Fastor.C04
open Fastor Fastor.Views

/-- **the fixed views normalise exactly like the dynamic 2-D / n-D views** ("same logic as seq", Ranges.h) -/
theorem toPositive_eq_normN (N : Int) (s : Seq) : toPositive N s = normN N s :=
  Views.toPositive_eq_normN N s

/-- **extent**: for a forward range the number `seq::size()` / `range_detector` computes with truncating
    `/` and `%` is `ceil((last-first)/step)`: the unique `k` with `(k-1)*step < last-first <= k*step` -/
theorem size_eq_ceil (s : Seq) (hs : 0 < s.step) (hfl : s.first ≤ s.last) :
    (s.size - 1) * s.step < s.last - s.first ∧ s.last - s.first ≤ s.size * s.step ∧ 0 ≤ s.size :=
  Views.size_spec s hs hfl

example : (Views.Seq.mk 1 8 3).size = 3 := by decide

/-- **normalisation (2-D, n-D and fixed views)**: every admissible spelling becomes `[first, last)` with
    `0 <= first < last <= n`, `first` the documented first element, and the documented number of elements -/
theorem norm_admissible (n : Nat) (e : Enc) (h : e.Adm n) (cls : Cls) (hc : cls ≠ .dyn1 ∨ e.isRange) :
    let s := cls.norm n e.seq
    0 ≤ s.first ∧ s.first < s.last ∧ s.last ≤ n ∧ 0 < s.step ∧
    Ax.ofSeq s = ⟨e.first n, e.stepN, e.countN n⟩ :=
  Views.norm_adm n e h cls hc

example : (Enc.idx (-2)).Adm 7 := by decide
example : (Enc.range 1 8 3).Adm 9 := by decide
example : (Enc.fromEnd 4 1 2).Adm 9 := by decide

/-- why `seq(int i)` and `fix<i>` must spell `i < -1` as `[i-1, i)` (`Seq.ofInt`): the naive `[i, i+1)` is read
    as "both ends from the end" and `fseq<-2,-1>` selects the last element of a 7-element axis, not element 5.
    (`seq(int)` was repaired earlier; `fix<i>` was still `fseq<i,i+1>` and is repaired on branch fix/c04.) -/
theorem fix_below_minus_one_counterexample : toPositive 7 ⟨-2, -1, 1⟩ = ⟨6, 7, 1⟩ := by decide

/-- **scalar indexing, all ranks**: for indices in `[-d_k, d_k)` the offset computed by
    `get_flat_index` (ranks 1–4 written out, rank >= 5 the products loop), with or without the bounds
    assertion, is the row-major offset of the element with every negative index counted from the end -/
theorem scalarIndex_correct (chk : Bool) (dims : List Nat) (args : List Int) (h : ValidArgs dims args) :
    scalarIndex chk dims args = some ((rowMajor dims (List.zipWith wrapNat dims args) : Nat) : Int) :=
  Views.scalarIndex_valid chk dims args h

/-- with `FASTOR_BOUNDS_CHECK`, an out-of-range index raises the assertion and nothing is accessed -/
theorem scalarIndex_checked (dims : List Nat) (args : List Int)
    (h : inBounds dims (List.zipWith wrapIdx dims args) = false) : scalarIndex true dims args = none :=
  Views.scalarIndex_checked_oob dims args h

example : ValidArgs [3, 4, 5, 2, 6] [-1, 2, -5, 0, 5] := by simp [ValidArgs]
example : scalarIndex true [3, 4] [-1, 4] = none := by decide

/-- **read_correct, flat scalar route** (`eval_s(idx)`: 1-D stride form, 2-D div/mod form, n-D
    `remaining` un-flatten loop + products sum): position `rowMajor dims j` of the evaluated slice is
    `A(first_0 + j_0*step_0, …)`, for every view class, rank, extents and in-range `j` -/
theorem read_correct (v : View) (hwf : v.WF) (j : List Nat) (hj : InRange (vdims v.axs) j) :
    v.evalS (rowMajor (vdims v.axs) j) = specOff v.pdims v.axs j :=
  Views.evalS_correct v hwf j hj

example : (View.mk .dynN [3, 4, 9] [⟨1, 1, 2⟩, ⟨0, 2, 2⟩, ⟨0, 2, 4⟩]).WF ∧
    InRange (vdims [⟨1, 1, 2⟩, ⟨0, 2, 2⟩, ⟨0, 2, 4⟩]) [1, 1, 3] := by simp [View.WF, InRange, vdims]

/-- **flat vector route** (`eval(idx)`: strided `vector_setter(idx,step)` for 1-D views, per-lane
    un-flatten + `vector_setter(inds)` otherwise): lane `l` is what `eval_s(idx+l)` reads, for every width -/
theorem evalV_lanes (v : View) (hwf : v.WF) (V idx l : Nat) (hl : l < V) :
    (v.evalV V idx)[l]? = some (v.evalS (idx + l)) :=
  Views.evalV_lane v hwf V idx l hl

/-- **two-index routes of the 2-D views**: `eval_s(i,j)` reads the documented element `(i,j)`;
    lane `l` of `eval(i,j)` reads element `(i,j+l)` on both routes (one contiguous load when the last step
    is 1, strided gather otherwise) -/
theorem eval2_correct (cls : Cls) (h2 : is2D cls) (m n : Nat) (a0 a1 : Ax) (V i j l : Nat) (hl : l < V) :
    (View.mk cls [m, n] [a0, a1]).eval2S i j = specOff [m, n] [a0, a1] [i, j] ∧
    ((View.mk cls [m, n] [a0, a1]).eval2V V i j).2[l]? = some (specOff [m, n] [a0, a1] [i, j + l]) ∧
    (((View.mk cls [m, n] [a0, a1]).eval2V V i j).1 = true ↔ a1.step = 1) := by
  have h := Views.eval2V_lane cls h2 m n a0 a1 V i j l hl
  refine ⟨Views.eval2S_correct cls h2 m n a0 a1 i j, ?_, h.2⟩
  rw [h.1, Views.eval2S_correct cls h2 m n a0 a1 i (j + l)]

/-- **`teval_s(as)`** reads the documented element `as` (all classes and ranks) -/
theorem tevalS_correct (v : View) (hwf : v.WF) (as : List Nat) (hl : v.axs.length = as.length) :
    v.tevalS as = specOff v.pdims v.axs as :=
  Views.tevalS_correct v hwf as hl

/-- **routes_agree (`teval`)**: on the contiguous-load route and on the strided-gather route lane `l`
    reads the documented element `(as_0,…,as_last + l)` — the same element, whichever of the two routes the
    last extent and step select -/
theorem tevalV_row_routes (v : View) (hwf : v.WF) (V : Nat) (as : List Nat) (hl : v.axs.length = as.length)
    (hne : as ≠ []) (l : Nat) (hlV : l < V) (hr : v.route V ≠ .gather) :
    (v.tevalV V as)[l]? = some (specOff v.pdims v.axs (bumpLast as l)) :=
  Views.tevalV_lane_row v hwf V as hl hne l hlV hr

/-- **`teval`, per-lane gather route** (last extent not a multiple of the width): lane `l` reads the
    documented element at row-major position `rowMajor as + l` of the slice, continuing into the following
    rows — `l` steps of the odometer `as_[jt] += 1; if (as_[jt] < dims[jt]) break; else as_[jt] = 0` -/
theorem tevalV_gather_route (v : View) (hwf : v.WF) (V : Nat) (as : List Nat) (hne : v.axs ≠ [])
    (has : InRange (vdims v.axs) as) (l : Nat) (hlV : l < V) (hr : v.route V = .gather)
    (hfit : rowMajor (vdims v.axs) as + l < v.size) :
    ∃ j, InRange (vdims v.axs) j ∧ rowMajor (vdims v.axs) j = rowMajor (vdims v.axs) as + l ∧
      (v.tevalV V as)[l]? = some (specOff v.pdims v.axs j) :=
  Views.tevalV_lane_gather_full v hwf V as hne has l hlV hr hfit

/-- **one odometer step** (shared by the gather route and the constructors of rank >= 3): the row-major
    position advances by the increment (1, or `V` on the last axis when it is aligned), or the odometer runs
    over exactly at the end -/
theorem odometer_step (inc : Nat) (hinc : 0 < inc) (ds as : List Nat) (h : InRange ds as) (hf : LastFits ds as inc) :
    InRange ds (odoInc ds as inc).1 ∧
    (rowMajor ds as + inc < lprod ds →
      (odoInc ds as inc).2 = false ∧ rowMajor ds (odoInc ds as inc).1 = rowMajor ds as + inc) ∧
    (¬ rowMajor ds as + inc < lprod ds →
      (odoInc ds as inc).2 = true ∧ rowMajor ds (odoInc ds as inc).1 = 0 ∧ rowMajor ds as + inc = lprod ds) :=
  Views.odoInc_spec inc hinc ds as h hf

/-- **consumer `trivial_assign`** (constructor of a tensor from a 1-D view; `+=`-family and flat
    expressions for every view): for every size and width the stores cover exactly the positions below
    `size()`, position `p` receiving what `eval_s(p)` reads — with `read_correct`, the documented element -/
theorem trivial_assign_correct (v : View) (hwf : v.WF) (V : Nat) (hV : 0 < V) :
    WritesExactly (v.trivialWrites V) (fun p => p < v.size) (fun p => v.evalS p) :=
  Views.trivialWrites_exact v hwf V hV

/-- **consumer: the two-index constructor loop** (2-D views and 2-D expressions containing them): for
    all result extents `M × N` and widths the stores cover exactly the positions below `M*N`, position
    `i*N + j` receiving the documented element `(i,j)` of the slice -/
theorem ctor2_correct (cls : Cls) (h2 : is2D cls) (m n : Nat) (a0 a1 : Ax) (V M N : Nat) (hV : 0 < V)
    (hN : 0 < N) :
    WritesExactly ((View.mk cls [m, n] [a0, a1]).ctor2Writes V M N) (fun p => p < M * N)
      (fun p => specOff [m, n] [a0, a1] [p / N, p % N]) := by
  have h := Views.ctor2Writes_exact cls h2 m n a0 a1 V M N hV hN
  intro p
  have hp := h p
  simp only [Views.eval2S_correct cls h2 m n a0 a1] at hp
  exact hp

example : applyWrites ((View.mk .dyn2 [5, 9] [⟨1, 2, 2⟩, ⟨2, 1, 5⟩]).ctor2Writes 4 2 5) (fun _ => 0) 7
    = specOff [5, 9] [⟨1, 2, 2⟩, ⟨2, 1, 5⟩] [1, 2] := by decide

/-- **consumer: the odometer constructors of rank >= 3** (`Tensor(const TensorViewExpr<…,DIMS>&)`,
    `Tensor(const TensorFixedViewExprnD&)`: vectorised with `teval` when the view is (strided-)vectorisable,
    scalar with `teval_s` otherwise; const views and expressions: always scalar): for every rank, extents and
    width, exactly the positions below `size()` are stored to, and position `rowMajor dims j` receives the
    documented element `j` of the slice -/
theorem ctorN_correct (v : View) (hwf : v.WF) (hcls : v.cls = .dynN ∨ v.cls = .fixN) (hne : v.axs ≠ [])
    (hpos : ∀ d ∈ vdims v.axs, 0 < d) (V : Nat) (hV : 0 < V) (vecAllowed : Bool) :
    (∀ j, InRange (vdims v.axs) j →
      lastWrite (v.ctorN V vecAllowed (vdims v.axs)).writes (rowMajor (vdims v.axs) j) = some (specOff v.pdims v.axs j)) ∧
    (∀ p, v.size ≤ p → lastWrite (v.ctorN V vecAllowed (vdims v.axs)).writes p = none) := by
  have h := Views.ctorN_exact v hwf hcls hne hpos V hV vecAllowed
  constructor
  · intro j hj
    have hlt : rowMajor (vdims v.axs) j < v.size := Views.rowMajor_lt hj
    have := (h _).1 hlt
    rw [this]
    show some (specOff v.pdims v.axs (unflat (vdims v.axs) (lprod (vdims v.axs)) (rowMajor (vdims v.axs) j))) = _
    rw [Views.unflat_rowMajor hj]
  · intro p hp
    exact (h p).2 (by omega)

example : lastWrite ((View.mk .dynN [3, 4, 9] [⟨1, 1, 2⟩, ⟨0, 2, 2⟩, ⟨0, 2, 4⟩]).ctorN 4 true [2, 2, 4]).writes 13
    = some (specOff [3, 4, 9] [⟨1, 1, 2⟩, ⟨0, 2, 2⟩, ⟨0, 2, 4⟩] [1, 1, 1]) := by decide

/-- **immediate sequences** `A(iseq<F,L,S>{}…)` (BlockIndexing.h: nested counted loops with counters, every
    element through scalar indexing): for every rank, extents and positive steps the (destination, source) pairs
    of the loop nest are exactly `(rowMajor result j, rowMajor parent (F_k + j_k*S_k))`, `j` below the result
    extents `ceil((L_k-F_k)/S_k)` — every result element is written, each from the documented element -/
theorem iseq_correct (pd rd : List Nat) (tr : List (Nat × Nat × Nat)) (h : IseqOk pd rd tr) (w : Nat × Nat) :
    w ∈ iseqLoop pd rd tr ↔ ∃ j, InRange rd j ∧ w = (rowMajor rd j, rowMajor pd (iseqSrc tr j)) :=
  Views.iseqLoop_mem pd rd tr h w

example : IseqOk [5, 6] [2, 2] [(0, 4, 2), (1, 6, 3)] := by simp [IseqOk, forCount]

/-- **diagonal views** `diag(A)`: the offsets `eval_s(i)` / lane `l` of `eval(i)` read (`it*N + it`) are those of
    the 1-D view of the flattened `n × n` parent with first 0 and step `n+1` (the model the driver runs, so that
    `evalV_lanes` and `trivial_assign_correct` apply to it), and that offset is the diagonal element `A(i,i)` -/
theorem diag_correct (n i : Nat) :
    (View.mk .dyn1 [n * n] [⟨0, n + 1, n⟩]).evalS i = rowMajor [n, n] [i, i] ∧
    (View.mk .dyn1 [n * n] [⟨0, n + 1, n⟩]).WF := by
  constructor
  · simp [View.evalS, rowMajor, horner]; ring
  · simp [View.WF]

/-- the loop bound `ROUND_DOWN(n,V)` of the consumers is the mask `n & ~(V-1)` in the source; for the
    power-of-two widths the library uses it is the arithmetic `n / V * V` the model's loops run to
    (the bit-level fact is `Fastor.C02.roundDown_pow2`) -/
theorem round_down_is_mask (n e : Nat) (hn : n < 2 ^ 64) (he : e ≤ 64) :
    Fastor.Expr.roundDown n (2 ^ e) = roundDownV n (2 ^ e) :=
  Fastor.C02.roundDown_pow2 n e hn he

end Fastor.C04
