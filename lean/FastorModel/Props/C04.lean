import FastorModel.Proofs.Views
/-
# C04 — Reading through an index or a slice returns exactly the selected elements

Property: scalar indexing `A(i0,...,ik)` denotes the row-major element with each negative index counted
from the end, and a slice built from any mixture of dynamic ranges, compile-time ranges, immediate
ranges, all/first/last and fixed integers denotes the tensor of extent `ceil((last-first)/step)` per axis
whose element `(j0,...,jk)` is `A(first0+j0*step0,...)`.  Evaluating a slice, alone or inside any
expression, yields exactly those elements in that order for every admissible range.

Reading of the statements (the model is `FastorModel/Model/Views.lean`, a transcription of Ranges.h,
IndexRetriever.h, BlockIndexing.h, the six view headers, `vector_setter`, `trivial_assign` and the
specialised constructors; every evaluator returns the *parent offsets* it reads, one per lane):

* `Enc` is what a user writes on one axis; `Enc.Adm n` says when that is a documented range on an axis of
  extent `n`; `Enc.first/count/step` is its documented meaning.  Spellings outside `Enc.Adm` are not judged.
* `rowMajor dims idx` is the offset of the element with multi-index `idx` (Horner form).
-/
namespace Fastor.C04
open Fastor Fastor.Views

/-- **the fixed views normalise exactly like the dynamic 2-D / n-D views** ("same logic as seq", Ranges.h) -/
theorem toPositive_eq_normN (N : Int) (s : Seq) : toPositive N s = normN N s :=
  Views.toPositive_eq_normN N s

/-- **extent**: for a forward range the number `seq::size()` / `range_detector` computes with truncating
    `/` and `%` is `ceil((last-first)/step)`: the unique `k` with `(k-1)*step < last-first <= k*step` -/
theorem size_eq_ceil (s : Seq) (hs : 0 < s.step) (hfl : s.first ≤ s.last) :
    (s.size - 1) * s.step < s.last - s.first ∧ s.last - s.first ≤ s.size * s.step ∧ 0 ≤ s.size :=
  Views.size_spec s hs hfl

example : (Views.Seq.mk 1 8 3).size = 3 := by decide

/-- **normalisation (2-D, n-D and fixed views)**: every admissible spelling becomes `[first, last)` with
    `0 <= first < last <= n`, `first` the documented first element, and the documented number of elements -/
theorem norm_admissible (n : Nat) (e : Enc) (h : e.Adm n) (cls : Cls) (hc : cls ≠ .dyn1 ∨ e.isRange) :
    let s := cls.norm n e.seq
    0 ≤ s.first ∧ s.first < s.last ∧ s.last ≤ n ∧ 0 < s.step ∧
    Ax.ofSeq s = ⟨e.first n, e.stepN, e.countN n⟩ :=
  Views.norm_adm n e h cls hc

example : (Enc.idx (-2)).Adm 7 := by decide
example : (Enc.range 1 8 3).Adm 9 := by decide
example : (Enc.fromEnd 4 1 2).Adm 9 := by decide

end Fastor.C04
