import FastorModel.Model.Reduce
/-
# C16 — reductions, predicates and scalar-valued functions agree with their definitions
(first stage: the predicates; the reduction theorems follow)
-/
namespace Fastor.C16
open Fastor Fastor.Reduce

/-- the expression/tensor overload of `none_of` as written returns `any_of` (F5) -/
theorem none_of_code_eq_any_of (b : Nat → Bool) (n : Nat) : noneOfCode b n = anyOf b n := rfl

/-- **counterexample** to `none_of b = !any_of b` for the code as written: the one-element tensor `[true]` -/
theorem none_of_expr_counterexample : noneOfCode (fun _ => true) 1 ≠ !(anyOf (fun _ => true) 1) := by decide

end Fastor.C16
