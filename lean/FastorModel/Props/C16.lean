import FastorModel.Proofs.Reduce
import FastorModel.Model.Horizontal
import Mathlib.Order.MinMax
import Mathlib.Tactic.FinCases
import Mathlib.LinearAlgebra.Matrix.Determinant.Basic
import Mathlib.LinearAlgebra.Matrix.Block
/-
# C16 — Reductions, predicates and scalar-valued functions agree with their definitions

Property: sum, product, min, max, norm, trace, inner, determinant and the predicates all_of / any_of / none_of
applied to any tensor or expression return the value defined by folding the scalar operation over all elements;
min/max return an element of the input for inputs of any sign; none_of is the negation of any_of.

Reading of the statements.  `Model/Reduce.lean` transcribes the code: `U` vector accumulators of `V` lanes, a ladder
of unroll factors (one loop `for (; i < ROUND_DOWN(n,u*V); i += u*V)` per factor, `ROUND_DOWN` being the bit mask of
the source), a scalar tail, a lane-wise combination of the accumulators, a horizontal step and the final combine,
with the seeds the code uses.  `term i` is element `i` of the argument: `x i` for a tensor, `evalS e i` for a lazy
expression (`expr_lanes`: the vector evaluation is the scalar evaluation lane by lane, C02).
* `positions_exactly_once`, `reduce_correct`: for ALL `n < 2^64`, all widths and all admissible ladders.
* `sum_correct … trace_correct`: the instances the code contains (seeds 0 / 1, ladders 1 / 4,2,1 / 8,4,2,1).
* `min_in_input`, `max_in_input`: hypothesis = what the code's seed satisfies (`x i ≤ numeric_limits::max()`,
  `numeric_limits::lowest() ≤ x i`); conclusion: the result is an element of the input and bounds every element.
* predicates: `all_of = ∀`, `any_of = ∃`; `none_of` AS WRITTEN returns `any_of` (`none_of_expr_counterexample`,
  defect F5, kept as a known finding because a pinned test asserts the defective value); the repaired body is correct.
* determinants: closed forms n ≤ 4 = `Matrix.det` (Leibniz); `determinant<LU>` = sign · ∏ U_ii.
Floating-point error bounds are NOT proved here (measured by the harness).
-/
namespace Fastor.C16
open Fastor Fastor.Expr Fastor.Reduce Finset

/-! ## loop structure -/

/-- **every element exactly once**: the positions touched by the vector stages (each step covers `V` consecutive
    lanes), followed by the scalar tail, are exactly `0, 1, …, n-1`, each once and in increasing order —
    for every size `n`, every width `V` and every admissible unroll ladder. -/
theorem positions_exactly_once (n V : Nat) (us : List Nat) (hn : n < 2 ^ 64) (hg : GoodLadder V us) :
    flat V (vecSteps n V us) ++ tailPos n V us = List.range n := coverage n V us hn hg

example : GoodLadder 16 [8, 4, 2, 1] := goodLadder_8421 16 4 (by omega) (by norm_num)
example : flat 4 (vecSteps 11 4 [4, 2, 1]) ++ tailPos 11 4 [4, 2, 1] = List.range 11 := by decide

/-- **reduce_correct**: for an associative-commutative operation with identity `e` used as every seed, the
    reduction machine — `U` accumulators, any admissible ladder `us` (each factor times `V` a power of two, each
    factor dividing the previous ones), any width, any size — returns the fold of `op` over all `n` terms. -/
theorem reduce_correct {α : Type} (op : α → α → α) (e : α) (hassoc : ∀ a b c, op (op a b) c = op a (op b c))
    (hcomm : ∀ a b, op a b = op b a) (hid : ∀ a, op e a = a)
    (term : Nat → α) (U : Nat) (us : List Nat) (n V : Nat) (hn : n < 2 ^ 64)
    (hg : GoodLadder V us) (hU : ∀ u ∈ us, u ≤ U) (hU0 : 0 < U) :
    reduce ⟨op, e, e, e, U, us⟩ term n V = (List.range n).foldl (fun acc i => op acc (term i)) e :=
  reduce_op op e hassoc hcomm hid term U us n V hn hg hU hU0

example : reduce ⟨(· + ·), 0, 0, 0, 4, [4, 2, 1]⟩ (fun i => (i : Int) + 1) 11 2 = 66 := by decide

section sums
variable {A : Type} [AddCommMonoid A]

theorem foldl_add_eq_sum (term : Nat → A) (n : Nat) :
    (List.range n).foldl (fun acc i => acc + term i) 0 = ∑ i ∈ range n, term i := by
  induction n with
  | zero => simp
  | succ n ih => rw [List.range_succ, List.foldl_append, ih, Finset.sum_range_succ]; simp

/-- `sum(expr)` / `sum(tensor)` (AbstractTensorFunctions.h), seeds `0`: the sum of all elements, ∀ n, ∀ V = 2^ev -/
theorem sum_correct (term : Nat → A) (n V ev : Nat) (hn : n < 2 ^ 64) (hev : ev ≤ 64) (hV : V = 2 ^ ev) :
    sumExpr term n V = ∑ i ∈ range n, term i := by
  unfold sumExpr sumSpec
  rw [reduce_correct (· + ·) 0 add_assoc add_comm zero_add term 1 [1] n V hn (goodLadder_one V ev hev hV) (by simp) (by omega)]
  exact foldl_add_eq_sum term n

/-- `Tensor::sum()` including the early return for one element -/
theorem tensorSum_correct (x : Nat → A) (n V ev : Nat) (hn : n < 2 ^ 64) (hev : ev ≤ 64) (hV : V = 2 ^ ev) (hpos : 0 < n) :
    tensorSum x n V = ∑ i ∈ range n, x i := by
  unfold tensorSum
  by_cases h : n ≤ 1
  · have : n = 1 := by omega
    subst this; simp
  · simp only [h, if_false]
    exact sum_correct x n V ev hn hev hV
end sums

section prods
variable {M : Type} [CommMonoid M]

theorem foldl_mul_eq_prod (term : Nat → M) (n : Nat) :
    (List.range n).foldl (fun acc i => acc * term i) 1 = ∏ i ∈ range n, term i := by
  rw [foldl_mul_range]; simp

/-- `product(expr)`, seeds `1` -/
theorem product_correct (term : Nat → M) (n V ev : Nat) (hn : n < 2 ^ 64) (hev : ev ≤ 64) (hV : V = 2 ^ ev) :
    prodExpr term n V = ∏ i ∈ range n, term i := by
  unfold prodExpr prodSpec
  rw [reduce_correct (· * ·) 1 mul_assoc mul_comm one_mul term 1 [1] n V hn (goodLadder_one V ev hev hV) (by simp) (by omega)]
  exact foldl_mul_eq_prod term n

/-- `Tensor::product()` -/
theorem tensorProd_correct (x : Nat → M) (n V ev : Nat) (hn : n < 2 ^ 64) (hev : ev ≤ 64) (hV : V = 2 ^ ev) (hpos : 0 < n) :
    tensorProd x n V = ∏ i ∈ range n, x i := by
  unfold tensorProd
  by_cases h : n ≤ 1
  · have : n = 1 := by omega
    subst this; simp
  · simp only [h, if_false]
    exact product_correct x n V ev hn hev hV
end prods

section semiring
variable {R : Type} [CommSemiring R]

/-- radicand of `norm(expr)`: both ladders (`8,4,2,1` with 8 accumulators under AVX-512, `4,2,1` with 4 otherwise) -/
theorem norm2Expr_correct (avx512 : Bool) (term : Nat → R) (n V ev : Nat) (hn : n < 2 ^ 64) (hev : ev ≤ 60) (hV : V = 2 ^ ev) :
    norm2Expr avx512 term n V = ∑ i ∈ range n, term i * term i := by
  unfold norm2Expr normLadder
  cases avx512
  · simp only [Bool.false_eq_true, if_false]
    rw [reduce_correct (· + ·) 0 add_assoc add_comm zero_add _ 4 [4, 2, 1] n V hn (goodLadder_421 V ev hev hV)
      (by intro u hu; simp at hu; omega) (by omega)]
    exact foldl_add_eq_sum _ n
  · simp only [if_true]
    rw [reduce_correct (· + ·) 0 add_assoc add_comm zero_add _ 8 [8, 4, 2, 1] n V hn (goodLadder_8421 V ev hev hV)
      (by intro u hu; simp at hu; omega) (by omega)]
    exact foldl_add_eq_sum _ n

/-- radicand of `_norm<T,N>` (both overloads) -/
theorem norm2Tensor_correct (avx512 : Bool) (x : Nat → R) (n V ev : Nat) (hn : n < 2 ^ 64) (hev : ev ≤ 60) (hV : V = 2 ^ ev) :
    norm2Tensor avx512 x n V = ∑ i ∈ range n, x i * x i := by
  unfold norm2Tensor
  split
  · rw [reduce_correct (· + ·) 0 add_assoc add_comm zero_add _ 1 [1] n V hn (goodLadder_one V ev (by omega) hV) (by simp) (by omega)]
    exact foldl_add_eq_sum _ n
  · exact norm2Expr_correct avx512 x n V ev hn hev hV

/-- `inner(a,b)` = `_doublecontract<T,N,1>` (both overloads) -/
theorem inner_correct (a b : Nat → R) (n V ev : Nat) (hn : n < 2 ^ 64) (hev : ev ≤ 60) (hV : V = 2 ^ ev) :
    Reduce.inner a b n V = ∑ i ∈ range n, a i * b i := by
  unfold Reduce.inner
  split
  · rw [reduce_correct (· + ·) 0 add_assoc add_comm zero_add _ 1 [1] n V hn (goodLadder_one V ev (by omega) hV) (by simp) (by omega)]
    exact foldl_add_eq_sum _ n
  · rw [reduce_correct (· + ·) 0 add_assoc add_comm zero_add _ 4 [4, 2, 1] n V hn (goodLadder_421 V ev hev hV)
      (by intro u hu; simp at hu; omega) (by omega)]
    exact foldl_add_eq_sum _ n

/-- `trace(A)` and `trace(expr)`: the sum of the diagonal (flat positions `i*M+i`) -/
theorem trace_correct (x : Nat → R) (M : Nat) :
    Reduce.trace x M = ∑ i ∈ range M, x (i * M + i) ∧ Reduce.traceExpr x M = ∑ i ∈ range M, x (i * M + i) := by
  unfold Reduce.trace Reduce.traceExpr
  refine ⟨foldl_add_eq_sum _ M, ?_⟩
  rw [foldl_add_eq_sum (fun i => x (i * (M + 1))) M]
  apply Finset.sum_congr rfl
  intro i _
  have : i * (M + 1) = i * M + i := by ring
  rw [this]
end semiring

/-! non-vacuity: concrete instances of the hypotheses / the instances evaluated -/
example : sumExpr (fun i => (i : Int) + 1) 11 4 = 66 := by decide
example : prodExpr (fun i => (i : Int) + 1) 5 2 = 120 := by decide
example : tensorSum (fun i => (i : Int) + 1) 1 4 = 1 ∧ tensorProd (fun i => (i : Int) + 2) 7 4 = 40320 := by decide
example : norm2Expr true (fun i => (i : Int)) 20 1 = 2470 ∧ norm2Tensor false (fun i => (i : Int)) 20 2 = 2470 := by decide
example : Reduce.inner (fun i => (i : Int)) (fun _ => (2 : Int)) 19 2 = 342 := by decide
example : Reduce.trace (fun i => (i : Int)) 3 = 12 ∧ Reduce.traceExpr (fun i => (i : Int)) 3 = 12 := by decide

/-- lazy expressions: lane `l` of the vector evaluation `eval<T>(p)` of any expression tree is the scalar evaluation
    at `p + l` (C02), so the reductions of an expression are the reductions of `term = evalS e` -/
theorem expr_lanes {α : Type} [Add α] [Sub α] [Mul α] [Neg α] (ofInt : Int → α) (env : Nat → Nat → α) (V : Nat) (e : E) (p l : Nat) (hl : l < V) :
    (evalV ofInt env V e p)[l]? = some (evalS ofInt env e (p + l)) := C02.lanes_of_evalV ofInt env V e p l hl

/-! ## min / max -/

/-- **minmax_in_input** (min): with a seed that is not smaller than any element (the code uses
    `numeric_limits<T>::max()`), for every `n > 0`, every width and every sign pattern, `min` returns an element of
    the input which is `≤` every element. -/
theorem min_in_input {α : Type} [LinearOrder α] (seed : α) (x : Nat → α) (n V ev : Nat)
    (hn : n < 2 ^ 64) (hev : ev ≤ 64) (hV : V = 2 ^ ev) (hpos : 0 < n) (hseed : ∀ i < n, x i ≤ seed) :
    (∃ i < n, minmax (fun a b => decide (a < b)) seed x n V = x i) ∧
    ∀ i < n, minmax (fun a b => decide (a < b)) seed x n V ≤ x i := by
  have hb : StrictTotal (fun a b : α => decide (a < b)) :=
    ⟨by intro a; simp, by intro a b c h1 h2; simp at h1 h2 ⊢; exact lt_trans h1 h2,
     by intro a b; simp; exact lt_trichotomy a b⟩
  obtain ⟨h1, h2⟩ := minmax_correct hb seed x n V ev hn hev hV hpos (by intro i hi; simpa using hseed i hi)
  exact ⟨h1, fun i hi => by simpa using h2 i hi⟩

/-- **minmax_in_input** (max): seed not larger than any element (`numeric_limits<T>::lowest()`) -/
theorem max_in_input {α : Type} [LinearOrder α] (seed : α) (x : Nat → α) (n V ev : Nat)
    (hn : n < 2 ^ 64) (hev : ev ≤ 64) (hV : V = 2 ^ ev) (hpos : 0 < n) (hseed : ∀ i < n, seed ≤ x i) :
    (∃ i < n, minmax (fun a b => decide (b < a)) seed x n V = x i) ∧
    ∀ i < n, x i ≤ minmax (fun a b => decide (b < a)) seed x n V := by
  have hb : StrictTotal (fun a b : α => decide (b < a)) :=
    ⟨by intro a; simp, by intro a b c h1 h2; simp at h1 h2 ⊢; exact lt_trans h2 h1,
     by intro a b; simp; rcases lt_trichotomy a b with h | h | h
        · exact Or.inr (Or.inr h)
        · exact Or.inr (Or.inl h)
        · exact Or.inl h⟩
  obtain ⟨h1, h2⟩ := minmax_correct hb seed x n V ev hn hev hV hpos (by intro i hi; simpa using hseed i hi)
  exact ⟨h1, fun i hi => by simpa using h2 i hi⟩

/-- non-vacuity: all-negative data, `n = 7`, `V = 4`, the seed `lowest = -128` of an 8-bit type -/
example : minmax (fun a b : Int => decide (b < a)) (-128) (fun i => -(i : Int) - 3) 7 4 = -3 := by decide
/-- the seed the code used before the repair (`numeric_limits<float>::min()`, a positive number) violates the
    hypothesis on all-negative data, and the result is then not an element of the input -/
example : minmax (fun a b : Int => decide (b < a)) 1 (fun i => -(i : Int) - 3) 7 4 = 1 := by decide

/-! ## predicates -/

theorem allOf_iff (b : Nat → Bool) (n : Nat) : allOf b n = true ↔ ∀ i < n, b i = true := by
  unfold allOf
  induction n with
  | zero => simp
  | succ n ih =>
    rw [List.range_succ, List.foldl_append]
    simp only [List.foldl_cons, List.foldl_nil]
    by_cases h : List.foldl (fun val i => if val = true then if (b i == false) = true then false else true else false) true (List.range n) = true
    · have ih' := ih.1 h
      simp only [h, if_true]
      constructor
      · intro hb i hi
        by_cases hin : i = n
        · subst hin; cases hbi : b i <;> simp [hbi] at hb ⊢
        · exact ih' i (by omega)
      · intro hall
        have := hall n (by omega)
        simp [this]
    · have hne : ¬ ∀ i < n, b i = true := fun hh => h (ih.2 hh)
      simp only [h]
      constructor
      · intro hf; simp at hf
      · intro hall; exact absurd (fun i hi => hall i (by omega)) hne

theorem anyOf_iff (b : Nat → Bool) (n : Nat) : anyOf b n = true ↔ ∃ i < n, b i = true := by
  unfold anyOf
  induction n with
  | zero => simp
  | succ n ih =>
    rw [List.range_succ, List.foldl_append]
    simp only [List.foldl_cons, List.foldl_nil]
    by_cases h : List.foldl (fun val i => if val = true then true else if (b i == true) = true then true else false) false (List.range n) = true
    · obtain ⟨i, hi, hbi⟩ := ih.1 h
      simp only [h, if_true]
      exact ⟨fun _ => ⟨i, by omega, hbi⟩, fun _ => trivial⟩
    · have hne : ¬ ∃ i < n, b i = true := fun hh => h (ih.2 hh)
      simp only [h]
      constructor
      · intro hb
        refine ⟨n, by omega, ?_⟩
        cases hbn : b n <;> simp [hbn] at hb ⊢
      · rintro ⟨i, hi, hbi⟩
        by_cases hin : i = n
        · subst hin; simp [hbi]
        · exact absurd ⟨i, by omega, hbi⟩ hne

/-- the expression/tensor overload of `none_of` as written returns `any_of` (F5) -/
theorem none_of_code_eq_any_of (b : Nat → Bool) (n : Nat) : noneOfCode b n = anyOf b n := rfl

/-- **counterexample** to `none_of b = !any_of b` for the code as written: the one-element tensor `[true]`
    (replayed on the real code by the `pred … what=none` cases) -/
theorem none_of_expr_counterexample : noneOfCode (fun _ => true) 1 ≠ !(anyOf (fun _ => true) 1) := by decide

/-- as written, `none_of` is wrong on EVERY input -/
theorem none_of_code_always_wrong (b : Nat → Bool) (n : Nat) : noneOfCode b n ≠ !(anyOf b n) := by
  rw [none_of_code_eq_any_of]; cases anyOf b n <;> simp

/-- the repaired body satisfies the property: `none_of = !any_of` -/
theorem none_of_fixed_correct (b : Nat → Bool) (n : Nat) : noneOfFixed b n = !(anyOf b n) := by
  have key : noneOfFixed b n = true ↔ ∀ i < n, b i = false := by
    unfold noneOfFixed
    induction n with
    | zero => simp
    | succ n ih =>
      rw [List.range_succ, List.foldl_append]
      simp only [List.foldl_cons, List.foldl_nil]
      by_cases h : List.foldl (fun val i => if val = true then if (b i == true) = true then false else true else false) true (List.range n) = true
      · have ih' := ih.1 h
        simp only [h, if_true]
        constructor
        · intro hb i hi
          by_cases hin : i = n
          · subst hin; cases hbi : b i <;> simp [hbi] at hb ⊢
          · exact ih' i (by omega)
        · intro hall
          have := hall n (by omega)
          simp [this]
      · have hne : ¬ ∀ i < n, b i = false := fun hh => h (ih.2 hh)
        simp only [h]
        constructor
        · intro hf; simp at hf
        · intro hall; exact absurd (fun i hi => hall i (by omega)) hne
  cases hany : anyOf b n
  · have : ¬ ∃ i < n, b i = true := fun hh => by rw [(anyOf_iff b n).2 hh] at hany; exact Bool.noConfusion hany
    simp only [Bool.not_false]
    apply key.2
    intro i hi
    cases hbi : b i
    · rfl
    · exact absurd ⟨i, hi, hbi⟩ this
  · obtain ⟨i, hi, hbi⟩ := (anyOf_iff b n).1 hany
    simp only [Bool.not_true]
    cases hnf : noneOfFixed b n
    · rfl
    · have := key.1 hnf i hi; rw [hbi] at this; exact Bool.noConfusion this


/-! ## issymmetric, isequal -/

/-- inner loop of `issymmetric`: state (issym, broken) -/
theorem isSym_inner (viol : Nat → Bool) (s : Bool) (m : Nat) :
    (List.range m).foldl (fun (st : Bool × Bool) j => if st.2 then st else if viol j then (false, true) else st) (s, false)
      = (s && decide (∀ j < m, viol j = false), decide (∃ j < m, viol j = true)) := by
  induction m with
  | zero => simp
  | succ m ih =>
    rw [List.range_succ, List.foldl_append, ih]
    simp only [List.foldl_cons, List.foldl_nil]
    by_cases h : ∃ j < m, viol j = true
    · obtain ⟨j, hj, hv⟩ := h
      have h1 : (∃ j < m, viol j = true) := ⟨j, hj, hv⟩
      have h2 : (∃ j < m + 1, viol j = true) := ⟨j, by omega, hv⟩
      have h3 : ¬ ∀ j < m, viol j = false := fun hh => by rw [hh j hj] at hv; exact Bool.false_ne_true hv
      have h4 : ¬ ∀ j < m + 1, viol j = false := fun hh => by rw [hh j (by omega)] at hv; exact Bool.false_ne_true hv
      simp only [decide_eq_true h1, decide_eq_true h2, decide_eq_false h3, decide_eq_false h4]
      simp
    · have h3 : ∀ j < m, viol j = false := by
        intro j hj
        cases hv : viol j
        · rfl
        · exact absurd ⟨j, hj, hv⟩ h
      cases hm : viol m
      · have h2 : ¬ ∃ j < m + 1, viol j = true := by
          rintro ⟨j, hj, hv⟩
          by_cases hjm : j = m
          · subst hjm; rw [hm] at hv; exact Bool.false_ne_true hv
          · exact h ⟨j, by omega, hv⟩
        have h4 : ∀ j < m + 1, viol j = false := by
          intro j hj
          by_cases hjm : j = m
          · subst hjm; exact hm
          · exact h3 j (by omega)
        simp only [decide_eq_false h, decide_eq_false h2, decide_eq_true h3, decide_eq_true h4]
        simp
      · have h2 : ∃ j < m + 1, viol j = true := ⟨m, by omega, hm⟩
        have h4 : ¬ ∀ j < m + 1, viol j = false := fun hh => by rw [hh m (by omega)] at hm; exact Bool.false_ne_true hm
        simp only [decide_eq_false h, decide_eq_true h2, decide_eq_true h3, decide_eq_false h4]
        simp

/-- **issymmetric** (non-evaluating overload): true iff no pair `(i*M+j, j*M+i)` violates the tolerance — the `break`
    leaves only the inner loop, but `_issym` is never set back to true -/
theorem isSymmetric_iff (viol : Nat → Nat → Bool) (M : Nat) :
    isSymmetric viol M = true ↔ ∀ i < M, ∀ j < M, viol (i * M + j) (j * M + i) = false := by
  unfold isSymmetric
  have key : ∀ m, (List.range m).foldl (fun s i =>
      ((List.range M).foldl (fun (st : Bool × Bool) j => if st.2 then st else if viol (i * M + j) (j * M + i) then (false, true) else st) (s, false)).1) true
      = decide (∀ i < m, ∀ j < M, viol (i * M + j) (j * M + i) = false) := by
    intro m
    induction m with
    | zero => simp
    | succ m ih =>
      rw [List.range_succ, List.foldl_append, ih]
      simp only [List.foldl_cons, List.foldl_nil]
      rw [isSym_inner (fun j => viol (m * M + j) (j * M + m))]
      simp only []
      by_cases h1 : ∀ i < m, ∀ j < M, viol (i * M + j) (j * M + i) = false
      · by_cases h2 : ∀ j < M, viol (m * M + j) (j * M + m) = false
        · have : ∀ i < m + 1, ∀ j < M, viol (i * M + j) (j * M + i) = false := by
            intro i hi j hj
            by_cases him : i = m
            · subst him; exact h2 j hj
            · exact h1 i (by omega) j hj
          simp only [decide_eq_true h1, decide_eq_true h2, decide_eq_true this]
          simp
        · have : ¬ ∀ i < m + 1, ∀ j < M, viol (i * M + j) (j * M + i) = false := fun hh => h2 (hh m (by omega))
          simp only [decide_eq_true h1, decide_eq_false h2, decide_eq_false this]
          simp
      · have : ¬ ∀ i < m + 1, ∀ j < M, viol (i * M + j) (j * M + i) = false := fun hh => h1 (fun i hi => hh i (by omega))
        simp only [decide_eq_false h1, decide_eq_false this]
        simp
  rw [key M]
  simp

/-- `isequal(a,b,Tol)` = `all_of(abs(a - b) <= Tol)`; for integral element types `Tol` is converted to 0 -/
def isEqualInt (a b : Nat → Int) (n : Nat) : Bool := allOf (fun i => decide ((a i - b i).natAbs ≤ 0)) n
/-- the form before commit 81c67dd (`<`) -/
def isEqualIntOld (a b : Nat → Int) (n : Nat) : Bool := allOf (fun i => decide ((a i - b i).natAbs < 0)) n

/-- **isequal** on integer tensors: true iff the tensors agree element by element -/
theorem isEqualInt_iff (a b : Nat → Int) (n : Nat) : isEqualInt a b n = true ↔ ∀ i < n, a i = b i := by
  unfold isEqualInt
  rw [allOf_iff]
  constructor
  · intro h i hi
    have := h i hi
    simp at this
    omega
  · intro h i hi
    simp [h i hi]

/-- the pre-repair comparison was false for every non-empty pair of tensors, equal ones included -/
theorem isEqualIntOld_counterexample : isEqualIntOld (fun _ => 7) (fun _ => 7) 1 = false := by decide


/-! ## the per-ABI horizontal helpers of extintrin.h (float / double, SSE and AVX)

`Model/Horizontal.lean` transcribes `_mm_hmax_ps` … `_mm256_prod_pd` as shuffle programs over lane functions with the
immediates as parameters; the theorems are stated at the immediates that are in the source (the check reads them from
the text on every run and flags a difference).  min/max: the result is the max/min of all lanes.  sum/product: the exact
association tree (what a floating-point horizontal sum computes); in a commutative monoid it is the fold over the lanes. -/

set_option maxRecDepth 2000
section horizontal
open Fastor.Horizontal
variable {α : Type} [LinearOrder α]

theorem hmax_ps_correct (a : Reg α) : hPs max (mmShuffle 0 1 2 3) (mmShuffle 0 0 0 1) a = max (max (a 0) (a 1)) (max (a 2) (a 3)) := by
  simp [hPs, lanewise, reversePs, shufflePs, mmShuffle, max_comm, max_left_comm, max_assoc]

theorem hmin_ps_correct (a : Reg α) : hPs min (mmShuffle 0 1 2 3) (mmShuffle 0 0 0 1) a = min (min (a 0) (a 1)) (min (a 2) (a 3)) := by
  simp [hPs, lanewise, reversePs, shufflePs, mmShuffle, min_comm, min_left_comm, min_assoc]

theorem hmax_pd_correct (a : Reg α) : hPd max 1 a = max (a 0) (a 1) := by
  simp [hPd, lanewise, reversePd, shufflePd]
theorem hmin_pd_correct (a : Reg α) : hPd min 1 a = min (a 0) (a 1) := by
  simp [hPd, lanewise, reversePd, shufflePd]

theorem hmax256_ps_correct (a : Reg α) :
    h256Ps max (mmShuffle 0 1 2 3) (mmShuffle 0 0 0 1) 1 (mmShuffle 0 0 0 1) a =
      max (max (max (a 0) (a 1)) (max (a 2) (a 3))) (max (max (a 4) (a 5)) (max (a 6) (a 7))) := by
  simp [h256Ps, half8, lanewise, reversePs, shufflePs, mmShuffle, max_comm, max_left_comm, max_assoc]
theorem hmin256_ps_correct (a : Reg α) :
    h256Ps min (mmShuffle 0 1 2 3) (mmShuffle 0 0 0 1) 1 (mmShuffle 0 0 0 1) a =
      min (min (min (a 0) (a 1)) (min (a 2) (a 3))) (min (min (a 4) (a 5)) (min (a 6) (a 7))) := by
  simp [h256Ps, half8, lanewise, reversePs, shufflePs, mmShuffle, min_comm, min_left_comm, min_assoc]

theorem hmax256_pd_correct (a : Reg α) :
    h256Pd max 1 5 (mmShuffle 0 0 0 1) a = max (max (a 0) (a 1)) (max (a 2) (a 3)) := by
  simp [h256Pd, reverse256Pd, permute2f128Pd, shuffle256Pd, lanewise, mmShuffle, max_comm, max_left_comm, max_assoc]
theorem hmin256_pd_correct (a : Reg α) :
    h256Pd min 1 5 (mmShuffle 0 0 0 1) a = min (min (a 0) (a 1)) (min (a 2) (a 3)) := by
  simp [h256Pd, reverse256Pd, permute2f128Pd, shuffle256Pd, lanewise, mmShuffle, min_comm, min_left_comm, min_assoc]

/-- a wrong immediate is not harmless: with the high half never extracted the maximum of lanes 4..7 is lost -/
example : h256Ps max (mmShuffle 0 1 2 3) (mmShuffle 0 0 0 1) 0 (mmShuffle 0 0 0 1) (fun l => (l : Int)) = 3 := by decide

/-! horizontal sums / products: the exact association tree (what a floating-point sum computes), hence the fold -/
section hsum
variable {β : Type} (op : β → β → β)

theorem hsum_ps_tree (sse3 : Bool) (a : Reg β) :
    hsumPs op sse3 (mmShuffle 3 3 1 1) a = op (op (a 0) (a 1)) (op (a 2) (a 3)) := by
  cases sse3 <;> simp [hsumPs, lanewise, movehlPs, shufflePs, mmShuffle]
theorem hsum_pd_tree (a : Reg β) : hsumPd op a = op (a 0) (a 1) := rfl
theorem hsum256_ps_tree (sse3 : Bool) (a : Reg β) :
    hsum256Ps op sse3 (mmShuffle 3 3 1 1) 1 a = op (op (op (a 0) (a 4)) (op (a 1) (a 5))) (op (op (a 2) (a 6)) (op (a 3) (a 7))) := by
  cases sse3 <;> simp [hsum256Ps, hsumPs, half8, lanewise, movehlPs, shufflePs, mmShuffle]
theorem hprod256_ps_tree (sse3 : Bool) (a : Reg β) :
    hprod256Ps op sse3 (mmShuffle 3 3 1 1) 1 a = op (op (op (a 0) (a 1)) (op (a 2) (a 3))) (op (op (a 4) (a 5)) (op (a 6) (a 7))) := by
  cases sse3 <;> simp [hprod256Ps, hsumPs, half8, lanewise, movehlPs, shufflePs, mmShuffle]
theorem hsum256_pd_tree (a : Reg β) : hsum256Pd op 5 1 a = op (op (a 0) (a 1)) (op (a 2) (a 3)) := by
  simp [hsum256Pd, lanewise, shuffle256Pd]
theorem hprod256_pd_tree (a : Reg β) : hprod256Pd op 5 1 a = op (op (a 2) (a 3)) (op (a 0) (a 1)) := by
  simp [hprod256Pd, lanewise, shuffle256Pd]
end hsum


section hfoldmonoid
open Finset
variable {M : Type} [CommMonoid M]

/-- in a commutative monoid the horizontal trees are the product over all lanes -/
theorem hsum_ps_fold (sse3 : Bool) (a : Reg M) : hsumPs (· * ·) sse3 (mmShuffle 3 3 1 1) a = ∏ l ∈ range 4, a l := by
  rw [hsum_ps_tree]; simp [Finset.prod_range_succ, mul_assoc]
theorem hsum256_ps_fold (sse3 : Bool) (a : Reg M) : hsum256Ps (· * ·) sse3 (mmShuffle 3 3 1 1) 1 a = ∏ l ∈ range 8, a l := by
  rw [hsum256_ps_tree]; simp [Finset.prod_range_succ]; ac_rfl
theorem hprod256_ps_fold (sse3 : Bool) (a : Reg M) : hprod256Ps (· * ·) sse3 (mmShuffle 3 3 1 1) 1 a = ∏ l ∈ range 8, a l := by
  rw [hprod256_ps_tree]; simp [Finset.prod_range_succ, mul_assoc]
theorem hsum256_pd_fold (a : Reg M) : hsum256Pd (· * ·) 5 1 a = ∏ l ∈ range 4, a l := by
  rw [hsum256_pd_tree]; simp [Finset.prod_range_succ, mul_assoc]
theorem hprod256_pd_fold (a : Reg M) : hprod256Pd (· * ·) 5 1 a = ∏ l ∈ range 4, a l := by
  rw [hprod256_pd_tree]; simp [Finset.prod_range_succ]; ac_rfl
end hfoldmonoid

set_option linter.unusedSimpArgs false
section hpicklink
open Fastor.Reduce
variable {α : Type} [LinearOrder α]

theorem ite_lt_min (a q : α) : (if decide (a < q) = true then a else q) = min a q := by
  by_cases h : a < q
  · simp [h, min_eq_left (le_of_lt h)]
  · simp [h, min_eq_right (not_lt.1 h)]
theorem ite_gt_max (a q : α) : (if decide (q < a) = true then a else q) = max a q := by
  by_cases h : q < a
  · simp [h, max_eq_left (le_of_lt h)]
  · simp [h, max_eq_right (not_lt.1 h)]

/-- the generic / integer horizontal `minimum()` (`hpick`, the form `min_in_input` is proved for) and the float SSE helper
    `_mm_hmin_ps` return the same value, so `min_in_input` holds verbatim for the float path (V = 4) -/
theorem hpick_eq_hmin_ps (v : Reg α) :
    hpick (fun a b => decide (a < b)) 4 v = hPs min (mmShuffle 0 1 2 3) (mmShuffle 0 0 0 1) v := by
  rw [hmin_ps_correct]
  simp only [hpick, List.range, List.range.loop, List.foldl, ite_lt_min]
  simp [min_comm, min_left_comm, min_assoc]
theorem hpick_eq_hmax_ps (v : Reg α) :
    hpick (fun a b => decide (b < a)) 4 v = hPs max (mmShuffle 0 1 2 3) (mmShuffle 0 0 0 1) v := by
  rw [hmax_ps_correct]
  simp only [hpick, List.range, List.range.loop, List.foldl, ite_gt_max]
  simp [max_comm, max_left_comm, max_assoc]
theorem hpick_eq_hmin256_ps (v : Reg α) :
    hpick (fun a b => decide (a < b)) 8 v = h256Ps min (mmShuffle 0 1 2 3) (mmShuffle 0 0 0 1) 1 (mmShuffle 0 0 0 1) v := by
  rw [hmin256_ps_correct]
  simp only [hpick, List.range, List.range.loop, List.foldl, ite_lt_min]
  simp [min_comm, min_left_comm, min_assoc]
theorem hpick_eq_hmax256_ps (v : Reg α) :
    hpick (fun a b => decide (b < a)) 8 v = h256Ps max (mmShuffle 0 1 2 3) (mmShuffle 0 0 0 1) 1 (mmShuffle 0 0 0 1) v := by
  rw [hmax256_ps_correct]
  simp only [hpick, List.range, List.range.loop, List.foldl, ite_gt_max]
  simp [max_comm, max_left_comm, max_assoc]
theorem hpick_eq_hmin_pd (v : Reg α) : hpick (fun a b => decide (a < b)) 2 v = hPd min 1 v := by
  rw [hmin_pd_correct]
  simp only [hpick, List.range, List.range.loop, List.foldl, ite_lt_min]
  simp [min_comm, min_left_comm, min_assoc]
theorem hpick_eq_hmax_pd (v : Reg α) : hpick (fun a b => decide (b < a)) 2 v = hPd max 1 v := by
  rw [hmax_pd_correct]
  simp only [hpick, List.range, List.range.loop, List.foldl, ite_gt_max]
  simp [max_comm, max_left_comm, max_assoc]
theorem hpick_eq_hmin256_pd (v : Reg α) : hpick (fun a b => decide (a < b)) 4 v = h256Pd min 1 5 (mmShuffle 0 0 0 1) v := by
  rw [hmin256_pd_correct]
  simp only [hpick, List.range, List.range.loop, List.foldl, ite_lt_min]
  simp [min_comm, min_left_comm, min_assoc]
theorem hpick_eq_hmax256_pd (v : Reg α) : hpick (fun a b => decide (b < a)) 4 v = h256Pd max 1 5 (mmShuffle 0 0 0 1) v := by
  rw [hmax256_pd_correct]
  simp only [hpick, List.range, List.range.loop, List.foldl, ite_gt_max]
  simp [max_comm, max_left_comm, max_assoc]
end hpicklink
end horizontal

/-! ## determinants -/

/-- the row-major flat array `a` of an `n × n` matrix as a `Matrix` -/
def flatMat {R : Type} (n : Nat) (a : Nat → R) : Matrix (Fin n) (Fin n) R := Matrix.of fun i j => a (i.val * n + j.val)

section det
variable {R : Type} [CommRing R]

theorem det1_correct (a : Nat → R) : detSimple 1 a = (flatMat 1 a).det := by
  simp [detSimple, flatMat]

theorem det2_correct (a : Nat → R) : detSimple 2 a = (flatMat 2 a).det := by
  simp [detSimple, det2, flatMat, Matrix.det_fin_two]

theorem det3_correct (a : Nat → R) : detSimple 3 a = (flatMat 3 a).det := by
  simp [detSimple, det3, flatMat, Matrix.det_fin_three]
  ring

theorem det4_correct (a : Nat → R) : detSimple 4 a = (flatMat 4 a).det := by
  simp [detSimple, det4, flatMat, Matrix.det_succ_row_zero, Fin.sum_univ_succ, Fin.succAbove, Matrix.submatrix]
  ring

/-- non-vacuity: the closed forms on a concrete integer matrix -/
example : detSimple 3 (fun i => ([2, 1, 0, 1, -3, 1, 0, 1, 4] : List Int).getD i 0) = -30 := by decide

/-- **determinant<LU>**: if the row permutation `σ` found by the static pivot search is a product of `swaps` transpositions
    (`count_swaps`), and `lu` returned `L` unit lower triangular and `U` upper triangular with `P A = L U`, then
    `product(diag(U)) * (swaps even ? 1 : -1)` is the determinant of `A`. -/
theorem detLU_correct {n : Nat} (A L U : Matrix (Fin n) (Fin n) R) (sw : List (Equiv.Perm (Fin n)))
    (hsw : ∀ g ∈ sw, g.IsSwap) (hPA : A.submatrix sw.prod id = L * U)
    (hL : L.BlockTriangular OrderDual.toDual) (hL1 : ∀ i, L i i = 1) (hU : U.BlockTriangular id)
    (V ev : Nat) (hn : n < 2 ^ 64) (hev : ev ≤ 64) (hV : V = 2 ^ ev) :
    detLU sw.length (fun i => if h : i < n then U ⟨i, h⟩ ⟨i, h⟩ else 1) n V = A.det := by
  unfold detLU
  rw [product_correct _ n V ev hn hev hV]
  have hprod : ∏ i ∈ range n, (if h : i < n then U ⟨i, h⟩ ⟨i, h⟩ else (1 : R)) = ∏ i : Fin n, U i i := by
    rw [← Fin.prod_univ_eq_prod_range (fun i => if h : i < n then U ⟨i, h⟩ ⟨i, h⟩ else (1 : R)) n]
    apply Finset.prod_congr rfl
    intro i _; simp
  rw [hprod]
  have hdet := congrArg Matrix.det hPA
  rw [Matrix.det_permute, Matrix.det_mul, Matrix.det_of_isLowerTriangular L hL, Matrix.det_of_isUpperTriangular hU] at hdet
  simp only [hL1, Finset.prod_const_one, one_mul] at hdet
  rw [← hdet, Equiv.Perm.sign_prod_list_swap hsw]
  rcases Nat.even_or_odd sw.length with he | ho
  · have : sw.length % 2 = 0 := Nat.even_iff.1 he
    simp [this, he.neg_one_pow]
  · have : sw.length % 2 = 1 := Nat.odd_iff.1 ho
    simp [this, ho.neg_one_pow]

/-- non-vacuity of `detLU_correct`: `A = [[0,1],[1,0]]`, one row swap, `L = U = 1`: the hypotheses hold and `detLU = -1 = det A` -/
example : detLU 1 (fun _ => (1 : Int)) 2 2 = -1 := by decide
example : (Matrix.of ![![(0 : Int), 1], ![1, 0]]).submatrix ([Equiv.swap (0 : Fin 2) 1].prod) id = (1 : Matrix (Fin 2) (Fin 2) Int) * 1 := by
  ext i j; fin_cases i <;> fin_cases j <;> simp

/-- `determinant<QR>` as written is `product(diag(R))`; with `R_ii = sqrt(…) ≥ 0` it cannot be negative: the sign of
    the determinant is lost (known finding QRSIGN; replayed by the `detqr … sgn=neg` cases) -/
theorem detQR_nonneg {K : Type} [CommRing K] [LinearOrder K] [IsStrictOrderedRing K] (rdiag : Nat → K) (n V ev : Nat) (hn : n < 2 ^ 64) (hev : ev ≤ 64)
    (hV : V = 2 ^ ev) (hpos : ∀ i < n, 0 ≤ rdiag i) : 0 ≤ detQR rdiag n V := by
  unfold detQR
  rw [product_correct _ n V ev hn hev hV]
  exact Finset.prod_nonneg (fun i hi => hpos i (Finset.mem_range.1 hi))
end det

end Fastor.C16
